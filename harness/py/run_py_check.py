#!/usr/bin/env python3
"""End-to-end check of one Python property without ./vp:
   run_py_check.py <prop> <seed> [quick|thorough] [nshards nhist]
generates the shards, runs the extracted model and the real module on each (16 in parallel),
compares the traces line by line at the property's levels and lists oracle violations.
Exit code 0 = no divergence and no VIOL for <prop>; 1 otherwise; 2 = build error."""
import sys, os, time, glob
from concurrent.futures import ThreadPoolExecutor
ROOT = os.path.dirname(os.path.dirname(os.path.dirname(os.path.abspath(__file__))))
sys.path.insert(0, os.path.join(ROOT, "tools"))
import props_py as PP  # noqa: E402


def split_histories(path):
    cur, hid = None, None
    with open(path, errors="replace") as fh:
        for line in fh:
            if line.startswith("H "):
                if cur is not None:
                    yield hid, cur
                hid = line.split()[1]
                cur = [line.rstrip("\n")]
            elif cur is not None:
                cur.append(line.rstrip("\n"))
    if cur is not None:
        yield hid, cur


def compare(model_path, impl_path, levels):
    divs, nh, nobs = [], 0, 0
    mh = dict(split_histories(model_path))
    for hid, il in split_histories(impl_path):
        nh += 1
        ml = mh.get(hid)
        if ml is None:
            divs.append((hid, 0, "<history missing in model trace>", il[0]))
            continue
        fi = [l for l in il[1:] if l.split(" ", 1)[0] in levels]
        fm = [l for l in ml[1:] if l.split(" ", 1)[0] in levels]
        nobs += len(fi)
        step = -1
        for k in range(max(len(fi), len(fm))):
            a = fi[k] if k < len(fi) else "<end of trace>"
            b = fm[k] if k < len(fm) else "<end of trace>"
            if a.startswith("O ") or b.startswith("O "):
                step += 1
            if a != b:
                divs.append((hid, step, b[:300], a[:300]))
                break
    return nh, nobs, divs


def main():
    prop, seed = sys.argv[1], int(sys.argv[2])
    tier = sys.argv[3] if len(sys.argv) > 3 else "quick"
    cfg = PP.PROPS_PY[prop]
    nshard, nhist = cfg[tier]
    if len(sys.argv) > 5:
        nshard, nhist = int(sys.argv[4]), int(sys.argv[5])
    t0 = time.time()
    runner = PP.PyRunner(ROOT, os.path.join(ROOT, "build"), tier)
    err = runner.build()
    if err:
        print("ERROR", err)
        return 2
    shards = []
    for f in sorted(glob.glob(os.path.join(ROOT, "corpus", prop, "*.ops"))):
        shards.append(open(f).read())
    ncorp = len(shards)
    for s in range(nshard):
        shards.append("".join(h.text() for h in PP.gen_histories(prop, seed, s, nhist, tier)))
    jobs = [(f"py-{prop}-{i}", text, None, runner, True) for i, text in enumerate(shards)]
    with ThreadPoolExecutor(16) as ex:
        results = list(ex.map(runner.run_shard, jobs))
    nh = nobs = nops = nontriv = 0
    divs, viols, other = [], [], []
    for r in results:
        d = r["dir"]
        if r["model_rc"] != 0 or r["impl_rc"] != 0:
            print("RUN FAILURE", r["tag"], r["model_rc"], r["model_err"], r["impl_rc"], r["impl_out"][-800:])
            divs.append((r["tag"], 0, "run failure", ""))
            continue
        a, b, dv = compare(os.path.join(d, "model"), os.path.join(d, "impl"), cfg["levels"])
        nh += a
        nobs += b
        divs += [(d,) + x for x in dv]
        nops += sum(1 for l in open(os.path.join(d, "impl")) if l.startswith("O "))
        nontriv += runner.nontrivial_stats(os.path.join(d, "impl"))
        for l in open(os.path.join(d, "viol")):
            (viols if l.startswith("VIOL " + prop + " ") else other).append((d, l.strip()))
    for x in divs[:5]:
        print("DIVERGENCE", x)
    for d, v in viols[:8]:
        print(d, v[:300])
    print(f"[{prop}] variant={runner.variant} tier={tier} seed={seed} corpus_files={ncorp} histories={nh} calls={nops} "
          f"observations={nobs} nontrivial={nontriv} divergences={len(divs)} viol[{prop}]={len(viols)} "
          f"viol[other props]={len(other)} wall={time.time() - t0:.1f}s")
    return 0 if not divs and not viols else 1


if __name__ == "__main__":
    sys.exit(main())
