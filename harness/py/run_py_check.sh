#!/bin/sh
# usage: run_py_check.sh <prop> <seed> [quick|thorough] [nshards nhist]
# env: PY_MODEL_VARIANT=fixed|legacy  BPT_PY_PATH=<dir with bplustree/>  PYGEN_AVOID_NONE_DELETE=1
exec python3 "$(dirname "$0")/run_py_check.py" "$@"
