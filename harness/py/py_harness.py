#!/usr/bin/env python3
"""Harness for the pure-Python BPlusTreeMap of /repo/python/bplustree/bplus_tree.py.

   py_harness.py <ops> <trace> <viol>

Reads the op file that the extracted Coq model reads too, drives the REAL module,
prints the same trace lines (O = result of the call, S2 = logical dump of the real object
graph, CH = leaf chain / head / bulk-load cache as in-order leaf positions obtained by object
identity) and runs direct oracles that do not depend on the model:
   C07  a dict mirror driven by the same calls (results, KeyErrors, InvalidCapacityError)
   C08  sorted + filtered dict for items/keys/values/range with (start, end)
   C09  an independent structural checker (min keys written literally as (capacity-1)//2)
        and bulk load vs incremental build
Every oracle failure is written as   VIOL <prop> <hid> <step> <what>.

The model's integer key kz is mapped through an order-preserving encoder chosen on the H
line (keys=int|str|tuple|float|obj), so the implementation sees keys of that Python type.
The module is loaded from $BPT_PY_PATH (default /repo/python) by file path (the package
__init__ would prefer a C extension); no bytecode is written into the repository.
"""
import sys, os, signal
sys.dont_write_bytecode = True
import importlib.util

PYROOT = os.environ.get("BPT_PY_PATH", "/repo/python")
_spec = importlib.util.spec_from_file_location(
    "bplus_tree_under_test", os.path.join(PYROOT, "bplustree", "bplus_tree.py"))
M = importlib.util.module_from_spec(_spec)
_spec.loader.exec_module(M)
BPlusTreeMap, LeafNode, BranchNode = M.BPlusTreeMap, M.LeafNode, M.BranchNode
InvalidCapacityError = M.InvalidCapacityError


class KeysOnly:
    """what dict.update also accepts: an object with keys() and __getitem__ only"""

    def __init__(self, d):
        self._d = d

    def keys(self):
        return self._d.keys()

    def __getitem__(self, k):
        return self._d[k]


# ----------------------------------------------------------------------------- keys
class K:
    """user-defined totally ordered key class"""
    __slots__ = ("z",)

    def __init__(self, z):
        self.z = z

    def __lt__(self, o): return self.z < o.z
    def __le__(self, o): return self.z <= o.z
    def __gt__(self, o): return self.z > o.z
    def __ge__(self, o): return self.z >= o.z
    def __eq__(self, o): return isinstance(o, K) and self.z == o.z
    def __ne__(self, o): return not self.__eq__(o)
    def __hash__(self): return hash(self.z)
    def __repr__(self): return "K(%d)" % self.z


ENCODERS = {
    # every encoder is strictly monotone and returns a FRESH object on each call
    "int": lambda z: z * 1000003 + 500,
    "str": lambda z: "k%020d" % (z + 2 ** 62),
    "tuple": lambda z: (z // 7, z % 7),
    "float": lambda z: float(z) * 0.5,
    "obj": lambda z: K(z),
}


class Keys:
    """creates key objects and remembers, per object identity, which (kz, kid) it is"""

    def __init__(self, mode):
        self.enc = ENCODERS[mode]
        self.info = {}
        self.alive = []          # keeps every registered object alive, so ids stay unique

    def probe(self, z):
        return self.enc(z)

    def make(self, z, kid):
        o = self.enc(z)
        self.info[id(o)] = (z, kid)
        self.alive.append(o)
        return o

    def show(self, o):
        t = self.info.get(id(o))
        return "%d#%d" % t if t else "?%r" % (o,)


def s_val(v):
    return "None" if v is None else str(v)


def s_list(xs):
    return "[" + " ".join(xs) + "]"


def val_of(s):
    return None if s == "N" else int(s)


# ----------------------------------------------------------------------------- dumps
def dump_tree(name, t, keys, out):
    order = {}
    parts = []

    def go(n, depth):
        if depth > 200:
            parts.append("(DEEP)")
            return
        if isinstance(n, LeafNode):
            order[id(n)] = len(order)
            parts.append("(L %d %s %s)" % (n.capacity, s_list([keys.show(k) for k in n.keys]),
                                           s_list([s_val(v) for v in n.values])))
        else:
            parts.append("(B %d %s" % (n.capacity, s_list([keys.show(k) for k in n.keys])))
            for c in n.children:
                parts.append(" ")
                go(c, depth + 1)
            parts.append(")")
    go(t.root, 0)
    out.append("S2 map=%d cap=%d %s" % (name, t.capacity, "".join(parts)))
    ch = []
    cur, steps = t.leaves, 0
    while cur is not None:
        if steps > len(order) + 1:
            ch.append("CYCLE")
            break
        p = order.get(id(cur))
        if p is None:
            ch.append("?")
            break
        ch.append(str(p))
        cur = cur.next
        steps += 1

    def pos(n):
        p = order.get(id(n))
        return "dead" if p is None else str(p)
    cache = t._rightmost_leaf_cache
    out.append("CH%s | head=%s cache=%s n=%d" % ("".join(" " + c for c in ch), pos(t.leaves),
                                                  "none" if cache is None else pos(cache), len(order)))


# ----------------------------------------------------------------------------- C09 checker
def check_structure(t):
    """independent structural checker; returns a list of complaints"""
    bad = []
    cap = t.capacity
    minimum = (cap - 1) // 2
    leaves = []
    depths = set()

    def walk(n, lo, hi, depth, is_root):
        ks = n.keys
        for i in range(len(ks) - 1):
            if not (ks[i] < ks[i + 1]):
                bad.append("keys not strictly ascending at depth %d" % depth)
                break
        for k in ks:
            if lo is not None and k < lo:
                bad.append("key below the separator bound at depth %d" % depth)
                break
            if hi is not None and not (k < hi):
                bad.append("key not below the separator bound at depth %d" % depth)
                break
        if len(ks) > cap:
            bad.append("node with %d keys exceeds capacity %d" % (len(ks), cap))
        if n.capacity != cap:
            bad.append("node capacity attribute %r differs from the map's %r" % (n.capacity, cap))
        if not is_root and len(ks) < minimum:
            bad.append("non-root %s with %d keys < (capacity-1)//2 = %d"
                       % ("leaf" if isinstance(n, LeafNode) else "branch", len(ks), minimum))
        if isinstance(n, LeafNode):
            if len(n.values) != len(ks):
                bad.append("leaf with %d keys and %d values" % (len(ks), len(n.values)))
            leaves.append(n)
            depths.add(depth)
        elif isinstance(n, BranchNode):
            if len(n.children) != len(ks) + 1:
                bad.append("branch with %d keys and %d children" % (len(ks), len(n.children)))
                return
            if is_root and len(n.children) < 2:
                bad.append("branch root with %d children" % len(n.children))
            for i, c in enumerate(n.children):
                walk(c, lo if i == 0 else ks[i - 1], hi if i == len(ks) else ks[i], depth + 1, False)
        else:
            bad.append("node of unknown class %r" % type(n).__name__)
    walk(t.root, None, None, 0, True)
    if len(depths) > 1:
        bad.append("leaves at different depths %s" % sorted(depths))
    # the chain from the map's first leaf visits exactly the leaves, in order
    cur, i = t.leaves, 0
    while cur is not None and i <= len(leaves):
        if i >= len(leaves) or cur is not leaves[i]:
            bad.append("leaf chain differs from the in-order leaves at chain position %d" % i)
            break
        cur = cur.next
        i += 1
    else:
        if cur is not None:
            bad.append("leaf chain longer than the number of leaves")
        elif i != len(leaves):
            bad.append("leaf chain visits %d of %d leaves" % (i, len(leaves)))
    return bad


# ----------------------------------------------------------------------------- history runner
NONFATAL = ("KeyError", "TypeError", "InvalidCapacityError")
ABSENT = object()


class History:
    def __init__(self, hid, mode, trace, viol):
        self.hid = hid
        self.keys = Keys(mode)
        self.trace = trace
        self.viol = viol
        self.maps = {}            # name -> BPlusTreeMap
        self.mirror = {}          # name -> dict (C07 oracle)
        self.cur = 0
        self.step = 0
        self.dead = False
        self.dumping = True
        self.universe = set()     # every kz used so far

    # ---- oracle plumbing
    def v(self, prop, what):
        self.viol.append("VIOL %s %s %d %s" % (prop, self.hid, self.step, what))

    def ksorted(self, d):
        return sorted(d.items(), key=lambda kv: kv[0])

    def expect(self, prop, what, got, want):
        if got != want:
            self.v(prop, "%s: implementation %s, reference %s" % (what, got, want))

    def sweep_lookup(self, t, d):
        """every key ever used: membership and get agree with the dict"""
        for z in sorted(self.universe):
            p = self.keys.probe(z)
            a, b = (p in t), (p in d)
            if a != b:
                self.v("C07", "membership of key %d: implementation %s, dict %s" % (z, a, b))
                return
            ga, gb = t.get(p, ABSENT), d.get(p, ABSENT)
            if not (ga is gb or ga == gb):
                self.v("C07", "get(%d): implementation %r, dict %r" % (z, ga, gb))
                return
        if len(t) != len(d):
            self.v("C07", "len: implementation %d, dict %d" % (len(t), len(d)))
        if bool(t) != bool(d):
            self.v("C07", "bool: implementation %s, dict %s" % (bool(t), bool(d)))

    def check_iteration(self, t, d):
        want = self.ksorted(d)
        got = list(t.items())
        if [(self.keys.show(k), v) for k, v in got] != [(self.keys.show(k), v) for k, v in want]:
            self.v("C08", "items() differs from the sorted dict: %s vs %s"
                   % (self.fmt_items(got), self.fmt_items(want)))
        if [self.keys.show(k) for k in t.keys()] != [self.keys.show(k) for k, _ in want]:
            self.v("C08", "keys() differs from the sorted dict keys")
        if list(t.values()) != [v for _, v in want]:
            self.v("C08", "values() differs from the sorted dict values")

    def filtered(self, d, a, b):
        return [(k, v) for k, v in self.ksorted(d)
                if (a is None or not (k < a)) and (b is None or k < b)]

    def check_range(self, t, d, za, zb):
        a = None if za is None else self.keys.probe(za)
        b = None if zb is None else self.keys.probe(zb)
        want = self.filtered(d, a, b)
        wi = [(self.keys.show(k), v) for k, v in want]
        for meth in ("items", "range"):
            got = [(self.keys.show(k), v) for k, v in getattr(t, meth)(a, b)]
            if got != wi:
                self.v("C08", "%s(%s, %s): implementation %s, reference %s" % (meth, za, zb, got, wi))
                return
        if [self.keys.show(k) for k in t.keys(a, b)] != [k for k, _ in wi]:
            self.v("C08", "keys(%s, %s) differs from the reference" % (za, zb))
        if list(t.values(a, b)) != [v for _, v in wi]:
            self.v("C08", "values(%s, %s) differs from the reference" % (za, zb))

    def sweep_ranges(self, t, d):
        """all (start, end) pairs over present keys, gaps, sentinels and None"""
        zs = sorted(self.universe)
        present = sorted(self.keys.info[id(k)][0] for k in d)
        pick = present if len(present) <= 5 else [present[(len(present) - 1) * i // 4] for i in range(5)]
        pts = set()
        for z in pick:
            pts.update((z, z + 1))
        if zs:
            pts.update((zs[0] - 1, zs[-1] + 1, zs[len(zs) // 2]))
        ends = [None] + sorted(pts)
        for za in ends:
            for zb in ends:
                self.check_range(t, d, za, zb)

    def after_mutation(self, t, d):
        if not self.dumping:
            return              # large histories: only call results are compared until DUMP 1
        for c in check_structure(t):
            self.v("C09", c)
        self.sweep_lookup(t, d)
        self.check_iteration(t, d)

    def fmt_items(self, l):
        return s_list(["%s=%s" % (self.keys.show(k), s_val(v)) for k, v in l])

    # ---- execution
    def emit(self, s):
        self.trace.append("O " + s)

    def dump(self):
        if not self.dumping:
            return
        t = self.maps.get(self.cur)
        if t is None:
            self.trace.append("S2 map=%d NOMAP" % self.cur)
        else:
            dump_tree(self.cur, t, self.keys, self.trace)

    def construct(self, name, cap):
        try:
            t = BPlusTreeMap(capacity=cap)
        except InvalidCapacityError:
            if cap >= 4:
                self.v("C07", "capacity %d rejected with InvalidCapacityError" % cap)
            return "EXC InvalidCapacityError"
        except Exception as e:            # noqa: nothing else may come out of the constructor
            self.v("C07", "BPlusTreeMap(capacity=%d) raised %s: %s" % (cap, type(e).__name__, str(e)[:120]))
            self.viol.append("VIOL * %s %d the constructor raised %s" % (self.hid, self.step, type(e).__name__))
            return "EXC " + type(e).__name__
        if cap < 4:
            self.v("C07", "capacity %d below 4 accepted" % cap)
        self.maps[name] = t
        self.mirror[name] = {}
        self.cur = name
        self.after_mutation(t, self.mirror[name])
        return "None"

    def run_op(self, toks):
        """returns the canonical output string"""
        kind = toks[0]
        keys = self.keys
        if kind == "new":
            return self.construct(int(toks[1]), int(toks[2]))
        if kind == "bulk":
            return self.bulk(int(toks[1]), int(toks[2]), toks[3:])
        if kind == "use":
            n = int(toks[1])
            if n not in self.maps:
                return "NOMAP"
            self.cur = n
            return "None"
        t = self.maps.get(self.cur)
        if t is None:
            return "NOMAP"
        d = self.mirror[self.cur]
        if kind == "set":
            z, kid, val = int(toks[1]), int(toks[2]), val_of(toks[3])
            self.universe.add(z)
            k = keys.make(z, kid)
            t[k] = val
            d[k] = val
            self.after_mutation(t, d)
            return "None"
        if kind == "getitem":
            z = int(toks[1])
            self.universe.add(z)
            p = keys.probe(z)
            try:
                want = ("ok", d[p])
            except KeyError:
                want = ("KeyError",)
            try:
                r = t[p]
                got = ("ok", r)
            except KeyError:
                got = ("KeyError",)
            self.expect("C07", "m[%d]" % z, got, want)
            return s_val(got[1]) if got[0] == "ok" else "EXC KeyError"
        if kind == "del":
            z = int(toks[1])
            self.universe.add(z)
            p = keys.probe(z)
            try:
                del d[p]
                want = "ok"
            except KeyError:
                want = "KeyError"
            try:
                del t[p]
                got = "ok"
            except KeyError:
                got = "KeyError"
            self.expect("C07", "del m[%d]" % z, got, want)
            self.after_mutation(t, d)
            return "None" if got == "ok" else "EXC KeyError"
        if kind == "get":
            z = int(toks[1])
            self.universe.add(z)
            p = keys.probe(z)
            if len(toks) > 2:
                dv = val_of(toks[2])
                got, want = t.get(p, dv), d.get(p, dv)
            else:
                got, want = t.get(p), d.get(p)
            self.expect("C07", "m.get(%s)" % ", ".join(toks[1:]), got, want)
            return s_val(got)
        if kind == "in":
            z = int(toks[1])
            self.universe.add(z)
            p = keys.probe(z)
            got, want = (p in t), (p in d)
            self.expect("C07", "%d in m" % z, got, want)
            return "True" if got else "False"
        if kind == "len":
            got = len(t)
            self.expect("C07", "len(m)", got, len(d))
            return str(got)
        if kind == "bool":
            got = bool(t)
            self.expect("C07", "bool(m)", got, bool(d))
            return "True" if got else "False"
        if kind == "pop":
            z = int(toks[1])
            self.universe.add(z)
            p = keys.probe(z)
            args = [val_of(x) for x in toks[2:]]

            def call(m):
                try:
                    return ("ok", m.pop(p, *args))
                except KeyError:
                    return ("KeyError",)
                except TypeError:
                    return ("TypeError",)
            want = call(d)
            got = call(t)
            self.expect("C07", "m.pop(%s)" % ", ".join(toks[1:]), got, want)
            self.after_mutation(t, d)
            return s_val(got[1]) if got[0] == "ok" else "EXC " + got[0]
        if kind == "popitem":
            # the property: popitem removes the smallest key
            if d:
                k0 = min(d)
                want = ("ok", keys.show(k0), d.pop(k0))
            else:
                want = ("KeyError",)
            try:
                k, val = t.popitem()
                got = ("ok", keys.show(k), val)
            except KeyError:
                got = ("KeyError",)
            self.expect("C07", "m.popitem()", got, want)
            self.after_mutation(t, d)
            return "(%s, %s)" % (got[1], s_val(got[2])) if got[0] == "ok" else "EXC KeyError"
        if kind == "setdefault":
            z, kid = int(toks[1]), int(toks[2])
            self.universe.add(z)
            k = keys.make(z, kid)
            if len(toks) > 3:
                dv = val_of(toks[3])
                got, want = t.setdefault(k, dv), d.setdefault(k, dv)
            else:
                got, want = t.setdefault(k), d.setdefault(k)
            self.expect("C07", "m.setdefault(%s)" % ", ".join(toks[1:]), got, want)
            self.after_mutation(t, d)
            return s_val(got)
        if kind == "update":
            pairs = []
            for item in toks[1:]:
                z, kid, val = item.split(":")
                self.universe.add(int(z))
                pairs.append((keys.make(int(z), int(kid)), val_of(val)))
            # a mapping when the keys are pairwise distinct and the step number is even,
            # otherwise an iterable of pairs (both argument forms of update)
            zs = [int(i.split(":")[0]) for i in toks[1:]]
            distinct = len(set(zs)) == len(pairs)
            if distinct and zs == sorted(zs) and self.step % 2 == 0:
                # another BPlusTreeMap as the argument (its items() come in key order, which is the order given)
                other = BPlusTreeMap(capacity=4 + self.step % 5)
                for k, v in pairs:
                    other[k] = v
                t.update(other)
            elif distinct and self.step % 3 == 0:
                t.update(dict(pairs))
            elif distinct and self.step % 3 == 1:
                t.update(KeysOnly(dict(pairs)))      # has keys() and __getitem__ but no items()
            else:
                t.update(pairs)
            d.update(pairs)
            self.after_mutation(t, d)
            return "None"
        if kind == "copy":
            n = int(toks[1])
            c = t.copy()
            if c is t:
                self.v("C07", "copy() returned the same object")
            self.maps[n] = c
            self.mirror[n] = dict(d)
            self.cur = n
            self.after_mutation(c, self.mirror[n])
            return "None"
        if kind == "clear":
            t.clear()
            d.clear()
            self.after_mutation(t, d)
            return "None"
        if kind in ("items", "keys", "values", "range"):
            za = None if toks[1] == "-" else int(toks[1])
            zb = None if toks[2] == "-" else int(toks[2])
            a = None if za is None else keys.probe(za)
            b = None if zb is None else keys.probe(zb)
            want = self.filtered(d, a, b)
            if za is None and zb is None and kind != "range" and self.step % 2 == 0:
                res = list(getattr(t, kind)())          # the zero-argument call form
            else:
                res = list(getattr(t, kind)(a, b))
            if kind in ("items", "range"):
                got = self.fmt_items(res)
                ref = self.fmt_items(want)
            elif kind == "keys":
                got = s_list([keys.show(k) for k in res])
                ref = s_list([keys.show(k) for k, _ in want])
            else:
                got = s_list([s_val(x) for x in res])
                ref = s_list([s_val(x) for _, x in want])
            self.expect("C08", "m.%s(%s, %s)" % (kind, toks[1], toks[2]), got, ref)
            return got
        return "?unparsed " + " ".join(toks)

    def bulk(self, name, cap, items):
        pairs = []
        for item in items:
            z, kid, val = item.split(":")
            self.universe.add(int(z))
            pairs.append((self.keys.make(int(z), int(kid)), val_of(val)))
        try:
            t = BPlusTreeMap.from_sorted_items(list(pairs), capacity=cap)
        except InvalidCapacityError:
            if cap >= 4:
                self.v("C07", "capacity %d rejected with InvalidCapacityError" % cap)
            return "EXC InvalidCapacityError"
        if cap < 4:
            self.v("C07", "capacity %d below 4 accepted" % cap)
        d = {}
        for k, val in pairs:
            d[k] = val
        # C09: same contents as assigning the items one by one
        inc = BPlusTreeMap(capacity=cap)
        for k, val in pairs:
            inc[k] = val
        a = [(self.keys.show(k), val) for k, val in t.items()]
        b = [(self.keys.show(k), val) for k, val in inc.items()]
        if a != b:
            self.v("C09", "from_sorted_items differs from the incremental build: %s vs %s" % (a, b))
        if a != [(self.keys.show(k), val) for k, val in self.ksorted(d)]:
            self.v("C09", "from_sorted_items differs from the dict built from the same items")
        for c in check_structure(inc):
            self.v("C09", "incremental build: " + c)
        self.maps[name] = t
        self.mirror[name] = d
        self.cur = name
        self.after_mutation(t, d)
        return "None"

    def line(self, toks):
        """one op-file line under the watchdog: the call itself, the state dump and the oracles all
        call into the implementation, and any of them may fail to return"""
        try:
            signal.alarm(WATCHDOG * (4 if toks[0] == "ORACLE" else 1))
            try:
                self._line(toks)
            finally:
                signal.alarm(0)
        except Watchdog:
            self.emit("EXC NonTermination")
            self.viol.append("VIOL * %s %d non-termination: %s (or the dump / oracle calls after it) did not return within %d s" %
                             (self.hid, self.step, " ".join(toks)[:60], WATCHDOG))
            self.dead = True
            WD_HITS.append(self.hid)

    def _line(self, toks):
        if toks[0] == "DUMP":
            self.dumping = toks[1] != "0"
            t = self.maps.get(self.cur)
            if self.dumping and t is not None and not self.dead:
                self.after_mutation(t, self.mirror[self.cur])
            return
        if toks[0] == "ORACLE":
            t = self.maps.get(self.cur)
            if t is not None and not self.dead:
                self.sweep_ranges(t, self.mirror[self.cur])
            return
        if self.dead:
            return
        self.step += 1
        try:
            out = self.run_op(toks)
        except Watchdog:
            raise
        except BaseException as e:        # noqa: an exception class the call should not raise
            name = type(e).__name__
            self.emit("EXC " + name)
            self.v("C07", "%s raised %s: %s" % (" ".join(toks)[:60], name, str(e)[:120]))
            if name not in NONFATAL:
                self.dead = True
            else:
                self.dump()
            return
        self.emit(out)
        self.dump()


class Watchdog(BaseException):
    pass


def _on_alarm(signum, frame):
    raise Watchdog()


WATCHDOG = int(os.environ.get("BPT_WATCHDOG", "30"))
WD_HITS = []


def main():
    import resource
    try:
        lim = int(os.environ.get("BPT_MEM_LIMIT_GB", "12")) << 30
        resource.setrlimit(resource.RLIMIT_AS, (lim, lim))
    except Exception:      # noqa
        pass
    signal.signal(signal.SIGALRM, _on_alarm)
    ops_path, trace_path, viol_path = sys.argv[1:4]
    trace, viol = [], []
    h = None
    with open(ops_path) as fh:
        for raw in fh:
            toks = raw.split()
            if not toks:
                continue
            if toks[0] == "H":
                hid = toks[1]
                cap, mode = 0, "int"
                for x in toks[3:]:
                    if x.startswith("cap="):
                        cap = int(x[4:])
                    elif x.startswith("keys="):
                        mode = x[5:]
                trace.append(raw.rstrip("\n"))
                h = History(hid, mode, trace, viol)
                try:
                    signal.alarm(WATCHDOG)
                    try:
                        out = h.construct(0, cap)
                        h.emit(out)
                        h.dump()
                    finally:
                        signal.alarm(0)
                except Watchdog:
                    viol.append("VIOL * %s 0 non-termination: the constructor (or the first dump) did not return within %d s" % (hid, WATCHDOG))
                    h.dead = True
                    WD_HITS.append(hid)
                if 0 not in h.maps:
                    h.dead = True
                continue
            if h is not None:
                h.line(toks)
            if len(WD_HITS) >= 3:
                break                     # enough to report; every further hit costs a watchdog period
    with open(trace_path, "w") as fh:
        fh.write("\n".join(trace) + ("\n" if trace else ""))
    with open(viol_path, "w") as fh:
        fh.write("\n".join(viol) + ("\n" if viol else ""))
    return 0


if __name__ == "__main__":
    sys.setrecursionlimit(1000)      # the interpreter default; the code must not depend on more
    sys.exit(main())
