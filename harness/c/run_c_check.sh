#!/bin/bash
# end-to-end check of one C-extension property: proofs (if present), builds, generated
# histories, model-vs-implementation trace comparison, direct oracles.
#   run_c_check.sh <C12|C13> <seed> [quick|thorough]
PROP=${1:-C12}; SEED=${2:-1}; TIER=${3:-quick}
exec python3 /verif/tools/props_c.py check "$PROP" --seed "$SEED" --tier "$TIER"
