#!/bin/bash
# builds the C extension from /repo sources into the given directory: build.sh <outdir> [extra cflags]
set -e
OUT=$1; shift
INC=$(python3 -c "import sysconfig;print(sysconfig.get_paths()['include'])")
SUF=$(python3 -c "import sysconfig;print(sysconfig.get_config_var('EXT_SUFFIX'))")
mkdir -p $OUT
gcc -O1 -g -shared -fPIC -std=gnu99 -fno-strict-aliasing "$@" -I$INC -I/repo/python/bplustree_c_src /repo/python/bplustree_c_src/*.c -o $OUT/bplustree_c$SUF
