#!/usr/bin/env python3
"""Implementation-side harness for the CPython extension bplustree_c (properties C12, C13).

    c_harness.py <ops> <trace> <viol>          run an op file, write the trace and the VIOL lines
    c_harness.py --build [--force]             (re)build the extension from /repo's current sources

The extension is compiled from /repo/python/bplustree_c_src on every run in which the
sources changed (content hash; --force always rebuilds) into /verif/build/cext/{plain,hook,asan};
/verif/build/cpkg*/bplustree/ receives copies of /repo/python/bplustree/{__init__,bplus_tree}.py
plus the fresh bplustree_c*.so, so that `import bplustree` there picks the C extension.

Every history runs in a worker subprocess; a worker that dies (segfault, abort, ASan report)
is reported as `VIOL C13 <hid> <step> crashed ...` and the remaining histories continue in a
new worker.  Trace lines are the ones the model driver (extract/c_driver.ml) prints:
  O  <hid> <step> <output>          T <hid> <step> <tree from _verif_dump()>
  CH <hid> <step> <num_keys of the leaves reached from tree->leaves>
  SZ <hid> <step> size=<n> mod=<modification_count>       TC .. the copy made by wcopy
  RC <hid> <step> <object>=<refcount delta w.r.t. the baseline> ..   E <hid> balanced|<deltas>
Direct oracles (independent of the model), written as `VIOL <prop> <hid> <step> <what>`:
  C12 dict mirror for every call incl. the wrapper methods; iterator fail-fast expectations
  C13 per step: refcount delta of every tracked object == number of node slots holding it
      (from _verif_dump) + references in the result the harness is holding;
      after `del tree` + gc.collect(): every delta is 0; weakrefs to user-class keys/values die
      when the harness drops its own references; capacity outside 4..65535 must raise
      ValueError; crash / ASan report.
      node memory (only when the build exposes bplustree_c._verif_counters(), i.e. /repo carries
      the counter hook build/c_nodes_hook.diff; silently skipped otherwise): after every call
      temp-array PyMem_Malloc's == PyMem_Free's; at every observed step
      node_create's - cache_aligned_free's == number of nodes in the _verif_dump() of every live
      tree object of the process (tree, copy, trees kept alive only by an iterator); after the
      history dropped everything + gc.collect(): created == freed.  Deltas w.r.t. the start of
      the history (the counters are process-wide).  `VIOL C13 <hid> <step> node-memory: ...`
Environment: C_HARNESS_ASAN=1 adds an ASan pass (only crashes / ASan reports are kept from it),
C_HARNESS_PLAIN=1 a pass on the build without the dump hook (the production build; oracles
only, no trace is written for the extra passes); C_HARNESS_HIST_TIMEOUT=<s> per-history watchdog
(default 120 s; a history that runs longer is reported as VIOL C12 .. timeout)."""
import sys, os, gc, subprocess, hashlib, shutil, fcntl, signal, weakref, sysconfig, glob

ROOT = os.path.dirname(os.path.dirname(os.path.dirname(os.path.abspath(__file__))))
BUILD = os.path.join(ROOT, "build")
BUILD_SH = os.path.join(ROOT, "harness", "c", "build_ext.sh")
# self-test of the checker only (mutated copies of the sources in a scratch directory):
#   C_HARNESS_SRC=<dir with the .c/.h files>  C_HARNESS_OUT=<scratch build root>
REPO_SRC = os.environ.get("C_HARNESS_SRC", "/repo/python/bplustree_c_src")
if "C_HARNESS_OUT" in os.environ:
    BUILD = os.environ["C_HARNESS_OUT"]
CEXT = os.path.join(BUILD, "cext")
REPO_PKG = "/repo/python/bplustree"
VARIANTS = {
    "plain": [],
    "hook": ["-DKENTBECK_BPLUSTREE3_VERIF"],
    "asan": ["-DKENTBECK_BPLUSTREE3_VERIF", "-fsanitize=address", "-fno-omit-frame-pointer"],
}
HISTORY_TIMEOUT = int(os.environ.get("C_HARNESS_HIST_TIMEOUT", "120"))      # seconds per history
PKG_DIR = {"hook": os.path.join(BUILD, "cpkg"), "plain": os.path.join(BUILD, "cpkg_plain"),
           "asan": os.path.join(BUILD, "cpkg_asan")}


# ----------------------------------------------------------------------------- build
def source_hash():
    h = hashlib.sha256()
    files = sorted(glob.glob(os.path.join(REPO_SRC, "*.[ch]"))) + \
        [os.path.join(REPO_PKG, "__init__.py"), os.path.join(REPO_PKG, "bplus_tree.py"),
         BUILD_SH]
    for f in files:
        h.update(f.encode())
        h.update(open(f, "rb").read())
    return h.hexdigest()


def build(force=False):
    """returns None or an error string"""
    os.makedirs(CEXT, exist_ok=True)
    with open(os.path.join(CEXT, "lock"), "w") as lk:
        fcntl.flock(lk, fcntl.LOCK_EX)
        stamp = os.path.join(CEXT, "stamp")
        hsh = source_hash()
        suf = sysconfig.get_config_var("EXT_SUFFIX")
        ready = all(os.path.exists(os.path.join(CEXT, v, "bplustree_c" + suf)) and
                    os.path.exists(os.path.join(PKG_DIR[v], "bplustree", "bplustree_c" + suf))
                    for v in VARIANTS)
        if not force and ready and os.path.exists(stamp) and open(stamp).read() == hsh:
            return None
        for v, flags in VARIANTS.items():
            tmp = os.path.join(CEXT, v + ".tmp")
            shutil.rmtree(tmp, ignore_errors=True)
            if "C_HARNESS_SRC" in os.environ:       # self-test: same command line as build.sh, other source dir
                os.makedirs(tmp, exist_ok=True)
                cmd = ["gcc", "-O1", "-g", "-shared", "-fPIC", "-std=gnu99", "-fno-strict-aliasing"] + flags + \
                    ["-I" + sysconfig.get_paths()["include"], "-I" + REPO_SRC] + sorted(glob.glob(os.path.join(REPO_SRC, "*.c"))) + \
                    ["-o", os.path.join(tmp, "bplustree_c" + suf)]
            else:
                cmd = ["bash", BUILD_SH, tmp] + flags
            r = subprocess.run(cmd, stdout=subprocess.PIPE, stderr=subprocess.STDOUT)
            if r.returncode != 0:
                return "building variant %s failed:\n%s" % (v, r.stdout.decode("utf-8", "replace"))
            os.makedirs(os.path.join(CEXT, v), exist_ok=True)
            os.replace(os.path.join(tmp, "bplustree_c" + suf), os.path.join(CEXT, v, "bplustree_c" + suf))
            shutil.rmtree(tmp, ignore_errors=True)
            pk = os.path.join(PKG_DIR[v], "bplustree")
            os.makedirs(pk, exist_ok=True)
            for f in ("__init__.py", "bplus_tree.py"):
                shutil.copy(os.path.join(REPO_PKG, f), os.path.join(pk, f))
            shutil.copy(os.path.join(CEXT, v, "bplustree_c" + suf), os.path.join(pk, "bplustree_c" + suf + ".tmp"))
            os.replace(os.path.join(pk, "bplustree_c" + suf + ".tmp"), os.path.join(pk, "bplustree_c" + suf))
        open(stamp, "w").write(hsh)
    return None


# ----------------------------------------------------------------------------- op files
def read_histories(path):
    hs, cur = [], None
    for line in open(path):
        line = line.strip()
        if not line or line.startswith("#"):
            continue
        if line.startswith("H "):
            cur = [line]
            hs.append(cur)
        elif cur is not None:
            cur.append(line)
    return hs


def hopt(toks, key, dflt):
    for t in toks:
        if t.startswith(key + "="):
            return t[len(key) + 1:]
    return dflt


# ----------------------------------------------------------------------------- worker
class OKey:
    """user-defined totally ordered key: goes through PyObject_RichCompareBool"""
    __slots__ = ("n", "__weakref__")

    def __init__(self, n):
        self.n = n

    def __lt__(self, o):
        return self.n < o.n

    def __eq__(self, o):
        return self.n == o.n

    def __hash__(self):
        return hash(self.n)


class RInt(int):
    """user-defined totally ordered key that SUBCLASSES int and orders in reverse numeric
    order: must go through the rich-compare fallback, not the exact-int fast path"""

    def __lt__(self, o):
        return int(self) > int(o)

    def __gt__(self, o):
        return int(self) < int(o)

    def __le__(self, o):
        return int(self) >= int(o)

    def __ge__(self, o):
        return int(self) <= int(o)

    def __eq__(self, o):
        return int(self) == int(o)

    def __hash__(self):
        return hash(int(self))


class RStr(str):
    """str subclass ordered in reverse lexicographic order"""

    def __lt__(self, o):
        return str(self) > str(o)

    def __gt__(self, o):
        return str(self) < str(o)

    def __le__(self, o):
        return str(self) >= str(o)

    def __ge__(self, o):
        return str(self) <= str(o)

    def __eq__(self, o):
        return str(self) == str(o)

    def __hash__(self):
        return hash(str(self))


class Val:
    __slots__ = ("n", "ref", "__weakref__")     # ref: see the op `cyc`

    def __init__(self, n):
        self.n = n


def int_of_ord(k):
    # order preserving; ordinals >= 5000 leave the C `long` range (fast path falls back)
    return (2 ** 70 + k) if k >= 5000 else (10 ** 6 + 7 * k)


def make_key(kind, k):
    if kind == "int":
        return int(str(int_of_ord(k)))          # a fresh int object every time
    if kind == "str":
        return "".join(["k", "%07d" % k])       # a fresh, non-interned str object
    # non-ASCII str keys: CPython stores them with 2 or 4 bytes per character (PyUnicode_KIND);
    # the digits keep every encoding order-preserving
    if kind == "ustr":
        return "".join(["\u8a9e", "%07d" % k])                      # UCS-2
    if kind == "wstr":
        return "".join(["\U0001F600", "%07d" % k])                  # UCS-4
    if kind == "mstr":
        return "".join(["k", "%07d" % k, ["", "\u00e9", "\u8a9e", "\U0001F600"][k % 4]])   # kinds vary between keys
    if kind == "isub":
        return RInt(10 ** 9 - 7 * k)            # larger ordinal = smaller int = greater key
    if kind == "ssub":
        return RStr("k%07d" % (9999999 - k))
    return OKey(k)


def key_sort(name):      # "k12.3" -> (12, 3)
    a, b = name[1:].split(".")
    return (int(a), int(b))


class Crash(Exception):
    pass


class World:
    """one history: objects, tree, mirror, iterators"""

    def __init__(self, mods, hline, ops, variant):
        self.toks = hline.split()
        self.hline = hline
        self.hid = self.toks[1]
        self.target = self.toks[2]
        self.cap = int(hopt(self.toks, "cap", "8"))
        self.kind = hopt(self.toks, "keys", "int")
        self.dump_every = max(1, int(hopt(self.toks, "dump", "1")))
        self.ops = [o.split() for o in ops]
        self.variant = variant
        self.mods = mods
        self.out = []
        self.viol = []
        # node-memory accounting: the extension is loaded twice (top-level module and the
        # package's private copy), each with its own counters and its own BPlusTree type
        cm = [mods[0], sys.modules.get(getattr(mods[1], "__name__", "bplustree") + ".bplustree_c")]
        self.cmods = []
        for m in cm:
            if m is not None and hasattr(m, "_verif_counters") and not any(m is x for x in self.cmods):
                self.cmods.append(m)
        self.nm_reported = False
        self.nm_seen = {}

    # --- node memory (hook builds that expose _verif_counters; see the module docstring)
    def nm_counters(self):
        c = [0, 0, 0, 0]
        for m in self.cmods:
            for i, x in enumerate(m._verif_counters()):
                c[i] += x
        return c

    @staticmethod
    def nm_count(nd):
        """number of nodes in a _verif_dump() node"""
        n, todo = 0, [nd]
        while todo:
            x = todo.pop()
            if x is None:
                continue
            n += 1
            if x[0] == "B":
                todo.extend(x[4])
        return n

    def nm_live(self):
        """(number of live tree objects in the process, total number of their nodes); trees
        dumped by the current observation are not dumped again (self.nm_seen: id -> nodes)"""
        types = tuple(m.BPlusTree for m in self.cmods)
        objs = gc.get_objects()
        trees = [o for o in objs if issubclass(type(o), types)]     # type(): no attribute lookup on foreign objects
        del objs
        total = 0
        for o in trees:
            n = self.nm_seen.get(id(o))
            if n is None:
                for m in self.cmods:
                    if issubclass(type(o), m.BPlusTree):
                        d = m.BPlusTree._verif_dump(o)
                        n = self.nm_count(d[0])
                        d = None
                        break
            total += n
        o = None
        k = len(trees)
        del trees
        return k, total

    def nm_begin(self):
        if not self.cmods:
            return
        gc.collect()
        c = self.nm_counters()
        self.nm_seen = {}
        _, live = self.nm_live()
        self.nm_base = (c[0] - c[1] - live, c[2] - c[3], c)

    def nm_viol(self, what):
        if not self.nm_reported:
            self.nm_reported = True
            self.viol.append("VIOL C13 %s %d node-memory: %s" % (self.hid, self.step, what))

    def nm_temp_check(self):
        """after every call: every temporary split array was given back"""
        if not self.cmods or self.nm_reported:
            return
        c = self.nm_counters()
        b = self.nm_base
        if c[2] - c[3] != b[1]:
            self.nm_viol("temporary split arrays: %d PyMem_Malloc'ed, %d PyMem_Free'd since the start of the history" %
                         (c[2] - b[2][2], c[3] - b[2][3]))

    def nm_node_check(self, end=False):
        """node blocks created - freed == nodes of all live trees (end: no tree may be left)"""
        if not self.cmods or self.nm_reported:
            self.nm_seen = {}
            return
        k, live = self.nm_live()
        self.nm_seen = {}
        c = self.nm_counters()
        b = self.nm_base
        cr, fr = c[0] - b[2][0], c[1] - b[2][1]
        if c[0] - c[1] - live != b[0]:
            if end:
                self.nm_viol("after dropping every tree and gc.collect(): %d node blocks created, %d freed since the start "
                             "of the history, %d nodes in %d tree object(s) still alive (created > freed + live: leaked "
                             "node blocks; <: a block was freed twice or while still part of a tree)" % (cr, fr, live, k))
            else:
                self.nm_viol("%d node blocks created, %d freed since the start of the history, but the %d live tree "
                             "object(s) have %d nodes (created - freed > live: leaked node blocks; <: a block was freed "
                             "twice or while still part of a tree)" % (cr, fr, k, live))
        elif end and (c[0] - c[1] != b[2][0] - b[2][1]):
            self.nm_viol("after dropping every tree and gc.collect(): %d node blocks created, %d freed since the start of the "
                         "history (%d tree object(s) with %d nodes still alive)" % (cr, fr, k, live))

    # --- objects
    def create_objects(self):
        knames, vnames = set(), set()
        for o in self.ops:
            for tok in o[1:]:
                if tok.startswith("v") and tok[1:].isdigit():
                    vnames.add(tok)
                elif "." in tok and tok.replace(".", "").isdigit():
                    knames.add("k" + tok)
        self.K, self.V, self.names = {}, {}, {}
        self.tracked = []
        for n in sorted(knames, key=key_sort):
            o = make_key(self.kind, key_sort(n)[0])
            self.K[n] = o
            self.names[id(o)] = n
            self.tracked.append((n, o))
        for n in sorted(vnames, key=lambda s: int(s[1:])):
            if n == "v0":
                # the value v0 is Python's None (a stored None is a value like any other; the wrapper's get() /
                # setdefault() / pop() must not confuse it with "absent"); its reference count is not tracked
                self.V[n] = None
                self.names[id(None)] = n
                continue
            o = Val(int(n[1:]))
            self.V[n] = o
            self.names[id(o)] = n
            self.tracked.append((n, o))
        o = None
        self.base = self.counts()
        self.wrefs = [(n, weakref.ref(o)) for n, o in self.tracked if isinstance(o, (OKey, Val))]
        o = None

    def counts(self):
        return [sys.getrefcount(o) for _, o in self.tracked]

    def deltas(self):
        return [c - b for c, b in zip(self.counts(), self.base)]

    def key(self, tok):
        return self.K["k" + tok]

    def val(self, tok):
        return self.V[tok]

    def nm(self, o):       # name of a key object as printed in key positions
        n = self.names.get(id(o))
        if n is None:
            return "?" + repr(o)[:20]
        return n[1:] if n.startswith("k") else n

    # --- rendering of dumps
    def render_node(self, nd, cnt):
        if nd is None:
            return "(null)"
        ty, cap, nk, keys, rest = nd
        for k in keys:
            cnt[id(k)] = cnt.get(id(k), 0) + 1
        if ty == "L":
            for v in rest:
                cnt[id(v)] = cnt.get(id(v), 0) + 1
            return "(L %d %d [%s])" % (cap, nk, " ".join("%s=%s" % (self.nm(k), self.nm(v)) for k, v in zip(keys, rest)))
        return "(B %d %d [%s]%s)" % (cap, nk, " ".join(self.nm(k) for k in keys),
                                     "".join(" " + self.render_node(c, cnt) for c in rest))

    def dump_tree(self, t, cnt):
        d = t._verif_dump()
        tree, chain, size, modc = d
        s = self.render_node(tree, cnt)
        if self.cmods:
            self.nm_seen[id(t)] = self.nm_count(tree)
        r = (s, " ".join(str(c) for c in chain), size, modc)
        d = tree = None
        return r

    # --- mirror helpers
    def m_keys(self, m):
        return ["%d.%d" % (k, m[k][0]) for k in sorted(m)]

    def m_items(self, m):
        return ["%d.%d=%s" % (k, m[k][0], m[k][1]) for k in sorted(m)]

    def m_set(self, m, ktok, vtok):
        a, b = ktok.split(".")
        a = int(a)
        if a in m:
            m[a] = (m[a][0], vtok)
        else:
            m[a] = (int(b), vtok)

    def mutated(self):
        for it in self.iters.values():
            it["stale"] = True

    # --- one op: returns (result object to hold, output string, expected output or None)
    def do_op(self, o):
        t, m = self.t, self.mirror
        op = o[0]
        ordk = lambda tok: int(tok.split(".")[0])
        if op == "set":
            t[self.key(o[1])] = self.val(o[2])
            self.m_set(m, o[1], o[2])
            self.mutated()
            return None, "None", "None"
        if op == "cyc":
            # a value object starts referring to an iterator over the tree it is (or will be)
            # stored in: tree -> value -> iterator -> tree.  No effect on any result or on the
            # reference counts of keys and values; only the cyclic collector can release the tree.
            self.val(o[1]).ref = iter(t)
            return None, "None", "None"
        if op == "get":
            exp = ("val " + m[ordk(o[1])][1]) if ordk(o[1]) in m else "KeyError"
            try:
                r = t[self.key(o[1])]
            except KeyError:
                return None, "KeyError", exp
            return r, "val " + self.nm(r), exp
        if op == "del":
            exp = "None" if ordk(o[1]) in m else "KeyError"
            try:
                del t[self.key(o[1])]
            except KeyError:
                return None, "KeyError", exp
            m.pop(ordk(o[1]), None)
            self.mutated()
            return None, "None", exp
        if op == "in":
            r = self.key(o[1]) in t
            return None, str(r), str(ordk(o[1]) in m)
        if op == "len":
            return None, str(len(t)), str(len(m))
        if op in ("keys", "iter"):
            r = list(t.keys()) if op == "keys" else list(iter(t))
            return r, "keys [%s]" % " ".join(self.nm(k) for k in r), "keys [%s]" % " ".join(self.m_keys(m))
        if op == "items":
            r = list(t.items())
            return r, "items [%s]" % " ".join("%s=%s" % (self.nm(k), self.nm(v)) for k, v in r), \
                "items [%s]" % " ".join(self.m_items(m))
        if op == "it_new":
            kind, h = o[1], o[2]
            it = t.keys() if kind == "k" else (t.items() if kind == "i" else iter(t))
            snap = self.m_items(m) if kind == "i" else self.m_keys(m)
            self.iters[h] = dict(it=it, kind=kind, snap=snap, pos=0, stale=False, done=False)
            return None, "None", None
        if op == "it_next":
            st = self.iters.get(o[1])
            if st is None:
                return None, "noiter", None
            exhausted = st["done"] or st["pos"] >= len(st["snap"])
            if st["stale"]:
                exp = ("RuntimeError",) if not exhausted else ("RuntimeError", "StopIteration")
            elif st["pos"] < len(st["snap"]):
                exp = ((("item " if st["kind"] == "i" else "key ") + st["snap"][st["pos"]]),)
            else:
                exp = ("StopIteration",)
            try:
                r = next(st["it"])
            except StopIteration:
                st["done"] = True
                return None, "StopIteration", exp
            except RuntimeError:
                return None, "RuntimeError", exp
            st["pos"] += 1
            if st["kind"] == "i":
                return r, "item %s=%s" % (self.nm(r[0]), self.nm(r[1])), exp
            return r, "key " + self.nm(r), exp
        if op == "it_drop":
            self.iters.pop(o[1], None)
            return None, "None", None
        if self.target != "cwrap":
            return None, "unsupported", None
        # ---- wrapper methods
        if op == "wget":
            exp = "val " + (m[ordk(o[1])][1] if ordk(o[1]) in m else o[2])
            r = t.get(self.key(o[1]), self.val(o[2]))
            return r, "val " + self.nm(r), exp
        if op == "wvalues":
            r = list(t.values())
            return r, "vals [%s]" % " ".join(self.nm(v) for v in r), "vals [%s]" % " ".join(m[k][1] for k in sorted(m))
        if op == "wclear":
            t.clear()
            if m:
                self.mutated()
            m.clear()
            return None, "None", "None"
        if op == "wpop":
            k = ordk(o[1])
            exp = ("val " + m[k][1]) if k in m else (("val " + o[2]) if len(o) > 2 else "KeyError")
            try:
                r = t.pop(self.key(o[1]), self.val(o[2])) if len(o) > 2 else t.pop(self.key(o[1]))
            except KeyError:
                return None, "KeyError", exp
            if k in m:
                del m[k]
                self.mutated()
            return r, "val " + self.nm(r), exp
        if op == "wpopitem":
            try:
                r = t.popitem()
            except KeyError:
                return None, "KeyError", ("KeyError" if not m else "some item")
            s = "item %s=%s" % (self.nm(r[0]), self.nm(r[1]))
            a = int(self.nm(r[0]).split(".")[0]) if self.nm(r[0])[0] != "?" else None
            ok = a in m and ("%d.%d=%s" % (a, m[a][0], m[a][1])) == s[5:]
            if ok:
                del m[a]
                self.mutated()
            return r, s, (s if ok else "an item of the mapping")
        if op == "wsetdefault":
            k = ordk(o[1])
            exp = "val " + (m[k][1] if k in m else o[2])
            r = t.setdefault(self.key(o[1]), self.val(o[2]))
            if k not in m:
                self.m_set(m, o[1], o[2])
                self.mutated()
            return r, "val " + self.nm(r), exp
        if op == "wupdate":
            args = o[1:]
            t.update([(self.key(args[i]), self.val(args[i + 1])) for i in range(0, len(args), 2)])
            for i in range(0, len(args), 2):
                self.m_set(m, args[i], args[i + 1])
            if args:
                self.mutated()
            return None, "None", "None"
        if op == "wcopy":
            c = t.copy()
            self.copy = c
            self.copy_mirror = dict(m)
            got = "items [%s]" % " ".join("%s=%s" % (self.nm(k), self.nm(v)) for k, v in c.items())
            if got != "items [%s]" % " ".join(self.m_items(m)) or len(c) != len(m) or type(c) is not type(t):
                self.viol.append("VIOL C12 %s %d copy() differs from the mapping: %s" % (self.hid, self.step, got[:200]))
            c = None
            return None, "None", "None"
        if op == "wswap":
            if self.copy is None:
                return None, "notree", None
            self.iters.clear()
            self.t, self.copy = self.copy, self.t
            self.mirror, self.copy_mirror = self.copy_mirror, self.mirror
            return None, "None", None
        if op == "wcap":
            return None, str(t.capacity), None
        return None, "unsupported", None

    def held_refs(self, res, cnt):
        """references to tracked objects reachable from the held result"""
        if res is None:
            return
        if isinstance(res, (list, tuple)):
            for x in res:
                self.held_refs(x, cnt)
        else:
            cnt[id(res)] = cnt.get(id(res), 0) + 1

    def observe(self, res, force):
        """dump + RC lines and the slot-count oracle (hook builds)"""
        hid, step = self.hid, self.step
        self.nm_temp_check()
        if not force and step % self.dump_every != 0:
            return
        cnt = {}
        self.nm_seen = {}
        if self.variant != "plain":
            if self.t is None:
                self.out.append("T %s %d -" % (hid, step))
            else:
                s, ch, size, modc = self.dump_tree(self.t, cnt)
                self.out.append("T %s %d %s" % (hid, step, s))
                self.out.append("CH %s %d %s" % (hid, step, ch))
                self.out.append("SZ %s %d size=%d mod=%d" % (hid, step, size, modc))
                if size != len(self.mirror):
                    self.viol.append("VIOL C12 %s %d size field %d but the mapping has %d entries" % (hid, step, size, len(self.mirror)))
            if self.copy is not None:
                s, ch, size, modc = self.dump_tree(self.copy, cnt)
                self.out.append("TC %s %d %s size=%d" % (hid, step, s, size))
        d = self.deltas()
        self.out.append("RC %s %d %s" % (hid, step, " ".join("%s=%d" % (n, x) for (n, _), x in zip(self.tracked, d) if x)))
        if self.variant != "plain":
            self.held_refs(res, cnt)
            bad = []
            for (n, o), x in zip(self.tracked, d):
                e = cnt.get(id(o), 0)
                if e != x:
                    bad.append("%s: refcount delta %d, slots+held %d" % (n, x, e))
            o = None
            if bad:
                self.viol.append("VIOL C13 %s %d refcount does not match the slots holding the object: %s" % (hid, step, "; ".join(bad[:4])))
            self.nm_node_check()

    def construct(self):
        mod, pkg = self.mods
        try:
            if self.target == "c":
                return mod.BPlusTree(capacity=self.cap), "None"
            if self.target == "csub":
                class S(mod.BPlusTree):
                    pass
                return S(capacity=self.cap), "None"
            return pkg.BPlusTreeMap(capacity=self.cap), "None"
        except ValueError:
            return None, "ValueError"
        except OverflowError:          # PyArg_ParseTupleAndKeywords "|i": outside the C int range
            return None, "OverflowError"

    def run(self, status):
        hid = self.hid
        self.out.append(self.hline)
        self.step = 0
        status(self.step)
        self.nm_begin()
        self.create_objects()
        self.mirror, self.copy, self.copy_mirror, self.iters = {}, None, {}, {}
        self.t, o0 = self.construct()
        self.out.append("O %s 0 %s" % (hid, o0))
        want = "None" if 4 <= self.cap <= 65535 else "ValueError"
        if want == "ValueError" and o0 == "OverflowError":
            want = o0                  # rejected either way; which exception is not part of the property
        if o0 != want:
            self.viol.append("VIOL C13 %s 0 capacity %d: constructor answered %s, expected %s" % (hid, self.cap, o0, want))
        self.observe(None, True)
        n = len(self.ops)
        res = None
        for i, o in enumerate(self.ops):
            self.step = i + 1
            status(self.step)
            res = None
            if self.t is None:
                s, exp = "notree", None
            else:
                try:
                    # the result lives in a one-element container so that exactly one
                    # reference to it exists on the harness side, whatever is done with `res`
                    res = [None]
                    res[0], s, exp = self.do_op(o)
                except Exception as e:      # anything the op language does not expect
                    res, s, exp = None, "EXC " + type(e).__name__, "no exception"
            self.out.append("O %s %d %s" % (hid, self.step, s))
            if exp is not None and (s not in exp if isinstance(exp, tuple) else s != exp):
                prop = "C12"
                self.viol.append("VIOL %s %s %d %s answered %s, dict semantics / fail-fast rule require %s" %
                                 (prop, hid, self.step, " ".join(o)[:80], s[:200], (" or ".join(exp) if isinstance(exp, tuple) else exp)[:200]))
            self.observe(res, self.step == n)
        # ---- teardown: the caller drops its result, iterators, the copy and the tree
        self.step = n + 1
        status(self.step)
        res = None
        self.iters.clear()
        self.copy = None
        self.t = None
        if any(o and o[0] == "cyc" for o in self.ops):
            # a value refers to an iterator over the tree: while the harness itself holds that
            # value the tree is reachable, so nothing can be measured through reference counts.
            # The harness drops every reference of its own first; then the cyclic collector must
            # release the tree and with it every key and value object (weak references die).
            self.tracked = []
            self.K = self.V = None
            self.names = {}
            gc.collect()
            self.nm_temp_check()
            self.nm_node_check(end=True)
            alive = [n for n, w in self.wrefs if w() is not None]
            self.out.append("E %s %s" % (hid, " ".join("%s=1" % n for n in alive) if alive else "balanced"))
            if alive:
                self.viol.append("VIOL C13 %s end objects still alive after the tree and all harness references are gone (a value referred to an iterator over the tree): %s" % (hid, " ".join(alive[:20])))
            return
        gc.collect()
        self.nm_temp_check()
        self.nm_node_check(end=True)
        d = self.deltas()
        left = " ".join("%s=%d" % (nm, x) for (nm, _), x in zip(self.tracked, d) if x)
        self.out.append("E %s %s" % (hid, left if left else "balanced"))
        if left:
            self.viol.append("VIOL C13 %s end after dropping the tree the reference counts are not back to the baseline (>0 leaked, <0 over-released): %s" % (hid, left[:300]))
        # weakrefs: the harness drops its own references
        self.tracked = []
        self.K = self.V = None
        self.names = {}
        gc.collect()
        alive = [n for n, w in self.wrefs if w() is not None]
        if alive:
            self.viol.append("VIOL C13 %s end objects still alive after the tree and all harness references are gone: %s" % (hid, " ".join(alive[:20])))


def worker(variant, ops_path, trace_path, viol_path, start, status_path):
    sys.path.insert(0, os.path.join(CEXT, variant))
    import bplustree_c as mod
    sys.path.insert(0, PKG_DIR[variant])
    import bplustree as pkg
    if pkg.get_implementation() != "C extension":
        print("package wrapper did not pick the C extension", file=sys.stderr)
        sys.exit(3)
    hs = read_histories(ops_path)
    sfd = os.open(status_path, os.O_WRONLY | os.O_CREAT | os.O_TRUNC)
    with open(trace_path if trace_path != "-" else os.devnull, "a") as tf, open(viol_path, "a") as vf:
        for idx in range(start, len(hs)):
            h = hs[idx]
            hid = h[0].split()[1]

            def status(step, idx=idx, hid=hid):
                os.pwrite(sfd, ("%d %s %d" % (idx, hid, step)).ljust(60).encode(), 0)
            w = World((mod, pkg), h[0], h[1:], variant)
            signal.alarm(HISTORY_TIMEOUT)      # watchdog: SIGALRM kills the worker, the parent reports non-termination
            try:
                w.run(status)
            except Exception as e:
                # the harness met something its own bookkeeping says cannot exist (e.g. a key slot
                # holding a foreign object after an over-release): the heap may be corrupt, so
                # report, and let the parent continue with a fresh process
                import traceback
                tb = traceback.format_exc().strip().splitlines()
                w.viol.append("VIOL C13 %s %d inconsistent state seen by the harness: %s: %s [%s]" %
                              (hid, w.step, type(e).__name__, str(e)[:120], tb[-2].strip()[:120] if len(tb) > 1 else ""))
                w.out.append("X %s %d inconsistent state" % (hid, w.step))
                tf.write("\n".join(w.out) + "\n")
                vf.write("\n".join(w.viol) + "\n")
                tf.flush()
                vf.flush()
                os._exit(4)
            signal.alarm(0)
            tf.write("\n".join(w.out) + "\n")
            tf.flush()
            if w.viol:
                vf.write("\n".join(w.viol) + "\n")
                vf.flush()
            w = None
    os.close(sfd)


def _limit_memory():
    """a call that never stops producing (an iterator without end consumed by list()) must fail an
    allocation instead of exhausting the machine; the ASan pass uses hard_rss_limit_mb instead"""
    try:
        import resource
        lim = int(os.environ.get("BPT_MEM_LIMIT_GB", "12")) << 30
        resource.setrlimit(resource.RLIMIT_AS, (lim, lim))
    except Exception:      # noqa
        pass


# ----------------------------------------------------------------------------- main
def run_pass(variant, ops_path, trace_path, viol_path, oracle_filter=None):
    """runs all histories in worker subprocesses; survives crashes.  oracle_filter: keep only
       VIOL lines for which it returns True (used by the extra passes)."""
    hs = read_histories(ops_path)
    if trace_path != "-":
        open(trace_path, "w").close()
    tmp_viol = viol_path + "." + variant
    open(tmp_viol, "w").close()
    status_path = viol_path + "." + variant + ".status"
    env = dict(os.environ)
    env.pop("C_HARNESS_ASAN", None)
    env.pop("C_HARNESS_PLAIN", None)
    # PyMem_* blocks (the temporary arrays of the split paths) get guard bytes that are checked
    # when the block is freed; under ASan the raw allocator is used so that ASan sees every block
    env["PYTHONMALLOC"] = "malloc" if variant == "asan" else "debug"
    if variant == "asan":
        lib = subprocess.run(["gcc", "-print-file-name=libasan.so"], stdout=subprocess.PIPE).stdout.decode().strip()
        env["LD_PRELOAD"] = lib
        env["ASAN_OPTIONS"] = "detect_leaks=0:abort_on_error=1:halt_on_error=1:hard_rss_limit_mb=12288"
    start = 0
    extra = []
    while start < len(hs):
        try:
            os.remove(status_path)
        except OSError:
            pass
        try:
            p = subprocess.run([sys.executable, os.path.abspath(__file__), "--worker", variant, ops_path, trace_path,
                                tmp_viol, str(start), status_path], env=env, stdout=subprocess.PIPE,
                               stderr=subprocess.PIPE, timeout=1500,
                               preexec_fn=(None if variant == "asan" else _limit_memory))
            rc, err, timed_out = p.returncode, p.stderr.decode("utf-8", "replace"), False
        except subprocess.TimeoutExpired as e:
            rc, err, timed_out = -1, (e.stderr or b"").decode("utf-8", "replace"), True
        if rc == 0:
            break
        try:
            idx, hid, step = open(status_path).read().split()[:3]
            idx = int(idx)
        except (OSError, ValueError):
            # the worker died before it started a history: a harness/build problem
            sys.stderr.write("worker failed to start (variant %s):\n%s\n" % (variant, err[-2000:]))
            return 2
        if rc == 4:          # reported by the worker itself
            start = idx + 1
            continue
        if rc == 3 or ("Traceback (most recent call last)" in err and "AddressSanitizer" not in err and rc == 1):
            sys.stderr.write("harness error in history %s step %s (variant %s):\n%s\n" % (hid, step, variant, err[-3000:]))
            return 2
        if timed_out or rc == -signal.SIGALRM:
            what = "timeout (non-termination: one history ran for more than %d s)" % HISTORY_TIMEOUT
            prop = "C12"
            n_timeouts = sum(1 for e in extra if "non-termination" in e) + 1
            if n_timeouts >= 3:
                # enough to report; every further hanging history costs a watchdog period
                extra.append("VIOL %s %s %s %s [%s build, embedding %s]" % (prop, hid, step, what, variant, hs[idx][0].split()[2]))
                extra.append("VIOL C13 %s %s %s [%s build]" % (hid, step, what, variant))
                break
        else:
            prop = "C13"
            if rc < 0:
                try:
                    what = "crashed (signal %s)" % signal.Signals(-rc).name
                except ValueError:
                    what = "crashed (signal %d)" % -rc
            else:
                what = "crashed (exit status %d)" % rc
            if "AddressSanitizer" in err:
                summ = [l for l in err.splitlines() if "ERROR: AddressSanitizer" in l or l.startswith("SUMMARY:")]
                what += " ASan: " + " | ".join(s.strip() for s in summ[:2])[:300]
        extra.append("VIOL %s %s %s %s [%s build, embedding %s]" % (prop, hid, step, what, variant, hs[idx][0].split()[2]))
        if prop == "C12":
            extra.append("VIOL C13 %s %s the call did not return: %s [%s build]" % (hid, step, what, variant))
        if prop == "C13":
            # a crash is also not "the result a dict gives" for the call that was running
            extra.append("VIOL C12 %s %s the call did not return: %s [%s build, embedding %s]" % (hid, step, what, variant, hs[idx][0].split()[2]))
        if trace_path != "-":
            with open(trace_path, "a") as tf:
                tf.write(hs[idx][0] + "\nX %s %s %s\n" % (hid, step, what))
        start = idx + 1
    lines = [l.rstrip("\n") for l in open(tmp_viol)] + extra
    os.remove(tmp_viol)
    try:
        os.remove(status_path)
    except OSError:
        pass
    if oracle_filter:
        lines = [l for l in lines if oracle_filter(l)]
    with open(viol_path, "a") as vf:
        for l in lines:
            vf.write(l + "\n")
    return 0


def main(argv):
    if len(argv) >= 2 and argv[1] == "--worker":
        worker(argv[2], argv[3], argv[4], argv[5], int(argv[6]), argv[7])
        return 0
    if len(argv) >= 2 and argv[1] == "--build":
        err = build(force="--force" in argv)
        if err:
            sys.stderr.write(err + "\n")
            return 2
        return 0
    if len(argv) != 4:
        sys.stderr.write(__doc__ + "\n")
        return 2
    ops_path, trace_path, viol_path = argv[1:4]
    err = build()
    if err:
        sys.stderr.write("ERROR building the extension: " + err + "\n")
        return 2
    open(viol_path, "w").close()
    rc = run_pass("hook", ops_path, trace_path, viol_path)
    if rc:
        return rc
    if os.environ.get("C_HARNESS_PLAIN") == "1":
        rc = run_pass("plain", ops_path, "-", viol_path,
                      lambda l: True)
        if rc:
            return rc
    if os.environ.get("C_HARNESS_ASAN") == "1":
        # the oracles already ran on the hook build; keep what only this pass can see
        rc = run_pass("asan", ops_path, "-", viol_path,
                      lambda l: "crashed" in l)
        if rc:
            return rc
    return 0


if __name__ == "__main__":
    sys.exit(main(sys.argv))
