// Correspondence harness for the Rust crate: reads an op file, drives the real
// BPlusTreeMap / CompactArena built from /repo with the verification hooks on, and
// prints the same trace lines as the extracted Coq model driver.  Independently of the
// model it runs direct oracles (BTreeMap differential, structural checker, instance
// counters, handle map) and writes every failure as a line `VIOL <prop> <hid> <step> <what>`.
use bplustree::{BPlusTreeMap, CompactArena, ItemIterator, NodeRef, NULL_NODE};
use std::cmp::Ordering;
use std::collections::{BTreeMap, HashMap};
use std::fmt::Write as _;
use std::io::{BufRead, Write};
use std::ops::Bound;
use std::panic::{catch_unwind, AssertUnwindSafe};
use std::sync::atomic::{AtomicI64, Ordering as AO};

/// upper bound on the number of entries a map can hold after the operations run so far in this
/// process (no single operation adds more than a few dozen entries): implementation iterators are
/// collected with `.take(iter_limit())`, so that an iterator that never ends cannot exhaust memory;
/// on a correct implementation the bound is never reached
fn iter_limit() -> usize {
    64 * (WD_PROGRESS.load(AO::SeqCst) as usize + 16)
}

static WD_PROGRESS: AtomicI64 = AtomicI64::new(0);
static WD_CURRENT: std::sync::Mutex<String> = std::sync::Mutex::new(String::new());

mod damage;

pub static LIVE_K: AtomicI64 = AtomicI64::new(0);
pub static LIVE_V: AtomicI64 = AtomicI64::new(0);
pub static CLONES_V: AtomicI64 = AtomicI64::new(0);

#[derive(Debug)]
pub struct VKey {
    pub z: i64,
    pub id: u64,
    _b: Box<u8>,
}
impl VKey {
    pub fn new(z: i64, id: u64) -> Self {
        LIVE_K.fetch_add(1, AO::SeqCst);
        VKey { z, id, _b: Box::new(0) }
    }
}
impl Clone for VKey {
    fn clone(&self) -> Self {
        VKey::new(self.z, self.id)
    }
}
impl Drop for VKey {
    fn drop(&mut self) {
        LIVE_K.fetch_sub(1, AO::SeqCst);
    }
}
impl PartialEq for VKey {
    fn eq(&self, o: &Self) -> bool {
        self.z == o.z
    }
}
impl Eq for VKey {}
impl PartialOrd for VKey {
    fn partial_cmp(&self, o: &Self) -> Option<Ordering> {
        Some(self.cmp(o))
    }
}
impl Ord for VKey {
    fn cmp(&self, o: &Self) -> Ordering {
        self.z.cmp(&o.z)
    }
}

#[derive(Debug)]
pub struct VVal {
    pub v: i64,
    _b: Box<u8>,
}
impl VVal {
    pub fn new(v: i64) -> Self {
        LIVE_V.fetch_add(1, AO::SeqCst);
        VVal { v, _b: Box::new(0) }
    }
}
impl Clone for VVal {
    fn clone(&self) -> Self {
        CLONES_V.fetch_add(1, AO::SeqCst);
        VVal::new(self.v)
    }
}
impl Drop for VVal {
    fn drop(&mut self) {
        LIVE_V.fetch_sub(1, AO::SeqCst);
    }
}

pub type Map = BPlusTreeMap<VKey, VVal>;

fn pid(i: u32) -> String {
    if i == NULL_NODE {
        "NULL".to_string()
    } else {
        i.to_string()
    }
}
fn s_ref(r: &NodeRef<VKey, VVal>) -> String {
    match r {
        NodeRef::Leaf(i, _) => format!("L{}", pid(*i)),
        NodeRef::Branch(i, _) => format!("B{}", pid(*i)),
    }
}
fn s_key(k: &VKey) -> String {
    format!("{}:{}", k.z, k.id)
}
fn s_kv(k: &VKey, v: &VVal) -> String {
    format!("{}:{}={}", k.z, k.id, v.v)
}
fn s_list<T, F: Fn(&T) -> String>(l: &[T], f: F) -> String {
    let v: Vec<String> = l.iter().map(f).collect();
    format!("[{}]", v.join(" "))
}
fn s_optv(o: Option<&VVal>) -> String {
    match o {
        None => "None".into(),
        Some(v) => format!("Some({})", v.v),
    }
}
fn s_mask(m: &[bool]) -> String {
    m.iter().map(|b| if *b { '1' } else { '0' }).collect()
}
fn s_free(f: &[usize]) -> String {
    let v: Vec<String> = f.iter().map(|i| i.to_string()).collect();
    format!("[{}]", v.join(","))
}

pub struct Ctx {
    pub out: String,
    pub viol: Vec<String>,
    pub hid: String,
    pub step: usize,
    pub dump_every: usize,
    pub viol_count: usize,
    pub per_prop: HashMap<String, usize>,
}
impl Ctx {
    pub fn viol(&mut self, prop: &str, what: &str) {
        // bounded: long messages are truncated and at most 40 lines are kept per history
        // (per property: a flood of one kind must not hide another)
        let n = self.per_prop.entry(prop.to_string()).or_insert(0);
        if *n >= 25 {
            return;
        }
        *n += 1;
        self.viol_count += 1;
        let mut w: String = what.chars().take(500).collect();
        if what.len() > w.len() {
            w.push_str(" ...");
        }
        self.viol.push(format!("VIOL {} {} {} {}", prop, self.hid, self.step, w));
    }
}

// ---------------------------------------------------------------- dumps
fn dump_s3(t: &Map, c: &mut Ctx) {
    let (cap, root, la, ba) = t.verif_parts();
    let (ls, lm, lf) = la.verif_raw();
    let (bs, bm, bf) = ba.verif_raw();
    let mut leaves = String::new();
    for l in ls {
        let (lc, ks, vs, nx) = l.verif_fields();
        let _ = write!(
            leaves,
            "{{{};{};{};>{}}}",
            lc,
            s_list(ks, s_key),
            s_list(vs, |v| v.v.to_string()),
            pid(nx)
        );
    }
    let mut branches = String::new();
    for b in bs {
        let (bc, ks, cs) = b.verif_fields();
        let _ = write!(branches, "{{{};{};{}}}", bc, s_list(ks, s_key), s_list(cs, s_ref));
    }
    let _ = writeln!(
        c.out,
        "S3 cap={} root={} | leaf mask={} free={} slots={} | branch mask={} free={} slots={}",
        cap,
        s_ref(&root),
        s_mask(lm),
        s_free(lf),
        leaves,
        s_mask(bm),
        s_free(bf),
        branches
    );
}

fn dump_s2(t: &Map, c: &mut Ctx) {
    let (cap, root, la, ba) = t.verif_parts();
    let (ls, lm, _) = la.verif_raw();
    let (bs, bm, _) = ba.verif_raw();
    let mut order: HashMap<usize, usize> = HashMap::new();
    let mut cnt = 0usize;
    let mut b = String::new();
    fn go(
        r: &NodeRef<VKey, VVal>,
        depth: usize,
        ls: &[bplustree::LeafNode<VKey, VVal>],
        lm: &[bool],
        bs: &[bplustree::BranchNode<VKey, VVal>],
        bm: &[bool],
        order: &mut HashMap<usize, usize>,
        cnt: &mut usize,
        b: &mut String,
    ) {
        if depth > 64 {
            b.push_str("(DEEP)");
            return;
        }
        match r {
            NodeRef::Leaf(i, _) => {
                let i = *i as usize;
                if i < ls.len() && lm[i] {
                    let (lc, ks, vs, _) = ls[i].verif_fields();
                    order.entry(i).or_insert(*cnt);
                    *cnt += 1;
                    let _ = write!(b, "(L {} {} {})", lc, s_list(ks, s_key), s_list(vs, |v| v.v.to_string()));
                } else {
                    b.push_str("(L?)");
                }
            }
            NodeRef::Branch(i, _) => {
                let i = *i as usize;
                if i < bs.len() && bm[i] {
                    let (bc, ks, cs) = bs[i].verif_fields();
                    let _ = write!(b, "(B {} {}", bc, s_list(ks, s_key));
                    for ch in cs {
                        b.push(' ');
                        go(ch, depth + 1, ls, lm, bs, bm, order, cnt, b);
                    }
                    b.push(')');
                } else {
                    b.push_str("(B?)");
                }
            }
        }
    }
    go(&root, 0, ls, lm, bs, bm, &mut order, &mut cnt, &mut b);
    let _ = writeln!(c.out, "S2 cap={} {}", cap, b);
    // chain
    let mut cur: Option<usize> = {
        let mut r = root;
        let mut depth = 0;
        loop {
            if depth > 64 {
                break None;
            }
            match r {
                NodeRef::Leaf(i, _) => break Some(i as usize),
                NodeRef::Branch(i, _) => {
                    let i = i as usize;
                    if i < bs.len() && bm[i] {
                        let (_, _, cs) = bs[i].verif_fields();
                        if let Some(ch) = cs.first() {
                            r = *ch;
                            depth += 1;
                        } else {
                            break None;
                        }
                    } else {
                        break None;
                    }
                }
            }
        }
    };
    let mut ch = String::new();
    let mut steps = 0;
    while let Some(i) = cur {
        if steps > ls.len() + 2 {
            ch.push_str(" CYCLE");
            break;
        }
        if i < ls.len() && lm[i] {
            match order.get(&i) {
                Some(p) => {
                    let _ = write!(ch, " {}", p);
                }
                None => ch.push_str(" ?"),
            }
            let (_, _, _, nx) = ls[i].verif_fields();
            cur = if nx == NULL_NODE { None } else { Some(nx as usize) };
            steps += 1;
        } else {
            ch.push_str(" !");
            break;
        }
    }
    let _ = writeln!(c.out, "CH{}", ch);
    let _ = writeln!(
        c.out,
        "CT keys={} vals={}",
        LIVE_K.load(AO::SeqCst),
        LIVE_V.load(AO::SeqCst)
    );
}

// ---------------------------------------------------------------- independent structural checker (C04, C06)
struct Walk {
    leaves: Vec<usize>,   // ids in order
    branches: Vec<usize>, // ids pre-order
    depths: Vec<usize>,
    seps: usize,
    entries: usize,
}
/// errors by category: node-local documented kinds, undocumented structural ones,
/// chain, arena
pub struct Analysis {
    pub local: Vec<String>,
    pub other: Vec<String>,
    pub chain: Vec<String>,
    pub arena: Vec<String>,
}

fn check_structure(t: &Map, c: &mut Ctx, hwm: &mut (usize, usize)) {
    let a = analyze(t, c, Some(hwm), true);
    for e in a.local.iter().chain(a.other.iter()).chain(a.chain.iter()) {
        c.viol("C04", e);
    }
    for e in &a.arena {
        c.viol("C06", e);
    }
}

fn analyze(t: &Map, c: &mut Ctx, hwm: Option<&mut (usize, usize)>, valid_expected: bool) -> Analysis {
    let (cap, root, la, ba) = t.verif_parts();
    let (ls, lm, lf) = la.verif_raw();
    let (bs, bm, bf) = ba.verif_raw();
    let min = cap / 2;
    let mut w = Walk { leaves: vec![], branches: vec![], depths: vec![], seps: 0, entries: 0 };
    let mut errs: Vec<String> = vec![];
    let mut other: Vec<String> = vec![];
    let mut chain_errs: Vec<String> = vec![];
    #[allow(clippy::too_many_arguments)]
    fn go(
        r: &NodeRef<VKey, VVal>,
        depth: usize,
        lo: Option<i64>,
        hi: Option<i64>,
        is_root: bool,
        cap: usize,
        min: usize,
        ls: &[bplustree::LeafNode<VKey, VVal>],
        lm: &[bool],
        bs: &[bplustree::BranchNode<VKey, VVal>],
        bm: &[bool],
        w: &mut Walk,
        errs: &mut Vec<String>,
        other: &mut Vec<String>,
    ) {
        if depth > 64 {
            other.push("too deep / cyclic".into());
            return;
        }
        match r {
            NodeRef::Leaf(i, _) => {
                let i = *i as usize;
                if !(i < ls.len() && lm[i]) {
                    errs.push(format!("reachable leaf {} sits in a freed/absent slot", i));
                    return;
                }
                w.leaves.push(i);
                w.depths.push(depth);
                let (lc, ks, vs, _) = ls[i].verif_fields();
                if lc != cap {
                    other.push(format!("leaf {} capacity field {} != {}", i, lc, cap));
                }
                if ks.len() != vs.len() {
                    errs.push(format!("leaf {} keys/values length differ", i));
                }
                w.entries += ks.len();
                for p in 1..ks.len() {
                    if ks[p - 1].z >= ks[p].z {
                        errs.push(format!("leaf {} keys not strictly ascending", i));
                    }
                }
                if ks.len() > cap {
                    errs.push(format!("leaf {} over capacity", i));
                }
                if !is_root && ks.len() < min {
                    errs.push(format!("non-root leaf {} has {} keys < {}", i, ks.len(), min));
                }
                for k in ks {
                    if let Some(l) = lo {
                        if k.z < l {
                            errs.push(format!("leaf {} key {} below separator {}", i, k.z, l));
                        }
                    }
                    if let Some(h) = hi {
                        if k.z >= h {
                            errs.push(format!("leaf {} key {} not below separator {}", i, k.z, h));
                        }
                    }
                }
            }
            NodeRef::Branch(i, _) => {
                let i = *i as usize;
                if !(i < bs.len() && bm[i]) {
                    errs.push(format!("reachable branch {} sits in a freed/absent slot", i));
                    return;
                }
                w.branches.push(i);
                let (bc, ks, cs) = bs[i].verif_fields();
                if bc != cap {
                    other.push(format!("branch {} capacity field {} != {}", i, bc, cap));
                }
                w.seps += ks.len();
                if cs.len() != ks.len() + 1 {
                    errs.push(format!("branch {} has {} keys and {} children", i, ks.len(), cs.len()));
                    return;
                }
                for p in 1..ks.len() {
                    if ks[p - 1].z >= ks[p].z {
                        errs.push(format!("branch {} keys not strictly ascending", i));
                    }
                }
                if ks.len() > cap {
                    errs.push(format!("branch {} over capacity", i));
                }
                if !is_root && ks.len() < min {
                    errs.push(format!("non-root branch {} has {} keys < {}", i, ks.len(), min));
                }
                if is_root && cs.len() < 2 {
                    other.push(format!("branch root {} has {} children", i, cs.len()));
                }
                for k in ks {
                    if let Some(l) = lo {
                        if k.z < l {
                            other.push(format!("branch {} separator {} below bound {}", i, k.z, l));
                        }
                    }
                    if let Some(h) = hi {
                        if k.z >= h {
                            other.push(format!("branch {} separator {} not below bound {}", i, k.z, h));
                        }
                    }
                }
                for (p, ch) in cs.iter().enumerate() {
                    let clo = if p == 0 { lo } else { Some(ks[p - 1].z) };
                    let chi = if p == ks.len() { hi } else { Some(ks[p].z) };
                    go(ch, depth + 1, clo, chi, false, cap, min, ls, lm, bs, bm, w, errs, other);
                }
            }
        }
    }
    go(&root, 0, None, None, true, cap, min, ls, lm, bs, bm, &mut w, &mut errs, &mut other);
    if w.depths.iter().any(|d| *d != w.depths[0]) {
        other.push(format!("leaves at different depths {:?}", w.depths));
    }
    // chain = in-order leaves, then end
    let mut chain = vec![];
    let mut cur = w.leaves.first().copied();
    let mut steps = 0;
    while let Some(i) = cur {
        if steps > ls.len() + 1 {
            chain_errs.push("leaf chain cycles".into());
            break;
        }
        chain.push(i);
        if !(i < ls.len() && lm[i]) {
            chain_errs.push(format!("leaf chain reaches unallocated slot {}", i));
            break;
        }
        let (_, _, _, nx) = ls[i].verif_fields();
        cur = if nx == NULL_NODE { None } else { Some(nx as usize) };
        steps += 1;
    }
    if chain != w.leaves {
        chain_errs.push(format!("leaf chain {:?} != in-order leaves {:?}", chain, w.leaves));
    }
    // validators must accept (C04) -- only when the independent checker found nothing
    if valid_expected && errs.is_empty() && other.is_empty() && chain_errs.is_empty() {
        if !t.check_invariants() {
            c.viol("C04", "check_invariants() rejects a structurally valid state");
        }
        if let Err(e) = t.check_invariants_detailed() {
            c.viol("C04", &format!("check_invariants_detailed() rejects a valid state: {}", e));
        }
        // logarithmic height: 2 * (cap/2) * (cap/2+1)^(h-1) <= len for h >= 1
        let h = w.depths.first().copied().unwrap_or(0);
        if h >= 1 {
            let mut lbnd: u128 = 2 * (min as u128);
            for _ in 1..h {
                lbnd = lbnd.saturating_mul(min as u128 + 1);
            }
            if (w.entries as u128) < lbnd {
                c.viol("C04", &format!("height {} with only {} entries (< {})", h, w.entries, lbnd));
            }
        }
    }
    // C06: arenas
    let mut e6: Vec<String> = vec![];
    let al = lm.iter().filter(|b| **b).count();
    let ab = bm.iter().filter(|b| **b).count();
    if al != w.leaves.len() {
        e6.push(format!("{} allocated leaf slots but {} reachable leaves", al, w.leaves.len()));
    }
    if ab != w.branches.len() {
        e6.push(format!("{} allocated branch slots but {} reachable branches", ab, w.branches.len()));
    }
    let mut ids = w.leaves.clone();
    ids.sort();
    ids.dedup();
    if ids.len() != w.leaves.len() {
        e6.push("a leaf id is reachable twice".into());
    }
    for (name, st_len, mask, free) in [("leaf", ls.len(), lm, lf), ("branch", bs.len(), bm, bf)] {
        if st_len != mask.len() {
            e6.push(format!("{} storage/mask length differ", name));
        }
        let mut f: Vec<usize> = free.to_vec();
        f.sort();
        let before = f.len();
        f.dedup();
        if f.len() != before {
            e6.push(format!("{} free list names a slot twice", name));
        }
        let unalloc: Vec<usize> = (0..mask.len()).filter(|i| !mask[*i]).collect();
        if f != unalloc {
            e6.push(format!("{} free list {:?} != unallocated slots {:?}", name, f, unalloc));
        }
    }
    // introspection
    if t.leaf_count() != w.leaves.len() {
        e6.push("leaf_count() disagrees".into());
    }
    if t.count_nodes_in_tree() != (w.leaves.len(), w.branches.len()) {
        e6.push("count_nodes_in_tree() disagrees".into());
    }
    let sizes: Vec<usize> = w
        .leaves
        .iter()
        .filter(|i| **i < ls.len())
        .map(|i| ls[*i].verif_fields().1.len())
        .collect();
    if t.leaf_sizes() != sizes {
        e6.push("leaf_sizes() disagrees".into());
    }
    if t.is_leaf_root() != matches!(root, NodeRef::Leaf(_, _)) {
        e6.push("is_leaf_root() disagrees".into());
    }
    if t.allocated_leaf_count() != al || t.allocated_branch_count() != ab {
        e6.push("allocated_*_count() disagrees".into());
    }
    if t.free_leaf_count() != lf.len() || t.free_branch_count() != bf.len() {
        e6.push("free_*_count() disagrees".into());
    }
    let (lst, bst) = (t.leaf_arena_stats(), t.branch_arena_stats());
    if lst.allocated_count != al || lst.free_count != lf.len() || bst.allocated_count != ab || bst.free_count != bf.len() {
        e6.push("arena stats disagree".into());
    }
    // derived ratios (tolerance: these are floats, only their meaning is checked)
    for (name, st, util, alloc, free, slots) in [
        ("leaf", &lst, t.leaf_utilization(), al, lf.len(), ls.len()),
        ("branch", &bst, t.branch_utilization(), ab, bf.len(), bs.len()),
    ] {
        let want_u = if st.total_capacity > 0 { alloc as f64 / st.total_capacity as f64 } else { 0.0 };
        let want_f = if alloc > 0 { free as f64 / (alloc + free) as f64 } else { 0.0 };
        if st.total_capacity < slots
            || !((st.utilization - want_u).abs() <= 1e-9)      // written so that a NaN is a disagreement
            || !((util - want_u).abs() <= 1e-9)
            || !((st.fragmentation - want_f).abs() <= 1e-9)
        {
            e6.push(format!("{} arena stats ratios disagree with the slot counts", name));
        }
    }
    // high-water mark: slot totals never exceed the max number of simultaneously live nodes
    if let Some(hwm) = hwm {
        hwm.0 = hwm.0.max(w.leaves.len());
        hwm.1 = hwm.1.max(w.branches.len());
        if ls.len() > hwm.0 {
            e6.push(format!("leaf arena has {} slots, high-water mark is {}", ls.len(), hwm.0));
        }
        if bs.len() > hwm.1 {
            e6.push(format!("branch arena has {} slots, high-water mark is {}", bs.len(), hwm.1));
        }
    }
    if !valid_expected {
        return Analysis { local: errs, other, chain: chain_errs, arena: e6 };
    }
    // C11: instance counts
    let lk = LIVE_K.load(AO::SeqCst) as usize;
    let lv = LIVE_V.load(AO::SeqCst) as usize;
    if lv != w.entries {
        c.viol("C11", &format!("{} live value objects but len is {}", lv, w.entries));
    }
    if lk < w.entries || lk > w.entries + w.seps {
        c.viol("C11", &format!("{} live key objects, len {} separators {}", lk, w.entries, w.seps));
    }
    if CLONES_V.load(AO::SeqCst) != 0 {
        c.viol("C11", "a value was cloned");
    }
    if t.len() != w.entries {
        c.viol("C01", &format!("len() = {} but {} entries stored", t.len(), w.entries));
    }
    Analysis { local: errs, other, chain: chain_errs, arena: e6 }
}

/// C14 oracle on a damaged map: the independent analysis says which kinds of damage are
/// present; the validators must reject accordingly.
fn c14_oracle(t: &Map, c: &mut Ctx) -> (bool, bool) {
    let a = analyze(t, c, None, false);
    let must_ci = !a.local.is_empty();
    let must_detailed = must_ci || !a.chain.is_empty() || a.arena.iter().any(|e| e.contains("reachable"));
    if must_ci && t.check_invariants() {
        c.viol("C14", &format!("check_invariants() accepts a damaged map: {}", a.local[0]));
    }
    if must_detailed {
        let why = a.local.first().or(a.chain.first()).or(a.arena.first()).cloned().unwrap_or_default();
        if t.check_invariants_detailed().is_ok() {
            c.viol("C14", &format!("check_invariants_detailed() accepts a damaged map: {}", why));
        }
        if t.validate().is_ok() {
            c.viol("C14", &format!("validate() accepts a damaged map: {}", why));
        }
        if t.validate_for_operation("verif").is_ok() {
            c.viol("C14", &format!("validate_for_operation() accepts a damaged map: {}", why));
        }
    }
    (must_ci, must_detailed)
}

// ---------------------------------------------------------------- oracle: BTreeMap mirror
type Mirror = BTreeMap<i64, (u64, i64)>;

fn mirror_check(t: &Map, m: &Mirror, c: &mut Ctx) {
    let got: Vec<(i64, u64, i64)> = t.items().take(iter_limit()).map(|(k, v)| (k.z, k.id, v.v)).collect();
    let want: Vec<(i64, u64, i64)> = m.iter().map(|(k, (id, v))| (*k, *id, *v)).collect();
    if got != want {
        c.viol("C01", &format!("contents differ from BTreeMap: got {:?} want {:?}", got, want));
        c.viol("C02", "items() differs from BTreeMap iteration");
    }
}

fn cmp_out<T: PartialEq + std::fmt::Debug>(c: &mut Ctx, prop: &str, what: &str, got: T, want: T) {
    if got != want {
        c.viol(prop, &format!("{}: got {:?} want {:?}", what, got, want));
    }
}

enum AnyIt<'a> {
    Items(bplustree::ItemIterator<'a, VKey, VVal>),
    Fast(bplustree::FastItemIterator<'a, VKey, VVal>),
    Keys(bplustree::KeyIterator<'a, VKey, VVal>),
    Values(bplustree::ValueIterator<'a, VKey, VVal>),
}

fn bound_of<'a>(k: &str, key: &'a VKey) -> Bound<&'a VKey> {
    match k {
        "I" => Bound::Included(key),
        "E" => Bound::Excluded(key),
        _ => Bound::Unbounded,
    }
}
fn in_bounds(z: i64, lk: &str, lo: i64, hk: &str, hi: i64) -> bool {
    (match lk {
        "I" => z >= lo,
        "E" => z > lo,
        _ => true,
    }) && (match hk {
        "I" => z <= hi,
        "E" => z < hi,
        _ => true,
    })
}

fn err_class(e: &str) -> &'static str {
    if e.contains("Tree invariants violated") {
        "E1"
    } else if e.contains("unsorted keys") {
        "E2"
    } else if e.contains("keys but tree has") {
        "E3"
    } else if e.contains("Leaf consistency check") {
        "E4"
    } else if e.contains("Branch consistency check") {
        "E5"
    } else if e.contains("Linked list") {
        "E6"
    } else {
        "E?"
    }
}
fn s_err(e: &bplustree::BPlusTreeError) -> &'static str {
    match e {
        bplustree::BPlusTreeError::KeyNotFound => "KeyNotFound",
        bplustree::BPlusTreeError::DataIntegrityError(_) => "DataIntegrity",
        bplustree::BPlusTreeError::InvalidCapacity(_) => "InvalidCapacity",
        bplustree::BPlusTreeError::ArenaError(_) => "ArenaError",
        bplustree::BPlusTreeError::CorruptedTree(_) => "CorruptedTree",
        _ => "OtherError",
    }
}

pub struct TreeSt {
    pub t: Map,
    /// the same history on plain Copy types (BPlusTreeMap<i64, i64>): must answer identically
    pub plain: BPlusTreeMap<i64, i64>,
    pub m: Mirror,
    pub hwm: (usize, usize),
    pub damaged: bool,
}

fn do_tree_op(st: &mut TreeSt, toks: &[&str], c: &mut Ctx) -> String {
    let t = &mut st.t;
    let m = &mut st.m;
    let p = |s: &str| -> i64 { s.parse().unwrap() };
    match toks[0] {
        "I" => {
            let (z, id, v) = (p(toks[1]), p(toks[2]) as u64, p(toks[3]));
            let r = t.insert(VKey::new(z, id), VVal::new(v));
            let want = match m.get_mut(&z) {
                Some(e) => {
                    let old = e.1;
                    e.1 = v;
                    Some(old)
                }
                None => {
                    m.insert(z, (id, v));
                    None
                }
            };
            cmp_out(c, "C01", "insert", r.as_ref().map(|x| x.v), want);
            cmp_out(c, "C01", "insert on plain i64 map", st.plain.insert(z, v), want);
            s_optv(r.as_ref())
        }
        "R" => {
            let z = p(toks[1]);
            let k = VKey::new(z, 0);
            let r = t.remove(&k);
            drop(k);
            let want = m.remove(&z).map(|e| e.1);
            cmp_out(c, "C01", "remove", r.as_ref().map(|x| x.v), want);
            cmp_out(c, "C01", "remove on plain i64 map", st.plain.remove(&z), want);
            s_optv(r.as_ref())
        }
        "G" => {
            let z = p(toks[1]);
            let k = VKey::new(z, 0);
            let r = t.get(&k);
            cmp_out(c, "C01", "get", r.map(|x| x.v), m.get(&z).map(|e| e.1));
            cmp_out(c, "C01", "get on plain i64 map", st.plain.get(&z).copied(), m.get(&z).map(|e| e.1));
            s_optv(r)
        }
        "C" => {
            let z = p(toks[1]);
            let k = VKey::new(z, 0);
            let r = t.contains_key(&k);
            cmp_out(c, "C01", "contains_key", r, m.contains_key(&z));
            r.to_string()
        }
        "D" => {
            let (z, d) = (p(toks[1]), p(toks[2]));
            let k = VKey::new(z, 0);
            let dv = VVal::new(d);
            let r = t.get_or_default(&k, &dv).v;
            cmp_out(c, "C01", "get_or_default", r, m.get(&z).map(|e| e.1).unwrap_or(d));
            r.to_string()
        }
        "L" => {
            let r = t.len();
            cmp_out(c, "C01", "len", r, m.len());
            cmp_out(c, "C01", "len on plain i64 map", st.plain.len(), m.len());
            r.to_string()
        }
        "E" => {
            let r = t.is_empty();
            cmp_out(c, "C01", "is_empty", r, m.is_empty());
            r.to_string()
        }
        "M" => {
            let (z, v) = (p(toks[1]), p(toks[2]));
            let k = VKey::new(z, 0);
            let r = match t.get_mut(&k) {
                Some(slot) => {
                    *slot = VVal::new(v);
                    true
                }
                None => false,
            };
            let want = match m.get_mut(&z) {
                Some(e) => {
                    e.1 = v;
                    true
                }
                None => false,
            };
            cmp_out(c, "C01", "get_mut", r, want);
            if let Some(slot) = st.plain.get_mut(&z) {
                *slot = v;
            }
            r.to_string()
        }
        "X" => {
            t.clear();
            m.clear();
            st.plain.clear();
            st.hwm = (0, 0);
            "()".into()
        }
        "IT" => {
            let kinds: Vec<&str> = toks[1].split(',').filter(|s| !s.is_empty()).collect();
            let mut pool: Vec<AnyIt> = kinds
                .iter()
                .map(|k| match *k {
                    "items" => AnyIt::Items(t.items()),
                    "fast" => AnyIt::Fast(t.items_fast()),
                    "keys" => AnyIt::Keys(t.keys()),
                    _ => AnyIt::Values(t.values()),
                })
                .collect();
            let want: Vec<(i64, u64, i64)> = m.iter().map(|(k, (id, v))| (*k, *id, *v)).collect();
            let mut pos = vec![0usize; pool.len()];
            let mut outs: Vec<String> = vec![];
            let mut bad: Vec<String> = vec![];
            for s in &toks[2..] {
                let mut it = s.split(':');
                let i: usize = it.next().unwrap().parse().unwrap();
                let n: usize = it.next().unwrap().parse().unwrap();
                if i >= pool.len() {
                    continue;
                }
                for _ in 0..n {
                    let exp = want.get(pos[i]).copied();
                    let (txt, got): (String, Option<(i64, Option<u64>, Option<i64>)>) = match &mut pool[i] {
                        AnyIt::Items(x) => match x.next() {
                            Some((k, v)) => (s_kv(k, v), Some((k.z, Some(k.id), Some(v.v)))),
                            None => ("-".into(), None),
                        },
                        AnyIt::Fast(x) => match x.next() {
                            Some((k, v)) => (s_kv(k, v), Some((k.z, Some(k.id), Some(v.v)))),
                            None => ("-".into(), None),
                        },
                        AnyIt::Keys(x) => match x.next() {
                            Some(k) => (s_key(k), Some((k.z, Some(k.id), None))),
                            None => ("-".into(), None),
                        },
                        AnyIt::Values(x) => match x.next() {
                            Some(v) => (format!("={}", v.v), Some((0, None, Some(v.v)))),
                            None => ("-".into(), None),
                        },
                    };
                    // oracle: n-th next() of each iterator = n-th entry of the BTreeMap, then None forever
                    let ok = match (got, exp) {
                        (None, None) => true,
                        (Some((z, id, v)), Some((ez, eid, ev))) => {
                            (id.is_none() || (z == ez && id == Some(eid))) && (v.is_none() || v == Some(ev))
                        }
                        _ => false,
                    };
                    if !ok {
                        bad.push(format!("iterator {} call {}: got {:?} want {:?}", i, pos[i], got, exp));
                    }
                    if got.is_some() {
                        pos[i] += 1;
                    }
                    outs.push(txt);
                }
            }
            drop(pool);
            for b in bad {
                c.viol("C02", &b);
            }
            format!("[{}]", outs.join(" "))
        }
        "FL" => {
            let f = t.first().map(|(k, v)| (k.z, k.id, v.v));
            let l = t.last().map(|(k, v)| (k.z, k.id, v.v));
            cmp_out(c, "C02", "first", f, m.iter().next().map(|(k, e)| (*k, e.0, e.1)));
            cmp_out(c, "C02", "last", l, m.iter().next_back().map(|(k, e)| (*k, e.0, e.1)));
            let s = |o: Option<(i64, u64, i64)>| match o {
                None => "None".to_string(),
                Some((z, id, v)) => format!("Some({}:{}={})", z, id, v),
            };
            format!("first={} last={}", s(f), s(l))
        }
        "SL" => {
            let items: Vec<String> = t.items().take(iter_limit()).map(|(k, v)| s_kv(k, v)).collect();
            let fast: Vec<String> = t.items_fast().take(iter_limit()).map(|(k, v)| s_kv(k, v)).collect();
            let keys: Vec<String> = t.keys().take(iter_limit()).map(s_key).collect();
            let values: Vec<String> = t.values().take(iter_limit()).map(|v| v.v.to_string()).collect();
            let slice: Vec<String> = t.slice().iter().map(|(k, v)| s_kv(k, v)).collect();
            let want: Vec<String> = m.iter().map(|(k, (id, v))| format!("{}:{}={}", k, id, v)).collect();
            for (name, got) in [("items", &items), ("items_fast", &fast), ("slice", &slice)] {
                if *got != want {
                    c.viol("C02", &format!("{}() = {:?} want {:?}", name, got, want));
                }
            }
            let wk: Vec<String> = m.iter().map(|(k, (id, _))| format!("{}:{}", k, id)).collect();
            let wv: Vec<String> = m.values().map(|(_, v)| v.to_string()).collect();
            if keys != wk {
                c.viol("C02", "keys() differs");
            }
            if values != wv {
                c.viol("C02", "values() differs");
            }
            // the std Iterator adaptors (nth, skip, count, last, step_by, ...) are defined through next() unless an
            // iterator overrides them: every iterator must answer them like the reference sequence, for positions
            // before, at and past the end
            let n = want.len();
            for pos in [0usize, n.saturating_sub(1), n, n + 1] {
                let w = want.get(pos).cloned();
                let checks: [(&str, Option<String>); 4] = [
                    ("items().nth", t.items().nth(pos).map(|(k, v)| s_kv(k, v))),
                    ("items_fast().nth", t.items_fast().nth(pos).map(|(k, v)| s_kv(k, v))),
                    ("items().skip().next", t.items().skip(pos).next().map(|(k, v)| s_kv(k, v))),
                    ("range(..).nth", t.range(..).nth(pos).map(|(k, v)| s_kv(k, v))),
                ];
                for (name, got) in checks {
                    if got != w {
                        c.viol("C02", &format!("{}({}) = {:?} want {:?}", name, pos, got, w));
                    }
                }
                if t.keys().nth(pos).map(s_key) != wk.get(pos).cloned() {
                    c.viol("C02", &format!("keys().nth({}) differs", pos));
                }
                if t.values().nth(pos).map(|v| v.v.to_string()) != wv.get(pos).cloned() {
                    c.viol("C02", &format!("values().nth({}) differs", pos));
                }
            }
            if t.items().take(iter_limit()).count() != n || t.items_fast().take(iter_limit()).count() != n || t.keys().take(iter_limit()).count() != n {
                c.viol("C02", "count() of an iterator differs from the number of entries");
            }
            if t.items().take(iter_limit()).last().map(|(k, v)| s_kv(k, v)) != want.last().cloned() {
                c.viol("C02", "items().last() differs");
            }
            let sb: Vec<String> = t.items().step_by(3).take(iter_limit()).map(|(k, v)| s_kv(k, v)).collect();
            let wsb: Vec<String> = want.iter().step_by(3).cloned().collect();
            if sb != wsb {
                c.viol("C02", "items().step_by(3) differs");
            }
            let mut it = t.items();
            let drained = it.by_ref().take(n).count();
            if drained != n || it.nth(0).is_some() {
                c.viol("C02", "nth(0) on a drained iterator is not None");
            }
            // the same adaptors called on the iterators themselves (an override of count / last / fold / min / max /
            // size_hint is only reached without a wrapping adaptor); the watchdog bounds a walk that never ends
            if t.items().count() != n || t.items_fast().count() != n || t.keys().count() != n || t.values().count() != n || t.range(..).count() != n {
                c.viol("C02", "count() called directly on an iterator differs from the number of entries");
            }
            if t.items().last().map(|(k, v)| s_kv(k, v)) != want.last().cloned()
                || t.items_fast().last().map(|(k, v)| s_kv(k, v)) != want.last().cloned()
                || t.range(..).last().map(|(k, v)| s_kv(k, v)) != want.last().cloned()
                || t.keys().last().map(s_key) != wk.last().cloned()
            {
                c.viol("C02", "last() called directly on an iterator differs from the maximum entry");
            }
            for k in [n, n.saturating_sub(1), n + 1] {
                if t.items().skip(k).last().map(|(k, v)| s_kv(k, v)) != want.iter().skip(k).last().cloned() {
                    c.viol("C02", &format!("items().skip({}).last() differs", k));
                }
                let mut it = t.items();
                let _ = it.by_ref().take(k).count();
                if it.last().map(|(k, v)| s_kv(k, v)) != want.iter().skip(k).last().cloned() {
                    c.viol("C02", &format!("last() on an iterator advanced by {} entries differs", k));
                }
                let mut it = t.items();
                let _ = it.by_ref().take(k).count();
                if it.count() != n.saturating_sub(k) {
                    c.viol("C02", &format!("count() on an iterator advanced by {} entries differs", k));
                }
            }
            let folded: Vec<String> = t.items().fold(Vec::new(), |mut a, (k, v)| { a.push(s_kv(k, v)); a });
            if folded != want {
                c.viol("C02", "items().fold() differs");
            }
            if t.keys().min().map(s_key) != wk.first().cloned() || t.keys().max().map(s_key) != wk.last().cloned() {
                c.viol("C02", "keys().min() / max() differ");
            }
            for (name, (lo, hi)) in [("items", t.items().size_hint()), ("items_fast", t.items_fast().size_hint()), ("keys", t.keys().size_hint()), ("range", t.range(..).size_hint())] {
                if lo > n || hi.map_or(false, |h| h < n) {
                    c.viol("C02", &format!("{}().size_hint() = ({}, {:?}) excludes the real length {}", name, lo, hi, n));
                }
            }
            format!(
                "items=[{}] fast=[{}] keys=[{}] values=[{}]",
                items.join(" "),
                fast.join(" "),
                keys.join(" "),
                values.join(" ")
            )
        }
        "RG" => {
            let (lk, lo, hk, hi) = (toks[1], p(toks[2]), toks[3], p(toks[4]));
            let (klo, khi) = (VKey::new(lo, 0), VKey::new(hi, 0));
            let got: Vec<(i64, u64, i64)> =
                t.range((bound_of(lk, &klo), bound_of(hk, &khi))).take(iter_limit()).map(|(k, v)| (k.z, k.id, v.v)).collect();
            let want: Vec<(i64, u64, i64)> = m
                .iter()
                .filter(|(k, _)| in_bounds(**k, lk, lo, hk, hi))
                .map(|(k, e)| (*k, e.0, e.1))
                .collect();
            if got != want {
                c.viol("C03", &format!("range({}{},{}{}) = {:?} want {:?}", lk, lo, hk, hi, got, want));
            }
            let v: Vec<String> = got.iter().map(|(z, id, v)| format!("{}:{}={}", z, id, v)).collect();
            format!("[{}]", v.join(" "))
        }
        "IR" => {
            let s = if toks[1] == "-" { None } else { Some(VKey::new(p(toks[1]), 0)) };
            let e = if toks[2] == "-" { None } else { Some(VKey::new(p(toks[2]), 0)) };
            let got: Vec<(i64, u64, i64)> =
                t.items_range(s.as_ref(), e.as_ref()).take(iter_limit()).map(|(k, v)| (k.z, k.id, v.v)).collect();
            let want: Vec<(i64, u64, i64)> = m
                .iter()
                .filter(|(k, _)| s.as_ref().is_none_or(|s| **k >= s.z) && e.as_ref().is_none_or(|e| **k < e.z))
                .map(|(k, x)| (*k, x.0, x.1))
                .collect();
            if got != want {
                c.viol("C03", &format!("items_range({:?},{:?}) = {:?} want {:?}", toks[1], toks[2], got, want));
            }
            let v: Vec<String> = got.iter().map(|(z, id, v)| format!("{}:{}={}", z, id, v)).collect();
            format!("[{}]", v.join(" "))
        }
        "FP" => {
            let (pos, idx, ek, e) = (p(toks[1]) as usize, p(toks[2]) as usize, toks[3], p(toks[4]));
            // leaf id at chain position pos
            let mut ids = vec![];
            let mut cur = t.get_first_leaf_id();
            let mut steps = 0;
            while let Some(i) = cur {
                ids.push(i);
                steps += 1;
                if steps > 100000 {
                    break;
                }
                cur = t.get_leaf_next(i);
                if t.get_leaf(i).is_none() {
                    break;
                }
            }
            let ke = VKey::new(e, 0);
            let got: Vec<(i64, u64, i64)> = match ids.get(pos) {
                Some(id) => ItemIterator::new_from_position_with_bounds(&*t, *id, idx, bound_of(ek, &ke))
                    .take(iter_limit())
                    .map(|(k, v)| (k.z, k.id, v.v))
                    .collect(),
                None => vec![],
            };
            // oracle: suffix of the contents from that position, cut at the end bound
            if !st.damaged && pos < ids.len() {
                let mut before = 0usize;
                for id in &ids[..pos] {
                    before += t.get_leaf(*id).map(|l| l.len()).unwrap_or(0);
                }
                let llen = t.get_leaf(ids[pos]).map(|l| l.len()).unwrap_or(0);
                let start = before + idx.min(llen);
                let want: Vec<(i64, u64, i64)> = m
                    .iter()
                    .skip(start)
                    .take_while(|(k, _)| in_bounds(**k, "U", 0, ek, e))
                    .map(|(k, x)| (*k, x.0, x.1))
                    .collect();
                if got != want {
                    c.viol("C03", &format!("from_position({},{},{}{}) = {:?} want {:?}", pos, idx, ek, e, got, want));
                }
            }
            let v: Vec<String> = got.iter().map(|(z, id, v)| format!("{}:{}={}", z, id, v)).collect();
            format!("[{}]", v.join(" "))
        }
        "V" => {
            let ci = t.check_invariants();
            let cid = match t.check_invariants_detailed() {
                Ok(()) => "ok".to_string(),
                Err(e) => err_class(&e).to_string(),
            };
            let val = match t.validate() {
                Ok(()) => "ok".to_string(),
                Err(e) => err_class(&e).to_string(),
            };
            let vfo = match t.validate_for_operation("verif") {
                Ok(()) => "ok".to_string(),
                Err(e) => match &e {
                    bplustree::BPlusTreeError::DataIntegrityError(s) => err_class(s).to_string(),
                    _ => format!("wrongkind:{}", s_err(&e)),
                },
            };
            if val != cid {
                c.viol("C14", "validate() and check_invariants_detailed() disagree");
            }
            if st.damaged {
                c14_oracle(t, c);
            }
            if !st.damaged && (!ci || cid != "ok" || vfo != "ok") {
                c.viol("C10", "validator reports an error on a map built through the API");
            }
            format!("ci={} cid={} vfo={}", ci, cid, vfo)
        }
        "Q" => {
            let (cl, cb) = t.count_nodes_in_tree();
            let ls: Vec<String> = t.leaf_sizes().iter().map(|n| n.to_string()).collect();
            format!(
                "lc={} cn={},{} ls=[{}] lr={} al={} ab={} fl={} fb={}",
                t.leaf_count(),
                cl,
                cb,
                ls.join(" "),
                t.is_leaf_root(),
                t.allocated_leaf_count(),
                t.allocated_branch_count(),
                t.free_leaf_count(),
                t.free_branch_count()
            )
        }
        "TG" | "GI" => {
            let z = p(toks[1]);
            let k = VKey::new(z, 0);
            let r = if toks[0] == "TG" { t.try_get(&k) } else { t.get_item(&k) };
            let want = m.get(&z).map(|e| e.1);
            match (&r, want) {
                (Ok(v), Some(w)) if v.v == w => {}
                (Err(bplustree::BPlusTreeError::KeyNotFound), None) => {}
                _ => c.viol("C10", &format!("{} {}: got {:?} want {:?}", toks[0], z, r.as_ref().map(|v| v.v), want)),
            }
            match r {
                Ok(v) => format!("Ok({})", v.v),
                Err(e) => format!("Err({})", s_err(&e)),
            }
        }
        "GM" => {
            let zs: Vec<i64> = toks[1..].iter().map(|s| p(s)).collect();
            let ks: Vec<VKey> = zs.iter().map(|z| VKey::new(*z, 0)).collect();
            let r = t.get_many(&ks);
            let want: Option<Vec<i64>> = zs.iter().map(|z| m.get(z).map(|e| e.1)).collect();
            let gotv: Result<Vec<i64>, &'static str> = match &r {
                Ok(vs) => Ok(vs.iter().map(|v| v.v).collect()),
                Err(e) => Err(s_err(e)),
            };
            match (&gotv, &want) {
                (Ok(a), Some(b)) if a == b => {}
                (Err("KeyNotFound"), None) => {}
                _ => c.viol("C10", &format!("get_many {:?}: got {:?} want {:?}", zs, gotv, want)),
            }
            match gotv {
                Ok(vs) => format!("Ok([{}])", vs.iter().map(|v| v.to_string()).collect::<Vec<_>>().join(" ")),
                Err(e) => format!("Err({})", e),
            }
        }
        "RI" => {
            let z = p(toks[1]);
            let k = VKey::new(z, 0);
            let r = t.remove_item(&k);
            let want = m.remove(&z).map(|e| e.1);
            let _ = st.plain.remove_item(&z);
            match (&r, want) {
                (Ok(v), Some(w)) if v.v == w => {}
                (Err(bplustree::BPlusTreeError::KeyNotFound), None) => {}
                _ => c.viol("C10", &format!("remove_item {}: got {:?} want {:?}", z, r.as_ref().map(|v| v.v), want)),
            }
            match r {
                Ok(v) => format!("Ok({})", v.v),
                Err(e) => format!("Err({})", s_err(&e)),
            }
        }
        "TI" => {
            let (z, id, v) = (p(toks[1]), p(toks[2]) as u64, p(toks[3]));
            let before = if st.damaged { let mut cc = Ctx { out: String::new(), viol: vec![], hid: String::new(), step: 0, dump_every: 1, viol_count: 0, per_prop: HashMap::new() }; dump_s3(t, &mut cc); Some((c14_oracle(t, c), cc.out)) } else { None };
            let r = t.try_insert(VKey::new(z, id), VVal::new(v));
            if r.is_ok() {
                st.plain.insert(z, v);
            }
            if let Some(((_, must), dump)) = &before {
                if *must {
                    let mut cc = Ctx { out: String::new(), viol: vec![], hid: String::new(), step: 0, dump_every: 1, viol_count: 0, per_prop: HashMap::new() };
                    dump_s3(t, &mut cc);
                    if !matches!(r, Err(bplustree::BPlusTreeError::DataIntegrityError(_))) {
                        c.viol("C14", "try_insert does not refuse a damaged map with a data-integrity error");
                    }
                    if cc.out != *dump {
                        c.viol("C14", "try_insert changed a damaged map");
                    }
                }
            }
            if !st.damaged {
                let want = match m.get_mut(&z) {
                    Some(e) => {
                        let old = e.1;
                        e.1 = v;
                        Some(old)
                    }
                    None => {
                        m.insert(z, (id, v));
                        None
                    }
                };
                match &r {
                    Ok(o) if o.as_ref().map(|x| x.v) == want => {}
                    _ => c.viol("C10", &format!("try_insert {}: got {:?} want Ok({:?})", z, r.as_ref().map(|o| o.as_ref().map(|x| x.v)), want)),
                }
            }
            match r {
                Ok(o) => format!("Ok({})", s_optv(o.as_ref())),
                Err(e) => format!("Err({})", s_err(&e)),
            }
        }
        "TR" => {
            let z = p(toks[1]);
            let k = VKey::new(z, 0);
            let before = if st.damaged { let mut cc = Ctx { out: String::new(), viol: vec![], hid: String::new(), step: 0, dump_every: 1, viol_count: 0, per_prop: HashMap::new() }; dump_s3(t, &mut cc); Some((c14_oracle(t, c), cc.out)) } else { None };
            let r = t.try_remove(&k);
            if r.is_ok() {
                st.plain.remove(&z);
            }
            if let Some(((_, must), dump)) = &before {
                if *must {
                    let mut cc = Ctx { out: String::new(), viol: vec![], hid: String::new(), step: 0, dump_every: 1, viol_count: 0, per_prop: HashMap::new() };
                    dump_s3(t, &mut cc);
                    if !matches!(r, Err(bplustree::BPlusTreeError::DataIntegrityError(_))) {
                        c.viol("C14", "try_remove does not refuse a damaged map with a data-integrity error");
                    }
                    if cc.out != *dump {
                        c.viol("C14", "try_remove changed a damaged map");
                    }
                }
            }
            if !st.damaged {
                let want = m.remove(&z).map(|e| e.1);
                match (&r, want) {
                    (Ok(v), Some(w)) if v.v == w => {}
                    (Err(bplustree::BPlusTreeError::KeyNotFound), None) => {}
                    _ => c.viol("C10", &format!("try_remove {}: got {:?} want {:?}", z, r.as_ref().map(|v| v.v), want)),
                }
            }
            match r {
                Ok(v) => format!("Ok({})", v.v),
                Err(e) => format!("Err({})", s_err(&e)),
            }
        }
        "BI" => {
            let items: Vec<(i64, u64, i64)> = toks[1..]
                .iter()
                .map(|s| {
                    let f: Vec<&str> = s.split(':').collect();
                    (p(f[0]), p(f[1]) as u64, p(f[2]))
                })
                .collect();
            let arg: Vec<(VKey, VVal)> = items.iter().map(|(z, id, v)| (VKey::new(*z, *id), VVal::new(*v))).collect();
            let r = t.batch_insert(arg);
            if r.is_ok() {
                for (z, _, v) in &items {
                    st.plain.insert(*z, *v);
                }
            }
            let mut want = vec![];
            for (z, id, v) in &items {
                want.push(match m.get_mut(z) {
                    Some(e) => {
                        let old = e.1;
                        e.1 = *v;
                        Some(old)
                    }
                    None => {
                        m.insert(*z, (*id, *v));
                        None
                    }
                });
            }
            let got: Result<Vec<Option<i64>>, &'static str> = match &r {
                Ok(l) => Ok(l.iter().map(|o| o.as_ref().map(|x| x.v)).collect()),
                Err(e) => Err(s_err(e)),
            };
            if got != Ok(want.clone()) {
                c.viol("C10", &format!("batch_insert: got {:?} want {:?}", got, want));
            }
            match got {
                Ok(l) => format!(
                    "Ok([{}])",
                    l.iter()
                        .map(|o| match o {
                            None => "None".to_string(),
                            Some(v) => format!("Some({})", v),
                        })
                        .collect::<Vec<_>>()
                        .join(" ")
                ),
                Err(e) => format!("Err({})", e),
            }
        }
        "DMG" => damage::do_damage_op(st, toks, c),
        _ => format!("?unparsed {}", toks.join(" ")),
    }
}

// ---------------------------------------------------------------- arena histories (C16)
struct ArenaSt {
    a: CompactArena<i64>,
    s: CompactArena<String>, // heap-owning twin driven in lockstep
    live: HashMap<u32, i64>, // handle-map oracle
}
fn dump_arena(a: &CompactArena<i64>, c: &mut Ctx) {
    let (st, mk, fr) = a.verif_raw();
    let _ = writeln!(
        c.out,
        "S3 mask={} free={} slots=[{}]",
        s_mask(mk),
        s_free(fr),
        st.iter().map(|x| x.to_string()).collect::<Vec<_>>().join(" ")
    );
}
fn do_arena_op(st: &mut ArenaSt, toks: &[&str], c: &mut Ctx) -> String {
    let p = |s: &str| -> i64 { s.parse().unwrap() };
    let h = |s: &str| -> u32 { s.parse::<u64>().unwrap() as u32 };
    let so = |o: Option<i64>| match o {
        None => "None".to_string(),
        Some(v) => format!("Some({})", v),
    };
    let out = match toks[0] {
        "alloc" => {
            let x = p(toks[1]);
            let id = st.a.allocate(x);
            let id2 = st.s.allocate(x.to_string());
            if id == NULL_NODE {
                c.viol("C16", "allocate returned the null handle");
            }
            if st.live.contains_key(&id) {
                c.viol("C16", &format!("allocate returned live handle {}", id));
            }
            if id != id2 {
                c.viol("C16", "String arena diverges from i64 arena");
            }
            st.live.insert(id, x);
            format!("id={}", pid(id))
        }
        "free" | "free_d" => {
            let id = h(toks[1]);
            let (r, r2) = if toks[0] == "free" {
                (st.a.deallocate(id), st.s.deallocate(id))
            } else {
                (st.a.deallocate_with_default(id), st.s.deallocate_with_default(id))
            };
            let want = st.live.remove(&id);
            cmp_out(c, "C16", toks[0], r, want);
            cmp_out(c, "C16", "String twin", r2, want.map(|x| x.to_string()));
            so(r)
        }
        "free_nr" => {
            let id = h(toks[1]);
            let r = st.a.deallocate_no_return(id);
            let r2 = st.s.deallocate_no_return(id);
            let want = st.live.remove(&id).is_some();
            cmp_out(c, "C16", "deallocate_no_return", r, want);
            cmp_out(c, "C16", "String twin", r2, want);
            r.to_string()
        }
        "get" => {
            let id = h(toks[1]);
            let r = st.a.get(id).copied();
            cmp_out(c, "C16", "get", r, st.live.get(&id).copied());
            cmp_out(c, "C16", "String twin get", st.s.get(id).cloned(), st.live.get(&id).map(|x| x.to_string()));
            so(r)
        }
        "set" => {
            let (id, x) = (h(toks[1]), p(toks[2]));
            let r = match st.a.get_mut(id) {
                Some(slot) => {
                    *slot = x;
                    true
                }
                None => false,
            };
            if let Some(slot) = st.s.get_mut(id) {
                *slot = x.to_string();
            }
            let want = match st.live.get_mut(&id) {
                Some(e) => {
                    *e = x;
                    true
                }
                None => false,
            };
            cmp_out(c, "C16", "get_mut", r, want);
            r.to_string()
        }
        "has" => {
            let id = h(toks[1]);
            let r = st.a.contains(id);
            cmp_out(c, "C16", "contains", r, st.live.contains_key(&id));
            r.to_string()
        }
        "len" => {
            cmp_out(c, "C16", "len", st.a.len(), st.live.len());
            st.a.len().to_string()
        }
        "ac" => {
            cmp_out(c, "C16", "allocated_count", st.a.allocated_count(), st.live.len());
            st.a.allocated_count().to_string()
        }
        "empty" => {
            cmp_out(c, "C16", "is_empty", st.a.is_empty(), st.live.is_empty());
            st.a.is_empty().to_string()
        }
        "fc" => st.a.free_count().to_string(),
        "stats" => {
            let s = st.a.stats();
            cmp_out(c, "C16", "stats.allocated_count", s.allocated_count, st.live.len());
            cmp_out(c, "C16", "stats.free_count", s.free_count, st.a.free_count());
            format!("stats={},{}", s.allocated_count, s.free_count)
        }
        "clear" => {
            st.a.clear();
            st.s.clear();
            st.live.clear();
            "()".into()
        }
        "compact" => {
            let mut before: Vec<(u32, i64)> = st.live.iter().map(|(k, v)| (*k, *v)).collect();
            before.sort();
            st.a.compact();
            st.s.compact();
            st.live.clear();
            for (i, (_, v)) in before.iter().enumerate() {
                st.live.insert(i as u32, *v);
            }
            "()".into()
        }
        _ => format!("?unparsed {}", toks.join(" ")),
    };
    // after every call: the oracle's view of every handle in a window, and the counts
    let (stg, mk, fr) = st.a.verif_raw();
    let n = stg.len() as u32 + 3;
    for id in (0..n).chain([NULL_NODE, NULL_NODE - 1]) {
        if st.a.get(id).copied() != st.live.get(&id).copied() {
            c.viol("C16", &format!("handle {} resolves to {:?}, oracle says {:?}", id, st.a.get(id), st.live.get(&id)));
            break;
        }
    }
    if st.a.len() != st.live.len() || st.a.len() + st.a.free_count() != mk.len() || fr.len() != st.a.free_count() {
        c.viol("C16", "counts disagree with live/released slots");
    }
    out
}

enum St {
    Dead,
    Tree(Box<TreeSt>),
    Arena(Box<ArenaSt>),
}

/// target "tall": a very tall tree (capacity 4 or 5, about a hundred thousand keys inserted in order: more than ten
/// levels). The per-call machinery of the other targets costs O(n) per call on both sides, so this target has no model
/// trace (the theorems cover every size; the model driver prints the header line only): the implementation is driven
/// here against std's BTreeMap with probes of every reader kind on the way up, at the top and after trimming both ends.
fn tall_probe(t: &mut BPlusTreeMap<i64, i64>, m: &mut std::collections::BTreeMap<i64, i64>, z: i64, c: &mut Ctx) {
    use std::ops::Bound::{Excluded, Included, Unbounded};
    let w = m.get(&z).copied();
    if t.get(&z).copied() != w {
        c.viol("C01", &format!("tall tree ({} entries): get({}) = {:?}, reference {:?}", m.len(), z, t.get(&z), w));
    }
    if t.contains_key(&z) != w.is_some() {
        c.viol("C01", &format!("tall tree ({} entries): contains_key({}) wrong", m.len(), z));
    }
    if *t.get_or_default(&z, &-7) != w.unwrap_or(-7) {
        c.viol("C01", &format!("tall tree ({} entries): get_or_default({}) wrong", m.len(), z));
    }
    if t.try_get(&z).ok().copied() != w || t.get_item(&z).ok().copied() != w {
        c.viol("C10", &format!("tall tree ({} entries): try_get / get_item({}) disagree with get", m.len(), z));
    }
    match (t.get_mut(&z), m.get_mut(&z)) {
        (Some(a), Some(b)) => {
            *a += 1;
            *b += 1;
        }
        (None, None) => {}
        _ => c.viol("C01", &format!("tall tree ({} entries): get_mut({}) disagrees with the reference", m.len(), z)),
    }
    if t.len() != m.len() {
        c.viol("C01", &format!("tall tree: len() = {} reference {}", t.len(), m.len()));
    }
    let f = t.first().map(|(k, v)| (*k, *v));
    if f != m.iter().next().map(|(k, v)| (*k, *v)) {
        c.viol("C02", &format!("tall tree ({} entries): first() = {:?}", m.len(), f));
    }
    for (lo, hi) in [(z - 3, z), (z, z + 3), (z - 1, z + 1), (z + 2, z - 2)] {
        let bounds = [
            (Included(lo), Included(hi)), (Included(lo), Excluded(hi)), (Excluded(lo), Included(hi)), (Excluded(lo), Excluded(hi)),
            (Included(lo), Unbounded), (Excluded(lo), Unbounded),
        ];
        for b in bounds {
            let got: Vec<(i64, i64)> = t.range((b.0.as_ref(), b.1.as_ref())).take(6).map(|(k, v)| (*k, *v)).collect();
            let want: Vec<(i64, i64)> = if matches!((&b.0, &b.1), (Included(a), Included(e)) | (Included(a), Excluded(e)) | (Excluded(a), Included(e)) | (Excluded(a), Excluded(e)) if a > e)
                || matches!((&b.0, &b.1), (Excluded(a), Excluded(e)) if a == e) {
                Vec::new()          // BTreeMap::range panics on inverted intervals; the tree must yield nothing
            } else {
                m.range((b.0, b.1)).take(6).map(|(k, v)| (*k, *v)).collect()
            };
            if got != want {
                c.viol("C03", &format!("tall tree ({} entries): range({:?}, {:?}) starts {:?}, reference {:?}", m.len(), b.0, b.1, got, want));
            }
        }
        let got: Vec<(i64, i64)> = t.items_range(Some(&lo), Some(&hi)).take(6).map(|(k, v)| (*k, *v)).collect();
        let want: Vec<(i64, i64)> = if lo >= hi { Vec::new() } else { m.range(lo..hi).take(6).map(|(k, v)| (*k, *v)).collect() };
        if got != want {
            c.viol("C03", &format!("tall tree ({} entries): items_range({}, {}) = {:?}, reference {:?}", m.len(), lo, hi, got, want));
        }
    }
    let got: Vec<i64> = t.items().take(3).map(|(k, _)| *k).collect();
    let want: Vec<i64> = m.keys().take(3).copied().collect();
    if got != want || t.items_fast().take(3).map(|(k, _)| *k).collect::<Vec<i64>>() != want {
        c.viol("C02", &format!("tall tree ({} entries): iteration starts {:?}, reference {:?}", m.len(), got, want));
    }
}

fn tall_run(cap: usize, n: i64, sign: i64, c: &mut Ctx) {
    let mut t = match BPlusTreeMap::<i64, i64>::new(cap) {
        Ok(t) => t,
        Err(_) => {
            c.viol("C10", "tall tree: constructor failed");
            return;
        }
    };
    let mut m = std::collections::BTreeMap::new();
    let mut seed: u64 = 0x9e3779b97f4a7c15 ^ (n as u64);
    let mut rnd = |k: i64| -> i64 {
        seed = seed.wrapping_mul(6364136223846793005).wrapping_add(1442695040888963407);
        ((seed >> 33) as i64) % k.max(1)
    };
    for i in 0..n {
        let z = sign * i;
        let r = t.insert(z, z * 10);
        if r != m.insert(z, z * 10) {
            c.viol("C01", &format!("tall tree: insert({}) returned {:?}", z, r));
        }
        WD_PROGRESS.fetch_add(1, AO::SeqCst);
        // powers of the minimum fan-out times the leaf minimum are where a level is added
        let special = [8748, 8749, 8750, 26243, 26244, 26245, 78731, 78732, 78733, 236195, 236196].contains(&i);
        if i % 2000 == 1999 || special || i == n - 1 {
            tall_probe(&mut t, &mut m, z, c);
            tall_probe(&mut t, &mut m, sign * rnd(i + 1), c);
            tall_probe(&mut t, &mut m, sign * (i / 2), c);
            tall_probe(&mut t, &mut m, sign * (i + 5), c);
        }
    }
    for _ in 0..200 {
        tall_probe(&mut t, &mut m, sign * rnd(n), c);
    }
    let l = t.last().map(|(k, v)| (*k, *v));
    if l != m.iter().next_back().map(|(k, v)| (*k, *v)) {
        c.viol("C02", &format!("tall tree ({} entries): last() = {:?}", m.len(), l));
    }
    if !t.check_invariants() || t.check_invariants_detailed().is_err() || t.validate().is_err() {
        c.viol("C04", &format!("tall tree ({} entries): validators reject a map built through insert", m.len()));
    }
    // height: every leaf at least half full and minimum fan-out floor(cap/2)+1 bound the number of levels
    let leaves = t.leaf_count() as f64;
    let fan = (cap / 2 + 1) as f64;
    let bound = (leaves.ln() / fan.ln()).ceil() as usize + 2;
    let mut depth = 1usize;
    {
        // count the levels by following first children
        let (_cap, root) = { let p = t.verif_parts(); (p.0, p.1.clone()) };
        let mut cur = root;
        loop {
            match cur {
                NodeRef::Leaf(..) => break,
                NodeRef::Branch(id, _) => match t.get_branch(id).and_then(|b| b.verif_fields().2.first().cloned()) {
                    Some(ch) => {
                        depth += 1;
                        cur = ch;
                    }
                    None => break,
                },
            }
            if depth > 200 {
                break;
            }
        }
    }
    if depth > bound {
        c.viol("C04", &format!("tall tree: {} levels for {} leaves at capacity {} (bound {})", depth, leaves, cap, bound));
    }
    let trim = (n / 40).min(3000);
    for i in 0..trim {
        for z in [sign * i, sign * (n - 1 - i)] {
            let r = t.remove(&z);
            if r != m.remove(&z) {
                c.viol("C01", &format!("tall tree: remove({}) returned {:?}", z, r));
            }
        }
        WD_PROGRESS.fetch_add(1, AO::SeqCst);
    }
    for _ in 0..100 {
        tall_probe(&mut t, &mut m, sign * (trim + rnd(n - 2 * trim)), c);
    }
    tall_probe(&mut t, &mut m, sign * trim, c);
    tall_probe(&mut t, &mut m, sign * (n - 1 - trim), c);
    tall_probe(&mut t, &mut m, sign * (trim - 1), c);
    if !t.check_invariants() || t.check_invariants_detailed().is_err() {
        c.viol("C04", "tall tree: validators reject the map after trimming both ends");
    }
    if t.len() != m.len() {
        c.viol("C01", "tall tree: len() differs after trimming");
    }
}

fn main() {
    let args: Vec<String> = std::env::args().collect();
    let ops = std::fs::File::open(&args[1]).expect("ops file");
    let mut trace = std::io::BufWriter::new(std::fs::File::create(&args[2]).expect("trace file"));
    let mut violf = std::io::BufWriter::new(std::fs::File::create(&args[3]).expect("viol file"));
    // silence the default panic message (panics are caught and reported as outputs)
    std::panic::set_hook(Box::new(|_| {}));
    // watchdog: a call of the implementation that does not return (a loop that never ends) must not
    // hang the check.  No progress for BPT_WATCHDOG seconds (default 60): the history is reported
    // as a violation of whatever property is being checked ("VIOL * ...") and the process exits 4.
    // (not under Miri, which treats a thread still alive when main returns as an error; the Miri sample is short)
    if !cfg!(miri) {
        let viol_path = args[3].clone();
        let secs: u64 = std::env::var("BPT_WATCHDOG").ok().and_then(|s| s.parse().ok()).unwrap_or(60);
        std::thread::spawn(move || {
            let (mut last, mut idle) = (u64::MAX, 0u64);
            loop {
                std::thread::sleep(std::time::Duration::from_secs(1));
                let now = WD_PROGRESS.load(AO::SeqCst) as u64;
                if now == last {
                    idle += 1;
                } else {
                    last = now;
                    idle = 0;
                }
                if idle >= secs {
                    let cur = WD_CURRENT.lock().map(|g| g.clone()).unwrap_or_default();
                    if let Ok(mut f) = std::fs::OpenOptions::new().append(true).create(true).open(&viol_path) {
                        let _ = writeln!(f, "VIOL * {} non-termination: the call did not return within {} s", cur, secs);
                    }
                    std::process::exit(4);
                }
            }
        });
    }
    let mut st = St::Dead;
    let mut c = Ctx { out: String::new(), viol: vec![], hid: String::new(), step: 0, dump_every: 1, viol_count: 0, per_prop: HashMap::new() };
    let end_history = |st: &mut St, c: &mut Ctx| {
        // C11: dropping the map releases every key and value exactly once
        let old = std::mem::replace(st, St::Dead);
        if let St::Tree(ts) = old {
            let r = catch_unwind(AssertUnwindSafe(move || drop(ts)));
            if r.is_err() {
                c.viol("C11", "panic while dropping the map");
            }
            let (k, v) = (LIVE_K.load(AO::SeqCst), LIVE_V.load(AO::SeqCst));
            if k != 0 || v != 0 {
                c.viol("C11", &format!("after drop {} keys and {} values are still live (or over-released)", k, v));
            }
        }
        LIVE_K.store(0, AO::SeqCst);
        LIVE_V.store(0, AO::SeqCst);
        CLONES_V.store(0, AO::SeqCst);
    };
    for line in std::io::BufReader::new(ops).lines() {
        let line = line.unwrap();
        let toks: Vec<&str> = line.split_whitespace().collect();
        if toks.is_empty() {
            continue;
        }
        if toks[0] == "H" {
            end_history(&mut st, &mut c);
            c.hid = toks[1].to_string();
            c.step = 0;
            c.viol_count = 0;
            c.per_prop.clear();
            let cap: usize = toks
                .iter()
                .find_map(|t| t.strip_prefix("cap=").map(|x| x.parse().unwrap()))
                .unwrap_or(0);
            c.dump_every = toks
                .iter()
                .find_map(|t| t.strip_prefix("dump=").map(|x| x.parse().unwrap()))
                .unwrap_or(1);
            let _ = writeln!(c.out, "H {} {} cap={}", toks[1], toks[2], cap);
            match toks[2] {
                "rust" => {
                    let r = Map::new(cap);
                    let e = Map::empty(cap);
                    if r.is_ok() != (cap >= 4) || e.is_ok() != (cap >= 4) {
                        c.viol("C10", &format!("constructor accepts/rejects capacity {} wrongly", cap));
                    }
                    // empty(c) is an empty valid map laid out exactly like new(c); Default and
                    // with_default_capacity always succeed with capacity 16
                    if let (Ok(a), Ok(b)) = (&r, &e) {
                        let mut ca = Ctx { out: String::new(), viol: vec![], hid: String::new(), step: 0, dump_every: 1, viol_count: 0, per_prop: HashMap::new() };
                        let mut cb = Ctx { out: String::new(), viol: vec![], hid: String::new(), step: 0, dump_every: 1, viol_count: 0, per_prop: HashMap::new() };
                        dump_s3(a, &mut ca);
                        dump_s3(b, &mut cb);
                        if ca.out != cb.out || !b.is_empty() || b.len() != 0 || !b.check_invariants() || b.check_invariants_detailed().is_err() {
                            c.viol("C10", "empty(c) is not an empty valid map like new(c)");
                        }
                    }
                    let d1 = Map::default();
                    let d2 = Map::with_default_capacity();
                    match d2 {
                        Ok(d2) => {
                            for (name, d) in [("Default", &d1), ("with_default_capacity", &d2)] {
                                if d.verif_parts().0 != 16 || !d.is_empty() || !d.check_invariants() || d.validate_for_operation("verif").is_err() {
                                    c.viol("C10", &format!("{} does not give an empty valid map of capacity 16", name));
                                }
                            }
                        }
                        Err(_) => c.viol("C10", "with_default_capacity failed"),
                    }
                    match r {
                        Ok(t) => {
                            let _ = writeln!(c.out, "O new=Ok");
                            dump_s3(&t, &mut c);
                            dump_s2(&t, &mut c);
                            let plain = BPlusTreeMap::<i64, i64>::new(cap).unwrap();
                            let mut ts = TreeSt { t, plain, m: Mirror::new(), hwm: (0, 0), damaged: false };
                            check_structure(&ts.t, &mut c, &mut ts.hwm);
                            st = St::Tree(Box::new(ts));
                        }
                        Err(e) => {
                            let _ = writeln!(c.out, "O new=Err({})", s_err(&e));
                        }
                    }
                }
                "tall" => {
                    let n: i64 = toks.iter().find_map(|t| t.strip_prefix("n=").map(|x| x.parse().unwrap())).unwrap_or(1000);
                    let sign: i64 = if toks.iter().any(|t| *t == "order=desc") { -1 } else { 1 };
                    if let Ok(mut g) = WD_CURRENT.lock() {
                        *g = format!("{} 0", c.hid);
                    }
                    let r = catch_unwind(AssertUnwindSafe(|| tall_run(cap, n, sign, &mut c)));
                    if let Err(e) = r {
                        let msg = e.downcast_ref::<String>().cloned().or_else(|| e.downcast_ref::<&str>().map(|x| x.to_string())).unwrap_or_default();
                        c.viol(if msg.contains("VERIF-HOOK") { "C05" } else { "C01" }, &format!("tall tree: a call panicked: {}", msg));
                    }
                }
                "arena" => {
                    let a = ArenaSt { a: CompactArena::new(), s: CompactArena::new(), live: HashMap::new() };
                    dump_arena(&a.a, &mut c);
                    st = St::Arena(Box::new(a));
                }
                _ => {}
            }
        } else {
            c.step += 1;
            WD_PROGRESS.fetch_add(1, AO::SeqCst);
            if let Ok(mut g) = WD_CURRENT.lock() {
                *g = format!("{} {}", c.hid, c.step);
            }
            match &mut st {
                St::Dead => {}
                St::Tree(ts) => {
                    let r = catch_unwind(AssertUnwindSafe(|| do_tree_op(ts, &toks, &mut c)));
                    match r {
                        Ok(s) => {
                            let _ = writeln!(c.out, "O {}", s);
                            let r2 = catch_unwind(AssertUnwindSafe(|| {
                                if c.step % c.dump_every == 0 {
                                    dump_s3(&ts.t, &mut c);
                                    dump_s2(&ts.t, &mut c);
                                }
                                if !ts.damaged && c.dump_every > 1 && c.step % c.dump_every == 0 {
                                    // deep histories: periodic full lookup check (every key routes to its entry)
                                    for (z, (_, v)) in ts.m.iter() {
                                        let k = VKey::new(*z, 0);
                                        let got = ts.t.get(&k).map(|x| x.v);
                                        if got != Some(*v) {
                                            c.viol("C01", &format!("get({}) = {:?} but the reference map holds {}", z, got, v));
                                            break;
                                        }
                                    }
                                }
                                if !ts.damaged {
                                    check_structure(&ts.t, &mut c, &mut ts.hwm);
                                    if matches!(toks[0], "I" | "R" | "M" | "X" | "RI" | "TI" | "TR" | "BI") {
                                        mirror_check(&ts.t, &ts.m, &mut c);
                                    }
                                }
                            }));
                            if let Err(e) = r2 {
                                let msg = panic_msg(&e);
                                c.viol(if msg.contains("VERIF-HOOK") { "C05" } else { "C01" }, &format!("panic while observing the state: {}", msg));
                                st = St::Dead;
                            }
                        }
                        Err(e) => {
                            let msg = panic_msg(&e);
                            let _ = writeln!(c.out, "O {}", if msg.contains("VERIF-HOOK") { "UB" } else { "PANIC" });
                            let damaged = ts.damaged;
                            if msg.contains("VERIF-HOOK") {
                                c.viol(if damaged { "C15" } else { "C05" }, &format!("unchecked access outside its precondition: {}", msg));
                            } else if !damaged {
                                c.viol("C01", &format!("panic in {}: {}", toks[0], msg));
                            }
                            // the map may be inconsistent: leak it instead of dropping
                            let old = std::mem::replace(&mut st, St::Dead);
                            std::mem::forget(old);
                            LIVE_K.store(0, AO::SeqCst);
                            LIVE_V.store(0, AO::SeqCst);
                        }
                    }
                }
                St::Arena(a) => {
                    if toks[0] == "A" {
                        let r = catch_unwind(AssertUnwindSafe(|| do_arena_op(a, &toks[1..], &mut c)));
                        match r {
                            Ok(s) => {
                                let _ = writeln!(c.out, "O {}", s);
                                dump_arena(&a.a, &mut c);
                            }
                            Err(e) => {
                                let _ = writeln!(c.out, "O PANIC");
                                c.viol("C16", &format!("panic: {}", panic_msg(&e)));
                                st = St::Dead;
                            }
                        }
                    }
                }
            }
        }
        if c.out.len() > 1 << 16 {
            trace.write_all(c.out.as_bytes()).unwrap();
            c.out.clear();
        }
        for v in c.viol.drain(..) {
            writeln!(violf, "{}", v).unwrap();
        }
        let _ = violf.flush();
    }
    end_history(&mut st, &mut c);
    trace.write_all(c.out.as_bytes()).unwrap();
    for v in c.viol.drain(..) {
        writeln!(violf, "{}", v).unwrap();
    }
}

fn panic_msg(e: &Box<dyn std::any::Any + Send>) -> String {
    if let Some(s) = e.downcast_ref::<&str>() {
        s.to_string()
    } else if let Some(s) = e.downcast_ref::<String>() {
        s.clone()
    } else {
        "?".into()
    }
}
