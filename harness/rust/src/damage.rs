// Damage operators (C14) and helper-misuse programs (C15): filled in below.
use crate::{Ctx, TreeSt};

pub fn do_damage_op(_st: &mut TreeSt, toks: &[&str], _c: &mut Ctx) -> String {
    format!("?unparsed {}", toks.join(" "))
}
