// Heap edits: damage operators (C14) and helper-misuse programs (C15).
// Leaf-level, chain-level and arena-level edits use ONLY the crate's safe public API
// (get_leaf_mut, set_leaf_next, allocate_leaf, deallocate_leaf, LeafNode::push_key /
// push_value / take_keys / take_values / append_* / pop, new_root) - these are the calls
// property C15 is about; branch-level edits and the root reference use the cfg-guarded
// hooks (fields are pub(crate)).
use crate::{Ctx, Map, TreeSt, VKey, VVal};
use bplustree::{BranchNode, LeafNode, NodeRef, NULL_NODE};
use std::marker::PhantomData;

/// ids of the leaves met from the root (in order) and of the branches (pre-order);
/// same traversal as the model's collect_leaf_ids / collect_branch_ids
pub fn walk_ids(t: &Map) -> (Vec<u32>, Vec<u32>) {
    let (_, root, _, ba) = t.verif_parts();
    let (bs, bm, _) = ba.verif_raw();
    let mut leaves = vec![];
    let mut branches = vec![];
    fn go(
        r: &NodeRef<VKey, VVal>,
        depth: usize,
        bs: &[BranchNode<VKey, VVal>],
        bm: &[bool],
        leaves: &mut Vec<u32>,
        branches: &mut Vec<u32>,
    ) {
        if depth > 200 {
            return;
        }
        match r {
            NodeRef::Leaf(i, _) => leaves.push(*i),
            NodeRef::Branch(i, _) => {
                let ix = *i as usize;
                if *i != NULL_NODE && ix < bs.len() && bm[ix] {
                    branches.push(*i);
                    let (_, _, cs) = bs[ix].verif_fields();
                    for c in cs {
                        go(c, depth + 1, bs, bm, leaves, branches);
                    }
                }
            }
        }
    }
    go(&root, 0, bs, bm, &mut leaves, &mut branches);
    (leaves, branches)
}

fn set_key_z(l: &mut LeafNode<VKey, VVal>, i: usize, z: i64) {
    // safe public helpers only: take the key vector, edit, give it back
    let mut ks = l.take_keys();
    if i < ks.len() {
        let id = ks[i].id;
        ks[i] = VKey::new(z, id);
    }
    l.append_keys(&mut ks);
}

pub fn do_damage_op(st: &mut TreeSt, toks: &[&str], _c: &mut Ctx) -> String {
    let p = |s: &str| -> i64 { s.parse().unwrap() };
    let t = &mut st.t;
    st.damaged = true;
    let (leaves, branches) = walk_ids(t);
    let leaf_at = |q: usize| leaves.get(q).copied();
    let branch_at = |q: usize| branches.get(q).copied();
    match toks[1] {
        "LK" => {
            if let Some(id) = leaf_at(p(toks[2]) as usize) {
                if let Some(l) = t.get_leaf_mut(id) {
                    set_key_z(l, p(toks[3]) as usize, p(toks[4]));
                }
            }
        }
        "BK" => {
            if let Some(id) = branch_at(p(toks[2]) as usize) {
                if let Some(b) = t.get_branch_mut(id) {
                    let (_, ks, _) = b.verif_fields_mut();
                    let i = p(toks[3]) as usize;
                    if i < ks.len() {
                        let kid = ks[i].id;
                        ks[i] = VKey::new(p(toks[4]), kid);
                    }
                }
            }
        }
        "LKC" => {
            if let Some(id) = leaf_at(p(toks[2]) as usize) {
                if let Some(l) = t.get_leaf_mut(id) {
                    let (i, j) = (p(toks[3]) as usize, p(toks[4]) as usize);
                    if let Some(z) = l.get_key(j).map(|k| k.z) {
                        set_key_z(l, i, z);
                    }
                }
            }
        }
        "BKC" => {
            if let Some(id) = branch_at(p(toks[2]) as usize) {
                if let Some(b) = t.get_branch_mut(id) {
                    let (_, ks, _) = b.verif_fields_mut();
                    let (i, j) = (p(toks[3]) as usize, p(toks[4]) as usize);
                    if j < ks.len() && i < ks.len() {
                        let (z, kid) = (ks[j].z, ks[i].id);
                        ks[i] = VKey::new(z, kid);
                    }
                }
            }
        }
        "LLK" => {
            if let Some(id) = leaf_at(p(toks[2]) as usize) {
                if let Some(l) = t.get_leaf_mut(id) {
                    let n = l.keys_len();
                    if n > 0 {
                        set_key_z(l, n - 1, p(toks[3]));
                    }
                }
            }
        }
        "LVPOP" => {
            if let Some(id) = leaf_at(p(toks[2]) as usize) {
                if let Some(l) = t.get_leaf_mut(id) {
                    l.values_mut().pop();
                }
            }
        }
        "LKPOP" => {
            if let Some(id) = leaf_at(p(toks[2]) as usize) {
                if let Some(l) = t.get_leaf_mut(id) {
                    let mut ks = l.take_keys();
                    ks.pop();
                    l.append_keys(&mut ks);
                }
            }
        }
        "LPUSH" => {
            if let Some(id) = leaf_at(p(toks[2]) as usize) {
                if let Some(l) = t.get_leaf_mut(id) {
                    l.push_key(VKey::new(p(toks[3]), p(toks[4]) as u64));
                    l.push_value(VVal::new(p(toks[5])));
                }
            }
        }
        "LPUSHK" => {
            if let Some(id) = leaf_at(p(toks[2]) as usize) {
                if let Some(l) = t.get_leaf_mut(id) {
                    l.push_key(VKey::new(p(toks[3]), p(toks[4]) as u64));
                }
            }
        }
        "LPUSHV" => {
            if let Some(id) = leaf_at(p(toks[2]) as usize) {
                if let Some(l) = t.get_leaf_mut(id) {
                    l.push_value(VVal::new(p(toks[3])));
                }
            }
        }
        "LTRUNC" => {
            if let Some(id) = leaf_at(p(toks[2]) as usize) {
                if let Some(l) = t.get_leaf_mut(id) {
                    let n = p(toks[3]) as usize;
                    let mut ks = l.take_keys();
                    ks.truncate(n);
                    l.append_keys(&mut ks);
                    let mut vs = l.take_values();
                    vs.truncate(n);
                    l.append_values(&mut vs);
                }
            }
        }
        "BTRUNC" => {
            if let Some(id) = branch_at(p(toks[2]) as usize) {
                if let Some(b) = t.get_branch_mut(id) {
                    let n = p(toks[3]) as usize;
                    let (_, ks, cs) = b.verif_fields_mut();
                    ks.truncate(n);
                    cs.truncate(n + 1);
                }
            }
        }
        "BCPOP" => {
            if let Some(id) = branch_at(p(toks[2]) as usize) {
                if let Some(b) = t.get_branch_mut(id) {
                    b.verif_fields_mut().2.pop();
                }
            }
        }
        "BCDUP" => {
            if let Some(id) = branch_at(p(toks[2]) as usize) {
                if let Some(b) = t.get_branch_mut(id) {
                    let cs = b.verif_fields_mut().2;
                    if let Some(last) = cs.last().copied() {
                        cs.push(last);
                    }
                }
            }
        }
        "BPUSH" => {
            if let Some(id) = branch_at(p(toks[2]) as usize) {
                if let Some(b) = t.get_branch_mut(id) {
                    let (_, ks, cs) = b.verif_fields_mut();
                    ks.push(VKey::new(p(toks[3]), p(toks[4]) as u64));
                    if let Some(last) = cs.last().copied() {
                        cs.push(last);
                    }
                }
            }
        }
        "BPUSHL" => {
            // DMG BPUSHL p n z0 id0 v0: a new leaf with n entries is linked in after the last
            // child (a leaf) of branch p and pushed, with its first key, onto that branch
            if let Some(bid) = branch_at(p(toks[2]) as usize) {
                let n = p(toks[3]);
                let (z0, id0, v0) = (p(toks[4]), p(toks[5]), p(toks[6]));
                let last = t.get_branch(bid).and_then(|b| b.verif_fields().2.last().copied());
                if let (Some(NodeRef::Leaf(lid, _)), true) = (last, n > 0) {
                    if let Some(old_next) = t.get_leaf(lid).map(|l| l.verif_fields().3) {
                        let cap = t.verif_parts().0;
                        let mut leaf = LeafNode::new(cap);
                        for i in 0..n {
                            leaf.push_key(VKey::new(z0 + i, (id0 + i) as u64));
                            leaf.push_value(VVal::new(v0 + i));
                        }
                        *leaf.verif_fields_mut().3 = old_next;
                        let nid = t.allocate_leaf(leaf);
                        t.set_leaf_next(lid, nid);
                        if let Some(b) = t.get_branch_mut(bid) {
                            let (_, ks, cs) = b.verif_fields_mut();
                            ks.push(VKey::new(z0, id0 as u64));
                            cs.push(NodeRef::Leaf(nid, PhantomData));
                        }
                    }
                }
            }
        }
        "BREF" => {
            if let Some(id) = branch_at(p(toks[2]) as usize) {
                if let Some(b) = t.get_branch_mut(id) {
                    let cs = b.verif_fields_mut().2;
                    let i = p(toks[3]) as usize;
                    let nid = p(toks[4]) as u32;
                    if i < cs.len() {
                        cs[i] = match cs[i] {
                            NodeRef::Leaf(_, _) => NodeRef::Leaf(nid, PhantomData),
                            NodeRef::Branch(_, _) => NodeRef::Branch(nid, PhantomData),
                        };
                    }
                }
            }
        }
        "ROOT" => {
            let nid = p(toks[3]) as u32;
            *t.verif_root_mut() = if toks[2] == "L" {
                NodeRef::Leaf(nid, PhantomData)
            } else {
                NodeRef::Branch(nid, PhantomData)
            };
        }
        "LNEXT" => {
            if let Some(id) = leaf_at(p(toks[2]) as usize) {
                let nx: u32 = if toks[3] == "NULL" {
                    NULL_NODE
                } else if let Some(q) = toks[3].strip_prefix('p') {
                    leaf_at(q.parse().unwrap()).unwrap_or(NULL_NODE)
                } else {
                    p(toks[3]) as u32
                };
                t.set_leaf_next(id, nx);
            }
        }
        "ORPHANL" => {
            let cap = t.verif_parts().0;
            t.allocate_leaf(LeafNode::new(cap));
        }
        "ORPHANB" => {
            let cap = t.verif_parts().0;
            t.allocate_branch(BranchNode::new(cap));
        }
        "FREEL" => {
            if let Some(id) = leaf_at(p(toks[2]) as usize) {
                t.deallocate_leaf(id);
            }
        }
        "FREEB" => {
            if let Some(id) = branch_at(p(toks[2]) as usize) {
                t.deallocate_branch(id);
            }
        }
        _ => return format!("?unparsed {}", toks.join(" ")),
    }
    "edited".into()
}
