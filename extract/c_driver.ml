(* Driver for the extracted C-extension model (coq/C/Run.v): reads an op file, runs the
   model, prints one trace line per observation.  Trusted glue: parsing and printing only.

   op file:   H <hid> c|csub|cwrap cap=<n> keys=int|str|obj [dump=<n>]
              set <k> <v> | get <k> | del <k> | in <k> | len | keys | items | iter
              it_new k|i|t <h> | it_next <h> | it_drop <h>
              wget <k> <v> | wvalues | wclear | wpop <k> [<v>] | wpopitem | wsetdefault <k> <v>
              wupdate <k> <v> .. | wcopy | wswap | wcap
   <k> = <ordinal>.<variant> (an object: order position . identity variant), <v> = v<n>
   trace:     O/T/CH/SZ/RC/TC lines per step, E line after the final release *)
open Cmodel

let rec nat_of_int n = if n <= 0 then O else S (nat_of_int (n - 1))
let int_of_nat n = let rec go acc = function O -> acc | S m -> go (acc + 1) m in go 0 n
let rec pos_of_int n =
  if n <= 1 then XH else if n land 1 = 0 then XO (pos_of_int (n lsr 1)) else XI (pos_of_int (n lsr 1))
let rec int_of_pos = function XH -> 1 | XO p -> 2 * int_of_pos p | XI p -> 2 * int_of_pos p + 1
let n_of_int n = if n = 0 then N0 else Npos (pos_of_int n)
let int_of_n = function N0 -> 0 | Npos p -> int_of_pos p
let z_of_int n = if n = 0 then Z0 else if n > 0 then Zpos (pos_of_int n) else Zneg (pos_of_int (-n))
let int_of_z = function Z0 -> 0 | Zpos p -> int_of_pos p | Zneg p -> - (int_of_pos p)

let buf = Buffer.create 65536
let pr fmt = Printf.bprintf buf fmt
let flush_buf () = print_string (Buffer.contents buf); Buffer.clear buf

(* ---------- object naming: key <ord>.<var> has id 2*(16*ord+var); value v<n> has id 2n+1 *)
let key_obj ord var = { kz = z_of_int ord; kid = n_of_int (2 * (16 * ord + var)) }
let val_obj n = { kz = Z0; kid = n_of_int (2 * n + 1) }
let name_of_id i =
  if i land 1 = 1 then Printf.sprintf "v%d" (i / 2)
  else let q = i / 2 in Printf.sprintf "%d.%d" (q / 16) (q mod 16)
let s_obj (o : key) = name_of_id (int_of_n o.kid)
let s_kv (k, v) = s_obj k ^ "=" ^ s_obj v
let s_list f l = "[" ^ String.concat " " (List.map f l) ^ "]"

let s_out = function
  | UNone -> "None"
  | UVal v -> "val " ^ s_obj v
  | UBool b -> if b then "True" else "False"
  | UNat n -> string_of_int (int_of_nat n)
  | UKeyError -> "KeyError"
  | URuntimeError -> "RuntimeError"
  | UValueError -> "ValueError"
  | UStop -> "StopIteration"
  | UKey k -> "key " ^ s_obj k
  | UItem (k, v) -> "item " ^ s_kv (k, v)
  | UKeys l -> "keys " ^ s_list s_obj l
  | UItems l -> "items " ^ s_list s_kv l
  | UVals l -> "vals " ^ s_list s_obj l
  | UNoTree -> "notree"
  | UNoIter -> "noiter"
  | UOOB s -> Printf.sprintf "OOB %d" (int_of_nat s)
  | UNullDeref s -> Printf.sprintf "NULLDEREF %d" (int_of_nat s)
  | UFuel -> "OUTOFFUEL"

(* ---------- dumps ---------- *)
let rec take n l = if n <= 0 then [] else match l with [] -> [] | x :: r -> x :: take (n - 1) r
let rec drop n l = if n <= 0 then l else match l with [] -> [] | _ :: r -> drop (n - 1) r

let s_slot_obj = function SObj o -> s_obj o | SNull -> "NULL" | SKid _ -> "NODE?"

let rec dump_node b (nd : cnode) =
  let cap = int_of_nat (ncap nd) and n = int_of_nat (nk nd) in
  let d = data nd in
  let keys = take n d in
  match nty nd with
  | NLeaf ->
      let vals = take n (drop cap d) in
      Buffer.add_string b (Printf.sprintf "(L %d %d [" cap n);
      let rec go first ks vs = match ks, vs with
        | k :: ks', v :: vs' ->
            if not first then Buffer.add_char b ' ';
            Buffer.add_string b (s_slot_obj k ^ "=" ^ s_slot_obj v); go false ks' vs'
        | _, _ -> () in
      go true keys vals;
      Buffer.add_string b "])"
  | NBranch ->
      Buffer.add_string b (Printf.sprintf "(B %d %d %s" cap n (s_list s_slot_obj keys));
      List.iter (fun s -> Buffer.add_char b ' ';
                  match s with
                  | SKid c -> dump_node b c
                  | SNull -> Buffer.add_string b "(null)"
                  | SObj _ -> Buffer.add_string b "(OBJ?)") (take (n + 1) (drop cap d));
      Buffer.add_char b ')'

let s_tree (t : ctree) = let b = Buffer.create 1024 in dump_node b t.root; Buffer.contents b

let s_rc (m : rcmap) =
  let l = List.filter (fun (_, c) -> c <> Z0) m in
  let l = List.map (fun (i, c) -> (int_of_n i, int_of_z c)) l in
  (* v0 (object id 1) stands for Python's None, whose reference count the harness cannot observe *)
  let l = List.filter (fun (i, _) -> i <> 1) l in
  (* keys first (by ordinal, variant), then values (by number) *)
  let cmp (i, _) (j, _) = compare (i land 1, i) (j land 1, j) in
  let l = List.sort cmp l in
  String.concat " " (List.map (fun (i, c) ->
    (if i land 1 = 1 then name_of_id i else "k" ^ name_of_id i) ^ "=" ^ string_of_int c) l)

let dump_state hid step (s : cstate) =
  (match s.st_tree with
   | None -> pr "T %s %d -\n" hid step
   | Some t ->
       pr "T %s %d %s\n" hid step (s_tree t);
       (match tree_chain t with
        | Ok l -> pr "CH %s %d %s\n" hid step (String.concat " " (List.map (fun n -> string_of_int (int_of_nat n)) l))
        | _ -> pr "CH %s %d ?\n" hid step);
       pr "SZ %s %d size=%d mod=%d\n" hid step (int_of_nat t.size) (int_of_nat t.modc));
  (match s.st_copy with
   | None -> ()
   | Some c -> pr "TC %s %d %s size=%d\n" hid step (s_tree c) (int_of_nat c.size));
  pr "RC %s %d %s\n" hid step (s_rc s.st_rc)

(* ---------- parsing ---------- *)
let split s = List.filter (fun x -> x <> "") (String.split_on_char ' ' (String.trim s))
let parse_key s =
  match String.split_on_char '.' s with
  | [a; b] -> key_obj (int_of_string a) (int_of_string b)
  | [a] -> key_obj (int_of_string a) 0
  | _ -> failwith ("bad key " ^ s)
let parse_val s =
  if String.length s > 1 && s.[0] = 'v' then val_obj (int_of_string (String.sub s 1 (String.length s - 1)))
  else failwith ("bad value " ^ s)
let kzof s = (parse_key s).kz

let rec pairs = function
  | k :: v :: r -> (parse_key k, parse_val v) :: pairs r
  | [] -> []
  | _ -> failwith "wupdate: odd number of arguments"

let parse_op toks : op =
  match toks with
  | ["set"; k; v] -> OSet (parse_key k, parse_val v)
  | ["get"; k] -> OGet (kzof k)
  | ["del"; k] -> ODel (kzof k)
  | ["in"; k] -> OIn (kzof k)
  | ["len"] -> OLen
  | ["keys"] | ["iter"] -> OKeys
  | ["items"] -> OItems
  | ["it_new"; kind; h] -> OItNew (nat_of_int (int_of_string h), kind = "i")
  | ["it_next"; h] -> OItNext (nat_of_int (int_of_string h))
  | ["it_drop"; h] -> OItDrop (nat_of_int (int_of_string h))
  | ["wget"; k; v] -> WGet (kzof k, parse_val v)
  | ["wvalues"] -> WValues
  | ["wclear"] -> WClear
  | ["wpop"; k] -> WPop (kzof k, None)
  | ["wpop"; k; v] -> WPop (kzof k, Some (parse_val v))
  | ["wpopitem"] -> WPopitem
  | ["wsetdefault"; k; v] -> WSetdefault (parse_key k, parse_val v)
  | "wupdate" :: r -> WUpdate (pairs r)
  | ["wcopy"] -> WCopy
  | ["wswap"] -> WSwap
  | ["wcap"] -> WCapacity
  | _ -> failwith ("bad op: " ^ String.concat " " toks)

let get_opt key toks dflt =
  let p = key ^ "=" in
  let lp = String.length p in
  List.fold_left (fun acc t ->
    if String.length t > lp && String.sub t 0 lp = p then String.sub t lp (String.length t - lp) else acc)
    dflt toks

(* ---------- one history ---------- *)
let run_history (hline : string) (ops : string list) =
  let toks = split hline in
  let hid = List.nth toks 1 in
  let cap = int_of_string (get_opt "cap" toks "8") in
  let dump = max 1 (int_of_string (get_opt "dump" toks "1")) in
  let legacy = get_opt "legacy" toks "0" = "1" in
  pr "%s\n" hline;
  let (s0, o0) =
    if legacy then
      (match tree_init_legacy (z_of_int cap) with
       | Some t -> ({ st_tree = Some t; st_copy = None; st_iters = []; st_rc = []; st_held = [] }, UNone)
       | None -> st_init (z_of_int cap))
    else st_init (z_of_int cap) in
  (* argument parsing (PyArg_ParseTupleAndKeywords "|i") is glue, not model: a capacity outside the
     C int range never reaches BPlusTree_init and is rejected with OverflowError *)
  if cap > 2147483647 || cap < -2147483648 then pr "O %s 0 OverflowError\n" hid
  else pr "O %s 0 %s\n" hid (s_out o0);
  dump_state hid 0 s0;
  let n = List.length ops in
  let s = ref s0 in
  List.iteri (fun i line ->
    let stepn = i + 1 in
    (match split line with
     | ["cyc"; _] ->
         (* a value object starts referring to an iterator over the tree: outside the model
            (objects are opaque); no effect on any modelled quantity *)
         pr "O %s %d %s\n" hid stepn (s_out (match (!s).st_tree with None -> UNoTree | Some _ -> UNone))
     | toks ->
         let o = parse_op toks in
         let (s', x) = step !s o in
         s := s';
         pr "O %s %d %s\n" hid stepn (s_out x));
    let s' = !s in
    if stepn mod dump = 0 || stepn = n then dump_state hid stepn s';
    if Buffer.length buf > 60000 then flush_buf ()) ops;
  (match finish !s with
   | Ok rc -> let r = s_rc rc in pr "E %s %s\n" hid (if r = "" then "balanced" else r)
   | UB site -> pr "E %s OOB %d\n" hid (int_of_nat site)
   | Panic site -> pr "E %s NULLDEREF %d\n" hid (int_of_nat site)
   | OutOfFuel -> pr "E %s OUTOFFUEL\n" hid);
  flush_buf ()

(* ---------- small-scope state-space exploration (see extract/driver.ml) ----------
   --explore CAP U MAXSTATES DEPTH START TARGET KIND: every logical tree of the C extension (shape
   and key ordinals; the C tree never merges, so emptied leaves are part of the shape) reachable by
   t[k] = v / del t[k] over the ordinals 0..U-1, or every operation sequence of at most DEPTH calls
   from the start state; one flat history per (state, operation) pair, full dump only at the end. *)
let ident_c (s : cstate) : string =
  match s.st_tree with
  | None -> "-"
  | Some t ->
    let b = Buffer.create 256 in
    let rec go (nd : cnode) =
      let cap = int_of_nat (ncap nd) and n = int_of_nat (nk nd) in
      let d = data nd in
      let keys = take n d in
      let ks () = List.iter (fun k -> match k with SObj o -> Buffer.add_string b (string_of_int (int_of_z o.kz)); Buffer.add_char b ' ' | _ -> Buffer.add_char b '?') keys in
      match nty nd with
      | NLeaf -> Buffer.add_char b '('; ks (); Buffer.add_char b ')'
      | NBranch -> Buffer.add_char b '['; ks ();
          List.iter (fun sl -> match sl with SKid c -> go c | _ -> Buffer.add_char b '!') (take (n + 1) (drop cap d));
          Buffer.add_char b ']' in
    go t.root; Buffer.contents b

let prefix_keys (spec : string) : int list =
  match String.split_on_char ':' spec with
  | ["asc"; n] -> List.init (int_of_string n) (fun i -> i)
  | ["desc"; n] -> let n = int_of_string n in List.init n (fun i -> n - 1 - i)
  | ["zig"; n] -> let n = int_of_string n in List.init n (fun i -> if i mod 2 = 0 then i / 2 else n - 1 - i / 2)
  | ["rnd"; seed; n] ->
      let n = int_of_string n in
      let a = Array.init n (fun i -> i) in
      let st = ref (int_of_string seed * 7919 + 17) in
      let next m = st := (!st * 1103515245 + 12345) land 0x3fffffff; (!st lsr 8) mod m in
      for i = n - 1 downto 1 do let j = next (i + 1) in let t = a.(i) in a.(i) <- a.(j); a.(j) <- t done;
      Array.to_list a
  | _ -> []

let explore cap u maxstates depth prefix target kind =
  let (s0, _) = st_init (z_of_int cap) in
  let setline k sid = Printf.sprintf "set %d.%d v%d" k (sid mod 3) sid in
  let setop k sid = OSet (key_obj k (sid mod 3), val_obj sid) in
  let (ss, path0, sid0) = List.fold_left (fun (s, p, sid) k ->
      let (s', _) = step s (setop k sid) in (s', setline k sid :: p, sid + 1)) (s0, [], 1) (prefix_keys prefix) in
  let plen0 = List.length path0 in
  let seen = Hashtbl.create 65536 in
  let q = Queue.create () in
  Hashtbl.add seen (ident_c ss) ();
  Queue.add (ss, path0, sid0) q;
  let nh = ref 0 and nstates = ref 1 and truncated = ref false and maxh = ref 0 and structural = ref 0 in
  let tag = Printf.sprintf "xc%d.%d.%s.%d" cap u (String.concat "" (String.split_on_char ':' prefix)) depth in
  let nnodes (s : cstate) = match s.st_tree with None -> 0 | Some t -> int_of_n t.next_id in
  while not (Queue.is_empty q) do
    let (s, path_rev, sid) = Queue.pop q in
    let plen = List.length path_rev in
    let path = String.concat "" (List.rev_map (fun l -> l ^ "\n") path_rev) in
    for k = 0 to u - 1 do
      List.iter (fun ins ->
        let line = if ins then setline k sid else Printf.sprintf "del %d.0" k in
        let op = if ins then setop k sid else ODel (z_of_int k) in
        let (s', out) = step s op in
        let probes = Printf.sprintf "get %d.0\nin %d.1\nlen\nkeys\nitems\nit_new %s 1\nit_next 1\nit_next 1\nset %d.2 v%d\nit_next 1\nit_drop 1\n"
            k ((k + 1) mod u) (if !nh mod 2 = 0 then "k" else "i") ((k + 2) mod u) (sid + 1) in
        pr "H %s.%d %s cap=%d keys=%s dump=%d\n%s%s\n%s" tag !nh target cap kind (plen + 1) path line probes;
        incr nh;
        (match out with
         | UOOB _ | UNullDeref _ | UFuel -> ()
         | _ ->
           if nnodes s' <> nnodes s then incr structural;
           let id = ident_c s' in
           if not (Hashtbl.mem seen id) then
             if depth > 0 && plen + 1 - plen0 >= depth then truncated := true
             else if !nstates < maxstates then begin
               Hashtbl.add seen id (); incr nstates;
               if plen + 1 > !maxh then maxh := plen + 1;
               Queue.add (s', line :: path_rev, sid + 1) q
             end else truncated := true);
        if Buffer.length buf > 60000 then flush_buf ()
      ) [true; false]
    done
  done;
  flush_buf ();
  Printf.eprintf "EXPLORE cap=%d keys=%d states=%d transitions=%d longest_path=%d closed=%b structural=%d\n"
    cap u !nstates !nh !maxh (not !truncated) !structural

let () =
  if Array.length Sys.argv > 8 && Sys.argv.(1) = "--explore" then begin
    explore (int_of_string Sys.argv.(2)) (int_of_string Sys.argv.(3)) (int_of_string Sys.argv.(4)) (int_of_string Sys.argv.(5))
      Sys.argv.(6) Sys.argv.(7) Sys.argv.(8); exit 0 end;
  let ic = open_in Sys.argv.(1) in
  let cur = ref None and acc = ref [] in
  let fin () = match !cur with
    | Some h -> run_history h (List.rev !acc); cur := None; acc := []
    | None -> () in
  (try
     while true do
       let line = String.trim (input_line ic) in
       if line = "" || line.[0] = '#' then ()
       else if String.length line > 2 && String.sub line 0 2 = "H " then (fin (); cur := Some line)
       else acc := line :: !acc
     done
   with End_of_file -> ());
  fin ()
