(* Driver for the extracted models: reads an op file, runs the model, prints one trace
   line per observation.  Trusted glue: parsing and printing only. *)
open Model

let rec nat_of_int n = if n <= 0 then O else S (nat_of_int (n - 1))
let rec int_of_nat = function O -> 0 | S n -> 1 + int_of_nat n
let rec pos_of_int n =
  if n <= 1 then XH else if n land 1 = 0 then XO (pos_of_int (n lsr 1)) else XI (pos_of_int (n lsr 1))
let rec int_of_pos = function XH -> 1 | XO p -> 2 * int_of_pos p | XI p -> 2 * int_of_pos p + 1
let n_of_int n = if n = 0 then N0 else Npos (pos_of_int n)
let int_of_n = function N0 -> 0 | Npos p -> int_of_pos p
let z_of_int n = if n = 0 then Z0 else if n > 0 then Zpos (pos_of_int n) else Zneg (pos_of_int (-n))
let int_of_z = function Z0 -> 0 | Zpos p -> int_of_pos p | Zneg p -> - (int_of_pos p)

let null_id = 4294967295
let pid i = if i = null_id then "NULL" else string_of_int i

let buf = Buffer.create 65536
let pr fmt = Printf.bprintf buf fmt
let flush_buf () = print_string (Buffer.contents buf); Buffer.clear buf

(* ---------- printing ---------- *)
let s_key k = Printf.sprintf "%d:%d" (int_of_z k.kz) (int_of_n k.kid)
let s_val v = string_of_int (int_of_z v)
let s_kv (k, v) = s_key k ^ "=" ^ s_val v
let s_opt f = function None -> "None" | Some x -> "Some(" ^ f x ^ ")"
let s_list f l = "[" ^ String.concat " " (List.map f l) ^ "]"
let s_bool b = if b then "true" else "false"
let s_err = function KeyNotFound -> "KeyNotFound" | DataIntegrity c -> "DataIntegrity"
let s_errc = function None -> "ok" | Some c -> "E" ^ string_of_int (int_of_nat c)
let s_res f r e = match r, e with
  | Some x, _ -> "Ok(" ^ f x ^ ")"
  | None, Some e -> "Err(" ^ s_err e ^ ")"
  | None, None -> "Err(?)"

let s_out (o : z out) : string = match o with
  | UOpt o -> s_opt s_val o
  | UBool b -> s_bool b
  | UNat n -> string_of_int (int_of_nat n)
  | UVal v -> s_val v
  | UUnit -> "()"
  | UItems l -> s_list (function None -> "-"
                              | Some (Some k, Some v) -> s_kv (k, v)
                              | Some (Some k, None) -> s_key k
                              | Some (None, Some v) -> "=" ^ s_val v
                              | Some (None, None) -> "?") l
  | UList l -> s_list s_kv l
  | UFirstLast (f, l) -> "first=" ^ s_opt s_kv f ^ " last=" ^ s_opt s_kv l
  | USlices (i, f, k, v) ->
      "items=" ^ s_list s_kv i ^ " fast=" ^ s_list s_kv f ^ " keys=" ^ s_list s_key k
      ^ " values=" ^ s_list s_val v
  | UValidate (ci, cid, vfo) -> "ci=" ^ s_bool ci ^ " cid=" ^ s_errc cid ^ " vfo=" ^ s_errc vfo
  | UIntro (lc, (cl, cb), ls, lr, al, ab, fl, fb) ->
      Printf.sprintf "lc=%d cn=%d,%d ls=%s lr=%s al=%d ab=%d fl=%d fb=%d"
        (int_of_nat lc) (int_of_nat cl) (int_of_nat cb)
        (s_list (fun n -> string_of_int (int_of_nat n)) ls) (s_bool lr)
        (int_of_nat al) (int_of_nat ab) (int_of_nat fl) (int_of_nat fb)
  | URes (r, e) -> s_res s_val r e
  | UResOpt (r, e) -> s_res (s_opt s_val) r e
  | UResList (r, e) -> s_res (s_list s_val) r e
  | UResOptList (r, e) -> s_res (s_list (s_opt s_val)) r e
  | UPanic -> "PANIC"
  | UFuel -> "OUTOFFUEL"
  | UUB -> "UB"

(* ---------- state dumps from the flattened heap ---------- *)
let s_ref = function RLeaf i -> "L" ^ pid (int_of_n i) | RBranch i -> "B" ^ pid (int_of_n i)
let s_mask m = String.concat "" (List.map (fun b -> if b then "1" else "0") m)
(* free list: the Coq list has the top of the Rust Vec first; print bottom..top *)
let s_free f = "[" ^ String.concat "," (List.rev_map (fun i -> string_of_int (int_of_nat i)) f) ^ "]"
let s_leaf (l : z leaf) =
  Printf.sprintf "{%d;%s;%s;>%s}" (int_of_nat l.lcap) (s_list s_key l.lkeys)
    (s_list s_val l.lvals) (pid (int_of_n l.lnext))
let s_branch (b : branch) =
  Printf.sprintf "{%d;%s;%s}" (int_of_nat b.bcap) (s_list s_key b.bkeys) (s_list s_ref b.bkids)

let dump_s3 (h : z heap) =
  pr "S3 cap=%d root=%s | leaf mask=%s free=%s slots=%s | branch mask=%s free=%s slots=%s\n"
    (int_of_nat h.hcap) (s_ref h.hroot)
    (s_mask h.hleaves.mask) (s_free h.hleaves.free)
    (String.concat "" (List.map s_leaf h.hleaves.store))
    (s_mask h.hbranches.mask) (s_free h.hbranches.free)
    (String.concat "" (List.map s_branch h.hbranches.store))

(* logical tree without ids (S2) and the chain as in-order leaf positions (CH);
   key/value object counts over all slots (CT) *)
let dump_s2 (h : z heap) =
  let la = Array.of_list h.hleaves.store and lm = Array.of_list h.hleaves.mask in
  let ba = Array.of_list h.hbranches.store and bm = Array.of_list h.hbranches.mask in
  let order = Hashtbl.create 64 in
  let cnt = ref 0 in
  let b = Buffer.create 1024 in
  let rec go depth r =
    if depth > 64 then Buffer.add_string b "(DEEP)" else
    match r with
    | RLeaf i ->
        let i = int_of_n i in
        if i < Array.length la && lm.(i) then begin
          let l = la.(i) in
          if not (Hashtbl.mem order i) then Hashtbl.add order i !cnt;
          incr cnt;
          Buffer.add_string b
            (Printf.sprintf "(L %d %s %s)" (int_of_nat l.lcap) (s_list s_key l.lkeys) (s_list s_val l.lvals))
        end else Buffer.add_string b "(L?)"
    | RBranch i ->
        let i = int_of_n i in
        if i < Array.length ba && bm.(i) then begin
          let x = ba.(i) in
          Buffer.add_string b (Printf.sprintf "(B %d %s" (int_of_nat x.bcap) (s_list s_key x.bkeys));
          List.iter (fun c -> Buffer.add_char b ' '; go (depth + 1) c) x.bkids;
          Buffer.add_char b ')'
        end else Buffer.add_string b "(B?)"
  in
  go 0 h.hroot;
  pr "S2 cap=%d %s\n" (int_of_nat h.hcap) (Buffer.contents b);
  (* chain walk from the leftmost leaf *)
  let rec first depth r = if depth > 64 then None else match r with
    | RLeaf i -> Some (int_of_n i)
    | RBranch i ->
        let i = int_of_n i in
        if i < Array.length ba && bm.(i) then
          (match ba.(i).bkids with c :: _ -> first (depth + 1) c | [] -> None)
        else None in
  let ch = Buffer.create 256 in
  let rec walk steps cur =
    if steps > Array.length la + 2 then Buffer.add_string ch " CYCLE" else
    match cur with
    | None -> ()
    | Some i ->
        if i < Array.length la && lm.(i) then begin
          (match Hashtbl.find_opt order i with
           | Some p -> Buffer.add_string ch (Printf.sprintf " %d" p)
           | None -> Buffer.add_string ch " ?");
          let nx = int_of_n la.(i).lnext in
          walk (steps + 1) (if nx = null_id then None else Some nx)
        end else Buffer.add_string ch " !"
  in
  walk 0 (first 0 h.hroot);
  pr "CH%s\n" (Buffer.contents ch);
  let nk = List.fold_left (fun a (l : z leaf) -> a + List.length l.lkeys) 0 h.hleaves.store
           + List.fold_left (fun a (x : branch) -> a + List.length x.bkeys) 0 h.hbranches.store in
  let nv = List.fold_left (fun a (l : z leaf) -> a + List.length l.lvals) 0 h.hleaves.store in
  pr "CT keys=%d vals=%d\n" nk nv

(* ---------- parsing ---------- *)
let ios = int_of_string
let key_of z id = { kz = z_of_int z; kid = n_of_int id }
let bound_of k z = match k with
  | "I" -> Included (z_of_int (ios z)) | "E" -> Excluded (z_of_int (ios z)) | _ -> Unbounded
let zopt s = if s = "-" then None else Some (z_of_int (ios s))
let endb k z = match k with
  | "I" -> Some (z_of_int (ios z), true) | "E" -> Some (z_of_int (ios z), false) | _ -> None
let kind_of = function "items" -> KItems | "fast" -> KFast | "keys" -> KKeys | _ -> KValues
let split_on c s = List.filter (fun x -> x <> "") (String.split_on_char c s)
let parse_kv s = (* kz:kid:v *)
  match String.split_on_char ':' s with
  | [a; b; c] -> (key_of (ios a) (ios b), z_of_int (ios c))
  | _ -> failwith ("bad kv " ^ s)

let parse_op (toks : string list) : z op option = match toks with
  | ["I"; z; id; v] -> Some (OInsert (key_of (ios z) (ios id), z_of_int (ios v)))
  | ["R"; z] -> Some (ORemove (z_of_int (ios z)))
  | ["G"; z] -> Some (OGet (z_of_int (ios z)))
  | ["C"; z] -> Some (OContains (z_of_int (ios z)))
  | ["D"; z; d] -> Some (OGetOrDefault (z_of_int (ios z), z_of_int (ios d)))
  | ["L"] -> Some OLen
  | ["E"] -> Some OIsEmpty
  | ["M"; z; v] -> Some (OGetMutWrite (z_of_int (ios z), z_of_int (ios v)))
  | ["X"] -> Some OClear
  | "IT" :: kinds :: steps ->
      Some (OIter (List.map kind_of (split_on ',' kinds),
                   List.map (fun s -> match String.split_on_char ':' s with
                     | [i; n] -> (nat_of_int (ios i), nat_of_int (ios n))
                     | _ -> failwith "bad step") steps))
  | ["FL"] -> Some OFirstLast
  | ["SL"] -> Some OSlices
  | ["RG"; lk; lo; hk; hi] -> Some (ORange (bound_of lk lo, bound_of hk hi))
  | ["IR"; s; e] -> Some (OItemsRange (zopt s, zopt e))
  | ["FP"; p; idx; ek; e] -> Some (OFromPos (nat_of_int (ios p), nat_of_int (ios idx), endb ek e))
  | ["V"] -> Some OValidate
  | ["Q"] -> Some OIntrospect
  | ["TG"; z] -> Some (OTryGet (z_of_int (ios z)))
  | ["GI"; z] -> Some (OGetItem (z_of_int (ios z)))
  | "GM" :: zs -> Some (OGetMany (List.map (fun z -> z_of_int (ios z)) zs))
  | ["RI"; z] -> Some (ORemoveItem (z_of_int (ios z)))
  | ["TI"; z; id; v] -> Some (OTryInsert (key_of (ios z) (ios id), z_of_int (ios v)))
  | ["TR"; z] -> Some (OTryRemove (z_of_int (ios z)))
  | "BI" :: items -> Some (OBatchInsert (List.map parse_kv items))
  | _ -> None

(* ---------- heap edits (damage operators / helper misuse) ---------- *)
let parse_target s =
  if s = "NULL" then TNull
  else if String.length s > 1 && s.[0] = 'p' then TPos (nat_of_int (ios (String.sub s 1 (String.length s - 1))))
  else TRaw (n_of_int (ios s))
let parse_edit (toks : string list) : z edit option = match toks with
  | ["LK"; p; i; z] -> Some (ELeafKey (nat_of_int (ios p), nat_of_int (ios i), z_of_int (ios z)))
  | ["BK"; p; i; z] -> Some (EBranchKey (nat_of_int (ios p), nat_of_int (ios i), z_of_int (ios z)))
  | ["LKC"; p; i; j] -> Some (ELeafKeyCopy (nat_of_int (ios p), nat_of_int (ios i), nat_of_int (ios j)))
  | ["BKC"; p; i; j] -> Some (EBranchKeyCopy (nat_of_int (ios p), nat_of_int (ios i), nat_of_int (ios j)))
  | ["LLK"; p; z] -> Some (ELeafLastKey (nat_of_int (ios p), z_of_int (ios z)))
  | ["LVPOP"; p] -> Some (ELeafPopVal (nat_of_int (ios p)))
  | ["LKPOP"; p] -> Some (ELeafPopKey (nat_of_int (ios p)))
  | ["LPUSH"; p; z; id; v] -> Some (ELeafPush (nat_of_int (ios p), key_of (ios z) (ios id), z_of_int (ios v)))
  | ["LPUSHK"; p; z; id] -> Some (ELeafPushKey (nat_of_int (ios p), key_of (ios z) (ios id)))
  | ["LPUSHV"; p; v] -> Some (ELeafPushVal (nat_of_int (ios p), z_of_int (ios v)))
  | ["LTRUNC"; p; n] -> Some (ELeafTrunc (nat_of_int (ios p), nat_of_int (ios n)))
  | ["BTRUNC"; p; n] -> Some (EBranchTrunc (nat_of_int (ios p), nat_of_int (ios n)))
  | ["BCPOP"; p] -> Some (EBranchPopChild (nat_of_int (ios p)))
  | ["BPUSH"; p; z; id] -> Some (EBranchPush (nat_of_int (ios p), key_of (ios z) (ios id)))
  | ["BPUSHL"; p; n; z0; id0; v0] ->
      let n = ios n and z0 = ios z0 and id0 = ios id0 and v0 = ios v0 in
      let rec mk i = if i >= n then [] else i :: mk (i + 1) in
      Some (EBranchPushLeaf (nat_of_int (ios p),
                             List.map (fun i -> key_of (z0 + i) (id0 + i)) (mk 0),
                             List.map (fun i -> z_of_int (v0 + i)) (mk 0)))
  | ["BCDUP"; p] -> Some (EBranchDupChild (nat_of_int (ios p)))
  | ["BREF"; p; i; id] -> Some (EBranchRef (nat_of_int (ios p), nat_of_int (ios i), n_of_int (ios id)))
  | ["ROOT"; k; id] -> Some (ERoot ((k = "L"), n_of_int (ios id)))
  | ["LNEXT"; p; t] -> Some (ELeafNext (nat_of_int (ios p), parse_target t))
  | ["ORPHANL"] -> Some EOrphanLeaf
  | ["ORPHANB"] -> Some EOrphanBranch
  | ["FREEL"; p] -> Some (EFreeLeaf (nat_of_int (ios p)))
  | ["FREEB"; p] -> Some (EFreeBranch (nat_of_int (ios p)))
  | _ -> None

(* ---------- arena histories ---------- *)
let parse_aop (toks : string list) : z aop option = match toks with
  | ["alloc"; x] -> Some (AAlloc (z_of_int (ios x)))
  | ["free"; h] -> Some (AFree (n_of_int (ios h)))
  | ["free_d"; h] -> Some (AFreeD (n_of_int (ios h)))
  | ["free_nr"; h] -> Some (AFreeNR (n_of_int (ios h)))
  | ["get"; h] -> Some (AGet (n_of_int (ios h)))
  | ["set"; h; x] -> Some (ASet (n_of_int (ios h), z_of_int (ios x)))
  | ["has"; h] -> Some (AHas (n_of_int (ios h)))
  | ["len"] -> Some ALen
  | ["ac"] -> Some AAllocCount
  | ["empty"] -> Some AIsEmpty
  | ["fc"] -> Some AFreeCount
  | ["stats"] -> Some AStats
  | ["clear"] -> Some AClear
  | ["compact"] -> Some ACompact
  | _ -> None

let s_aout (o : z aout) = match o with
  | OId h -> "id=" ^ pid (int_of_n h)
  | OItem o -> s_opt s_val o
  | OBool b -> s_bool b
  | ONat n -> string_of_int (int_of_nat n)
  | OStats (a, f) -> Printf.sprintf "stats=%d,%d" (int_of_nat a) (int_of_nat f)
  | OUnit -> "()"
  | OPanic -> "PANIC"

let dump_arena (a : z arena) =
  pr "S3 mask=%s free=%s slots=%s\n" (s_mask a.mask) (s_free a.free) (s_list s_val a.store)

(* ---------- Coq-syntax printers (extraction cross-check: the kernel re-evaluates the
   same histories with vm_compute and must obtain the outputs the extracted code gave) ---------- *)
let c_nat n = Printf.sprintf "%d%%nat" (int_of_nat n)
let c_z z = Printf.sprintf "(%d)%%Z" (int_of_z z)
let c_n n = Printf.sprintf "%d%%N" (int_of_n n)
let c_key k = Printf.sprintf "(mkKey %s %s)" (c_z k.kz) (c_n k.kid)
let c_opt f = function None -> "None" | Some x -> "(Some " ^ f x ^ ")"
let c_list f l = "[" ^ String.concat "; " (List.map f l) ^ "]"
let c_pair f g (a, b) = "(" ^ f a ^ ", " ^ g b ^ ")"
let c_bool b = if b then "true" else "false"
let c_kv = c_pair c_key c_z
let c_bound = function Included z -> "(Included " ^ c_z z ^ ")" | Excluded z -> "(Excluded " ^ c_z z ^ ")" | Unbounded -> "Unbounded"
let c_kind = function KItems -> "KItems" | KFast -> "KFast" | KKeys -> "KKeys" | KValues -> "KValues"
let c_err = function KeyNotFound -> "KeyNotFound" | DataIntegrity c -> "(DataIntegrity " ^ c_nat c ^ ")"
let c_op (o : z op) : string = match o with
  | OInsert (k, v) -> Printf.sprintf "OInsert %s %s" (c_key k) (c_z v)
  | ORemove z -> "ORemove " ^ c_z z
  | OGet z -> "OGet " ^ c_z z
  | OContains z -> "OContains " ^ c_z z
  | OGetOrDefault (z, d) -> Printf.sprintf "OGetOrDefault %s %s" (c_z z) (c_z d)
  | OLen -> "OLen" | OIsEmpty -> "OIsEmpty"
  | OGetMutWrite (z, v) -> Printf.sprintf "OGetMutWrite %s %s" (c_z z) (c_z v)
  | OClear -> "OClear"
  | OIter (ks, st) -> Printf.sprintf "OIter %s %s" (c_list c_kind ks) (c_list (c_pair c_nat c_nat) st)
  | OFirstLast -> "OFirstLast" | OSlices -> "OSlices"
  | ORange (lo, hi) -> Printf.sprintf "ORange %s %s" (c_bound lo) (c_bound hi)
  | OItemsRange (a, b) -> Printf.sprintf "OItemsRange %s %s" (c_opt c_z a) (c_opt c_z b)
  | OFromPos (p, i, e) -> Printf.sprintf "OFromPos %s %s %s" (c_nat p) (c_nat i) (c_opt (c_pair c_z c_bool) e)
  | OValidate -> "OValidate" | OIntrospect -> "OIntrospect"
  | OTryGet z -> "OTryGet " ^ c_z z | OGetItem z -> "OGetItem " ^ c_z z
  | OGetMany zs -> "OGetMany " ^ c_list c_z zs
  | ORemoveItem z -> "ORemoveItem " ^ c_z z
  | OTryInsert (k, v) -> Printf.sprintf "OTryInsert %s %s" (c_key k) (c_z v)
  | OTryRemove z -> "OTryRemove " ^ c_z z
  | OBatchInsert l -> "OBatchInsert " ^ c_list c_kv l
let c_out (o : z out) : string = match o with
  | UOpt o -> "UOpt " ^ c_opt c_z o
  | UBool b -> "UBool " ^ c_bool b
  | UNat n -> "UNat " ^ c_nat n
  | UVal v -> "UVal " ^ c_z v
  | UUnit -> "UUnit"
  | UItems l -> "UItems " ^ c_list (c_opt (c_pair (c_opt c_key) (c_opt c_z))) l
  | UList l -> "UList " ^ c_list c_kv l
  | UFirstLast (f, l) -> Printf.sprintf "UFirstLast %s %s" (c_opt c_kv f) (c_opt c_kv l)
  | USlices (i, f, k, v) -> Printf.sprintf "USlices %s %s %s %s" (c_list c_kv i) (c_list c_kv f) (c_list c_key k) (c_list c_z v)
  | UValidate (a, b, c) -> Printf.sprintf "UValidate %s %s %s" (c_bool a) (c_opt c_nat b) (c_opt c_nat c)
  | UIntro (lc, cn, ls, lr, al, ab, fl, fb) ->
      Printf.sprintf "UIntro %s %s %s %s %s %s %s %s" (c_nat lc) (c_pair c_nat c_nat cn) (c_list c_nat ls) (c_bool lr)
        (c_nat al) (c_nat ab) (c_nat fl) (c_nat fb)
  | URes (r, e) -> Printf.sprintf "URes %s %s" (c_opt c_z r) (c_opt c_err e)
  | UResOpt (r, e) -> Printf.sprintf "UResOpt %s %s" (c_opt (c_opt c_z) r) (c_opt c_err e)
  | UResList (r, e) -> Printf.sprintf "UResList %s %s" (c_opt (c_list c_z) r) (c_opt c_err e)
  | UResOptList (r, e) -> Printf.sprintf "UResOptList %s %s" (c_opt (c_list (c_opt c_z)) r) (c_opt c_err e)
  | UPanic -> "UPanic" | UFuel -> "UFuel" | UUB -> "UUB"
let c_aop (o : z aop) : string = match o with
  | AAlloc x -> "@AAlloc Z " ^ c_z x | AFree h -> "@AFree Z " ^ c_n h | AFreeD h -> "@AFreeD Z " ^ c_n h
  | AFreeNR h -> "@AFreeNR Z " ^ c_n h | AGet h -> "@AGet Z " ^ c_n h | ASet (h, x) -> Printf.sprintf "@ASet Z %s %s" (c_n h) (c_z x)
  | AHas h -> "@AHas Z " ^ c_n h | ALen -> "@ALen Z" | AAllocCount -> "@AAllocCount Z" | AIsEmpty -> "@AIsEmpty Z"
  | AFreeCount -> "@AFreeCount Z" | AStats -> "@AStats Z" | AClear -> "@AClear Z" | ACompact -> "@ACompact Z"
let c_aout (o : z aout) : string = match o with
  | OId h -> "@OId Z " ^ c_n h | OItem o -> "@OItem Z " ^ c_opt c_z o | OBool b -> "@OBool Z " ^ c_bool b
  | ONat n -> "@ONat Z " ^ c_nat n | OStats (a, f) -> Printf.sprintf "@OStats Z %s %s" (c_nat a) (c_nat f)
  | OUnit -> "@OUnit Z" | OPanic -> "@OPanic Z"

(* --coq <ops file>: emit a .v file re-checking the extracted runs inside Coq *)
let coq_mode path =
  let ic = open_in path in
  let hist = ref [] and cur = ref None in
  (try while true do
    let line = input_line ic in
    let toks = split_on ' ' line in
    (match toks with
     | "H" :: hid :: target :: rest ->
         (match !cur with Some c -> hist := c :: !hist | None -> ());
         let cap = List.fold_left (fun a t ->
             if String.length t > 4 && String.sub t 0 4 = "cap=" then ios (String.sub t 4 (String.length t - 4)) else a) 0 rest in
         cur := Some (target, cap, [])
     | [] -> ()
     | "DMG" :: _ -> (match !cur with Some c -> hist := c :: !hist; cur := None | None -> ())
     | _ -> (match !cur with Some (t, c, l) -> cur := Some (t, c, toks :: l) | None -> ()))
  done with End_of_file -> ());
  (match !cur with Some c -> hist := c :: !hist | None -> ());
  print_string "From BPT Require Import Common.Base Rust.Arena Rust.ArenaSpec Rust.Tree Rust.Heap Rust.Readers Rust.Run.\nOpen Scope Z_scope.\n";
  List.iteri (fun i (target, cap, rl) ->
    let lines = List.rev rl in
    if target = "rust" then begin
      match b_new (nat_of_int cap) with
      | None -> ()
      | Some b0 ->
        let ops = List.filter_map parse_op lines in
        let (_, outs) = run b0 ops in
        Printf.printf "Example xc_%d : match b_new Z %d%%nat with Some b0 => snd (run b0 %s) | None => [] end = %s.\nProof. vm_compute. reflexivity. Qed.\n"
          i cap (c_list c_op ops) (c_list c_out outs)
    end else if target = "arena" then begin
      let ops = List.filter_map (function "A" :: t -> parse_aop t | _ -> None) lines in
      let (_, outs) = arun Z0 a_new ops in
      Printf.printf "Example xa_%d : snd (arun 0 (@a_new Z) %s) = %s.\nProof. vm_compute. reflexivity. Qed.\n"
        i (c_list c_aop ops) (c_list c_aout outs)
    end) (List.rev !hist)

(* ---------- main loop ---------- *)
type st = Dead | Tree of z bstate | Heap of z heap | Arena of z arena

(* ---------- small-scope state-space exploration ----------
   --explore CAP U MAXSTATES: breadth-first search over the model states reachable from new(CAP)
   by insert / remove of the keys 0..U-1, two states being the same when their logical trees
   (shape and key positions, ids and values ignored) are the same.  For EVERY transition
   (state, operation) one flat history is printed: the shortest path to the state, the operation,
   and a block of read-only probes; the full state is dumped only after the operation itself.
   The histories are then run through the implementation and this driver like any others. *)
let ident (h : z heap) : string =
  let la = Array.of_list h.hleaves.store and ba = Array.of_list h.hbranches.store in
  let b = Buffer.create 256 in
  let ik k = string_of_int (int_of_z k.kz) in
  let rec go depth r = if depth > 64 then () else match r with
    | RLeaf i -> let i = int_of_n i in
        if i < Array.length la then (Buffer.add_char b '('; List.iter (fun k -> Buffer.add_string b (ik k); Buffer.add_char b ' ') la.(i).lkeys; Buffer.add_char b ')')
    | RBranch i -> let i = int_of_n i in
        if i < Array.length ba then begin
          Buffer.add_char b '[';
          List.iter (fun k -> Buffer.add_string b (ik k); Buffer.add_char b ' ') ba.(i).bkeys;
          List.iter (fun c -> go (depth + 1) c) ba.(i).bkids;
          Buffer.add_char b ']'
        end in
  go 0 h.hroot; Buffer.contents b

(* prefix: the insertion order that builds the start state ("-" = start from the empty map);
   depth: 0 = explore the whole closure, d > 0 = only the states at most d operations away
   from the start state *)
let prefix_keys (spec : string) : int list =
  match String.split_on_char ':' spec with
  | ["asc"; n] -> List.init (ios n) (fun i -> i)
  | ["desc"; n] -> let n = ios n in List.init n (fun i -> n - 1 - i)
  | ["zig"; n] -> let n = ios n in List.init n (fun i -> if i mod 2 = 0 then i / 2 else n - 1 - i / 2)
  | ["mid"; n] -> let n = ios n in List.init n (fun i -> if i mod 2 = 0 then n / 2 + i / 2 else n / 2 - 1 - i / 2)
  | ["rnd"; seed; n] ->
      let n = ios n in
      let a = Array.init n (fun i -> i) in
      let st = ref (ios seed * 7919 + 17) in
      let next m = st := (!st * 1103515245 + 12345) land 0x3fffffff; (!st lsr 8) mod m in
      for i = n - 1 downto 1 do let j = next (i + 1) in let t = a.(i) in a.(i) <- a.(j); a.(j) <- t done;
      Array.to_list a
  | _ -> []

let explore cap u maxstates depth prefix flavor =
  match b_new (nat_of_int cap) with
  | None -> prerr_endline "explore: capacity rejected"
  | Some b0 ->
    let (b0, path0, sid0) = List.fold_left (fun (b, p, sid) k ->
        let (b', _) = step b (OInsert (key_of k sid, z_of_int (sid * 10))) in
        (b', Printf.sprintf "I %d %d %d" k sid (sid * 10) :: p, sid + 1)) (b0, [], 1) (prefix_keys prefix) in
    let plen0 = List.length path0 in
    let seen = Hashtbl.create 65536 in
    let q = Queue.create () in
    Hashtbl.add seen (ident (flatten_fast b0)) ();
    Queue.add (b0, path0, sid0) q;
    let nh = ref 0 and nstates = ref 1 and truncated = ref false and maxh = ref 0 and structural = ref 0 in
    let nodes (b : z bstate) = let h = flatten_fast b in
      List.length (List.filter (fun x -> x) h.hleaves.mask) + List.length (List.filter (fun x -> x) h.hbranches.mask) in
    let probes = Printf.sprintf "V\nQ\nL\nFL\nIT items,fast,keys,values 0:%d 1:%d 2:%d 3:%d\nSL\n"
        (u + 2) (u + 2) (u + 2) (u + 2) in
    let tag = Printf.sprintf "x%s%d.%d.%s.%d" (if flavor = "basic" then "" else flavor) cap u (String.concat "" (String.split_on_char ':' prefix)) depth in
    while not (Queue.is_empty q) do
      let (b, path_rev, sid) = Queue.pop q in
      let plen = List.length path_rev in
      let path = String.concat "" (List.rev_map (fun l -> l ^ "\n") path_rev) in
      for k = 0 to u - 1 do
        List.iter (fun ins ->
          (* flavor: the calls used for the transitions (basic insert/remove, the validating try_ pair, or remove_item) *)
          let line = match flavor, ins with
            | "try", true -> Printf.sprintf "TI %d %d %d" k sid (sid * 10)
            | "try", false -> Printf.sprintf "TR %d" k
            | "item", false -> Printf.sprintf "RI %d" k
            | _, true -> Printf.sprintf "I %d %d %d" k sid (sid * 10)
            | _, false -> Printf.sprintf "R %d" k in
          let op = match flavor, ins with
            | "try", true -> OTryInsert (key_of k sid, z_of_int (sid * 10))
            | "try", false -> OTryRemove (z_of_int k)
            | "item", false -> ORemoveItem (z_of_int k)
            | _, true -> OInsert (key_of k sid, z_of_int (sid * 10))
            | _, false -> ORemove (z_of_int k) in
          let (b', out) = step b op in
          (* range probes vary with the history number: all 9 bound-kind pairs, endpoints sweeping -1..u
             (below the minimum, present and absent keys, above the maximum), inverted intervals included *)
          let kinds = [| "I"; "E"; "U" |] in
          let n = !nh in
          let ep j = ((n * 7 + j * 3) mod (u + 2)) - 1 in
          let rprobes = Printf.sprintf "RG %s %d %s %d\nRG E %d %s %d\nIR %d %d\nFP %d %d %s %d\n"
              kinds.(n mod 3) (ep 0) kinds.((n / 3) mod 3) (ep 1)
              k kinds.((n / 9) mod 3) (ep 2)
              (ep 3) (ep 4)
              (n mod 3) ((n / 3) mod 4) kinds.((n / 12) mod 3) (ep 5) in
          (* lookups and a write through get_mut on the key just touched and on its neighbours (absent keys included) *)
          let kprobes = Printf.sprintf "G %d\nC %d\nM %d %d\nM %d %d\nGM %d %d\nG %d\nIT items 0:%d\n"
              k ((k + 1) mod u) k (900 + k) ((k + 1) mod u) (800 + k) k ((k + u - 1) mod u) ((k + 1) mod u) (u + 1) in
          pr "H %s.%d rust cap=%d dump=%d\n%s%s\n%s%s%s" tag !nh cap (plen + 1) path line probes rprobes kprobes;
          incr nh;
          (match out with
           | UPanic | UFuel | UUB -> ()
           | _ ->
             if nodes b' <> nodes b then incr structural;
             let id = ident (flatten_fast b') in
             if not (Hashtbl.mem seen id) then
               if depth > 0 && plen + 1 - plen0 >= depth then truncated := true
               else if !nstates < maxstates then begin
                 Hashtbl.add seen id (); incr nstates;
                 if plen + 1 > !maxh then maxh := plen + 1;
                 Queue.add (b', line :: path_rev, sid + 1) q
               end else truncated := true);
          if Buffer.length buf > 60000 then flush_buf ()
        ) [true; false]
      done
    done;
    flush_buf ();
    Printf.eprintf "EXPLORE cap=%d keys=%d states=%d transitions=%d longest_path=%d closed=%b structural=%d\n"
      cap u !nstates !nh !maxh (not !truncated) !structural

(* --explore-arena N: every CompactArena state (allocation mask and free-list order; stored items
   ignored) with at most N slots, reachable from the empty arena; one history per (state, call) with
   the three release variants on every in-range, just-out-of-range and null handle, allocate, clear and
   compact, followed by a read-only probe of every handle and every counter. *)
let explore_arena n =
  let ident (a : z arena) = s_mask a.mask ^ "|" ^ s_free a.free in
  let seen = Hashtbl.create 4096 in
  let q = Queue.create () in
  Hashtbl.add seen (ident a_new) (); Queue.add (a_new, [], 1) q;
  let nh = ref 0 and nstates = ref 1 and maxh = ref 0 and structural = ref 0 in
  let handles = List.init (n + 2) (fun i -> i) @ [null_id] in
  let probes = String.concat "" (List.map (fun h -> Printf.sprintf "A get %d\nA has %d\n" h h) handles)
               ^ "A len\nA ac\nA empty\nA fc\nA stats\n" in
  while not (Queue.is_empty q) do
    let (a, path_rev, sid) = Queue.pop q in
    let plen = List.length path_rev in
    let path = String.concat "" (List.rev_map (fun l -> l ^ "\n") path_rev) in
    let ops = (Printf.sprintf "A alloc %d" sid, AAlloc (z_of_int sid)) :: ("A clear", AClear) :: ("A compact", ACompact)
              :: (Printf.sprintf "A set %d %d" (plen mod (n + 1)) sid, ASet (n_of_int (plen mod (n + 1)), z_of_int sid))
              :: List.concat (List.map (fun h ->
                   [ (Printf.sprintf "A free %d" h, AFree (n_of_int h)); (Printf.sprintf "A free_d %d" h, AFreeD (n_of_int h));
                     (Printf.sprintf "A free_nr %d" h, AFreeNR (n_of_int h)) ]) handles) in
    List.iter (fun (line, op) ->
      let (a', out) = astep Z0 a op in
      if List.length a'.store <= n then begin
        pr "H xa%d.%d arena cap=0\n%s%s\n%s" n !nh path line probes; incr nh;
        (match op with AAlloc _ when a.free <> [] -> incr structural | _ -> ());
        (match out with
         | OPanic -> ()
         | _ ->
           let id = ident a' in
           if not (Hashtbl.mem seen id) then begin
             Hashtbl.add seen id (); incr nstates;
             if plen + 1 > !maxh then maxh := plen + 1;
             Queue.add (a', line :: path_rev, sid + 1) q
           end)
      end;
      if Buffer.length buf > 60000 then flush_buf ()) ops
  done;
  flush_buf ();
  Printf.eprintf "EXPLORE cap=0 keys=%d states=%d transitions=%d longest_path=%d closed=true structural=%d\n" n !nstates !nh !maxh !structural

let () =
  if Array.length Sys.argv > 2 && Sys.argv.(1) = "--explore-arena" then (explore_arena (ios Sys.argv.(2)); exit 0);
  if Array.length Sys.argv > 4 && Sys.argv.(1) = "--explore" then (explore (ios Sys.argv.(2)) (ios Sys.argv.(3)) (ios Sys.argv.(4))
      (if Array.length Sys.argv > 5 then ios Sys.argv.(5) else 0) (if Array.length Sys.argv > 6 then Sys.argv.(6) else "-") (if Array.length Sys.argv > 7 then Sys.argv.(7) else "basic"); exit 0);
  if Array.length Sys.argv > 2 && Sys.argv.(1) = "--coq" then (coq_mode Sys.argv.(2); exit 0);
  let ic = if Array.length Sys.argv > 1 then open_in Sys.argv.(1) else stdin in
  let state = ref Dead in
  let step_no = ref 0 in
  let dump_every = ref 1 in
  (try
    while true do
      let line = input_line ic in
      let toks = split_on ' ' line in
      (match toks with
       | [] -> ()
       | "H" :: hid :: target :: rest ->
           let cap = List.fold_left (fun a t ->
               if String.length t > 4 && String.sub t 0 4 = "cap=" then ios (String.sub t 4 (String.length t - 4)) else a) 0 rest in
           pr "H %s %s cap=%d\n" hid target cap;
           step_no := 0;
           dump_every := List.fold_left (fun a t ->
               if String.length t > 5 && String.sub t 0 5 = "dump=" then ios (String.sub t 5 (String.length t - 5)) else a) 1 rest;
           (match target with
            | "rust" ->
                (match b_new (nat_of_int cap) with
                 | Some b -> pr "O new=Ok\n"; dump_s3 (flatten_fast b); dump_s2 (flatten_fast b); state := Tree b
                 | None -> pr "O new=Err(InvalidCapacity)\n"; state := Dead)
            | "arena" -> state := Arena a_new; dump_arena a_new
            | _ -> state := Dead)
       | _ ->
           incr step_no;
           (match !state with
            | Dead -> ()
            | Tree b when (match toks with "DMG" :: _ -> true | _ -> false) ->
                (match parse_edit (List.tl toks) with
                 | None -> pr "O ?unparsed %s\n" line
                 | Some e ->
                     let h0 = flatten_fast b in
                     let h = apply_edit h0 e in
                     pr "O edited\n"; dump_s3 h; dump_s2 h;
                     (* an edit that changed nothing leaves the model in tree state *)
                     if h = h0 then () else state := Heap h)
            | Heap h when (match toks with "DMG" :: _ -> true | _ -> false) ->
                (match parse_edit (List.tl toks) with
                 | None -> pr "O ?unparsed %s\n" line
                 | Some e ->
                     let h = apply_edit h e in
                     pr "O edited\n"; dump_s3 h; dump_s2 h; state := Heap h)
            | Heap h ->
                (match parse_op toks with
                 | None -> pr "O ?unparsed %s\n" line
                 | Some o ->
                     (match hstep h o with
                      | None -> pr "O UNSUPPORTED\n"; state := Dead
                      | Some out ->
                          pr "O %s\n" (s_out out);
                          (match out with
                           | UPanic | UFuel | UUB -> state := Dead
                           | _ -> dump_s3 h; dump_s2 h)))
            | Tree b ->
                (match parse_op toks with
                 | None -> pr "O ?unparsed %s\n" line
                 | Some o ->
                     let (b', out) = step b o in
                     let dumping = (!step_no mod !dump_every = 0) in
                     (* run-time cross-check of the two models: the arena-level mutators of
                        Rust/HeapOps.v applied to the layout of b must give the layout of b' *)
                     let ab_ok = (not dumping) || (match mut_A (flatten_fast b) o with
                       | None -> true
                       | Some (Ok (h', out')) -> h' = flatten_fast b' && out' = out
                       | Some (Panic _) -> out = UPanic
                       | Some OutOfFuel -> out = UFuel
                       | Some (UB _) -> out = UUB) in
                     if not ab_ok then pr "O MODEL-A/B-DISAGREE\n";
                     pr "O %s\n" (s_out out);
                     (match out with
                      | UPanic | UFuel | UUB -> state := Dead
                      | _ ->
                          (if dumping then (let h = flatten_fast b' in dump_s3 h; dump_s2 h));
                          state := Tree b'))
            | Arena a ->
                (match toks with
                 | "A" :: atoks ->
                     (match parse_aop atoks with
                      | None -> pr "O ?unparsed %s\n" line
                      | Some o ->
                          let (a', out) = astep Z0 a o in
                          pr "O %s\n" (s_aout out);
                          (match out with
                           | OPanic -> state := Dead
                           | _ -> dump_arena a'; state := Arena a'))
                 | _ -> pr "O ?unparsed %s\n" line)));
      if Buffer.length buf > 60000 then flush_buf ()
    done
  with End_of_file -> ());
  flush_buf ()
