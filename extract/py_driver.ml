(* Driver for the extracted Python-map model: reads an op file, runs the model, prints one
   trace line per observation.  Trusted glue: parsing and printing only.
   Usage: py_model_driver <ops> [legacy|fixed]     (or env PY_MODEL_VARIANT)
   Variant "legacy" = del_by_value (LeafNode.delete success judged by the popped value),
   "fixed" (default) = success judged by presence. *)
open Py_model

let rec nat_of_int n = if n <= 0 then O else S (nat_of_int (n - 1))
let rec int_of_nat = function O -> 0 | S n -> 1 + int_of_nat n
let rec pos_of_int n =
  if n <= 1 then XH else if n land 1 = 0 then XO (pos_of_int (n lsr 1)) else XI (pos_of_int (n lsr 1))
let rec int_of_pos = function XH -> 1 | XO p -> 2 * int_of_pos p | XI p -> 2 * int_of_pos p + 1
let n_of_int n = if n = 0 then N0 else Npos (pos_of_int n)
let int_of_n = function N0 -> 0 | Npos p -> int_of_pos p
let z_of_int n = if n = 0 then Z0 else if n > 0 then Zpos (pos_of_int n) else Zneg (pos_of_int (-n))
let int_of_z = function Z0 -> 0 | Zpos p -> int_of_pos p | Zneg p -> - (int_of_pos p)

let null_id = 4294967295

let buf = Buffer.create 65536
let pr fmt = Printf.bprintf buf fmt
let flush_buf () = print_string (Buffer.contents buf); Buffer.clear buf

(* ---------- printing ---------- *)
let s_key k = Printf.sprintf "%d#%d" (int_of_z k.kz) (int_of_n k.kid)
let s_val = function PNone -> "None" | PVal z -> string_of_int (int_of_z z)
let s_kv (k, v) = s_key k ^ "=" ^ s_val v
let s_list f l = "[" ^ String.concat " " (List.map f l) ^ "]"
let s_exc e =
  match int_of_nat e with
  | 1 -> "KeyError" | 2 -> "ValueError" | 3 -> "TypeError" | 4 -> "IndexError"
  | 5 -> "InvalidCapacityError" | 6 -> "AttributeError" | n -> "Exception" ^ string_of_int n

let s_out (o : out) : string = match o with
  | UNone -> "None"
  | UVal v -> s_val v
  | UBool b -> if b then "True" else "False"
  | UNat n -> string_of_int (int_of_nat n)
  | UPair (k, v) -> "(" ^ s_key k ^ ", " ^ s_val v ^ ")"
  | UItems l -> s_list s_kv l
  | UKeys l -> s_list s_key l
  | UVals l -> s_list s_val l
  | UExc e -> "EXC " ^ s_exc e
  | UNoMap -> "NOMAP"
  | UFuel -> "NONTERMINATION"
  | UOutOfModel -> "OUTOFMODEL"

(* an outcome after which the two sides are no longer comparable: an exception raised in
   the middle of a mutation (the model does not describe the half-mutated objects) *)
let fatal (o : out) = match o with
  | UExc e -> (match int_of_nat e with 1 | 3 | 5 -> false | _ -> true)
  | UFuel | UOutOfModel -> true
  | _ -> false

(* ---------- state dump: logical tree (S2), chain / head / cache positions (CH) ---------- *)
let dump (w : world) =
  match current w with
  | None -> pr "S2 map=%d NOMAP\n" (int_of_n w.cur)
  | Some s ->
      let order = Hashtbl.create 64 in
      let cnt = ref 0 in
      let b = Buffer.create 1024 in
      let rec go t = match t with
        | PLeaf (id, ncap, ks, vs, nx) ->
            Hashtbl.replace order (int_of_n id) (!cnt, int_of_n nx);
            incr cnt;
            Buffer.add_string b
              (Printf.sprintf "(L %d %s %s)" (int_of_nat ncap) (s_list s_key ks) (s_list s_val vs))
        | PBranch (_, ncap, ks, cs) ->
            Buffer.add_string b (Printf.sprintf "(B %d %s" (int_of_nat ncap) (s_list s_key ks));
            List.iter (fun c -> Buffer.add_char b ' '; go c) cs;
            Buffer.add_char b ')'
      in
      go s.troot;
      pr "S2 map=%d cap=%d %s\n" (int_of_n w.cur) (int_of_nat s.tcap) (Buffer.contents b);
      let ch = Buffer.create 256 in
      let rec walk steps cur =
        if cur = null_id then ()
        else if steps > !cnt + 1 then Buffer.add_string ch " CYCLE"
        else match Hashtbl.find_opt order cur with
          | Some (p, nx) -> Buffer.add_string ch (Printf.sprintf " %d" p); walk (steps + 1) nx
          | None -> Buffer.add_string ch " ?"
      in
      walk 0 (int_of_n s.tleaves);
      let pos id = match Hashtbl.find_opt order id with
        | Some (p, _) -> string_of_int p | None -> "dead" in
      pr "CH%s | head=%s cache=%s n=%d\n" (Buffer.contents ch) (pos (int_of_n s.tleaves))
        (match s.tcache with None -> "none" | Some id -> pos (int_of_n id)) !cnt

(* ---------- parsing ---------- *)
let ios = int_of_string
let key_of z id = { kz = z_of_int z; kid = n_of_int id }
let val_of s = if s = "N" then PNone else PVal (z_of_int (ios s))
let zopt s = if s = "-" then None else Some (z_of_int (ios s))
let split_on c s = List.filter (fun x -> x <> "") (String.split_on_char c s)
let parse_kv s = (* kz:kid:v *)
  match String.split_on_char ':' s with
  | [a; b; c] -> (key_of (ios a) (ios b), val_of c)
  | _ -> failwith ("bad kv " ^ s)

let parse_op (toks : string list) : op option = match toks with
  | ["set"; z; id; v] -> Some (OSet (key_of (ios z) (ios id), val_of v))
  | ["getitem"; z] -> Some (OGetItem (z_of_int (ios z)))
  | ["del"; z] -> Some (ODel (z_of_int (ios z)))
  | ["get"; z] -> Some (OGet (z_of_int (ios z), None))
  | ["get"; z; d] -> Some (OGet (z_of_int (ios z), Some (val_of d)))
  | ["in"; z] -> Some (OContains (z_of_int (ios z)))
  | ["len"] -> Some OLen
  | ["bool"] -> Some OBool
  | "pop" :: z :: args -> Some (OPop (z_of_int (ios z), List.map val_of args))
  | ["popitem"] -> Some OPopItem
  | ["setdefault"; z; id] -> Some (OSetDefault (key_of (ios z) (ios id), None))
  | ["setdefault"; z; id; d] -> Some (OSetDefault (key_of (ios z) (ios id), Some (val_of d)))
  | "update" :: items -> Some (OUpdate (List.map parse_kv items))
  | ["copy"; n] -> Some (OCopy (n_of_int (ios n)))
  | ["use"; n] -> Some (OUse (n_of_int (ios n)))
  | ["clear"] -> Some OClear
  | ["items"; a; b] -> Some (OItems (zopt a, zopt b))
  | ["keys"; a; b] -> Some (OKeys (zopt a, zopt b))
  | ["values"; a; b] -> Some (OValues (zopt a, zopt b))
  | ["range"; a; b] -> Some (ORange (zopt a, zopt b))
  | ["new"; n; c] -> Some (ONew (n_of_int (ios n), nat_of_int (ios c)))
  | "bulk" :: n :: c :: items -> Some (OBulk (n_of_int (ios n), nat_of_int (ios c), List.map parse_kv items))
  | _ -> None

(* ---------- small-scope state-space exploration (see extract/driver.ml) ----------
   --explore CAP U MAXSTATES DEPTH START: every logical tree reachable from the start state by
   `t[k] = v` / `del t[k]` over the keys 0..U-1 (DEPTH 0) or every operation sequence of at most
   DEPTH such calls; one flat history per (state, operation) pair. *)
let ident (w : world) : string =
  match current w with
  | None -> "NOMAP"
  | Some s ->
      let b = Buffer.create 256 in
      let ik k = string_of_int (int_of_z k.kz) in
      let rec go t = match t with
        | PLeaf (_, _, ks, _, _) ->
            Buffer.add_char b '('; List.iter (fun k -> Buffer.add_string b (ik k); Buffer.add_char b ' ') ks; Buffer.add_char b ')'
        | PBranch (_, _, ks, cs) ->
            Buffer.add_char b '['; List.iter (fun k -> Buffer.add_string b (ik k); Buffer.add_char b ' ') ks;
            List.iter go cs; Buffer.add_char b ']' in
      go s.troot; Buffer.contents b

let prefix_keys (spec : string) : int list =
  match String.split_on_char ':' spec with
  | ["asc"; n] -> List.init (ios n) (fun i -> i)
  | ["desc"; n] -> let n = ios n in List.init n (fun i -> n - 1 - i)
  | ["zig"; n] -> let n = ios n in List.init n (fun i -> if i mod 2 = 0 then i / 2 else n - 1 - i / 2)
  | ["mid"; n] -> let n = ios n in List.init n (fun i -> if i mod 2 = 0 then n / 2 + i / 2 else n / 2 - 1 - i / 2)
  | ["rnd"; seed; n] ->
      let n = ios n in
      let a = Array.init n (fun i -> i) in
      let st = ref (ios seed * 7919 + 17) in
      let next m = st := (!st * 1103515245 + 12345) land 0x3fffffff; (!st lsr 8) mod m in
      for i = n - 1 downto 1 do let j = next (i + 1) in let t = a.(i) in a.(i) <- a.(j); a.(j) <- t done;
      Array.to_list a
  | _ -> []

let explore cap u maxstates depth prefix =
  let (w0', _) = step false w0 (ONew (N0, nat_of_int cap)) in
  let vstr sid = if sid mod 5 = 0 then "N" else string_of_int (sid * 10) in
  let setline k sid = Printf.sprintf "set %d %d %s" k sid (vstr sid) in
  let (ws, path0, sid0) = List.fold_left (fun (w, p, sid) k ->
      let (w', _) = step false w (OSet (key_of k sid, val_of (vstr sid))) in
      (w', setline k sid :: p, sid + 1)) (w0', [], 1) (prefix_keys prefix) in
  let plen0 = List.length path0 in
  let seen = Hashtbl.create 65536 in
  let q = Queue.create () in
  Hashtbl.add seen (ident ws) ();
  Queue.add (ws, path0, sid0) q;
  let nh = ref 0 and nstates = ref 1 and truncated = ref false and maxh = ref 0 and structural = ref 0 in
  let nodes (w : world) = match current w with
    | None -> 0
    | Some s -> let rec go t = match t with PLeaf _ -> 1 | PBranch (_, _, _, cs) -> List.fold_left (fun a c -> a + go c) 1 cs in go s.troot in
  let probes = Printf.sprintf "len\nitems - -\nkeys %d %d\nrange %d -\nvalues - %d\npopitem\n" (u / 4) (u - 2) (u / 2) (u / 3) in
  let tag = Printf.sprintf "xp%d.%d.%s.%d" cap u (String.concat "" (String.split_on_char ':' prefix)) depth in
  while not (Queue.is_empty q) do
    let (w, path_rev, sid) = Queue.pop q in
    let plen = List.length path_rev in
    let path = String.concat "" (List.rev_map (fun l -> l ^ "\n") path_rev) in
    for k = 0 to u - 1 do
      List.iter (fun ins ->
        let line = if ins then setline k sid else Printf.sprintf "del %d" k in
        let op = if ins then OSet (key_of k sid, val_of (vstr sid)) else ODel (z_of_int k) in
        let (w', out) = step false w op in
        pr "H %s.%d py cap=%d keys=int\nDUMP 0\n%sDUMP 1\n%s\nget %d\nin %d\n%s" tag !nh cap path line k k probes;
        incr nh;
        if not (fatal out) then begin
          if nodes w' <> nodes w then incr structural;
          let id = ident w' in
          if not (Hashtbl.mem seen id) then
            if depth > 0 && plen + 1 - plen0 >= depth then truncated := true
            else if !nstates < maxstates then begin
              Hashtbl.add seen id (); incr nstates;
              if plen + 1 > !maxh then maxh := plen + 1;
              Queue.add (w', line :: path_rev, sid + 1) q
            end else truncated := true
        end;
        if Buffer.length buf > 60000 then flush_buf ()
      ) [true; false]
    done
  done;
  flush_buf ();
  Printf.eprintf "EXPLORE cap=%d keys=%d states=%d transitions=%d longest_path=%d closed=%b structural=%d\n"
    cap u !nstates !nh !maxh (not !truncated) !structural

(* ---------- main loop ---------- *)
let () =
  if Array.length Sys.argv > 4 && Sys.argv.(1) = "--explore" then (explore (ios Sys.argv.(2)) (ios Sys.argv.(3)) (ios Sys.argv.(4))
      (if Array.length Sys.argv > 5 then ios Sys.argv.(5) else 0) (if Array.length Sys.argv > 6 then Sys.argv.(6) else "-"); exit 0);
  let ic = if Array.length Sys.argv > 1 then open_in Sys.argv.(1) else stdin in
  let variant =
    if Array.length Sys.argv > 2 then Sys.argv.(2)
    else (try Sys.getenv "PY_MODEL_VARIANT" with Not_found -> "fixed") in
  let legacy = (variant = "legacy") in
  let state = ref w0 in
  let dead = ref true in
  let dumping = ref true in
  let do_op o =
    let (w', out) = step legacy !state o in
    pr "O %s\n" (s_out out);
    if fatal out then dead := true
    else begin state := w'; if !dumping then dump w' end in
  (try
    while true do
      let line = input_line ic in
      let toks = split_on ' ' line in
      (match toks with
       | [] -> ()
       | "H" :: _hid :: _target :: rest ->
           let cap = List.fold_left (fun a t ->
               if String.length t > 4 && String.sub t 0 4 = "cap=" then ios (String.sub t 4 (String.length t - 4)) else a) 0 rest in
           pr "%s\n" line;
           state := w0; dead := false; dumping := true;
           do_op (ONew (N0, nat_of_int cap));
           (match current !state with None -> dead := true | Some _ -> ())
       | ["DUMP"; x] -> dumping := (x <> "0")
       | "ORACLE" :: _ -> ()          (* harness-only oracle directive *)
       | _ ->
           if not !dead then
             (match parse_op toks with
              | None -> pr "O ?unparsed %s\n" line
              | Some o -> do_op o));
      if Buffer.length buf > 60000 then flush_buf ()
    done
  with End_of_file -> ());
  flush_buf ()
