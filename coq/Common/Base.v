(* Common vocabulary: result monad with Rust's panics made explicit, Vec-like list
   operations, keys with an object identity. Definitions only (executable). *)
From Coq Require Export List Arith ZArith NArith Lia Bool.
Export ListNotations.

Set Implicit Arguments.

(* ------------------------------------------------------------------ *)
(* Outcomes of a call: normal result, Rust panic (index out of range, unwrap on
   None, debug assertion, overflow), fuel exhausted (never for well-founded input),
   or an unchecked access whose documented safety precondition is false. *)
Inductive res (A : Type) : Type :=
| Ok (a : A)
| Panic (site : nat)
| OutOfFuel
| UB (site : nat).
Arguments Ok {A} a.
Arguments Panic {A} site.
Arguments OutOfFuel {A}.
Arguments UB {A} site.

Definition bind {A B} (r : res A) (f : A -> res B) : res B :=
  match r with
  | Ok a => f a
  | Panic s => Panic s
  | OutOfFuel => OutOfFuel
  | UB s => UB s
  end.
Notation "'do' x <- r ; k" := (bind r (fun x => k))
  (at level 200, x pattern, r at level 100, k at level 200, right associativity).

Definition is_ok {A} (r : res A) : bool := match r with Ok _ => true | _ => false end.

(* ------------------------------------------------------------------ *)
(* Keys: ordering looks only at kz; kid is an object identity (serial number). *)
Record key := mkKey { kz : Z; kid : N }.

Definition key_eqb (a b : key) : bool := (Z.eqb (kz a) (kz b)) && (N.eqb (kid a) (kid b)).

(* ------------------------------------------------------------------ *)
(* Vec operations. Those that panic in Rust return [Panic]. *)

Fixpoint insert_at {A} (i : nat) (x : A) (l : list A) : list A :=
  match i, l with
  | O, _ => x :: l
  | S i', y :: l' => y :: insert_at i' x l'
  | S _, [] => [x]           (* unreachable when guarded by i <= length l *)
  end.

Fixpoint remove_at {A} (i : nat) (l : list A) : list A :=
  match i, l with
  | _, [] => []
  | O, _ :: l' => l'
  | S i', y :: l' => y :: remove_at i' l'
  end.

Fixpoint set_nth {A} (i : nat) (x : A) (l : list A) : list A :=
  match i, l with
  | _, [] => []
  | O, _ :: l' => x :: l'
  | S i', y :: l' => y :: set_nth i' x l'
  end.

(* Vec::insert panics when index > len *)
Definition vec_insert {A} (site : nat) (i : nat) (x : A) (l : list A) : res (list A) :=
  if Nat.leb i (length l) then Ok (insert_at i x l) else Panic site.

(* Vec::remove panics when index >= len; returns the removed element too *)
Definition vec_remove {A} (site : nat) (i : nat) (l : list A) : res (A * list A) :=
  match nth_error l i with
  | Some x => Ok (x, remove_at i l)
  | None => Panic site
  end.

(* v[i] = x panics when i >= len *)
Definition vec_set {A} (site : nat) (i : nat) (x : A) (l : list A) : res (list A) :=
  if Nat.ltb i (length l) then Ok (set_nth i x l) else Panic site.

(* v[i] panics when i >= len *)
Definition vec_get {A} (site : nat) (i : nat) (l : list A) : res A :=
  match nth_error l i with
  | Some x => Ok x
  | None => Panic site
  end.

(* Vec::split_off(at) panics when at > len; returns (kept prefix, split-off suffix) *)
Definition vec_split_off {A} (site : nat) (at_ : nat) (l : list A) : res (list A * list A) :=
  if Nat.leb at_ (length l) then Ok (firstn at_ l, skipn at_ l) else Panic site.

(* checked usize subtraction (debug build panics; the models treat both profiles alike
   and the theorems exclude the panic) *)
Definition usub (site : nat) (a b : nat) : res nat :=
  if Nat.leb b a then Ok (a - b) else Panic site.

Definition last_opt {A} (l : list A) : option A :=
  match rev l with
  | [] => None
  | x :: _ => Some x
  end.

(* Vec::pop *)
Definition vec_pop {A} (l : list A) : option (A * list A) :=
  match rev l with
  | [] => None
  | x :: r => Some (x, rev r)
  end.

Definition count_true (l : list bool) : nat := length (filter (fun b => b) l).

(* ------------------------------------------------------------------ *)
(* Binary search on a key slice. On a strictly ascending slice
   [slice::binary_search] returns Ok(i) with keys[i] == key, or Err(i) with i the
   number of keys smaller than key.  [lb] is that number; [bfound] tells whether the
   key at [lb] is equal. For sorted slices this is the documented contract. *)
Fixpoint lb (ks : list key) (z : Z) : nat :=
  match ks with
  | [] => O
  | k :: ks' => if Z.ltb (kz k) z then S (lb ks' z) else O
  end.

Definition bfound (ks : list key) (z : Z) : bool :=
  match nth_error ks (lb ks z) with
  | Some k => Z.eqb (kz k) z
  | None => false
  end.

(* BranchNode::find_child_index: Ok(i) => i+1, Err(i) => i *)
Definition child_index (ks : list key) (z : Z) : nat :=
  if bfound ks z then S (lb ks z) else lb ks z.

Definition NULL : N := 4294967295%N.
