(* The abstract ordered map: association lists sorted strictly by [kz].
   [m_insert] keeps the key object stored first and replaces the value — the documented
   behaviour of BTreeMap::insert; the correspondence check also runs this
   specification against std's BTreeMap. Definitions only. *)
From BPT Require Import Common.Base.
Set Implicit Arguments.

Section AMap.
Variable V : Type.
Definition amap := list (key * V).

Fixpoint m_get (m : amap) (z : Z) : option V :=
  match m with
  | [] => None
  | (k, v) :: m' => if Z.eqb (kz k) z then Some v else m_get m' z
  end.

Fixpoint m_insert (m : amap) (k : key) (v : V) : amap :=
  match m with
  | [] => [(k, v)]
  | (k', v') :: m' =>
      if Z.ltb (kz k) (kz k') then (k, v) :: m
      else if Z.eqb (kz k) (kz k') then (k', v) :: m'
      else (k', v') :: m_insert m' k v
  end.

Fixpoint m_remove (m : amap) (z : Z) : amap :=
  match m with
  | [] => []
  | (k', v') :: m' => if Z.eqb (kz k') z then m' else (k', v') :: m_remove m' z
  end.

(* write through get_mut: replace the value, keep the key *)
Fixpoint m_update (m : amap) (z : Z) (v : V) : amap :=
  match m with
  | [] => []
  | (k', v') :: m' => if Z.eqb (kz k') z then (k', v) :: m' else (k', v') :: m_update m' z v
  end.

(* strictly ascending by kz *)
Fixpoint sorted_z (l : list Z) : Prop :=
  match l with
  | [] => True
  | a :: l' => match l' with [] => True | b :: _ => (a < b)%Z end /\ sorted_z l'
  end.
Definition sorted_keys (ks : list key) : Prop := sorted_z (map kz ks).
Definition m_sorted (m : amap) : Prop := sorted_keys (map fst m).

End AMap.
