(* Every call of the C type refines the abstract specification (C/Spec.v) and preserves
   the relation R of C/StepDefs.v: core mapping operations and the iterator protocol.
   The wrapper methods are in C/StepWrap.v. *)
From Coq Require Import List Arith ZArith NArith Lia Bool Permutation.
From BPT Require Import Common.Base Common.AMap Rust.Tree Rust.Lib C.Node C.Tree C.Run C.Abs
  C.ArrLib C.PInv C.PFacts C.PDelete C.TreeProofs C.IterDefs C.IterProofs C.Dealloc C.Spec C.StepDefs.
Import ListNotations.
Set Implicit Arguments.

Definition refines (s : cstate) (a : astate) (o : op) : Prop :=
  R (fst (step s o)) (fst (spec_step a o)) /\ snd (step s o) = snd (spec_step a o).

(* ------------------------------------------------------------------ *)
(* the caller drops the previous result *)
Lemma rc_get_release : forall l rc o, rc_get (release rc l) o = (rc_get rc o - cnt (map kid l) o)%Z.
Proof.
  unfold release. induction l as [|x l IH]; intros rc o; cbn [fold_left map].
  - rewrite cnt_nil. lia.
  - rewrite IH, rc_get_decref, cnt_cons. lia.
Qed.

Definition released (s : cstate) : cstate :=
  mkSt (st_tree s) (st_copy s) (st_iters s) (release (st_rc s) (st_held s)) [].

Lemma R_released : forall s a, R s a -> R (released s) a.
Proof.
  intros s a [Rt Rc Ri Rrc]. constructor; cbn [released st_tree st_copy st_iters st_rc st_held]; auto.
  intros o. rewrite rc_get_release, Rrc. rewrite !cnt_app. cbn [map]. rewrite cnt_nil. lia.
Qed.

Lemma step_res_released : forall s o, step_res s o = step_res (released s) o.
Proof. intros. unfold step_res, released. cbn [st_tree st_copy st_iters st_rc st_held release fold_left]. reflexivity. Qed.

Lemma step_released : forall s o, step s o = match step_res (released s) o with
  | Ok r => r | UB site => (s, UOOB site) | Panic site => (s, UNullDeref site) | OutOfFuel => (s, UFuel) end.
Proof. intros. unfold step. rewrite <- step_res_released. reflexivity. Qed.

(* ------------------------------------------------------------------ *)
(* iterators under tree changes *)
Lemma iters_rel_same : forall t t' l la,
  modc t' = modc t -> abs (root t') = abs (root t) -> iters_rel t l la -> iters_rel t' l la.
Proof.
  intros t t' l la Hm Ha H. unfold iters_rel in *. induction H as [|e ea l la He H IH]; constructor; auto.
  destruct He as (H1 & H2 & H3 & H4 & H5). split; auto. unfold iter_rel. rewrite Hm, Ha. auto.
Qed.

Lemma iters_rel_modified : forall t t' l la,
  modc t < modc t' -> iters_rel t l la -> iters_rel t' l (invalidate la).
Proof.
  intros t t' l la Hm H. unfold iters_rel, invalidate in *. induction H as [|e ea l la He H IH]; cbn [map].
  - constructor.
  - constructor; auto. destruct He as (H1 & H2 & H3 & H4 & H5). cbn [fst snd]. split; auto.
    unfold iter_rel. cbn [ai_valid ai_pos ai_inc]. split; [auto|]. split; [lia|]. split.
    + symmetry. apply Nat.eqb_neq. lia.
    + discriminate.
Qed.

Lemma iters_lookup : forall t l la h, iters_rel t l la ->
  match it_lookup l h, ai_lookup la h with
  | Some it, Some ai => iter_rel t it ai
  | None, None => True
  | _, _ => False
  end.
Proof.
  intros t l la h H. induction H as [|[h1 it] [h2 ai] l la (E & He) H IH]; cbn [it_lookup ai_lookup]; auto.
  cbn [fst snd] in *. subst h2. destruct (Nat.eqb h h1); auto.
Qed.

Lemma iters_remove : forall t l la h, iters_rel t l la -> iters_rel t (it_remove l h) (ai_remove la h).
Proof.
  intros t l la h H. induction H as [|[h1 it] [h2 ai] l la (E & He) H IH]; cbn [it_remove ai_remove].
  - constructor.
  - cbn [fst snd] in *. subst h2. destruct (Nat.eqb h h1); auto. constructor; auto.
Qed.

Lemma iters_store : forall t l la h it ai, iters_rel t l la -> iter_rel t it ai ->
  iters_rel t (it_store l h it) (ai_store la h ai).
Proof.
  intros. unfold it_store, ai_store. constructor; [split; auto|]. apply iters_remove. auto.
Qed.

(* ------------------------------------------------------------------ *)
(* deleting an absent key changes nothing *)
Lemma set_nth_same : forall (A : Type) (l : list A) i x, nth_error l i = Some x -> set_nth i x l = l.
Proof.
  induction l as [|a l IH]; intros [|i] x E; cbn in *; try discriminate; auto.
  - inversion E; subst. reflexivity.
  - f_equal. auto.
Qed.

Lemma p_del_absent : forall fuel rc (t : ptree) z t' rc',
  p_del fuel rc t z = Some (t', rc', false) -> t' = t /\ rc' = rc.
Proof.
  induction fuel as [|f IH]; intros rc t z t' rc' E; [discriminate|].
  destruct t as [id cap ks vs nx | id cap ks cs]; cbn [p_del] in E.
  - unfold p_del_leaf in E. destruct (bfound ks z); inversion E; auto.
  - destruct (nth_error cs (child_index ks z)) as [c|] eqn:Ec; [|discriminate].
    destruct (p_del f rc c z) as [[[c' rc1] b1]|] eqn:Ep; [|discriminate].
    assert (b1 = false) by congruence. subst b1.
    destruct (IH _ _ _ _ _ Ep) as (-> & ->).
    rewrite (set_nth_same _ _ Ec) in E. split; congruence.
Qed.

(* ------------------------------------------------------------------ *)
(* frame of every per-operation proof *)
Lemma refines_intro : forall s a o, R s a ->
  (forall t m, st_tree s = Some t -> a_map a = Some m -> CInv t -> tree_map t = m ->
     R (released s) a ->
     exists s' x, step_res (released s) o = Ok (s', x) /\
       R s' (fst (spec_step a o)) /\ x = snd (spec_step a o)) ->
  refines s a o.
Proof.
  intros s a o HR H. unfold refines. rewrite step_released.
  pose proof (R_released HR) as HR1. pose proof (r_tree HR) as Rt. unfold tree_rel in Rt.
  destruct (st_tree s) as [t|] eqn:Et; destruct (a_map a) as [m|] eqn:Em; try contradiction.
  - destruct Rt as (I & Em'). destruct (H t m eq_refl eq_refl I Em' HR1) as (s' & x & E & HR' & Ex).
    rewrite E. cbn [fst snd]. subst x. auto.
  - unfold step_res. unfold with_tree. cbn [st_tree released]. rewrite Et.
    unfold spec_step. rewrite Em. cbn [fst snd]. split; auto.
    cbn [released st_copy st_iters st_rc st_held release fold_left].
    unfold released in HR1. rewrite Et in HR1. exact HR1.
Qed.

Lemma released_tree : forall s, st_tree (released s) = st_tree s.
Proof. reflexivity. Qed.
Lemma released_held : forall s, st_held (released s) = [].
Proof. reflexivity. Qed.

(* the balance of the reference counts when the caller holds nothing *)
Lemma R_rc0 : forall s a, R (released s) a ->
  forall o, rc_get (st_rc (released s)) o = cnt (orefs (st_tree s) ++ orefs (st_copy s)) o.
Proof.
  intros s a HR o. rewrite (r_rc HR). cbn [released st_tree st_copy st_held map].
  rewrite !cnt_app, cnt_nil. lia.
Qed.

Lemma release_nil : forall rc, release rc [] = rc.
Proof. reflexivity. Qed.

Ltac start_op :=
  let t := fresh "t" in let m := fresh "m" in
  intros; apply refines_intro; [assumption|];
  intros t m Et Em I Etm HR1;
  pose proof (R_rc0 HR1) as Hrc; rewrite Et in Hrc; cbn [orefs] in Hrc;
  unfold step_res, with_tree; cbn [released st_tree st_copy st_iters st_rc st_held]; rewrite Et;
  rewrite ?release_nil; cbn [released st_rc] in Hrc;
  let HR1n := fresh "HR1n" in
  pose proof HR1 as HR1n; unfold released in HR1n; rewrite Et in HR1n;
  unfold spec_step; rewrite Em.

(* ------------------------------------------------------------------ *)
Lemma refines_OSet : forall s a k v, R s a -> refines s a (OSet k v).
Proof.
  start_op.
  destruct (@tree_insert_ok t (release (st_rc s) (st_held s)) k v I)
    as (t' & rc' & E & I' & Em' & Ecap & Emod & Hrc').
  rewrite E. cbn [bind fst snd]. eexists. eexists. split; [reflexivity|]. split; [|reflexivity].
  pose proof (r_iters HR1) as Ri. cbn [released st_tree st_iters] in Ri. rewrite Et in Ri.
  constructor; cbn [set_tree modified st_tree st_copy st_iters st_rc st_held a_map a_copy a_iters released].
  - split; auto. congruence.
  - apply (r_copy HR1).
  - apply iters_rel_modified with (t := t); auto. lia.
  - intros o. rewrite Hrc', Hrc. cbn [orefs map]. rewrite !cnt_app, cnt_nil. lia.
Qed.

Lemma refines_OGet : forall s a z, R s a -> refines s a (OGet z).
Proof.
  start_op.
  rewrite (tree_get_ok (release (st_rc s) (st_held s)) z I). cbn [bind]. rewrite Etm.
  pose proof (r_iters HR1) as Ri. cbn [released st_tree st_iters] in Ri. rewrite Et in Ri.
  destruct (m_get m z) as [v|]; cbn [fst snd].
  - eexists. eexists. split; [reflexivity|]. split; [|reflexivity].
    constructor; cbn [set_tree st_tree st_copy st_iters st_rc st_held].
    + rewrite ?Em. split; auto.
    + apply (r_copy HR1).
    + exact Ri.
    + intros o. rewrite rc_get_incref, Hrc. cbn [orefs map]. rewrite !cnt_app, cnt_cons, cnt_nil. lia.
  - eexists. eexists. split; [reflexivity|]. split; [|reflexivity].
    constructor; cbn [set_tree st_tree st_copy st_iters st_rc st_held].
    + rewrite ?Em. split; auto.
    + apply (r_copy HR1).
    + exact Ri.
    + intros o. rewrite Hrc. cbn [orefs map]. rewrite !cnt_app, cnt_nil. lia.
Qed.

Lemma tree_delitem_absent : forall t rc z, CInv t -> m_get (tree_map t) z = None ->
  exists t', tree_delitem t rc z = Ok (t', rc, false) /\ CInv t' /\
    abs (root t') = abs (root t) /\ modc t' = modc t /\ tree_map t' = tree_map t.
Proof.
  intros t rc z I Hn. destruct (ci_shape I) as (h & Sh).
  pose proof (CInv_fuel I Sh) as Hf.
  destruct (@p_del_spec (fuel_of t) rc (abs (root t)) z (tcap t) h None None Hf (ci_ord I) Sh)
    as (pt & rc' & b & Ep & _ & _ & _ & Eb & _).
  fold (tree_map t) in Eb. rewrite Hn in Eb. cbn in Eb. subst b.
  destruct (p_del_absent _ _ _ _ Ep) as (-> & ->).
  destruct (@tree_delitem_ok t rc z I) as (t' & rc2 & b & E & I' & Em' & Eb' & Ecap & Emod & _).
  rewrite Hn in Eb'. cbn in Eb'. subst b.
  pose proof (ci_cap I) as Hcap.
  destruct (@C.SimTree.sim_tree_delitem t rc z (abs (root t)) rc false) as (t2 & E2 & Ea & _);
    auto; try lia; [apply (ci_wf I)|apply (ord_nsorted (ci_ord I))|].
  rewrite E in E2. assert (t' = t2 /\ rc2 = rc) as (-> & ->) by (split; congruence).
  exists t2. split; [exact E|]. split; [exact I'|]. split; [exact Ea|]. split; [exact Emod|].
  unfold tree_map. rewrite Ea. reflexivity.
Qed.

Lemma refines_ODel : forall s a z, R s a -> refines s a (ODel z).
Proof.
  start_op.
  pose proof (r_iters HR1) as Ri. cbn [released st_tree st_iters] in Ri. rewrite Et in Ri.
  destruct (m_get m z) as [v|] eqn:Eg.
  - destruct (@tree_delitem_ok t (release (st_rc s) (st_held s)) z I)
      as (t' & rc' & b & E & I' & Em' & Eb & Ecap & Emod & Hrc').
    rewrite Etm, Eg in Eb. cbn in Eb. subst b.
    rewrite E. cbn [bind fst snd]. eexists. eexists. split; [reflexivity|]. split; [|reflexivity].
    constructor; cbn [set_tree modified st_tree st_copy st_iters st_rc st_held a_map a_copy a_iters released].
    + split; auto. congruence.
    + apply (r_copy HR1).
    + apply iters_rel_modified with (t := t); auto. lia.
    + intros o. rewrite Hrc', Hrc. cbn [orefs map]. rewrite !cnt_app, cnt_nil. lia.
  - rewrite <- Etm in Eg.
    destruct (@tree_delitem_absent t (release (st_rc s) (st_held s)) z I Eg) as (t' & E & I' & Ea & Emod & Em').
    rewrite E. cbn [bind fst snd]. eexists. eexists. split; [reflexivity|]. split; [|reflexivity].
    constructor; cbn [set_tree st_tree st_copy st_iters st_rc st_held].
    + rewrite ?Em. split; auto. congruence.
    + apply (r_copy HR1).
    + apply iters_rel_same with (t := t); auto.
    + intros o. rewrite Hrc. cbn [orefs map]. rewrite Ea. rewrite !cnt_app, cnt_nil. lia.
Qed.

Lemma refines_OIn : forall s a z, R s a -> refines s a (OIn z).
Proof.
  start_op.
  destruct (@tree_contains_ok t (release (st_rc s) (st_held s)) z I) as (rc' & E & Hrc').
  rewrite E. cbn [bind fst snd]. rewrite Etm.
  pose proof (r_iters HR1) as Ri. cbn [released st_tree st_iters] in Ri. rewrite Et in Ri.
  eexists. eexists. split; [reflexivity|]. split; [|reflexivity].
  constructor; cbn [set_tree st_tree st_copy st_iters st_rc st_held].
  - rewrite ?Em. split; auto.
  - apply (r_copy HR1).
  - exact Ri.
  - intros o. rewrite Hrc', Hrc. cbn [orefs map]. rewrite !cnt_app, cnt_nil. lia.
Qed.

Lemma refines_OLen : forall s a, R s a -> refines s a OLen.
Proof.
  start_op. rewrite (tree_length_ok I), Etm.
  eexists. eexists. split; [reflexivity|]. split; [|reflexivity]. exact HR1n.
Qed.

Lemma refines_WCapacity : forall s a, R s a -> refines s a WCapacity.
Proof.
  start_op. eexists. eexists. split; [reflexivity|]. split; [|reflexivity]. exact HR1n.
Qed.

(* ------------------------------------------------------------------ *)
(* iterator handles *)
Lemma refines_OItNew : forall s a h inc, R s a -> refines s a (OItNew h inc).
Proof.
  start_op.
  destruct (@iter_new_ok t inc I) as (it & E & Einc & Est & Hat).
  rewrite E. cbn [bind]. eexists. eexists. split; [reflexivity|]. split; [|reflexivity].
  pose proof (r_iters HR1n) as Ri. cbn [st_tree st_iters] in Ri.
  constructor; cbn [st_tree st_copy st_iters st_rc st_held a_map a_copy a_iters].
  - rewrite ?Em. split; auto.
  - apply (r_copy HR1n).
  - apply iters_store; auto. unfold iter_rel. cbn [ai_valid ai_pos ai_inc].
    rewrite Est, Nat.eqb_refl. repeat split; auto.
  - apply (r_rc HR1n).
Qed.

Lemma refines_OItDrop : forall s a h, R s a -> refines s a (OItDrop h).
Proof.
  start_op. eexists. eexists. split; [reflexivity|]. split; [|reflexivity].
  pose proof (r_iters HR1n) as Ri. cbn [st_tree st_iters] in Ri.
  constructor; cbn [st_tree st_copy st_iters st_rc st_held a_map a_copy a_iters].
  - rewrite ?Em. split; auto.
  - apply (r_copy HR1n).
  - apply iters_remove; auto.
  - apply (r_rc HR1n).
Qed.

Lemma refines_OItNext : forall s a h, R s a -> refines s a (OItNext h).
Proof.
  start_op.
  pose proof (r_iters HR1n) as Ri. cbn [st_tree st_iters] in Ri.
  pose proof (iters_lookup h Ri) as Hl.
  destruct (it_lookup (st_iters s) h) as [it|]; destruct (ai_lookup (a_iters a) h) as [ai|]; try contradiction.
  2:{ eexists. eexists. split; [reflexivity|]. split; [|reflexivity]. exact HR1n. }
  destruct Hl as (Hinc & Hle & Hv & Hat).
  destruct (ai_valid ai) eqn:Ev.
  - (* fresh iterator *)
    symmetry in Hv. apply Nat.eqb_eq in Hv. specialize (Hat eq_refl).
    destruct (@iter_next_ok t (release (st_rc s) (st_held s)) it (ai_pos ai) I Hv Hat)
      as (it' & E & Einc & Est & Hat').
    rewrite E. cbn [bind]. rewrite Etm in *. unfold expected_out in *. rewrite Hinc in *.
    destruct (nth_error m (ai_pos ai)) as [[k v]|] eqn:En.
    + assert (Hp : ai_pos ai < length m) by (eapply nth_error_Some_lt; eauto).
      destruct (Nat.ltb_spec (ai_pos ai) (length m)); [|lia].
      eexists. eexists. split; [reflexivity|]. split.
      * constructor; cbn [st_tree st_copy st_iters st_rc st_held a_map a_copy a_iters fst].
        -- rewrite ?Em. split; auto.
        -- apply (r_copy HR1n).
        -- apply iters_store; auto. unfold iter_rel. cbn [ai_valid ai_pos ai_inc].
           rewrite Einc, Est, Hv, Nat.eqb_refl. repeat split; auto.
        -- intros o. destruct (ai_inc ai); cbn [expected_rc refs_of flat_map app map];
             rewrite ?rc_get_incref, Hrc; cbn [orefs]; rewrite !cnt_app, ?cnt_cons, cnt_nil; lia.
      * destruct (ai_inc ai); reflexivity.
    + destruct (Nat.ltb_spec (ai_pos ai) (length m)) as [Hlt|Hge].
      { apply nth_error_None in En. lia. }
      eexists. eexists. split; [reflexivity|]. split; [|reflexivity].
      constructor; cbn [st_tree st_copy st_iters st_rc st_held a_map a_copy a_iters fst].
      * rewrite ?Em. split; auto.
      * apply (r_copy HR1n).
      * apply iters_store; auto. unfold iter_rel.
        rewrite Einc, Est, Hv, Nat.eqb_refl. repeat split; auto.
      * intros o. cbn [expected_rc refs_of flat_map app map]. apply (r_rc HR1n).
  - (* stale iterator: the stamp test fails before anything is read *)
    symmetry in Hv. apply Nat.eqb_neq in Hv.
    rewrite (@iter_fail_fast t (release (st_rc s) (st_held s)) it Hv). cbn [bind].
    eexists. eexists. split; [reflexivity|]. split; [|reflexivity].
    constructor; cbn [st_tree st_copy st_iters st_rc st_held a_map a_copy a_iters fst].
    + rewrite ?Em. split; auto.
    + apply (r_copy HR1n).
    + apply iters_store; auto. unfold iter_rel. rewrite Ev.
      split; [auto|]. split; [auto|]. split; [symmetry; apply Nat.eqb_neq; auto|discriminate].
    + intros o. cbn [refs_of flat_map app map]. apply (r_rc HR1n).
Qed.

(* ------------------------------------------------------------------ *)
(* list(iterator) *)
Definition out_of (inc : bool) (e : key * key) : next_out :=
  if inc then NItem (fst e) (snd e) else NKey (fst e).
Definition outs_of (inc : bool) (l : list (key * key)) : list next_out := map (out_of inc) l.

Lemma keys_of_outs : forall inc l, keys_of (outs_of inc l) = map fst l.
Proof. induction l as [|e l IH]; cbn; auto. destruct inc; cbn; f_equal; auto. Qed.
Lemma items_of_outs : forall l, items_of (outs_of true l) = l.
Proof. induction l as [|[k v] l IH]; cbn; auto. f_equal; auto. Qed.
Lemma refs_of_keys : forall l, refs_of (outs_of false l) = map fst l.
Proof. induction l as [|e l IH]; cbn; auto. f_equal; auto. Qed.
Lemma cnt_refs_items : forall l o,
  cnt (map kid (refs_of (outs_of true l))) o = (cnt (map kid (map fst l)) o + cnt (map kid (map snd l)) o)%Z.
Proof.
  induction l as [|[k v] l IH]; intros o; cbn [outs_of map out_of refs_of flat_map app fst snd].
  - rewrite !cnt_nil. lia.
  - fold (outs_of true l). fold (refs_of (outs_of true l)). rewrite !cnt_cons, IH. lia.
Qed.

Lemma drain_ok : forall fuel t rc it p acc,
  CInv t -> it_stamp it = modc t -> it_at (abs (root t)) (it_cur it) (it_idx it) p ->
  p <= length (tree_map t) -> length (tree_map t) - p < fuel ->
  exists rc', drain fuel t rc it acc =
      Ok (rc', rev acc ++ outs_of (it_inc it) (skipn p (tree_map t)), NStop) /\
    forall o, rc_get rc' o =
      (rc_get rc o + cnt (map kid (refs_of (outs_of (it_inc it) (skipn p (tree_map t))))) o)%Z.
Proof.
  induction fuel as [|f IH]; intros t rc it p acc I Hst Hat Hp Hf; [lia|].
  destruct (@iter_next_ok t rc it p I Hst Hat) as (it' & E & Einc & Est & Hat').
  cbn [drain]. rewrite E. cbn [bind]. unfold expected_out in *.
  destruct (nth_error (tree_map t) p) as [[k v]|] eqn:En.
  - assert (Hlt : p < length (tree_map t)) by (eapply nth_error_Some_lt; eauto).
    destruct (Nat.ltb_spec p (length (tree_map t))); [|lia].
    rewrite (Rust.InsertLocal.skipn_nth_cons _ _ En).
    destruct (IH t (expected_rc rc (if it_inc it then NItem k v else NKey k)) it' (S p)
                 ((if it_inc it then NItem k v else NKey k) :: acc) I) as (rc' & Ed & Hrc');
      auto; try lia; try congruence.
    rewrite Einc in Ed, Hrc'.
    destruct (it_inc it) eqn:Ei.
    + rewrite Ed. exists rc'. split.
      * cbn [rev outs_of map out_of fst snd]. rewrite <- app_assoc. reflexivity.
      * intros o. rewrite Hrc'. unfold refs_of, outs_of. cbn [expected_rc map out_of fst snd flat_map app].
        rewrite !rc_get_incref, !cnt_cons. lia.
    + rewrite Ed. exists rc'. split.
      * cbn [rev outs_of map out_of fst snd]. rewrite <- app_assoc. reflexivity.
      * intros o. rewrite Hrc'. unfold refs_of, outs_of. cbn [expected_rc map out_of fst snd flat_map app].
        rewrite !rc_get_incref, !cnt_cons. lia.
  - apply nth_error_None in En. assert (p = length (tree_map t)) by lia. subst p.
    rewrite skipn_all. cbn [outs_of map refs_of flat_map expected_rc]. rewrite app_nil_r.
    exists rc. split; [reflexivity|]. intros o. rewrite cnt_nil. lia.
Qed.

(* a fresh iterator drained: all entries, all references *)
Lemma drain_all : forall t rc inc, CInv t ->
  exists it rc', iter_new t inc = Ok it /\
    drain (drain_fuel t) t rc it [] = Ok (rc', outs_of inc (tree_map t), NStop) /\
    forall o, rc_get rc' o = (rc_get rc o + cnt (map kid (refs_of (outs_of inc (tree_map t)))) o)%Z.
Proof.
  intros t rc inc I. destruct (@iter_new_ok t inc I) as (it & E & Einc & Est & Hat).
  destruct (@drain_ok (drain_fuel t) t rc it 0 [] I Est Hat) as (rc' & Ed & Hrc'); try lia.
  { unfold drain_fuel. rewrite (ci_size I). fold (tree_map t). lia. }
  rewrite Einc in *. cbn [skipn rev app] in *. exists it, rc'. auto.
Qed.

Lemma refines_OKeys : forall s a, R s a -> refines s a OKeys.
Proof.
  start_op.
  destruct (@drain_all t (release (st_rc s) (st_held s)) false I) as (it & rc' & E & Ed & Hrc').
  rewrite E. cbn [bind]. rewrite Ed. cbn [bind]. rewrite Etm in *.
  eexists. eexists. split; [reflexivity|]. rewrite keys_of_outs. split; [|reflexivity].
  pose proof (r_iters HR1n) as Ri. cbn [st_tree st_iters] in Ri.
  constructor; cbn [set_tree st_tree st_copy st_iters st_rc st_held a_map a_copy a_iters fst].
  - rewrite ?Em. split; auto.
  - apply (r_copy HR1n).
  - exact Ri.
  - intros o. rewrite Hrc', Hrc. cbn [orefs]. rewrite !cnt_app. lia.
Qed.

Lemma refines_OItems : forall s a, R s a -> refines s a OItems.
Proof.
  start_op.
  destruct (@drain_all t (release (st_rc s) (st_held s)) true I) as (it & rc' & E & Ed & Hrc').
  rewrite E. cbn [bind]. rewrite Ed. cbn [bind]. rewrite Etm in *.
  eexists. eexists. split; [reflexivity|]. rewrite items_of_outs. split; [|reflexivity].
  pose proof (r_iters HR1n) as Ri. cbn [st_tree st_iters] in Ri.
  constructor; cbn [set_tree st_tree st_copy st_iters st_rc st_held a_map a_copy a_iters fst].
  - rewrite ?Em. split; auto.
  - apply (r_copy HR1n).
  - exact Ri.
  - intros o. rewrite Hrc', Hrc. cbn [orefs]. rewrite !cnt_app. lia.
Qed.

Lemma refines_WValues : forall s a, R s a -> refines s a WValues.
Proof.
  start_op.
  destruct (@drain_all t (release (st_rc s) (st_held s)) true I) as (it & rc' & E & Ed & Hrc').
  rewrite E. cbn [bind]. rewrite Ed. cbn [bind]. rewrite Etm in *.
  eexists. eexists. split; [reflexivity|]. rewrite items_of_outs, keys_of_outs. split; [|reflexivity].
  pose proof (r_iters HR1n) as Ri. cbn [st_tree st_iters] in Ri.
  constructor; cbn [set_tree st_tree st_copy st_iters st_rc st_held a_map a_copy a_iters fst].
  - rewrite ?Em. split; auto.
  - apply (r_copy HR1n).
  - exact Ri.
  - intros o. rewrite rc_get_release, Hrc', Hrc, cnt_refs_items. cbn [orefs]. rewrite !cnt_app. lia.
Qed.
