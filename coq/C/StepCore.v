(* Every call of the C type refines the abstract specification (C/Spec.v) and preserves
   the relation R of C/StepDefs.v: core mapping operations and the iterator protocol.
   The wrapper methods are in C/StepWrap.v. *)
From Coq Require Import List Arith ZArith NArith Lia Bool Permutation.
From BPT Require Import Common.Base Common.AMap Rust.Tree Rust.Lib C.Node C.Tree C.Run C.Abs
  C.ArrLib C.PInv C.PFacts C.PDelete C.TreeProofs C.IterDefs C.IterProofs C.Dealloc C.Spec C.StepDefs.
Import ListNotations.
Set Implicit Arguments.

Definition refines (s : cstate) (a : astate) (o : op) : Prop :=
  R (fst (step s o)) (fst (spec_step a o)) /\ snd (step s o) = snd (spec_step a o).

(* ------------------------------------------------------------------ *)
(* the caller drops the previous result *)
Lemma rc_get_release : forall l rc o, rc_get (release rc l) o = (rc_get rc o - cnt (map kid l) o)%Z.
Proof.
  unfold release. induction l as [|x l IH]; intros rc o; cbn [fold_left map].
  - rewrite cnt_nil. lia.
  - rewrite IH, rc_get_decref, cnt_cons. lia.
Qed.

Definition released (s : cstate) : cstate :=
  mkSt (st_tree s) (st_copy s) (st_iters s) (release (st_rc s) (st_held s)) [].

Lemma R_released : forall s a, R s a -> R (released s) a.
Proof.
  intros s a [Rt Rc Ri Rrc]. constructor; cbn [released st_tree st_copy st_iters st_rc st_held]; auto.
  intros o. rewrite rc_get_release, Rrc. rewrite !cnt_app. cbn [map]. rewrite cnt_nil. lia.
Qed.

Lemma step_res_released : forall s o, step_res s o = step_res (released s) o.
Proof. intros. unfold step_res, released. cbn [st_tree st_copy st_iters st_rc st_held release fold_left]. reflexivity. Qed.

Lemma step_released : forall s o, step s o = match step_res (released s) o with
  | Ok r => r | UB site => (s, UOOB site) | Panic site => (s, UNullDeref site) | OutOfFuel => (s, UFuel) end.
Proof. intros. unfold step. rewrite <- step_res_released. reflexivity. Qed.

(* ------------------------------------------------------------------ *)
(* iterators under tree changes *)
Lemma iters_rel_same : forall t t' l la,
  modc t' = modc t -> abs (root t') = abs (root t) -> iters_rel t l la -> iters_rel t' l la.
Proof.
  intros t t' l la Hm Ha H. unfold iters_rel in *. eapply Forall2_impl; [|exact H].
  intros e ea (H1 & H2 & H3 & H4 & H5). split; auto. unfold iter_rel. rewrite Hm, Ha. auto.
Qed.

Lemma iters_rel_modified : forall t t' l la,
  modc t < modc t' -> iters_rel t l la -> iters_rel t' l (invalidate la).
Proof.
  intros t t' l la Hm H. unfold iters_rel, invalidate in *. induction H as [|e ea l la He H IH]; cbn [map].
  - constructor.
  - constructor; auto. destruct He as (H1 & H2 & H3 & H4 & H5). cbn [fst snd]. split; auto.
    unfold iter_rel. cbn [ai_valid ai_pos ai_inc]. repeat split; auto; try lia.
    + symmetry. apply Nat.eqb_neq. lia.
    + discriminate.
Qed.

Lemma iters_lookup : forall t l la h, iters_rel t l la ->
  match it_lookup l h, ai_lookup la h with
  | Some it, Some ai => iter_rel t it ai
  | None, None => True
  | _, _ => False
  end.
Proof.
  intros t l la h H. induction H as [|[h1 it] [h2 ai] l la (E & He) H IH]; cbn [it_lookup ai_lookup]; auto.
  cbn [fst snd] in *. subst h2. destruct (Nat.eqb h h1); auto.
Qed.

Lemma iters_remove : forall t l la h, iters_rel t l la -> iters_rel t (it_remove l h) (ai_remove la h).
Proof.
  intros t l la h H. induction H as [|[h1 it] [h2 ai] l la (E & He) H IH]; cbn [it_remove ai_remove].
  - constructor.
  - cbn [fst snd] in *. subst h2. destruct (Nat.eqb h h1); auto. constructor; auto.
Qed.

Lemma iters_store : forall t l la h it ai, iters_rel t l la -> iter_rel t it ai ->
  iters_rel t (it_store l h it) (ai_store la h ai).
Proof.
  intros. unfold it_store, ai_store. constructor; [split; auto|]. apply iters_remove. auto.
Qed.

(* ------------------------------------------------------------------ *)
(* deleting an absent key changes nothing *)
Lemma set_nth_same : forall (A : Type) (l : list A) i x, nth_error l i = Some x -> set_nth i x l = l.
Proof.
  induction l as [|a l IH]; intros [|i] x E; cbn in *; try discriminate; auto.
  - inversion E; subst. reflexivity.
  - f_equal. auto.
Qed.

Lemma p_del_absent : forall fuel rc (t : ptree) z t' rc',
  p_del fuel rc t z = Some (t', rc', false) -> t' = t /\ rc' = rc.
Proof.
  induction fuel as [|f IH]; intros rc t z t' rc' E; [discriminate|].
  destruct t as [id cap ks vs nx | id cap ks cs]; cbn [p_del] in E.
  - unfold p_del_leaf in E. destruct (bfound ks z); inversion E; auto.
  - destruct (nth_error cs (child_index ks z)) as [c|] eqn:Ec; [|discriminate].
    destruct (p_del f rc c z) as [[[c' rc1] b1]|] eqn:Ep; [|discriminate].
    assert (b1 = false) by congruence. subst b1.
    destruct (IH _ _ _ _ _ Ep) as (-> & ->).
    rewrite (set_nth_same _ _ Ec) in E. split; congruence.
Qed.
