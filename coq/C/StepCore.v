(* Every call of the C type refines the abstract specification (C/Spec.v) and preserves
   the relation R of C/StepDefs.v: core mapping operations and the iterator protocol.
   The wrapper methods are in C/StepWrap.v. *)
From Coq Require Import List Arith ZArith NArith Lia Bool Permutation.
From BPT Require Import Common.Base Common.AMap Rust.Tree Rust.Lib C.Node C.Tree C.Run C.Abs
  C.ArrLib C.PInv C.PFacts C.PDelete C.TreeProofs C.IterDefs C.IterProofs C.Dealloc C.Spec C.StepDefs.
Import ListNotations.
Set Implicit Arguments.

Definition refines (s : cstate) (a : astate) (o : op) : Prop :=
  R (fst (step s o)) (fst (spec_step a o)) /\ snd (step s o) = snd (spec_step a o).

(* ------------------------------------------------------------------ *)
(* the caller drops the previous result *)
Lemma rc_get_release : forall l rc o, rc_get (release rc l) o = (rc_get rc o - cnt (map kid l) o)%Z.
Proof.
  unfold release. induction l as [|x l IH]; intros rc o; cbn [fold_left map].
  - rewrite cnt_nil. lia.
  - rewrite IH, rc_get_decref, cnt_cons. lia.
Qed.

Definition released (s : cstate) : cstate :=
  mkSt (st_tree s) (st_copy s) (st_iters s) (release (st_rc s) (st_held s)) [].

Lemma R_released : forall s a, R s a -> R (released s) a.
Proof.
  intros s a [Rt Rc Ri Rrc]. constructor; cbn [released st_tree st_copy st_iters st_rc st_held]; auto.
  intros o. rewrite rc_get_release, Rrc. rewrite !cnt_app. cbn [map]. rewrite cnt_nil. lia.
Qed.

Lemma step_res_released : forall s o, step_res s o = step_res (released s) o.
Proof. intros. unfold step_res, released. cbn [st_tree st_copy st_iters st_rc st_held release fold_left]. reflexivity. Qed.

Lemma step_released : forall s o, step s o = match step_res (released s) o with
  | Ok r => r | UB site => (s, UOOB site) | Panic site => (s, UNullDeref site) | OutOfFuel => (s, UFuel) end.
Proof. intros. unfold step. rewrite <- step_res_released. reflexivity. Qed.

(* ------------------------------------------------------------------ *)
(* iterators under tree changes *)
Lemma iters_rel_same : forall t t' l la,
  modc t' = modc t -> abs (root t') = abs (root t) -> iters_rel t l la -> iters_rel t' l la.
Proof.
  intros t t' l la Hm Ha H. unfold iters_rel in *. induction H as [|e ea l la He H IH]; constructor; auto.
  destruct He as (H1 & H2 & H3 & H4 & H5). split; auto. unfold iter_rel. rewrite Hm, Ha. auto.
Qed.

Lemma iters_rel_modified : forall t t' l la,
  modc t < modc t' -> iters_rel t l la -> iters_rel t' l (invalidate la).
Proof.
  intros t t' l la Hm H. unfold iters_rel, invalidate in *. induction H as [|e ea l la He H IH]; cbn [map].
  - constructor.
  - constructor; auto. destruct He as (H1 & H2 & H3 & H4 & H5). cbn [fst snd]. split; auto.
    unfold iter_rel. cbn [ai_valid ai_pos ai_inc]. split; [auto|]. split; [lia|]. split.
    + symmetry. apply Nat.eqb_neq. lia.
    + discriminate.
Qed.

Lemma iters_lookup : forall t l la h, iters_rel t l la ->
  match it_lookup l h, ai_lookup la h with
  | Some it, Some ai => iter_rel t it ai
  | None, None => True
  | _, _ => False
  end.
Proof.
  intros t l la h H. induction H as [|[h1 it] [h2 ai] l la (E & He) H IH]; cbn [it_lookup ai_lookup]; auto.
  cbn [fst snd] in *. subst h2. destruct (Nat.eqb h h1); auto.
Qed.

Lemma iters_remove : forall t l la h, iters_rel t l la -> iters_rel t (it_remove l h) (ai_remove la h).
Proof.
  intros t l la h H. induction H as [|[h1 it] [h2 ai] l la (E & He) H IH]; cbn [it_remove ai_remove].
  - constructor.
  - cbn [fst snd] in *. subst h2. destruct (Nat.eqb h h1); auto. constructor; auto.
Qed.

Lemma iters_store : forall t l la h it ai, iters_rel t l la -> iter_rel t it ai ->
  iters_rel t (it_store l h it) (ai_store la h ai).
Proof.
  intros. unfold it_store, ai_store. constructor; [split; auto|]. apply iters_remove. auto.
Qed.

(* ------------------------------------------------------------------ *)
(* deleting an absent key changes nothing *)
Lemma set_nth_same : forall (A : Type) (l : list A) i x, nth_error l i = Some x -> set_nth i x l = l.
Proof.
  induction l as [|a l IH]; intros [|i] x E; cbn in *; try discriminate; auto.
  - inversion E; subst. reflexivity.
  - f_equal. auto.
Qed.

Lemma p_del_absent : forall fuel rc (t : ptree) z t' rc',
  p_del fuel rc t z = Some (t', rc', false) -> t' = t /\ rc' = rc.
Proof.
  induction fuel as [|f IH]; intros rc t z t' rc' E; [discriminate|].
  destruct t as [id cap ks vs nx | id cap ks cs]; cbn [p_del] in E.
  - unfold p_del_leaf in E. destruct (bfound ks z); inversion E; auto.
  - destruct (nth_error cs (child_index ks z)) as [c|] eqn:Ec; [|discriminate].
    destruct (p_del f rc c z) as [[[c' rc1] b1]|] eqn:Ep; [|discriminate].
    assert (b1 = false) by congruence. subst b1.
    destruct (IH _ _ _ _ _ Ep) as (-> & ->).
    rewrite (set_nth_same _ _ Ec) in E. split; congruence.
Qed.

(* ------------------------------------------------------------------ *)
(* frame of every per-operation proof *)
Lemma refines_intro : forall s a o, R s a ->
  (forall t m, st_tree s = Some t -> a_map a = Some m -> CInv t -> tree_map t = m ->
     R (released s) a ->
     exists s' x, step_res (released s) o = Ok (s', x) /\
       R s' (fst (spec_step a o)) /\ x = snd (spec_step a o)) ->
  refines s a o.
Proof.
  intros s a o HR H. unfold refines. rewrite step_released.
  pose proof (R_released HR) as HR1. pose proof (r_tree HR) as Rt. unfold tree_rel in Rt.
  destruct (st_tree s) as [t|] eqn:Et; destruct (a_map a) as [m|] eqn:Em; try contradiction.
  - destruct Rt as (I & Em'). destruct (H t m eq_refl eq_refl I Em' HR1) as (s' & x & E & HR' & Ex).
    rewrite E. cbn [fst snd]. subst x. auto.
  - unfold step_res. unfold with_tree. cbn [st_tree released]. rewrite Et.
    unfold spec_step. rewrite Em. cbn [fst snd]. split; auto.
Qed.

Lemma released_tree : forall s, st_tree (released s) = st_tree s.
Proof. reflexivity. Qed.
Lemma released_held : forall s, st_held (released s) = [].
Proof. reflexivity. Qed.

(* the balance of the reference counts when the caller holds nothing *)
Lemma R_rc0 : forall s a, R (released s) a ->
  forall o, rc_get (st_rc (released s)) o = cnt (orefs (st_tree s) ++ orefs (st_copy s)) o.
Proof.
  intros s a HR o. rewrite (r_rc HR). cbn [released st_tree st_copy st_held map].
  rewrite !cnt_app, cnt_nil. lia.
Qed.

Ltac start_op :=
  let t := fresh "t" in let m := fresh "m" in
  intros; apply refines_intro; [assumption|];
  intros t m Et Em I Etm HR1;
  pose proof (R_rc0 HR1) as Hrc; rewrite Et in Hrc; cbn [orefs] in Hrc;
  unfold step_res, with_tree; cbn [released st_tree st_copy st_iters st_rc st_held]; rewrite Et;
  unfold spec_step; rewrite Em.

(* ------------------------------------------------------------------ *)
Lemma refines_OSet : forall s a k v, R s a -> refines s a (OSet k v).
Proof.
  start_op.
  destruct (@tree_insert_ok t (release (st_rc s) (st_held s)) k v I)
    as (t' & rc' & E & I' & Em' & Ecap & Emod & Hrc').
  rewrite E. cbn [bind fst snd]. eexists. eexists. split; [reflexivity|]. split; [|reflexivity].
  pose proof (r_iters HR1) as Ri. cbn [released st_tree st_iters] in Ri. rewrite Et in Ri.
  constructor; cbn [set_tree modified st_tree st_copy st_iters st_rc st_held a_map a_copy a_iters released].
  - split; auto. congruence.
  - apply (r_copy HR1).
  - apply iters_rel_modified with (t := t); auto. lia.
  - intros o. rewrite Hrc', Hrc. cbn [orefs map]. rewrite !cnt_app, cnt_nil. lia.
Qed.

Lemma refines_OGet : forall s a z, R s a -> refines s a (OGet z).
Proof.
  start_op.
  rewrite (tree_get_ok (release (st_rc s) (st_held s)) z I). cbn [bind]. rewrite Etm.
  pose proof (r_iters HR1) as Ri. cbn [released st_tree st_iters] in Ri. rewrite Et in Ri.
  destruct (m_get m z) as [v|]; cbn [fst snd].
  - eexists. eexists. split; [reflexivity|]. split; [|reflexivity].
    constructor; cbn [set_tree st_tree st_copy st_iters st_rc st_held].
    + rewrite Em. split; auto.
    + apply (r_copy HR1).
    + exact Ri.
    + intros o. rewrite rc_get_incref, Hrc. cbn [orefs map]. rewrite !cnt_app, cnt_cons, cnt_nil. lia.
  - eexists. eexists. split; [reflexivity|]. split; [|reflexivity].
    constructor; cbn [set_tree st_tree st_copy st_iters st_rc st_held].
    + rewrite Em. split; auto.
    + apply (r_copy HR1).
    + exact Ri.
    + intros o. rewrite Hrc. cbn [orefs map]. rewrite !cnt_app, cnt_nil. lia.
Qed.

Lemma tree_delitem_absent : forall t rc z, CInv t -> m_get (tree_map t) z = None ->
  exists t', tree_delitem t rc z = Ok (t', rc, false) /\ CInv t' /\
    abs (root t') = abs (root t) /\ modc t' = modc t /\ tree_map t' = tree_map t.
Proof.
  intros t rc z I Hn. destruct (ci_shape I) as (h & Sh).
  pose proof (CInv_fuel I Sh) as Hf.
  destruct (@p_del_spec (fuel_of t) rc (abs (root t)) z (tcap t) h None None Hf (ci_ord I) Sh)
    as (pt & rc' & b & Ep & _ & _ & _ & Eb & _).
  fold (tree_map t) in Eb. rewrite Hn in Eb. cbn in Eb. subst b.
  destruct (p_del_absent _ _ _ _ Ep) as (-> & ->).
  destruct (@tree_delitem_ok t rc z I) as (t' & rc2 & b & E & I' & Em' & Eb' & Ecap & Emod & _).
  rewrite Hn in Eb'. cbn in Eb'. subst b.
  pose proof (ci_cap I) as Hcap.
  destruct (@C.SimTree.sim_tree_delitem t rc z (abs (root t)) rc false) as (t2 & E2 & Ea & _);
    auto; try lia; [apply (ci_wf I)|apply (ord_nsorted (ci_ord I))|].
  rewrite E in E2. inversion E2; subst. exists t2. repeat split; auto.
  unfold tree_map. rewrite Ea. reflexivity.
Qed.

Lemma refines_ODel : forall s a z, R s a -> refines s a (ODel z).
Proof.
  start_op.
  pose proof (r_iters HR1) as Ri. cbn [released st_tree st_iters] in Ri. rewrite Et in Ri.
  destruct (m_get m z) as [v|] eqn:Eg.
  - destruct (@tree_delitem_ok t (release (st_rc s) (st_held s)) z I)
      as (t' & rc' & b & E & I' & Em' & Eb & Ecap & Emod & Hrc').
    rewrite Etm, Eg in Eb. cbn in Eb. subst b.
    rewrite E. cbn [bind fst snd]. eexists. eexists. split; [reflexivity|]. split; [|reflexivity].
    constructor; cbn [set_tree modified st_tree st_copy st_iters st_rc st_held a_map a_copy a_iters released].
    + split; auto. congruence.
    + apply (r_copy HR1).
    + apply iters_rel_modified with (t := t); auto. lia.
    + intros o. rewrite Hrc', Hrc. cbn [orefs map]. rewrite !cnt_app, cnt_nil. lia.
  - rewrite <- Etm in Eg.
    destruct (@tree_delitem_absent t (release (st_rc s) (st_held s)) z I Eg) as (t' & E & I' & Ea & Emod & Em').
    rewrite E. cbn [bind fst snd]. eexists. eexists. split; [reflexivity|]. split; [|reflexivity].
    constructor; cbn [set_tree st_tree st_copy st_iters st_rc st_held].
    + rewrite Em. split; auto. congruence.
    + apply (r_copy HR1).
    + apply iters_rel_same with (t := t); auto.
    + intros o. rewrite Hrc. cbn [orefs map]. rewrite Ea. rewrite !cnt_app, cnt_nil. lia.
Qed.

Lemma refines_OIn : forall s a z, R s a -> refines s a (OIn z).
Proof.
  start_op.
  destruct (@tree_contains_ok t (release (st_rc s) (st_held s)) z I) as (rc' & E & Hrc').
  rewrite E. cbn [bind fst snd]. rewrite Etm.
  pose proof (r_iters HR1) as Ri. cbn [released st_tree st_iters] in Ri. rewrite Et in Ri.
  eexists. eexists. split; [reflexivity|]. split; [|reflexivity].
  constructor; cbn [set_tree st_tree st_copy st_iters st_rc st_held].
  - rewrite Em. split; auto.
  - apply (r_copy HR1).
  - exact Ri.
  - intros o. rewrite Hrc', Hrc. cbn [orefs map]. rewrite !cnt_app, cnt_nil. lia.
Qed.

Lemma refines_OLen : forall s a, R s a -> refines s a OLen.
Proof.
  start_op. rewrite (tree_length_ok I), Etm.
  eexists. eexists. split; [reflexivity|]. split; [|reflexivity]. exact HR1.
Qed.

Lemma refines_WCapacity : forall s a, R s a -> refines s a WCapacity.
Proof.
  start_op. eexists. eexists. split; [reflexivity|]. split; [|reflexivity]. exact HR1.
Qed.
