(* Every history of calls on the C model refines the abstract specification:
   same answers as dict semantics + fail-fast iterator protocol (C/Spec.v), no
   out-of-bounds index / NULL dereference / fuel exhaustion, balanced reference counts at
   every call boundary and zero after the objects are dropped. *)
From Coq Require Import List Arith ZArith NArith Lia Bool Permutation.
From BPT Require Import Common.Base Common.AMap Rust.Tree Rust.Lib C.Node C.Tree C.Run C.Abs
  C.ArrLib C.PInv C.PFacts C.TreeProofs C.IterDefs C.IterProofs C.Dealloc C.Spec
  C.StepDefs C.StepCore C.StepWrap.
Import ListNotations.
Set Implicit Arguments.

Theorem step_refines : forall s a o, R s a -> refines s a o.
Proof.
  intros s a o HR. destruct o.
  - apply refines_OSet; auto.
  - apply refines_OGet; auto.
  - apply refines_ODel; auto.
  - apply refines_OIn; auto.
  - apply refines_OLen; auto.
  - apply refines_OKeys; auto.
  - apply refines_OItems; auto.
  - apply refines_OItNew; auto.
  - apply refines_OItNext; auto.
  - apply refines_OItDrop; auto.
  - apply refines_WGet; auto.
  - apply refines_WValues; auto.
  - apply refines_WClear; auto.
  - apply refines_WPop; auto.
  - apply refines_WPopitem; auto.
  - apply refines_WSetdefault; auto.
  - apply refines_WUpdate; auto.
  - apply refines_WCopy; auto.
  - apply refines_WSwap; auto.
  - apply refines_WCapacity; auto.
Qed.

(* the constructor *)
Theorem init_refines : forall c,
  R (fst (st_init c)) (fst (a_init c)) /\ snd (st_init c) = snd (a_init c).
Proof.
  intros c. unfold st_init, a_init.
  destruct (tree_init c) as [t|] eqn:E.
  - destruct (tree_init_ok _ E) as (I & Em & Emod).
    unfold tree_init, MIN_CAPACITY, UINT16_MAX in E.
    destruct (Z.ltb c 4); [discriminate|]. destruct (Z.ltb 65535 c); [discriminate|].
    cbn [fst snd]. split; [|reflexivity].
    constructor; cbn [st_tree st_copy st_iters st_rc st_held a_map a_copy a_iters tree_rel orefs]; auto.
    + constructor.
    + intros o. unfold tree_map in Em. rewrite !cnt_app. cbn [map rc_get].
      assert (Hp : prefs (abs (root t)) = []).
      { unfold tree_init in *. destruct (abs (root t)) as [id cap ks vs nx | id cap ks cs] eqn:Ea.
        - cbn [contents] in Em. cbn [prefs]. destruct (ci_shape I) as (h & Sh). rewrite Ea in Sh.
          destruct (cshape_leaf_inv Sh) as (_ & _ & Lv & _).
          destruct ks; destruct vs; cbn in *; try discriminate; try lia; reflexivity.
        - pose proof (ci_leaves I) as Hl. pose proof (ci_count I) as Hc. exfalso.
          (* a fresh tree is a single leaf *)
          clear - E Ea. revert Ea. inversion E. cbn [root].
          rewrite (C.AbsFacts.repr_leaf_abs (C.AbsFacts.repr_leaf_create 1%N (Z.to_nat c))). discriminate. }
      rewrite Hp. rewrite !cnt_nil. lia.
  - apply tree_init_rejects in E. destruct (Z.ltb_spec c 4).
    + cbn [fst snd]. split; [|reflexivity].
      constructor; cbn [st_tree st_copy st_iters st_rc st_held a_map a_copy a_iters tree_rel orefs]; auto.
    + destruct (Z.ltb_spec 65535 c); [|lia].
      cbn [fst snd]. split; [|reflexivity].
      constructor; cbn [st_tree st_copy st_iters st_rc st_held a_map a_copy a_iters tree_rel orefs]; auto.
Qed.

Theorem run_refines : forall ops s a, R s a ->
  R (fst (run s ops)) (fst (spec_run a ops)) /\ snd (run s ops) = snd (spec_run a ops).
Proof.
  induction ops as [|o ops IH]; intros s a HR; cbn [run spec_run].
  - cbn [fst snd]. auto.
  - destruct (step_refines o HR) as (HR1 & Ex).
    destruct (step s o) as [s1 x] eqn:Es. destruct (spec_step a o) as [a1 x'] eqn:Ea.
    cbn [fst snd] in *. subst x'.
    destruct (IH s1 a1 HR1) as (HR2 & Exs).
    destruct (run s1 ops) as [s2 xs]. destruct (spec_run a1 ops) as [a2 xs'].
    cbn [fst snd] in *. subst xs'. auto.
Qed.

(* ------------------------------------------------------------------ *)
(* no memory error is among the answers of the specification, hence of the model *)
Lemma spec_no_mem_error : forall a o, is_mem_error (snd (spec_step a o)) = false.
Proof.
  intros a o. unfold spec_step. destruct (a_map a) as [m|]; [|reflexivity].
  destruct o; cbn [snd is_mem_error]; try reflexivity.
  - destruct (m_get m z); reflexivity.
  - destruct (m_get m z); reflexivity.
  - destruct (ai_lookup (a_iters a) h) as [it|]; [|reflexivity].
    destruct (ai_valid it); [|reflexivity].
    destruct (nth_error m (ai_pos it)) as [[k v]|]; [|reflexivity]. destruct (ai_inc it); reflexivity.
  - destruct (m_get m z); [reflexivity|]. destruct d; reflexivity.
  - destruct m as [|[k v] m']; reflexivity.
  - destruct (m_get m (kz k)); reflexivity.
  - destruct (a_copy a); reflexivity.
Qed.

Lemma spec_run_no_mem_error : forall ops a, forallb (fun x => negb (is_mem_error x)) (snd (spec_run a ops)) = true.
Proof.
  induction ops as [|o ops IH]; intros a; cbn [spec_run]; [reflexivity|].
  pose proof (spec_no_mem_error a o) as H.
  destruct (spec_step a o) as [a1 x]. specialize (IH a1). destruct (spec_run a1 ops) as [a2 xs].
  cbn [snd forallb] in *. rewrite H, IH. reflexivity.
Qed.

(* c_no_oob: at every capacity, for every history *)
Theorem c_no_oob : forall c ops,
  forallb (fun x => negb (is_mem_error x)) (snd (run (fst (st_init c)) ops)) = true.
Proof.
  intros c ops. destruct (init_refines c) as (HR & _).
  destruct (run_refines ops HR) as (_ & E). rewrite E. apply spec_run_no_mem_error.
Qed.

(* the whole history answers what the specification answers *)
Theorem c_refines_dict : forall c ops,
  snd (st_init c) :: snd (run (fst (st_init c)) ops) =
  snd (a_init c) :: snd (spec_run (fst (a_init c)) ops).
Proof.
  intros c ops. destruct (init_refines c) as (HR & E0).
  destruct (run_refines ops HR) as (_ & E). congruence.
Qed.

(* c_rc_balanced: at every call boundary the ghost count of every object is the number
   of live key/value slots holding it (tree and copy) plus the references lent to the
   caller by the last call *)
Theorem c_rc_balanced : forall c ops o,
  let s := fst (run (fst (st_init c)) ops) in
  rc_get (st_rc s) o = cnt (orefs (st_tree s) ++ orefs (st_copy s) ++ map kid (st_held s)) o.
Proof.
  intros c ops o s. destruct (init_refines c) as (HR & _).
  destruct (run_refines ops HR) as (HR' & _). apply (r_rc HR').
Qed.

(* after the caller dropped its last result, the copy and the tree: everything released *)
Theorem finish_balanced : forall s a, R s a ->
  exists rc, finish s = Ok rc /\ forall o, rc_get rc o = 0%Z.
Proof.
  intros s a HR. unfold finish.
  pose proof (r_rc HR) as Hrc. pose proof (r_copy HR) as Rc. pose proof (r_tree HR) as Rt.
  set (rc0 := release (st_rc s) (st_held s)).
  assert (H0 : forall o, rc_get rc0 o = cnt (orefs (st_tree s) ++ orefs (st_copy s)) o).
  { intros o. unfold rc0. rewrite rc_get_release, Hrc. rewrite !cnt_app. lia. }
  assert (H1 : exists rc1, (match st_copy s with Some c => tree_dealloc c rc0 | None => Ok rc0 end) = Ok rc1 /\
                           forall o, rc_get rc1 o = cnt (orefs (st_tree s)) o).
  { unfold tree_rel in Rc. destruct (st_copy s) as [c|]; destruct (a_copy a) as [mc|]; try contradiction.
    - destruct Rc as (Ic & _). destruct (tree_dealloc_ok rc0 Ic) as (rc1 & E & H).
      exists rc1. split; auto. intros o. rewrite H, H0. cbn [orefs]. rewrite !cnt_app. lia.
    - exists rc0. split; auto. intros o. rewrite H0. cbn [orefs]. rewrite cnt_app, cnt_nil. lia. }
  destruct H1 as (rc1 & E1 & H1). rewrite E1. cbn [bind].
  unfold tree_rel in Rt. destruct (st_tree s) as [t|]; destruct (a_map a) as [m|]; try contradiction.
  - destruct Rt as (It & _). destruct (tree_dealloc_ok rc1 It) as (rc2 & E & H).
    exists rc2. split; auto. intros o. rewrite H, H1. cbn [orefs]. lia.
  - exists rc1. split; auto.
Qed.

Theorem c_all_released : forall c ops,
  exists rc, finish (fst (run (fst (st_init c)) ops)) = Ok rc /\ forall o, rc_get rc o = 0%Z.
Proof.
  intros c ops. destruct (init_refines c) as (HR & _).
  destruct (run_refines ops HR) as (HR' & _). eapply finish_balanced; eauto.
Qed.
