(* Array level = list level for the branch operations: bisect_right routing, child
   access and write-back, node_insert_branch of tree_ops.c (shift-insert and split through
   the temporary arrays), the new root built by tree_insert. *)
From Coq Require Import List Arith ZArith NArith Lia Bool.
From BPT Require Import Common.Base Common.AMap Rust.Tree Rust.Lib Rust.TreeFactsI
  C.Node C.Tree C.Abs C.ArrLib C.AbsFacts C.SimBase.
Import ListNotations.
Set Implicit Arguments.

(* ------------------------------------------------------------------ *)
(* [holds] through an insertion / a prefix / a suffix, source and target at different offsets *)
Lemma holds_insert_off : forall d d' off off' (l : list cslot) pos x,
  pos <= length l ->
  (forall j, j < pos -> nth_error d' (off' + j) = nth_error d (off + j)) ->
  nth_error d' (off' + pos) = Some x ->
  (forall j, pos < j <= length l -> nth_error d' (off' + j) = nth_error d (off + (j - 1))) ->
  holds d off l -> holds d' off' (insert_at pos x l).
Proof.
  intros d d' off off' l pos x Hp H1 H2 H3 H i Hi. rewrite length_insert_at in Hi by auto.
  destruct (Nat.lt_trichotomy i pos) as [Hlt|[->|Hgt]].
  - rewrite nth_error_insert_at_lt by lia. rewrite H1 by auto. apply H. lia.
  - rewrite nth_error_insert_at_eq by lia. auto.
  - rewrite nth_error_insert_at_gt by lia. rewrite H3 by lia. apply H. lia.
Qed.

Lemma holds_firstn : forall t (L : list cslot) d' off m,
  holds t 0 L -> m <= length L ->
  (forall j, j < m -> nth_error d' (off + j) = nth_error t j) ->
  holds d' off (firstn m L).
Proof.
  intros t L d' off m H Hm H1 i Hi. rewrite firstn_length in Hi.
  rewrite nth_error_firstn_lt by lia. rewrite H1 by lia. apply (H i). lia.
Qed.

Lemma holds_skipn : forall t (L : list cslot) d' off m,
  holds t 0 L ->
  (forall j, m + j < length L -> nth_error d' (off + j) = nth_error t (m + j)) ->
  holds d' off (skipn m L).
Proof.
  intros t L d' off m H H1 i Hi. rewrite skipn_length in Hi.
  rewrite nth_error_skipn_add. rewrite H1 by lia. apply (H (m + i)). lia.
Qed.

(* ------------------------------------------------------------------ *)
(* for (i = nk; i > pos; i--) { key[i] = key[i-1]; child[i+1] = child[i] } *)
Lemma branch_shift_right_loop : forall n pos c,
  ncap n = c -> length (data n) = 2 * c + 1 -> nk n < c -> pos <= nk n ->
  exists n', for_down (nk n - pos) (nk n) branch_shift_right n = Ok n' /\ same_meta n n' /\
    forall j, nth_error (data n') j =
      if (Nat.ltb pos j && Nat.leb j (nk n)) || (Nat.ltb (c + pos + 1) j && Nat.leb j (c + nk n + 1))
      then nth_error (data n) (j - 1) else nth_error (data n) j.
Proof.
  intros n pos c Hc Hl Hk Hp.
  destruct (@for_down_inv cnode
    (fun t n' => same_meta n n' /\
       forall j, nth_error (data n') j =
         if (Nat.ltb (nk n - t) j && Nat.leb j (nk n)) || (Nat.ltb (c + (nk n - t) + 1) j && Nat.leb j (c + nk n + 1))
         then nth_error (data n) (j - 1) else nth_error (data n) j)
    branch_shift_right (nk n - pos) (nk n) n) as (n' & E & SM & Hn').
  - split; [apply same_meta_refl|]. intros j. rewrite Nat.sub_0_r. bcases.
  - intros t s Ht (SM & Hs). destruct SM as (M1 & M2 & M3 & M4 & M5 & M6).
    set (i := nk n - t). assert (Hi : pos < i <= nk n) by (unfold i; lia).
    unfold branch_shift_right.
    destruct (nth_error_lt_Some (data s) (i := i - 1)) as (kx & Ekx); [lia|].
    rewrite (get_key_ok _ _ Ekx). cbn [bind].
    rewrite set_key_ok by lia. cbn [bind].
    destruct (nth_error_lt_Some (data s) (i := c + i)) as (vx & Evx); [lia|].
    rewrite get_child_ok with (s := vx).
    2:{ autorewrite with nodeproj. rewrite M3, Hc. rewrite nth_error_set_nth_other by lia. exact Evx. }
    cbn [bind].
    rewrite set_child_ok by (autorewrite with nodeproj; lia). eexists. split; [reflexivity|].
    autorewrite with nodeproj. split.
    + unfold same_meta. autorewrite with nodeproj. repeat split; auto.
    + intros j. rewrite M3, Hc. rewrite Hs in Ekx, Evx.
      replace (nk n - S t) with (i - 1) by (unfold i; lia). fold i in Hs.
      rewrite !nth_error_set_nth. autorewrite with nodeproj.
      destruct (Nat.eqb_spec j (c + (i + 1))) as [->|n1].
      * rewrite <- Evx. bcases.
      * destruct (Nat.eqb_spec j i) as [->|n2].
        -- rewrite <- Ekx. bcases.
        -- rewrite Hs. bcases.
  - exists n'. split; [exact E|]. split; [exact SM|]. intros j. rewrite Hn'.
    replace (nk n - (nk n - pos)) with pos by lia. reflexivity.
Qed.

(* for (i = a; i < a + cnt; i++) { tk[i+off] = key[i]; tc[i+off+1] = child[i+1] } *)
Lemma branch_to_temp_loop : forall n c off cnt a tk tc,
  ncap n = c -> length (data n) = 2 * c + 1 -> a + cnt <= c ->
  a + cnt + off <= length tk -> a + cnt + off + 1 <= length tc ->
  exists tk' tc', for_up cnt a (branch_to_temp n off) (tk, tc) = Ok (tk', tc') /\
    length tk' = length tk /\ length tc' = length tc /\
    (forall j, nth_error tk' j =
       if Nat.leb (a + off) j && Nat.ltb j (a + off + cnt) then nth_error (data n) (j - off) else nth_error tk j) /\
    (forall j, nth_error tc' j =
       if Nat.leb (a + off + 1) j && Nat.ltb j (a + off + 1 + cnt) then nth_error (data n) (c + (j - off)) else nth_error tc j).
Proof.
  intros n c off cnt a tk tc Hc Hl Ha Hk Hv.
  destruct (@for_up_inv (list cslot * list cslot)
    (fun i st => length (fst st) = length tk /\ length (snd st) = length tc /\
       (forall j, nth_error (fst st) j =
          if Nat.leb (a + off) j && Nat.ltb j (i + off) then nth_error (data n) (j - off) else nth_error tk j) /\
       (forall j, nth_error (snd st) j =
          if Nat.leb (a + off + 1) j && Nat.ltb j (i + off + 1) then nth_error (data n) (c + (j - off)) else nth_error tc j))
    (branch_to_temp n off) cnt a (tk, tc)) as ([tk' tc'] & E & L1 & L2 & P1 & P2).
  - cbn [fst snd]. repeat split; auto; intros j; bcases.
  - intros i [sk sv] Hi (L1 & L2 & P1 & P2). cbn [fst snd] in *.
    unfold branch_to_temp. cbn [fst snd].
    destruct (nth_error_lt_Some (data n) (i := i)) as (kx & Ekx); [lia|].
    destruct (nth_error_lt_Some (data n) (i := c + (i + 1))) as (vx & Evx); [lia|].
    rewrite (get_key_ok _ _ Ekx). cbn [bind].
    rewrite get_child_ok with (s := vx) by (rewrite Hc; exact Evx). cbn [bind].
    rewrite !arr_set_ok by lia. cbn [bind]. eexists. split; [reflexivity|]. cbn [fst snd].
    rewrite !length_set_nth. repeat split; auto; intros j; rewrite nth_error_set_nth.
    + destruct (Nat.eqb_spec j (i + off)) as [->|ne].
      * rewrite <- Ekx. bcases.
      * rewrite P1. bcases.
    + destruct (Nat.eqb_spec j (i + off + 1)) as [->|ne].
      * rewrite <- Evx. bcases.
      * rewrite P2. bcases.
  - cbn [fst snd] in *. exists tk', tc'. repeat split; auto; intros j; [rewrite P1|rewrite P2].
    + replace (a + cnt + off) with (a + off + cnt) by lia. reflexivity.
    + replace (a + cnt + off + 1) with (a + off + 1 + cnt) by lia. reflexivity.
Qed.

(* for (i = 0; i < cnt; i++) key[i] = tk[off+i] *)
Lemma key_from_temp_loop : forall n off cnt tk,
  cnt <= length (data n) -> off + cnt <= length tk ->
  exists n', for_up cnt 0 (key_from_temp tk off) n = Ok n' /\ same_meta n n' /\
    forall j, nth_error (data n') j =
      if Nat.ltb j cnt then nth_error tk (off + j) else nth_error (data n) j.
Proof.
  intros n off cnt tk Hl Hk.
  destruct (@for_up_inv cnode
    (fun i n' => same_meta n n' /\
       forall j, nth_error (data n') j =
         if Nat.ltb j i then nth_error tk (off + j) else nth_error (data n) j)
    (key_from_temp tk off) cnt 0 n) as (n' & E & SM & P).
  - split; [apply same_meta_refl|]. intros j. bcases.
  - intros i s Hi (SM & P). destruct SM as (M1 & M2 & M3 & M4 & M5 & M6).
    unfold key_from_temp.
    destruct (nth_error_lt_Some tk (i := off + i)) as (kx & Ekx); [lia|].
    rewrite (arr_get_ok _ _ _ Ekx). cbn [bind].
    rewrite set_key_ok by lia. eexists. split; [reflexivity|].
    autorewrite with nodeproj. split.
    + unfold same_meta. autorewrite with nodeproj. repeat split; auto.
    + intros j. rewrite !nth_error_set_nth.
      destruct (Nat.eqb_spec j i) as [->|n2].
      * rewrite <- Ekx. bcases.
      * rewrite P. bcases.
  - exists n'. auto.
Qed.

(* for (i = 0; i < cnt; i++) child[i] = tc[off+i] *)
Lemma child_from_temp_loop : forall n c off cnt tc,
  ncap n = c -> c + cnt <= length (data n) -> off + cnt <= length tc ->
  exists n', for_up cnt 0 (child_from_temp tc off) n = Ok n' /\ same_meta n n' /\
    forall j, nth_error (data n') j =
      if Nat.leb c j && Nat.ltb j (c + cnt) then nth_error tc (off + (j - c)) else nth_error (data n) j.
Proof.
  intros n c off cnt tc Hc Hl Hk.
  destruct (@for_up_inv cnode
    (fun i n' => same_meta n n' /\
       forall j, nth_error (data n') j =
         if Nat.leb c j && Nat.ltb j (c + i) then nth_error tc (off + (j - c)) else nth_error (data n) j)
    (child_from_temp tc off) cnt 0 n) as (n' & E & SM & P).
  - split; [apply same_meta_refl|]. intros j. bcases.
  - intros i s Hi (SM & P). destruct SM as (M1 & M2 & M3 & M4 & M5 & M6).
    unfold child_from_temp.
    destruct (nth_error_lt_Some tc (i := off + i)) as (kx & Ekx); [lia|].
    rewrite (arr_get_ok _ _ _ Ekx). cbn [bind].
    rewrite set_child_ok by lia. eexists. split; [reflexivity|].
    autorewrite with nodeproj. split.
    + unfold same_meta. autorewrite with nodeproj. repeat split; auto.
    + intros j. rewrite M3, Hc. rewrite !nth_error_set_nth.
      destruct (Nat.eqb_spec j (c + i)) as [->|n2].
      * rewrite <- Ekx. bcases.
      * rewrite P. bcases.
  - exists n'. auto.
Qed.

(* ------------------------------------------------------------------ *)
Lemma sim_route : forall cap n id ks cs z,
  repr_branch cap n id ks cs -> sorted_keys ks -> route n z = Ok (child_index ks z).
Proof.
  intros cap n id ks cs z (H1 & H2 & H3 & H4 & H5 & H6 & H7 & H8 & H9) Hs.
  unfold route. rewrite find_position_spec with (ks := ks) by auto. cbn [bind].
  unfold child_index, bfound. rewrite H4.
  destruct (Nat.ltb_spec (lb ks z) (length ks)) as [Hl|Hl].
  - destruct (nth_error_lt_Some ks Hl) as (k & Ek). rewrite Ek.
    assert (Ed : nth_error (data n) (0 + lb ks z) = Some (SObj k)).
    { apply (holds_nth (l := map SObj ks)); auto. rewrite nth_error_map, Ek. reflexivity. }
    change (nth_error (data n) (lb ks z) = Some (SObj k)) in Ed.
    rewrite (get_key_ok _ _ Ed). cbn [bind as_obj]. destruct (Z.eqb (kz k) z); reflexivity.
  - assert (E : nth_error ks (lb ks z) = None) by (apply nth_error_None; lia).
    rewrite E. reflexivity.
Qed.

Lemma sim_get_child : forall cap n id ks cs i c,
  repr_branch cap n id ks cs -> nth_error cs i = Some c -> get_child n i = Ok (SKid c).
Proof.
  intros cap n id ks cs i c (H1 & H2 & H3 & H4 & H5 & H6 & H7 & H8 & H9) E.
  apply get_child_ok. rewrite H3. apply (holds_nth (l := map SKid cs)); auto.
  rewrite nth_error_map, E. reflexivity.
Qed.

Lemma sim_set_child : forall cap n id ks cs i c',
  repr_branch cap n id ks cs -> i < length cs ->
  exists n', set_child n i (SKid c') = Ok n' /\ repr_branch cap n' id ks (set_nth i c' cs).
Proof.
  intros cap n id ks cs i c' (H1 & H2 & H3 & H4 & H5 & H6 & H7 & H8 & H9) Hi.
  rewrite set_child_ok by lia. eexists. split; [reflexivity|].
  unfold repr_branch. autorewrite with nodeproj. rewrite H3.
  split; [auto|]. split; [auto|]. split; [auto|]. split; [auto|]. split; [auto|].
  split; [auto|]. split; [auto|]. split.
  - apply holds_same with (d := data n); auto. intros j Hj. rewrite map_length in Hj.
    rewrite nth_error_set_nth_other by lia. reflexivity.
  - rewrite map_set_nth. apply holds_set with (d := data n); auto.
    + rewrite map_length. auto.
    + intros j Hne Hj. rewrite nth_error_set_nth_other by lia. reflexivity.
    + apply nth_error_set_nth_same. lia.
Qed.

Lemma sim_insert_branch_nosplit : forall cap n id ks cs al key right,
  4 <= cap -> repr_branch cap n id ks cs -> sorted_keys ks -> length ks < cap ->
  exists n', node_insert_branch al n key right = Ok (n', al, IONoSplit) /\
    repr_branch cap n' id (insert_at (lb ks (kz key)) key ks)
                          (insert_at (S (lb ks (kz key))) right cs).
Proof.
  intros cap n id ks cs al key right Hcap (H1 & H2 & H3 & H4 & H5 & H6 & H7 & H8 & H9) Hs Hlen.
  unfold node_insert_branch. rewrite find_position_spec with (ks := ks) by auto. cbn [bind].
  set (pos := lb ks (kz key)).
  assert (Hpos : pos <= length ks) by apply lb_le_length.
  destruct (Nat.leb_spec (ncap n) (nk n)) as [|_]; [lia|].
  destruct (@branch_shift_right_loop n pos cap) as (n1 & E1 & SM1 & P1); auto; try lia.
  rewrite E1. cbn [bind]. destruct SM1 as (M1 & M2 & M3 & M4 & M5 & M6).
  rewrite set_key_ok by lia. cbn [bind].
  rewrite set_child_ok by (autorewrite with nodeproj; lia). cbn [bind].
  eexists. split; [reflexivity|].
  unfold repr_branch. autorewrite with nodeproj. rewrite M3, H3.
  rewrite !length_insert_at by lia.
  split; [congruence|]. split; [congruence|]. split; [congruence|]. split; [lia|].
  split; [lia|]. split; [lia|]. split; [lia|]. split.
  - rewrite map_insert_at. apply holds_insert with (d := data n); auto.
    + rewrite map_length. auto.
    + intros j Hj. rewrite !nth_error_set_nth, P1. autorewrite with nodeproj. bcases.
    + rewrite !nth_error_set_nth. autorewrite with nodeproj. bcases.
    + intros j Hj. rewrite map_length in Hj.
      rewrite !nth_error_set_nth, P1. autorewrite with nodeproj. bcases.
  - rewrite map_insert_at. apply holds_insert with (d := data n); auto.
    + rewrite map_length. lia.
    + intros j Hj. rewrite !nth_error_set_nth, P1. autorewrite with nodeproj. bcases.
    + rewrite !nth_error_set_nth. autorewrite with nodeproj. bcases.
    + intros j Hj. rewrite map_length in Hj.
      rewrite !nth_error_set_nth, P1. autorewrite with nodeproj. bcases.
Qed.

Lemma sim_insert_branch_split : forall cap n id ks cs al key right,
  4 <= cap -> repr_branch cap n id ks cs -> sorted_keys ks -> length ks = cap ->
  let pos := lb ks (kz key) in
  let K := insert_at pos key ks in
  let C := insert_at (S pos) right cs in
  let mid := cap / 2 in
  exists n' nn, node_insert_branch al n key right = Ok (n', N.succ al, IOSplit nn (nth_obj K mid)) /\
    repr_branch cap n' id (firstn mid K) (firstn (S mid) C) /\
    repr_branch cap nn al (skipn (S mid) K) (skipn (S mid) C).
Proof.
  intros cap n id ks cs al key right Hcap R Hs Hlen pos K C mid.
  destruct R as (H1 & H2 & H3 & H4 & H5 & H6 & H7 & H8 & H9).
  assert (Hpos : pos <= cap) by (unfold pos; rewrite <- Hlen; apply lb_le_length).
  assert (Hmid : 2 <= mid /\ mid + mid <= cap /\ cap <= mid + mid + 1).
  { unfold mid. pose proof (Nat.div_mod cap 2). pose proof (Nat.mod_upper_bound cap 2). lia. }
  assert (LK : length K = cap + 1) by (unfold K; rewrite length_insert_at; lia).
  assert (LC : length C = cap + 2) by (unfold C; rewrite length_insert_at; lia).
  unfold node_insert_branch. rewrite find_position_spec with (ks := ks) by auto. cbn [bind].
  fold pos.
  destruct (Nat.leb_spec (ncap n) (nk n)) as [_|]; [|lia]. cbv zeta. rewrite H3. fold mid.
  destruct (nth_error_lt_Some cs (i := 0)) as (c0 & Ec0); [lia|].
  assert (Ed0 : nth_error (data n) (cap + 0) = Some (SKid c0)).
  { apply (holds_nth (l := map SKid cs)); auto. rewrite nth_error_map, Ec0. reflexivity. }
  rewrite get_child_ok with (s := SKid c0) by (rewrite H3; exact Ed0). cbn [bind].
  rewrite arr_set_ok by (rewrite repeat_length; lia). cbn [bind].
  destruct (@branch_to_temp_loop n cap 0 pos 0 (repeat SNull (cap + 1))
              (set_nth 0 (SKid c0) (repeat SNull (cap + 2))))
    as (tk1 & tc1 & E1 & L1 & L1' & P1 & P1'); auto;
    try (rewrite ?length_set_nth, ?repeat_length; lia).
  rewrite repeat_length in L1. rewrite length_set_nth, repeat_length in L1'.
  rewrite E1. cbn [bind fst snd].
  rewrite !arr_set_ok by lia. cbn [bind].
  destruct (@branch_to_temp_loop n cap 1 (nk n - pos) pos (set_nth pos (SObj key) tk1)
              (set_nth (pos + 1) (SKid right) tc1))
    as (tk & tc & E2 & L2 & L2' & P2 & P2'); auto;
    try (rewrite ?length_set_nth; lia).
  rewrite length_set_nth in L2. rewrite length_set_nth in L2'.
  rewrite E2. cbn [bind].
  assert (HK : holds tk 0 (map SObj K)).
  { unfold K. rewrite map_insert_at. apply holds_insert_off with (d := data n) (off := 0); auto.
    - rewrite map_length. lia.
    - intros j Hj. rewrite P2, nth_error_set_nth, P1. bcases.
    - rewrite P2, nth_error_set_nth. bcases.
    - intros j Hj. rewrite map_length in Hj. rewrite P2. bcases. }
  assert (HC : holds tc 0 (map SKid C)).
  { unfold C. rewrite map_insert_at. apply holds_insert_off with (d := data n) (off := cap); auto.
    - rewrite map_length. lia.
    - intros j Hj. rewrite P2', nth_error_set_nth, P1', nth_error_set_nth, repeat_length.
      destruct j as [|j].
      + rewrite Ed0. bcases.
      + bcases.
    - rewrite P2', nth_error_set_nth. bcases.
    - intros j Hj. rewrite map_length in Hj. rewrite P2'. bcases. }
  clear P1 P1' P2 P2' E1 E2.
  assert (Ltk : length tk = cap + 1) by lia. assert (Ltc : length tc = cap + 2) by lia.
  clear L1 L1' L2 L2'.
  destruct (nth_error_lt_Some K (i := mid)) as (sk & Esk); [lia|].
  assert (Etk : nth_error tk (0 + mid) = Some (SObj sk)).
  { apply (holds_nth (l := map SObj K)); auto. rewrite nth_error_map, Esk. reflexivity. }
  change (nth_error tk mid = Some (SObj sk)) in Etk.
  rewrite (arr_get_ok _ _ _ Etk). cbn [bind as_obj].
  destruct (@key_from_temp_loop (with_nk n mid) 0 mid tk) as (n2 & E3 & SM3 & P3);
    [autorewrite with nodeproj; lia | lia |].
  rewrite E3. cbn [bind].
  destruct (@child_from_temp_loop n2 cap 0 (S mid) tc) as (n3 & E4 & SM4 & P4).
  { destruct SM3 as (_ & _ & M & _). rewrite M. autorewrite with nodeproj. exact H3. }
  { destruct SM3 as (_ & _ & _ & _ & _ & M). rewrite M. autorewrite with nodeproj. lia. }
  { lia. }
  rewrite E4. cbn [bind].
  rewrite nk_with_nk.
  set (new1 := with_nk (node_create al NBranch cap) (cap - mid)).
  assert (Lnew : length (data new1) = 2 * cap + 1).
  { unfold new1, node_create. autorewrite with nodeproj. cbn [data data_len]. apply repeat_length. }
  destruct (@key_from_temp_loop new1 (mid + 1) (cap - mid) tk) as (m2 & E5 & SM5 & P5); [lia|lia|].
  rewrite E5. cbn [bind].
  assert (Nm2 : nk m2 = cap - mid).
  { destruct SM5 as (_ & _ & _ & M & _). rewrite M. unfold new1. apply nk_with_nk. }
  rewrite Nm2.
  destruct (@child_from_temp_loop m2 cap (mid + 1) (S (cap - mid)) tc) as (m3 & E6 & SM6 & P6).
  { destruct SM5 as (_ & _ & M & _). rewrite M. reflexivity. }
  { destruct SM5 as (_ & _ & _ & _ & _ & M). rewrite M. lia. }
  { lia. }
  rewrite E6. cbn [bind].
  exists n3, m3. split.
  { replace (nth_obj K mid) with sk; [reflexivity|].
    unfold nth_obj. symmetry. apply nth_nth_error. exact Esk. }
  split.
  - pose proof (same_meta_trans SM3 SM4) as (M1 & M2 & M3 & M4 & M5 & M6).
    autorewrite with nodeproj in M1, M2, M3, M4, M6.
    unfold repr_branch. rewrite !firstn_length, LK, LC.
    split; [congruence|]. split; [congruence|]. split; [congruence|]. split; [lia|].
    split; [lia|]. split; [lia|]. split; [lia|]. split.
    + rewrite <- firstn_map. apply holds_firstn with (t := tk); auto.
      * rewrite map_length. lia.
      * intros j Hj. rewrite P4, P3. bcases.
    + rewrite <- firstn_map. apply holds_firstn with (t := tc); auto.
      * rewrite map_length. lia.
      * intros j Hj. rewrite P4. bcases.
  - pose proof (same_meta_trans SM5 SM6) as (M1 & M2 & M3 & M4 & M5 & M6).
    unfold repr_branch. rewrite !skipn_length, LK, LC.
    split; [rewrite M1; reflexivity|]. split; [rewrite M2; reflexivity|].
    split; [rewrite M3; reflexivity|]. split; [rewrite M4; unfold new1; rewrite nk_with_nk; lia|].
    split; [lia|]. split; [lia|]. split; [lia|]. split.
    + rewrite <- skipn_map. apply holds_skipn with (t := tk); auto.
      intros j Hj. rewrite map_length in Hj. rewrite P6, P5. bcases.
    + rewrite <- skipn_map. apply holds_skipn with (t := tc); auto.
      intros j Hj. rewrite map_length in Hj. rewrite P6. bcases.
Qed.

(* the new root of tree_insert *)
Lemma sim_new_root : forall cap al rt newn sk,
  1 <= cap ->
  exists nr1 nr2 nr3,
    set_child (node_create al NBranch cap) 0 (SKid rt) = Ok nr1 /\
    set_key nr1 0 (SObj sk) = Ok nr2 /\
    set_child nr2 1 (SKid newn) = Ok nr3 /\
    repr_branch cap (with_nk nr3 1) al [sk] [rt; newn].
Proof.
  intros cap al rt newn sk Hcap.
  set (n0 := node_create al NBranch cap).
  assert (L0 : length (data n0) = 2 * cap + 1).
  { unfold n0, node_create. cbn [data data_len]. apply repeat_length. }
  assert (C0 : ncap n0 = cap) by reflexivity.
  assert (D0 : forall j, j < 2 * cap + 1 -> nth_error (data n0) j = Some SNull).
  { intros j Hj. unfold n0, node_create. cbn [data data_len]. apply nth_error_repeat. exact Hj. }
  eexists. eexists. eexists.
  split; [apply set_child_ok; lia|].
  split; [apply set_key_ok; autorewrite with nodeproj; lia|].
  split; [apply set_child_ok; autorewrite with nodeproj; lia|].
  unfold repr_branch. autorewrite with nodeproj. rewrite C0. cbn [length map].
  split; [reflexivity|]. split; [reflexivity|]. split; [reflexivity|]. split; [reflexivity|].
  split; [lia|]. split; [reflexivity|]. split; [lia|]. split.
  - intros i Hi. cbn [length] in Hi. assert (i = 0) by lia. subst i.
    rewrite !nth_error_set_nth. autorewrite with nodeproj. cbn [nth_error]. bcases.
  - intros i Hi. cbn [length] in Hi.
    rewrite !nth_error_set_nth. autorewrite with nodeproj.
    destruct i as [|[|i]]; [| |lia]; cbn [nth_error]; bcases.
Qed.
