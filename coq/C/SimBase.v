(* Array level = list level, node by node (shared part): under the representation predicates of
   C/Abs.v every node operation of C/Node.v succeeds (no out-of-bounds index, no NULL
   dereference) and computes the list-level function of C/Abs.v. *)
From Coq Require Import List Arith ZArith NArith Lia Bool.
From BPT Require Import Common.Base Common.AMap Rust.Tree Rust.Lib Rust.TreeFactsI
  C.Node C.Tree C.Abs C.ArrLib C.AbsFacts.
Import ListNotations.
Set Implicit Arguments.

(* ------------------------------------------------------------------ *)
(* node_find_position = lower bound *)
Lemma lb_unique : forall ks z i, i <= length ks ->
  (forall j k, j < i -> nth_error ks j = Some k -> (kz k < z)%Z) ->
  (forall k, nth_error ks i = Some k -> (z <= kz k)%Z) ->
  lb ks z = i.
Proof.
  induction ks as [|a ks IH]; intros z i Hi Hlt Hge; cbn [lb].
  - cbn in Hi. lia.
  - destruct i as [|i].
    + specialize (Hge a eq_refl). destruct (Z.ltb_spec (kz a) z); [lia|reflexivity].
    + assert (kz a < z)%Z by (apply (Hlt 0 a); [lia|reflexivity]).
      destruct (Z.ltb_spec (kz a) z); [|lia]. f_equal. apply IH.
      * cbn in Hi. lia.
      * intros j k Hj E. apply (Hlt (S j) k); [lia|exact E].
      * intros k E. apply Hge. exact E.
Qed.

Lemma fp_loop_spec : forall fuel n ks z left right,
  nk n = length ks -> holds (data n) 0 (map SObj ks) -> sorted_keys ks ->
  left <= right -> right <= length ks -> right - left < fuel ->
  (forall j k, j < left -> nth_error ks j = Some k -> (kz k < z)%Z) ->
  (forall k, nth_error ks right = Some k -> (z <= kz k)%Z) ->
  fp_loop fuel n z left right = Ok (lb ks z).
Proof.
  induction fuel as [|f IH]; intros n ks z left right Hk Hh Hs Hlr Hr Hf Hlt Hge; [lia|].
  cbn [fp_loop]. destruct (Nat.ltb_spec left right) as [Hl|Hl].
  - set (mid := (left + right) / 2).
    assert (Hmid : left <= mid < right).
    { unfold mid. pose proof (Nat.div_mod (left + right) 2). pose proof (Nat.mod_upper_bound (left + right) 2). lia. }
    destruct (nth_error_lt_Some ks (i := mid)) as (km & Ekm); [lia|].
    assert (Ed : nth_error (data n) mid = Some (SObj km)).
    { change mid with (0 + mid). apply (holds_nth (l := map SObj ks)); auto.
      rewrite nth_error_map, Ekm. reflexivity. }
    rewrite (get_key_ok _ _ Ed). cbn [bind as_obj].
    destruct (Z.ltb_spec (kz km) z) as [Hc|Hc].
    + apply IH with (ks := ks); auto; try lia.
      intros j k Hj E. assert (kz k <= kz km)%Z; [|lia].
      apply (@sorted_keys_nth_le ks j mid k km); auto. lia.
    + apply IH with (ks := ks); auto; try lia.
      intros k E. rewrite Ekm in E. inversion E; subst. lia.
  - assert (left = right) by lia. subst right. symmetry. f_equal. apply lb_unique; auto.
Qed.

Lemma find_position_spec : forall n ks z,
  nk n = length ks -> holds (data n) 0 (map SObj ks) -> sorted_keys ks ->
  node_find_position n z = Ok (lb ks z).
Proof.
  intros n ks z Hk Hh Hs. unfold node_find_position.
  apply fp_loop_spec with (ks := ks); auto; try lia.
  intros k E. rewrite Hk in E. assert (length ks < length ks); [|lia].
    eapply nth_error_Some_lt; eauto.
Qed.

(* ------------------------------------------------------------------ *)
(* [holds] after the list operations *)
Lemma holds_insert : forall d d' off (l : list cslot) pos x,
  pos <= length l ->
  (forall j, j < pos -> nth_error d' (off + j) = nth_error d (off + j)) ->
  nth_error d' (off + pos) = Some x ->
  (forall j, pos < j <= length l -> nth_error d' (off + j) = nth_error d (off + (j - 1))) ->
  holds d off l -> holds d' off (insert_at pos x l).
Proof.
  intros d d' off l pos x Hp H1 H2 H3 H i Hi. rewrite length_insert_at in Hi by auto.
  destruct (Nat.lt_trichotomy i pos) as [Hlt|[->|Hgt]].
  - rewrite nth_error_insert_at_lt by lia. rewrite H1 by auto. apply H. lia.
  - rewrite nth_error_insert_at_eq by lia. auto.
  - rewrite nth_error_insert_at_gt by lia. rewrite H3 by lia. apply H. lia.
Qed.

Lemma holds_remove : forall d d' off (l : list cslot) pos,
  pos < length l ->
  (forall j, j < pos -> nth_error d' (off + j) = nth_error d (off + j)) ->
  (forall j, pos <= j -> S j < length l -> nth_error d' (off + j) = nth_error d (off + S j)) ->
  holds d off l -> holds d' off (remove_at pos l).
Proof.
  intros d d' off l pos Hp H1 H2 H i Hi. rewrite length_remove_at in Hi by auto.
  destruct (Nat.lt_ge_cases i pos) as [Hlt|Hge].
  - rewrite nth_error_remove_at_lt by lia. rewrite H1 by auto. apply H. lia.
  - rewrite nth_error_remove_at_ge by lia. rewrite H2 by lia. apply H. lia.
Qed.

Lemma holds_set : forall d d' off (l : list cslot) pos x,
  pos < length l ->
  (forall j, j <> pos -> j < length l -> nth_error d' (off + j) = nth_error d (off + j)) ->
  nth_error d' (off + pos) = Some x ->
  holds d off l -> holds d' off (set_nth pos x l).
Proof.
  intros d d' off l pos x Hp H1 H2 H i Hi. rewrite length_set_nth in Hi.
  destruct (Nat.eq_dec i pos) as [->|ne].
  - rewrite nth_error_set_nth_same by auto. auto.
  - rewrite nth_error_set_nth_other by auto. rewrite H1 by auto. apply H. auto.
Qed.

Lemma holds_same : forall d d' off (l : list cslot),
  (forall j, j < length l -> nth_error d' (off + j) = nth_error d (off + j)) ->
  holds d off l -> holds d' off l.
Proof. intros d d' off l H1 H i Hi. rewrite H1 by auto. apply H. auto. Qed.

(* pointwise description of the node arrays through a loop: same metadata, same length *)
Definition same_meta (n n' : cnode) : Prop :=
  nid n' = nid n /\ nty n' = nty n /\ ncap n' = ncap n /\ nk n' = nk n /\ next n' = next n /\
  length (data n') = length (data n).

Lemma same_meta_refl : forall n, same_meta n n.
Proof. intros. unfold same_meta. repeat split; auto. Qed.

Lemma same_meta_trans : forall a b c, same_meta a b -> same_meta b c -> same_meta a c.
Proof. unfold same_meta. intros a b c H1 H2. intuition congruence. Qed.

Lemma same_meta_set : forall n i s, same_meta n (with_data n (set_nth i s (data n))).
Proof. intros. unfold same_meta. autorewrite with nodeproj. repeat split; auto. Qed.

(* case analysis on every boolean comparison of the goal, then arithmetic *)
Ltac bcases :=
  repeat match goal with
  | |- context [Nat.ltb ?a ?b] => destruct (Nat.ltb_spec a b)
  | |- context [Nat.leb ?a ?b] => destruct (Nat.leb_spec a b)
  | |- context [Nat.eqb ?a ?b] => destruct (Nat.eqb_spec a b)
  end;
  cbn [andb orb negb]; try reflexivity; try (exfalso; lia); try (f_equal; lia).

