(* Abstract specification of the operation language of C/Run.v: dict semantics on sorted
   association lists (Common/AMap.v), the iterator protocol, and the wrapper methods.

   The abstract state is the mapping (and the copy made by [WCopy]) plus, per iterator
   handle, whether the mapping has been modified since the iterator was created, the
   number of entries handed out so far and the iterator kind.  [spec_step] gives the
   answer every call must return:
     - assignment inserts or overwrites (the key object stored FIRST is kept, like dict),
       lookup / deletion of an absent key answer KeyError, membership and len are those of
       the list, keys()/items()/iteration list the entries in ascending key order;
     - next() on an iterator created before the last modification answers RuntimeError;
       otherwise it answers the next entry in order, then StopIteration for ever;
     - get / values / clear / pop / popitem / setdefault / update / copy are dict's
       (popitem returns and removes SOME entry of the mapping: here the first one);
     - `capacity` of the wrapper is the constant 8.
   Definitions only. *)
From BPT Require Import Common.Base Common.AMap C.Node C.Tree C.Run C.PInv.
Set Implicit Arguments.

Notation amap := (list (key * key)).

Record aiter := mkAIter { ai_valid : bool; ai_pos : nat; ai_inc : bool }.

Record astate := mkA {
  a_map : option amap;
  a_copy : option amap;
  a_iters : list (nat * aiter) }.

Definition a_init (capacity : Z) : astate * out :=
  if Z.ltb capacity 4 then (mkA None None [], UValueError)
  else if Z.ltb 65535 capacity then (mkA None None [], UValueError)
  else (mkA (Some []) None [], UNone).

Fixpoint ai_lookup (l : list (nat * aiter)) (h : nat) : option aiter :=
  match l with
  | [] => None
  | (h', it) :: l' => if Nat.eqb h h' then Some it else ai_lookup l' h
  end.
Fixpoint ai_remove (l : list (nat * aiter)) (h : nat) : list (nat * aiter) :=
  match l with
  | [] => []
  | (h', it) :: l' => if Nat.eqb h h' then ai_remove l' h else (h', it) :: ai_remove l' h
  end.
Definition ai_store (l : list (nat * aiter)) (h : nat) (it : aiter) : list (nat * aiter) :=
  (h, it) :: ai_remove l h.

(* a modification of the mapping makes every existing iterator stale *)
Definition invalidate (l : list (nat * aiter)) : list (nat * aiter) :=
  map (fun e => (fst e, mkAIter false (ai_pos (snd e)) (ai_inc (snd e)))) l.

Definition m_update_all (m : amap) (l : list (key * key)) : amap :=
  fold_left (fun m e => m_insert m (fst e) (snd e)) l m.

(* the mapping changes: all iterators become stale *)
Definition modified (a : astate) (m' : amap) : astate :=
  mkA (Some m') (a_copy a) (invalidate (a_iters a)).

Definition spec_step (a : astate) (o : op) : astate * out :=
  match a_map a with
  | None => (a, UNoTree)
  | Some m =>
    match o with
    | OSet k v => (modified a (m_insert m k v), UNone)
    | OGet z => (a, match m_get m z with Some v => UVal v | None => UKeyError end)
    | ODel z =>
        match m_get m z with
        | Some _ => (modified a (m_remove m z), UNone)
        | None => (a, UKeyError)
        end
    | OIn z => (a, UBool (is_some (m_get m z)))
    | OLen => (a, UNat (length m))
    | OKeys => (a, UKeys (map fst m))
    | OItems => (a, UItems m)
    | OItNew h inc =>
        (mkA (a_map a) (a_copy a) (ai_store (a_iters a) h (mkAIter true 0 inc)), UNone)
    | OItNext h =>
        match ai_lookup (a_iters a) h with
        | None => (a, UNoIter)
        | Some it =>
            if ai_valid it then
              match nth_error m (ai_pos it) with
              | Some (k, v) =>
                  (mkA (a_map a) (a_copy a)
                       (ai_store (a_iters a) h (mkAIter true (S (ai_pos it)) (ai_inc it))),
                   if ai_inc it then UItem k v else UKey k)
              | None => (mkA (a_map a) (a_copy a) (ai_store (a_iters a) h it), UStop)
              end
            else (mkA (a_map a) (a_copy a) (ai_store (a_iters a) h it), URuntimeError)
        end
    | OItDrop h => (mkA (a_map a) (a_copy a) (ai_remove (a_iters a) h), UNone)
    | WGet z d => (a, UVal (match m_get m z with Some v => v | None => d end))
    | WValues => (a, UVals (map snd m))
    | WClear =>
        (match m with [] => a | _ :: _ => modified a [] end, UNone)
    | WPop z d =>
        match m_get m z with
        | Some v => (modified a (m_remove m z), UVal v)
        | None => (a, match d with Some dv => UVal dv | None => UKeyError end)
        end
    | WPopitem =>
        match m with
        | [] => (a, UKeyError)
        | (k, v) :: m' => (modified a m', UItem k v)
        end
    | WSetdefault k d =>
        match m_get m (kz k) with
        | Some v => (a, UVal v)
        | None => (modified a (m_insert m k d), UVal d)
        end
    | WUpdate l =>
        (match l with [] => a | _ :: _ => modified a (m_update_all m l) end, UNone)
    | WCopy => (mkA (a_map a) (Some m) (a_iters a), UNone)
    | WSwap =>
        match a_copy a with
        | None => (a, UNoTree)
        | Some c => (mkA (Some c) (Some m) [], UNone)
        end
    | WCapacity => (a, UNat 8)
    end
  end.

Fixpoint spec_run (a : astate) (ops : list op) : astate * list out :=
  match ops with
  | [] => (a, [])
  | o :: ops' =>
      let '(a1, x) := spec_step a o in
      let '(a2, xs) := spec_run a1 ops' in (a2, x :: xs)
  end.

(* no memory error among the outcomes *)
Definition is_mem_error (x : out) : bool :=
  match x with UOOB _ | UNullDeref _ | UFuel => true | _ => false end.
