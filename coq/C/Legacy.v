(* The two reference-count defects of the C sources as they were BEFORE the repair,
   modelled only to show that the reference-count property rules them out
   (`_refuted` examples, evaluated in Coq).  Nothing here is used by the property theorems.

   D6 (node_ops.c, leaf split): every key and value copied into the temporary arrays —
       the existing ones too — got a Py_INCREF, although the references the node already
       held simply move with the items: one leaked reference per item per split.
   D7 (tree_ops.c, node_insert_branch): the separator handed up by a child split (an OWNED
       reference) got a further Py_INCREF when it was stored: one leaked reference per
       branch insertion. *)
From Coq Require Import List ZArith NArith Bool.
From BPT Require Import Common.Base Common.AMap Rust.Tree C.Node C.Tree C.Run C.Abs C.PInv C.Examples.
Import ListNotations.

(* Py_INCREF of every entry of a temporary array *)
Fixpoint incref_all (rc : rcmap) (l : list cslot) : res rcmap :=
  match l with
  | [] => Ok rc
  | s :: l' => do o <- as_obj 10 s; incref_all (incref rc o) l'
  end.

(* node_insert_leaf, split path, with the defect: the rest is C/Node.v verbatim *)
Definition node_insert_leaf_split_legacy (al : N) (rc : rcmap) (n : cnode) (k v : key)
  : res (cnode * rcmap * N * ins_out) :=
  do pos <- node_find_position n (kz k);
  let cap := ncap n in
  let new0 := node_create al NLeaf cap in
  let tk0 := repeat (@SNull cnode) (cap + 1) in
  let tv0 := repeat (@SNull cnode) (cap + 1) in
  do t1 <- for_up pos 0 (leaf_to_temp n 0) (tk0, tv0);
  do tk2 <- arr_set 7 (fst t1) pos (SObj k);
  do tv2 <- arr_set 8 (snd t1) pos (SObj v);
  do t3 <- for_up (nk n - pos) pos (leaf_to_temp n 1) (tk2, tv2);
  let '(tk, tv) := t3 in
  let mid := cap / 2 in
  do rcA <- incref_all rc tk;                (* <-- the defect *)
  do rc1 <- incref_all rcA tv;               (* <-- the defect *)
  let n1 := with_nk n mid in
  do n2 <- for_up mid 0 (leaf_from_temp tk tv 0) n1;
  do n3 <- for_up (cap - mid) mid leaf_null n2;
  let total := cap + 1 in
  let new1 := with_nk new0 (total - mid) in
  do new2 <- for_up (nk new1) 0 (leaf_from_temp tk tv mid) new1;
  let new3 := with_next new2 (next n3) in
  let n4 := with_next n3 (nid new3) in
  do sk <- get_key new3 0;
  do sko <- as_obj 10 sk;
  Ok (n4, incref rc1 sko, N.succ al, IOSplit new3 sko).

(* a full leaf of capacity 4 holding keys 1..4, built by the real model *)
Definition full_leaf_state : cstate :=
  fst (run (fst (st_init 4)) (map (fun z => OSet (exK z) (exV z)) [1; 2; 3; 4]%Z)).

(* D6: after the defective split the object of key 1 is counted twice although exactly one
   slot holds it; with the repaired code (C/Node.v) the count is 1 *)
Example c_leaf_split_leak_refuted :
  match st_tree full_leaf_state with
  | Some t =>
      match node_insert_leaf_split_legacy (next_id t) (st_rc full_leaf_state) (root t) (exK 5) (exV 5),
            node_insert_leaf (next_id t) (st_rc full_leaf_state) (root t) (exK 5) (exV 5) with
      | Ok (l, rc_legacy, _, IOSplit r sep), Ok (l', rc_fixed, _, IOSplit r' sep') =>
          (rc_get rc_legacy (kid (exK 1)), rc_get rc_fixed (kid (exK 1)),
           cnt (prefs (abs l) ++ kid sep :: prefs (abs r)) (kid (exK 1)),
           cnt (prefs (abs l') ++ kid sep' :: prefs (abs r')) (kid (exK 1)))
      | _, _ => (0, 0, 0, 0)%Z
      end
  | None => (0, 0, 0, 0)%Z
  end = (2, 1, 1, 1)%Z.
Proof. vm_compute. reflexivity. Qed.

(* D7: a branch insertion.  Keys 1..6 at capacity 4 give a root with the leaves [1,2] and
   [3,4,5,6]; inserting 7 splits the second leaf and hands the separator 5 up to the root.
   The defective node_insert_branch did Py_INCREF(key) before storing it. *)
Definition branch_state : cstate :=
  fst (run (fst (st_init 4)) (map (fun z => OSet (exK z) (exV z)) [1; 2; 3; 4; 5; 6]%Z)).

Definition tree_insert_branch_legacy (t : ctree) (rc : rcmap) (k v : key) : res (cnode * rcmap) :=
  (* one level: the root is a branch whose child is a leaf *)
  do pos <- route (root t) (kz k);
  do cs <- get_child (root t) pos;
  do c <- as_kid 12 cs;
  do r <- node_insert_leaf (next_id t) rc c k v;
  let '(c', rc', al', io) := r in
  do n1 <- set_child (root t) pos (SKid c');
  match io with
  | IOSplit newc sk =>
      do r2 <- node_insert_branch al' n1 sk newc;
      Ok (fst (fst r2), incref rc' sk)         (* <-- the defect: Py_INCREF(key) *)
  | _ => Ok (n1, rc')
  end.

Example c_branch_insert_leak_refuted :
  match st_tree branch_state with
  | Some t =>
      match tree_insert_branch_legacy t (st_rc branch_state) (exK 7) (exV 7),
            tree_insert t (st_rc branch_state) (exK 7) (exV 7) with
      | Ok (rt, rc_legacy), Ok (t', rc_fixed) =>
          (rc_get rc_legacy (kid (exK 5)), cnt (prefs (abs rt)) (kid (exK 5)),
           rc_get rc_fixed (kid (exK 5)), cnt (prefs (abs (root t'))) (kid (exK 5)))
      | _, _ => (0, 0, 0, 0)%Z
      end
  | None => (0, 0, 0, 0)%Z
  end = (3, 2, 2, 2)%Z.
Proof. vm_compute. reflexivity. Qed.
