(* Model of the tree layer (tree_ops.c) and of the Python type (bplustree_module.c):
   tree_find_leaf / tree_get, tree_insert_recursive / tree_insert, tree_delete,
   BPlusTree_init / _dealloc / _getitem / _setitem / _delitem / _length / _contains and
   the iterator type.  Definitions only. *)
From BPT Require Import Common.Base C.Node.
Set Implicit Arguments.

(* BPlusTree object.  [leaves] is the address kept in tree->leaves (the first leaf ever
   created; only the dump hook reads it); [next_id] is the allocator state of the model
   (next unused node address). *)
Record ctree := mkTree {
  root : cnode;
  leaves : N;
  tcap : nat;
  size : nat;
  modc : nat;
  next_id : N }.

Definition MIN_CAPACITY : Z := 4%Z.
Definition DEFAULT_CAPACITY : nat := 8.
Definition UINT16_MAX : Z := 65535%Z.

(* BPlusTree_init(capacity : C int): None = ValueError *)
Definition tree_init (capacity : Z) : option ctree :=
  if Z.ltb capacity MIN_CAPACITY then None
  else if Z.ltb UINT16_MAX capacity then None
  else let c := Z.to_nat capacity in
       Some (mkTree (node_create 1%N NLeaf c) 1%N c 0 0 2%N).

(* Fuel for every recursive function of this file.  Nodes are never freed before the
   tree dies and every node_create consumes one address, so [next_id - 1] is the number
   of nodes of the tree: an upper bound of its height and of the length of the leaf
   chain (invariant [CInv], C/PInv.v). *)
Definition fuel_of (t : ctree) : nat := S (N.to_nat (next_id t)).

(* bisect_right routing used by tree_find_leaf and tree_insert_recursive *)
Definition route (n : cnode) (z : Z) : res nat :=
  do pos <- node_find_position n z;
  if Nat.ltb pos (nk n) then
    do s <- get_key n pos;
    do o <- as_obj 10 s;
    Ok (if Z.eqb (kz o) z then S pos else pos)
  else Ok pos.

(* tree_find_leaf followed by node_get (tree_get) *)
Fixpoint tget (fuel : nat) (rc : rcmap) (n : cnode) (z : Z) : res (rcmap * option obj) :=
  match fuel with
  | O => OutOfFuel
  | S f =>
      match nty n with
      | NLeaf => node_get rc n z
      | NBranch =>
          do pos <- route n z;
          do cs <- get_child n pos;
          do c <- as_kid 12 cs;
          tget f rc c z
      end
  end.

Definition tree_get (t : ctree) (rc : rcmap) (z : Z) : res (rcmap * option obj) :=
  tget (fuel_of t) rc (root t) z.

(* tree_insert_recursive *)
Fixpoint tins (fuel : nat) (al : N) (rc : rcmap) (n : cnode) (k v : obj)
  : res (cnode * rcmap * N * ins_out) :=
  match fuel with
  | O => OutOfFuel
  | S f =>
      match nty n with
      | NLeaf => node_insert_leaf al rc n k v
      | NBranch =>
          do pos <- route n (kz k);
          do cs <- get_child n pos;
          do c <- as_kid 12 cs;
          do r <- tins f al rc c k v;
          let '(c', rc', al', io) := r in
          do n1 <- set_child n pos (SKid c');      (* write-back (model artefact) *)
          match io with
          | IOUpdated => Ok (n1, rc', al', IOUpdated)
          | IONoSplit => Ok (n1, rc', al', IONoSplit)
          | IOSplit newc sk =>
              do r2 <- node_insert_branch al' n1 sk newc;
              let '(n2, al2, io2) := r2 in Ok (n2, rc', al2, io2)
          end
      end
  end.

(* tree_insert *)
Definition tree_insert (t : ctree) (rc : rcmap) (k v : obj) : res (ctree * rcmap) :=
  do r <- tins (fuel_of t) (next_id t) rc (root t) k v;
  let '(rt, rc', al, io) := r in
  match io with
  | IOUpdated => Ok (mkTree rt (leaves t) (tcap t) (size t) (S (modc t)) al, rc')
  | IONoSplit => Ok (mkTree rt (leaves t) (tcap t) (S (size t)) (S (modc t)) al, rc')
  | IOSplit newn sk =>
      let nr0 := node_create al NBranch (tcap t) in
      do nr1 <- set_child nr0 0 (SKid rt);
      do nr2 <- set_key nr1 0 (SObj sk);
      do nr3 <- set_child nr2 1 (SKid newn);
      Ok (mkTree (with_nk nr3 1) (leaves t) (tcap t) (S (size t)) (S (modc t)) (N.succ al), rc')
  end.

(* tree_find_leaf followed by node_delete, written back along the path *)
Fixpoint tdel (fuel : nat) (rc : rcmap) (n : cnode) (z : Z) : res (cnode * rcmap * bool) :=
  match fuel with
  | O => OutOfFuel
  | S f =>
      match nty n with
      | NLeaf => node_delete rc n z
      | NBranch =>
          do pos <- route n z;
          do cs <- get_child n pos;
          do c <- as_kid 12 cs;
          do r <- tdel f rc c z;
          let '(c', rc', b) := r in
          do n1 <- set_child n pos (SKid c');      (* write-back (model artefact) *)
          Ok (n1, rc', b)
      end
  end.

(* BPlusTree_delitem (tree_delete + the second modification_count++): false = KeyError *)
Definition tree_delitem (t : ctree) (rc : rcmap) (z : Z) : res (ctree * rcmap * bool) :=
  do r <- tdel (fuel_of t) rc (root t) z;
  let '(rt, rc', b) := r in
  if (b : bool) then
    Ok (mkTree rt (leaves t) (tcap t) (size t - 1) (S (S (modc t))) (next_id t), rc', true)
  else Ok (mkTree rt (leaves t) (tcap t) (size t) (modc t) (next_id t), rc', false).

(* BPlusTree_contains: tree_get, Py_DECREF of the value, PyErr_Clear *)
Definition tree_contains (t : ctree) (rc : rcmap) (z : Z) : res (rcmap * bool) :=
  do r <- tree_get t rc z;
  match snd r with
  | Some v => Ok (decref (fst r) v, true)
  | None => Ok (fst r, false)
  end.

Definition tree_length (t : ctree) : nat := size t.

(* BPlusTree_dealloc: BPlusTree_clear (Py_CLEAR of everything), then node_destroy *)
Definition tree_dealloc (t : ctree) (rc : rcmap) : res rcmap :=
  do r <- node_gc_clear (fuel_of t) rc (root t);
  node_destroy (fuel_of t) (snd r) (fst r).

(* ------------------------------------------------------------------ *)
(* pointer dereference for the addresses kept outside the tree (tree->leaves,
   iterator->current_node, leaf->next): find the node with that address *)
Fixpoint find_node (fuel : nat) (n : cnode) (id : N) : option cnode :=
  if N.eqb (nid n) id then Some n else
  match fuel with
  | O => None
  | S f =>
      match nty n with
      | NLeaf => None
      | NBranch =>
          (fix go (l : list cslot) : option cnode :=
             match l with
             | [] => None
             | SKid c :: l' =>
                 match find_node f c id with Some x => Some x | None => go l' end
             | _ :: l' => go l'
             end) (firstn (S (nk n)) (skipn (ncap n) (data n)))
      end
  end.

(* site 20: a node pointer held outside the tree does not point to a node of the tree *)
Definition deref (t : ctree) (id : N) : res cnode :=
  match find_node (fuel_of t) (root t) id with Some n => Ok n | None => Panic 20 end.

(* ------------------------------------------------------------------ *)
(* BPlusTreeIterator *)
Record citer := mkIter {
  it_cur : N;           (* current_node (0 = NULL) *)
  it_idx : nat;         (* current_index *)
  it_inc : bool;        (* include_values *)
  it_stamp : nat }.     (* modification_count at creation *)

(* descend through child 0 to the first leaf *)
Fixpoint first_leaf (fuel : nat) (n : cnode) : res N :=
  match fuel with
  | O => OutOfFuel
  | S f =>
      match nty n with
      | NLeaf => Ok (nid n)
      | NBranch =>
          do cs <- get_child n 0;
          match cs with
          | SNull => Ok 0%N
          | SKid c => first_leaf f c
          | SObj _ => Panic 12
          end
      end
  end.

(* BPlusTree_iter / _keys (inc = false), BPlusTree_items (inc = true) *)
Definition iter_new (t : ctree) (inc : bool) : res citer :=
  do fl <- first_leaf (fuel_of t) (root t);
  Ok (mkIter fl 0 inc (modc t)).

Inductive next_out : Type :=
| NKey (k : obj)                 (* new reference to the key *)
| NItem (k v : obj)              (* new tuple holding new references to key and value *)
| NStop
| NRuntimeError.

(* while (cur && cur->num_keys == 0) cur = cur->next *)
Fixpoint skip_empty (fuel : nat) (t : ctree) (cur : N) : res N :=
  if N.eqb cur 0 then Ok 0%N else
  match fuel with
  | O => OutOfFuel
  | S f =>
      do l <- deref t cur;
      if Nat.eqb (nk l) 0 then skip_empty f t (next l) else Ok cur
  end.

(* BPlusTreeIterator_next *)
Definition iter_next (t : ctree) (rc : rcmap) (it : citer) : res (citer * rcmap * next_out) :=
  if negb (Nat.eqb (it_stamp it) (modc t)) then Ok (it, rc, NRuntimeError)
  else if N.eqb (it_cur it) 0 then Ok (it, rc, NStop)
  else
    do cur1 <- skip_empty (fuel_of t) t (it_cur it);
    if N.eqb cur1 0 then Ok (mkIter 0 (it_idx it) (it_inc it) (it_stamp it), rc, NStop)
    else
      do l1 <- deref t cur1;
      do pos <-
        (if Nat.leb (nk l1) (it_idx it) then
           do cur2 <- skip_empty (fuel_of t) t (next l1);
           Ok (cur2, 0)
         else Ok (cur1, it_idx it));
      let '(cur, idx) := pos in
      if N.eqb cur 0 then Ok (mkIter 0 (it_idx it) (it_inc it) (it_stamp it), rc, NStop)
      else
        do l <- deref t cur;
        do ks <- get_key l idx;
        if it_inc it then
          do vs <- get_value l idx;
          do k <- as_obj 10 ks;
          do v <- as_obj 11 vs;
          Ok (mkIter cur (S idx) true (it_stamp it), incref (incref rc k) v, NItem k v)
        else
          do k <- as_obj 10 ks;
          Ok (mkIter cur (S idx) false (it_stamp it), incref rc k, NKey k).

(* ------------------------------------------------------------------ *)
(* the _verif_dump hook's chain: num_keys of every leaf reached from tree->leaves *)
Fixpoint chain_counts (fuel : nat) (t : ctree) (cur : N) : res (list nat) :=
  if N.eqb cur 0 then Ok [] else
  match fuel with
  | O => OutOfFuel
  | S f =>
      do l <- deref t cur;
      do r <- chain_counts f t (next l);
      Ok (nk l :: r)
  end.

Definition tree_chain (t : ctree) : res (list nat) :=
  chain_counts (fuel_of t) t (leaves t).
