(* The list-level delete [p_del] and lookup [p_get] (C/Abs.v): delete removes the entry
   from its leaf and changes nothing else (no rebalancing: leaves may become empty, the
   separators, the chain and the addresses stay as they are); both refine the sorted
   association list. *)
From Coq Require Import List Arith ZArith NArith Lia Bool Permutation.
From BPT Require Import Common.Base Common.AMap Rust.Tree Rust.Readers Rust.InvDefs Rust.Lib
  Rust.TreeFactsI Rust.InsertLocal C.Node C.Tree C.Abs C.ArrLib C.PInv C.PFacts.
Import ListNotations.
Set Implicit Arguments.

(* ------------------------------------------------------------------ *)
(* list surgery *)
Lemma perm_remove_at : forall (A : Type) i (l : list A) x, nth_error l i = Some x ->
  Permutation l (x :: remove_at i l).
Proof.
  induction i as [|i IH]; intros l x H; destruct l as [|y l]; cbn [nth_error] in H;
    try discriminate.
  - inversion H; subst. cbn [remove_at]. apply Permutation_refl.
  - cbn [remove_at]. eapply Permutation_trans; [|apply perm_swap].
    apply perm_skip. apply IH. exact H.
Qed.

Lemma cnt_map_remove_at : forall i (l : list key) x o, nth_error l i = Some x ->
  cnt (map kid (remove_at i l)) o =
  (cnt (map kid l) o - (if N.eqb o (kid x) then 1 else 0))%Z.
Proof.
  intros i l x o H.
  rewrite (@cnt_perm (map kid l) (map kid (x :: remove_at i l)) o).
  - cbn [map]. rewrite cnt_cons. lia.
  - apply Permutation_map. apply perm_remove_at. exact H.
Qed.

Lemma nth_obj_nth_error : forall (l : list key) i x, nth_error l i = Some x -> nth_obj l i = x.
Proof. intros l i x H. unfold nth_obj. apply nth_error_nth. exact H. Qed.

Lemma map_set_nth_same : forall (A B : Type) (f : A -> B) i (c c' : A) cs,
  nth_error cs i = Some c -> f c' = f c -> map f (set_nth i c' cs) = map f cs.
Proof.
  induction i as [|i IH]; intros c c' cs H E; destruct cs as [|y cs]; cbn [nth_error] in H;
    try discriminate; cbn [set_nth map].
  - inversion H; subst. rewrite E. reflexivity.
  - f_equal. eapply IH; eauto.
Qed.

(* ------------------------------------------------------------------ *)
(* delete in a leaf *)
Lemma p_del_leaf_spec : forall rc id c ks vs nx z cap lo hi,
  ord lo hi (PLeaf id c ks vs nx) -> cshape cap 0 (PLeaf id c ks vs nx) ->
  exists t' rc' b, p_del_leaf rc id c ks vs nx z = (t', rc', b) /\
    ord lo hi t' /\ cshape cap 0 t' /\
    contents t' = m_remove (contents (PLeaf id c ks vs nx)) z /\
    b = is_some (m_get (contents (PLeaf id c ks vs nx)) z) /\
    leaf_links t' = leaf_links (PLeaf id c ks vs nx) /\
    all_ids t' = all_ids (PLeaf id c ks vs nx) /\
    node_count t' = node_count (PLeaf id c ks vs nx) /\
    (forall o, rc_get rc' o =
       rc_get rc o + cnt (prefs t') o - cnt (prefs (PLeaf id c ks vs nx)) o)%Z.
Proof.
  intros rc id c ks vs nx z cap lo hi O Sh.
  destruct (ord_leaf_inv O) as (Hs & F).
  destruct (cshape_leaf_inv Sh) as (_ & -> & Lv & Lc).
  unfold p_del_leaf. destruct (bfound ks z) eqn:Ef.
  - destruct (bfound_true _ _ Ef) as (k0 & Hk0 & Hz).
    assert (Hlt : lb ks z < length ks) by (apply nth_error_Some; congruence).
    destruct (nth_error vs (lb ks z)) as [v0|] eqn:Ev; [|apply nth_error_None in Ev; lia].
    eexists _, _, _. split; [reflexivity|].
    split; [|split; [|split; [|split; [|split; [|split; [|split]]]]]].
    + constructor; [apply sorted_keys_remove_at; exact Hs|].
      apply Forall_forall. intros x Hx. rewrite Forall_forall in F. apply F.
      eapply Lib_in_remove_at. exact Hx.
    + constructor; rewrite !length_remove_at by lia; lia.
    + cbn [contents]. apply leaf_remove; auto.
    + cbn [contents]. rewrite leaf_get by auto. rewrite Ef, Ev. reflexivity.
    + reflexivity.
    + reflexivity.
    + reflexivity.
    + intros o. rewrite !rc_get_decref. cbn [prefs]. rewrite !cnt_app.
      rewrite (cnt_map_remove_at _ _ o Hk0), (cnt_map_remove_at _ _ o Ev).
      rewrite (nth_obj_nth_error _ _ Hk0), (nth_obj_nth_error _ _ Ev). lia.
  - eexists _, _, _. split; [reflexivity|].
    split; [exact O|]. split; [exact Sh|].
    split; [|split; [|split; [|split; [|split]]]]; try reflexivity.
    + cbn [contents]. symmetry. apply m_remove_notin.
      intros [k v] Hin. cbn [fst]. apply in_combine_l in Hin.
      eapply bfound_false; eauto.
    + cbn [contents]. rewrite leaf_get by auto. rewrite Ef. reflexivity.
    + intros o. lia.
Qed.

Lemma p_del_spec : forall fuel rc (t : ptree) z cap h lo hi,
  h < fuel -> ord lo hi t -> cshape cap h t ->
  exists t' rc' b, p_del fuel rc t z = Some (t', rc', b) /\
    ord lo hi t' /\ cshape cap h t' /\
    contents t' = m_remove (contents t) z /\
    b = is_some (m_get (contents t) z) /\
    leaf_links t' = leaf_links t /\ all_ids t' = all_ids t /\ node_count t' = node_count t /\
    (forall o, rc_get rc' o = rc_get rc o + cnt (prefs t') o - cnt (prefs t) o)%Z.
Proof.
  induction fuel as [|f IH]; intros rc t z cap h lo hi Hf O Sh; [lia|].
  destruct t as [id c ks vs nx | id c ks cs].
  - destruct (cshape_leaf_inv Sh) as (-> & _). cbn [p_del].
    destruct (@p_del_leaf_spec rc id c ks vs nx z cap lo hi O Sh) as (t' & rc' & b & E & R).
    exists t', rc', b. split; [rewrite E; reflexivity|exact R].
  - destruct (cshape_branch_inv Sh) as (h' & -> & -> & Lc & Lk & Hsh).
    destruct (ord_branch_inv O) as (Hs & F & Hc).
    destruct (@branch_contents_split_c lo hi id cap ks cs cap (S h') z O Sh) as (HB & HA).
    pose proof (child_index_le_length ks z) as Hci.
    cbn [p_del]. set (ci := child_index ks z) in *.
    destruct (nth_error cs ci) as [ch|] eqn:Ec; [|apply nth_error_None in Ec; lia].
    assert (Hin : In ch cs) by (eapply nth_error_In; exact Ec).
    assert (Hlt : ci < length cs) by lia.
    assert (Hf' : h' < f) by lia.
    destruct (IH rc ch z cap h' _ _ Hf' (Hc ci ch Ec) (Hsh ch Hin))
      as (c' & rc' & b & E & O' & Sh' & Ct & Hb & Lk' & Ids & Nc & Rc).
    rewrite E. exists (PBranch id cap ks (set_nth ci c' cs)), rc', b.
    split; [reflexivity|].
    split; [|split; [|split; [|split; [|split; [|split; [|split]]]]]].
    + apply ord_set_child; auto.
    + constructor; rewrite ?length_set_nth; auto.
      intros x Hx. apply In_set_nth in Hx. destruct Hx as [->|Hx]; auto.
    + cbn [contents]. rewrite flat_map_set_nth by exact Hlt.
      rewrite (flat_map_nth_split (@contents key) ci cs Ec).
      rewrite m_remove_app_r by exact HB. rewrite m_remove_app_l by exact HA.
      rewrite Ct. reflexivity.
    + cbn [contents]. rewrite (flat_map_nth_split (@contents key) ci cs Ec).
      rewrite m_get_app_r by exact HB. rewrite m_get_app_l by exact HA. exact Hb.
    + cbn [leaf_links]. rewrite flat_map_set_nth by exact Hlt.
      rewrite (flat_map_nth_split (@leaf_links key) ci cs Ec). rewrite Lk'. reflexivity.
    + cbn [all_ids]. rewrite flat_map_set_nth by exact Hlt.
      rewrite (flat_map_nth_split all_ids ci cs Ec). rewrite Ids. reflexivity.
    + cbn [node_count]. rewrite (@map_set_nth_same _ _ node_count ci ch c' cs Ec Nc). reflexivity.
    + intros o. cbn [prefs]. rewrite !cnt_app. rewrite flat_map_set_nth by exact Hlt.
      rewrite (flat_map_nth_split prefs ci cs Ec). rewrite !cnt_app. rewrite Rc. lia.
Qed.

Lemma p_get_spec : forall fuel (t : ptree) z cap h lo hi,
  h < fuel -> ord lo hi t -> cshape cap h t ->
  p_get fuel t z = Some (m_get (contents t) z).
Proof.
  induction fuel as [|f IH]; intros t z cap h lo hi Hf O Sh; [lia|].
  destruct t as [id c ks vs nx | id c ks cs].
  - destruct (ord_leaf_inv O) as (Hs & F).
    destruct (cshape_leaf_inv Sh) as (_ & _ & Lv & Lc).
    cbn [p_get contents]. rewrite leaf_get by auto. f_equal.
    destruct (bfound ks z) eqn:Ef; [|reflexivity].
    destruct (bfound_true _ _ Ef) as (k0 & Hk0 & Hz).
    assert (Hlt : lb ks z < length ks) by (apply nth_error_Some; congruence).
    destruct (nth_error vs (lb ks z)) as [v0|] eqn:Ev; [|apply nth_error_None in Ev; lia].
    rewrite (nth_obj_nth_error _ _ Ev). reflexivity.
  - destruct (cshape_branch_inv Sh) as (h' & -> & -> & Lc & Lk & Hsh).
    destruct (ord_branch_inv O) as (Hs & F & Hc).
    destruct (@branch_contents_split_c lo hi id cap ks cs cap (S h') z O Sh) as (HB & HA).
    pose proof (child_index_le_length ks z) as Hci.
    cbn [p_get]. set (ci := child_index ks z) in *.
    destruct (nth_error cs ci) as [ch|] eqn:Ec; [|apply nth_error_None in Ec; lia].
    assert (Hin : In ch cs) by (eapply nth_error_In; exact Ec).
    assert (Hf' : h' < f) by lia.
    rewrite (IH ch z cap h' _ _ Hf' (Hc ci ch Ec) (Hsh ch Hin)).
    cbn [contents]. rewrite (flat_map_nth_split (@contents key) ci cs Ec).
    rewrite m_get_app_r by exact HB. rewrite m_get_app_l by exact HA. reflexivity.
Qed.
