(* Vocabulary for the iterator theorems (definitions only).
   An iterator (current_node, current_index) created on a tree that has not been modified
   since stands at a POSITION p of the sorted entry list of the tree: the entries of the
   leaves before its current leaf plus its index; a NULL current_node means "exhausted". *)
From Coq Require Import List Arith ZArith NArith Lia Bool.
From BPT Require Import Common.Base Common.AMap Rust.Tree C.Node C.Tree C.Abs C.PInv.
Import ListNotations.
Set Implicit Arguments.

(* the leaves in left-to-right order *)
Fixpoint pleaves (t : ptree) : list ptree :=
  match t with
  | PLeaf _ _ _ _ _ => [t]
  | PBranch _ _ _ cs => flat_map pleaves cs
  end.

Definition entries_before (L : list ptree) (i : nat) : nat :=
  length (flat_map (@contents key) (firstn i L)).

(* iterator state (cur, idx) stands at position p of [contents t] *)
Definition it_at (t : ptree) (cur : N) (idx : nat) (p : nat) : Prop :=
  (cur = 0%N /\ p = length (contents t)) \/
  (exists i l, nth_error (pleaves t) i = Some l /\ pid l = cur /\ cur <> 0%N /\
               idx <= length (pkeys l) /\ p = entries_before (pleaves t) i + idx).

(* what next() must hand out at position p *)
Definition expected_out (m : list (key * key)) (inc : bool) (p : nat) : next_out :=
  match nth_error m p with
  | Some (k, v) => if inc then NItem k v else NKey k
  | None => NStop
  end.

Definition expected_rc (rc : rcmap) (o : next_out) : rcmap :=
  match o with
  | NKey k => incref rc k
  | NItem k v => incref (incref rc k) v
  | _ => rc
  end.
