(* Array level = list level for the recursive tree operations (tree_ops.c):
   tree_insert_recursive / tree_insert, tree_find_leaf + node_delete, tree_get. *)
From Coq Require Import List Arith ZArith NArith Lia Bool.
From BPT Require Import Common.Base Common.AMap Rust.Tree Rust.Lib Rust.TreeFactsI Rust.InsertLocal
  C.Node C.Tree C.Abs C.ArrLib C.AbsFacts C.SimBase C.SimLeaf C.SimBranch.
Import ListNotations.
Set Implicit Arguments.

(* [Some (a, b, c) = Some (x, y, z)] with variables x y z: substitute without simplifying a b c *)
Ltac inj3 E :=
  match type of E with
  | Some (?a, ?b, ?c) = Some (?x, ?y, ?z) =>
      let H := fresh in
      assert (H : x = a /\ y = b /\ z = c) by (repeat split; congruence);
      destruct H as (-> & -> & ->); clear E
  end.

Lemma wf_set_child : forall cap (cs : list cnode) i c',
  (forall c, In c cs -> wf cap c) -> wf cap c' -> forall c, In c (set_nth i c' cs) -> wf cap c.
Proof. intros cap cs i c' H Hc' c Hin. apply In_set_nth in Hin. destruct Hin as [->|Hin]; auto. Qed.

Lemma wf_insert_child : forall cap (cs : list cnode) i c',
  (forall c, In c cs -> wf cap c) -> wf cap c' -> forall c, In c (insert_at i c' cs) -> wf cap c.
Proof. intros cap cs i c' H Hc' c Hin. apply In_insert_at in Hin. destruct Hin as [->|Hin]; auto. Qed.

(* ------------------------------------------------------------------ *)
Lemma sim_ins : forall fuel cap n al rc k v po rc' al',
  4 <= cap -> wf cap n -> nsorted (abs n) ->
  p_ins fuel al rc (abs n) k v = Some (po, rc', al') ->
  exists n' io, tins fuel al rc n k v = Ok (n', rc', al', io) /\ abs_out n' io = po /\ wf cap n' /\
    match io with IOSplit nn _ => wf cap nn | _ => True end.
Proof.
  induction fuel as [|f IH]; intros cap n al rc k v po rc' al' Hcap W NS E; [discriminate|].
  inversion W as [n0 id ks vs nx R | n0 id ks cs R Hc]; subst n0.
  - (* leaf *)
    rewrite (repr_leaf_abs R) in E, NS. apply nsorted_leaf_inv in NS.
    cbn [p_ins] in E. inversion E as [E']. clear E.
    cbn [tins]. rewrite (repr_leaf_nty R).
    pose proof R as (_ & _ & _ & _ & _ & _ & _ & Hle & _).
    unfold p_ins_leaf in E'. destruct (bfound ks (kz k)) eqn:Hf.
    + destruct (@sim_insert_leaf_update cap n id ks vs nx al rc k v R NS Hf) as (n' & En & R').
      inversion E'; subst. exists n', IOUpdated. rewrite En. split; [reflexivity|].
      cbn [abs_out]. rewrite (repr_leaf_abs R'). repeat split; auto. eapply wf_leaf; eauto.
    + destruct (Nat.leb_spec cap (length ks)) as [Hfull|Hroom].
      * assert (Hl : length ks = cap) by lia.
        destruct (@sim_insert_leaf_split cap n id ks vs nx al rc k v Hcap R NS Hf Hl) as (n' & nn & En & R1 & R2).
        cbv zeta in En, R1, R2. inversion E'; subst. exists n'. eexists. rewrite En. split; [reflexivity|].
        cbn [abs_out]. rewrite (repr_leaf_abs R1), (repr_leaf_abs R2).
        repeat split; auto; eapply wf_leaf; eauto.
      * destruct (@sim_insert_leaf_nosplit cap n id ks vs nx al rc k v R NS Hf Hroom) as (n' & En & R').
        inversion E'; subst. exists n', IONoSplit. rewrite En. split; [reflexivity|].
        cbn [abs_out]. rewrite (repr_leaf_abs R'). repeat split; auto. eapply wf_leaf; eauto.
  - (* branch *)
    rewrite (repr_branch_abs R) in E, NS. apply nsorted_branch_inv in NS. destruct NS as (Hs & NSc).
    cbn [p_ins] in E. cbn [tins]. rewrite (repr_branch_nty R).
    rewrite (@sim_route cap n id ks cs (kz k) R Hs). cbn [bind].
    set (pos := child_index ks (kz k)) in *.
    rewrite nth_error_map in E. destruct (nth_error cs pos) as [c|] eqn:Ec; [|discriminate].
    cbn [option_map] in E.
    rewrite (@sim_get_child cap n id ks cs pos c R Ec). cbn [bind as_kid].
    destruct (p_ins f al rc (abs c) k v) as [[[o rc1] al1]|] eqn:Ep; [|discriminate].
    assert (Wc : wf cap c) by (apply Hc; eapply nth_error_In; eauto).
    assert (NSch : nsorted (abs c)) by (apply NSc; apply in_map; eapply nth_error_In; eauto).
    destruct (IH cap c al rc k v o rc1 al1 Hcap Wc NSch Ep) as (c' & io & Et & Eo & Wc' & Wio).
    rewrite Et. cbn [bind].
    assert (Hpos : pos < length cs) by (eapply nth_error_Some_lt; eauto).
    destruct (@sim_set_child cap n id ks cs pos c' R Hpos) as (n1 & En1 & R1).
    rewrite En1. cbn [bind].
    assert (Hc1 : forall ch, In ch (set_nth pos c' cs) -> wf cap ch) by (apply wf_set_child; auto).
    pose proof R as (_ & _ & _ & _ & _ & Hlc & Hle & _).
    destruct io as [| | newc sk]; cbn [abs_out] in Eo; subst o.
    + inversion E; subst. exists n1, IOUpdated. split; [reflexivity|]. cbn [abs_out].
      rewrite (repr_branch_abs R1), map_set_nth. repeat split; auto. eapply wf_branch; eauto.
    + inversion E; subst. exists n1, IONoSplit. split; [reflexivity|]. cbn [abs_out].
      rewrite (repr_branch_abs R1), map_set_nth. repeat split; auto. eapply wf_branch; eauto.
    + rewrite <- map_set_nth in E. unfold p_ins_branch in E.
      destruct (Nat.leb_spec cap (length ks)) as [Hfull|Hroom].
      * assert (Hl : length ks = cap) by lia.
        destruct (@sim_insert_branch_split cap n1 id ks (set_nth pos c' cs) al1 sk newc Hcap R1 Hs Hl)
          as (n2 & nn & En2 & R2 & R3). cbv zeta in En2, R2, R3.
        rewrite En2. cbn [bind]. inj3 E. exists n2. eexists. split; [reflexivity|].
        cbn [abs_out]. rewrite (repr_branch_abs R2), (repr_branch_abs R3).
        rewrite <- !map_insert_at, !firstn_map, !skipn_map. repeat split; auto.
        -- eapply wf_branch; eauto. intros ch Hin. apply In_firstn in Hin.
           revert ch Hin. apply wf_insert_child; auto.
        -- eapply wf_branch; eauto. intros ch Hin. apply In_skipn in Hin.
           revert ch Hin. apply wf_insert_child; auto.
      * destruct (@sim_insert_branch_nosplit cap n1 id ks (set_nth pos c' cs) al1 sk newc Hcap R1 Hs Hroom)
          as (n2 & En2 & R2).
        rewrite En2. cbn [bind]. inj3 E. exists n2, IONoSplit. split; [reflexivity|].
        cbn [abs_out]. rewrite (repr_branch_abs R2), <- !map_insert_at. repeat split; auto.
        eapply wf_branch; eauto. apply wf_insert_child; auto.
Qed.

(* ------------------------------------------------------------------ *)
Lemma sim_del : forall fuel cap n rc z pt rc' b,
  1 <= cap -> wf cap n -> nsorted (abs n) ->
  p_del fuel rc (abs n) z = Some (pt, rc', b) ->
  exists n', tdel fuel rc n z = Ok (n', rc', b) /\ abs n' = pt /\ wf cap n'.
Proof.
  induction fuel as [|f IH]; intros cap n rc z pt rc' b Hcap W NS E; [discriminate|].
  inversion W as [n0 id ks vs nx R | n0 id ks cs R Hc]; subst n0.
  - rewrite (repr_leaf_abs R) in E, NS. apply nsorted_leaf_inv in NS.
    cbn [p_del] in E. inversion E as [E']. clear E.
    cbn [tdel]. rewrite (repr_leaf_nty R). unfold p_del_leaf in E'.
    destruct (bfound ks z) eqn:Hf.
    + destruct (@sim_delete_leaf_present cap n id ks vs nx rc z Hcap R NS Hf) as (n' & En & R').
      inversion E'; subst. exists n'. rewrite En. split; [reflexivity|].
      rewrite (repr_leaf_abs R'). split; auto. eapply wf_leaf; eauto.
    + rewrite (@sim_delete_leaf_absent cap n id ks vs nx rc z R NS Hf).
      inversion E'; subst. exists n. split; [reflexivity|]. rewrite (repr_leaf_abs R). auto.
  - rewrite (repr_branch_abs R) in E, NS. apply nsorted_branch_inv in NS. destruct NS as (Hs & NSc).
    cbn [p_del] in E. cbn [tdel]. rewrite (repr_branch_nty R).
    rewrite (@sim_route cap n id ks cs z R Hs). cbn [bind].
    set (pos := child_index ks z) in *.
    rewrite nth_error_map in E. destruct (nth_error cs pos) as [c|] eqn:Ec; [|discriminate].
    cbn [option_map] in E.
    rewrite (@sim_get_child cap n id ks cs pos c R Ec). cbn [bind as_kid].
    destruct (p_del f rc (abs c) z) as [[[c1 rc1] b1]|] eqn:Ep; [|discriminate].
    assert (Wc : wf cap c) by (apply Hc; eapply nth_error_In; eauto).
    assert (NSch : nsorted (abs c)) by (apply NSc; apply in_map; eapply nth_error_In; eauto).
    destruct (IH cap c rc z c1 rc1 b1 Hcap Wc NSch Ep) as (c' & Et & Eo & Wc').
    rewrite Et. cbn [bind].
    assert (Hpos : pos < length cs) by (eapply nth_error_Some_lt; eauto).
    destruct (@sim_set_child cap n id ks cs pos c' R Hpos) as (n1 & En1 & R1).
    rewrite En1. cbn [bind]. inversion E; subst. exists n1. split; [reflexivity|].
    rewrite (repr_branch_abs R1), map_set_nth. split; auto.
    eapply wf_branch; eauto. apply wf_set_child; auto.
Qed.

Lemma sim_get : forall fuel cap n rc z r,
  wf cap n -> nsorted (abs n) -> p_get fuel (abs n) z = Some r ->
  tget fuel rc n z = Ok (match r with Some v => (incref rc v, Some v) | None => (rc, None) end).
Proof.
  induction fuel as [|f IH]; intros cap n rc z r W NS E; [discriminate|].
  inversion W as [n0 id ks vs nx R | n0 id ks cs R Hc]; subst n0.
  - rewrite (repr_leaf_abs R) in E, NS. apply nsorted_leaf_inv in NS.
    cbn [p_get] in E. inversion E; subst. cbn [tget]. rewrite (repr_leaf_nty R).
    rewrite (@sim_get_leaf cap n id ks vs nx rc z R NS). destruct (bfound ks z); reflexivity.
  - rewrite (repr_branch_abs R) in E, NS. apply nsorted_branch_inv in NS. destruct NS as (Hs & NSc).
    cbn [p_get] in E. cbn [tget]. rewrite (repr_branch_nty R).
    rewrite (@sim_route cap n id ks cs z R Hs). cbn [bind].
    set (pos := child_index ks z) in *.
    rewrite nth_error_map in E. destruct (nth_error cs pos) as [c|] eqn:Ec; [|discriminate].
    cbn [option_map] in E.
    rewrite (@sim_get_child cap n id ks cs pos c R Ec). cbn [bind as_kid].
    apply IH with (cap := cap); auto.
    + apply Hc. eapply nth_error_In; eauto.
    + apply NSc. apply in_map. eapply nth_error_In; eauto.
Qed.

(* ------------------------------------------------------------------ *)
(* tree_insert (new root on a root split), BPlusTree_delitem, tree_get *)
Lemma sim_tree_insert : forall t rc k v pt isnew rc' al',
  4 <= tcap t -> wf (tcap t) (root t) -> nsorted (abs (root t)) ->
  p_tree_insert (fuel_of t) (next_id t) rc (tcap t) (abs (root t)) k v = Some (pt, isnew, rc', al') ->
  exists t', tree_insert t rc k v = Ok (t', rc') /\ abs (root t') = pt /\ wf (tcap t) (root t') /\
    next_id t' = al' /\ tcap t' = tcap t /\ leaves t' = leaves t /\ modc t' = S (modc t) /\
    size t' = (if isnew then S (size t) else size t).
Proof.
  intros t rc k v pt isnew rc' al' Hcap W NS E. unfold p_tree_insert in E.
  destruct (p_ins (fuel_of t) (next_id t) rc (abs (root t)) k v) as [[[po rc1] al1]|] eqn:Ep; [|discriminate].
  destruct (@sim_ins (fuel_of t) (tcap t) (root t) (next_id t) rc k v po rc1 al1 Hcap W NS Ep)
    as (n' & io & Et & Eo & Wn' & Wio).
  unfold tree_insert. rewrite Et. cbn [bind].
  destruct io as [| | nn sk]; cbn [abs_out] in Eo; subst po.
  - assert (H : pt = abs n' /\ isnew = false /\ rc' = rc1 /\ al' = al1) by (repeat split; congruence).
    destruct H as (-> & -> & -> & ->). eexists. split; [reflexivity|]. cbn. repeat split; auto.
  - assert (H : pt = abs n' /\ isnew = true /\ rc' = rc1 /\ al' = al1) by (repeat split; congruence).
    destruct H as (-> & -> & -> & ->). eexists. split; [reflexivity|]. cbn. repeat split; auto.
  - assert (H : pt = PBranch al1 (tcap t) [sk] [abs n'; abs nn] /\ isnew = true /\ rc' = rc1 /\ al' = N.succ al1)
      by (repeat split; congruence).
    destruct H as (-> & -> & -> & ->).
    destruct (@sim_new_root (tcap t) al1 n' nn sk) as (nr1 & nr2 & nr3 & E1 & E2 & E3 & R); [lia|].
    rewrite E1. cbn [bind]. rewrite E2. cbn [bind]. rewrite E3. cbn [bind].
    eexists. split; [reflexivity|]. cbn [root tcap next_id leaves modc size].
    rewrite (repr_branch_abs R). cbn [map]. repeat split; auto.
    eapply wf_branch; eauto. intros c [<-|[<-|[]]]; auto.
Qed.

Lemma sim_tree_delitem : forall t rc z pt rc' b,
  1 <= tcap t -> wf (tcap t) (root t) -> nsorted (abs (root t)) ->
  p_del (fuel_of t) rc (abs (root t)) z = Some (pt, rc', b) ->
  exists t', tree_delitem t rc z = Ok (t', rc', b) /\ abs (root t') = pt /\ wf (tcap t) (root t') /\
    next_id t' = next_id t /\ tcap t' = tcap t /\ leaves t' = leaves t /\
    modc t' = (if b then S (S (modc t)) else modc t) /\
    size t' = (if b then size t - 1 else size t).
Proof.
  intros t rc z pt rc' b Hcap W NS E.
  destruct (@sim_del (fuel_of t) (tcap t) (root t) rc z pt rc' b Hcap W NS E) as (n' & Et & Ea & Wn').
  unfold tree_delitem. rewrite Et. cbn [bind]. destruct b.
  - eexists. split; [reflexivity|]. cbn. repeat split; auto.
  - eexists. split; [reflexivity|]. cbn. repeat split; auto.
Qed.

Lemma sim_tree_get : forall t rc z r,
  wf (tcap t) (root t) -> nsorted (abs (root t)) ->
  p_get (fuel_of t) (abs (root t)) z = Some r ->
  tree_get t rc z = Ok (match r with Some v => (incref rc v, Some v) | None => (rc, None) end).
Proof. intros t rc z r W NS E. unfold tree_get. eapply sim_get; eauto. Qed.
