(* Operation language of the C-extension model and its step function.  The extracted
   [step] is what the correspondence check runs against the extension built from /repo;
   the theorems of Props/C12.v and Props/C13.v are stated about [step]/[run].

   The state holds the tree object, the live iterator objects (by handle), the ghost
   reference-count map and the references the LAST call handed to its caller (the
   result object(s)); the caller drops them when the next call starts.  The wrapper
   methods of /repo/python/bplustree/__init__.py (class BPlusTreeMap) are compositions
   of the C-type operations, transcribed statement by statement. *)
From BPT Require Import Common.Base C.Node C.Tree.
Set Implicit Arguments.

Inductive op : Type :=
(* the C type *)
| OSet (k v : obj)            (* t[k] = v *)
| OGet (z : Z)                (* t[k] *)
| ODel (z : Z)                (* del t[k] *)
| OIn (z : Z)                 (* k in t *)
| OLen                        (* len(t) *)
| OKeys                       (* list(t.keys())  (also list(iter(t))) *)
| OItems                      (* list(t.items()) *)
| OItNew (h : nat) (inc : bool)   (* it[h] = t.keys() / iter(t)  |  t.items() *)
| OItNext (h : nat)           (* next(it[h]) *)
| OItDrop (h : nat)           (* del it[h] *)
(* the package wrapper BPlusTreeMap *)
| WGet (z : Z) (d : obj)      (* t.get(k, d) *)
| WValues                     (* list(t.values()) *)
| WClear                      (* t.clear() *)
| WPop (z : Z) (d : option obj)   (* t.pop(k) / t.pop(k, d) *)
| WPopitem                    (* t.popitem() *)
| WSetdefault (k d : obj)     (* t.setdefault(k, d) *)
| WUpdate (l : list (obj * obj))  (* t.update([(k, v), ..]) *)
| WCopy                       (* c = t.copy()   (kept beside the tree) *)
| WSwap                       (* t, c = c, t; all iterators dropped *)
| WCapacity.                  (* t.capacity *)

Inductive out : Type :=
| UNone | UVal (v : obj) | UBool (b : bool) | UNat (n : nat)
| UKeyError | URuntimeError | UValueError | UStop
| UKey (k : obj) | UItem (k v : obj)
| UKeys (l : list obj) | UItems (l : list (obj * obj)) | UVals (l : list obj)
| UNoTree | UNoIter
| UOOB (site : nat) | UNullDeref (site : nat) | UFuel.

Record cstate := mkSt {
  st_tree : option ctree;
  st_copy : option ctree;
  st_iters : list (nat * citer);
  st_rc : rcmap;
  st_held : list obj }.

(* BPlusTree(capacity) / S(capacity) / BPlusTreeMap(capacity=capacity) *)
Definition st_init (capacity : Z) : cstate * out :=
  match tree_init capacity with
  | Some t => (mkSt (Some t) None [] [] [], UNone)
  | None => (mkSt None None [] [] [], UValueError)
  end.

Definition release (rc : rcmap) (l : list obj) : rcmap := fold_left decref l rc.

Fixpoint it_lookup (l : list (nat * citer)) (h : nat) : option citer :=
  match l with
  | [] => None
  | (h', it) :: l' => if Nat.eqb h h' then Some it else it_lookup l' h
  end.
Fixpoint it_remove (l : list (nat * citer)) (h : nat) : list (nat * citer) :=
  match l with
  | [] => []
  | (h', it) :: l' => if Nat.eqb h h' then it_remove l' h else (h', it) :: it_remove l' h
  end.
Definition it_store (l : list (nat * citer)) (h : nat) (it : citer) : list (nat * citer) :=
  (h, it) :: it_remove l h.

(* list(iterator): call next until StopIteration.  [acc] is reversed. *)
Fixpoint drain (fuel : nat) (t : ctree) (rc : rcmap) (it : citer) (acc : list next_out)
  : res (rcmap * list next_out * next_out) :=
  match fuel with
  | O => OutOfFuel
  | S f =>
      do r <- iter_next t rc it;
      let '(it', rc', o) := r in
      match o with
      | NStop => Ok (rc', rev acc, NStop)
      | NRuntimeError => Ok (rc', rev acc, NRuntimeError)
      | _ => drain f t rc' it' (o :: acc)
      end
  end.

Definition keys_of (l : list next_out) : list obj :=
  flat_map (fun o => match o with NKey k => [k] | NItem k _ => [k] | _ => [] end) l.
Definition items_of (l : list next_out) : list (obj * obj) :=
  flat_map (fun o => match o with NItem k v => [(k, v)] | _ => [] end) l.
Definition refs_of (l : list next_out) : list obj :=
  flat_map (fun o => match o with NKey k => [k] | NItem k v => [k; v] | _ => [] end) l.

Definition drain_fuel (t : ctree) : nat := S (S (size t)).

(* ---------------- wrapper methods (class BPlusTreeMap) ---------------- *)

(* def clear(self): while len(self) > 0: for key in self.keys(): del self[key]; break *)
Fixpoint w_clear (fuel : nat) (t : ctree) (rc : rcmap) : res (ctree * rcmap) :=
  if Nat.eqb (tree_length t) 0 then Ok (t, rc) else
  match fuel with
  | O => OutOfFuel
  | S f =>
      do it <- iter_new t false;
      do r <- iter_next t rc it;
      let '(_, rc1, o) := r in
      match o with
      | NKey k =>
          do r2 <- tree_delitem t rc1 (kz k);
          let '(t', rc2, _) := r2 in
          w_clear f t' (decref rc2 k)          (* the loop variable lets go of the key *)
      | _ => OutOfFuel                         (* for-loop body never runs: Python loops forever *)
      end
  end.

(* def copy(self): new_tree = BPlusTreeMap(capacity=self.capacity)   -- the property is 8
                   for key, value in self.items(): new_tree[key] = value *)
Fixpoint w_copy_loop (fuel : nat) (t : ctree) (it : citer) (nt : ctree) (rc : rcmap)
  : res (ctree * rcmap) :=
  match fuel with
  | O => OutOfFuel
  | S f =>
      do r <- iter_next t rc it;
      let '(it', rc1, o) := r in
      match o with
      | NItem k v =>
          do r2 <- tree_insert nt rc1 k v;
          let '(nt', rc2) := r2 in
          w_copy_loop f t it' nt' (decref (decref rc2 k) v)   (* tuple / loop variables die *)
      | _ => Ok (nt, rc1)
      end
  end.

Definition w_copy (t : ctree) (rc : rcmap) : res (option ctree * rcmap) :=
  match tree_init (Z.of_nat DEFAULT_CAPACITY) with
  | None => Ok (None, rc)
  | Some nt =>
      do it <- iter_new t true;
      do r <- w_copy_loop (drain_fuel t) t it nt rc;
      Ok (Some (fst r), snd r)
  end.

(* def update(self, other): for key, value in other: self[key] = value *)
Fixpoint w_update (t : ctree) (rc : rcmap) (l : list (obj * obj)) : res (ctree * rcmap) :=
  match l with
  | [] => Ok (t, rc)
  | (k, v) :: l' => do r <- tree_insert t rc k v; w_update (fst r) (snd r) l'
  end.

(* ---------------- one call ---------------- *)
Definition with_tree (s : cstate) (f : ctree -> res (cstate * out)) : res (cstate * out) :=
  match st_tree s with
  | None => Ok (s, UNoTree)
  | Some t => f t
  end.

Definition set_tree (s : cstate) (t : ctree) (rc : rcmap) (held : list obj) : cstate :=
  mkSt (Some t) (st_copy s) (st_iters s) rc held.

Definition step_res (s0 : cstate) (o : op) : res (cstate * out) :=
  (* the caller drops the previous result first *)
  let s := mkSt (st_tree s0) (st_copy s0) (st_iters s0) (release (st_rc s0) (st_held s0)) [] in
  let rc := st_rc s in
  with_tree s (fun t =>
  match o with
  | OSet k v =>
      do r <- tree_insert t rc k v;
      Ok (set_tree s (fst r) (snd r) [], UNone)
  | OGet z =>
      do r <- tree_get t rc z;
      match snd r with
      | Some v => Ok (set_tree s t (fst r) [v], UVal v)
      | None => Ok (set_tree s t (fst r) [], UKeyError)
      end
  | ODel z =>
      do r <- tree_delitem t rc z;
      let '(t', rc', b) := r in
      Ok (set_tree s t' rc' [], if (b : bool) then UNone else UKeyError)
  | OIn z =>
      do r <- tree_contains t rc z;
      Ok (set_tree s t (fst r) [], UBool (snd r))
  | OLen => Ok (s, UNat (tree_length t))
  | OKeys =>
      do it <- iter_new t false;
      do r <- drain (drain_fuel t) t rc it [];
      let '(rc', l, _) := r in
      Ok (set_tree s t rc' (refs_of l), UKeys (keys_of l))
  | OItems =>
      do it <- iter_new t true;
      do r <- drain (drain_fuel t) t rc it [];
      let '(rc', l, _) := r in
      Ok (set_tree s t rc' (refs_of l), UItems (items_of l))
  | OItNew h inc =>
      do it <- iter_new t inc;
      Ok (mkSt (st_tree s) (st_copy s) (it_store (st_iters s) h it) rc [], UNone)
  | OItNext h =>
      match it_lookup (st_iters s) h with
      | None => Ok (s, UNoIter)
      | Some it =>
          do r <- iter_next t rc it;
          let '(it', rc', o) := r in
          let s' := mkSt (st_tree s) (st_copy s) (it_store (st_iters s) h it') rc' (refs_of [o]) in
          Ok (s', match o with
                  | NKey k => UKey k | NItem k v => UItem k v
                  | NStop => UStop | NRuntimeError => URuntimeError end)
      end
  | OItDrop h =>
      Ok (mkSt (st_tree s) (st_copy s) (it_remove (st_iters s) h) rc [], UNone)
  (* def get(self, key, default=None): try: return self[key] except KeyError: return default *)
  | WGet z d =>
      do r <- tree_get t rc z;
      match snd r with
      | Some v => Ok (set_tree s t (fst r) [v], UVal v)
      | None => Ok (set_tree s t (incref (fst r) d) [d], UVal d)
      end
  (* def values(self): for key, value in self.items(): yield value *)
  | WValues =>
      do it <- iter_new t true;
      do r <- drain (drain_fuel t) t rc it [];
      let '(rc', l, _) := r in
      Ok (set_tree s t (release rc' (keys_of l)) (map snd (items_of l)), UVals (map snd (items_of l)))
  | WClear =>
      do r <- w_clear (S (size t)) t rc;
      Ok (set_tree s (fst r) (snd r) [], UNone)
  (* def pop(self, key, *args): try: value = self[key]; del self[key]; return value
                                 except KeyError: if args: return args[0]; raise *)
  | WPop z d =>
      do r <- tree_get t rc z;
      match snd r with
      | Some v =>
          do r2 <- tree_delitem t (fst r) z;
          let '(t', rc', _) := r2 in
          Ok (set_tree s t' rc' [v], UVal v)
      | None =>
          match d with
          | Some dv => Ok (set_tree s t (incref (fst r) dv) [dv], UVal dv)
          | None => Ok (set_tree s t (fst r) [], UKeyError)
          end
      end
  (* def popitem(self): for key, value in self.items(): del self[key]; return (key, value)
                        raise KeyError *)
  | WPopitem =>
      do it <- iter_new t true;
      do r <- iter_next t rc it;
      let '(_, rc1, o) := r in
      match o with
      | NItem k v =>
          do r2 <- tree_delitem t rc1 (kz k);
          let '(t', rc2, _) := r2 in
          Ok (set_tree s t' rc2 [k; v], UItem k v)
      | _ => Ok (set_tree s t rc1 [], UKeyError)
      end
  (* def setdefault(self, key, default=None): try: return self[key]
                                              except KeyError: self[key] = default; return default *)
  | WSetdefault k d =>
      do r <- tree_get t rc (kz k);
      match snd r with
      | Some v => Ok (set_tree s t (fst r) [v], UVal v)
      | None =>
          do r2 <- tree_insert t (fst r) k d;
          Ok (set_tree s (fst r2) (incref (snd r2) d) [d], UVal d)
      end
  | WUpdate l =>
      do r <- w_update t rc l;
      Ok (set_tree s (fst r) (snd r) [], UNone)
  | WCopy =>
      do r <- w_copy t rc;
      let '(c, rc1) := r in
      (* the previous copy, if any, is released when the variable is rebound *)
      do rc2 <- (match st_copy s with Some old => tree_dealloc old rc1 | None => Ok rc1 end);
      Ok (mkSt (st_tree s) c (st_iters s) rc2 [], UNone)
  | WSwap =>
      match st_copy s with
      | None => Ok (s, UNoTree)
      | Some c => Ok (mkSt (Some c) (Some t) [] rc [], UNone)
      end
  | WCapacity => Ok (s, UNat DEFAULT_CAPACITY)
  end).

Definition step (s : cstate) (o : op) : cstate * out :=
  match step_res s o with
  | Ok r => r
  | UB site => (s, UOOB site)
  | Panic site => (s, UNullDeref site)
  | OutOfFuel => (s, UFuel)
  end.

Fixpoint run (s : cstate) (ops : list op) : cstate * list out :=
  match ops with
  | [] => (s, [])
  | o :: ops' =>
      let '(s1, x) := step s o in
      let '(s2, xs) := run s1 ops' in (s2, x :: xs)
  end.

(* the caller drops its last result, its iterators, the copy and the tree *)
Definition finish (s : cstate) : res rcmap :=
  let rc := release (st_rc s) (st_held s) in
  do rc1 <- (match st_copy s with Some c => tree_dealloc c rc | None => Ok rc end);
  match st_tree s with Some t => tree_dealloc t rc1 | None => Ok rc1 end.

(* what BPlusTree_init would do if the capacity were narrowed to uint16_t without a
   range check (the code before the repair): used only for the _refuted example *)
Definition tree_init_legacy (capacity : Z) : option ctree :=
  if Z.ltb capacity MIN_CAPACITY then None
  else let c := Z.to_nat (capacity mod 65536) in
       Some (mkTree (node_create 1%N NLeaf c) 1%N c 0 0 2%N).
