(* BPlusTree_dealloc: BPlusTree_clear (Py_CLEAR of every live key and value) followed by
   node_destroy gives back exactly the references held in the live slots of the tree —
   no leak, no over-release — and stays inside the arrays. *)
From Coq Require Import List Arith ZArith NArith Lia Bool Permutation.
From BPT Require Import Common.Base Common.AMap Rust.Tree Rust.Readers Rust.InvDefs Rust.Lib
  Rust.TreeFactsI C.Node C.Tree C.Abs C.ArrLib C.AbsFacts C.SimBase C.PInv C.PFacts.
Import ListNotations.
Set Implicit Arguments.

(* ------------------------------------------------------------------ *)
(* generic *)
Lemma firstn_snoc : forall (A : Type) (l : list A) i x,
  nth_error l i = Some x -> firstn (S i) l = firstn i l ++ [x].
Proof.
  induction l as [|a l IH]; intros [|i] x H; cbn [nth_error] in H; try discriminate.
  - cbn. congruence.
  - change (a :: firstn (S i) l = a :: (firstn i l ++ [x])). f_equal. apply IH. exact H.
Qed.

(* a loop whose body does not change the state *)
Lemma for_up_const : forall (St : Type) (body : nat -> St -> res St) cnt i s,
  (forall j, i <= j < i + cnt -> body j s = Ok s) -> for_up cnt i body s = Ok s.
Proof.
  induction cnt as [|c IH]; intros i s H; cbn [for_up]; [reflexivity|].
  rewrite H by lia. cbn [bind]. apply IH. intros j Hj. apply H. lia.
Qed.

(* ------------------------------------------------------------------ *)
(* the tree after BPlusTree_clear: every live key and value slot is NULL, the live child
   slots still hold (cleared) nodes; h = height *)
Inductive cleared : nat -> cnode -> Prop :=
| cl_leaf n :
    nty n = NLeaf ->
    (forall i, i < nk n -> nth_error (data n) i = Some SNull) ->
    (forall i, i < nk n -> nth_error (data n) (ncap n + i) = Some SNull) ->
    cleared 0 n
| cl_branch h n :
    nty n = NBranch ->
    (forall i, i < nk n -> nth_error (data n) i = Some SNull) ->
    (forall i, i <= nk n ->
       exists c, nth_error (data n) (ncap n + i) = Some (SKid c) /\ cleared h c) ->
    cleared (S h) n.

(* node_destroy on a cleared tree releases nothing *)
Lemma destroy_cleared : forall fuel h n rc,
  cleared h n -> h < fuel -> node_destroy fuel rc n = Ok rc.
Proof.
  induction fuel as [|f IH]; intros h n rc C Hf; [lia|].
  cbn [node_destroy].
  inversion C as [n0 T K V | h0 n0 T K V]; subst.
  - rewrite for_up_const.
    2:{ intros j Hj. unfold xdecref_at. rewrite (get_key_ok _ _ (K j ltac:(lia))). reflexivity. }
    cbn [bind]. rewrite T. apply for_up_const. intros j Hj. unfold xdecref_at.
    rewrite (get_value_ok _ _ (V j ltac:(lia))). reflexivity.
  - rewrite for_up_const.
    2:{ intros j Hj. unfold xdecref_at. rewrite (get_key_ok _ _ (K j ltac:(lia))). reflexivity. }
    cbn [bind]. rewrite T. apply for_up_const. intros j Hj.
    destruct (V j) as (c & E & Cc); [lia|]. rewrite (get_child_ok _ _ E). cbn [bind].
    apply IH with h0; [exact Cc|lia].
Qed.

(* ------------------------------------------------------------------ *)
(* for (i = 0; i < k; i++) Py_CLEAR(data[off + i]) *)
Lemma clear_loop : forall off os n rc,
  holds (data n) off (map SObj os) -> off + length os <= length (data n) ->
  exists n' rc', for_up (length os) 0 (clear_at off) (n, rc) = Ok (n', rc') /\ same_meta n n' /\
    (forall j, nth_error (data n') j =
       if Nat.leb off j && Nat.ltb j (off + length os) then Some SNull else nth_error (data n) j) /\
    (forall o, rc_get rc' o = rc_get rc o - cnt (map kid os) o)%Z.
Proof.
  intros off os n rc H L.
  destruct (@for_up_inv (cnode * rcmap)
    (fun i st => i <= length os /\ same_meta n (fst st) /\
       (forall j, nth_error (data (fst st)) j =
          if Nat.leb off j && Nat.ltb j (off + i) then Some SNull else nth_error (data n) j) /\
       (forall o, rc_get (snd st) o = rc_get rc o - cnt (map kid (firstn i os)) o)%Z)
    (clear_at off) (length os) 0 (n, rc)) as ([n' rc'] & E & _ & SM & P & R).
  - cbn [fst snd]. split; [lia|]. split; [apply same_meta_refl|]. split.
    + intros j. bcases.
    + intros o. cbn [firstn map]. rewrite cnt_nil. lia.
  - intros i [m rcm] Hi (_ & SM & P & R). cbn [fst snd] in SM, P, R.
    destruct SM as (M1 & M2 & M3 & M4 & M5 & M6).
    destruct (nth_error_lt_Some os (i := i)) as (x & Ex); [lia|].
    assert (Ed : nth_error (data m) (off + i) = Some (SObj x)).
    { rewrite P. destruct (Nat.ltb_spec (off + i) (off + i)); [lia|]. rewrite andb_false_r.
      apply (holds_nth (l := map SObj os)); auto. rewrite nth_error_map, Ex. reflexivity. }
    unfold clear_at. rewrite (arr_get_ok _ _ _ Ed). cbn [bind xdecref].
    rewrite arr_set_ok by lia. cbn [bind]. eexists. split; [reflexivity|].
    cbn [fst snd]. autorewrite with nodeproj.
    split; [lia|]. split; [|split].
    + unfold same_meta. autorewrite with nodeproj. repeat split; auto.
    + intros j. rewrite nth_error_set_nth.
      destruct (Nat.eqb_spec j (off + i)) as [->|ne].
      * destruct (Nat.ltb_spec (off + i) (length (data m))); [|lia]. bcases.
      * rewrite P. bcases.
    + intros o. rewrite rc_get_decref, R.
      rewrite (@firstn_snoc _ _ _ _ Ex), map_app, cnt_app. cbn [map]. rewrite cnt_cons, cnt_nil.
      destruct (N.eqb o (kid x)); lia.
  - exists n', rc'. cbn [fst snd Nat.add] in SM, P, R. rewrite firstn_all in R.
    split; [exact E|]. split; [exact SM|]. split; [exact P|exact R].
Qed.

(* ------------------------------------------------------------------ *)
(* one unfolding of node_gc_clear *)
Definition gc_child (f : nat) (i : nat) (st : cnode * rcmap) : res (cnode * rcmap) :=
  let '(n, rc) := st in
  do c <- get_child n i;
  match c with
  | SNull => Ok (n, rc)
  | SKid ch =>
      do r <- node_gc_clear f rc ch;
      do n' <- set_child n i (SKid (fst r));
      Ok (n', snd r)
  | SObj _ => Panic 12
  end.

Lemma node_gc_clear_S : forall f rc n,
  node_gc_clear (S f) rc n =
    do r1 <- for_up (nk n) 0 (clear_at 0) (n, rc);
    match nty n with
    | NLeaf => for_up (nk n) 0 (clear_at (ncap n)) r1
    | NBranch => for_up (S (nk n)) 0 (gc_child f) r1
    end.
Proof. reflexivity. Qed.

Lemma gc_clear_leaf : forall f cap n id ks vs nx rc,
  repr_leaf cap n id ks vs nx ->
  exists n' rc1, node_gc_clear (S f) rc n = Ok (n', rc1) /\
    (forall o, rc_get rc1 o = rc_get rc o - cnt (map kid ks ++ map kid vs) o)%Z /\
    cleared 0 n'.
Proof.
  intros f cap n id ks vs nx rc R.
  pose proof R as (R1 & R2 & R3 & R4 & R5 & R6 & R7 & R8 & R9 & R10).
  rewrite node_gc_clear_S, R4.
  destruct (@clear_loop 0 ks n rc) as (n1 & rc1 & E1 & SM1 & P1 & C1); auto; [lia|].
  rewrite E1. cbn [bind]. rewrite R2, R3.
  destruct SM1 as (M1 & M2 & M3 & M4 & M5 & M6).
  destruct (@clear_loop cap vs n1 rc1) as (n2 & rc2 & E2 & SM2 & P2 & C2).
  { intros i Hi. rewrite map_length in Hi. rewrite P1. cbn [Nat.leb Nat.add andb].
    destruct (Nat.ltb_spec (cap + i) (length ks)); [lia|]. apply R10. rewrite map_length. exact Hi. }
  { lia. }
  rewrite R7 in E2. rewrite E2. exists n2, rc2. split; [reflexivity|]. split.
  - intros o. rewrite C2, C1, cnt_app. lia.
  - destruct SM2 as (N1 & N2 & N3 & N4 & N5 & N6). apply cl_leaf.
    + congruence.
    + intros i Hi. rewrite N4, M4, R4 in Hi. rewrite P2.
      destruct (Nat.leb_spec cap i); [lia|]. cbn [andb]. rewrite P1. cbn [Nat.leb Nat.add andb].
      destruct (Nat.ltb_spec i (length ks)); [reflexivity|lia].
    + intros i Hi. rewrite N4, M4, R4 in Hi. rewrite N3, M3, R3. rewrite P2.
      destruct (Nat.leb_spec cap (cap + i)); [|lia].
      destruct (Nat.ltb_spec (cap + i) (cap + length vs)); [reflexivity|lia].
Qed.

Lemma gc_clear_branch : forall f cap h n id ks cs rc,
  (forall c rc0, In c cs ->
     exists c' rc', node_gc_clear f rc0 c = Ok (c', rc') /\
       (forall o, rc_get rc' o = rc_get rc0 o - cnt (prefs (abs c)) o)%Z /\ cleared h c') ->
  repr_branch cap n id ks cs ->
  exists n' rc1, node_gc_clear (S f) rc n = Ok (n', rc1) /\
    (forall o, rc_get rc1 o = rc_get rc o - cnt (map kid ks ++ flat_map prefs (map abs cs)) o)%Z /\
    cleared (S h) n'.
Proof.
  intros f cap h n id ks cs rc IH R.
  pose proof R as (R1 & R2 & R3 & R4 & R5 & R6 & R7 & R8 & R9).
  rewrite node_gc_clear_S, R4.
  destruct (@clear_loop 0 ks n rc) as (n1 & rc1 & E1 & SM1 & P1 & C1); auto; [lia|].
  rewrite E1. cbn [bind]. rewrite R2.
  destruct SM1 as (M1 & M2 & M3 & M4 & M5 & M6).
  destruct (@for_up_inv (cnode * rcmap)
    (fun i st => i <= length cs /\ same_meta n1 (fst st) /\
       (forall j, j < cap \/ cap + i <= j -> nth_error (data (fst st)) j = nth_error (data n1) j) /\
       (forall j, j < i ->
          exists c, nth_error (data (fst st)) (cap + j) = Some (SKid c) /\ cleared h c) /\
       (forall o, rc_get (snd st) o =
                  rc_get rc1 o - cnt (flat_map prefs (map abs (firstn i cs))) o)%Z)
    (gc_child f) (S (length ks)) 0 (n1, rc1)) as ([n2 rc2] & E2 & _ & SM2 & Q1 & Q2 & C2).
  - cbn [fst snd]. split; [lia|]. split; [apply same_meta_refl|]. split; [|split].
    + intros j _. reflexivity.
    + intros j Hj. lia.
    + intros o. cbn [firstn map flat_map]. rewrite cnt_nil. lia.
  - intros i [m rcm] Hi (_ & SM & Q1 & Q2 & C). cbn [fst snd] in SM, Q1, Q2, C.
    destruct SM as (N1 & N2 & N3 & N4 & N5 & N6).
    destruct (nth_error_lt_Some cs (i := i)) as (ci & Eci); [lia|].
    assert (Ed : nth_error (data m) (ncap m + i) = Some (SKid ci)).
    { rewrite N3, M3, R3. rewrite Q1 by lia. rewrite P1. cbn [Nat.leb Nat.add andb].
      destruct (Nat.ltb_spec (cap + i) (length ks)); [lia|].
      apply (holds_nth (l := map SKid cs)); auto. rewrite nth_error_map, Eci. reflexivity. }
    unfold gc_child. rewrite (get_child_ok _ _ Ed). cbn [bind].
    destruct (IH ci rcm) as (c' & rc' & Ec & Cc & CLc). { eapply nth_error_In; eauto. }
    rewrite Ec. cbn [bind fst snd].
    rewrite set_child_ok by (rewrite N3, M3, R3, N6, M6, R5; lia).
    cbn [bind]. eexists. split; [reflexivity|]. cbn [fst snd]. autorewrite with nodeproj.
    rewrite N3, M3, R3.
    split; [lia|]. split; [|split; [|split]].
    + unfold same_meta. autorewrite with nodeproj. repeat split; auto.
    + intros j Hj. rewrite nth_error_set_nth_other by lia. apply Q1. lia.
    + intros j Hj. destruct (Nat.eq_dec j i) as [->|ne].
      * exists c'. rewrite nth_error_set_nth_same by (rewrite N6, M6, R5; lia). auto.
      * destruct (Q2 j) as (c & Ecj & CL); [lia|]. exists c.
        rewrite nth_error_set_nth_other by lia. auto.
    + intros o. rewrite Cc, C.
      rewrite (@firstn_snoc _ _ _ _ Eci), map_app, flat_map_app, cnt_app. cbn [map flat_map].
      rewrite app_nil_r. lia.
  - exists n2, rc2. cbn [fst snd Nat.add] in SM2, Q1, Q2, C2.
    rewrite <- R6 in C2. rewrite firstn_all in C2.
    split; [exact E2|]. split.
    + intros o. rewrite C2, C1, cnt_app. lia.
    + destruct SM2 as (N1 & N2 & N3 & N4 & N5 & N6). apply cl_branch.
      * congruence.
      * intros i Hi. rewrite N4, M4, R4 in Hi. rewrite Q1 by lia. rewrite P1.
        cbn [Nat.leb Nat.add andb]. destruct (Nat.ltb_spec i (length ks)); [reflexivity|lia].
      * intros i Hi. rewrite N4, M4, R4 in Hi. rewrite N3, M3, R3. apply Q2. lia.
Qed.

(* BPlusTree_clear gives back every reference held in the live slots and leaves a cleared
   tree of the same height *)
Lemma gc_clear_spec : forall fuel cap n rc h,
  wf cap n -> cshape cap h (abs n) -> h < fuel ->
  exists n' rc1, node_gc_clear fuel rc n = Ok (n', rc1) /\
    (forall o, rc_get rc1 o = rc_get rc o - cnt (prefs (abs n)) o)%Z /\
    cleared h n'.
Proof.
  induction fuel as [|f IH]; intros cap n rc h W Sh Hf; [lia|].
  inversion W as [n0 id ks vs nx R | n0 id ks cs R Hc]; subst n0.
  - rewrite (repr_leaf_abs R) in Sh |- *.
    destruct (cshape_leaf_inv Sh) as (-> & _). cbn [prefs].
    eapply gc_clear_leaf; eauto.
  - rewrite (repr_branch_abs R) in Sh |- *.
    destruct (cshape_branch_inv Sh) as (h' & -> & _ & _ & _ & Hs). cbn [prefs].
    eapply gc_clear_branch; eauto.
    intros c rc0 Hin. apply IH with cap; [apply Hc; exact Hin| |lia].
    apply Hs. apply in_map. exact Hin.
Qed.

Lemma dealloc_spec : forall fuel cap n rc h,
  wf cap n -> cshape cap h (abs n) -> h < fuel ->
  exists n' rc1, node_gc_clear fuel rc n = Ok (n', rc1) /\
    (forall o, rc_get rc1 o = rc_get rc o - cnt (prefs (abs n)) o)%Z /\
    node_destroy fuel rc1 n' = Ok rc1.
Proof.
  intros fuel cap n rc h W Sh Hf.
  destruct (@gc_clear_spec fuel cap n rc h W Sh Hf) as (n' & rc1 & E & C & CL).
  exists n', rc1. split; [exact E|]. split; [exact C|].
  apply destroy_cleared with h; auto.
Qed.

Theorem tree_dealloc_ok : forall t rc, CInv t ->
  exists rc', tree_dealloc t rc = Ok rc' /\
    (forall o, rc_get rc' o = rc_get rc o - cnt (prefs (abs (root t))) o)%Z.
Proof.
  intros t rc I. destruct (ci_shape I) as (h & Sh).
  assert (Hf : h < fuel_of t).
  { pose proof (cshape_height_lt_count Sh). pose proof (ci_count I). unfold fuel_of. lia. }
  destruct (@dealloc_spec (fuel_of t) (tcap t) (root t) rc h (ci_wf I) Sh Hf)
    as (n' & rc1 & E & C & D).
  exists rc1. unfold tree_dealloc. rewrite E. cbn [bind fst snd]. split; [exact D|exact C].
Qed.
