(* BPlusTree_dealloc: BPlusTree_clear (Py_CLEAR of every live key and value) followed by
   node_destroy gives back exactly the references held in the live slots of the tree —
   no leak, no over-release — and stays inside the arrays. *)
From Coq Require Import List Arith ZArith NArith Lia Bool Permutation.
From BPT Require Import Common.Base Common.AMap Rust.Tree Rust.Readers Rust.InvDefs Rust.Lib
  Rust.TreeFactsI C.Node C.Tree C.Abs C.ArrLib C.AbsFacts C.SimBase C.PInv C.PFacts.
Import ListNotations.
Set Implicit Arguments.

Lemma dealloc_spec : forall fuel cap n rc h,
  wf cap n -> cshape cap h (abs n) -> h < fuel ->
  exists n' rc1, node_gc_clear fuel rc n = Ok (n', rc1) /\
    (forall o, rc_get rc1 o = rc_get rc o - cnt (prefs (abs n)) o)%Z /\
    node_destroy fuel rc1 n' = Ok rc1.
Proof.
Admitted.

Theorem tree_dealloc_ok : forall t rc, CInv t ->
  exists rc', tree_dealloc t rc = Ok rc' /\
    (forall o, rc_get rc' o = rc_get rc o - cnt (prefs (abs (root t))) o)%Z.
Proof.
Admitted.
