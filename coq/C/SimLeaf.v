(* Array level = list level for the leaf operations of node_ops.c: node_insert_leaf (update,
   shift-insert, split through the temporary arrays), node_delete, node_get. *)
From Coq Require Import List Arith ZArith NArith Lia Bool.
From BPT Require Import Common.Base Common.AMap Rust.Tree Rust.Lib Rust.TreeFactsI
  C.Node C.Tree C.Abs C.ArrLib C.AbsFacts C.SimBase.
Import ListNotations.
Set Implicit Arguments.

(* ------------------------------------------------------------------ *)
(* the in-place shift of a leaf: for (i = nk; i > pos; i--) { key[i] = key[i-1]; value[i] = value[i-1] } *)
Lemma leaf_shift_right_loop : forall n pos c,
  ncap n = c -> length (data n) = 2 * c -> nk n < c -> pos <= nk n ->
  exists n', for_down (nk n - pos) (nk n) leaf_shift_right n = Ok n' /\ same_meta n n' /\
    forall j, nth_error (data n') j =
      if (Nat.ltb pos j && Nat.leb j (nk n)) || (Nat.ltb (c + pos) j && Nat.leb j (c + nk n))
      then nth_error (data n) (j - 1) else nth_error (data n) j.
Proof.
  intros n pos c Hc Hl Hk Hp.
  destruct (@for_down_inv cnode
    (fun t n' => same_meta n n' /\
       forall j, nth_error (data n') j =
         if (Nat.ltb (nk n - t) j && Nat.leb j (nk n)) || (Nat.ltb (c + (nk n - t)) j && Nat.leb j (c + nk n))
         then nth_error (data n) (j - 1) else nth_error (data n) j)
    leaf_shift_right (nk n - pos) (nk n) n) as (n' & E & SM & Hn').
  - split; [apply same_meta_refl|]. intros j. rewrite Nat.sub_0_r. bcases.
  - intros t s Ht (SM & Hs). destruct SM as (M1 & M2 & M3 & M4 & M5 & M6).
    set (i := nk n - t). assert (Hi : pos < i <= nk n) by (unfold i; lia).
    unfold leaf_shift_right.
    destruct (nth_error_lt_Some (data s) (i := i - 1)) as (kx & Ekx); [lia|].
    rewrite (get_key_ok _ _ Ekx). cbn [bind].
    rewrite set_key_ok by lia. cbn [bind].
    destruct (nth_error_lt_Some (data s) (i := c + (i - 1))) as (vx & Evx); [lia|].
    assert (Evx' : nth_error (data (with_data s (set_nth i kx (data s)))) (ncap (with_data s (set_nth i kx (data s))) + (i - 1)) = Some vx).
    { autorewrite with nodeproj. rewrite M3, Hc. rewrite nth_error_set_nth_other by lia. exact Evx. }
    rewrite (get_value_ok _ _ Evx'). cbn [bind].
    rewrite set_value_ok by (autorewrite with nodeproj; lia). eexists. split; [reflexivity|].
    autorewrite with nodeproj. split.
    + unfold same_meta. autorewrite with nodeproj. repeat split; auto.
    + intros j. rewrite M3, Hc. rewrite Hs in Ekx, Evx.
      replace (nk n - S t) with (i - 1) by (unfold i; lia). fold i in Hs.
      rewrite !nth_error_set_nth. autorewrite with nodeproj.
      destruct (Nat.eqb_spec j (c + i)) as [->|n1].
      * rewrite <- Evx. bcases.
      * destruct (Nat.eqb_spec j i) as [->|n2].
        -- rewrite <- Ekx. bcases.
        -- rewrite Hs. bcases.
  - exists n'. split; [exact E|]. split; [exact SM|]. intros j. rewrite Hn'.
    replace (nk n - (nk n - pos)) with pos by lia. reflexivity.
Qed.

(* for (i = a; i < a + cnt; i++) { tk[i+off] = key[i]; tv[i+off] = value[i] } *)
Lemma leaf_to_temp_loop : forall n c off cnt a tk tv,
  ncap n = c -> length (data n) = 2 * c -> a + cnt <= c ->
  a + cnt + off <= length tk -> a + cnt + off <= length tv ->
  exists tk' tv', for_up cnt a (leaf_to_temp n off) (tk, tv) = Ok (tk', tv') /\
    length tk' = length tk /\ length tv' = length tv /\
    (forall j, nth_error tk' j =
       if Nat.leb (a + off) j && Nat.ltb j (a + off + cnt) then nth_error (data n) (j - off) else nth_error tk j) /\
    (forall j, nth_error tv' j =
       if Nat.leb (a + off) j && Nat.ltb j (a + off + cnt) then nth_error (data n) (c + (j - off)) else nth_error tv j).
Proof.
  intros n c off cnt a tk tv Hc Hl Ha Hk Hv.
  destruct (@for_up_inv (list cslot * list cslot)
    (fun i st => length (fst st) = length tk /\ length (snd st) = length tv /\
       (forall j, nth_error (fst st) j =
          if Nat.leb (a + off) j && Nat.ltb j (i + off) then nth_error (data n) (j - off) else nth_error tk j) /\
       (forall j, nth_error (snd st) j =
          if Nat.leb (a + off) j && Nat.ltb j (i + off) then nth_error (data n) (c + (j - off)) else nth_error tv j))
    (leaf_to_temp n off) cnt a (tk, tv)) as ([tk' tv'] & E & L1 & L2 & P1 & P2).
  - cbn [fst snd]. repeat split; auto; intros j; bcases.
  - intros i [sk sv] Hi (L1 & L2 & P1 & P2). cbn [fst snd] in *.
    unfold leaf_to_temp. cbn [fst snd].
    destruct (nth_error_lt_Some (data n) (i := i)) as (kx & Ekx); [lia|].
    destruct (nth_error_lt_Some (data n) (i := c + i)) as (vx & Evx); [lia|].
    rewrite (get_key_ok _ _ Ekx). cbn [bind].
    rewrite get_value_ok with (s := vx) by (rewrite Hc; exact Evx). cbn [bind].
    rewrite !arr_set_ok by lia. cbn [bind]. eexists. split; [reflexivity|]. cbn [fst snd].
    rewrite !length_set_nth. repeat split; auto; intros j; rewrite nth_error_set_nth.
    + destruct (Nat.eqb_spec j (i + off)) as [->|ne].
      * rewrite <- Ekx. bcases.
      * rewrite P1. bcases.
    + destruct (Nat.eqb_spec j (i + off)) as [->|ne].
      * rewrite <- Evx. bcases.
      * rewrite P2. bcases.
  - cbn [fst snd] in *. exists tk', tv'. repeat split; auto; intros j; [rewrite P1|rewrite P2];
      replace (a + cnt + off) with (a + off + cnt) by lia; reflexivity.
Qed.

(* for (i = 0; i < cnt; i++) { key[i] = tk[off+i]; value[i] = tv[off+i] } *)
Lemma leaf_from_temp_loop : forall n c off cnt tk tv,
  ncap n = c -> length (data n) = 2 * c -> cnt <= c ->
  off + cnt <= length tk -> off + cnt <= length tv ->
  exists n', for_up cnt 0 (leaf_from_temp tk tv off) n = Ok n' /\ same_meta n n' /\
    forall j, nth_error (data n') j =
      if Nat.ltb j cnt then nth_error tk (off + j)
      else if Nat.leb c j && Nat.ltb j (c + cnt) then nth_error tv (off + (j - c))
      else nth_error (data n) j.
Proof.
  intros n c off cnt tk tv Hc Hl Ha Hk Hv.
  destruct (@for_up_inv cnode
    (fun i n' => same_meta n n' /\
       forall j, nth_error (data n') j =
         if Nat.ltb j i then nth_error tk (off + j)
         else if Nat.leb c j && Nat.ltb j (c + i) then nth_error tv (off + (j - c))
         else nth_error (data n) j)
    (leaf_from_temp tk tv off) cnt 0 n) as (n' & E & SM & P).
  - split; [apply same_meta_refl|]. intros j. bcases.
  - intros i s Hi (SM & P). destruct SM as (M1 & M2 & M3 & M4 & M5 & M6).
    unfold leaf_from_temp.
    destruct (nth_error_lt_Some tk (i := off + i)) as (kx & Ekx); [lia|].
    destruct (nth_error_lt_Some tv (i := off + i)) as (vx & Evx); [lia|].
    rewrite (arr_get_ok _ _ _ Ekx), (arr_get_ok _ _ _ Evx). cbn [bind].
    rewrite set_key_ok by lia. cbn [bind].
    rewrite set_value_ok by (autorewrite with nodeproj; lia). eexists. split; [reflexivity|].
    autorewrite with nodeproj. split.
    + unfold same_meta. autorewrite with nodeproj. repeat split; auto.
    + intros j. rewrite M3, Hc. rewrite !nth_error_set_nth. autorewrite with nodeproj.
      destruct (Nat.eqb_spec j (c + i)) as [->|n1].
      * rewrite <- Evx. bcases.
      * destruct (Nat.eqb_spec j i) as [->|n2].
        -- rewrite <- Ekx. bcases.
        -- rewrite P. bcases.
  - exists n'. auto.
Qed.

(* for (i = a; i < a + cnt; i++) { key[i] = NULL; value[i] = NULL } *)
Lemma leaf_null_loop : forall n c cnt a,
  ncap n = c -> length (data n) = 2 * c -> a + cnt <= c ->
  exists n', for_up cnt a leaf_null n = Ok n' /\ same_meta n n' /\
    forall j, nth_error (data n') j =
      if (Nat.leb a j && Nat.ltb j (a + cnt)) || (Nat.leb (c + a) j && Nat.ltb j (c + a + cnt))
      then Some SNull else nth_error (data n) j.
Proof.
  intros n c cnt a Hc Hl Ha.
  destruct (@for_up_inv cnode
    (fun i n' => same_meta n n' /\
       forall j, nth_error (data n') j =
         if (Nat.leb a j && Nat.ltb j i) || (Nat.leb (c + a) j && Nat.ltb j (c + i))
         then Some SNull else nth_error (data n) j)
    leaf_null cnt a n) as (n' & E & SM & P).
  - split; [apply same_meta_refl|]. intros j. bcases.
  - intros i s Hi (SM & P). destruct SM as (M1 & M2 & M3 & M4 & M5 & M6).
    unfold leaf_null.
    rewrite set_key_ok by lia. cbn [bind].
    rewrite set_value_ok by (autorewrite with nodeproj; lia). eexists. split; [reflexivity|].
    autorewrite with nodeproj. split.
    + unfold same_meta. autorewrite with nodeproj. repeat split; auto.
    + intros j. rewrite M3, Hc. rewrite !nth_error_set_nth. autorewrite with nodeproj.
      destruct (Nat.eqb_spec j (c + i)) as [->|n1].
      * bcases.
      * destruct (Nat.eqb_spec j i) as [->|n2].
        -- bcases.
        -- rewrite P. bcases.
  - exists n'. split; [exact E|]. split; [exact SM|]. intros j. rewrite P.
    replace (c + (a + cnt)) with (c + a + cnt) by lia. reflexivity.
Qed.

(* for (i = pos; i < pos + cnt; i++) { key[i] = key[i+1]; value[i] = value[i+1] } *)
Lemma leaf_shift_left_loop : forall n c cnt pos,
  ncap n = c -> length (data n) = 2 * c -> pos + cnt < c ->
  exists n', for_up cnt pos leaf_shift_left n = Ok n' /\ same_meta n n' /\
    forall j, nth_error (data n') j =
      if (Nat.leb pos j && Nat.ltb j (pos + cnt)) || (Nat.leb (c + pos) j && Nat.ltb j (c + pos + cnt))
      then nth_error (data n) (S j) else nth_error (data n) j.
Proof.
  intros n c cnt pos Hc Hl Ha.
  destruct (@for_up_inv cnode
    (fun i n' => same_meta n n' /\
       forall j, nth_error (data n') j =
         if (Nat.leb pos j && Nat.ltb j i) || (Nat.leb (c + pos) j && Nat.ltb j (c + i))
         then nth_error (data n) (S j) else nth_error (data n) j)
    leaf_shift_left cnt pos n) as (n' & E & SM & P).
  - split; [apply same_meta_refl|]. intros j. bcases.
  - intros i s Hi (SM & P). destruct SM as (M1 & M2 & M3 & M4 & M5 & M6).
    unfold leaf_shift_left.
    destruct (nth_error_lt_Some (data s) (i := i + 1)) as (kx & Ekx); [lia|].
    rewrite (get_key_ok _ _ Ekx). cbn [bind].
    rewrite set_key_ok by lia. cbn [bind].
    destruct (nth_error_lt_Some (data s) (i := c + (i + 1))) as (vx & Evx); [lia|].
    rewrite get_value_ok with (s := vx).
    2:{ autorewrite with nodeproj. rewrite M3, Hc. rewrite nth_error_set_nth_other by lia. exact Evx. }
    cbn [bind].
    rewrite set_value_ok by (autorewrite with nodeproj; lia). eexists. split; [reflexivity|].
    autorewrite with nodeproj. split.
    + unfold same_meta. autorewrite with nodeproj. repeat split; auto.
    + intros j. rewrite M3, Hc. rewrite P in Ekx, Evx.
      rewrite !nth_error_set_nth. autorewrite with nodeproj.
      destruct (Nat.eqb_spec j (c + i)) as [->|n1].
      * rewrite <- Evx. bcases.
      * destruct (Nat.eqb_spec j i) as [->|n2].
        -- rewrite <- Ekx. bcases.
        -- rewrite P. bcases.
  - exists n'. split; [exact E|]. split; [exact SM|]. intros j. rewrite P.
    replace (c + (pos + cnt)) with (c + pos + cnt) by lia. reflexivity.
Qed.

(* ------------------------------------------------------------------ *)
(* reading through the representation *)
Lemma repr_leaf_key : forall cap n id ks vs nx i k,
  repr_leaf cap n id ks vs nx -> nth_error ks i = Some k -> nth_error (data n) i = Some (SObj k).
Proof.
  intros cap n id ks vs nx i k R E. destruct R as (_ & _ & _ & _ & _ & _ & _ & _ & Hk & _).
  change i with (0 + i). apply (holds_nth (l := map SObj ks)); auto. rewrite nth_error_map, E. reflexivity.
Qed.

Lemma repr_leaf_val : forall cap n id ks vs nx i v,
  repr_leaf cap n id ks vs nx -> nth_error vs i = Some v -> nth_error (data n) (ncap n + i) = Some (SObj v).
Proof.
  intros cap n id ks vs nx i v R E. destruct R as (_ & _ & Hc & _ & _ & _ & _ & _ & _ & Hv).
  rewrite Hc. apply (holds_nth (l := map SObj vs)); auto. rewrite nth_error_map, E. reflexivity.
Qed.

Lemma bfound_nth : forall ks z, bfound ks z = true -> exists k, nth_error ks (lb ks z) = Some k /\ kz k = z.
Proof.
  intros ks z H. unfold bfound in H. destruct (nth_error ks (lb ks z)) as [k|] eqn:E; [|discriminate].
  exists k. split; auto. apply Z.eqb_eq. auto.
Qed.

(* the "does the key at pos equal the probe" test of node_insert_leaf *)
Lemma leaf_found_check : forall cap n id ks vs nx z,
  repr_leaf cap n id ks vs nx ->
  (if Nat.ltb (lb ks z) (nk n) then
     do s <- get_key n (lb ks z); do ek <- as_obj 10 s; Ok (Z.eqb (kz ek) z)
   else Ok false) = Ok (bfound ks z).
Proof.
  intros cap n id ks vs nx z R. pose proof R as (_ & _ & _ & Hnk & _).
  rewrite Hnk. unfold bfound. destruct (Nat.ltb_spec (lb ks z) (length ks)) as [Hl|Hl].
  - destruct (@nth_error_lt_Some _ ks _ Hl) as (k & Ek). rewrite Ek.
    rewrite (get_key_ok _ _ (@repr_leaf_key _ _ _ _ _ _ _ _ R Ek)). reflexivity.
  - destruct (nth_error ks (lb ks z)) eqn:E; auto. apply nth_error_Some_lt in E. lia.
Qed.

(* ------------------------------------------------------------------ *)
(* node_insert_leaf, key present: the value is replaced *)
Lemma sim_insert_leaf_update : forall cap n id ks vs nx al rc k v,
  repr_leaf cap n id ks vs nx -> sorted_keys ks -> bfound ks (kz k) = true ->
  exists n', node_insert_leaf al rc n k v =
      Ok (n', decref (incref rc v) (nth_obj vs (lb ks (kz k))), al, IOUpdated) /\
    repr_leaf cap n' id ks (set_nth (lb ks (kz k)) v vs) nx.
Proof.
  intros cap n id ks vs nx al rc k v R Hs Hf.
  pose proof R as (R1 & R2 & R3 & R4 & R5 & R6 & R7 & R8 & R9 & R10).
  destruct (@bfound_nth _ _ Hf) as (ek & Eek & Hek).
  unfold node_insert_leaf.
  rewrite (find_position_spec n ks (kz k) R4 R9 Hs). cbn [bind].
  rewrite (@leaf_found_check _ _ _ _ _ _ (kz k) R). cbn [bind]. rewrite Hf.
  set (pos := lb ks (kz k)) in *.
  assert (Hpos : pos < length ks) by (eapply nth_error_Some_lt; eauto).
  destruct (nth_error_lt_Some vs (i := pos)) as (old & Eold); [lia|].
  rewrite (get_value_ok _ _ (@repr_leaf_val _ _ _ _ _ _ _ _ R Eold)). cbn [bind].
  rewrite set_value_ok by lia. cbn [bind as_obj].
  eexists. split.
  - unfold nth_obj. rewrite (nth_nth_error _ _ _ Eold). reflexivity.
  - unfold repr_leaf. autorewrite with nodeproj. rewrite R3.
    repeat split; auto.
    + intros i Hi. pose proof Hi as Hi'. rewrite map_length in Hi'.
      rewrite nth_error_set_nth_other by lia. apply R9. auto.
    + rewrite map_set_nth. apply holds_set with (d := data n); auto.
      * rewrite map_length. lia.
      * intros j Hj Hlj. rewrite nth_error_set_nth_other by lia. reflexivity.
      * rewrite nth_error_set_nth_same by lia. reflexivity.
Qed.

(* node_insert_leaf, key absent, room left: shift and store *)
Lemma sim_insert_leaf_nosplit : forall cap n id ks vs nx al rc k v,
  repr_leaf cap n id ks vs nx -> sorted_keys ks -> bfound ks (kz k) = false -> length ks < cap ->
  exists n', node_insert_leaf al rc n k v = Ok (n', incref (incref rc k) v, al, IONoSplit) /\
    repr_leaf cap n' id (insert_at (lb ks (kz k)) k ks) (insert_at (lb ks (kz k)) v vs) nx.
Proof.
  intros cap n id ks vs nx al rc k v R Hs Hf Hlt.
  pose proof R as (R1 & R2 & R3 & R4 & R5 & R6 & R7 & R8 & R9 & R10).
  pose proof (lb_le_length ks (kz k)) as Hpos.
  unfold node_insert_leaf.
  rewrite (find_position_spec n ks (kz k) R4 R9 Hs). cbn [bind].
  rewrite (@leaf_found_check _ _ _ _ _ _ (kz k) R). cbn [bind]. rewrite Hf.
  set (pos := lb ks (kz k)) in *.
  destruct (Nat.leb_spec (ncap n) (nk n)); [lia|].
  destruct (@leaf_shift_right_loop n pos cap R3 R6) as (n1 & E1 & SM & P1); [lia|lia|].
  rewrite E1. cbn [bind]. destruct SM as (M1 & M2 & M3 & M4 & M5 & M6).
  rewrite set_key_ok by lia. cbn [bind].
  rewrite set_value_ok by (autorewrite with nodeproj; lia). cbn [bind].
  eexists. split; [reflexivity|].
  unfold repr_leaf. autorewrite with nodeproj. rewrite M1, M2, M3, M4, M5, M6, R3.
  rewrite !length_insert_at by lia.
  repeat split; auto; try lia.
  - rewrite map_insert_at. apply holds_insert with (d := data n); auto.
    + rewrite map_length. lia.
    + intros j Hj. rewrite !nth_error_set_nth_other by lia. rewrite P1. rewrite R4. bcases.
    + rewrite nth_error_set_nth_other by lia. rewrite nth_error_set_nth_same by lia. reflexivity.
    + rewrite map_length. intros j Hj. rewrite !nth_error_set_nth_other by lia. rewrite P1. rewrite R4. bcases.
  - rewrite map_insert_at. apply holds_insert with (d := data n); auto.
    + rewrite map_length. lia.
    + intros j Hj. rewrite !nth_error_set_nth_other by lia. rewrite P1. rewrite R4. bcases.
    + rewrite nth_error_set_nth_same by (autorewrite with nodeproj; lia). reflexivity.
    + rewrite map_length. intros j Hj. rewrite !nth_error_set_nth_other by lia. rewrite P1. rewrite R4. bcases.
Qed.

(* an array [d'] that contains, from [off'] on, the list held by [d] from [off] on with x
   inserted at pos *)
Lemma holds_insert2 : forall d d' off off' (l : list cslot) pos x,
  pos <= length l ->
  (forall j, j < pos -> nth_error d' (off' + j) = nth_error d (off + j)) ->
  nth_error d' (off' + pos) = Some x ->
  (forall j, pos < j <= length l -> nth_error d' (off' + j) = nth_error d (off + (j - 1))) ->
  holds d off l -> holds d' off' (insert_at pos x l).
Proof.
  intros d d' off off' l pos x Hp H1 H2 H3 H i Hi. rewrite length_insert_at in Hi by auto.
  destruct (Nat.lt_trichotomy i pos) as [Hlt|[->|Hgt]].
  - rewrite nth_error_insert_at_lt by lia. rewrite H1 by auto. apply H. lia.
  - rewrite nth_error_insert_at_eq by lia. auto.
  - rewrite nth_error_insert_at_gt by lia. rewrite H3 by lia. apply H. lia.
Qed.

Lemma half_bounds : forall c, 4 <= c -> 2 <= c / 2 /\ c / 2 + c / 2 <= c /\ c <= c / 2 + c / 2 + 1.
Proof.
  intros c H. pose proof (Nat.div_mod c 2). pose proof (Nat.mod_upper_bound c 2). lia.
Qed.

(* node_insert_leaf, key absent, leaf full: split through the temporary arrays *)
Lemma sim_insert_leaf_split : forall cap n id ks vs nx al rc k v,
  4 <= cap -> repr_leaf cap n id ks vs nx -> sorted_keys ks -> bfound ks (kz k) = false ->
  length ks = cap ->
  let pos := lb ks (kz k) in
  let K := insert_at pos k ks in
  let V := insert_at pos v vs in
  let mid := cap / 2 in
  let sep := nth_obj K mid in
  exists n' nn, node_insert_leaf al rc n k v =
      Ok (n', incref (incref (incref rc k) v) sep, N.succ al, IOSplit nn sep) /\
    repr_leaf cap n' id (firstn mid K) (firstn mid V) al /\
    repr_leaf cap nn al (skipn mid K) (skipn mid V) nx.
Proof.
  intros cap n id ks vs nx al rc k v Hcap R Hs Hf Hfull pos K V mid sep.
  pose proof R as (R1 & R2 & R3 & R4 & R5 & R6 & R7 & R8 & R9 & R10).
  pose proof (lb_le_length ks (kz k)) as Hpos. fold pos in Hpos.
  pose proof (half_bounds Hcap) as (G1 & G2 & G3). fold mid in G1, G2, G3.
  assert (LK : length K = S cap) by (unfold K; rewrite length_insert_at; lia).
  assert (LV : length V = S cap) by (unfold V; rewrite length_insert_at; lia).
  unfold node_insert_leaf.
  rewrite (find_position_spec n ks (kz k) R4 R9 Hs). cbn [bind].
  rewrite (@leaf_found_check _ _ _ _ _ _ (kz k) R). cbn [bind]. rewrite Hf.
  fold pos. rewrite R3, R4, Hfull.
  destruct (Nat.leb_spec cap cap); [|lia].
  (* fill the temporary arrays *)
  set (tk0 := repeat (@SNull cnode) (cap + 1)).
  assert (Ltk0 : length tk0 = cap + 1) by apply repeat_length.
  destruct (@leaf_to_temp_loop n cap 0 pos 0 tk0 tk0 R3 R6) as (tk1 & tv1 & E1 & L1k & L1v & P1k & P1v); try lia.
  rewrite E1. cbn [bind fst snd].
  rewrite !arr_set_ok by lia. cbn [bind].
  destruct (@leaf_to_temp_loop n cap 1 (cap - pos) pos (set_nth pos (SObj k) tk1) (set_nth pos (SObj v) tv1) R3 R6)
    as (tk & tv & E2 & L2k & L2v & P2k & P2v); try (rewrite length_set_nth; lia); try lia.
  rewrite E2. cbn [bind]. fold mid. rewrite length_set_nth in L2k, L2v.
  assert (HK : holds tk 0 (map SObj K)).
  { unfold K. rewrite map_insert_at. apply holds_insert2 with (d := data n) (off := 0); auto.
    - rewrite map_length. lia.
    - intros j Hj. cbn [Nat.add]. rewrite P2k. rewrite nth_error_set_nth_other by lia. rewrite P1k. bcases.
    - cbn [Nat.add]. rewrite P2k. rewrite nth_error_set_nth_same by lia. bcases.
    - rewrite map_length. intros j Hj. cbn [Nat.add]. rewrite P2k. bcases. }
  assert (HV : holds tv 0 (map SObj V)).
  { unfold V. rewrite map_insert_at. apply holds_insert2 with (d := data n) (off := cap); auto.
    - rewrite map_length. lia.
    - intros j Hj. cbn [Nat.add]. rewrite P2v. rewrite nth_error_set_nth_other by lia. rewrite P1v. bcases.
    - cbn [Nat.add]. rewrite P2v. rewrite nth_error_set_nth_same by lia. bcases.
    - rewrite map_length. intros j Hj. cbn [Nat.add]. rewrite P2v. bcases. }
  (* first half back into the node, the rest cleared *)
  destruct (@leaf_from_temp_loop (with_nk n mid) cap 0 mid tk tv) as (n2 & E3 & SM2 & P3);
    autorewrite with nodeproj; auto; try lia.
  rewrite E3. cbn [bind].
  destruct SM2 as (A1 & A2 & A3 & A4 & A5 & A6). autorewrite with nodeproj in A1, A2, A3, A4, A5, A6, P3.
  destruct (@leaf_null_loop n2 cap (cap - mid) mid) as (n3 & E4 & SM3 & P4); try lia.
  rewrite E4. cbn [bind]. destruct SM3 as (B1 & B2 & B3 & B4 & B5 & B6).
  (* second half into the new node *)
  destruct (@leaf_from_temp_loop (with_nk (node_create al NLeaf cap) (cap + 1 - mid)) cap mid (cap + 1 - mid) tk tv)
    as (m2 & E5 & SM5 & P5); autorewrite with nodeproj; try reflexivity; try lia.
  { cbn. rewrite repeat_length. lia. }
  rewrite E5. cbn [bind].
  destruct SM5 as (C1 & C2 & C3 & C4 & C5 & C6). autorewrite with nodeproj in C1, C2, C3, C4, C5, C6, P5.
  cbn [node_create nid nty ncap nk next data] in C1, C2, C3, C4, C5, C6. rewrite repeat_length in C6.
  unfold data_len in C6.
  (* the separator *)
  assert (Esep : nth_error K mid = Some sep).
  { unfold sep, nth_obj. destruct (nth_error_lt_Some K (i := mid)) as (x & Ex); [lia|].
    rewrite (nth_nth_error _ _ _ Ex). exact Ex. }
  assert (Esk : get_key (with_next m2 (next n3)) 0 = Ok (SObj sep)).
  { apply get_key_ok. autorewrite with nodeproj. rewrite P5.
    destruct (Nat.ltb_spec 0 (cap + 1 - mid)); [|lia].
    rewrite Nat.add_0_r. change mid with (0 + mid). rewrite (HK mid) by (rewrite map_length; lia).
    rewrite nth_error_map, Esep. reflexivity. }
  rewrite Esk. cbn [bind as_obj].
  eexists. eexists. split; [reflexivity|]. split.
  - (* left node *)
    unfold repr_leaf. autorewrite with nodeproj.
    rewrite !firstn_length, LK, LV.
    repeat split; try lia; try congruence.
    + intros i Hi. rewrite map_length, firstn_length, LK in Hi. cbn [Nat.add].
      rewrite P4. rewrite P3.
      rewrite nth_error_map, nth_error_firstn_lt by lia. rewrite <- nth_error_map.
      rewrite <- (HK i) by (rewrite map_length; lia). bcases.
    + intros i Hi. rewrite map_length, firstn_length, LV in Hi.
      rewrite P4. rewrite P3.
      rewrite nth_error_map, nth_error_firstn_lt by lia. rewrite <- nth_error_map.
      rewrite <- (HV i) by (rewrite map_length; lia). bcases.
  - (* new node *)
    unfold repr_leaf. autorewrite with nodeproj.
    rewrite !skipn_length, LK, LV.
    repeat split; try lia; try congruence.
    + intros i Hi. rewrite map_length, skipn_length, LK in Hi. cbn [Nat.add].
      rewrite P5. rewrite nth_error_map, nth_error_skipn_add. rewrite <- nth_error_map.
      rewrite <- (HK (mid + i)) by (rewrite map_length; lia). bcases.
    + intros i Hi. rewrite map_length, skipn_length, LV in Hi.
      rewrite P5. rewrite nth_error_map, nth_error_skipn_add. rewrite <- nth_error_map.
      rewrite <- (HV (mid + i)) by (rewrite map_length; lia). bcases.
Qed.

(* targeted evaluation of the pointwise descriptions *)
Ltac simp_set := repeat (rewrite nth_error_set_nth_other by (autorewrite with nodeproj; lia)).
Ltac if_false :=
  match goal with |- context [if ?c then _ else _] => replace c with false by (symmetry; bcases) end.
Ltac if_true :=
  match goal with |- context [if ?c then _ else _] => replace c with true by (symmetry; bcases) end.

(* ------------------------------------------------------------------ *)
(* node_get *)
Lemma sim_get_leaf : forall cap n id ks vs nx rc z,
  repr_leaf cap n id ks vs nx -> sorted_keys ks ->
  node_get rc n z =
    Ok (if bfound ks z then (incref rc (nth_obj vs (lb ks z)), Some (nth_obj vs (lb ks z)))
        else (rc, None)).
Proof.
  intros cap n id ks vs nx rc z R Hs.
  pose proof R as (R1 & R2 & R3 & R4 & R5 & R6 & R7 & R8 & R9 & R10).
  unfold node_get. rewrite (find_position_spec n ks z R4 R9 Hs). cbn [bind].
  rewrite R4. unfold bfound.
  destruct (Nat.ltb_spec (lb ks z) (length ks)) as [Hl|Hl].
  - destruct (@nth_error_lt_Some _ ks _ Hl) as (k & Ek). rewrite Ek.
    rewrite (get_key_ok _ _ (@repr_leaf_key _ _ _ _ _ _ _ _ R Ek)). cbn [bind as_obj].
    destruct (Z.eqb (kz k) z); [|reflexivity].
    destruct (nth_error_lt_Some vs (i := lb ks z)) as (v & Ev); [lia|].
    rewrite (get_value_ok _ _ (@repr_leaf_val _ _ _ _ _ _ _ _ R Ev)). cbn [bind as_obj].
    unfold nth_obj. rewrite (nth_nth_error _ _ _ Ev). reflexivity.
  - destruct (nth_error ks (lb ks z)) eqn:E; auto. apply nth_error_Some_lt in E. lia.
Qed.

(* ------------------------------------------------------------------ *)
(* node_delete *)
Lemma sim_delete_leaf_absent : forall cap n id ks vs nx rc z,
  repr_leaf cap n id ks vs nx -> sorted_keys ks -> bfound ks z = false ->
  node_delete rc n z = Ok (n, rc, false).
Proof.
  intros cap n id ks vs nx rc z R Hs Hf.
  pose proof R as (R1 & R2 & R3 & R4 & R5 & R6 & R7 & R8 & R9 & R10).
  unfold node_delete. rewrite R2. rewrite (find_position_spec n ks z R4 R9 Hs). cbn [bind].
  rewrite R4. unfold bfound in Hf.
  destruct (Nat.leb_spec (length ks) (lb ks z)) as [Hl|Hl]; [reflexivity|].
  destruct (@nth_error_lt_Some _ ks _ Hl) as (k & Ek). rewrite Ek in Hf.
  rewrite (get_key_ok _ _ (@repr_leaf_key _ _ _ _ _ _ _ _ R Ek)). cbn [bind as_obj].
  rewrite Hf. reflexivity.
Qed.

Lemma sim_delete_leaf_present : forall cap n id ks vs nx rc z,
  1 <= cap -> repr_leaf cap n id ks vs nx -> sorted_keys ks -> bfound ks z = true ->
  exists n', node_delete rc n z =
      Ok (n', decref (decref rc (nth_obj ks (lb ks z))) (nth_obj vs (lb ks z)), true) /\
    repr_leaf cap n' id (remove_at (lb ks z) ks) (remove_at (lb ks z) vs) nx.
Proof.
  intros cap n id ks vs nx rc z Hcap R Hs Hf.
  pose proof R as (R1 & R2 & R3 & R4 & R5 & R6 & R7 & R8 & R9 & R10).
  destruct (@bfound_nth _ _ Hf) as (k & Ek & Hk).
  unfold node_delete. rewrite R2. rewrite (find_position_spec n ks z R4 R9 Hs). cbn [bind].
  set (pos := lb ks z) in *.
  assert (Hpos : pos < length ks) by (eapply nth_error_Some_lt; eauto).
  destruct (nth_error_lt_Some vs (i := pos)) as (v & Ev); [lia|].
  rewrite R4. destruct (Nat.leb_spec (length ks) pos); [lia|].
  pose proof (@repr_leaf_key _ _ _ _ _ _ _ _ R Ek) as Dk.
  pose proof (@repr_leaf_val _ _ _ _ _ _ _ _ R Ev) as Dv.
  rewrite (get_key_ok _ _ Dk). cbn [bind as_obj].
  rewrite Hk, Z.eqb_refl. cbn [negb].
  (* node_clear_slot *)
  unfold node_clear_slot. rewrite R3. destruct (Nat.leb_spec cap pos); [lia|].
  rewrite (get_key_ok _ _ Dk). cbn [bind xdecref].
  rewrite (get_value_ok _ _ Dv). cbn [bind xdecref].
  rewrite set_key_ok by lia. cbn [bind].
  rewrite set_value_ok by (autorewrite with nodeproj; lia). cbn [bind].
  autorewrite with nodeproj. rewrite R3.
  set (n1 := with_data n (set_nth (cap + pos) SNull (set_nth pos SNull (data n)))).
  destruct (@leaf_shift_left_loop n1 cap (nk n - 1 - pos) pos) as (n2 & E2 & SM & P2);
    unfold n1; autorewrite with nodeproj; auto; try lia.
  fold n1. fold n1 in E2, SM, P2. rewrite E2. cbn [bind].
  destruct SM as (M1 & M2 & M3 & M4 & M5 & M6). unfold n1 in M1, M2, M3, M4, M5, M6.
  autorewrite with nodeproj in M1, M2, M3, M4, M5, M6.
  rewrite set_key_ok by (autorewrite with nodeproj; lia). cbn [bind].
  rewrite set_value_ok by (autorewrite with nodeproj; lia). cbn [bind].
  eexists. split.
  - unfold nth_obj. rewrite (nth_nth_error _ _ _ Ek), (nth_nth_error _ _ _ Ev). reflexivity.
  - unfold repr_leaf. autorewrite with nodeproj.
    rewrite !length_remove_at by lia.
    repeat split; try lia; try congruence.
    + rewrite map_remove_at. apply holds_remove with (d := data n); auto.
      * rewrite map_length. lia.
      * intros j Hj. cbn [Nat.add]. simp_set. rewrite P2. if_false.
        unfold n1. autorewrite with nodeproj. simp_set. reflexivity.
      * rewrite map_length. intros j Hj Hj2. cbn [Nat.add]. simp_set. rewrite P2. if_true.
        unfold n1. autorewrite with nodeproj. simp_set. reflexivity.
    + rewrite map_remove_at. apply holds_remove with (d := data n); auto.
      * rewrite map_length. lia.
      * intros j Hj. simp_set. rewrite P2. if_false.
        unfold n1. autorewrite with nodeproj. simp_set. reflexivity.
      * rewrite map_length. intros j Hj Hj2. simp_set. rewrite P2. if_true.
        unfold n1. autorewrite with nodeproj. simp_set. f_equal. lia.
Qed.
