(* The wrapper methods of the package class BPlusTreeMap (compositions of the C-type
   operations, C/Run.v) refine dict's get / clear / pop / popitem / setdefault / update /
   copy and preserve the relation R. *)
From Coq Require Import List Arith ZArith NArith Lia Bool Permutation.
From BPT Require Import Common.Base Common.AMap Rust.Tree Rust.Lib C.Node C.Tree C.Run C.Abs
  C.ArrLib C.PInv C.PFacts C.PDelete C.TreeProofs C.IterDefs C.IterProofs C.Dealloc C.Spec
  C.StepDefs C.StepCore.
Import ListNotations.
Set Implicit Arguments.

(* ------------------------------------------------------------------ *)
(* get / pop / setdefault *)
Lemma refines_WGet : forall s a z d, R s a -> refines s a (WGet z d).
Proof.
  start_op.
  rewrite (tree_get_ok (release (st_rc s) (st_held s)) z I). cbn [bind]. rewrite Etm.
  pose proof (r_iters HR1) as Ri. cbn [released st_tree st_iters] in Ri. rewrite Et in Ri.
  destruct (m_get m z) as [v|]; cbn [fst snd].
  - eexists. eexists. split; [reflexivity|]. split; [|reflexivity].
    constructor; cbn [set_tree st_tree st_copy st_iters st_rc st_held].
    + rewrite ?Em. split; auto.
    + apply (r_copy HR1).
    + exact Ri.
    + intros o. rewrite rc_get_incref, Hrc. cbn [orefs map]. rewrite !cnt_app, cnt_cons, cnt_nil. lia.
  - eexists. eexists. split; [reflexivity|]. split; [|reflexivity].
    constructor; cbn [set_tree st_tree st_copy st_iters st_rc st_held].
    + rewrite ?Em. split; auto.
    + apply (r_copy HR1).
    + exact Ri.
    + intros o. rewrite rc_get_incref, Hrc. cbn [orefs map]. rewrite !cnt_app, cnt_cons, cnt_nil. lia.
Qed.

Lemma refines_WPop : forall s a z d, R s a -> refines s a (WPop z d).
Proof.
  start_op.
  rewrite (tree_get_ok (release (st_rc s) (st_held s)) z I). cbn [bind]. rewrite Etm.
  pose proof (r_iters HR1) as Ri. cbn [released st_tree st_iters] in Ri. rewrite Et in Ri.
  destruct (m_get m z) as [v|] eqn:Eg; cbn [fst snd].
  - destruct (@tree_delitem_ok t (incref (release (st_rc s) (st_held s)) v) z I)
      as (t' & rc' & b & E & I' & Em' & Eb & Ecap & Emod & Hrc').
    rewrite Etm, Eg in Eb. cbn [is_some] in Eb. subst b.
    rewrite E. cbn [bind fst snd]. eexists. eexists. split; [reflexivity|]. split; [|reflexivity].
    constructor; cbn [set_tree modified st_tree st_copy st_iters st_rc st_held a_map a_copy a_iters released].
    + split; auto. congruence.
    + apply (r_copy HR1).
    + apply iters_rel_modified with (t := t); auto. lia.
    + intros o. rewrite Hrc', rc_get_incref, Hrc. cbn [orefs map]. rewrite !cnt_app, cnt_cons, cnt_nil. lia.
  - destruct d as [dv|].
    + eexists. eexists. split; [reflexivity|]. split; [|reflexivity].
      constructor; cbn [set_tree st_tree st_copy st_iters st_rc st_held fst].
      * rewrite ?Em. split; auto.
      * apply (r_copy HR1).
      * exact Ri.
      * intros o. rewrite rc_get_incref, Hrc. cbn [orefs map]. rewrite !cnt_app, cnt_cons, cnt_nil. lia.
    + eexists. eexists. split; [reflexivity|]. split; [|reflexivity].
      constructor; cbn [set_tree st_tree st_copy st_iters st_rc st_held fst].
      * rewrite ?Em. split; auto.
      * apply (r_copy HR1).
      * exact Ri.
      * intros o. rewrite Hrc. cbn [orefs map]. rewrite !cnt_app, cnt_nil. lia.
Qed.

Lemma refines_WSetdefault : forall s a k d, R s a -> refines s a (WSetdefault k d).
Proof.
  start_op.
  rewrite (tree_get_ok (release (st_rc s) (st_held s)) (kz k) I). cbn [bind]. rewrite Etm.
  pose proof (r_iters HR1) as Ri. cbn [released st_tree st_iters] in Ri. rewrite Et in Ri.
  destruct (m_get m (kz k)) as [v|] eqn:Eg; cbn [fst snd].
  - eexists. eexists. split; [reflexivity|]. split; [|reflexivity].
    constructor; cbn [set_tree st_tree st_copy st_iters st_rc st_held].
    + rewrite ?Em. split; auto.
    + apply (r_copy HR1).
    + exact Ri.
    + intros o. rewrite rc_get_incref, Hrc. cbn [orefs map]. rewrite !cnt_app, cnt_cons, cnt_nil. lia.
  - destruct (@tree_insert_ok t (release (st_rc s) (st_held s)) k d I)
      as (t' & rc' & E & I' & Em' & Ecap & Emod & Hrc').
    rewrite E. cbn [bind fst snd]. eexists. eexists. split; [reflexivity|]. split; [|reflexivity].
    constructor; cbn [set_tree modified st_tree st_copy st_iters st_rc st_held a_map a_copy a_iters released].
    + split; auto. congruence.
    + apply (r_copy HR1).
    + apply iters_rel_modified with (t := t); auto. lia.
    + intros o. rewrite rc_get_incref, Hrc', Hrc. cbn [orefs map]. rewrite !cnt_app, cnt_cons, cnt_nil. lia.
Qed.

(* ------------------------------------------------------------------ *)
(* popitem *)
Lemma refines_WPopitem : forall s a, R s a -> refines s a WPopitem.
Proof.
  start_op.
  destruct (@iter_new_ok t true I) as (it & E & Einc & Est & Hat).
  rewrite E. cbn [bind].
  destruct (@iter_next_ok t (release (st_rc s) (st_held s)) it 0 I Est Hat) as (it' & E2 & _).
  rewrite E2. cbn [bind]. unfold expected_out. rewrite Etm, Einc.
  pose proof (r_iters HR1) as Ri. cbn [released st_tree st_iters] in Ri. rewrite Et in Ri.
  destruct m as [|[k v] m']; cbn [nth_error expected_rc].
  - eexists. eexists. split; [reflexivity|]. split; [|reflexivity]. exact HR1n.
  - destruct (@tree_delitem_ok t (incref (incref (release (st_rc s) (st_held s)) k) v) (kz k) I)
      as (t' & rc' & b & E3 & I' & Em' & Eb & Ecap & Emod & Hrc').
    rewrite Etm in Eb, Em'. cbn [m_get m_remove] in Eb, Em'. rewrite Z.eqb_refl in Eb, Em'.
    cbn [is_some] in Eb. subst b.
    rewrite E3. cbn [bind fst snd]. eexists. eexists. split; [reflexivity|]. split; [|reflexivity].
    constructor; cbn [set_tree modified st_tree st_copy st_iters st_rc st_held a_map a_copy a_iters released].
    + split; auto.
    + apply (r_copy HR1).
    + apply iters_rel_modified with (t := t); auto. lia.
    + intros o. rewrite Hrc', !rc_get_incref, Hrc. cbn [orefs map]. rewrite !cnt_app, !cnt_cons, cnt_nil. lia.
Qed.

(* ------------------------------------------------------------------ *)
(* update *)
Lemma w_update_ok : forall l t rc, CInv t ->
  exists t' rc', w_update t rc l = Ok (t', rc') /\ CInv t' /\
    tree_map t' = m_update_all (tree_map t) l /\
    modc t <= modc t' /\ (l <> [] -> modc t < modc t') /\
    (forall o, rc_get rc' o =
       rc_get rc o + cnt (prefs (abs (root t'))) o - cnt (prefs (abs (root t))) o)%Z.
Proof.
  induction l as [|[k v] l IH]; intros t rc I.
  - exists t, rc. cbn [w_update m_update_all fold_left]. split; [reflexivity|]. split; [exact I|].
    split; [reflexivity|]. split; [lia|]. split; [congruence|]. intros o. lia.
  - destruct (@tree_insert_ok t rc k v I) as (t1 & rc1 & E & I1 & Em1 & _ & Emod1 & Hrc1).
    destruct (IH t1 rc1 I1) as (t' & rc' & E' & I' & Em' & Hle & _ & Hrc').
    exists t', rc'. cbn [w_update]. rewrite E. cbn [bind fst snd]. split; [exact E'|].
    split; [exact I'|]. split.
    + rewrite Em', Em1. reflexivity.
    + split; [lia|]. split; [intros _; lia|]. intros o. rewrite Hrc', Hrc1. lia.
Qed.

Lemma refines_WUpdate : forall s a l, R s a -> refines s a (WUpdate l).
Proof.
  start_op.
  destruct (@w_update_ok l t (release (st_rc s) (st_held s)) I)
    as (t' & rc' & E & I' & Em' & Hle & Hlt & Hrc').
  rewrite E. cbn [bind fst snd]. eexists. eexists. split; [reflexivity|]. split; [|reflexivity].
  pose proof (r_iters HR1) as Ri. cbn [released st_tree st_iters] in Ri. rewrite Et in Ri.
  destruct l as [|e l].
  - cbn [w_update] in E. assert (t' = t /\ rc' = release (st_rc s) (st_held s)) as (-> & ->)
      by (split; congruence).
    exact HR1n.
  - constructor; cbn [set_tree modified st_tree st_copy st_iters st_rc st_held a_map a_copy a_iters released].
    + split; auto. congruence.
    + apply (r_copy HR1).
    + apply iters_rel_modified with (t := t); auto. apply Hlt. discriminate.
    + intros o. rewrite Hrc', Hrc. cbn [orefs map]. rewrite !cnt_app, cnt_nil. lia.
Qed.

(* ------------------------------------------------------------------ *)
(* clear *)
Lemma w_clear_ok : forall fuel t rc, CInv t -> length (tree_map t) < fuel ->
  exists t' rc', w_clear fuel t rc = Ok (t', rc') /\ CInv t' /\ tree_map t' = [] /\
    modc t <= modc t' /\ (tree_map t <> [] -> modc t < modc t') /\
    (tree_map t = [] -> t' = t /\ rc' = rc) /\
    (forall o, rc_get rc' o =
       rc_get rc o + cnt (prefs (abs (root t'))) o - cnt (prefs (abs (root t))) o)%Z.
Proof.
  induction fuel as [|f IH]; intros t rc I Hf; [lia|].
  cbn [w_clear]. rewrite (tree_length_ok I).
  destruct (tree_map t) as [|[k v] m'] eqn:Em.
  - cbn [length Nat.eqb]. exists t, rc. split; [reflexivity|]. split; [exact I|]. split; [exact Em|].
    split; [lia|]. split; [congruence|]. split; [auto|]. intros o. lia.
  - cbn [length Nat.eqb].
    destruct (@iter_new_ok t false I) as (it & E & Einc & Est & Hat).
    rewrite E. cbn [bind].
    destruct (@iter_next_ok t rc it 0 I Est Hat) as (it' & E2 & _).
    rewrite E2. cbn [bind]. unfold expected_out. rewrite Em, Einc. cbn [nth_error expected_rc].
    destruct (@tree_delitem_ok t (incref rc k) (kz k) I)
      as (t1 & rc1 & b & E3 & I1 & Em1 & Eb & Ecap & Emod & Hrc1).
    rewrite Em in Eb, Em1. cbn [m_get m_remove] in Eb, Em1. rewrite Z.eqb_refl in Eb, Em1.
    cbn [is_some] in Eb. subst b.
    rewrite E3. cbn [bind].
    destruct (IH t1 (decref rc1 k) I1) as (t' & rc' & E' & I' & Em' & Hle & _ & _ & Hrc').
    { rewrite Em1. cbn [length] in Hf. lia. }
    exists t', rc'. split; [exact E'|]. split; [exact I'|]. split; [exact Em'|].
    split; [lia|]. split; [intros _; lia|]. split; [discriminate|].
    intros o. rewrite Hrc', rc_get_decref, Hrc1, rc_get_incref. lia.
Qed.

Lemma refines_WClear : forall s a, R s a -> refines s a WClear.
Proof.
  start_op.
  destruct (@w_clear_ok (S (size t)) t (release (st_rc s) (st_held s)) I)
    as (t' & rc' & E & I' & Em' & Hle & Hlt & Hsame & Hrc').
  { rewrite (ci_size I). fold (tree_map t). lia. }
  rewrite E. cbn [bind fst snd]. eexists. eexists. split; [reflexivity|]. split; [|reflexivity].
  pose proof (r_iters HR1) as Ri. cbn [released st_tree st_iters] in Ri. rewrite Et in Ri.
  rewrite Etm in *.
  destruct m as [|e m'].
  - destruct (Hsame eq_refl) as (-> & ->). exact HR1n.
  - constructor; cbn [set_tree modified st_tree st_copy st_iters st_rc st_held a_map a_copy a_iters released].
    + split; auto.
    + apply (r_copy HR1).
    + apply iters_rel_modified with (t := t); auto. apply Hlt. discriminate.
    + intros o. rewrite Hrc', Hrc. cbn [orefs map]. rewrite !cnt_app, cnt_nil. lia.
Qed.

(* ------------------------------------------------------------------ *)
(* copy *)
Lemma m_insert_firstn : forall (m : list (key * key)) p k v, m_sorted m ->
  nth_error m p = Some (k, v) -> m_insert (firstn p m) k v = firstn (S p) m.
Proof.
  induction m as [|[k' v'] m IH]; intros p k v Hs En.
  - destruct p; discriminate.
  - destruct p as [|p].
    + cbn [nth_error] in En. inversion En; subst. reflexivity.
    + cbn [nth_error] in En. apply Lib_m_sorted_cons_inv in Hs. destruct Hs as (Hs & Hall).
      pose proof (Hall _ (nth_error_In _ _ En)) as Hlt. cbn [fst] in Hlt.
      change (firstn (S p) ((k', v') :: m)) with ((k', v') :: firstn p m).
      change (firstn (S (S p)) ((k', v') :: m)) with ((k', v') :: firstn (S p) m).
      cbn [m_insert].
      destruct (Z.ltb_spec (kz k) (kz k')); [lia|].
      destruct (Z.eqb_spec (kz k) (kz k')); [lia|].
      f_equal. apply IH; auto.
Qed.

Lemma w_copy_loop_ok : forall fuel t it nt rc p, CInv t ->
  it_stamp it = modc t -> it_inc it = true ->
  it_at (abs (root t)) (it_cur it) (it_idx it) p -> p <= length (tree_map t) ->
  CInv nt -> tree_map nt = firstn p (tree_map t) -> length (tree_map t) - p < fuel ->
  exists nt' rc', w_copy_loop fuel t it nt rc = Ok (nt', rc') /\ CInv nt' /\
    tree_map nt' = tree_map t /\
    (forall o, rc_get rc' o =
       rc_get rc o + cnt (prefs (abs (root nt'))) o - cnt (prefs (abs (root nt))) o)%Z.
Proof.
  induction fuel as [|f IH]; intros t it nt rc p I Hst Hinc Hat Hp In Emn Hf; [lia|].
  destruct (@iter_next_ok t rc it p I Hst Hat) as (it' & E & Einc & Est & Hat').
  cbn [w_copy_loop]. rewrite E. cbn [bind]. unfold expected_out in *. rewrite Hinc in *.
  destruct (nth_error (tree_map t) p) as [[k v]|] eqn:En.
  - assert (Hlt : p < length (tree_map t)) by (apply nth_error_Some; congruence).
    destruct (Nat.ltb_spec p (length (tree_map t))); [|lia].
    cbn [expected_rc].
    destruct (@tree_insert_ok nt (incref (incref rc k) v) k v In)
      as (nt1 & rc2 & E2 & In1 & Em1 & _ & _ & Hrc2).
    rewrite E2. cbn [bind].
    rewrite Emn, (@m_insert_firstn _ _ _ _ (CInv_sorted I) En) in Em1.
    destruct (IH t it' nt1 (decref (decref rc2 k) v) (S p) I) as (nt' & rc' & E' & In' & Em' & Hrc');
      auto; try lia; try congruence.
    exists nt', rc'. split; [exact E'|]. split; [exact In'|]. split; [exact Em'|].
    intros o. rewrite Hrc', !rc_get_decref, Hrc2, !rc_get_incref. lia.
  - apply nth_error_None in En. assert (p = length (tree_map t)) by lia. subst p.
    rewrite firstn_all in Emn. cbn [expected_rc].
    exists nt, rc. split; [reflexivity|]. split; [exact In|]. split; [exact Emn|]. intros o. lia.
Qed.

Lemma tree_init_default : exists nt,
  tree_init (Z.of_nat DEFAULT_CAPACITY) = Some nt /\ prefs (abs (root nt)) = [].
Proof. eexists. split; [reflexivity|]. vm_compute. reflexivity. Qed.

Lemma w_copy_ok : forall t rc, CInv t ->
  exists nt rc', w_copy t rc = Ok (Some nt, rc') /\ CInv nt /\ tree_map nt = tree_map t /\
    (forall o, rc_get rc' o = rc_get rc o + cnt (prefs (abs (root nt))) o)%Z.
Proof.
  intros t rc I. destruct tree_init_default as (nt0 & Ei & Ep).
  destruct (tree_init_ok _ Ei) as (In0 & Em0 & _).
  destruct (@iter_new_ok t true I) as (it & E & Einc & Est & Hat).
  destruct (@w_copy_loop_ok (drain_fuel t) t it nt0 rc 0 I Est Einc Hat) as (nt & rc' & El & In & Emn & Hrc');
    auto; try lia.
  { unfold drain_fuel. rewrite (ci_size I). fold (tree_map t). lia. }
  exists nt, rc'. unfold w_copy. rewrite Ei, E. cbn [bind]. rewrite El. cbn [bind fst snd].
  split; [reflexivity|]. split; [exact In|]. split; [exact Emn|].
  intros o. rewrite Hrc', Ep, cnt_nil. lia.
Qed.

Lemma refines_WCopy : forall s a, R s a -> refines s a WCopy.
Proof.
  start_op.
  destruct (@w_copy_ok t (release (st_rc s) (st_held s)) I) as (nt & rc1 & E & In & Emn & Hrc1).
  rewrite E. cbn [bind].
  pose proof (r_iters HR1n) as Ri. cbn [st_tree st_iters] in Ri.
  pose proof (r_copy HR1n) as Rc. cbn [st_copy] in Rc.
  destruct (st_copy s) as [old|] eqn:Ec.
  - destruct (a_copy a) as [mc|] eqn:Eac; [|contradiction]. destruct Rc as (Io & _).
    destruct (@tree_dealloc_ok old rc1 Io) as (rc2 & Ed & Hrc2).
    rewrite Ed. cbn [bind]. eexists. eexists. split; [reflexivity|]. split; [|reflexivity].
    constructor; cbn [st_tree st_copy st_iters st_rc st_held a_map a_copy a_iters fst].
    + rewrite ?Em. split; auto.
    + split; auto. congruence.
    + exact Ri.
    + intros o. rewrite Hrc2, Hrc1, Hrc. cbn [orefs map]. rewrite !cnt_app, cnt_nil. lia.
  - cbn [bind]. eexists. eexists. split; [reflexivity|]. split; [|reflexivity].
    constructor; cbn [st_tree st_copy st_iters st_rc st_held a_map a_copy a_iters fst].
    + rewrite ?Em. split; auto.
    + split; auto. congruence.
    + exact Ri.
    + intros o. rewrite Hrc1, Hrc. cbn [orefs map]. rewrite !cnt_app, cnt_nil. lia.
Qed.

(* ------------------------------------------------------------------ *)
(* swap *)
Lemma refines_WSwap : forall s a, R s a -> refines s a WSwap.
Proof.
  start_op.
  pose proof (r_copy HR1n) as Rc. cbn [st_copy] in Rc.
  destruct (st_copy s) as [c|] eqn:Ec; destruct (a_copy a) as [mc|] eqn:Eac; try contradiction.
  - eexists. eexists. split; [reflexivity|]. split; [|reflexivity].
    constructor; cbn [st_tree st_copy st_iters st_rc st_held a_map a_copy a_iters fst].
    + exact Rc.
    + split; auto.
    + constructor.
    + intros o. rewrite Hrc. cbn [orefs map]. rewrite !cnt_app, cnt_nil. lia.
  - eexists. eexists. split; [reflexivity|]. split; [|reflexivity]. exact HR1n.
Qed.
