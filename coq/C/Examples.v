(* Non-vacuity: a concrete history (capacity 4) that exercises leaf splits, a branch split
   and root splits, an overwrite through an equal-but-distinct key object, deletions that
   empty a leaf, a stale iterator, a failing deletion that leaves an iterator valid, and
   the wrapper methods — evaluated inside Coq.  And the refutation of the property for the
   constructor as it was before the repair (capacity narrowed to uint16_t unchecked). *)
From Coq Require Import List ZArith NArith Bool.
From BPT Require Import Common.Base Common.AMap Rust.Tree C.Node C.Tree C.Run C.Abs C.PInv C.Spec.
Import ListNotations.

Definition exK (z : Z) : key := mkKey z (Z.to_N (2 * z)).
Definition exK' (z : Z) : key := mkKey z (Z.to_N (2 * z + 1000)).    (* equal, other object *)
Definition exV (z : Z) : key := mkKey 0 (Z.to_N (2 * z + 1)).

Definition ex_ops : list op :=
  map (fun z => OSet (exK z) (exV z)) [5;3;9;7;1;2;8;4;6;10;11;12;13;14;15;16;17]%Z ++
  [OSet (exK' 5) (exV 50); OGet 5; OGet 99; OIn 7; OIn 70; OLen;
   OItNew 1 true; OItNext 1; OItNext 1;
   ODel 1; ODel 2; ODel 3; ODel 4; ODel 3;
   OItNext 1; OItNew 2 false; OItNext 2; ODel 99; OItNext 2; OKeys;
   WGet 77 (exV 100); WPop 7 None; WPopitem; WSetdefault (exK 20) (exV 103);
   WUpdate [(exK 30, exV 104); (exK 6, exV 105)];
   WCopy; WValues; WClear; OLen; WSwap; OItems; WCapacity].

Definition ex_final := run (fst (st_init 4)) ex_ops.

(* the model answers exactly what the specification answers *)
Example ex_matches_spec : snd ex_final = snd (spec_run (fst (a_init 4)) ex_ops).
Proof. vm_compute. reflexivity. Qed.

(* the overwrite through exK' 5 kept the FIRST key object (id 10) and replaced the value *)
Example ex_keeps_first_key : nth 18 (snd ex_final) UNone = UVal (exV 50) /\
  nth 33 (snd ex_final) UNone = UKey (exK 5).
Proof. vm_compute. split; reflexivity. Qed.

(* iterator 1 was advanced after four deletions: RuntimeError; iterator 2 survived a
   failing deletion *)
Example ex_fail_fast : nth 31 (snd ex_final) UNone = URuntimeError /\
  nth 34 (snd ex_final) UNone = UKeyError /\ nth 35 (snd ex_final) UNone = UKey (exK 6).
Proof. vm_compute. repeat split; reflexivity. Qed.

(* after 30 calls the tree has two branch levels and its first leaf is EMPTY *)
Fixpoint pdepth (fuel : nat) (t : ptree) : nat :=
  match fuel with
  | O => O
  | S f => match t with
           | PLeaf _ _ _ _ _ => O
           | PBranch _ _ _ cs => match cs with c :: _ => S (pdepth f c) | [] => 1 end
           end
  end.
Fixpoint first_leaf_keys (fuel : nat) (t : ptree) : option (list key) :=
  match fuel with
  | O => None
  | S f => match t with
           | PLeaf _ _ ks _ _ => Some ks
           | PBranch _ _ _ cs => match cs with c :: _ => first_leaf_keys f c | [] => None end
           end
  end.
Definition ex_mid := fst (run (fst (st_init 4)) (firstn 30 ex_ops)).
Example ex_shape :
  option_map (fun t => (pdepth 5 (abs (root t)), first_leaf_keys 5 (abs (root t)), size t))
             (st_tree ex_mid) = Some (2, Some [], 13).
Proof. vm_compute. reflexivity. Qed.

(* dropping the result, the copy and the tree releases every reference *)
Example ex_all_released :
  match finish (fst ex_final) with
  | Ok rc => forallb (fun e => Z.eqb (snd e) 0) rc
  | _ => false
  end = true.
Proof. vm_compute. reflexivity. Qed.

(* ------------------------------------------------------------------ *)
(* The constructor before the repair stored the capacity in uint16_t without a range
   check: capacity 65536 became 0, and the first insertion writes outside the (empty)
   node array.  The property "a capacity the node layout cannot represent is rejected"
   is what rules this out. *)
Definition legacy_state (c : Z) : cstate :=
  match tree_init_legacy c with
  | Some t => mkSt (Some t) None [] [] []
  | None => mkSt None None [] [] []
  end.

Example c_capacity_truncation_refuted :
  snd (step (legacy_state 65536) (OSet (exK 1) (exV 1))) = UOOB 4.
Proof. vm_compute. reflexivity. Qed.

(* with the range check the same call sequence is refused at construction *)
Example c_capacity_rejected_example :
  snd (st_init 65536) = UValueError /\ snd (st_init 3) = UValueError /\
  snd (st_init 65535) = UNone /\ snd (st_init 4) = UNone.
Proof. vm_compute. repeat split; reflexivity. Qed.
