(* Invariants of the C tree on the list level (definitions only).
   Ord    : [Rust.InvDefs.ord] — node keys strictly ascending, every key of a subtree within
            the half-open interval its ancestors' separators allow (bisect_right routing);
   cshape : all leaves at depth h, |vals| = |keys|, |children| = |keys|+1, at most cap keys
            per node, capacity fields equal cap.  NO minimum occupancy: delete never
            rebalances, leaves may be empty;
   chain  : each in-order leaf's next is the address of the following leaf, the last is 0;
   ids    : node addresses are distinct, non-null and below the allocator's next address. *)
From Coq Require Import List Arith ZArith NArith Lia Bool Permutation.
From BPT Require Import Common.Base Common.AMap Rust.Tree Rust.Readers Rust.InvDefs Rust.InsertLocal
  C.Node C.Tree C.Abs.
Import ListNotations.
Set Implicit Arguments.

Inductive cshape (cap : nat) : nat -> ptree -> Prop :=
| cs_leaf id ks vs nx :
    length vs = length ks -> length ks <= cap -> cshape cap 0 (PLeaf id cap ks vs nx)
| cs_branch h id ks cs :
    length cs = S (length ks) -> length ks <= cap ->
    (forall ch, In ch cs -> cshape cap h ch) ->
    cshape cap (S h) (PBranch id cap ks cs).

Fixpoint all_ids (t : ptree) : list N :=
  match t with
  | PLeaf id _ _ _ _ => [id]
  | PBranch id _ _ cs => id :: flat_map all_ids cs
  end.

(* addresses al, al+1, .., al'-1 *)
Definition nrange (al al' : N) : list N :=
  map (fun i => (al + N.of_nat i)%N) (seq 0 (N.to_nat (al' - al))).

Definition cnt (l : list N) (o : N) : Z := Z.of_nat (count_occ N.eq_dec l o).

Definition is_some {A} (o : option A) : bool := match o with Some _ => true | None => false end.

(* results of the recursive insert *)
Definition po_trees (po : p_out) : list ptree :=
  match po with PUpdated t | PNoSplit t => [t] | PSplit l _ r => [l; r] end.
Definition po_contents (po : p_out) : list (key * key) := flat_map (@contents key) (po_trees po).
Definition po_links (po : p_out) : list (N * N) := flat_map (@leaf_links key) (po_trees po).
Definition po_ids (po : p_out) : list N := flat_map all_ids (po_trees po).
(* references held: the separator handed up by a split is an owned reference in flight *)
Definition po_refs (po : p_out) : list N :=
  match po with
  | PUpdated t | PNoSplit t => prefs t
  | PSplit l sep r => prefs l ++ kid sep :: prefs r
  end.
Definition po_is_update (po : p_out) : bool :=
  match po with PUpdated _ => true | _ => false end.

Definition po_ord_shape (cap h : nat) (lo hi : option Z) (po : p_out) : Prop :=
  match po with
  | PUpdated t | PNoSplit t => ord lo hi t /\ cshape cap h t
  | PSplit l sep r =>
      ord lo (Some (kz sep)) l /\ ord (Some (kz sep)) hi r /\
      cshape cap h l /\ cshape cap h r /\ lo_lt lo (kz sep) /\ hi_ok hi (kz sep)
  end.

Definition first_id (L : list (N * N)) : option N := option_map fst (hd_error L).

(* the invariant of a tree object *)
Record CInv (t : ctree) : Prop := mkCInv {
  ci_cap : 4 <= tcap t;
  ci_wf : wf (tcap t) (root t);
  ci_ord : ord None None (abs (root t));
  ci_shape : exists h, cshape (tcap t) h (abs (root t));
  ci_chain : links_ok (leaf_links (abs (root t))) 0%N;
  ci_nodup : NoDup (all_ids (abs (root t)));
  ci_ids : forall id, In id (all_ids (abs (root t))) -> (0 < id < next_id t)%N;
  ci_count : node_count (abs (root t)) < N.to_nat (next_id t);
  ci_size : size t = length (contents (abs (root t)));
  ci_leaves : first_id (leaf_links (abs (root t))) = Some (leaves t) }.

(* what the tree stands for: the sorted association list of its entries *)
Definition tree_map (t : ctree) : list (key * key) := contents (abs (root t)).

(* reference-count balance: the ghost count of every object equals the number of live
   slots holding it plus the references currently lent to the caller *)
Definition rc_ok (rc : rcmap) (t : ptree) (held : list N) : Prop :=
  forall o, rc_get rc o = cnt (prefs t ++ held) o.
