(* Array level = list level, node by node: under the representation predicates of
   C/Abs.v every node operation of C/Node.v succeeds (no out-of-bounds index, no NULL
   dereference) and computes the list-level function of C/Abs.v. *)
From Coq Require Import List Arith ZArith NArith Lia Bool.
From BPT Require Import Common.Base Common.AMap Rust.Tree Rust.Lib Rust.TreeFactsI
  C.Node C.Tree C.Abs C.ArrLib C.AbsFacts.
Import ListNotations.
Set Implicit Arguments.

(* ------------------------------------------------------------------ *)
(* node_find_position = lower bound *)
Lemma lb_unique : forall ks z i, i <= length ks ->
  (forall j k, j < i -> nth_error ks j = Some k -> (kz k < z)%Z) ->
  (forall k, nth_error ks i = Some k -> (z <= kz k)%Z) ->
  lb ks z = i.
Proof.
  induction ks as [|a ks IH]; intros z i Hi Hlt Hge; cbn [lb].
  - cbn in Hi. lia.
  - destruct i as [|i].
    + specialize (Hge a eq_refl). destruct (Z.ltb_spec (kz a) z); [lia|reflexivity].
    + assert (kz a < z)%Z by (apply (Hlt 0 a); [lia|reflexivity]).
      destruct (Z.ltb_spec (kz a) z); [|lia]. f_equal. apply IH.
      * cbn in Hi. lia.
      * intros j k Hj E. apply (Hlt (S j) k); [lia|exact E].
      * intros k E. apply Hge. exact E.
Qed.

Lemma fp_loop_spec : forall fuel n ks z left right,
  nk n = length ks -> holds (data n) 0 (map SObj ks) -> sorted_keys ks ->
  left <= right -> right <= length ks -> right - left < fuel ->
  (forall j k, j < left -> nth_error ks j = Some k -> (kz k < z)%Z) ->
  (forall k, nth_error ks right = Some k -> (z <= kz k)%Z) ->
  fp_loop fuel n z left right = Ok (lb ks z).
Proof.
  induction fuel as [|f IH]; intros n ks z left right Hk Hh Hs Hlr Hr Hf Hlt Hge; [lia|].
  cbn [fp_loop]. destruct (Nat.ltb_spec left right) as [Hl|Hl].
  - set (mid := (left + right) / 2).
    assert (Hmid : left <= mid < right).
    { unfold mid. pose proof (Nat.div_mod (left + right) 2). pose proof (Nat.mod_upper_bound (left + right) 2). lia. }
    destruct (nth_error_lt_Some ks (i := mid)) as (km & Ekm); [lia|].
    assert (Ed : nth_error (data n) mid = Some (SObj km)).
    { change mid with (0 + mid). apply (holds_nth (l := map SObj ks)); auto.
      rewrite nth_error_map, Ekm. reflexivity. }
    rewrite (get_key_ok _ _ Ed). cbn [bind as_obj].
    destruct (Z.ltb_spec (kz km) z) as [Hc|Hc].
    + apply IH with (ks := ks); auto; try lia.
      intros j k Hj E. assert (kz k <= kz km)%Z; [|lia].
      apply (@sorted_keys_nth_le ks j mid k km); auto. lia.
    + apply IH with (ks := ks); auto; try lia.
      intros k E. rewrite Ekm in E. inversion E; subst. lia.
  - assert (left = right) by lia. subst right. symmetry. f_equal. apply lb_unique; auto.
Qed.

Lemma find_position_spec : forall n ks z,
  nk n = length ks -> holds (data n) 0 (map SObj ks) -> sorted_keys ks ->
  node_find_position n z = Ok (lb ks z).
Proof.
  intros n ks z Hk Hh Hs. unfold node_find_position.
  apply fp_loop_spec with (ks := ks); auto; try lia.
  intros k E. rewrite Hk in E. assert (length ks < length ks); [|lia].
    eapply nth_error_Some_lt; eauto.
Qed.

(* ------------------------------------------------------------------ *)
(* [holds] after the list operations *)
Lemma holds_insert : forall d d' off (l : list cslot) pos x,
  pos <= length l ->
  (forall j, j < pos -> nth_error d' (off + j) = nth_error d (off + j)) ->
  nth_error d' (off + pos) = Some x ->
  (forall j, pos < j <= length l -> nth_error d' (off + j) = nth_error d (off + (j - 1))) ->
  holds d off l -> holds d' off (insert_at pos x l).
Proof.
  intros d d' off l pos x Hp H1 H2 H3 H i Hi. rewrite length_insert_at in Hi by auto.
  destruct (Nat.lt_trichotomy i pos) as [Hlt|[->|Hgt]].
  - rewrite nth_error_insert_at_lt by lia. rewrite H1 by auto. apply H. lia.
  - rewrite nth_error_insert_at_eq by lia. auto.
  - rewrite nth_error_insert_at_gt by lia. rewrite H3 by lia. apply H. lia.
Qed.

Lemma holds_remove : forall d d' off (l : list cslot) pos,
  pos < length l ->
  (forall j, j < pos -> nth_error d' (off + j) = nth_error d (off + j)) ->
  (forall j, pos <= j -> S j < length l -> nth_error d' (off + j) = nth_error d (off + S j)) ->
  holds d off l -> holds d' off (remove_at pos l).
Proof.
  intros d d' off l pos Hp H1 H2 H i Hi. rewrite length_remove_at in Hi by auto.
  destruct (Nat.lt_ge_cases i pos) as [Hlt|Hge].
  - rewrite nth_error_remove_at_lt by lia. rewrite H1 by auto. apply H. lia.
  - rewrite nth_error_remove_at_ge by lia. rewrite H2 by lia. apply H. lia.
Qed.

Lemma holds_set : forall d d' off (l : list cslot) pos x,
  pos < length l ->
  (forall j, j <> pos -> j < length l -> nth_error d' (off + j) = nth_error d (off + j)) ->
  nth_error d' (off + pos) = Some x ->
  holds d off l -> holds d' off (set_nth pos x l).
Proof.
  intros d d' off l pos x Hp H1 H2 H i Hi. rewrite length_set_nth in Hi.
  destruct (Nat.eq_dec i pos) as [->|ne].
  - rewrite nth_error_set_nth_same by auto. auto.
  - rewrite nth_error_set_nth_other by auto. rewrite H1 by auto. apply H. auto.
Qed.

Lemma holds_same : forall d d' off (l : list cslot),
  (forall j, j < length l -> nth_error d' (off + j) = nth_error d (off + j)) ->
  holds d off l -> holds d' off l.
Proof. intros d d' off l H1 H i Hi. rewrite H1 by auto. apply H. auto. Qed.

(* pointwise description of the node arrays through a loop: same metadata, same length *)
Definition same_meta (n n' : cnode) : Prop :=
  nid n' = nid n /\ nty n' = nty n /\ ncap n' = ncap n /\ nk n' = nk n /\ next n' = next n /\
  length (data n') = length (data n).

Lemma same_meta_refl : forall n, same_meta n n.
Proof. intros. unfold same_meta. repeat split; auto. Qed.

Lemma same_meta_trans : forall a b c, same_meta a b -> same_meta b c -> same_meta a c.
Proof. unfold same_meta. intros a b c H1 H2. intuition congruence. Qed.

Lemma same_meta_set : forall n i s, same_meta n (with_data n (set_nth i s (data n))).
Proof. intros. unfold same_meta. autorewrite with nodeproj. repeat split; auto. Qed.

(* case analysis on every boolean comparison of the goal, then arithmetic *)
Ltac bcases :=
  repeat match goal with
  | |- context [Nat.ltb ?a ?b] => destruct (Nat.ltb_spec a b)
  | |- context [Nat.leb ?a ?b] => destruct (Nat.leb_spec a b)
  | |- context [Nat.eqb ?a ?b] => destruct (Nat.eqb_spec a b)
  end;
  cbn [andb orb negb]; try reflexivity; try (exfalso; lia); try (f_equal; lia).

(* ------------------------------------------------------------------ *)
(* the in-place shift of a leaf: for (i = nk; i > pos; i--) { key[i] = key[i-1]; value[i] = value[i-1] } *)
Lemma leaf_shift_right_loop : forall n pos c,
  ncap n = c -> length (data n) = 2 * c -> nk n < c -> pos <= nk n ->
  exists n', for_down (nk n - pos) (nk n) leaf_shift_right n = Ok n' /\ same_meta n n' /\
    forall j, nth_error (data n') j =
      if (Nat.ltb pos j && Nat.leb j (nk n)) || (Nat.ltb (c + pos) j && Nat.leb j (c + nk n))
      then nth_error (data n) (j - 1) else nth_error (data n) j.
Proof.
  intros n pos c Hc Hl Hk Hp.
  destruct (@for_down_inv cnode
    (fun t n' => same_meta n n' /\
       forall j, nth_error (data n') j =
         if (Nat.ltb (nk n - t) j && Nat.leb j (nk n)) || (Nat.ltb (c + (nk n - t)) j && Nat.leb j (c + nk n))
         then nth_error (data n) (j - 1) else nth_error (data n) j)
    leaf_shift_right (nk n - pos) (nk n) n) as (n' & E & SM & Hn').
  - split; [apply same_meta_refl|]. intros j. rewrite Nat.sub_0_r. bcases.
  - intros t s Ht (SM & Hs). destruct SM as (M1 & M2 & M3 & M4 & M5 & M6).
    set (i := nk n - t). assert (Hi : pos < i <= nk n) by (unfold i; lia).
    unfold leaf_shift_right.
    destruct (nth_error_lt_Some (data s) (i := i - 1)) as (kx & Ekx); [lia|].
    rewrite (get_key_ok _ _ Ekx). cbn [bind].
    rewrite set_key_ok by lia. cbn [bind].
    destruct (nth_error_lt_Some (data s) (i := c + (i - 1))) as (vx & Evx); [lia|].
    assert (Evx' : nth_error (data (with_data s (set_nth i kx (data s)))) (ncap (with_data s (set_nth i kx (data s))) + (i - 1)) = Some vx).
    { autorewrite with nodeproj. rewrite M3, Hc. rewrite nth_error_set_nth_other by lia. exact Evx. }
    rewrite (get_value_ok _ _ Evx'). cbn [bind].
    rewrite set_value_ok by (autorewrite with nodeproj; lia). eexists. split; [reflexivity|].
    autorewrite with nodeproj. split.
    + unfold same_meta. autorewrite with nodeproj. repeat split; auto.
    + intros j. rewrite M3, Hc. rewrite Hs in Ekx, Evx.
      replace (nk n - S t) with (i - 1) by (unfold i; lia). fold i in Hs.
      rewrite !nth_error_set_nth. autorewrite with nodeproj.
      destruct (Nat.eqb_spec j (c + i)) as [->|n1].
      * rewrite <- Evx. bcases.
      * destruct (Nat.eqb_spec j i) as [->|n2].
        -- rewrite <- Ekx. bcases.
        -- rewrite Hs. bcases.
  - exists n'. split; [exact E|]. split; [exact SM|]. intros j. rewrite Hn'.
    replace (nk n - (nk n - pos)) with pos by lia. reflexivity.
Qed.

(* for (i = a; i < a + cnt; i++) { tk[i+off] = key[i]; tv[i+off] = value[i] } *)
Lemma leaf_to_temp_loop : forall n c off cnt a tk tv,
  ncap n = c -> length (data n) = 2 * c -> a + cnt <= c ->
  a + cnt + off <= length tk -> a + cnt + off <= length tv ->
  exists tk' tv', for_up cnt a (leaf_to_temp n off) (tk, tv) = Ok (tk', tv') /\
    length tk' = length tk /\ length tv' = length tv /\
    (forall j, nth_error tk' j =
       if Nat.leb (a + off) j && Nat.ltb j (a + off + cnt) then nth_error (data n) (j - off) else nth_error tk j) /\
    (forall j, nth_error tv' j =
       if Nat.leb (a + off) j && Nat.ltb j (a + off + cnt) then nth_error (data n) (c + (j - off)) else nth_error tv j).
Proof.
  intros n c off cnt a tk tv Hc Hl Ha Hk Hv.
  destruct (@for_up_inv (list cslot * list cslot)
    (fun i st => length (fst st) = length tk /\ length (snd st) = length tv /\
       (forall j, nth_error (fst st) j =
          if Nat.leb (a + off) j && Nat.ltb j (i + off) then nth_error (data n) (j - off) else nth_error tk j) /\
       (forall j, nth_error (snd st) j =
          if Nat.leb (a + off) j && Nat.ltb j (i + off) then nth_error (data n) (c + (j - off)) else nth_error tv j))
    (leaf_to_temp n off) cnt a (tk, tv)) as ([tk' tv'] & E & L1 & L2 & P1 & P2).
  - cbn [fst snd]. repeat split; auto; intros j; bcases.
  - intros i [sk sv] Hi (L1 & L2 & P1 & P2). cbn [fst snd] in *.
    unfold leaf_to_temp. cbn [fst snd].
    destruct (nth_error_lt_Some (data n) (i := i)) as (kx & Ekx); [lia|].
    destruct (nth_error_lt_Some (data n) (i := c + i)) as (vx & Evx); [lia|].
    rewrite (get_key_ok _ _ Ekx). cbn [bind].
    rewrite get_value_ok with (s := vx) by (rewrite Hc; exact Evx). cbn [bind].
    rewrite !arr_set_ok by lia. cbn [bind]. eexists. split; [reflexivity|]. cbn [fst snd].
    rewrite !length_set_nth. repeat split; auto; intros j; rewrite nth_error_set_nth.
    + destruct (Nat.eqb_spec j (i + off)) as [->|ne].
      * rewrite <- Ekx. bcases.
      * rewrite P1. bcases.
    + destruct (Nat.eqb_spec j (i + off)) as [->|ne].
      * rewrite <- Evx. bcases.
      * rewrite P2. bcases.
  - cbn [fst snd] in *. exists tk', tv'. repeat split; auto; intros j; [rewrite P1|rewrite P2];
      replace (a + cnt + off) with (a + off + cnt) by lia; reflexivity.
Qed.

(* for (i = 0; i < cnt; i++) { key[i] = tk[off+i]; value[i] = tv[off+i] } *)
Lemma leaf_from_temp_loop : forall n c off cnt tk tv,
  ncap n = c -> length (data n) = 2 * c -> cnt <= c ->
  off + cnt <= length tk -> off + cnt <= length tv ->
  exists n', for_up cnt 0 (leaf_from_temp tk tv off) n = Ok n' /\ same_meta n n' /\
    forall j, nth_error (data n') j =
      if Nat.ltb j cnt then nth_error tk (off + j)
      else if Nat.leb c j && Nat.ltb j (c + cnt) then nth_error tv (off + (j - c))
      else nth_error (data n) j.
Proof.
  intros n c off cnt tk tv Hc Hl Ha Hk Hv.
  destruct (@for_up_inv cnode
    (fun i n' => same_meta n n' /\
       forall j, nth_error (data n') j =
         if Nat.ltb j i then nth_error tk (off + j)
         else if Nat.leb c j && Nat.ltb j (c + i) then nth_error tv (off + (j - c))
         else nth_error (data n) j)
    (leaf_from_temp tk tv off) cnt 0 n) as (n' & E & SM & P).
  - split; [apply same_meta_refl|]. intros j. bcases.
  - intros i s Hi (SM & P). destruct SM as (M1 & M2 & M3 & M4 & M5 & M6).
    unfold leaf_from_temp.
    destruct (nth_error_lt_Some tk (i := off + i)) as (kx & Ekx); [lia|].
    destruct (nth_error_lt_Some tv (i := off + i)) as (vx & Evx); [lia|].
    rewrite (arr_get_ok _ _ _ Ekx), (arr_get_ok _ _ _ Evx). cbn [bind].
    rewrite set_key_ok by lia. cbn [bind].
    rewrite set_value_ok by (autorewrite with nodeproj; lia). eexists. split; [reflexivity|].
    autorewrite with nodeproj. split.
    + unfold same_meta. autorewrite with nodeproj. repeat split; auto.
    + intros j. rewrite M3, Hc. rewrite !nth_error_set_nth. autorewrite with nodeproj.
      destruct (Nat.eqb_spec j (c + i)) as [->|n1].
      * rewrite <- Evx. bcases.
      * destruct (Nat.eqb_spec j i) as [->|n2].
        -- rewrite <- Ekx. bcases.
        -- rewrite P. bcases.
  - exists n'. auto.
Qed.

(* for (i = a; i < a + cnt; i++) { key[i] = NULL; value[i] = NULL } *)
Lemma leaf_null_loop : forall n c cnt a,
  ncap n = c -> length (data n) = 2 * c -> a + cnt <= c ->
  exists n', for_up cnt a leaf_null n = Ok n' /\ same_meta n n' /\
    forall j, nth_error (data n') j =
      if (Nat.leb a j && Nat.ltb j (a + cnt)) || (Nat.leb (c + a) j && Nat.ltb j (c + a + cnt))
      then Some SNull else nth_error (data n) j.
Proof.
  intros n c cnt a Hc Hl Ha.
  destruct (@for_up_inv cnode
    (fun i n' => same_meta n n' /\
       forall j, nth_error (data n') j =
         if (Nat.leb a j && Nat.ltb j i) || (Nat.leb (c + a) j && Nat.ltb j (c + i))
         then Some SNull else nth_error (data n) j)
    leaf_null cnt a n) as (n' & E & SM & P).
  - split; [apply same_meta_refl|]. intros j. bcases.
  - intros i s Hi (SM & P). destruct SM as (M1 & M2 & M3 & M4 & M5 & M6).
    unfold leaf_null.
    rewrite set_key_ok by lia. cbn [bind].
    rewrite set_value_ok by (autorewrite with nodeproj; lia). eexists. split; [reflexivity|].
    autorewrite with nodeproj. split.
    + unfold same_meta. autorewrite with nodeproj. repeat split; auto.
    + intros j. rewrite M3, Hc. rewrite !nth_error_set_nth. autorewrite with nodeproj.
      destruct (Nat.eqb_spec j (c + i)) as [->|n1].
      * bcases.
      * destruct (Nat.eqb_spec j i) as [->|n2].
        -- bcases.
        -- rewrite P. bcases.
  - exists n'. split; [exact E|]. split; [exact SM|]. intros j. rewrite P.
    replace (c + (a + cnt)) with (c + a + cnt) by lia. reflexivity.
Qed.

(* for (i = pos; i < pos + cnt; i++) { key[i] = key[i+1]; value[i] = value[i+1] } *)
Lemma leaf_shift_left_loop : forall n c cnt pos,
  ncap n = c -> length (data n) = 2 * c -> pos + cnt < c ->
  exists n', for_up cnt pos leaf_shift_left n = Ok n' /\ same_meta n n' /\
    forall j, nth_error (data n') j =
      if (Nat.leb pos j && Nat.ltb j (pos + cnt)) || (Nat.leb (c + pos) j && Nat.ltb j (c + pos + cnt))
      then nth_error (data n) (S j) else nth_error (data n) j.
Proof.
  intros n c cnt pos Hc Hl Ha.
  destruct (@for_up_inv cnode
    (fun i n' => same_meta n n' /\
       forall j, nth_error (data n') j =
         if (Nat.leb pos j && Nat.ltb j i) || (Nat.leb (c + pos) j && Nat.ltb j (c + i))
         then nth_error (data n) (S j) else nth_error (data n) j)
    leaf_shift_left cnt pos n) as (n' & E & SM & P).
  - split; [apply same_meta_refl|]. intros j. bcases.
  - intros i s Hi (SM & P). destruct SM as (M1 & M2 & M3 & M4 & M5 & M6).
    unfold leaf_shift_left.
    destruct (nth_error_lt_Some (data s) (i := i + 1)) as (kx & Ekx); [lia|].
    rewrite (get_key_ok _ _ Ekx). cbn [bind].
    rewrite set_key_ok by lia. cbn [bind].
    destruct (nth_error_lt_Some (data s) (i := c + (i + 1))) as (vx & Evx); [lia|].
    rewrite get_value_ok with (s := vx).
    2:{ autorewrite with nodeproj. rewrite M3, Hc. rewrite nth_error_set_nth_other by lia. exact Evx. }
    cbn [bind].
    rewrite set_value_ok by (autorewrite with nodeproj; lia). eexists. split; [reflexivity|].
    autorewrite with nodeproj. split.
    + unfold same_meta. autorewrite with nodeproj. repeat split; auto.
    + intros j. rewrite M3, Hc. rewrite P in Ekx, Evx.
      rewrite !nth_error_set_nth. autorewrite with nodeproj.
      destruct (Nat.eqb_spec j (c + i)) as [->|n1].
      * rewrite <- Evx. bcases.
      * destruct (Nat.eqb_spec j i) as [->|n2].
        -- rewrite <- Ekx. bcases.
        -- rewrite P. bcases.
  - exists n'. split; [exact E|]. split; [exact SM|]. intros j. rewrite P.
    replace (c + (pos + cnt)) with (c + pos + cnt) by lia. reflexivity.
Qed.
