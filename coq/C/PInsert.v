(* The list-level insert [p_ins] / [p_tree_insert] (C/Abs.v) preserves order, shape, chain
   and address invariants, refines the sorted-association-list insert, and changes every
   reference count by exactly the change of the number of slots holding the object. *)
From Coq Require Import List Arith ZArith NArith Lia Bool Permutation.
From BPT Require Import Common.Base Common.AMap Rust.Tree Rust.Readers Rust.InvDefs Rust.Lib
  Rust.TreeFactsI Rust.InsertLocal C.Node C.Tree C.Abs C.ArrLib C.PInv C.PFacts.
Import ListNotations.
Set Implicit Arguments.

(* ------------------------------------------------------------------ *)
(* list surgery up to permutation, counting *)
Lemma perm_insert_at : forall (A : Type) i (x : A) l, Permutation (insert_at i x l) (x :: l).
Proof.
  induction i as [|i IH]; intros x l.
  - destruct l; apply Permutation_refl.
  - destruct l as [|y l]; cbn [insert_at]; [apply Permutation_refl|].
    eapply perm_trans; [apply perm_skip; apply IH|]. apply perm_swap.
Qed.

Lemma cnt_map_insert_at : forall i (x : obj) l o,
  cnt (map kid (insert_at i x l)) o = ((if N.eqb o (kid x) then 1 else 0) + cnt (map kid l) o)%Z.
Proof.
  intros. rewrite <- cnt_cons. apply cnt_perm.
  change (kid x :: map kid l) with (map kid (x :: l)). apply Permutation_map. apply perm_insert_at.
Qed.

Lemma cnt_map_firstn_skipn : forall (A : Type) (f : A -> N) n (l : list A) o,
  (cnt (map f (firstn n l)) o + cnt (map f (skipn n l)) o = cnt (map f l) o)%Z.
Proof. intros. rewrite <- cnt_app, <- map_app, firstn_skipn. reflexivity. Qed.

Lemma cnt_flat_firstn_skipn : forall (A : Type) (f : A -> list N) n (l : list A) o,
  (cnt (flat_map f (firstn n l)) o + cnt (flat_map f (skipn n l)) o = cnt (flat_map f l) o)%Z.
Proof. intros. rewrite <- cnt_app, flat_map_firstn_skipn. reflexivity. Qed.

Lemma cnt_map_nth_split : forall (l : list obj) i x o, nth_error l i = Some x ->
  (cnt (map kid l) o =
   cnt (map kid (firstn i l)) o + (if N.eqb o (kid x) then 1 else 0) + cnt (map kid (skipn (S i) l)) o)%Z.
Proof.
  intros l i x o H. rewrite (nth_error_split l i H) at 1.
  rewrite map_app, cnt_app. cbn [map]. rewrite cnt_cons. lia.
Qed.

Lemma cnt_map_set_nth : forall (l : list obj) i x old o, nth_error l i = Some old ->
  (cnt (map kid (set_nth i x l)) o =
   cnt (map kid l) o + (if N.eqb o (kid x) then 1 else 0) - (if N.eqb o (kid old) then 1 else 0))%Z.
Proof.
  intros l i x old o H.
  assert (i < length l) by (apply nth_error_Some; congruence).
  rewrite (cnt_map_nth_split l i o H). rewrite set_nth_app by auto.
  rewrite map_app, cnt_app. cbn [map]. rewrite cnt_cons. lia.
Qed.

Lemma perm_frame : forall (A : Type) (a b X Y R : list A),
  Permutation X (Y ++ R) -> Permutation (a ++ X ++ b) ((a ++ Y ++ b) ++ R).
Proof.
  intros A a b X Y R P. rewrite <- !app_assoc. apply Permutation_app_head.
  eapply perm_trans; [apply Permutation_app_tail; exact P|].
  rewrite <- app_assoc. apply Permutation_app_head. apply Permutation_app_comm.
Qed.

Lemma first_id_frame : forall (A X X' B : list (N * N)),
  first_id X = first_id X' -> first_id (A ++ X ++ B) = first_id (A ++ X' ++ B).
Proof.
  intros A X X' B H. destruct A as [|a A]; [|reflexivity]. cbn [app].
  destruct X as [|x X]; destruct X' as [|x' X']; cbn in *; try discriminate; auto.
Qed.

(* the lower bound of a key strictly between the separators around position ci *)
Lemma lb_unique : forall ks z ci, ci <= length ks ->
  (forall a, In a (firstn ci ks) -> (kz a < z)%Z) ->
  (forall b, In b (skipn ci ks) -> (z <= kz b)%Z) ->
  lb ks z = ci.
Proof.
  induction ks as [|k0 ks IH]; intros z ci Hci HA HB.
  - cbn in Hci. cbn. lia.
  - cbn [lb]. destruct ci as [|ci].
    + specialize (HB k0 (or_introl eq_refl)). destruct (Z.ltb_spec (kz k0) z); [lia|reflexivity].
    + pose proof (HA k0 (or_introl eq_refl)). destruct (Z.ltb_spec (kz k0) z); [|lia].
      f_equal. apply IH.
      * cbn in Hci. lia.
      * intros a Ha. apply HA. right. exact Ha.
      * intros b Hb. apply HB. exact Hb.
Qed.

Lemma lb_between : forall ks lo hi ci z, sorted_keys ks -> ci <= length ks ->
  lo_lt (fst (child_bounds ks lo hi ci)) z -> hi_ok (snd (child_bounds ks lo hi ci)) z ->
  lb ks z = ci.
Proof.
  intros ks lo hi ci z Hs Hci B1 B2. apply lb_unique; auto.
  - intros a Ha. apply In_nth_error in Ha. destruct Ha as (j & Hj).
    assert (j < ci).
    { destruct (Nat.lt_ge_cases j ci); auto. rewrite nth_error_firstn_ge in Hj by auto. discriminate. }
    rewrite nth_error_firstn_lt in Hj by auto.
    unfold child_bounds in B1. cbn [fst] in B1.
    destruct (Nat.eqb_spec ci 0); [lia|].
    destruct (nth_error ks (ci - 1)) as [kk|] eqn:Ek; [|apply nth_error_None in Ek; lia].
    cbn in B1. assert (kz a <= kz kk)%Z; [|lia].
    apply (@sorted_keys_nth_le ks j (ci - 1) a kk); auto. lia.
  - intros b Hb. apply In_nth_error in Hb. destruct Hb as (j & Hj).
    rewrite nth_error_skipn_add in Hj.
    assert (ci + j < length ks) by (apply nth_error_Some; congruence).
    unfold child_bounds in B2. cbn [snd] in B2.
    destruct (Nat.eqb_spec ci (length ks)); [lia|].
    destruct (nth_error ks ci) as [kk|] eqn:Ek; [|apply nth_error_None in Ek; lia].
    cbn in B2. assert (kz kk <= kz b)%Z; [|lia].
    apply (@sorted_keys_nth_le ks ci (ci + j) kk b); auto. lia.
Qed.

(* ------------------------------------------------------------------ *)
(* the postcondition of one level of the recursive insert *)
Definition p_post (al : N) (rc : rcmap) (t : ptree) (k v : obj) (cap h : nat) (lo hi : option Z)
           (po : p_out) (rc' : rcmap) (al' : N) : Prop :=
  po_ord_shape cap h lo hi po /\
  po_contents po = m_insert (contents t) k v /\
  po_is_update po = is_some (m_get (contents t) (kz k)) /\
  links_ext (leaf_links t) (po_links po) /\
  first_id (po_links po) = first_id (leaf_links t) /\
  Permutation (po_ids po) (all_ids t ++ nrange al al') /\ (al <= al')%N /\
  (forall o, rc_get rc' o = rc_get rc o + cnt (po_refs po) o - cnt (prefs t) o)%Z.

Lemma nth_obj_nth_error : forall (l : list obj) i, i < length l -> nth_error l i = Some (nth_obj l i).
Proof. intros. unfold nth_obj. apply nth_error_nth'. auto. Qed.

(* ---------------- leaves ---------------- *)
Lemma p_ins_leaf_spec : forall al rc id ks vs nx k v cap lo hi,
  4 <= cap -> ord lo hi (PLeaf id cap ks vs nx) -> cshape cap 0 (PLeaf id cap ks vs nx) ->
  in_bounds lo hi k ->
  exists po rc' al', p_ins_leaf al rc id cap ks vs nx k v = (po, rc', al') /\
    p_post al rc (PLeaf id cap ks vs nx) k v cap 0 lo hi po rc' al'.
Proof.
  intros al rc id ks vs nx k v cap lo hi Hc O Sh B.
  destruct (ord_leaf_inv O) as (Hs & F).
  destruct (cshape_leaf_inv Sh) as (_ & _ & Lv & Lc).
  pose proof (lb_le_length ks (kz k)) as Hi.
  unfold p_ins_leaf. set (pos := lb ks (kz k)) in *.
  assert (EG : m_get (contents (PLeaf id cap ks vs nx)) (kz k) =
               if bfound ks (kz k) then nth_error vs pos else None)
    by (cbn [contents]; apply leaf_get; auto).
  destruct (bfound ks (kz k)) eqn:Ef.
  - (* update in place *)
    destruct (bfound_true _ _ Ef) as (k0 & Hk0 & Hz). fold pos in Hk0.
    assert (Hlt : pos < length ks) by (apply nth_error_Some; congruence).
    assert (Ev : nth_error vs pos = Some (nth_obj vs pos)) by (apply nth_obj_nth_error; lia).
    eexists _, _, _. split; [reflexivity|].
    unfold p_post, po_contents, po_links, po_ids.
    cbn [po_ord_shape po_trees po_is_update po_refs flat_map contents leaf_links all_ids prefs app].
    split; [|split; [|split; [|split; [|split; [|split; [|split]]]]]].
    + split; [constructor; auto|]. constructor; auto. rewrite length_set_nth; auto.
    + rewrite app_nil_r. apply leaf_insert_existing; auto.
    + cbn [contents] in EG. rewrite EG, Ev. reflexivity.
    + apply links_ext_refl.
    + reflexivity.
    + rewrite nrange_nil. apply Permutation_refl.
    + lia.
    + intros o. rewrite rc_get_decref, rc_get_incref, !cnt_app.
      rewrite (cnt_map_set_nth vs pos v o Ev). lia.
  - destruct (Nat.leb_spec cap (length ks)) as [Hge|Hlt].
    + (* split *)
      assert (Lk : length ks = cap) by lia.
      pose proof (half_facts Hc) as (G1 & G2 & G3 & G4).
      set (K := insert_at pos k ks). set (VV := insert_at pos v vs).
      assert (LK : length K = S cap) by (unfold K; rewrite length_insert_at; lia).
      assert (LV : length VV = S cap) by (unfold VV; rewrite length_insert_at; lia).
      assert (SK : sorted_keys K) by (apply sorted_keys_insert_at_lb; auto).
      assert (FK : Forall (in_bounds lo hi) K) by (apply Forall_insert_at; auto).
      assert (Hn : nth_error K (cap / 2) = Some (nth_obj K (cap / 2)))
        by (apply nth_obj_nth_error; lia).
      set (sep := nth_obj K (cap / 2)) in *.
      destruct (@leaf_split_at obj lo hi K VV (cap / 2) sep id al cap al nx SK FK ltac:(lia) Hn)
        as (O1 & O2 & O3 & O4).
      eexists _, _, _. split; [reflexivity|].
      unfold p_post, po_contents, po_links, po_ids.
      cbn [po_ord_shape po_trees po_is_update po_refs flat_map contents leaf_links all_ids prefs app].
      split; [|split; [|split; [|split; [|split; [|split; [|split]]]]]].
      * repeat split; auto.
        -- constructor; rewrite ?firstn_length; lia.
        -- constructor; rewrite ?skipn_length; lia.
      * rewrite app_nil_r. rewrite <- combine_firstn_skipn. apply leaf_insert_new; auto.
      * cbn [contents] in EG. rewrite EG. reflexivity.
      * apply links_ext_split.
      * reflexivity.
      * rewrite nrange_one. apply Permutation_refl.
      * lia.
      * intros o. rewrite !rc_get_incref, !cnt_app, cnt_cons, !cnt_app.
        pose proof (cnt_map_firstn_skipn kid (cap / 2) K o) as E1.
        pose proof (cnt_map_firstn_skipn kid (cap / 2) VV o) as E2.
        unfold K in E1 at 3. unfold VV in E2 at 3. rewrite cnt_map_insert_at in E1, E2. lia.
    + (* plain insert *)
      eexists _, _, _. split; [reflexivity|].
      unfold p_post, po_contents, po_links, po_ids.
      cbn [po_ord_shape po_trees po_is_update po_refs flat_map contents leaf_links all_ids prefs app].
      split; [|split; [|split; [|split; [|split; [|split; [|split]]]]]].
      * split.
        -- constructor; [apply sorted_keys_insert_at_lb; auto|apply Forall_insert_at; auto].
        -- constructor; rewrite ?length_insert_at by lia; lia.
      * rewrite app_nil_r. apply leaf_insert_new; auto.
      * cbn [contents] in EG. rewrite EG. reflexivity.
      * apply links_ext_refl.
      * reflexivity.
      * rewrite nrange_nil. apply Permutation_refl.
      * lia.
      * intros o. rewrite !rc_get_incref, !cnt_app, !cnt_map_insert_at. lia.
Qed.

(* ---------------- inserting the separator and right half of a split child ---------------- *)
Lemma p_ins_branch_spec : forall al1 id cap ks (cs : list ptree) ci sep c' r h' lo hi,
  4 <= cap ->
  ord lo hi (PBranch id cap ks cs) -> cshape cap (S h') (PBranch id cap ks cs) ->
  ci <= length ks ->
  ord (fst (child_bounds ks lo hi ci)) (Some (kz sep)) c' ->
  ord (Some (kz sep)) (snd (child_bounds ks lo hi ci)) r ->
  cshape cap h' c' -> cshape cap h' r ->
  lo_lt (fst (child_bounds ks lo hi ci)) (kz sep) ->
  hi_ok (snd (child_bounds ks lo hi ci)) (kz sep) ->
  exists po al2, p_ins_branch al1 id cap ks (set_nth ci c' cs) sep r = (po, al2) /\
    po_ord_shape cap (S h') lo hi po /\
    po_contents po = flat_map (@contents key) (insert_at (S ci) r (set_nth ci c' cs)) /\
    po_links po = flat_map (@leaf_links key) (insert_at (S ci) r (set_nth ci c' cs)) /\
    po_is_update po = false /\
    Permutation (po_ids po)
      ((id :: flat_map all_ids (insert_at (S ci) r (set_nth ci c' cs))) ++ nrange al1 al2) /\
    (al1 <= al2)%N /\
    (forall o, cnt (po_refs po) o =
               cnt (map kid (insert_at ci sep ks)) o +
               cnt (flat_map prefs (insert_at (S ci) r (set_nth ci c' cs))) o)%Z.
Proof.
  intros al1 id cap ks cs ci sep c' r h' lo hi Hc O Sh Hci O1 O2 S1 S2 B1 B2.
  destruct (cshape_branch_inv Sh) as (h0 & Eh & _ & Lc & Lk & Hsh).
  assert (h0 = h') by congruence. subst h0. clear Eh.
  destruct (ord_branch_inv O) as (Hs & F & Hch).
  assert (E : lb ks (kz sep) = ci) by (eapply lb_between; eauto).
  unfold p_ins_branch. rewrite E.
  set (cs1 := set_nth ci c' cs).
  assert (Lcs1 : length cs1 = S (length ks)) by (unfold cs1; rewrite length_set_nth; auto).
  set (ks2 := insert_at ci sep ks). set (cs2 := insert_at (S ci) r cs1).
  assert (Lks2 : length ks2 = S (length ks)) by (unfold ks2; apply length_insert_at; auto).
  assert (Lcs2 : length cs2 = S (length ks2)) by (unfold cs2; rewrite length_insert_at; lia).
  assert (O2' : ord lo hi (PBranch id cap ks2 cs2)).
  { unfold ks2, cs2, cs1. apply ord_branch_insert; auto. }
  assert (FSH : forall x, In x cs2 -> cshape cap h' x).
  { intros x Hx. apply In_insert_at in Hx. destruct Hx as [->|Hx]; auto.
    apply In_set_nth in Hx. destruct Hx as [->|Hx]; auto. }
  pose proof (half_facts Hc) as (G1 & G2 & G3 & G4).
  destruct (Nat.leb_spec cap (length ks)) as [Hfull|Hnf].
  - assert (Hk : length ks = cap) by lia.
    assert (Ep : nth_error ks2 (cap / 2) = Some (nth_obj ks2 (cap / 2)))
      by (apply nth_obj_nth_error; lia).
    set (p := nth_obj ks2 (cap / 2)) in *.
    destruct (@ord_branch_split obj lo hi id cap ks2 cs2 (cap / 2) p id cap al1 cap O2' Lcs2 Ep
                ltac:(lia)) as (OL & OR & BL & BR).
    eexists _, _. split; [reflexivity|].
    unfold po_contents, po_links, po_ids.
    cbn [po_ord_shape po_trees po_is_update po_refs flat_map contents leaf_links all_ids prefs].
    rewrite !app_nil_r.
    split; [|split; [|split; [|split; [|split; [|split]]]]].
    + split; [exact OL|]. split; [exact OR|]. split; [|split; [|split; [exact BL|exact BR]]].
      * constructor; rewrite ?firstn_length; try lia.
        intros x Hx. apply FSH. eapply In_firstn; eauto.
      * constructor; rewrite ?skipn_length; try lia.
        intros x Hx. apply FSH. eapply In_skipn; eauto.
    + apply flat_map_firstn_skipn.
    + apply flat_map_firstn_skipn.
    + reflexivity.
    + rewrite nrange_one. cbn [app]. apply perm_skip.
      rewrite <- (flat_map_firstn_skipn all_ids (S (cap / 2)) cs2), <- app_assoc.
      apply Permutation_app_head. apply Permutation_cons_append.
    + lia.
    + intros o. rewrite !cnt_app, cnt_cons, !cnt_app.
      rewrite (cnt_map_nth_split ks2 (cap / 2) o Ep).
      pose proof (cnt_flat_firstn_skipn prefs (S (cap / 2)) cs2 o). fold p. lia.
  - eexists _, _. split; [reflexivity|].
    unfold po_contents, po_links, po_ids.
    cbn [po_ord_shape po_trees po_is_update po_refs flat_map contents leaf_links all_ids prefs].
    rewrite !app_nil_r.
    split; [|split; [|split; [|split; [|split; [|split]]]]]; auto.
    + split; auto. constructor; auto. lia.
    + rewrite nrange_nil, app_nil_r. apply Permutation_refl.
    + lia.
    + intros o. rewrite cnt_app. reflexivity.
Qed.

Lemma contents_frame_c : forall (B C A : list (key * key)) k v,
  (forall e, In e B -> (kz (fst e) < kz k)%Z) ->
  (forall e, In e A -> (kz k < kz (fst e))%Z) ->
  m_insert (B ++ C ++ A) k v = B ++ m_insert C k v ++ A /\
  m_get (B ++ C ++ A) (kz k) = m_get C (kz k).
Proof.
  intros B C A k v HB HA. split.
  - rewrite m_insert_app_r by auto. rewrite m_insert_app_l by auto. reflexivity.
  - rewrite m_get_app_r by auto. rewrite m_get_app_l by auto. reflexivity.
Qed.

Lemma p_ins_spec : forall fuel al rc (t : ptree) k v cap h lo hi,
  4 <= cap -> h < fuel -> ord lo hi t -> cshape cap h t -> in_bounds lo hi k ->
  exists po rc' al', p_ins fuel al rc t k v = Some (po, rc', al') /\
    po_ord_shape cap h lo hi po /\
    po_contents po = m_insert (contents t) k v /\
    po_is_update po = is_some (m_get (contents t) (kz k)) /\
    links_ext (leaf_links t) (po_links po) /\
    first_id (po_links po) = first_id (leaf_links t) /\
    Permutation (po_ids po) (all_ids t ++ nrange al al') /\ (al <= al')%N /\
    (forall o, rc_get rc' o = rc_get rc o + cnt (po_refs po) o - cnt (prefs t) o)%Z.
Proof.
  induction fuel as [|f IH]; intros al rc t k v cap h lo hi Hc Hf O Sh Bk; [lia|].
  destruct t as [id nc ks vs nx | id nc ks cs].
  - (* leaf *)
    destruct (cshape_leaf_inv Sh) as (-> & -> & _).
    destruct (@p_ins_leaf_spec al rc id ks vs nx k v cap lo hi Hc O Sh Bk)
      as (po & rc' & al' & E & P).
    exists po, rc', al'. split; [cbn [p_ins]; rewrite E; reflexivity|exact P].
  - (* branch *)
    destruct (cshape_branch_inv Sh) as (h' & -> & -> & Lc & Lk & Hsh).
    destruct (ord_branch_inv O) as (Hs & F & Hch).
    pose proof (child_index_le_length ks (kz k)) as Hci.
    pose proof (@child_index_in_bounds ks lo hi k Hs Bk) as Bch.
    destruct (@branch_contents_split_c lo hi id cap ks cs cap (S h') (kz k) O Sh) as (CB & CA).
    cbn [p_ins]. set (ci := child_index ks (kz k)) in *.
    destruct (nth_error cs ci) as [ch|] eqn:Ech; [|apply nth_error_None in Ech; lia].
    pose proof (nth_error_In _ _ Ech) as Hin.
    pose proof (Hch ci ch Ech) as Och. pose proof (Hsh ch Hin) as Shch.
    assert (Hlt : ci < length cs) by lia.
    set (lo' := fst (child_bounds ks lo hi ci)) in *.
    set (hi' := snd (child_bounds ks lo hi ci)) in *.
    set (CBf := flat_map (@contents key) (firstn ci cs)) in *.
    set (CAf := flat_map (@contents key) (skipn (S ci) cs)) in *.
    set (T := PBranch id cap ks cs) in *.
    assert (SPL : forall (B : Type) (g : ptree -> list B),
               flat_map g cs = flat_map g (firstn ci cs) ++ g ch ++ flat_map g (skipn (S ci) cs))
      by (intros; apply flat_map_nth_split; auto).
    assert (ELL : leaf_links T = flat_map (@leaf_links key) (firstn ci cs) ++ leaf_links ch ++
                                 flat_map (@leaf_links key) (skipn (S ci) cs))
      by (unfold T; cbn [leaf_links]; apply SPL).
    assert (EID : all_ids T = id :: flat_map all_ids (firstn ci cs) ++ all_ids ch ++
                                 flat_map all_ids (skipn (S ci) cs))
      by (unfold T; cbn [all_ids]; f_equal; apply SPL).
    assert (ECT : contents T = CBf ++ contents ch ++ CAf)
      by (unfold T; cbn [contents]; apply SPL).
    assert (ERF : prefs T = map kid ks ++ flat_map prefs (firstn ci cs) ++ prefs ch ++
                            flat_map prefs (skipn (S ci) cs))
      by (unfold T; cbn [prefs]; f_equal; apply SPL).
    assert (Hf' : h' < f) by lia.
    destruct (IH al rc ch k v cap h' lo' hi' Hc Hf' Och Shch Bch)
      as (po & rc1 & al1 & E & OS & TC & TO & TL & TF & TI & TA & TR).
    rewrite E.
    destruct (@contents_frame_c CBf (contents ch) CAf k v CB CA) as (CF1 & CF2).
    unfold po_contents, po_links, po_ids in TC, TL, TF, TI.
    destruct po as [c' | c' | c' sep r];
      cbn [po_trees flat_map po_refs po_is_update po_ord_shape] in OS, TC, TO, TL, TF, TI, TR;
      rewrite ?app_nil_r in TC, TL, TF, TI.
    + (* child updated in place *)
      destruct OS as (Oc' & Shc').
      set (cs1 := set_nth ci c' cs).
      assert (FM : forall (B : Type) (g : ptree -> list B),
                 flat_map g cs1 = flat_map g (firstn ci cs) ++ g c' ++ flat_map g (skipn (S ci) cs))
        by (intros; apply flat_map_set_nth; auto).
      eexists _, _, _. split; [reflexivity|].
      unfold po_contents, po_links, po_ids.
      cbn [po_ord_shape po_trees po_is_update po_refs flat_map contents leaf_links all_ids prefs].
      rewrite !app_nil_r. fold cs1.
      split; [|split; [|split; [|split; [|split; [|split; [|split]]]]]].
      * split; [apply ord_set_child; auto|].
        constructor; unfold cs1; rewrite ?length_set_nth; auto.
        intros x Hx. apply In_set_nth in Hx. destruct Hx as [->|Hx]; auto.
      * rewrite ECT, CF1, <- TC. apply FM.
      * rewrite ECT, CF2. exact TO.
      * rewrite ELL, FM. apply links_ext_frame. exact TL.
      * rewrite ELL, FM. apply first_id_frame. exact TF.
      * rewrite EID, FM. cbn [app]. apply perm_skip. apply perm_frame. exact TI.
      * exact TA.
      * intros o. rewrite TR, ERF, FM, !cnt_app. lia.
    + (* child grew without splitting *)
      destruct OS as (Oc' & Shc').
      set (cs1 := set_nth ci c' cs).
      assert (FM : forall (B : Type) (g : ptree -> list B),
                 flat_map g cs1 = flat_map g (firstn ci cs) ++ g c' ++ flat_map g (skipn (S ci) cs))
        by (intros; apply flat_map_set_nth; auto).
      eexists _, _, _. split; [reflexivity|].
      unfold po_contents, po_links, po_ids.
      cbn [po_ord_shape po_trees po_is_update po_refs flat_map contents leaf_links all_ids prefs].
      rewrite !app_nil_r. fold cs1.
      split; [|split; [|split; [|split; [|split; [|split; [|split]]]]]].
      * split; [apply ord_set_child; auto|].
        constructor; unfold cs1; rewrite ?length_set_nth; auto.
        intros x Hx. apply In_set_nth in Hx. destruct Hx as [->|Hx]; auto.
      * rewrite ECT, CF1, <- TC. apply FM.
      * rewrite ECT, CF2. exact TO.
      * rewrite ELL, FM. apply links_ext_frame. exact TL.
      * rewrite ELL, FM. apply first_id_frame. exact TF.
      * rewrite EID, FM. cbn [app]. apply perm_skip. apply perm_frame. exact TI.
      * exact TA.
      * intros o. rewrite TR, ERF, FM, !cnt_app. lia.
    + (* child split *)
      destruct OS as (O1 & O2 & S1 & S2 & B1 & B2).
      destruct (@p_ins_branch_spec al1 id cap ks cs ci sep c' r h' lo hi Hc O Sh Hci O1 O2 S1 S2 B1 B2)
        as (po2 & al2 & E2 & Q1 & Q2 & Q3 & Q4 & Q5 & Q6 & Q7).
      rewrite E2.
      assert (FM : forall (B : Type) (g : ptree -> list B),
                 flat_map g (insert_at (S ci) r (set_nth ci c' cs)) =
                 flat_map g (firstn ci cs) ++ g c' ++ g r ++ flat_map g (skipn (S ci) cs))
        by (intros; apply flat_map_insert_set; auto).
      exists po2, rc1, al2. split; [reflexivity|].
      split; [|split; [|split; [|split; [|split; [|split; [|split]]]]]].
      * exact Q1.
      * rewrite Q2, FM, ECT, CF1, <- TC, <- !app_assoc. reflexivity.
      * rewrite Q4, ECT, CF2, <- TO. reflexivity.
      * rewrite Q3, FM, ELL, (app_assoc (leaf_links c')). apply links_ext_frame. exact TL.
      * rewrite Q3, FM, ELL, (app_assoc (leaf_links c')). apply first_id_frame. exact TF.
      * eapply perm_trans; [exact Q5|].
        rewrite (@nrange_app al al1 al2 TA Q6), app_assoc. apply Permutation_app_tail.
        rewrite EID, FM, (app_assoc (all_ids c')). cbn [app]. apply perm_skip. apply perm_frame.
        exact TI.
      * lia.
      * intros o. rewrite TR, Q7, ERF, FM, cnt_map_insert_at, !cnt_app, cnt_cons. lia.
Qed.

(* tree_insert: a root split adds a level *)
Lemma p_tree_insert_spec : forall fuel al rc cap (t : ptree) k v h,
  4 <= cap -> h < fuel -> ord None None t -> cshape cap h t ->
  exists t' isnew rc' al', p_tree_insert fuel al rc cap t k v = Some (t', isnew, rc', al') /\
    ord None None t' /\ (exists h', cshape cap h' t') /\
    contents t' = m_insert (contents t) k v /\
    isnew = negb (is_some (m_get (contents t) (kz k))) /\
    (links_ok (leaf_links t) 0%N -> links_ok (leaf_links t') 0%N) /\
    first_id (leaf_links t') = first_id (leaf_links t) /\
    Permutation (all_ids t') (all_ids t ++ nrange al al') /\ (al <= al')%N /\
    (forall o, rc_get rc' o = rc_get rc o + cnt (prefs t') o - cnt (prefs t) o)%Z.
Proof.
  intros fuel al rc cap t k v h Hc Hf O Sh.
  assert (Bk : in_bounds None None k) by (split; exact I).
  destruct (@p_ins_spec fuel al rc t k v cap h None None Hc Hf O Sh Bk)
    as (po & rc1 & al1 & E & OS & TC & TO & TL & TF & TI & TA & TR).
  unfold p_tree_insert. rewrite E.
  unfold po_contents, po_links, po_ids in TC, TL, TF, TI.
  assert (LK : forall L', links_ext (leaf_links t) L' ->
                 links_ok (leaf_links t) 0%N -> links_ok L' 0%N).
  { intros L' X Y. specialize (X [] [] 0%N). cbn [app] in X. rewrite !app_nil_r in X. auto. }
  destruct po as [t' | t' | l sep r];
    cbn [po_trees flat_map po_refs po_is_update po_ord_shape] in OS, TC, TO, TL, TF, TI, TR;
    rewrite ?app_nil_r in TC, TL, TF, TI.
  - destruct OS as (O' & Sh').
    eexists _, _, _, _. split; [reflexivity|].
    split; [exact O'|]. split; [eexists; exact Sh'|]. split; [exact TC|].
    split; [rewrite <- TO; reflexivity|]. split; [apply LK; exact TL|].
    split; [exact TF|]. split; [exact TI|]. split; [exact TA|exact TR].
  - destruct OS as (O' & Sh').
    eexists _, _, _, _. split; [reflexivity|].
    split; [exact O'|]. split; [eexists; exact Sh'|]. split; [exact TC|].
    split; [rewrite <- TO; reflexivity|]. split; [apply LK; exact TL|].
    split; [exact TF|]. split; [exact TI|]. split; [exact TA|exact TR].
  - destruct OS as (O1 & O2 & S1 & S2 & B1 & B2).
    eexists _, _, _, _. split; [reflexivity|].
    cbn [contents leaf_links all_ids prefs flat_map]. rewrite !app_nil_r.
    split; [|split; [|split; [|split; [|split; [|split; [|split; [|split]]]]]]].
    + constructor.
      * unfold sorted_keys. cbn. auto.
      * constructor; [split; cbn; auto|constructor].
      * intros i ch Hn. destruct i as [|[|i]]; cbn in Hn.
        -- inversion Hn; subst. cbn. exact O1.
        -- inversion Hn; subst. cbn. exact O2.
        -- destruct i; discriminate.
    + exists (S h). constructor; cbn [length]; try lia.
      intros x [<-|[<-|[]]]; auto.
    + exact TC.
    + rewrite <- TO. reflexivity.
    + apply LK. exact TL.
    + exact TF.
    + rewrite (@nrange_app al al1 (N.succ al1)) by lia. rewrite nrange_one.
      eapply perm_trans; [apply Permutation_cons_append|].
      rewrite app_assoc. apply Permutation_app_tail. exact TI.
    + lia.
    + intros o. rewrite TR. cbn [map app]. rewrite !cnt_app, !cnt_cons, !cnt_app. lia.
Qed.
