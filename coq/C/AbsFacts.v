(* Basic facts about the representation predicates of C/Abs.v. *)
From Coq Require Import List Arith ZArith NArith Lia Bool.
From BPT Require Import Common.Base Common.AMap Rust.Tree Rust.Lib Rust.TreeFactsI C.Node C.Tree C.Abs C.ArrLib.
Import ListNotations.
Set Implicit Arguments.

Lemma holds_firstn_skipn : forall d off l,
  holds d off l -> off + length l <= length d -> firstn (length l) (skipn off d) = l.
Proof.
  intros d off l H L. apply list_ext.
  - rewrite firstn_length, skipn_length. lia.
  - intros i Hi. rewrite firstn_length, skipn_length in Hi.
    rewrite nth_error_firstn_lt by lia. rewrite nth_error_skipn_add. apply H. lia.
Qed.

Lemma holds_nth : forall d off l i s, holds d off l -> nth_error l i = Some s -> nth_error d (off + i) = Some s.
Proof. intros d off l i s H E. rewrite H; auto. eapply nth_error_Some_lt; eauto. Qed.

Lemma objs_map_SObj : forall ks, objs (map (@SObj cnode) ks) = ks.
Proof. intros. unfold objs. rewrite map_map. cbn. apply map_id. Qed.

Lemma abs_slot_map_SKid : forall cs, map abs_slot (map (@SKid cnode) cs) = map abs cs.
Proof. intros. rewrite map_map. reflexivity. Qed.

Lemma repr_leaf_abs : forall cap n id ks vs nx,
  repr_leaf cap n id ks vs nx -> abs n = PLeaf id cap ks vs nx.
Proof.
  intros cap n id ks vs nx (H1 & H2 & H3 & H4 & H5 & H6 & H7 & H8 & H9 & H10).
  destruct n as [i t c k d x]. cbn [nid nty ncap nk data next] in *. subst i t c k x. cbn [abs].
  pose proof (@holds_firstn_skipn d 0 (map SObj ks) H9) as E1. rewrite map_length in E1.
  cbn [skipn] in E1. rewrite E1 by lia. rewrite objs_map_SObj.
  pose proof (@holds_firstn_skipn d cap (map SObj vs) H10) as E2. rewrite map_length in E2.
  rewrite <- H7. rewrite E2 by lia. rewrite objs_map_SObj. reflexivity.
Qed.

Lemma repr_branch_abs : forall cap n id ks cs,
  repr_branch cap n id ks cs -> abs n = PBranch id cap ks (map abs cs).
Proof.
  intros cap n id ks cs (H1 & H2 & H3 & H4 & H5 & H6 & H7 & H8 & H9).
  destruct n as [i t c k d x]. cbn [nid nty ncap nk data next] in *. subst i t c k. cbn [abs].
  pose proof (@holds_firstn_skipn d 0 (map SObj ks) H8) as E1. rewrite map_length in E1.
  cbn [skipn] in E1. rewrite E1 by lia. rewrite objs_map_SObj.
  fold abs_slot. rewrite skipn_map, firstn_map.
  pose proof (@holds_firstn_skipn d cap (map SKid cs) H9) as E2. rewrite map_length in E2.
  rewrite <- H6. rewrite E2 by lia. rewrite abs_slot_map_SKid. reflexivity.
Qed.

(* inversion of wf through abs *)
Lemma wf_abs_leaf : forall cap n id c ks vs nx, wf cap n -> abs n = PLeaf id c ks vs nx ->
  c = cap /\ repr_leaf cap n id ks vs nx.
Proof.
  intros cap n id c ks vs nx W E. inversion W as [n0 id0 ks0 vs0 nx0 R | n0 id0 ks0 cs0 R Hc]; subst.
  - rewrite (repr_leaf_abs R) in E. inversion E; subst. auto.
  - rewrite (repr_branch_abs R) in E. discriminate.
Qed.

Lemma wf_abs_branch : forall cap n id c ks ps, wf cap n -> abs n = PBranch id c ks ps ->
  c = cap /\ exists cs, ps = map abs cs /\ repr_branch cap n id ks cs /\ (forall ch, In ch cs -> wf cap ch).
Proof.
  intros cap n id c ks ps W E. inversion W as [n0 id0 ks0 vs0 nx0 R | n0 id0 ks0 cs0 R Hc]; subst.
  - rewrite (repr_leaf_abs R) in E. discriminate.
  - rewrite (repr_branch_abs R) in E. inversion E; subst. split; auto. exists cs0. auto.
Qed.

Lemma repr_leaf_nty : forall cap n id ks vs nx, repr_leaf cap n id ks vs nx -> nty n = NLeaf.
Proof. intros. apply H. Qed.
Lemma repr_branch_nty : forall cap n id ks cs, repr_branch cap n id ks cs -> nty n = NBranch.
Proof. intros. apply H. Qed.

Lemma nsorted_leaf_inv : forall id c ks vs nx, nsorted (PLeaf id c ks vs nx) -> sorted_keys ks.
Proof. intros. inversion H; auto. Qed.
Lemma nsorted_branch_inv : forall id c ks cs, nsorted (PBranch id c ks cs) ->
  sorted_keys ks /\ (forall ch, In ch cs -> nsorted ch).
Proof. intros. inversion H; auto. Qed.

(* a fresh node *)
Lemma repr_leaf_create : forall id cap, repr_leaf cap (node_create id NLeaf cap) id [] [] 0%N.
Proof.
  intros. unfold repr_leaf, node_create. cbn. rewrite repeat_length.
  repeat split; auto; try lia; intros i Hi; cbn in Hi; lia.
Qed.
