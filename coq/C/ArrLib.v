(* Generic facts for the array-level proofs: list extensionality, nth_error of the list
   operations used by the model, inversion of the checked accessors, counted loops with
   invariants, the reference-count map. *)
From Coq Require Import List Arith ZArith NArith Lia Bool.
From BPT Require Import Common.Base Rust.Lib Rust.TreeFactsI C.Node.
Import ListNotations.
Set Implicit Arguments.

Section Lists.
Variable A : Type.

Lemma list_ext : forall (l1 l2 : list A),
  length l1 = length l2 -> (forall i, i < length l1 -> nth_error l1 i = nth_error l2 i) -> l1 = l2.
Proof.
  induction l1 as [|a l1 IH]; intros [|b l2] L H; cbn in L; try lia; auto.
  f_equal.
  - specialize (H 0). cbn in H. assert (Some a = Some b) by (apply H; lia). congruence.
  - apply IH; [lia|]. intros i Hi. apply (H (S i)). cbn. lia.
Qed.

Lemma nth_error_repeat : forall (x : A) n i, i < n -> nth_error (repeat x n) i = Some x.
Proof.
  induction n as [|n IH]; intros i Hi; [lia|]. destruct i; cbn; auto. apply IH. lia.
Qed.

Lemma nth_error_set_nth : forall i j (x : A) l,
  nth_error (set_nth i x l) j = if Nat.eqb j i then (if Nat.ltb i (length l) then Some x else nth_error l j)
                                else nth_error l j.
Proof.
  intros i j x l. destruct (Nat.eqb_spec j i) as [->|ne].
  - destruct (Nat.ltb_spec i (length l)).
    + apply nth_error_set_nth_same; auto.
    + rewrite set_nth_out by auto. reflexivity.
  - apply nth_error_set_nth_other. auto.
Qed.

Lemma nth_error_remove_at_lt : forall i j (l : list A), j < i -> nth_error (remove_at i l) j = nth_error l j.
Proof.
  induction i as [|i IH]; intros j l Hj; [lia|].
  destruct l as [|a l]; cbn; [destruct j; reflexivity|]. destruct j; cbn; auto. apply IH. lia.
Qed.

Lemma nth_error_remove_at_ge : forall i j (l : list A), i <= j -> nth_error (remove_at i l) j = nth_error l (S j).
Proof.
  induction i as [|i IH]; intros j l Hj.
  - destruct l; cbn; auto. destruct j; reflexivity.
  - destruct l as [|a l]; cbn; [destruct j; reflexivity|]. destruct j; [lia|]. cbn. apply IH. lia.
Qed.

Lemma nth_error_Some_lt : forall (l : list A) i x, nth_error l i = Some x -> i < length l.
Proof. intros l i x H. apply nth_error_Some. congruence. Qed.

Lemma nth_error_lt_Some : forall (l : list A) i, i < length l -> exists x, nth_error l i = Some x.
Proof. intros l i H. destruct (nth_error l i) eqn:E; eauto. apply nth_error_None in E. lia. Qed.

Lemma nth_nth_error : forall (l : list A) i d x, nth_error l i = Some x -> nth i l d = x.
Proof. intros l i d x H. apply nth_error_nth. auto. Qed.

Lemma map_set_nth : forall (B : Type) (f : A -> B) i x l, map f (set_nth i x l) = set_nth i (f x) (map f l).
Proof. induction i; intros x [|a l]; cbn; auto. f_equal. auto. Qed.

Lemma map_insert_at : forall (B : Type) (f : A -> B) i x l, map f (insert_at i x l) = insert_at i (f x) (map f l).
Proof. induction i; intros x [|a l]; cbn; auto. f_equal. auto. Qed.

Lemma map_remove_at : forall (B : Type) (f : A -> B) i l, map f (remove_at i l) = remove_at i (map f l).
Proof. induction i; intros [|a l]; cbn; auto. f_equal. auto. Qed.

End Lists.

(* ------------------------------------------------------------------ *)
(* checked accessors *)
Lemma arr_get_ok : forall site d i s, nth_error d i = Some s -> arr_get site d i = Ok s.
Proof. intros. unfold arr_get. rewrite H. reflexivity. Qed.

Lemma arr_set_ok : forall site d i s, i < length d -> arr_set site d i s = Ok (set_nth i s d).
Proof. intros. unfold arr_set. destruct (Nat.ltb_spec i (length d)); [reflexivity|lia]. Qed.

Lemma data_with_data : forall n d, data (with_data n d) = d.
Proof. destruct n; reflexivity. Qed.
Lemma ncap_with_data : forall n d, ncap (with_data n d) = ncap n.
Proof. destruct n; reflexivity. Qed.
Lemma nk_with_data : forall n d, nk (with_data n d) = nk n.
Proof. destruct n; reflexivity. Qed.
Lemma nid_with_data : forall n d, nid (with_data n d) = nid n.
Proof. destruct n; reflexivity. Qed.
Lemma nty_with_data : forall n d, nty (with_data n d) = nty n.
Proof. destruct n; reflexivity. Qed.
Lemma next_with_data : forall n d, next (with_data n d) = next n.
Proof. destruct n; reflexivity. Qed.
Lemma with_data_with_data : forall n d d', with_data (with_data n d) d' = with_data n d'.
Proof. destruct n; reflexivity. Qed.
Lemma with_data_same : forall n, with_data n (data n) = n.
Proof. destruct n; reflexivity. Qed.

Lemma data_with_nk : forall n k, data (with_nk n k) = data n.
Proof. destruct n; reflexivity. Qed.
Lemma ncap_with_nk : forall n k, ncap (with_nk n k) = ncap n.
Proof. destruct n; reflexivity. Qed.
Lemma nk_with_nk : forall n k, nk (with_nk n k) = k.
Proof. destruct n; reflexivity. Qed.
Lemma nid_with_nk : forall n k, nid (with_nk n k) = nid n.
Proof. destruct n; reflexivity. Qed.
Lemma nty_with_nk : forall n k, nty (with_nk n k) = nty n.
Proof. destruct n; reflexivity. Qed.
Lemma next_with_nk : forall n k, next (with_nk n k) = next n.
Proof. destruct n; reflexivity. Qed.

Lemma data_with_next : forall n x, data (with_next n x) = data n.
Proof. destruct n; reflexivity. Qed.
Lemma ncap_with_next : forall n x, ncap (with_next n x) = ncap n.
Proof. destruct n; reflexivity. Qed.
Lemma nk_with_next : forall n x, nk (with_next n x) = nk n.
Proof. destruct n; reflexivity. Qed.
Lemma nid_with_next : forall n x, nid (with_next n x) = nid n.
Proof. destruct n; reflexivity. Qed.
Lemma nty_with_next : forall n x, nty (with_next n x) = nty n.
Proof. destruct n; reflexivity. Qed.
Lemma next_with_next : forall n x, next (with_next n x) = x.
Proof. destruct n; reflexivity. Qed.

Global Hint Rewrite data_with_data ncap_with_data nk_with_data nid_with_data nty_with_data
  next_with_data data_with_nk ncap_with_nk nk_with_nk nid_with_nk nty_with_nk next_with_nk
  data_with_next ncap_with_next nk_with_next nid_with_next nty_with_next next_with_next
  with_data_with_data length_set_nth : nodeproj.

(* the accessors in terms of the data array *)
Lemma get_key_ok : forall n i s, nth_error (data n) i = Some s -> get_key n i = Ok s.
Proof. intros. unfold get_key. apply arr_get_ok. auto. Qed.
Lemma get_value_ok : forall n i s, nth_error (data n) (ncap n + i) = Some s -> get_value n i = Ok s.
Proof. intros. unfold get_value. apply arr_get_ok. auto. Qed.
Lemma get_child_ok : forall n i s, nth_error (data n) (ncap n + i) = Some s -> get_child n i = Ok s.
Proof. intros. unfold get_child. apply arr_get_ok. auto. Qed.
Lemma set_key_ok : forall n i s, i < length (data n) -> set_key n i s = Ok (with_data n (set_nth i s (data n))).
Proof. intros. unfold set_key. rewrite arr_set_ok by auto. reflexivity. Qed.
Lemma set_value_ok : forall n i s, ncap n + i < length (data n) ->
  set_value n i s = Ok (with_data n (set_nth (ncap n + i) s (data n))).
Proof. intros. unfold set_value. rewrite arr_set_ok by auto. reflexivity. Qed.
Lemma set_child_ok : forall n i s, ncap n + i < length (data n) ->
  set_child n i s = Ok (with_data n (set_nth (ncap n + i) s (data n))).
Proof. intros. unfold set_child. rewrite arr_set_ok by auto. reflexivity. Qed.

(* ------------------------------------------------------------------ *)
(* counted loops *)
Section Loops.
Variable St : Type.

(* P j s: the state before the iteration with index j *)
Lemma for_up_inv : forall (P : nat -> St -> Prop) (body : nat -> St -> res St) cnt i s,
  P i s ->
  (forall j s, i <= j < i + cnt -> P j s -> exists s', body j s = Ok s' /\ P (S j) s') ->
  exists s', for_up cnt i body s = Ok s' /\ P (i + cnt) s'.
Proof.
  intros P body cnt. induction cnt as [|c IH]; intros i s H0 Hstep.
  - exists s. rewrite Nat.add_0_r. split; [reflexivity|auto].
  - destruct (Hstep i s) as (s1 & E1 & P1); [lia|auto|].
    destruct (IH (S i) s1 P1) as (s' & E & P').
    { intros j s2 Hj. apply Hstep. lia. }
    exists s'. cbn [for_up]. rewrite E1. cbn [bind]. split; [exact E|].
    replace (i + S c) with (S i + c) by lia. exact P'.
Qed.

(* P k s: the state after k iterations; iteration k (0-based) has index i - k *)
Lemma for_down_inv : forall (P : nat -> St -> Prop) (body : nat -> St -> res St) cnt i s,
  P 0 s ->
  (forall k s, k < cnt -> P k s -> exists s', body (i - k) s = Ok s' /\ P (S k) s') ->
  exists s', for_down cnt i body s = Ok s' /\ P cnt s'.
Proof.
  intros P body cnt. revert P. induction cnt as [|c IH]; intros P i s H0 Hstep.
  - exists s. split; [reflexivity|auto].
  - destruct (Hstep 0 s) as (s1 & E1 & P1); [lia|auto|]. rewrite Nat.sub_0_r in E1.
    destruct (IH (fun k s => P (S k) s) (pred i) s1 P1) as (s' & E & P').
    { intros k s2 Hk Hp. destruct (Hstep (S k) s2) as (s3 & E3 & P3); [lia|auto|].
      exists s3. split; [|auto]. replace (pred i - k) with (i - S k) by lia. auto. }
    exists s'. cbn [for_down]. rewrite E1. cbn [bind]. split; [exact E|exact P'].
Qed.

End Loops.

(* ------------------------------------------------------------------ *)
(* reference-count map *)
Lemma rc_get_add : forall m i d j,
  rc_get (rc_add m i d) j = (rc_get m j + (if N.eqb j i then d else 0))%Z.
Proof.
  induction m as [|[a c] m IH]; intros i d j; cbn [rc_add rc_get].
  - destruct (N.eqb_spec j i); lia.
  - destruct (N.eqb_spec i a) as [->|ne]; cbn [rc_get].
    + destruct (N.eqb_spec j a); lia.
    + destruct (N.eqb_spec j a) as [->|ne2].
      * destruct (N.eqb_spec a i); [congruence|lia].
      * apply IH.
Qed.

Lemma rc_get_incref : forall m o j, rc_get (incref m o) j = (rc_get m j + (if N.eqb j (kid o) then 1 else 0))%Z.
Proof. intros. unfold incref. apply rc_get_add. Qed.
Lemma rc_get_decref : forall m o j, rc_get (decref m o) j = (rc_get m j - (if N.eqb j (kid o) then 1 else 0))%Z.
Proof. intros. unfold decref. rewrite rc_get_add. destruct (N.eqb j (kid o)); lia. Qed.
