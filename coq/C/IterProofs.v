(* Iterator theorems of the C model:
   iter_fail_fast : an iterator whose stamp differs from the tree's modification count
                    answers RuntimeError and reads NO node (the stamp test comes first);
   iter_new_ok / iter_next_ok : on a tree that has not been modified since the iterator
                    was created, the n-th next() hands out the n-th entry of the sorted
                    entry list (a new reference to the key, or to key and value), skipping
                    empty leaves, and StopIteration after the last entry, for ever. *)
From Coq Require Import List Arith ZArith NArith Lia Bool Permutation.
From BPT Require Import Common.Base Common.AMap Rust.Tree Rust.Readers Rust.InvDefs Rust.Lib
  Rust.TreeFactsI C.Node C.Tree C.Abs C.ArrLib C.AbsFacts C.SimBase C.PInv C.PFacts C.IterDefs.
Import ListNotations.
Set Implicit Arguments.

Theorem iter_fail_fast : forall t rc it,
  it_stamp it <> modc t -> iter_next t rc it = Ok (it, rc, NRuntimeError).
Proof.
Admitted.

Theorem iter_new_ok : forall t inc, CInv t ->
  exists it, iter_new t inc = Ok it /\ it_inc it = inc /\ it_stamp it = modc t /\
    it_at (abs (root t)) (it_cur it) (it_idx it) 0.
Proof.
Admitted.

Theorem iter_next_ok : forall t rc it p, CInv t ->
  it_stamp it = modc t -> it_at (abs (root t)) (it_cur it) (it_idx it) p ->
  exists it', iter_next t rc it =
      Ok (it', expected_rc rc (expected_out (tree_map t) (it_inc it) p),
          expected_out (tree_map t) (it_inc it) p) /\
    it_inc it' = it_inc it /\ it_stamp it' = it_stamp it /\
    it_at (abs (root t)) (it_cur it') (it_idx it')
          (if Nat.ltb p (length (tree_map t)) then S p else p).
Proof.
Admitted.
