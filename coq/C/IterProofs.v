(* Iterator theorems of the C model:
   iter_fail_fast : an iterator whose stamp differs from the tree's modification count
                    answers RuntimeError and reads NO node (the stamp test comes first);
   iter_new_ok / iter_next_ok : on a tree that has not been modified since the iterator
                    was created, the n-th next() hands out the n-th entry of the sorted
                    entry list (a new reference to the key, or to key and value), skipping
                    empty leaves, and StopIteration after the last entry, for ever. *)
From Coq Require Import List Arith ZArith NArith Lia Bool Permutation.
From BPT Require Import Common.Base Common.AMap Rust.Tree Rust.Readers Rust.InvDefs Rust.Lib
  Rust.TreeFactsI C.Node C.Tree C.Abs C.ArrLib C.AbsFacts C.SimBase C.PInv C.PFacts C.IterDefs.
Import ListNotations.
Set Implicit Arguments.

Theorem iter_fail_fast : forall t rc it,
  it_stamp it <> modc t -> iter_next t rc it = Ok (it, rc, NRuntimeError).
Proof.
  intros t rc it H. unfold iter_next.
  destruct (Nat.eqb_spec (it_stamp it) (modc t)) as [e|ne]; [contradiction|]. reflexivity.
Qed.

(* ------------------------------------------------------------------ *)
(* list facts *)
Lemma nth_error_flat_map_at : forall (A B : Type) (f : A -> list B) L j x idx,
  nth_error L j = Some x -> idx < length (f x) ->
  nth_error (flat_map f L) (length (flat_map f (firstn j L)) + idx) = nth_error (f x) idx.
Proof.
  intros A B f. induction L as [|a L IH]; intros j x idx E Hi.
  - destruct j; discriminate.
  - destruct j as [|j]; cbn [nth_error] in E.
    + inversion E; subst. cbn [firstn flat_map length Nat.add]. rewrite nth_error_app1; auto.
    + cbn [firstn flat_map]. rewrite app_length, <- Nat.add_assoc.
      rewrite nth_error_app2 by lia.
      replace (length (f a) + (length (flat_map f (firstn j L)) + idx) - length (f a))
        with (length (flat_map f (firstn j L)) + idx) by lia.
      eapply IH; eauto.
Qed.

Lemma nth_error_combine : forall (A B : Type) (l1 : list A) (l2 : list B) i a b,
  nth_error l1 i = Some a -> nth_error l2 i = Some b -> nth_error (combine l1 l2) i = Some (a, b).
Proof.
  induction l1 as [|x l1 IH]; intros l2 i a b E1 E2; [destruct i; discriminate|].
  destruct l2 as [|y l2]; [destruct i; discriminate|].
  destruct i as [|i]; cbn [nth_error combine] in *.
  - congruence.
  - eapply IH; eauto.
Qed.

Lemma NoDup_app_disjoint : forall (A : Type) (l1 l2 : list A) x,
  NoDup (l1 ++ l2) -> In x l1 -> In x l2 -> False.
Proof.
  induction l1 as [|a l1 IH]; intros l2 x ND H1 H2; [destruct H1|].
  cbn [app] in ND. apply NoDup_cons_iff in ND. destruct ND as [Hn ND].
  destruct H1 as [->|H1].
  - apply Hn. apply in_app_iff. right. auto.
  - eapply IH; eauto.
Qed.

Lemma NoDup_app_l : forall (A : Type) (l1 l2 : list A), NoDup (l1 ++ l2) -> NoDup l1.
Proof.
  induction l1 as [|a l1 IH]; intros l2 ND; [constructor|].
  cbn [app] in ND. apply NoDup_cons_iff in ND. destruct ND as [Hn ND].
  constructor; [|eapply IH; eauto]. intros Hin. apply Hn. apply in_app_iff. left. auto.
Qed.

Lemma NoDup_app_r : forall (A : Type) (l1 l2 : list A), NoDup (l1 ++ l2) -> NoDup l2.
Proof.
  induction l1 as [|a l1 IH]; intros l2 ND; [exact ND|].
  cbn [app] in ND. apply NoDup_cons_iff in ND. destruct ND as [Hn ND]. auto.
Qed.

Lemma NoDup_flat_map_in : forall (A B : Type) (f : A -> list B) l x,
  NoDup (flat_map f l) -> In x l -> NoDup (f x).
Proof.
  induction l as [|a l IH]; intros x ND Hin; [destruct Hin|].
  cbn [flat_map] in ND. destruct Hin as [->|Hin].
  - eapply NoDup_app_l; eauto.
  - apply IH; auto. eapply NoDup_app_r; eauto.
Qed.

Lemma entries_before_S : forall L j lj, nth_error L j = Some lj ->
  entries_before L (S j) = entries_before L j + length (contents lj).
Proof.
  unfold entries_before. induction L as [|a L IH]; intros j lj E.
  - destruct j; discriminate.
  - destruct j as [|j]; cbn [nth_error] in E.
    + inversion E; subst. cbn [firstn flat_map length]. rewrite app_nil_r. lia.
    + change (firstn (S (S j)) (a :: L)) with (a :: firstn (S j) L).
      change (firstn (S j) (a :: L)) with (a :: firstn j L).
      cbn [flat_map]. rewrite !app_length, (IH _ _ E). lia.
Qed.

Lemma entries_before_ge : forall L j, length L <= j ->
  entries_before L j = length (flat_map (@contents key) L).
Proof. intros L j H. unfold entries_before. rewrite firstn_all2; auto. Qed.

Lemma entries_before_0 : forall L, entries_before L 0 = 0.
Proof. reflexivity. Qed.

(* ------------------------------------------------------------------ *)
(* structure of the list-level tree *)
Lemma ptree_ind' : forall P : ptree -> Prop,
  (forall id c ks vs nx, P (PLeaf id c ks vs nx)) ->
  (forall id c ks cs, (forall ch, In ch cs -> P ch) -> P (PBranch id c ks cs)) ->
  forall t, P t.
Proof.
  intros P Hl Hb. fix IH 1. intros [id c ks vs nx | id c ks cs]; [apply Hl|].
  apply Hb. induction cs as [|c0 cs IHcs]; intros ch Hin.
  - destruct Hin.
  - destruct Hin as [<-|Hin]; [apply IH|apply IHcs; auto].
Qed.

Lemma contents_pleaves : forall t : ptree, contents t = flat_map (@contents key) (pleaves t).
Proof.
  induction t as [id c ks vs nx | id c ks cs IH] using ptree_ind'.
  - cbn [pleaves flat_map contents]. rewrite app_nil_r. reflexivity.
  - cbn [pleaves contents]. induction cs as [|c0 cs IHcs]; [reflexivity|].
    cbn [flat_map]. rewrite flat_map_app. f_equal.
    + apply IH. left. auto.
    + apply IHcs. intros ch Hin. apply IH. right. auto.
Qed.

Lemma leaf_links_pleaves : forall t : ptree,
  leaf_links t = map (fun l => (pid l, pnext l)) (pleaves t).
Proof.
  induction t as [id c ks vs nx | id c ks cs IH] using ptree_ind'.
  - reflexivity.
  - cbn [pleaves leaf_links]. induction cs as [|c0 cs IHcs]; [reflexivity|].
    cbn [flat_map]. rewrite map_app. f_equal.
    + apply IH. left. auto.
    + apply IHcs. intros ch Hin. apply IH. right. auto.
Qed.

Lemma pleaves_In_ids : forall (t pl : ptree), In pl (pleaves t) -> In (pid pl) (all_ids t).
Proof.
  induction t as [id c ks vs nx | id c ks cs IH] using ptree_ind'; intros pl Hin.
  - cbn [pleaves] in Hin. destruct Hin as [<-|[]]. left. reflexivity.
  - cbn [pleaves] in Hin. cbn [all_ids]. right.
    apply in_flat_map in Hin. destruct Hin as (ch & Hch & Hpl).
    apply in_flat_map. exists ch. split; auto.
Qed.

Lemma length_pleaves_le : forall t : ptree, length (pleaves t) <= node_count t.
Proof.
  induction t as [id c ks vs nx | id c ks cs IH] using ptree_ind'.
  - cbn. lia.
  - cbn [pleaves node_count].
    assert (length (flat_map pleaves cs) <= list_sum (map node_count cs)); [|lia].
    induction cs as [|c0 cs IHcs]; [cbn; lia|].
    cbn [flat_map map list_sum fold_right]. rewrite app_length.
    assert (length (pleaves c0) <= node_count c0) by (apply IH; left; auto).
    assert (length (flat_map pleaves cs) <= list_sum (map node_count cs)).
    { apply IHcs. intros ch Hin. apply IH. right. auto. }
    unfold list_sum in *. lia.
Qed.

Lemma cshape_pleaves : forall cap h (t : ptree), cshape cap h t ->
  forall pl, In pl (pleaves t) ->
  exists id ks vs nx, pl = PLeaf id cap ks vs nx /\ length vs = length ks.
Proof.
  induction 1 as [id ks vs nx L1 L2 | h id ks cs L1 L2 Hc IH]; intros pl Hin.
  - cbn [pleaves] in Hin. destruct Hin as [<-|[]]. do 4 eexists. split; [reflexivity|auto].
  - cbn [pleaves] in Hin. apply in_flat_map in Hin. destruct Hin as (ch & Hch & Hpl). eauto.
Qed.

(* ------------------------------------------------------------------ *)
(* reading a represented node *)
Lemma rl_key : forall cap n id ks vs nx i k,
  repr_leaf cap n id ks vs nx -> nth_error ks i = Some k -> nth_error (data n) i = Some (SObj k).
Proof.
  intros cap n id ks vs nx i k R E. destruct R as (_ & _ & _ & _ & _ & _ & _ & _ & Hk & _).
  change i with (0 + i). apply (holds_nth (l := map SObj ks)); auto. rewrite nth_error_map, E. reflexivity.
Qed.

Lemma rl_val : forall cap n id ks vs nx i v,
  repr_leaf cap n id ks vs nx -> nth_error vs i = Some v -> nth_error (data n) (ncap n + i) = Some (SObj v).
Proof.
  intros cap n id ks vs nx i v R E. destruct R as (_ & _ & Hc & _ & _ & _ & _ & _ & _ & Hv).
  rewrite Hc. apply (holds_nth (l := map SObj vs)); auto. rewrite nth_error_map, E. reflexivity.
Qed.

Lemma rb_child : forall cap n id ks cs i c,
  repr_branch cap n id ks cs -> nth_error cs i = Some c -> get_child n i = Ok (SKid c).
Proof.
  intros cap n id ks cs i c (H1 & H2 & H3 & H4 & H5 & H6 & H7 & H8 & H9) E.
  apply get_child_ok. rewrite H3. apply (holds_nth (l := map SKid cs)); auto.
  rewrite nth_error_map, E. reflexivity.
Qed.

Lemma rb_live_kids : forall cap n id ks cs,
  repr_branch cap n id ks cs ->
  firstn (S (nk n)) (skipn (ncap n) (data n)) = map SKid cs.
Proof.
  intros cap n id ks cs (H1 & H2 & H3 & H4 & H5 & H6 & H7 & H8 & H9).
  pose proof (@holds_firstn_skipn (data n) cap (map SKid cs) H9) as E.
  rewrite map_length in E. rewrite H3, H4, <- H6. apply E. lia.
Qed.

Lemma nid_in_all_ids : forall n, In (nid n) (all_ids (abs n)).
Proof. intros [i ty c k d x]. cbn [abs nid]. destruct ty; cbn [all_ids]; left; reflexivity. Qed.

(* ------------------------------------------------------------------ *)
(* pointer dereference *)
Definition find_go (f : nat) (id : N) : list cslot -> option cnode :=
  fix go (l : list cslot) : option cnode :=
    match l with
    | [] => None
    | SKid c :: l' => match find_node f c id with Some x => Some x | None => go l' end
    | _ :: l' => go l'
    end.

Lemma find_node_S : forall f n id, find_node (S f) n id =
  if N.eqb (nid n) id then Some n else
  match nty n with
  | NLeaf => None
  | NBranch => find_go f id (firstn (S (nk n)) (skipn (ncap n) (data n)))
  end.
Proof. reflexivity. Qed.

Lemma find_go_kids : forall f id c cs,
  find_go f id (map SKid (c :: cs)) =
  match find_node f c id with Some x => Some x | None => find_go f id (map SKid cs) end.
Proof. reflexivity. Qed.

Lemma find_node_self : forall f n, find_node f n (nid n) = Some n.
Proof.
  intros f n. destruct f; [cbn [find_node]|rewrite find_node_S]; rewrite N.eqb_refl; reflexivity.
Qed.

Lemma find_node_sound : forall f cap n id x,
  wf cap n -> find_node f n id = Some x -> In id (all_ids (abs n)).
Proof.
  induction f as [|f IH]; intros cap n id x W E.
  - cbn [find_node] in E. destruct (N.eqb_spec (nid n) id) as [<-|ne]; [|discriminate].
    apply nid_in_all_ids.
  - rewrite find_node_S in E. destruct (N.eqb_spec (nid n) id) as [<-|ne]; [apply nid_in_all_ids|].
    inversion W as [n0 id0 ks vs nx R | n0 id0 ks cs R Hc]; subst n0.
    + rewrite (repr_leaf_nty R) in E. discriminate.
    + rewrite (repr_branch_nty R), (rb_live_kids R) in E. rewrite (repr_branch_abs R).
      cbn [all_ids]. right. clear R.
      induction cs as [|c0 cs IHcs]; [discriminate|].
      rewrite find_go_kids in E. cbn [map flat_map]. apply in_app_iff.
      destruct (find_node f c0 id) as [y|] eqn:E0.
      * left. eapply IH; eauto. apply Hc. left. auto.
      * right. apply IHcs; auto. intros c Hin. apply Hc. right. auto.
Qed.

Lemma find_go_complete : forall f cap id x cs c,
  (forall c, In c cs -> wf cap c) -> NoDup (flat_map all_ids (map abs cs)) ->
  In c cs -> find_node f c id = Some x -> find_go f id (map SKid cs) = Some x.
Proof.
  induction cs as [|c0 cs IH]; intros c W ND Hin E; [destruct Hin|].
  rewrite find_go_kids. cbn [map flat_map] in ND.
  destruct Hin as [->|Hin]; [rewrite E; reflexivity|].
  destruct (find_node f c0 id) as [y|] eqn:E0.
  - exfalso. apply (@NoDup_app_disjoint _ _ _ id ND).
    + eapply find_node_sound; eauto. apply W. left. auto.
    + apply in_flat_map. exists (abs c). split; [apply in_map; auto|].
      eapply find_node_sound; eauto. apply W. right. auto.
  - eapply IH; eauto.
    + intros c1 H1. apply W. right. auto.
    + eapply NoDup_app_r; eauto.
Qed.

Lemma find_node_complete : forall f cap n h pl,
  wf cap n -> cshape cap h (abs n) -> NoDup (all_ids (abs n)) -> h <= f ->
  In pl (pleaves (abs n)) ->
  exists l, find_node f n (pid pl) = Some l /\ abs l = pl /\ wf cap l.
Proof.
  induction f as [|f IH]; intros cap n h pl W Sh ND Hf Hin.
  - inversion W as [n0 id ks vs nx R | n0 id ks cs R Hc]; subst n0.
    + pose proof (repr_leaf_abs R) as Ea. rewrite Ea in Hin. cbn [pleaves] in Hin.
      destruct Hin as [<-|[]]. exists n. cbn [pid]. split; [|auto].
      replace id with (nid n) by apply R. apply find_node_self.
    + rewrite (repr_branch_abs R) in Sh. apply cshape_branch_inv in Sh.
      destruct Sh as (h' & -> & _). lia.
  - inversion W as [n0 id ks vs nx R | n0 id ks cs R Hc]; subst n0.
    + pose proof (repr_leaf_abs R) as Ea. rewrite Ea in Hin. cbn [pleaves] in Hin.
      destruct Hin as [<-|[]]. exists n. cbn [pid]. split; [|auto].
      replace id with (nid n) by apply R. apply find_node_self.
    + rewrite (repr_branch_abs R) in Sh, ND, Hin.
      destruct (cshape_branch_inv Sh) as (h' & -> & _ & Lc & _ & Hsh).
      cbn [pleaves] in Hin. apply in_flat_map in Hin. destruct Hin as (pc & Hpc & Hpl).
      apply in_map_iff in Hpc. destruct Hpc as (c & <- & Hcin).
      assert (Hidin : In (pid pl) (all_ids (abs c))) by (apply pleaves_In_ids; auto).
      cbn [all_ids] in ND. apply NoDup_cons_iff in ND. destruct ND as [Hnot ND'].
      rewrite find_node_S. destruct (N.eqb_spec (nid n) (pid pl)) as [e|ne].
      { exfalso. apply Hnot. replace id with (nid n) by apply R. rewrite e.
        apply in_flat_map. exists (abs c). split; [apply in_map; auto|auto]. }
      rewrite (repr_branch_nty R), (rb_live_kids R).
      destruct (IH cap c h' pl) as (l & El & Eabs & Wl); auto.
      * apply Hsh. apply in_map. auto.
      * apply (NoDup_flat_map_in all_ids (map abs cs) (abs c) ND'). apply in_map. auto.
      * lia.
      * exists l. split; auto. eapply find_go_complete; eauto.
Qed.

(* ------------------------------------------------------------------ *)
(* the leaf chain *)
Definition addr (L : list ptree) (i : nat) : N :=
  match nth_error L i with Some l => pid l | None => 0%N end.

Lemma links_ok_next : forall (L : list ptree) i pl,
  links_ok (map (fun l => (pid l, pnext l)) L) 0%N -> nth_error L i = Some pl ->
  pnext pl = addr L (S i).
Proof.
  induction L as [|a L IH]; intros i pl H E; [destruct i; discriminate|].
  cbn [map links_ok] in H. destruct H as [H1 H2].
  destruct i as [|i]; cbn [nth_error] in E.
  - inversion E; subst. unfold addr. cbn [nth_error]. rewrite H1. destruct L as [|b L]; reflexivity.
  - exact (IH i pl H2 E).
Qed.

Lemma CInv_fuel' : forall t h, CInv t -> cshape (tcap t) h (abs (root t)) -> h < fuel_of t.
Proof.
  intros t h I Sh. pose proof (cshape_height_lt_count Sh). pose proof (ci_count I).
  unfold fuel_of. lia.
Qed.

(* what the iterator code needs to know about the leaves *)
Definition leaf_ok (t : ctree) (L : list ptree) : Prop :=
  forall i pl, nth_error L i = Some pl ->
    pid pl <> 0%N /\ length (pvals pl) = length (pkeys pl) /\
    contents pl = combine (pkeys pl) (pvals pl) /\
    exists l, deref t (pid pl) = Ok l /\
      repr_leaf (tcap t) l (pid pl) (pkeys pl) (pvals pl) (addr L (S i)).

Lemma CInv_leaf_ok : forall t, CInv t -> leaf_ok t (pleaves (abs (root t))).
Proof.
  intros t I i pl E. destruct (ci_shape I) as (h & Sh).
  assert (Hin : In pl (pleaves (abs (root t)))) by (eapply nth_error_In; eauto).
  pose proof (ci_chain I) as Ch. rewrite leaf_links_pleaves in Ch.
  pose proof (@links_ok_next _ _ _ Ch E) as Enx.
  destruct (@find_node_complete (fuel_of t) (tcap t) (root t) h pl (ci_wf I) Sh (ci_nodup I))
    as (l & El & Ea & Wl); auto.
  { pose proof (CInv_fuel' I Sh). lia. }
  pose proof (ci_ids I _ (@pleaves_In_ids _ _ Hin)) as Hid.
  destruct (@cshape_pleaves _ _ _ Sh _ Hin) as (id & ks & vs & nx & -> & Lv).
  cbn [pid pkeys pvals pnext contents] in *.
  split; [lia|]. split; [auto|]. split; [reflexivity|].
  exists l. unfold deref. rewrite El. split; auto.
  destruct (wf_abs_leaf Wl Ea) as (_ & R). rewrite <- Enx. exact R.
Qed.

(* ------------------------------------------------------------------ *)
(* skip_empty *)
Lemma skip_empty_ok : forall t L, leaf_ok t L -> forall fuel i, length L - i <= fuel ->
  exists j, i <= j /\ entries_before L j = entries_before L i /\
    (j <> i -> exists li, nth_error L i = Some li /\ pkeys li = []) /\
    ((nth_error L j = None /\ skip_empty fuel t (addr L i) = Ok 0%N) \/
     (exists lj, nth_error L j = Some lj /\ pkeys lj <> [] /\
                 skip_empty fuel t (addr L i) = Ok (pid lj))).
Proof.
  intros t L H. induction fuel as [|f IH]; intros i Hf.
  - assert (E : nth_error L i = None) by (apply nth_error_None; lia).
    exists i. unfold addr. rewrite E. split; [lia|]. split; [auto|]. split; [congruence|].
    left. auto.
  - destruct (nth_error L i) as [li|] eqn:E.
    + destruct (H i li E) as (Hnz & Lv & Ct & l & Ed & R).
      assert (Ea : addr L i = pid li) by (unfold addr; rewrite E; reflexivity).
      assert (Es : skip_empty (S f) t (pid li) =
                   if Nat.eqb (nk l) 0 then skip_empty f t (next l) else Ok (pid li)).
      { cbn [skip_empty]. destruct (N.eqb_spec (pid li) 0); [contradiction|]. rewrite Ed. reflexivity. }
      destruct R as (_ & _ & _ & Hnk & Hnx & _). rewrite Hnk, Hnx in Es.
      destruct (pkeys li) as [|k0 ks0] eqn:Ek.
      * cbn [length Nat.eqb] in Es.
        destruct (IH (S i)) as (j & Hij & Eb & _ & Hres); [lia|].
        exists j. split; [lia|]. split.
        { rewrite Eb. rewrite (@entries_before_S _ _ _ E). rewrite Ct. cbn [combine length]. lia. }
        split. { intros _. exists li. auto. }
        rewrite Ea, Es. exact Hres.
      * exists i. rewrite Ea, Es. cbn [length Nat.eqb]. split; [lia|]. split; [auto|].
        split; [congruence|]. right. exists li. split; auto. rewrite Ek. split; [discriminate|reflexivity].
    + exists i. unfold addr. rewrite E. split; [lia|]. split; [auto|]. split; [congruence|].
      left. auto.
Qed.

(* reading entry idx of leaf j *)
Lemma read_entry : forall t L j lj idx,
  leaf_ok t L -> nth_error L j = Some lj -> idx < length (pkeys lj) ->
  exists l k v, deref t (pid lj) = Ok l /\ get_key l idx = Ok (SObj k) /\
    get_value l idx = Ok (SObj v) /\
    nth_error (flat_map (@contents key) L) (entries_before L j + idx) = Some (k, v).
Proof.
  intros t L j lj idx H E Hi. destruct (H j lj E) as (Hnz & Lv & Ct & l & Ed & R).
  destruct (nth_error (pkeys lj) idx) as [k|] eqn:Ek; [|apply nth_error_None in Ek; lia].
  destruct (nth_error (pvals lj) idx) as [v|] eqn:Ev; [|apply nth_error_None in Ev; lia].
  exists l, k, v. split; auto.
  split; [apply get_key_ok; eapply rl_key; eauto|].
  split; [apply get_value_ok; eapply rl_val; eauto|].
  unfold entries_before. rewrite (@nth_error_flat_map_at _ _ (@contents key) L j lj idx E).
  - rewrite Ct. apply nth_error_combine; auto.
  - rewrite Ct, combine_length. lia.
Qed.

(* ------------------------------------------------------------------ *)
(* first_leaf *)
Lemma first_leaf_ok : forall f cap n h, wf cap n -> cshape cap h (abs n) -> h < f ->
  exists pl, nth_error (pleaves (abs n)) 0 = Some pl /\ first_leaf f n = Ok (pid pl).
Proof.
  induction f as [|f IH]; intros cap n h W Sh Hf; [lia|].
  inversion W as [n0 id ks vs nx R | n0 id ks cs R Hc]; subst n0.
  - rewrite (repr_leaf_abs R). cbn [pleaves nth_error first_leaf]. rewrite (repr_leaf_nty R).
    eexists. split; [reflexivity|]. cbn [pid]. f_equal. apply R.
  - rewrite (repr_branch_abs R) in *.
    destruct (cshape_branch_inv Sh) as (h' & -> & _ & Lc & _ & Hsh).
    rewrite map_length in Lc.
    destruct cs as [|c0 cs]; [cbn in Lc; lia|].
    cbn [first_leaf]. rewrite (repr_branch_nty R).
    rewrite (@rb_child cap n id ks (c0 :: cs) 0 c0 R eq_refl). cbn [bind].
    destruct (IH cap c0 h') as (pl & Hh & Hfl).
    + apply Hc. left. auto.
    + apply Hsh. left. reflexivity.
    + lia.
    + exists pl. split; auto. cbn [map pleaves flat_map].
      destruct (pleaves (abs c0)) as [|p0 ps]; [discriminate|]. exact Hh.
Qed.

Theorem iter_new_ok : forall t inc, CInv t ->
  exists it, iter_new t inc = Ok it /\ it_inc it = inc /\ it_stamp it = modc t /\
    it_at (abs (root t)) (it_cur it) (it_idx it) 0.
Proof.
  intros t inc I. destruct (ci_shape I) as (h & Sh).
  destruct (@first_leaf_ok (fuel_of t) (tcap t) (root t) h (ci_wf I) Sh (CInv_fuel' I Sh))
    as (pl & Hh & Efl).
  unfold iter_new. rewrite Efl. cbn [bind]. eexists. split; [reflexivity|].
  cbn [it_inc it_stamp it_cur it_idx]. split; [reflexivity|]. split; [reflexivity|].
  right. exists 0, pl. split; [exact Hh|]. split; [reflexivity|].
  destruct (CInv_leaf_ok I _ Hh) as (Hnz & _). split; [exact Hnz|].
  split; [lia|]. reflexivity.
Qed.

Theorem iter_next_ok : forall t rc it p, CInv t ->
  it_stamp it = modc t -> it_at (abs (root t)) (it_cur it) (it_idx it) p ->
  exists it', iter_next t rc it =
      Ok (it', expected_rc rc (expected_out (tree_map t) (it_inc it) p),
          expected_out (tree_map t) (it_inc it) p) /\
    it_inc it' = it_inc it /\ it_stamp it' = it_stamp it /\
    it_at (abs (root t)) (it_cur it') (it_idx it')
          (if Nat.ltb p (length (tree_map t)) then S p else p).
Proof.
  intros t rc [cur idx inc st] p I Hst Hat. cbn [it_stamp it_cur it_idx it_inc] in *.
  pose proof (CInv_leaf_ok I) as LO.
  unfold tree_map. rewrite (contents_pleaves (abs (root t))).
  unfold it_at in *. rewrite (contents_pleaves (abs (root t))) in *.
  set (L := pleaves (abs (root t))) in *.
  set (M := flat_map (@contents key) L) in *.
  unfold iter_next. cbn [it_stamp it_cur it_idx it_inc]. rewrite Hst, Nat.eqb_refl. cbn [negb].
  (* the three ways to stop *)
  assert (STOP : forall idx', p = length M ->
    exists it', Ok (mkIter 0 idx' inc (modc t), rc, NStop) =
        Ok (it', expected_rc rc (expected_out M inc p), expected_out M inc p) /\
      it_inc it' = inc /\ it_stamp it' = modc t /\
      ((it_cur it' = 0%N /\ (if Nat.ltb p (length M) then S p else p) = length M) \/
       (exists i l, nth_error L i = Some l /\ pid l = it_cur it' /\ it_cur it' <> 0%N /\
          it_idx it' <= length (pkeys l) /\
          (if Nat.ltb p (length M) then S p else p) = entries_before L i + it_idx it'))).
  { intros idx' Hp. assert (En : nth_error M p = None) by (apply nth_error_None; lia).
    unfold expected_out. rewrite En. cbn [expected_rc].
    eexists. split; [reflexivity|]. cbn [it_inc it_stamp it_cur it_idx].
    split; [reflexivity|]. split; [reflexivity|]. left. split; [reflexivity|].
    rewrite Hp, Nat.ltb_irrefl. reflexivity. }
  (* reading entry idx' of leaf j *)
  assert (READ : forall j lj idx', nth_error L j = Some lj -> idx' < length (pkeys lj) ->
    p = entries_before L j + idx' ->
    exists it',
      (do l <- deref t (pid lj);
       do ks <- get_key l idx';
       if inc then
         do vs <- get_value l idx';
         do k <- as_obj 10 ks;
         do v <- as_obj 11 vs;
         Ok (mkIter (pid lj) (S idx') true (modc t), incref (incref rc k) v, NItem k v)
       else
         do k <- as_obj 10 ks;
         Ok (mkIter (pid lj) (S idx') false (modc t), incref rc k, NKey k)) =
        Ok (it', expected_rc rc (expected_out M inc p), expected_out M inc p) /\
      it_inc it' = inc /\ it_stamp it' = modc t /\
      ((it_cur it' = 0%N /\ (if Nat.ltb p (length M) then S p else p) = length M) \/
       (exists i l, nth_error L i = Some l /\ pid l = it_cur it' /\ it_cur it' <> 0%N /\
          it_idx it' <= length (pkeys l) /\
          (if Nat.ltb p (length M) then S p else p) = entries_before L i + it_idx it'))).
  { intros j lj idx' Ej Hi Hp.
    destruct (@read_entry t L j lj idx' LO Ej Hi) as (l & k & v & Ed & Ek & Ev & En).
    fold M in En. rewrite <- Hp in En.
    assert (Hlt : p < length M) by (apply nth_error_Some; congruence).
    apply Nat.ltb_lt in Hlt. rewrite Hlt.
    destruct (LO j lj Ej) as (Hnz & _).
    rewrite Ed. cbn [bind]. rewrite Ek. cbn [bind]. unfold expected_out. rewrite En.
    destruct inc.
    - rewrite Ev. cbn [bind as_obj expected_rc]. eexists. split; [reflexivity|].
      cbn [it_inc it_stamp it_cur it_idx]. split; [reflexivity|]. split; [reflexivity|].
      right. exists j, lj. repeat split; auto; lia.
    - cbn [bind as_obj expected_rc]. eexists. split; [reflexivity|].
      cbn [it_inc it_stamp it_cur it_idx]. split; [reflexivity|]. split; [reflexivity|].
      right. exists j, lj. repeat split; auto; lia. }
  assert (Hfuel : forall i, length L - i <= fuel_of t).
  { intros i. pose proof (length_pleaves_le (abs (root t))). pose proof (ci_count I).
    fold L in H. unfold fuel_of. lia. }
  destruct Hat as [[Hc Hp] | (i & li & Ei & Hid & Hnz & Hidx & Hp)].
  - (* exhausted iterator *)
    subst cur. rewrite N.eqb_refl. apply STOP. exact Hp.
  - destruct (N.eqb_spec cur 0) as [e|_]; [contradiction|].
    assert (Ea : cur = addr L i) by (unfold addr; rewrite Ei; auto).
    destruct (@skip_empty_ok t L LO (fuel_of t) i (Hfuel i)) as (j & Hij & Eb & Hemp & Hres).
    rewrite <- Ea in Hres.
    assert (Hp1 : exists idx1, p = entries_before L j + idx1 /\
                   (j = i /\ idx1 = idx \/ j <> i /\ idx1 = 0 /\ idx = 0)).
    { destruct (Nat.eq_dec j i) as [->|ne].
      - exists idx. split; auto.
      - destruct (Hemp ne) as (li' & Ei' & Ek). rewrite Ei in Ei'. inversion Ei'; subst li'.
        rewrite Ek in Hidx. cbn [length] in Hidx. exists 0. split; [lia|]. right. lia. }
    destruct Hp1 as (idx1 & Hp1 & Hcase).
    destruct Hres as [[Ej Es] | (lj & Ej & Hne & Es)].
    + (* only empty leaves left *)
      rewrite Es. cbn [bind]. rewrite N.eqb_refl. apply STOP.
      apply nth_error_None in Ej. rewrite (@entries_before_ge _ _ Ej) in Hp1.
      fold M in Hp1.
      destruct Hcase as [[-> ->] | (_ & -> & _)].
      * apply nth_error_None in Ej. congruence.
      * lia.
    + rewrite Es. cbn [bind].
      destruct (LO j lj Ej) as (Hnzj & Lvj & Ctj & l1 & Ed1 & R1).
      destruct (N.eqb_spec (pid lj) 0) as [e|_]; [contradiction|].
      rewrite Ed1. cbn [bind].
      pose proof R1 as (_ & _ & _ & Hnk & Hnx & _). rewrite Hnk.
      destruct (Nat.leb_spec (length (pkeys lj)) idx) as [Hge|Hlt].
      * (* the current leaf is used up: move on *)
        assert (Hj : j = i /\ idx1 = idx).
        { destruct Hcase as [?|(_ & _ & ->)]; auto. exfalso. apply Hne.
          destruct (pkeys lj); [reflexivity|cbn [length] in Hge; lia]. }
        destruct Hj as [-> ->]. rewrite Ei in Ej. inversion Ej; subst lj.
        assert (Hidx' : idx = length (pkeys li)) by lia.
        destruct (@skip_empty_ok t L LO (fuel_of t) (S i) (Hfuel (S i)))
          as (j2 & Hij2 & Eb2 & _ & Hres2).
        rewrite Hnx.
        assert (Hp2 : p = entries_before L j2).
        { rewrite Eb2, (@entries_before_S _ _ _ Ei), Ctj, combine_length. lia. }
        destruct Hres2 as [[Ej2 Es2] | (lj2 & Ej2 & Hne2 & Es2)].
        -- rewrite Es2. cbn [bind]. rewrite N.eqb_refl. apply STOP.
           apply nth_error_None in Ej2. rewrite (@entries_before_ge _ _ Ej2) in Hp2. exact Hp2.
        -- rewrite Es2. cbn [bind].
           destruct (LO j2 lj2 Ej2) as (Hnz2 & _).
           destruct (N.eqb_spec (pid lj2) 0) as [e|_]; [contradiction|].
           apply READ with (j := j2); auto; [|lia].
           destruct (pkeys lj2); [congruence|cbn [length]; lia].
      * cbn [bind]. destruct (N.eqb_spec (pid lj) 0) as [e|_]; [contradiction|].
        assert (idx1 = idx) by (destruct Hcase as [[_ ?]|(_ & -> & ->)]; auto). subst idx1.
        apply READ with (j := j); auto.
Qed.
