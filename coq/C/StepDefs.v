(* The relation between the states of the C model (C/Run.v) and of the abstract
   specification (C/Spec.v) that every call preserves (definitions only):
     - each tree object satisfies CInv and stands for the abstract mapping;
     - an iterator is stale in the specification exactly when its stamp differs from the
       modification count (which only grows); a fresh one stands at the abstract position;
     - the ghost reference count of every object equals the number of live slots holding
       it, over the tree and the copy, plus the references lent to the caller. *)
From Coq Require Import List Arith ZArith NArith Lia Bool.
From BPT Require Import Common.Base Common.AMap Rust.Tree C.Node C.Tree C.Run C.Abs C.PInv
  C.IterDefs C.Spec.
Import ListNotations.
Set Implicit Arguments.

Definition tree_rel (ot : option ctree) (om : option amap) : Prop :=
  match ot, om with
  | None, None => True
  | Some t, Some m => CInv t /\ tree_map t = m
  | _, _ => False
  end.

Definition iter_rel (t : ctree) (it : citer) (ai : aiter) : Prop :=
  it_inc it = ai_inc ai /\ it_stamp it <= modc t /\
  ai_valid ai = Nat.eqb (it_stamp it) (modc t) /\
  (ai_valid ai = true -> it_at (abs (root t)) (it_cur it) (it_idx it) (ai_pos ai)).

Definition iters_rel (t : ctree) (l : list (nat * citer)) (la : list (nat * aiter)) : Prop :=
  Forall2 (fun e ea => fst e = fst ea /\ iter_rel t (snd e) (snd ea)) l la.

Definition orefs (ot : option ctree) : list N :=
  match ot with Some t => prefs (abs (root t)) | None => [] end.

Record R (s : cstate) (a : astate) : Prop := mkR {
  r_tree : tree_rel (st_tree s) (a_map a);
  r_copy : tree_rel (st_copy s) (a_copy a);
  r_iters : match st_tree s with
            | Some t => iters_rel t (st_iters s) (a_iters a)
            | None => st_iters s = [] /\ a_iters a = [] /\ st_copy s = None
            end;
  r_rc : forall o, rc_get (st_rc s) o =
                   cnt (orefs (st_tree s) ++ orefs (st_copy s) ++ map kid (st_held s)) o }.
