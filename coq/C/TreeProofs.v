(* The tree operations of the C model on a tree object satisfying [CInv]:
   they never leave their arrays, preserve the invariant, refine the sorted association
   list, and keep the reference counts balanced. *)
From Coq Require Import List Arith ZArith NArith Lia Bool Permutation.
From BPT Require Import Common.Base Common.AMap Rust.Tree Rust.Readers Rust.InvDefs Rust.Lib
  Rust.TreeFactsI Rust.InsertLocal C.Node C.Tree C.Abs C.ArrLib C.AbsFacts C.SimBase C.SimTree
  C.PInv C.PFacts C.PInsert C.PDelete.
Import ListNotations.
Set Implicit Arguments.

Lemma NoDup_app_disj : forall (A : Type) (l1 l2 : list A),
  NoDup l1 -> NoDup l2 -> (forall x, In x l1 -> In x l2 -> False) -> NoDup (l1 ++ l2).
Proof.
  induction l1 as [|a l1 IH]; intros l2 H1 H2 D; cbn; auto.
  inversion H1; subst. constructor.
  - rewrite in_app_iff. intros [H|H]; auto. apply (D a); [left; auto|auto].
  - apply IH; auto. intros x Hx. apply D. right. auto.
Qed.

Lemma CInv_fuel : forall t h, CInv t -> cshape (tcap t) h (abs (root t)) -> h < fuel_of t.
Proof.
  intros t h I Sh. pose proof (cshape_height_lt_count Sh). pose proof (ci_count I).
  unfold fuel_of. lia.
Qed.

Lemma CInv_sorted : forall t, CInv t -> m_sorted (tree_map t).
Proof.
  intros t I. destruct (ci_shape I) as (h & Sh). unfold tree_map.
  eapply contents_sorted_c; eauto. apply (ci_ord I).
Qed.

(* ------------------------------------------------------------------ *)
(* tree_insert *)
Theorem tree_insert_ok : forall t rc k v,
  CInv t ->
  exists t' rc', tree_insert t rc k v = Ok (t', rc') /\ CInv t' /\
    tree_map t' = m_insert (tree_map t) k v /\
    tcap t' = tcap t /\ modc t' = S (modc t) /\
    (forall o, rc_get rc' o = rc_get rc o + cnt (prefs (abs (root t'))) o - cnt (prefs (abs (root t))) o)%Z.
Proof.
  intros t rc k v I. destruct (ci_shape I) as (h & Sh).
  pose proof (CInv_fuel I Sh) as Hf.
  destruct (@p_tree_insert_spec (fuel_of t) (next_id t) rc (tcap t) (abs (root t)) k v h
              (ci_cap I) Hf (ci_ord I) Sh)
    as (pt & isnew & rc' & al' & Ep & O' & (h' & Sh') & Ct & Enew & Lk & Fi & Pm & Hal & Hrc).
  destruct (@sim_tree_insert t rc k v pt isnew rc' al' (ci_cap I) (ci_wf I)
              (ord_nsorted (ci_ord I)) Ep)
    as (t' & Et & Ea & W' & Enid & Ecap & Elv & Emod & Esz).
  exists t', rc'. split; [exact Et|]. subst pt.
  assert (Hin : forall id, In id (all_ids (abs (root t'))) -> (0 < id < next_id t')%N).
  { intros id Hid. apply (Permutation_in _ Pm) in Hid. apply in_app_iff in Hid. rewrite Enid.
    destruct Hid as [Hid|Hid].
    - pose proof (ci_ids I _ Hid). lia.
    - apply in_nrange in Hid. pose proof (ci_count I).
      assert (0 < next_id t)%N by lia. lia. }
  split; [|split; [exact Ct|split; [exact Ecap|split; [exact Emod|exact Hrc]]]].
  constructor.
  - rewrite Ecap. apply (ci_cap I).
  - rewrite Ecap. exact W'.
  - exact O'.
  - exists h'. rewrite Ecap. exact Sh'.
  - apply Lk. apply (ci_chain I).
  - apply (Permutation_NoDup (Permutation_sym Pm)). apply NoDup_app_disj.
    + apply (ci_nodup I).
    + apply nodup_nrange.
    + intros x H1 H2. pose proof (ci_ids I _ H1). apply in_nrange in H2. lia.
  - exact Hin.
  - rewrite node_count_all_ids. rewrite (Permutation_length Pm), app_length.
    rewrite <- node_count_all_ids. pose proof (ci_count I). rewrite Enid.
    unfold nrange. rewrite map_length, seq_length. lia.
  - rewrite Esz, Ct, Enew. rewrite length_m_insert by (apply (CInv_sorted I)).
    fold (tree_map t). rewrite (ci_size I). fold (tree_map t).
    destruct (m_get (tree_map t) (kz k)); reflexivity.
  - rewrite Fi, Elv. apply (ci_leaves I).
Qed.

(* ------------------------------------------------------------------ *)
(* BPlusTree_delitem *)
Theorem tree_delitem_ok : forall t rc z,
  CInv t ->
  exists t' rc' b, tree_delitem t rc z = Ok (t', rc', b) /\ CInv t' /\
    tree_map t' = m_remove (tree_map t) z /\
    b = is_some (m_get (tree_map t) z) /\
    tcap t' = tcap t /\ modc t' = (if b then S (S (modc t)) else modc t) /\
    (forall o, rc_get rc' o = rc_get rc o + cnt (prefs (abs (root t'))) o - cnt (prefs (abs (root t))) o)%Z.
Proof.
  intros t rc z I. destruct (ci_shape I) as (h & Sh).
  pose proof (CInv_fuel I Sh) as Hf.
  destruct (@p_del_spec (fuel_of t) rc (abs (root t)) z (tcap t) h None None Hf (ci_ord I) Sh)
    as (pt & rc' & b & Ep & O' & Sh' & Ct & Eb & Lk & Ids & Nc & Hrc).
  pose proof (ci_cap I) as Hcap.
  destruct (@sim_tree_delitem t rc z pt rc' b) as (t' & Et & Ea & W' & Enid & Ecap & Elv & Emod & Esz);
    auto; try lia; [apply (ci_wf I)|apply (ord_nsorted (ci_ord I))|].
  exists t', rc', b. split; [exact Et|]. subst pt.
  split; [|split; [exact Ct|split; [exact Eb|split; [exact Ecap|split; [exact Emod|exact Hrc]]]]].
  constructor.
  - rewrite Ecap. exact Hcap.
  - rewrite Ecap. exact W'.
  - exact O'.
  - exists h. rewrite Ecap. exact Sh'.
  - rewrite Lk. apply (ci_chain I).
  - rewrite Ids. apply (ci_nodup I).
  - rewrite Ids, Enid. apply (ci_ids I).
  - rewrite Nc, Enid. apply (ci_count I).
  - rewrite Esz, Ct. rewrite length_m_remove by (apply (CInv_sorted I)).
    fold (tree_map t). rewrite (ci_size I). fold (tree_map t). rewrite Eb.
    unfold tree_map. destruct (m_get (contents (abs (root t))) z); cbn [is_some]; lia.
  - rewrite Lk, Elv. apply (ci_leaves I).
Qed.

(* ------------------------------------------------------------------ *)
(* tree_get, BPlusTree_contains, BPlusTree_length *)
Theorem tree_get_ok : forall t rc z,
  CInv t ->
  tree_get t rc z =
    Ok (match m_get (tree_map t) z with Some v => (incref rc v, Some v) | None => (rc, None) end).
Proof.
  intros t rc z I. destruct (ci_shape I) as (h & Sh).
  pose proof (CInv_fuel I Sh) as Hf.
  apply sim_tree_get.
  - apply (ci_wf I).
  - apply (ord_nsorted (ci_ord I)).
  - eapply p_get_spec; eauto. apply (ci_ord I).
Qed.

Theorem tree_contains_ok : forall t rc z,
  CInv t ->
  exists rc', tree_contains t rc z = Ok (rc', is_some (m_get (tree_map t) z)) /\
    forall o, rc_get rc' o = rc_get rc o.
Proof.
  intros t rc z I. unfold tree_contains. rewrite (tree_get_ok rc z I). cbn [bind].
  destruct (m_get (tree_map t) z) as [v|]; cbn [fst snd is_some].
  - eexists. split; [reflexivity|]. intros o. rewrite rc_get_decref, rc_get_incref. lia.
  - eexists. split; [reflexivity|]. auto.
Qed.

Theorem tree_length_ok : forall t, CInv t -> tree_length t = length (tree_map t).
Proof. intros t I. apply (ci_size I). Qed.

(* ------------------------------------------------------------------ *)
(* BPlusTree_init *)
Theorem tree_init_ok : forall c t, tree_init c = Some t -> CInv t /\ tree_map t = [] /\ modc t = 0.
Proof.
  intros c t E. unfold tree_init in E.
  destruct (Z.ltb_spec c MIN_CAPACITY); [discriminate|].
  destruct (Z.ltb_spec UINT16_MAX c); [discriminate|]. inversion E; subst. clear E.
  unfold MIN_CAPACITY in *. set (cap := Z.to_nat c). assert (Hcap : 4 <= cap) by (unfold cap; lia).
  pose proof (repr_leaf_create 1%N cap) as R.
  assert (Ea : abs (node_create 1 NLeaf cap) = PLeaf 1%N cap [] [] 0%N) by (apply repr_leaf_abs; auto).
  split; [|split; [unfold tree_map; cbn [root]; rewrite Ea; reflexivity|reflexivity]].
  constructor; cbn [root tcap next_id size leaves]; try rewrite Ea.
  - exact Hcap.
  - eapply wf_leaf; eauto.
  - constructor; cbn; auto.
  - exists 0. constructor; cbn; lia.
  - cbn. auto.
  - cbn. constructor; [intros []|constructor].
  - cbn. intros id [<-|[]]. lia.
  - cbn. lia.
  - reflexivity.
  - reflexivity.
Qed.

Theorem tree_init_rejects : forall c, (c < 4 \/ 65535 < c)%Z <-> tree_init c = None.
Proof.
  intros c. unfold tree_init, MIN_CAPACITY, UINT16_MAX.
  destruct (Z.ltb_spec c 4); destruct (Z.ltb_spec 65535 c); split; intros HH; try reflexivity;
    try discriminate; lia.
Qed.
