(* List-level view of the array-level C model.

   [abs] reads a node array as the tree it represents: a leaf is its [nk] live keys and
   values, a branch its [nk] live keys and [nk+1] live children; slots beyond the live
   part (NULLs, and the stale pointers a branch split leaves behind) are not part of
   the tree.  [wf] says that the arrays have the lengths node_create gave them and that
   the live slots hold what their position requires.

   [p_ins], [p_del], [p_get], ... are the same algorithms as C/Node.v + C/Tree.v written
   on key/value/child LISTS (the vocabulary of Rust/Tree.v's [ptree], so that the lemma
   library of the Rust model applies).  C/SimLeaf.v, C/SimBranch.v and C/SimTree.v prove that under [wf]
   the array code computes exactly these functions and never leaves its arrays; all
   B+-tree reasoning then happens on the list level.  Definitions only. *)
From BPT Require Import Common.Base Common.AMap Rust.Tree C.Node C.Tree.
Set Implicit Arguments.

Notation ptree := (Rust.Tree.ptree obj).

Definition dummy_obj : obj := mkKey 0 0.
Definition dummy_tree : ptree := PLeaf 0%N 0 [] [] 0%N.

Definition slot_obj (s : cslot) : obj := match s with SObj o => o | _ => dummy_obj end.
Definition objs (l : list cslot) : list obj := map slot_obj l.

Definition live_keys (n : cnode) : list cslot := firstn (nk n) (data n).
Definition live_vals (n : cnode) : list cslot := firstn (nk n) (skipn (ncap n) (data n)).
Definition live_kids (n : cnode) : list cslot := firstn (S (nk n)) (skipn (ncap n) (data n)).

Fixpoint abs (n : cnode) : ptree :=
  match n with
  | CNode id ty cap k d nx =>
      match ty with
      | NLeaf => PLeaf id cap (objs (firstn k d)) (objs (firstn k (skipn cap d))) nx
      | NBranch =>
          PBranch id cap (objs (firstn k d))
            (firstn (S k) (skipn cap
               (map (fun s => match s with SKid c => abs c | _ => dummy_tree end) d)))
      end
  end.

Definition abs_slot (s : cslot) : ptree :=
  match s with SKid c => abs c | _ => dummy_tree end.

(* [holds d off l]: the array d contains the slot list l from index off on *)
Definition holds (d : list cslot) (off : nat) (l : list cslot) : Prop :=
  forall i, i < length l -> nth_error d (off + i) = nth_error l i.

(* the node n is a leaf array of capacity cap representing keys ks and values vs *)
Definition repr_leaf (cap : nat) (n : cnode) (id : N) (ks vs : list obj) (nx : N) : Prop :=
  nid n = id /\ nty n = NLeaf /\ ncap n = cap /\ nk n = length ks /\ next n = nx /\
  length (data n) = 2 * cap /\ length vs = length ks /\ length ks <= cap /\
  holds (data n) 0 (map SObj ks) /\ holds (data n) cap (map SObj vs).

(* the node n is a branch array of capacity cap representing keys ks and children cs *)
Definition repr_branch (cap : nat) (n : cnode) (id : N) (ks : list obj) (cs : list cnode) : Prop :=
  nid n = id /\ nty n = NBranch /\ ncap n = cap /\ nk n = length ks /\
  length (data n) = 2 * cap + 1 /\ length cs = S (length ks) /\ length ks <= cap /\
  holds (data n) 0 (map SObj ks) /\ holds (data n) cap (map SKid cs).

Inductive wf (cap : nat) : cnode -> Prop :=
| wf_leaf n id ks vs nx : repr_leaf cap n id ks vs nx -> wf cap n
| wf_branch n id ks cs :
    repr_branch cap n id ks cs -> (forall c, In c cs -> wf cap c) -> wf cap n.

(* every node's key list is strictly ascending (what the binary search relies on) *)
Inductive nsorted : ptree -> Prop :=
| ns_leaf id c ks vs nx : sorted_keys ks -> nsorted (PLeaf id c ks vs nx)
| ns_branch id c ks cs :
    sorted_keys ks -> (forall ch, In ch cs -> nsorted ch) -> nsorted (PBranch id c ks cs).

Definition nth_obj (l : list obj) (i : nat) : obj := nth i l dummy_obj.

(* ------------------------------------------------------------------ *)
(* insert *)
Inductive p_out : Type :=
| PUpdated (t : ptree)
| PNoSplit (t : ptree)
| PSplit (t : ptree) (sep : obj) (r : ptree).

Definition abs_out (n : cnode) (io : ins_out) : p_out :=
  match io with
  | IOUpdated => PUpdated (abs n)
  | IONoSplit => PNoSplit (abs n)
  | IOSplit nn sk => PSplit (abs n) sk (abs nn)
  end.

(* node_insert_leaf *)
Definition p_ins_leaf (al : N) (rc : rcmap) (id : N) (cap : nat) (ks vs : list obj) (nx : N)
           (k v : obj) : p_out * rcmap * N :=
  let pos := lb ks (kz k) in
  if bfound ks (kz k) then
    (PUpdated (PLeaf id cap ks (set_nth pos v vs) nx), decref (incref rc v) (nth_obj vs pos), al)
  else if Nat.leb cap (length ks) then
    let K := insert_at pos k ks in
    let V := insert_at pos v vs in
    let mid := cap / 2 in
    let sep := nth_obj K mid in
    (PSplit (PLeaf id cap (firstn mid K) (firstn mid V) al) sep
            (PLeaf al cap (skipn mid K) (skipn mid V) nx),
     incref (incref (incref rc k) v) sep, N.succ al)
  else
    (PNoSplit (PLeaf id cap (insert_at pos k ks) (insert_at pos v vs) nx),
     incref (incref rc k) v, al).

(* node_insert_branch *)
Definition p_ins_branch (al : N) (id : N) (cap : nat) (ks : list obj) (cs : list ptree)
           (key : obj) (right : ptree) : p_out * N :=
  let pos := lb ks (kz key) in
  if Nat.leb cap (length ks) then
    let K := insert_at pos key ks in
    let C := insert_at (S pos) right cs in
    let mid := cap / 2 in
    (PSplit (PBranch id cap (firstn mid K) (firstn (S mid) C)) (nth_obj K mid)
            (PBranch al cap (skipn (S mid) K) (skipn (S mid) C)),
     N.succ al)
  else
    (PNoSplit (PBranch id cap (insert_at pos key ks) (insert_at (S pos) right cs)), al).

(* tree_insert_recursive *)
Fixpoint p_ins (fuel : nat) (al : N) (rc : rcmap) (t : ptree) (k v : obj)
  : option (p_out * rcmap * N) :=
  match fuel with
  | O => None
  | S f =>
      match t with
      | PLeaf id cap ks vs nx => Some (p_ins_leaf al rc id cap ks vs nx k v)
      | PBranch id cap ks cs =>
          let pos := child_index ks (kz k) in
          match nth_error cs pos with
          | None => None
          | Some c =>
              match p_ins f al rc c k v with
              | None => None
              | Some (o, rc', al') =>
                  match o with
                  | PUpdated c' => Some (PUpdated (PBranch id cap ks (set_nth pos c' cs)), rc', al')
                  | PNoSplit c' => Some (PNoSplit (PBranch id cap ks (set_nth pos c' cs)), rc', al')
                  | PSplit c' sk r =>
                      let '(o2, al2) := p_ins_branch al' id cap ks (set_nth pos c' cs) sk r in
                      Some (o2, rc', al2)
                  end
              end
          end
      end
  end.

(* tree_insert: new root, flag "a new key was added" *)
Definition p_tree_insert (fuel : nat) (al : N) (rc : rcmap) (tcap : nat) (t : ptree) (k v : obj)
  : option (ptree * bool * rcmap * N) :=
  match p_ins fuel al rc t k v with
  | None => None
  | Some (PUpdated t', rc', al') => Some (t', false, rc', al')
  | Some (PNoSplit t', rc', al') => Some (t', true, rc', al')
  | Some (PSplit t' sk r, rc', al') =>
      Some (PBranch al' tcap [sk] [t'; r], true, rc', N.succ al')
  end.

(* ------------------------------------------------------------------ *)
(* delete: node_delete on the leaf tree_find_leaf reaches *)
Definition p_del_leaf (rc : rcmap) (id : N) (cap : nat) (ks vs : list obj) (nx : N) (z : Z)
  : ptree * rcmap * bool :=
  let pos := lb ks z in
  if bfound ks z then
    (PLeaf id cap (remove_at pos ks) (remove_at pos vs) nx,
     decref (decref rc (nth_obj ks pos)) (nth_obj vs pos), true)
  else (PLeaf id cap ks vs nx, rc, false).

Fixpoint p_del (fuel : nat) (rc : rcmap) (t : ptree) (z : Z) : option (ptree * rcmap * bool) :=
  match fuel with
  | O => None
  | S f =>
      match t with
      | PLeaf id cap ks vs nx => Some (p_del_leaf rc id cap ks vs nx z)
      | PBranch id cap ks cs =>
          let pos := child_index ks z in
          match nth_error cs pos with
          | None => None
          | Some c =>
              match p_del f rc c z with
              | None => None
              | Some (c', rc', b) => Some (PBranch id cap ks (set_nth pos c' cs), rc', b)
              end
          end
      end
  end.

(* get *)
Fixpoint p_get (fuel : nat) (t : ptree) (z : Z) : option (option obj) :=
  match fuel with
  | O => None
  | S f =>
      match t with
      | PLeaf _ _ ks vs _ =>
          Some (if bfound ks z then Some (nth_obj vs (lb ks z)) else None)
      | PBranch _ _ ks cs =>
          match nth_error cs (child_index ks z) with
          | None => None
          | Some c => p_get f c z
          end
      end
  end.

(* ------------------------------------------------------------------ *)
(* pointers held outside the tree *)
Fixpoint p_find (fuel : nat) (t : ptree) (id : N) : option ptree :=
  if N.eqb (pid t) id then Some t else
  match fuel with
  | O => None
  | S f =>
      match t with
      | PLeaf _ _ _ _ _ => None
      | PBranch _ _ _ cs =>
          (fix go (l : list ptree) : option ptree :=
             match l with
             | [] => None
             | c :: l' => match p_find f c id with Some x => Some x | None => go l' end
             end) cs
      end
  end.

Fixpoint p_first_leaf (fuel : nat) (t : ptree) : option N :=
  match fuel with
  | O => None
  | S f =>
      match t with
      | PLeaf id _ _ _ _ => Some id
      | PBranch _ _ _ cs => match cs with c :: _ => p_first_leaf f c | [] => None end
      end
  end.

Definition pnext (t : ptree) : N :=
  match t with PLeaf _ _ _ _ nx => nx | PBranch _ _ _ _ => 0%N end.
Definition pvals (t : ptree) : list obj :=
  match t with PLeaf _ _ _ vs _ => vs | PBranch _ _ _ _ => [] end.

(* number of nodes *)
Fixpoint node_count (t : ptree) : nat :=
  match t with
  | PLeaf _ _ _ _ _ => 1
  | PBranch _ _ _ cs => S (list_sum (map node_count cs))
  end.

(* object ids held in live slots (keys of every node, values of the leaves) *)
Fixpoint prefs (t : ptree) : list N :=
  match t with
  | PLeaf _ _ ks vs _ => map kid ks ++ map kid vs
  | PBranch _ _ ks cs => map kid ks ++ flat_map prefs cs
  end.
