(* Node-memory accounting for the C extension model (property C13).

   C/Node.v + C/Tree.v model the slot ARRAYS of the nodes and the reference counts of the
   key/value objects; the lifetime of the BPlusNode blocks themselves (node_create ->
   cache_aligned_alloc, node_destroy -> cache_aligned_free) is made explicit here:

     node_ids n        the addresses ([nid]) of all nodes of the tree below n, parent first
                       (the blocks node_create handed out and that are still part of the tree);
     node_destroy_g    node_destroy of C/Node.v with one more ghost component: the list of
                       addresses passed to cache_aligned_free, in the order of the calls.  It is
                       the same recursion, line by line (same fuel, same loops, same error
                       sites); [node_destroy_g_conservative] (C/NodeMemProofs.v) shows that
                       forgetting the ghost list gives back exactly C/Node.v's node_destroy;
     tree_dealloc_g    BPlusTree_dealloc = tp_clear (node_gc_clear) followed by node_destroy_g
                       on the cleared tree, the free log starting empty.

   Children are contained in their parent's slot in this model, so "the block of node x is
   not touched after cache_aligned_free(x)" is stated through the ORDER of the free log: a
   node is read only by the node_destroy call whose last action is to free it, and every
   node of its subtree is freed before it ([subnode], theorem free_children_first).

   Temporary arrays of the two split paths: C/Node.v has them as local lists (tk0/tv0/tc0,
   checked accesses, sites 7 and 8) that simply go out of scope; the model has no notion of
   PyMem_Malloc / PyMem_Free events, so nothing is stated about them here (the implementation
   side counts them: harness/c/c_harness.py, oracle "node-memory").

   Definitions only. *)
From Coq Require Import List Arith ZArith NArith Lia Bool.
From BPT Require Import Common.Base Rust.Tree C.Node C.Tree C.Run C.Abs.
Import ListNotations.
Set Implicit Arguments.

(* ------------------------------------------------------------------ *)
(* the tree of node addresses *)
Inductive idtree : Type := IT (id : N) (cs : list idtree).

Definition it_id (t : idtree) : N := let '(IT i _) := t in i.
Definition it_kids (t : idtree) : list idtree := let '(IT _ c) := t in c.

(* parent first *)
Fixpoint pre (t : idtree) : list N :=
  match t with IT id cs => id :: flat_map pre cs end.
(* children first *)
Fixpoint post (t : idtree) : list N :=
  match t with IT id cs => flat_map post cs ++ [id] end.

(* s is (the address tree of) a node of t *)
Inductive subtree (s : idtree) : idtree -> Prop :=
| st_refl : subtree s s
| st_kid id cs c : In c cs -> subtree s c -> subtree s (IT id cs).

(* the live child slots of a branch: NULL slots are skipped, as [if (child)] does in C *)
Fixpoint skel (n : cnode) : idtree :=
  match n with
  | CNode id ty cap k d _ =>
      match ty with
      | NLeaf => IT id []
      | NBranch =>
          IT id (concat (firstn (S k) (skipn cap
                   (map (fun s => match s with SKid c => [skel c] | _ => [] end) d))))
      end
  end.

Definition kid_skel (s : cslot) : list idtree :=
  match s with SKid c => [skel c] | _ => [] end.

(* (a) the addresses of all nodes of the tree, parent before children, children left to right *)
Definition node_ids (n : cnode) : list N := pre (skel n).

(* the order in which node_destroy frees them: children left to right, then the parent *)
Definition free_order (n : cnode) : list N := post (skel n).

(* m is a node of the tree below n (array level: reached through live child slots) *)
Inductive subnode (m : cnode) : cnode -> Prop :=
| sn_refl : subnode m m
| sn_kid n i c :
    nty n = NBranch -> i <= nk n -> nth_error (data n) (ncap n + i) = Some (SKid c) ->
    subnode m c -> subnode m n.

(* ------------------------------------------------------------------ *)
(* (b) node_destroy with the free log.  State = (reference counts, addresses freed so far). *)
Fixpoint node_destroy_g (fuel : nat) (st : rcmap * list N) (n : cnode) : res (rcmap * list N) :=
  match fuel with
  | O => OutOfFuel
  | S f =>
      do rc1 <- for_up (nk n) 0 (xdecref_at get_key n) (fst st);
      do st2 <-
        match nty n with
        | NLeaf =>
            do rc2 <- for_up (nk n) 0 (xdecref_at get_value n) rc1;
            Ok (rc2, snd st)
        | NBranch =>
            for_up (S (nk n)) 0
              (fun i st =>
                 do c <- get_child n i;
                 match c with
                 | SNull => Ok st
                 | SKid ch => node_destroy_g f st ch
                 | SObj _ => Panic 12
                 end) (rc1, snd st)
        end;
      Ok (fst st2, snd st2 ++ [nid n])          (* cache_aligned_free(node) *)
  end.

(* BPlusTree_dealloc: BPlusTree_clear, then node_destroy(self->root) *)
Definition tree_dealloc_g (t : ctree) (rc : rcmap) : res (rcmap * list N) :=
  do r <- node_gc_clear (fuel_of t) rc (root t);
  node_destroy_g (fuel_of t) (snd r, []) (fst r).

(* forgetting the ghost component *)
Definition res_fst {A B : Type} (r : res (A * B)) : res A :=
  match r with
  | Ok x => Ok (fst x)
  | Panic s => Panic s
  | OutOfFuel => OutOfFuel
  | UB s => UB s
  end.

(* the caller drops its last result, the copy and the tree (C/Run.v's [finish]) with the
   free logs of the two tree objects (each tree object has its own address space in the
   model: [next_id] is per tree) *)
Definition finish_g (s : cstate) : res (rcmap * list N * list N) :=
  let rc := release (st_rc s) (st_held s) in
  do r1 <- (match st_copy s with Some c => tree_dealloc_g c rc | None => Ok (rc, []) end);
  do r2 <- (match st_tree s with Some t => tree_dealloc_g t (fst r1) | None => Ok (fst r1, []) end);
  Ok (fst r2, snd r1, snd r2).

(* ------------------------------------------------------------------ *)
(* (d) allocation side: every address 1 .. next_id-1 handed out by node_create is the
   address of exactly one node of the tree (nodes are never freed before the tree dies) *)
Definition ids_exact (t : ctree) : Prop :=
  length (node_ids (root t)) = N.to_nat (next_id t) - 1.

(* boolean helpers for the examples *)
Fixpoint nodupb (l : list N) : bool :=
  match l with
  | [] => true
  | x :: l' => negb (existsb (N.eqb x) l') && nodupb l'
  end.
