(* Facts about [ord] + [cshape] (the analogues of Rust/TreeFactsI.v for the C shape
   predicate, which has no occupancy bounds), node counts, and the counting function. *)
From Coq Require Import List Arith ZArith NArith Lia Bool Permutation.
From BPT Require Import Common.Base Common.AMap Rust.Tree Rust.Readers Rust.InvDefs Rust.Lib
  Rust.TreeFactsI Rust.InsertLocal C.Node C.Tree C.Abs C.PInv.
Import ListNotations.
Set Implicit Arguments.

Lemma cshape_leaf_inv : forall c h id nc ks vs nx, cshape c h (PLeaf id nc ks vs nx) ->
  h = 0 /\ nc = c /\ length vs = length ks /\ length ks <= c.
Proof. intros. inversion H; subst. auto. Qed.

Lemma cshape_branch_inv : forall c h id nc ks cs, cshape c h (PBranch id nc ks cs) ->
  exists h', h = S h' /\ nc = c /\ length cs = S (length ks) /\ length ks <= c /\
    (forall ch, In ch cs -> cshape c h' ch).
Proof. intros. inversion H; subst. eexists; repeat split; eauto. Qed.

Lemma ord_nsorted : forall lo hi (t : ptree), ord lo hi t -> nsorted t.
Proof.
  induction 1 as [lo hi id c ks vs nx Hs F | lo hi id c ks cs Hs F Hc IH].
  - constructor; auto.
  - constructor; auto. intros ch Hin. apply In_nth_error in Hin. destruct Hin as (i & Hi). eauto.
Qed.

Lemma ord_contents_bounds_c : forall lo hi (t : ptree), ord lo hi t ->
  forall c h, cshape c h t ->
  Forall (fun e => in_bounds lo hi (fst e)) (contents t).
Proof.
  induction 1 as [lo hi id c ks vs nx Hs F | lo hi id c ks cs Hs F Hc IH]; intros c0 h Sh.
  - cbn [contents]. apply Forall_forall. intros [k v] Hin. apply in_combine_l in Hin.
    rewrite Forall_forall in F. cbn. auto.
  - destruct (cshape_branch_inv Sh) as (h' & -> & -> & Lc & Lk & Hsh).
    cbn [contents]. apply Forall_forall. intros e Hin.
    apply in_flat_map in Hin. destruct Hin as (ch & Hch & He).
    pose proof Hch as Hch'. apply In_nth_error in Hch'. destruct Hch' as (i & Hi).
    assert (Hle : i <= length ks).
    { assert (i < length cs) by (apply nth_error_Some; congruence). lia. }
    pose proof (IH i ch Hi _ _ (Hsh ch Hch)) as B.
    rewrite Forall_forall in B. specialize (B e He).
    destruct (@child_bounds_within ks lo hi i F Hle).
    eapply in_bounds_widen; eauto.
Qed.

Lemma contents_sorted_c : forall c h lo hi (t : ptree),
  ord lo hi t -> cshape c h t -> m_sorted (contents t).
Proof.
  intros c h lo hi t O. revert c h.
  induction O as [lo hi id c ks vs nx Hs F | lo hi id c ks cs Hs F Hc IH]; intros c0 h Sh.
  - destruct (cshape_leaf_inv Sh) as (_ & _ & Lv & _).
    unfold m_sorted. cbn [contents]. rewrite map_fst_combine; auto.
  - destruct (cshape_branch_inv Sh) as (h' & -> & -> & Lc & Lk & Hsh).
    unfold m_sorted, sorted_keys. cbn [contents].
    rewrite flat_map_concat_map. rewrite !concat_map. rewrite !map_map.
    apply sorted_z_concat.
    + intros l Hl. apply in_map_iff in Hl. destruct Hl as (ch & <- & Hch).
      pose proof Hch as Hch'. apply In_nth_error in Hch'. destruct Hch' as (i & Hi).
      exact (IH i ch Hi _ _ (Hsh ch Hch)).
    + intros i j li lj Hij Hi Hj a b Ha Hb.
      rewrite nth_error_map in Hi, Hj.
      destruct (nth_error cs i) as [ci|] eqn:Eci; [|discriminate].
      destruct (nth_error cs j) as [cj|] eqn:Ecj; [|discriminate].
      cbn in Hi, Hj. inversion Hi; inversion Hj; subst li lj. clear Hi Hj.
      apply in_map_iff in Ha. destruct Ha as (ka & <- & Ha).
      apply in_map_iff in Ha. destruct Ha as (ea & <- & Ha).
      apply in_map_iff in Hb. destruct Hb as (kb & <- & Hb).
      apply in_map_iff in Hb. destruct Hb as (eb & <- & Hb).
      assert (Hjl : j < length cs) by (apply nth_error_Some; congruence).
      pose proof (ord_contents_bounds_c (Hc i ci Eci) (Hsh ci (nth_error_In _ _ Eci))) as Bi.
      pose proof (ord_contents_bounds_c (Hc j cj Ecj) (Hsh cj (nth_error_In _ _ Ecj))) as Bj.
      rewrite Forall_forall in Bi, Bj. specialize (Bi ea Ha). specialize (Bj eb Hb).
      destruct Bi as [_ Bi]. destruct Bj as [Bj _].
      unfold child_bounds in Bi, Bj. cbn [fst snd] in Bi, Bj.
      destruct (Nat.eqb_spec i (length ks)); [lia|].
      destruct (Nat.eqb_spec j 0); [lia|].
      destruct (nth_error ks i) as [ki|] eqn:Eki; [|apply nth_error_None in Eki; lia].
      destruct (nth_error ks (j - 1)) as [kj|] eqn:Ekj; [|apply nth_error_None in Ekj; lia].
      cbn in Bi, Bj.
      assert (kz ki <= kz kj)%Z by (apply (@sorted_keys_nth_le ks i (j - 1) ki kj); auto; lia).
      lia.
Qed.

(* entries left of the child chosen by [child_index] are smaller than z, entries right of
   it are greater *)
Lemma branch_contents_split_c : forall lo hi id c ks (cs : list ptree) cc h z,
  ord lo hi (PBranch id c ks cs) -> cshape cc h (PBranch id c ks cs) ->
  (forall e, In e (flat_map (@contents key) (firstn (child_index ks z) cs)) -> (kz (fst e) < z)%Z) /\
  (forall e, In e (flat_map (@contents key) (skipn (S (child_index ks z)) cs)) -> (z < kz (fst e))%Z).
Proof.
  intros lo hi id c ks cs cc h z O Sh.
  destruct (ord_branch_inv O) as (Hs & F & Hc).
  destruct (cshape_branch_inv Sh) as (h' & -> & -> & Lc & _ & Hsh).
  pose proof (child_index_le_length ks z) as Hci.
  set (ci := child_index ks z) in *.
  split; intros e He; apply in_flat_map in He; destruct He as (ch & Hch & He);
    apply In_nth_error in Hch; destruct Hch as (j & Hj).
  - assert (j < ci).
    { destruct (Nat.lt_ge_cases j ci); auto. rewrite nth_error_firstn_ge in Hj by auto. discriminate. }
    rewrite nth_error_firstn_lt in Hj by auto.
    pose proof (ord_contents_bounds_c (Hc j ch Hj) (Hsh ch (nth_error_In _ _ Hj))) as B.
    rewrite Forall_forall in B. destruct (B e He) as [_ B2].
    unfold child_bounds in B2. cbn [snd] in B2.
    destruct (Nat.eqb_spec j (length ks)); [lia|].
    destruct (nth_error ks j) as [kj|] eqn:Ek; [|apply nth_error_None in Ek; lia].
    cbn in B2. assert (kz kj <= z)%Z; [|lia].
    apply (@child_index_firstn_le ks z kj Hs). apply nth_error_In with j.
    rewrite nth_error_firstn_lt; auto.
  - rewrite nth_error_skipn_add in Hj.
    assert (S ci + j < length cs) by (apply nth_error_Some; congruence).
    pose proof (ord_contents_bounds_c (Hc _ ch Hj) (Hsh ch (nth_error_In _ _ Hj))) as B.
    rewrite Forall_forall in B. destruct (B e He) as [B1 _].
    unfold child_bounds in B1. cbn [fst] in B1.
    destruct (Nat.eqb_spec (S ci + j) 0); [lia|].
    replace (S ci + j - 1) with (ci + j) in B1 by lia.
    destruct (nth_error ks (ci + j)) as [kj|] eqn:Ek; [|apply nth_error_None in Ek; lia].
    cbn in B1. assert (z < kz kj)%Z; [|lia].
    apply (@child_index_skipn_gt ks z kj Hs). apply nth_error_In with j.
    rewrite nth_error_skipn_add; auto.
Qed.

(* ------------------------------------------------------------------ *)
(* heights and node counts *)
Lemma cshape_height_lt_count : forall c h (t : ptree), cshape c h t -> h < node_count t.
Proof.
  induction 1 as [id ks vs nx | h id ks cs L1 L2 Hc IH]; cbn [node_count]; [lia|].
  destruct cs as [|c0 cs]; [cbn in L1; lia|].
  cbn [map list_sum fold_right]. assert (h < node_count c0) by (apply IH; left; auto). lia.
Qed.

Lemma node_count_all_ids : forall (t : ptree), node_count t = length (all_ids t).
Proof.
  fix IH 1. intros [id c ks vs nx | id c ks cs]; cbn [node_count all_ids length]; [reflexivity|].
  f_equal. induction cs as [|c0 cs IHcs]; [reflexivity|].
  cbn [map flat_map]. rewrite app_length, <- IH, <- IHcs. reflexivity.
Qed.

(* ------------------------------------------------------------------ *)
(* counting *)
Lemma cnt_app : forall l1 l2 o, cnt (l1 ++ l2) o = (cnt l1 o + cnt l2 o)%Z.
Proof. intros. unfold cnt. rewrite count_occ_app. lia. Qed.

Lemma cnt_cons : forall a l o, cnt (a :: l) o = ((if N.eqb o a then 1 else 0) + cnt l o)%Z.
Proof.
  intros. unfold cnt. cbn [count_occ]. destruct (N.eq_dec a o) as [->|ne].
  - rewrite N.eqb_refl. lia.
  - destruct (N.eqb_spec o a); [congruence|lia].
Qed.

Lemma cnt_nil : forall o, cnt [] o = 0%Z.
Proof. reflexivity. Qed.

Lemma cnt_perm : forall l1 l2 o, Permutation l1 l2 -> cnt l1 o = cnt l2 o.
Proof.
  intros l1 l2 o P. unfold cnt. f_equal. revert o.
  apply (Permutation_count_occ N.eq_dec). exact P.
Qed.

Lemma cnt_nonneg : forall l o, (0 <= cnt l o)%Z.
Proof. intros. unfold cnt. lia. Qed.

Lemma nrange_nil : forall al, nrange al al = [].
Proof. intros. unfold nrange. rewrite N.sub_diag. reflexivity. Qed.

Lemma nrange_one : forall al, nrange al (N.succ al) = [al].
Proof.
  intros. unfold nrange. replace (N.to_nat (N.succ al - al)) with 1 by lia. cbn. f_equal. lia.
Qed.

Lemma seq_add : forall n m, seq m n = map (Nat.add m) (seq 0 n).
Proof.
  intros n m. induction m as [|m IH].
  - cbn. symmetry. apply map_id.
  - rewrite <- seq_shift, IH, map_map. reflexivity.
Qed.

Lemma nrange_app : forall a b c, (a <= b)%N -> (b <= c)%N -> nrange a c = nrange a b ++ nrange b c.
Proof.
  intros a b c H1 H2. unfold nrange.
  replace (N.to_nat (c - a)) with (N.to_nat (b - a) + N.to_nat (c - b)) by lia.
  rewrite seq_app, map_app. f_equal. cbn [Nat.add].
  rewrite (seq_add (N.to_nat (c - b)) (N.to_nat (b - a))), map_map.
  apply map_ext. intros i. lia.
Qed.

Lemma in_nrange : forall a b x, In x (nrange a b) <-> (a <= x < b)%N.
Proof.
  intros a b x. unfold nrange. rewrite in_map_iff. split.
  - intros (i & <- & Hi). apply in_seq in Hi. lia.
  - intros H. exists (N.to_nat (x - a)). split; [lia|]. apply in_seq. lia.
Qed.

Lemma nodup_nrange : forall a b, NoDup (nrange a b).
Proof.
  intros. unfold nrange. apply FinFun.Injective_map_NoDup; [|apply seq_NoDup].
  intros i j H. lia.
Qed.
