(* Array-level model of the node layer of the CPython extension
   (/repo/python/bplustree_c_src/bplustree.h, node_ops.c, node_insert_branch of tree_ops.c).

   A node owns ONE array of slots, exactly as in C:
     leaf   : data[0..cap) keys, data[cap..2cap)   values       (length 2*cap)
     branch : data[0..cap) keys, data[cap..2cap+1) child nodes  (length 2*cap+1)
   A slot is NULL, a PyObject* (an [obj]) or a BPlusNode* (the child node itself: children
   are contained in their parent, the only pointer kept as an address is [next]).
   EVERY node_get_x/node_set_x goes through the checked [arr_get]/[arr_set], which answer
   [UB site] (= out-of-bounds access at accessor [site]) when the index is outside the
   array; dereferencing a NULL / wrongly typed slot answers [Panic site].  The temporary
   arrays of the two split paths are modelled the same way.

   Reference counts: a ghost map [rcmap] object id -> number of references taken and not
   yet given back by the extension, updated at exactly the Py_INCREF / Py_DECREF /
   Py_XDECREF / Py_CLEAR sites of the C files.

   Definitions only (the model must keep running when a proof breaks). *)
From BPT Require Import Common.Base.
Set Implicit Arguments.

(* Python objects: [kz] is the position in the total order (what fast_compare_lt/eq can
   see), [kid] the object identity (what the reference count is attached to). *)
Notation obj := key (only parsing).

Inductive ntype := NLeaf | NBranch.

Inductive slot (A : Type) : Type :=
| SNull
| SObj (o : obj)
| SKid (c : A).
Arguments SNull {A}.
Arguments SObj {A} o.
Arguments SKid {A} c.

(* [nid] is the address of the node (allocation serial number, 0 = NULL); [next] is the
   address of the next leaf. *)
Inductive cnode : Type :=
  CNode (nid : N) (nty : ntype) (ncap nk : nat) (data : list (slot cnode)) (next : N).

Notation cslot := (slot cnode).

Definition nid (n : cnode) : N := let '(CNode i _ _ _ _ _) := n in i.
Definition nty (n : cnode) : ntype := let '(CNode _ t _ _ _ _) := n in t.
Definition ncap (n : cnode) : nat := let '(CNode _ _ c _ _ _) := n in c.
Definition nk (n : cnode) : nat := let '(CNode _ _ _ k _ _) := n in k.
Definition data (n : cnode) : list cslot := let '(CNode _ _ _ _ d _) := n in d.
Definition next (n : cnode) : N := let '(CNode _ _ _ _ _ x) := n in x.

Definition with_data (n : cnode) (d : list cslot) : cnode :=
  CNode (nid n) (nty n) (ncap n) (nk n) d (next n).
Definition with_nk (n : cnode) (k : nat) : cnode :=
  CNode (nid n) (nty n) (ncap n) k (data n) (next n).
Definition with_next (n : cnode) (x : N) : cnode :=
  CNode (nid n) (nty n) (ncap n) (nk n) (data n) x.

Definition is_leafb (n : cnode) : bool := match nty n with NLeaf => true | NBranch => false end.

(* ------------------------------------------------------------------ *)
(* checked array access.  Sites:
     1 node_get_key   2 node_get_value   3 node_get_child
     4 node_set_key   5 node_set_value   6 node_set_child
     7 temp_keys      8 temp_values / temp_children *)
Definition arr_get (site : nat) (d : list cslot) (i : nat) : res cslot :=
  match nth_error d i with Some s => Ok s | None => UB site end.

Definition arr_set (site : nat) (d : list cslot) (i : nat) (s : cslot) : res (list cslot) :=
  if Nat.ltb i (length d) then Ok (set_nth i s d) else UB site.

Definition get_key (n : cnode) (i : nat) : res cslot := arr_get 1 (data n) i.
Definition get_value (n : cnode) (i : nat) : res cslot := arr_get 2 (data n) (ncap n + i).
Definition get_child (n : cnode) (i : nat) : res cslot := arr_get 3 (data n) (ncap n + i).
Definition set_key (n : cnode) (i : nat) (s : cslot) : res cnode :=
  do d <- arr_set 4 (data n) i s; Ok (with_data n d).
Definition set_value (n : cnode) (i : nat) (s : cslot) : res cnode :=
  do d <- arr_set 5 (data n) (ncap n + i) s; Ok (with_data n d).
Definition set_child (n : cnode) (i : nat) (s : cslot) : res cnode :=
  do d <- arr_set 6 (data n) (ncap n + i) s; Ok (with_data n d).

(* dereferencing a slot as a PyObject* / BPlusNode*: sites
     10 key compared / INCREF'd / DECREF'd   11 value INCREF'd / DECREF'd
     12 child followed                      13 Py_XDECREF / Py_CLEAR on a node pointer *)
Definition as_obj (site : nat) (s : cslot) : res obj :=
  match s with SObj o => Ok o | _ => Panic site end.
Definition as_kid (site : nat) (s : cslot) : res cnode :=
  match s with SKid c => Ok c | _ => Panic site end.

(* ------------------------------------------------------------------ *)
(* ghost reference counts *)
Definition rcmap := list (N * Z).

Fixpoint rc_get (m : rcmap) (i : N) : Z :=
  match m with
  | [] => 0%Z
  | (j, c) :: m' => if N.eqb i j then c else rc_get m' i
  end.

Fixpoint rc_add (m : rcmap) (i : N) (d : Z) : rcmap :=
  match m with
  | [] => [(i, d)]
  | (j, c) :: m' => if N.eqb i j then (j, (c + d)%Z) :: m' else (j, c) :: rc_add m' i d
  end.

Definition incref (m : rcmap) (o : obj) : rcmap := rc_add m (kid o) 1%Z.
Definition decref (m : rcmap) (o : obj) : rcmap := rc_add m (kid o) (-1)%Z.
(* Py_XDECREF(slot) *)
Definition xdecref (m : rcmap) (s : cslot) : res rcmap :=
  match s with SNull => Ok m | SObj o => Ok (decref m o) | SKid _ => Panic 13 end.

(* ------------------------------------------------------------------ *)
(* counted loops:  for (i = a; i < a + cnt; i++)   and   for (i = a; cnt times; i--) *)
Fixpoint for_up {St : Type} (cnt i : nat) (body : nat -> St -> res St) (s : St) : res St :=
  match cnt with
  | O => Ok s
  | S c => do s' <- body i s; for_up c (S i) body s'
  end.

Fixpoint for_down {St : Type} (cnt i : nat) (body : nat -> St -> res St) (s : St) : res St :=
  match cnt with
  | O => Ok s
  | S c => do s' <- body i s; for_down c (pred i) body s'
  end.

(* ------------------------------------------------------------------ *)
(* node_create: zero-filled array, num_keys 0, next NULL *)
Definition data_len (ty : ntype) (cap : nat) : nat :=
  match ty with NLeaf => 2 * cap | NBranch => 2 * cap + 1 end.

Definition node_create (id : N) (ty : ntype) (cap : nat) : cnode :=
  CNode id ty cap 0 (repeat SNull (data_len ty cap)) 0%N.

(* node_find_position: binary search for the lower bound with fast_compare_lt *)
Fixpoint fp_loop (fuel : nat) (n : cnode) (z : Z) (left right : nat) : res nat :=
  if Nat.ltb left right then
    match fuel with
    | O => OutOfFuel
    | S f =>
        let mid := (left + right) / 2 in
        do s <- get_key n mid;
        do o <- as_obj 10 s;
        if Z.ltb (kz o) z then fp_loop f n z (mid + 1) right else fp_loop f n z left mid
    end
  else Ok left.

Definition node_find_position (n : cnode) (z : Z) : res nat :=
  fp_loop (S (nk n)) n z 0 (nk n).

(* ------------------------------------------------------------------ *)
(* node_insert_leaf *)
Inductive ins_out : Type :=
| IOUpdated                                   (* -2: value replaced *)
| IONoSplit                                   (*  0 *)
| IOSplit (new_node : cnode) (split_key : obj). (*  1: new right sibling, OWNED reference to the separator *)

(* temp_keys[i+off] = key(i); temp_values[i+off] = value(i) *)
Definition leaf_to_temp (n : cnode) (off : nat) (i : nat) (st : list cslot * list cslot)
  : res (list cslot * list cslot) :=
  do k <- get_key n i;
  do v <- get_value n i;
  do tk <- arr_set 7 (fst st) (i + off) k;
  do tv <- arr_set 8 (snd st) (i + off) v;
  Ok (tk, tv).

(* node_set_key(n, i, temp_keys[off+i]); node_set_value(n, i, temp_values[off+i]) *)
Definition leaf_from_temp (tk tv : list cslot) (off : nat) (i : nat) (n : cnode) : res cnode :=
  do k <- arr_get 7 tk (off + i);
  do v <- arr_get 8 tv (off + i);
  do n1 <- set_key n i k;
  set_value n1 i v.

Definition leaf_null (i : nat) (n : cnode) : res cnode :=
  do n1 <- set_key n i SNull; set_value n1 i SNull.

(* node_set_key(n, i, node_get_key(n, i-1)); node_set_value(n, i, node_get_value(n, i-1)) *)
Definition leaf_shift_right (i : nat) (n : cnode) : res cnode :=
  do k <- get_key n (i - 1);
  do n1 <- set_key n i k;
  do v <- get_value n1 (i - 1);
  set_value n1 i v.

Definition leaf_shift_left (i : nat) (n : cnode) : res cnode :=
  do k <- get_key n (i + 1);
  do n1 <- set_key n i k;
  do v <- get_value n1 (i + 1);
  set_value n1 i v.

(* [al] is the next free node address *)
Definition node_insert_leaf (al : N) (rc : rcmap) (n : cnode) (k v : obj)
  : res (cnode * rcmap * N * ins_out) :=
  do pos <- node_find_position n (kz k);
  do upd <-
    (if Nat.ltb pos (nk n) then
       do s <- get_key n pos;
       do ek <- as_obj 10 s;
       Ok (Z.eqb (kz ek) (kz k))
     else Ok false);
  if (upd : bool) then
    (* update existing value: INCREF new, store, DECREF old *)
    do s <- get_value n pos;
    let rc1 := incref rc v in
    do n1 <- set_value n pos (SObj v);
    do old <- as_obj 11 s;
    Ok (n1, decref rc1 old, al, IOUpdated)
  else if Nat.leb (ncap n) (nk n) then
    (* split *)
    let cap := ncap n in
    let new0 := node_create al NLeaf cap in
    let tk0 := repeat (@SNull cnode) (cap + 1) in
    let tv0 := repeat (@SNull cnode) (cap + 1) in
    do t1 <- for_up pos 0 (leaf_to_temp n 0) (tk0, tv0);
    do tk2 <- arr_set 7 (fst t1) pos (SObj k);
    do tv2 <- arr_set 8 (snd t1) pos (SObj v);
    do t3 <- for_up (nk n - pos) pos (leaf_to_temp n 1) (tk2, tv2);
    let '(tk, tv) := t3 in
    let mid := cap / 2 in
    let rc1 := incref (incref rc k) v in
    let n1 := with_nk n mid in
    do n2 <- for_up mid 0 (leaf_from_temp tk tv 0) n1;
    do n3 <- for_up (cap - mid) mid leaf_null n2;
    let total := cap + 1 in
    let new1 := with_nk new0 (total - mid) in
    do new2 <- for_up (nk new1) 0 (leaf_from_temp tk tv mid) new1;
    let new3 := with_next new2 (next n3) in
    let n4 := with_next n3 (nid new3) in
    do sk <- get_key new3 0;
    do sko <- as_obj 10 sk;
    Ok (n4, incref rc1 sko, N.succ al, IOSplit new3 sko)
  else
    do n1 <- for_down (nk n - pos) (nk n) leaf_shift_right n;
    let rc1 := incref (incref rc k) v in
    do n2 <- set_key n1 pos (SObj k);
    do n3 <- set_value n2 pos (SObj v);
    Ok (with_nk n3 (S (nk n3)), rc1, al, IONoSplit).

(* ------------------------------------------------------------------ *)
(* node_clear_slot, leaf case (the branch case is unreachable: its only caller,
   node_delete, returns early for branch nodes) *)
Definition node_clear_slot (rc : rcmap) (n : cnode) (i : nat) : res (cnode * rcmap) :=
  if Nat.leb (ncap n) i then Ok (n, rc)
  else
    do k <- get_key n i;
    do rc1 <- xdecref rc k;
    do v <- get_value n i;
    do rc2 <- xdecref rc1 v;
    do n1 <- set_key n i SNull;
    do n2 <- set_value n1 i SNull;
    Ok (n2, rc2).

(* node_delete: 0 = not found, 1 = deleted *)
Definition node_delete (rc : rcmap) (n : cnode) (z : Z) : res (cnode * rcmap * bool) :=
  match nty n with
  | NBranch => Ok (n, rc, false)
  | NLeaf =>
      do pos <- node_find_position n z;
      if Nat.leb (nk n) pos then Ok (n, rc, false)
      else
        do s <- get_key n pos;
        do fk <- as_obj 10 s;
        if negb (Z.eqb (kz fk) z) then Ok (n, rc, false)
        else
          do r <- node_clear_slot rc n pos;
          let '(n1, rc1) := r in
          do n2 <- for_up (nk n1 - 1 - pos) pos leaf_shift_left n1;
          let n3 := with_nk n2 (nk n2 - 1) in
          do n4 <- set_key n3 (nk n3) SNull;
          do n5 <- set_value n4 (nk n4) SNull;
          Ok (n5, rc1, true)
  end.

(* node_get: None = KeyError; the value comes back with a NEW reference *)
Definition node_get (rc : rcmap) (n : cnode) (z : Z) : res (rcmap * option obj) :=
  do pos <- node_find_position n z;
  if Nat.ltb pos (nk n) then
    do s <- get_key n pos;
    do fk <- as_obj 10 s;
    if Z.eqb (kz fk) z then
      do vs <- get_value n pos;
      do v <- as_obj 11 vs;
      Ok (incref rc v, Some v)
    else Ok (rc, None)
  else Ok (rc, None).

(* ------------------------------------------------------------------ *)
(* node_insert_branch (tree_ops.c).  [key] is the OWNED reference handed up by the child
   split; it is stored (or passed on as the promoted key) without any refcount change. *)

(* temp_keys[i+off] = key(i); temp_children[i+off+1] = child(i+1) *)
Definition branch_to_temp (n : cnode) (off : nat) (i : nat) (st : list cslot * list cslot)
  : res (list cslot * list cslot) :=
  do k <- get_key n i;
  do c <- get_child n (i + 1);
  do tk <- arr_set 7 (fst st) (i + off) k;
  do tc <- arr_set 8 (snd st) (i + off + 1) c;
  Ok (tk, tc).

Definition key_from_temp (tk : list cslot) (off : nat) (i : nat) (n : cnode) : res cnode :=
  do k <- arr_get 7 tk (off + i); set_key n i k.
Definition child_from_temp (tc : list cslot) (off : nat) (i : nat) (n : cnode) : res cnode :=
  do c <- arr_get 8 tc (off + i); set_child n i c.

(* node_set_key(n, i, key(i-1)); node_set_child(n, i+1, child(i)) *)
Definition branch_shift_right (i : nat) (n : cnode) : res cnode :=
  do k <- get_key n (i - 1);
  do n1 <- set_key n i k;
  do c <- get_child n1 i;
  set_child n1 (i + 1) c.

Definition node_insert_branch (al : N) (n : cnode) (key : obj) (right : cnode)
  : res (cnode * N * ins_out) :=
  do pos <- node_find_position n (kz key);
  if Nat.leb (ncap n) (nk n) then
    let cap := ncap n in
    let new0 := node_create al NBranch cap in
    let tk0 := repeat (@SNull cnode) (cap + 1) in
    let tc0 := repeat (@SNull cnode) (cap + 2) in
    do c0 <- get_child n 0;
    do tc1 <- arr_set 8 tc0 0 c0;
    do t1 <- for_up pos 0 (branch_to_temp n 0) (tk0, tc1);
    do tk2 <- arr_set 7 (fst t1) pos (SObj key);
    do tc2 <- arr_set 8 (snd t1) (pos + 1) (SKid right);
    do t3 <- for_up (nk n - pos) pos (branch_to_temp n 1) (tk2, tc2);
    let '(tk, tc) := t3 in
    let mid := cap / 2 in
    do sk <- arr_get 7 tk mid;
    do sko <- as_obj 10 sk;
    let n1 := with_nk n mid in
    do n2 <- for_up mid 0 (key_from_temp tk 0) n1;
    do n3 <- for_up (S mid) 0 (child_from_temp tc 0) n2;
    let new1 := with_nk new0 (cap - mid) in
    do new2 <- for_up (nk new1) 0 (key_from_temp tk (mid + 1)) new1;
    do new3 <- for_up (S (nk new2)) 0 (child_from_temp tc (mid + 1)) new2;
    Ok (n3, N.succ al, IOSplit new3 sko)
  else
    do n1 <- for_down (nk n - pos) (nk n) branch_shift_right n;
    do n2 <- set_key n1 pos (SObj key);
    do n3 <- set_child n2 (pos + 1) (SKid right);
    Ok (with_nk n3 (S (nk n3)), al, IONoSplit).

(* ------------------------------------------------------------------ *)
(* node_destroy: Py_XDECREF of the live keys (and values), recursion into the live
   children, free.  Fuel = height + 1. *)
Definition xdecref_at (get : cnode -> nat -> res cslot) (n : cnode) (i : nat) (rc : rcmap)
  : res rcmap :=
  do s <- get n i; xdecref rc s.

Fixpoint node_destroy (fuel : nat) (rc : rcmap) (n : cnode) : res rcmap :=
  match fuel with
  | O => OutOfFuel
  | S f =>
      do rc1 <- for_up (nk n) 0 (xdecref_at get_key n) rc;
      match nty n with
      | NLeaf => for_up (nk n) 0 (xdecref_at get_value n) rc1
      | NBranch =>
          for_up (S (nk n)) 0
            (fun i rc =>
               do c <- get_child n i;
               match c with
               | SNull => Ok rc
               | SKid ch => node_destroy f rc ch
               | SObj _ => Panic 12
               end) rc1
      end
  end.

(* node_gc_op(node, clear = 1) of bplustree_module.c: Py_CLEAR every live key and value *)
Definition clear_at (off : nat) (i : nat) (st : cnode * rcmap) : res (cnode * rcmap) :=
  let '(n, rc) := st in
  do s <- arr_get 1 (data n) (off + i);
  do rc1 <- xdecref rc s;
  do d <- arr_set 4 (data n) (off + i) SNull;
  Ok (with_data n d, rc1).

Fixpoint node_gc_clear (fuel : nat) (rc : rcmap) (n : cnode) : res (cnode * rcmap) :=
  match fuel with
  | O => OutOfFuel
  | S f =>
      do r1 <- for_up (nk n) 0 (clear_at 0) (n, rc);
      match nty n with
      | NLeaf => for_up (nk n) 0 (clear_at (ncap n)) r1
      | NBranch =>
          for_up (S (nk n)) 0
            (fun i st =>
               let '(n, rc) := st in
               do c <- get_child n i;
               match c with
               | SNull => Ok (n, rc)
               | SKid ch =>
                   do r <- node_gc_clear f rc ch;
                   do n' <- set_child n i (SKid (fst r));     (* write-back (model artefact) *)
                   Ok (n', snd r)
               | SObj _ => Panic 12
               end) r1
      end
  end.
