(* Node-memory accounting for the C extension model: proofs (definitions in C/NodeMem.v).

   For every tree object satisfying the invariant CInv (hence, by C/StepAll.v and
   Extra/CExtra.v, for the tree and the copy of every state reachable in every history):
     - BPlusTree_dealloc passes to cache_aligned_free exactly the addresses of the nodes of
       the tree: no duplicates (no double free), a permutation of [node_ids] (no block
       leaked, nothing foreign freed), every node after all nodes of its subtree (a block is
       not read after it was freed: a node is read only by the node_destroy call that ends
       by freeing it, and by then all its descendants are gone, none before);
     - the instrumentation is conservative: forgetting the free log gives C/Node.v's
       node_destroy / C/Tree.v's tree_dealloc, on every input;
     - allocation side: the node addresses are distinct, non-NULL, below the allocator's next
       address, and in every reachable state they are EXACTLY 1 .. next_id-1 (every block
       node_create handed out is still a node of the tree: nothing is freed, and nothing is
       lost, before the tree dies). *)
From Coq Require Import List Arith ZArith NArith Lia Bool Permutation.
From BPT Require Import Common.Base Common.AMap Rust.Tree Rust.Readers Rust.InvDefs Rust.Lib
  Rust.TreeFactsI C.Node C.Tree C.Run C.Abs C.ArrLib C.AbsFacts C.SimBase C.SimTree C.PInv C.PFacts
  C.PInsert C.PDelete C.TreeProofs C.Dealloc C.IterDefs C.IterProofs C.Spec C.StepDefs C.StepCore
  C.StepWrap C.StepAll C.Examples C.NodeMem.
Import ListNotations.
Set Implicit Arguments.

(* ------------------------------------------------------------------ *)
(* address trees *)
Lemma idtree_ind' : forall (P : idtree -> Prop),
  (forall id cs, Forall P cs -> P (IT id cs)) -> forall t, P t.
Proof.
  intros P H. fix IH 1. intros [id cs]. apply H.
  induction cs as [|c cs IHcs]; constructor; [apply IH|exact IHcs].
Qed.

Lemma post_pre_kids : forall cs,
  Forall (fun t => Permutation (post t) (pre t)) cs ->
  Permutation (flat_map post cs) (flat_map pre cs).
Proof.
  induction 1 as [|c cs Hc _ IH]; cbn [flat_map]; [constructor|].
  apply Permutation_app; assumption.
Qed.

Lemma post_pre_perm : forall t, Permutation (post t) (pre t).
Proof.
  induction t as [id cs IH] using idtree_ind'. cbn [post pre].
  eapply Permutation_trans; [apply Permutation_sym, Permutation_cons_append|].
  constructor. apply post_pre_kids. exact IH.
Qed.

Lemma post_pre_kids_perm : forall cs, Permutation (flat_map post cs) (flat_map pre cs).
Proof.
  intros cs. apply post_pre_kids. apply Forall_forall. intros t _. apply post_pre_perm.
Qed.

Lemma post_subtree_split : forall s t, subtree s t ->
  exists l1 l2, post t = l1 ++ post s ++ l2.
Proof.
  induction 1 as [|id cs c Hin Hs (l1 & l2 & E)].
  - exists [], []. rewrite app_nil_r. reflexivity.
  - destruct (in_split _ _ Hin) as (a & b & ->).
    exists (flat_map post a ++ l1), (l2 ++ flat_map post b ++ [id]).
    cbn [post]. rewrite flat_map_app. cbn [flat_map]. rewrite E.
    rewrite <- !app_assoc. reflexivity.
Qed.

Lemma pre_subtree_incl : forall s t, subtree s t -> incl (pre s) (pre t).
Proof.
  induction 1 as [|id cs c Hin Hs IH]; [apply incl_refl|].
  intros x Hx. cbn [pre]. right. apply in_flat_map. exists c. split; [exact Hin|apply IH; exact Hx].
Qed.

(* in the children-first order, the address of a node comes after the addresses of all
   other nodes of its subtree *)
Lemma post_children_first : forall s t, subtree s t ->
  exists l1 l2, post t = l1 ++ it_id s :: l2 /\
    forall x, In x (pre s) -> x <> it_id s -> In x l1.
Proof.
  intros s t Hs. destruct (post_subtree_split Hs) as (l1 & l2 & E).
  destruct s as [id cs]. cbn [post it_id pre] in *.
  exists (l1 ++ flat_map post cs), l2. split.
  - rewrite E. rewrite <- !app_assoc. reflexivity.
  - intros x [Hx|Hx] Hne; [congruence|]. apply in_app_iff. right.
    apply (Permutation_in _ (Permutation_sym (post_pre_kids_perm cs))). exact Hx.
Qed.

(* ------------------------------------------------------------------ *)
(* skeleton of a node array *)
Lemma skel_id : forall n, it_id (skel n) = nid n.
Proof. intros [id ty cap k d nx]. destruct ty; reflexivity. Qed.

Lemma skel_leaf : forall n, nty n = NLeaf -> skel n = IT (nid n) [].
Proof. intros [id ty cap k d nx] H. cbn [nty] in H. subst ty. reflexivity. Qed.

Lemma skel_branch : forall n, nty n = NBranch ->
  skel n = IT (nid n) (concat (firstn (S (nk n)) (skipn (ncap n) (map kid_skel (data n))))).
Proof. intros [id ty cap k d nx] H. cbn [nty] in H. subst ty. reflexivity. Qed.

Lemma concat_singletons : forall (A B : Type) (f : A -> B) (l : list A),
  concat (map (fun c => [f c]) l) = map f l.
Proof. induction l as [|a l IH]; cbn; [reflexivity|]. f_equal. exact IH. Qed.

Lemma repr_leaf_skel : forall cap n id ks vs nx,
  repr_leaf cap n id ks vs nx -> skel n = IT id [].
Proof.
  intros cap n id ks vs nx R. rewrite skel_leaf by (eapply repr_leaf_nty; eauto).
  destruct R as (-> & _). reflexivity.
Qed.

Lemma repr_branch_skel : forall cap n id ks cs,
  repr_branch cap n id ks cs -> skel n = IT id (map skel cs).
Proof.
  intros cap n id ks cs R. rewrite skel_branch by (eapply repr_branch_nty; eauto).
  destruct R as (H1 & H2 & H3 & H4 & H5 & H6 & H7 & H8 & H9).
  rewrite H1, H3, H4. f_equal.
  rewrite skipn_map, firstn_map.
  pose proof (@holds_firstn_skipn (data n) cap (map SKid cs) H9) as E2. rewrite map_length in E2.
  rewrite <- H6. rewrite E2 by lia. rewrite map_map. cbn [kid_skel].
  apply concat_singletons.
Qed.

Lemma In_firstn_skipn : forall (A : Type) (l : list A) a k i x,
  nth_error l (a + i) = Some x -> i < k -> In x (firstn k (skipn a l)).
Proof.
  intros A l a k i x E Hi. apply nth_error_In with i.
  rewrite nth_error_firstn_lt by exact Hi. rewrite nth_error_skipn_add. exact E.
Qed.

Lemma subnode_subtree : forall m n, subnode m n -> subtree (skel m) (skel n).
Proof.
  induction 1 as [|n i c Ht Hi E Hs IH]; [constructor|].
  rewrite (skel_branch _ Ht). apply st_kid with (skel c); [|exact IH].
  apply in_concat. exists [skel c]. split; [|left; reflexivity].
  apply In_firstn_skipn with i; [|lia].
  rewrite nth_error_map, E. reflexivity.
Qed.

(* under the representation invariant the node addresses are those of the list-level tree *)
Lemma wf_node_ids : forall cap n, wf cap n -> node_ids n = all_ids (abs n).
Proof.
  fix IH 3. intros cap n W. destruct W as [n id ks vs nx R | n id ks cs R Hc].
  - unfold node_ids. rewrite (repr_leaf_skel R), (repr_leaf_abs R). reflexivity.
  - assert (H : forall c, In c cs -> node_ids c = all_ids (abs c)).
    { intros c Hin. exact (IH cap c (Hc c Hin)). }
    clear IH. unfold node_ids. rewrite (repr_branch_skel R), (repr_branch_abs R).
    cbn [pre all_ids]. f_equal. clear R Hc.
    induction cs as [|c cs IHcs]; [reflexivity|].
    cbn [map flat_map]. fold (node_ids c). rewrite (H c) by (left; reflexivity).
    f_equal. apply IHcs. intros c' Hin. apply H. right. exact Hin.
Qed.

(* ------------------------------------------------------------------ *)
(* the instrumentation is conservative *)
Lemma for_up_res_fst : forall (A B : Type) (bodyg : nat -> A * B -> res (A * B))
    (body : nat -> A -> res A) cnt i st,
  (forall j st, res_fst (bodyg j st) = body j (fst st)) ->
  res_fst (for_up cnt i bodyg st) = for_up cnt i body (fst st).
Proof.
  induction cnt as [|c IH]; intros i st H; cbn [for_up]; [reflexivity|].
  pose proof (H i st) as Hi. destruct (bodyg i st) as [st1| | |]; cbn [res_fst] in Hi; rewrite <- Hi;
    cbn [bind res_fst]; try reflexivity.
  apply IH. exact H.
Qed.

Theorem node_destroy_g_conservative : forall fuel st n,
  res_fst (node_destroy_g fuel st n) = node_destroy fuel (fst st) n.
Proof.
  induction fuel as [|f IH]; intros st n; [reflexivity|].
  cbn [node_destroy_g node_destroy].
  destruct (for_up (nk n) 0 (xdecref_at get_key n) (fst st)) as [rc1| | |]; cbn [bind res_fst]; try reflexivity.
  destruct (nty n).
  - destruct (for_up (nk n) 0 (xdecref_at get_value n) rc1) as [rc2| | |]; cbn [bind res_fst fst]; reflexivity.
  - match goal with |- res_fst (bind ?x _) = _ =>
      assert (E : res_fst x = for_up (S (nk n)) 0
         (fun i rc => do c <- get_child n i;
            match c with SNull => Ok rc | SKid ch => node_destroy f rc ch | SObj _ => Panic 12 end) rc1)
    end.
    { change rc1 with (fst (rc1, snd st)) at 2. apply for_up_res_fst.
      intros j st0. destruct (get_child n j) as [c| | |]; cbn [bind res_fst]; try reflexivity.
      destruct c as [|o|ch]; cbn [res_fst]; try reflexivity. apply IH. }
    rewrite <- E.
    match goal with |- res_fst (bind ?x _) = _ => destruct x as [st2| | |] end; cbn [bind res_fst fst]; reflexivity.
Qed.

Theorem tree_dealloc_g_conservative : forall t rc,
  res_fst (tree_dealloc_g t rc) = tree_dealloc t rc.
Proof.
  intros t rc. unfold tree_dealloc_g, tree_dealloc.
  destruct (node_gc_clear (fuel_of t) rc (root t)) as [r| | |]; cbn [bind res_fst]; try reflexivity.
  apply node_destroy_g_conservative.
Qed.

(* ------------------------------------------------------------------ *)
(* the tree after BPlusTree_clear, with the address tree it still has: every live key and
   value slot is NULL, the live child slots still hold (cleared) nodes; h = height *)
Inductive clearedS : nat -> cnode -> idtree -> Prop :=
| cls_leaf n :
    nty n = NLeaf ->
    (forall i, i < nk n -> nth_error (data n) i = Some SNull) ->
    (forall i, i < nk n -> nth_error (data n) (ncap n + i) = Some SNull) ->
    clearedS 0 n (IT (nid n) [])
| cls_branch h n ts :
    nty n = NBranch ->
    (forall i, i < nk n -> nth_error (data n) i = Some SNull) ->
    length ts = S (nk n) ->
    (forall i t, nth_error ts i = Some t ->
       exists c, nth_error (data n) (ncap n + i) = Some (SKid c) /\ clearedS h c t) ->
    clearedS (S h) n (IT (nid n) ts).

(* node_destroy on a cleared tree releases no reference and frees the nodes children first *)
Lemma destroy_g_cleared : forall fuel h n T rc fr,
  clearedS h n T -> h < fuel ->
  node_destroy_g fuel (rc, fr) n = Ok (rc, fr ++ post T).
Proof.
  induction fuel as [|f IH]; intros h n T rc fr C Hf; [lia|].
  cbn [node_destroy_g fst snd].
  inversion C as [n0 Ty K V | h0 n0 ts Ty K L V]; subst.
  - rewrite for_up_const.
    2:{ intros j Hj. unfold xdecref_at. rewrite (get_key_ok _ _ (K j ltac:(lia))). reflexivity. }
    cbn [bind]. rewrite Ty. rewrite for_up_const.
    2:{ intros j Hj. unfold xdecref_at. rewrite (get_value_ok _ _ (V j ltac:(lia))). reflexivity. }
    cbn [bind fst snd post flat_map app]. reflexivity.
  - rewrite for_up_const.
    2:{ intros j Hj. unfold xdecref_at. rewrite (get_key_ok _ _ (K j ltac:(lia))). reflexivity. }
    cbn [bind]. rewrite Ty.
    destruct (@for_up_inv (rcmap * list N)
      (fun i st => st = (rc, fr ++ flat_map post (firstn i ts)))
      (fun i st => do c <- get_child n i;
         match c with SNull => Ok st | SKid ch => node_destroy_g f st ch | SObj _ => Panic 12 end)
      (S (nk n)) 0 (rc, fr)) as (st2 & E2 & P2).
    + cbn [firstn flat_map]. rewrite app_nil_r. reflexivity.
    + intros j st Hj ->.
      destruct (nth_error_lt_Some ts (i := j)) as (t & Et); [lia|].
      destruct (V j t Et) as (c & Ec & Cc).
      rewrite (get_child_ok _ _ Ec). cbn [bind].
      rewrite (IH h0 c t rc _ Cc) by lia.
      eexists. split; [reflexivity|].
      rewrite (@firstn_snoc _ _ _ _ Et), flat_map_app. cbn [flat_map].
      rewrite app_nil_r, app_assoc. reflexivity.
    + rewrite E2. cbn [bind]. subst st2. cbn [fst snd Nat.add].
      rewrite <- L, firstn_all. cbn [post]. rewrite app_assoc. reflexivity.
Qed.

(* BPlusTree_clear keeps the address tree *)
Lemma gc_clear_leafS : forall f cap n id ks vs nx rc,
  repr_leaf cap n id ks vs nx ->
  exists n' rc1, node_gc_clear (S f) rc n = Ok (n', rc1) /\ clearedS 0 n' (IT id []).
Proof.
  intros f cap n id ks vs nx rc R.
  pose proof R as (R1 & R2 & R3 & R4 & R5 & R6 & R7 & R8 & R9 & R10).
  rewrite node_gc_clear_S, R4.
  destruct (@clear_loop 0 ks n rc) as (n1 & rc1 & E1 & SM1 & P1 & C1); auto; [lia|].
  rewrite E1. cbn [bind]. rewrite R2, R3.
  destruct SM1 as (M1 & M2 & M3 & M4 & M5 & M6).
  destruct (@clear_loop cap vs n1 rc1) as (n2 & rc2 & E2 & SM2 & P2 & C2).
  { intros i Hi. rewrite map_length in Hi. rewrite P1. cbn [Nat.leb Nat.add andb].
    destruct (Nat.ltb_spec (cap + i) (length ks)); [lia|]. apply R10. rewrite map_length. exact Hi. }
  { lia. }
  rewrite R7 in E2. rewrite E2. exists n2, rc2. split; [reflexivity|].
  destruct SM2 as (N1 & N2 & N3 & N4 & N5 & N6).
  replace id with (nid n2) by congruence. apply cls_leaf.
  - congruence.
  - intros i Hi. rewrite N4, M4, R4 in Hi. rewrite P2.
    destruct (Nat.leb_spec cap i); [lia|]. cbn [andb]. rewrite P1. cbn [Nat.leb Nat.add andb].
    destruct (Nat.ltb_spec i (length ks)); [reflexivity|lia].
  - intros i Hi. rewrite N4, M4, R4 in Hi. rewrite N3, M3, R3. rewrite P2.
    destruct (Nat.leb_spec cap (cap + i)); [|lia].
    destruct (Nat.ltb_spec (cap + i) (cap + length vs)); [reflexivity|lia].
Qed.

Lemma gc_clear_branchS : forall f cap h n id ks cs rc,
  (forall c rc0, In c cs ->
     exists c' rc', node_gc_clear f rc0 c = Ok (c', rc') /\ clearedS h c' (skel c)) ->
  repr_branch cap n id ks cs ->
  exists n' rc1, node_gc_clear (S f) rc n = Ok (n', rc1) /\
    clearedS (S h) n' (IT id (map skel cs)).
Proof.
  intros f cap h n id ks cs rc IH R.
  pose proof R as (R1 & R2 & R3 & R4 & R5 & R6 & R7 & R8 & R9).
  rewrite node_gc_clear_S, R4.
  destruct (@clear_loop 0 ks n rc) as (n1 & rc1 & E1 & SM1 & P1 & C1); auto; [lia|].
  rewrite E1. cbn [bind]. rewrite R2.
  destruct SM1 as (M1 & M2 & M3 & M4 & M5 & M6).
  destruct (@for_up_inv (cnode * rcmap)
    (fun i st => i <= length cs /\ same_meta n1 (fst st) /\
       (forall j, j < cap \/ cap + i <= j -> nth_error (data (fst st)) j = nth_error (data n1) j) /\
       (forall j cj, j < i -> nth_error cs j = Some cj ->
          exists c, nth_error (data (fst st)) (cap + j) = Some (SKid c) /\ clearedS h c (skel cj)))
    (gc_child f) (S (length ks)) 0 (n1, rc1)) as ([n2 rc2] & E2 & _ & SM2 & Q1 & Q2).
  - cbn [fst snd]. split; [lia|]. split; [apply same_meta_refl|]. split.
    + intros j _. reflexivity.
    + intros j cj Hj. lia.
  - intros i [m rcm] Hi (_ & SM & Q1 & Q2). cbn [fst snd] in SM, Q1, Q2.
    destruct SM as (N1 & N2 & N3 & N4 & N5 & N6).
    destruct (nth_error_lt_Some cs (i := i)) as (ci & Eci); [lia|].
    assert (Ed : nth_error (data m) (ncap m + i) = Some (SKid ci)).
    { rewrite N3, M3, R3. rewrite Q1 by lia. rewrite P1. cbn [Nat.leb Nat.add andb].
      destruct (Nat.ltb_spec (cap + i) (length ks)); [lia|].
      apply (holds_nth (l := map SKid cs)); auto. rewrite nth_error_map, Eci. reflexivity. }
    unfold gc_child. rewrite (get_child_ok _ _ Ed). cbn [bind].
    destruct (IH ci rcm) as (c' & rc' & Ec & CLc). { eapply nth_error_In; eauto. }
    rewrite Ec. cbn [bind fst snd].
    rewrite set_child_ok by (rewrite N3, M3, R3, N6, M6, R5; lia).
    cbn [bind]. eexists. split; [reflexivity|]. cbn [fst snd]. autorewrite with nodeproj.
    rewrite N3, M3, R3.
    split; [lia|]. split; [|split].
    + unfold same_meta. autorewrite with nodeproj. repeat split; auto.
    + intros j Hj. rewrite nth_error_set_nth_other by lia. apply Q1. lia.
    + intros j cj Hj Ecj. destruct (Nat.eq_dec j i) as [->|ne].
      * exists c'. rewrite nth_error_set_nth_same by (rewrite N6, M6, R5; lia).
        assert (cj = ci) by congruence. subst cj. auto.
      * destruct (Q2 j cj) as (c & Ecj' & CL); [lia|exact Ecj|]. exists c.
        rewrite nth_error_set_nth_other by lia. auto.
  - exists n2, rc2. cbn [fst snd Nat.add] in SM2, Q1, Q2.
    split; [exact E2|].
    destruct SM2 as (N1 & N2 & N3 & N4 & N5 & N6).
    replace id with (nid n2) by congruence. apply cls_branch.
    + congruence.
    + intros i Hi. rewrite N4, M4, R4 in Hi. rewrite Q1 by lia. rewrite P1.
      cbn [Nat.leb Nat.add andb]. destruct (Nat.ltb_spec i (length ks)); [reflexivity|lia].
    + rewrite map_length. congruence.
    + intros i t Et. rewrite nth_error_map in Et.
      destruct (nth_error cs i) as [ci|] eqn:Eci; [|discriminate]. cbn [option_map] in Et.
      inversion Et; subst t. rewrite N3, M3, R3. apply Q2; [|exact Eci].
      pose proof (nth_error_Some_lt _ _ Eci). lia.
Qed.

Lemma gc_clear_specS : forall fuel cap n rc h,
  wf cap n -> cshape cap h (abs n) -> h < fuel ->
  exists n' rc1, node_gc_clear fuel rc n = Ok (n', rc1) /\ clearedS h n' (skel n).
Proof.
  induction fuel as [|f IH]; intros cap n rc h W Sh Hf; [lia|].
  inversion W as [n0 id ks vs nx R | n0 id ks cs R Hc]; subst n0.
  - rewrite (repr_leaf_abs R) in Sh. rewrite (repr_leaf_skel R).
    destruct (cshape_leaf_inv Sh) as (-> & _).
    eapply gc_clear_leafS; eauto.
  - rewrite (repr_branch_abs R) in Sh. rewrite (repr_branch_skel R).
    destruct (cshape_branch_inv Sh) as (h' & -> & _ & _ & _ & Hs).
    eapply gc_clear_branchS; eauto.
    intros c rc0 Hin. apply IH with cap; [apply Hc; exact Hin| |lia].
    apply Hs. apply in_map. exact Hin.
Qed.

(* BPlusTree_dealloc frees the nodes of the tree, children first, and nothing else *)
Theorem tree_dealloc_g_ok : forall t rc, CInv t ->
  exists rc', tree_dealloc_g t rc = Ok (rc', free_order (root t)) /\ tree_dealloc t rc = Ok rc'.
Proof.
  intros t rc I. destruct (ci_shape I) as (h & Sh).
  pose proof (CInv_fuel I Sh) as Hf.
  destruct (@gc_clear_specS (fuel_of t) (tcap t) (root t) rc h (ci_wf I) Sh Hf) as (n' & rc1 & E & CL).
  assert (Eg : tree_dealloc_g t rc = Ok (rc1, free_order (root t))).
  { unfold tree_dealloc_g. rewrite E. cbn [bind fst snd].
    rewrite (destroy_g_cleared rc1 [] CL Hf). reflexivity. }
  exists rc1. split; [exact Eg|].
  rewrite <- tree_dealloc_g_conservative, Eg. reflexivity.
Qed.

(* ------------------------------------------------------------------ *)
(* every tree object satisfying the invariant *)
Lemma CInv_node_ids : forall t, CInv t -> node_ids (root t) = all_ids (abs (root t)).
Proof. intros t I. apply wf_node_ids with (tcap t). apply (ci_wf I). Qed.

(* (d) allocation side, part 1: distinct, non-NULL, below the allocator's next address *)
Theorem node_ids_allocated : forall t, CInv t ->
  NoDup (node_ids (root t)) /\ ~ In 0%N (node_ids (root t)) /\
  (forall x, In x (node_ids (root t)) -> (x < next_id t)%N).
Proof.
  intros t I. rewrite (CInv_node_ids I). split; [apply (ci_nodup I)|]. split.
  - intros H. pose proof (ci_ids I _ H). lia.
  - intros x H. pose proof (ci_ids I _ H). lia.
Qed.

Lemma free_order_perm : forall n, Permutation (free_order n) (node_ids n).
Proof. intros n. apply post_pre_perm. Qed.

(* (c) no double free, no node block leaked / nothing foreign freed *)
Theorem dealloc_frees_each_node_once : forall t rc rc' fr, CInv t ->
  tree_dealloc_g t rc = Ok (rc', fr) ->
  NoDup fr /\ Permutation fr (node_ids (root t)).
Proof.
  intros t rc rc' fr I E. destruct (tree_dealloc_g_ok rc I) as (rc1 & E1 & _).
  rewrite E in E1. inversion E1; subst. split; [|apply free_order_perm].
  apply (Permutation_NoDup (Permutation_sym (free_order_perm (root t)))).
  apply (node_ids_allocated I).
Qed.

(* (c) every freed address is the address of a node of the tree, and in the order of the
   cache_aligned_free calls the address of a node comes after the addresses of all other
   nodes of its subtree (and, the log having no duplicates, only there) *)
Theorem dealloc_children_first : forall t rc rc' fr m, CInv t ->
  tree_dealloc_g t rc = Ok (rc', fr) -> subnode m (root t) ->
  exists l1 l2, fr = l1 ++ nid m :: l2 /\
    (forall x, In x (node_ids m) -> x <> nid m -> In x l1) /\
    ~ In (nid m) l1 /\ ~ In (nid m) l2.
Proof.
  intros t rc rc' fr m I E Hs.
  destruct (@dealloc_frees_each_node_once _ _ _ _ I E) as (ND & _).
  destruct (tree_dealloc_g_ok rc I) as (rc1 & E1 & _).
  rewrite E in E1. inversion E1; subst. clear E1.
  destruct (post_children_first (subnode_subtree Hs)) as (l1 & l2 & Ep & Hx).
  rewrite skel_id in Ep, Hx. exists l1, l2. unfold free_order in *. split; [exact Ep|].
  split; [exact Hx|]. rewrite Ep in ND. apply NoDup_remove_2 in ND.
  rewrite in_app_iff in ND. tauto.
Qed.

Theorem dealloc_frees_only_nodes : forall t rc rc' fr x, CInv t ->
  tree_dealloc_g t rc = Ok (rc', fr) -> In x fr ->
  In x (node_ids (root t)) /\ x <> 0%N /\ (x < next_id t)%N.
Proof.
  intros t rc rc' fr x I E Hx. destruct (@dealloc_frees_each_node_once _ _ _ _ I E) as (_ & Pm).
  pose proof (Permutation_in _ Pm Hx) as Hin. destruct (node_ids_allocated I) as (_ & H0 & Hlt).
  split; [exact Hin|]. split; [intros ->; auto|auto].
Qed.

(* every node of the tree is a [subnode] of the root: the quantifier of
   [dealloc_children_first] is not empty below the root *)
Lemma subnode_ids : forall m n, subnode m n -> In (nid m) (node_ids n).
Proof.
  intros m n H. apply (pre_subtree_incl (subnode_subtree H)).
  rewrite <- skel_id. destruct (skel m). left. reflexivity.
Qed.

Lemma wf_subnode_all : forall cap n, wf cap n ->
  forall x, In x (node_ids n) -> exists m, subnode m n /\ nid m = x.
Proof.
  fix IH 3. intros cap n W. destruct W as [n id ks vs nx R | n id ks cs R Hc].
  - intros x Hx. unfold node_ids in Hx. rewrite (repr_leaf_skel R) in Hx. cbn in Hx.
    destruct Hx as [<-|[]]. exists n. split; [constructor|]. apply R.
  - assert (H : forall c, In c cs -> forall x, In x (node_ids c) -> exists m, subnode m c /\ nid m = x).
    { intros c Hin. exact (IH cap c (Hc c Hin)). }
    clear IH. intros x Hx. unfold node_ids in Hx. rewrite (repr_branch_skel R) in Hx.
    cbn [pre] in Hx. destruct Hx as [<-|Hx].
    + exists n. split; [constructor|]. apply R.
    + apply in_flat_map in Hx. destruct Hx as (T & HT & HxT). apply in_map_iff in HT.
      destruct HT as (c & <- & Hin). destruct (H c Hin x HxT) as (m & Hm & Em).
      exists m. split; [|exact Em].
      destruct (In_nth_error _ _ Hin) as (i & Ei).
      destruct R as (R1 & R2 & R3 & R4 & R5 & R6 & R7 & R8 & R9).
      apply sn_kid with i c; auto.
      * pose proof (nth_error_Some_lt _ _ Ei). lia.
      * rewrite R3. apply (holds_nth (l := map SKid cs)); auto. rewrite nth_error_map, Ei. reflexivity.
Qed.

(* ------------------------------------------------------------------ *)
(* (d) allocation side, part 2: in every reachable state the nodes of a tree object are
   EXACTLY the blocks node_create handed out for it (addresses 1 .. next_id-1).
   [ci_count] of CInv only says "fewer than next_id"; equality is an invariant of the
   histories: an insertion adds exactly the addresses it consumed, nothing else changes
   the set of nodes or the allocator. *)
Definition exact_cnt (t : ctree) : Prop := S (node_count (abs (root t))) = N.to_nat (next_id t).

Lemma exact_cnt_ids : forall t, CInv t -> (exact_cnt t <-> ids_exact t).
Proof.
  intros t I. unfold exact_cnt, ids_exact. rewrite (CInv_node_ids I), <- node_count_all_ids.
  pose proof (ci_count I). lia.
Qed.

Lemma nrange_length : forall a b, length (nrange a b) = N.to_nat (b - a).
Proof. intros. unfold nrange. rewrite map_length, seq_length. reflexivity. Qed.

Lemma tree_init_exact : forall c t, tree_init c = Some t -> exact_cnt t.
Proof.
  intros c t E. unfold tree_init in E.
  destruct (Z.ltb c MIN_CAPACITY); [discriminate|]. destruct (Z.ltb UINT16_MAX c); [discriminate|].
  inversion E; subst. unfold exact_cnt. cbn [root next_id].
  rewrite (repr_leaf_abs (repr_leaf_create 1%N (Z.to_nat c))). reflexivity.
Qed.

Lemma tree_insert_exact : forall t rc k v t' rc', CInv t -> exact_cnt t ->
  tree_insert t rc k v = Ok (t', rc') -> exact_cnt t'.
Proof.
  intros t rc k v t' rc' I X E. destruct (ci_shape I) as (h & Sh).
  pose proof (CInv_fuel I Sh) as Hf.
  destruct (@p_tree_insert_spec (fuel_of t) (next_id t) rc (tcap t) (abs (root t)) k v h
              (ci_cap I) Hf (ci_ord I) Sh)
    as (pt & isnew & rc1 & al' & Ep & _ & _ & _ & _ & _ & _ & Pm & Hal & _).
  destruct (@sim_tree_insert t rc k v pt isnew rc1 al' (ci_cap I) (ci_wf I)
              (ord_nsorted (ci_ord I)) Ep)
    as (t1 & Et & Ea & _ & Enid & _).
  rewrite E in Et. inversion Et; subst t1 rc1. clear Et.
  unfold exact_cnt in *. rewrite Ea, Enid, node_count_all_ids, (Permutation_length Pm), app_length,
    <- node_count_all_ids, nrange_length. lia.
Qed.

Lemma tree_delitem_exact : forall t rc z t' rc' b, CInv t -> exact_cnt t ->
  tree_delitem t rc z = Ok (t', rc', b) -> exact_cnt t'.
Proof.
  intros t rc z t' rc' b I X E. destruct (ci_shape I) as (h & Sh).
  pose proof (CInv_fuel I Sh) as Hf.
  destruct (@p_del_spec (fuel_of t) rc (abs (root t)) z (tcap t) h None None Hf (ci_ord I) Sh)
    as (pt & rc1 & b1 & Ep & _ & _ & _ & _ & _ & _ & Nc & _).
  pose proof (ci_cap I) as Hcap.
  destruct (@sim_tree_delitem t rc z pt rc1 b1) as (t1 & Et & Ea & _ & Enid & _);
    auto; try lia; [apply (ci_wf I)|apply (ord_nsorted (ci_ord I))|].
  rewrite E in Et. inversion Et; subst t1 rc1 b1. clear Et.
  unfold exact_cnt in *. rewrite Ea, Enid, Nc. exact X.
Qed.

Lemma insert_CInv : forall t rc k v t' rc', CInv t -> tree_insert t rc k v = Ok (t', rc') -> CInv t'.
Proof.
  intros t rc k v t' rc' I E. destruct (@tree_insert_ok t rc k v I) as (t2 & rc2 & E2 & I2 & _).
  rewrite E in E2. inversion E2; subst. exact I2.
Qed.

Lemma delitem_CInv : forall t rc z t' rc' b, CInv t -> tree_delitem t rc z = Ok (t', rc', b) -> CInv t'.
Proof.
  intros t rc z t' rc' b I E. destruct (@tree_delitem_ok t rc z I) as (t2 & rc2 & b2 & E2 & I2 & _).
  rewrite E in E2. inversion E2; subst. exact I2.
Qed.

Lemma w_update_exact : forall l t rc t' rc', CInv t -> exact_cnt t ->
  w_update t rc l = Ok (t', rc') -> exact_cnt t'.
Proof.
  induction l as [|[k v] l IH]; intros t rc t' rc' I X E; cbn [w_update] in E.
  - inversion E; subst. exact X.
  - destruct (tree_insert t rc k v) as [[t1 rc1]| | |] eqn:E1; cbn [bind fst snd] in E; try discriminate.
    eapply IH; [| |exact E].
    + eapply insert_CInv; eauto.
    + eapply tree_insert_exact; eauto.
Qed.

Lemma w_clear_exact : forall fuel t rc t' rc', CInv t -> exact_cnt t ->
  w_clear fuel t rc = Ok (t', rc') -> exact_cnt t'.
Proof.
  induction fuel as [|f IH]; intros t rc t' rc' I X E; cbn [w_clear] in E.
  - destruct (Nat.eqb (tree_length t) 0); [|discriminate]. inversion E; subst. exact X.
  - destruct (Nat.eqb (tree_length t) 0); [inversion E; subst; exact X|].
    destruct (iter_new t false) as [it| | |]; cbn [bind] in E; try discriminate.
    destruct (iter_next t rc it) as [[[it' rc1] o]| | |]; cbn [bind] in E; try discriminate.
    destruct o as [k|k v| |]; try discriminate.
    destruct (tree_delitem t rc1 (kz k)) as [[[t1 rc2] b]| | |] eqn:E1; cbn [bind] in E; try discriminate.
    eapply IH; [| |exact E].
    + eapply delitem_CInv; eauto.
    + eapply tree_delitem_exact; eauto.
Qed.

Lemma w_copy_loop_exact : forall fuel t it nt rc nt' rc', CInv nt -> exact_cnt nt ->
  w_copy_loop fuel t it nt rc = Ok (nt', rc') -> exact_cnt nt'.
Proof.
  induction fuel as [|f IH]; intros t it nt rc nt' rc' I X E; cbn [w_copy_loop] in E; [discriminate|].
  destruct (iter_next t rc it) as [[[it' rc1] o]| | |]; cbn [bind] in E; try discriminate.
  destruct o as [k|k v| |]; try (inversion E; subst; exact X).
  destruct (tree_insert nt rc1 k v) as [[nt1 rc2]| | |] eqn:E1; cbn [bind] in E; try discriminate.
  eapply IH; [| |exact E].
  - eapply insert_CInv; eauto.
  - eapply tree_insert_exact; eauto.
Qed.

Lemma w_copy_exact : forall t rc c rc', w_copy t rc = Ok (Some c, rc') -> exact_cnt c.
Proof.
  intros t rc c rc' E. unfold w_copy in E.
  destruct (tree_init (Z.of_nat DEFAULT_CAPACITY)) as [nt|] eqn:Ei; [|inversion E].
  destruct (iter_new t true) as [it| | |]; cbn [bind] in E; try discriminate.
  destruct (w_copy_loop (drain_fuel t) t it nt rc) as [[nt' rc1]| | |] eqn:El; cbn [bind fst snd] in E;
    try discriminate.
  inversion E; subst. eapply w_copy_loop_exact; [| |exact El].
  - apply (tree_init_ok _ Ei).
  - eapply tree_init_exact; eauto.
Qed.

(* the state invariant and its preservation by every call *)
Definition st_exact (s : cstate) : Prop :=
  forall t, st_tree s = Some t \/ st_copy s = Some t -> exact_cnt t.

Ltac crunch E :=
  repeat (cbn [bind fst snd] in E;
          match type of E with
          | context [bind ?x _] => destruct x eqn:?
          | context [match ?x with _ => _ end] => destruct x eqn:?
          end);
  cbn [bind fst snd] in E.

Lemma step_exact : forall s a o, R s a -> st_exact s -> st_exact (fst (step s o)).
Proof.
  intros s a o HR X.
  rewrite step_released.
  destruct (step_res (released s) o) as [[s' x]| | |] eqn:E; cbn [fst]; auto.
  unfold step_res, with_tree in E. cbn [released st_tree st_copy st_iters st_rc st_held] in E.
  rewrite ?release_nil in E.
  destruct (st_tree s) as [t|] eqn:Ht.
  2:{ inversion E; subst. intros t0 H. apply X. cbn [st_tree st_copy] in H. rewrite Ht. exact H. }
  pose proof (r_tree HR) as Rt. rewrite Ht in Rt. unfold tree_rel in Rt.
  destruct (a_map a) as [m|]; [|contradiction]. destruct Rt as (I & _).
  assert (Xt : exact_cnt t) by (apply X; left; exact Ht).
  assert (Xc : forall c, st_copy s = Some c -> exact_cnt c) by (intros c Hc; apply X; right; exact Hc).
  set (rc := release (st_rc s) (st_held s)) in *.
  destruct o; crunch E; try discriminate; inversion E; subst; clear E;
    repeat match goal with p : (_ * _)%type |- _ => destruct p end;
    cbn [fst snd] in *;
    intros t0 H0; cbn [set_tree st_tree st_copy] in H0;
    (destruct H0 as [H0|H0]; [|try (apply Xc; exact H0)]);
    try (injection H0 as H0; subst t0);
    try exact Xt.
  all: try match goal with H : tree_insert _ _ _ _ = Ok _ |- _ => eapply tree_insert_exact; [exact I|exact Xt|exact H] end.
  all: try match goal with H : tree_delitem _ _ _ = Ok _ |- _ => eapply tree_delitem_exact; [exact I|exact Xt|exact H] end.
  all: try match goal with H : w_update _ _ _ = Ok _ |- _ => eapply w_update_exact; [exact I|exact Xt|exact H] end.
  all: try match goal with H : w_clear _ _ _ = Ok _ |- _ => eapply w_clear_exact; [exact I|exact Xt|exact H] end.
  all: try match goal with H : w_copy _ _ = Ok (Some _, _) |- _ => eapply w_copy_exact; exact H end.
  all: try (apply Xc; assumption).
  all: try (apply Xc; reflexivity).
  all: try (subst; match goal with H : w_copy _ _ = Ok (Some _, _) |- _ => eapply w_copy_exact; exact H end).
Qed.

Lemma run_exact : forall ops s a, R s a -> st_exact s -> st_exact (fst (run s ops)).
Proof.
  induction ops as [|o ops IH]; intros s a HR X; cbn [run]; [exact X|].
  destruct (step_refines o HR) as (HR1 & _).
  pose proof (step_exact o HR X) as X1.
  destruct (step s o) as [s1 x]. cbn [fst] in *.
  specialize (IH s1 _ HR1 X1). destruct (run s1 ops) as [s2 xs]. exact IH.
Qed.

Lemma init_exact : forall c, st_exact (fst (st_init c)).
Proof.
  intros c. unfold st_init. destruct (tree_init c) as [t|] eqn:E; cbn [fst]; intros t0 [H|H];
    cbn [st_tree st_copy] in H; try discriminate.
  inversion H; subst. eapply tree_init_exact; eauto.
Qed.

(* ------------------------------------------------------------------ *)
(* every reachable state of every history *)
Lemma reachable_CInv : forall c ops t,
  let s := fst (run (fst (st_init c)) ops) in
  st_tree s = Some t \/ st_copy s = Some t -> CInv t.
Proof.
  intros c ops t s H. destruct (init_refines c) as (HR & _).
  destruct (run_refines ops HR) as (HR' & _). fold s in HR'.
  destruct H as [H|H].
  - pose proof (r_tree HR') as Rt. rewrite H in Rt. unfold tree_rel in Rt.
    destruct (a_map _); [apply Rt|contradiction].
  - pose proof (r_copy HR') as Rt. rewrite H in Rt. unfold tree_rel in Rt.
    destruct (a_copy _); [apply Rt|contradiction].
Qed.

(* (d): distinct, non-NULL, exactly the addresses 1 .. next_id-1 *)
Theorem reachable_node_ids : forall (capacity : Z) (ops : list op) (t : ctree),
  let s := fst (run (fst (st_init capacity)) ops) in
  st_tree s = Some t \/ st_copy s = Some t ->
  NoDup (node_ids (root t)) /\ ~ In 0%N (node_ids (root t)) /\
  (forall x, In x (node_ids (root t)) -> (x < next_id t)%N) /\
  length (node_ids (root t)) = N.to_nat (next_id t) - 1 /\
  Permutation (node_ids (root t)) (nrange 1 (next_id t)).
Proof.
  intros c ops t s H. pose proof (reachable_CInv c ops H) as I.
  destruct (node_ids_allocated I) as (ND & H0 & Hlt).
  assert (L : ids_exact t).
  { apply (exact_cnt_ids I). destruct (init_refines c) as (HR & _).
    apply (run_exact ops HR (init_exact c)). exact H. }
  split; [exact ND|]. split; [exact H0|]. split; [exact Hlt|]. split; [exact L|].
  apply NoDup_Permutation_bis; [exact ND| |].
  - rewrite nrange_length. unfold ids_exact in L. lia.
  - intros x Hx. apply in_nrange. pose proof (Hlt x Hx).
    assert (x <> 0%N) by (intros ->; auto). lia.
Qed.

(* (c) for the tree and the copy of every reachable state: BPlusTree_dealloc succeeds, its
   reference-count result is that of the uninstrumented model, and its free log has no
   duplicates, is a permutation of the node addresses and lists every node after all other
   nodes of its subtree *)
Theorem reachable_dealloc_node_memory : forall (capacity : Z) (ops : list op) (t : ctree) (rc : rcmap),
  let s := fst (run (fst (st_init capacity)) ops) in
  st_tree s = Some t \/ st_copy s = Some t ->
  exists rc' fr, tree_dealloc_g t rc = Ok (rc', fr) /\ tree_dealloc t rc = Ok rc' /\
    NoDup fr /\ Permutation fr (node_ids (root t)) /\
    length fr = N.to_nat (next_id t) - 1 /\
    (forall m, subnode m (root t) ->
       exists l1 l2, fr = l1 ++ nid m :: l2 /\
         (forall x, In x (node_ids m) -> x <> nid m -> In x l1) /\
         ~ In (nid m) l1 /\ ~ In (nid m) l2).
Proof.
  intros c ops t rc s H. pose proof (reachable_CInv c ops H) as I.
  destruct (tree_dealloc_g_ok rc I) as (rc' & E & E').
  exists rc', (free_order (root t)). split; [exact E|]. split; [exact E'|].
  destruct (@dealloc_frees_each_node_once _ _ _ _ I E) as (ND & Pm).
  split; [exact ND|]. split; [exact Pm|]. split.
  - rewrite (Permutation_length Pm). apply (reachable_node_ids c ops H).
  - intros m Hm. eapply dealloc_children_first; eauto.
Qed.

(* the whole teardown of a history ([finish] of C/Run.v with the two free logs) *)
Theorem finish_g_node_memory : forall (capacity : Z) (ops : list op),
  let s := fst (run (fst (st_init capacity)) ops) in
  exists rc frc frt, finish_g s = Ok (rc, frc, frt) /\ finish s = Ok rc /\
    Permutation frc (match st_copy s with Some c => node_ids (root c) | None => [] end) /\
    Permutation frt (match st_tree s with Some t => node_ids (root t) | None => [] end) /\
    NoDup frc /\ NoDup frt.
Proof.
  intros c ops s. unfold finish_g, finish.
  set (rc0 := release (st_rc s) (st_held s)).
  assert (Hc : exists rc1 frc,
    (match st_copy s with Some c => tree_dealloc_g c rc0 | None => Ok (rc0, []) end) = Ok (rc1, frc) /\
    (match st_copy s with Some c => tree_dealloc c rc0 | None => Ok rc0 end) = Ok rc1 /\
    Permutation frc (match st_copy s with Some c => node_ids (root c) | None => [] end) /\ NoDup frc).
  { destruct (st_copy s) as [cp|] eqn:Ec.
    - assert (I : CInv cp) by (apply (reachable_CInv c ops); right; exact Ec).
      destruct (tree_dealloc_g_ok rc0 I) as (rc1 & E & E').
      destruct (@dealloc_frees_each_node_once _ _ _ _ I E) as (ND & Pm).
      exists rc1, (free_order (root cp)). auto.
    - exists rc0, []. repeat split; auto. constructor. }
  destruct Hc as (rc1 & frc & E1 & E1' & P1 & N1). rewrite E1, E1'. cbn [bind fst snd].
  destruct (st_tree s) as [t|] eqn:Et.
  - assert (I : CInv t) by (apply (reachable_CInv c ops); left; exact Et).
    destruct (tree_dealloc_g_ok rc1 I) as (rc2 & E & E').
    destruct (@dealloc_frees_each_node_once _ _ _ _ I E) as (ND & Pm).
    rewrite E. cbn [bind fst snd]. exists rc2, frc, (free_order (root t)). repeat split; auto.
  - cbn [bind fst snd]. exists rc1, frc, []. repeat split; auto. constructor.
Qed.

(* ------------------------------------------------------------------ *)
(* non-vacuity: the tree of C/Examples.v after 30 calls (capacity 4; three levels: a root
   branch, two branches, seven leaves of which the first is EMPTY), evaluated inside Coq *)
Definition ex_tree : option ctree := st_tree ex_mid.

Example ex_three_levels :
  option_map (fun t => skel (root t)) ex_tree =
  Some (IT 9 [IT 3 [IT 1 []; IT 2 []; IT 4 []]; IT 8 [IT 5 []; IT 6 []; IT 7 []; IT 10 []]]).
Proof. vm_compute. reflexivity. Qed.

Example ex_node_ids :
  option_map (fun t => (node_ids (root t), next_id t)) ex_tree =
  Some ([9; 3; 1; 2; 4; 8; 5; 6; 7; 10]%N, 11%N).
Proof. vm_compute. reflexivity. Qed.

(* the free log of BPlusTree_dealloc on it: leaves before their branch, branches before the root *)
Example ex_free_log :
  option_map (fun t => res_fst (match tree_dealloc_g t [] with
                                | Ok (rc, fr) => Ok (fr, rc) | Panic s => Panic s
                                | OutOfFuel => OutOfFuel | UB s => UB s end)) ex_tree =
  Some (Ok [1; 2; 4; 3; 5; 6; 7; 10; 8; 9]%N).
Proof. vm_compute. reflexivity. Qed.

Example ex_free_log_checks :
  match ex_tree with
  | Some t =>
      match tree_dealloc_g t (st_rc ex_mid), tree_dealloc t (st_rc ex_mid) with
      | Ok (rc, fr), Ok rc' =>
          nodupb fr && Nat.eqb (length fr) (N.to_nat (next_id t) - 1) &&
          forallb (fun x => existsb (N.eqb x) (node_ids (root t))) fr &&
          forallb (fun e => Z.eqb (rc_get rc (fst e)) (rc_get rc' (fst e))) (rc ++ rc')
      | _, _ => false
      end
  | None => false
  end = true.
Proof. vm_compute. reflexivity. Qed.

(* and for the whole teardown at the end of that history (tree and copy) *)
Example ex_finish_logs :
  match finish_g (fst ex_final) with
  | Ok (_, frc, frt) => (frc, frt)
  | _ => ([], [])
  end = ([1; 2; 4; 3; 5; 6; 7; 10; 11; 8; 9]%N, [1; 2; 4; 3]%N).
Proof. vm_compute. reflexivity. Qed.
