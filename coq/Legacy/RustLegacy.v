(* The four defects of the Rust crate that were found while building this verification,
   as the code was BEFORE the repairs.  The model (Rust/Readers.v) follows the repaired
   code; here every pre-repair definition is transcribed again -- a copy of the current
   definition in which exactly what the repair changed is changed back -- and a witness,
   checked by evaluation, shows that the property fails on the pre-repair definition while
   the repaired definition gives the right answer on the same input.
   Nothing here is used by the property theorems.

   D1  (commit 77d4ca8, range_queries.rs)  resolve_range_bounds armed skip_first for EVERY
       Bound::Excluded start, so an absent excluded key made range() drop the first
       in-range entry.
   D2  (commit 0d46848, iteration.rs)  try_get_next_item: the branch for the BORROWED end
       key always used the exclusive test (key >= end_key), ignoring end_inclusive.
   D10 (commit 57935ec, validation.rs)  check_node_invariants tested occupancy as
       `!keys.is_empty() && is_underfull()`: a NON-ROOT node with zero keys passed.
   D11 (commit 15c1ae3, iteration.rs)  try_get_next_item guarded the unchecked key/value
       access by idx >= keys_len() only, and FastItemIterator used get_leaf_unchecked for
       the first leaf and for leaf.next. *)
From BPT Require Import Common.Base Common.AMap Rust.Arena Rust.Tree Rust.Heap Rust.Readers
     Rust.Run Rust.InvDefs Rust.Spec Rust.Damage Rust.NoUB Rust.ValidDefs Rust.ReachDefs Rust.Reach.
Set Implicit Arguments.

Section RustLegacy.
Variable V : Type.
Notation heap := (heap V).
Notation leaf := (leaf V).
Notation iter := (iter V).
Notation riter := (riter V).
Notation fiter := (fiter V).

(* ================= D1: range() with an excluded, absent start key ================= *)
(* pre-repair:   Bound::Excluded(key) => (self.find_leaf_for_key(key), true)
   find_leaf_for_key is the same walk as find_leaf_for_key_with_match without the flag. *)
Definition resolve_range_bounds_legacy (h : heap) (lo hi : bound)
  : res (option (N * nat) * bool * option (Z * bool)) :=
  do st <-
    match lo with
    | Included z =>
        do r <- find_leaf_for_key_with_match h z;
        Ok (match r with Some (id, i, _) => Some (id, i) | None => None end, false)
    | Excluded z =>
        do r <- find_leaf_for_key_with_match h z;
        Ok (match r with Some (id, i, _) => Some (id, i) | None => None end, true)
    | Unbounded =>
        do f <- get_first_leaf_id h;
        Ok (match f with Some id => Some (id, 0) | None => None end, false)
    end;
  let e := match hi with
           | Included z => Some (z, true) | Excluded z => Some (z, false) | Unbounded => None
           end in
  Ok (fst st, snd st, e).

Definition range_legacy (h : heap) (lo hi : bound) : res riter :=
  do r <- resolve_range_bounds_legacy h lo hi;
  let '(st, skip, e) := r in Ok (range_new h st skip e).

Definition range_collect_legacy (h : heap) (lo hi : bound) : res (list (key * V)) :=
  do it <- range_legacy h lo hi; collect_f (range_next h) (total_items_bound h) it.

(* the repair changed nothing for the other two kinds of start bound *)
Lemma resolve_range_bounds_legacy_same : forall h lo hi,
  (forall z, lo <> Excluded z) ->
  resolve_range_bounds_legacy h lo hi = resolve_range_bounds h lo hi.
Proof.
  intros h lo hi Hlo. destruct lo as [z|z|]; try reflexivity.
  exfalso. exact (Hlo z eq_refl).
Qed.

(* ================= D2: borrowed end key, Bound::Included ================= *)
(* pre-repair:   let beyond_end = if let Some(end_key) = self.end_key { key >= end_key } *)
Definition try_get_legacy_endkey (s : iter) (l : leaf) : res (iter * option (key * V)) :=
  if orb (Nat.leb (length (lkeys l)) (it_idx s)) (Nat.leb (length (lvals l)) (it_idx s))
  then Ok (s, None)
  else
    match nth_error (lkeys l) (it_idx s), nth_error (lvals l) (it_idx s) with
    | Some k, Some v =>
        let beyond :=
          match it_end_key s with
          | Some e => Z.leb e (kz k)
          | None =>
              match it_end_bound s with
              | Some e => if it_incl s then Z.ltb e (kz k) else Z.leb e (kz k)
              | None => false
              end
          end in
        if beyond then Ok (it_terminal s, None)
        else Ok (mkIter (it_id s) (it_leaf s) (S (it_idx s)) (it_end_key s)
                        (it_end_bound s) (it_incl s), Some (k, v))
    | _, _ => UB 170
    end.

Fixpoint item_next_f_legacy_endkey (fuel : nat) (h : heap) (s : iter)
  : res (iter * option (key * V)) :=
  match fuel with
  | O => OutOfFuel
  | S f =>
    match it_leaf s with
    | None => Ok (s, None)
    | Some l =>
        do r <- try_get_legacy_endkey s l;
        let '(s1, item) := r in
        match item with
        | Some _ => Ok (s1, item)
        | None =>
            let '(s2, ok) := advance h s1 in
            if ok then item_next_f_legacy_endkey f h s2 else Ok (s2, None)
        end
    end
  end.
Definition item_next_legacy_endkey (h : heap) (s : iter) :=
  item_next_f_legacy_endkey (dfuel h) h s.

Definition from_position_collect_legacy (h : heap) (id : N) (idx : nat) (e : option (Z * bool))
  : res (list (key * V)) :=
  collect_f (item_next_legacy_endkey h) (total_items_bound h) (from_position h id idx e).

(* the repair changed nothing unless a borrowed INCLUSIVE end key is present *)
Lemma try_get_legacy_endkey_same : forall s l,
  it_end_key s = None \/ it_incl s = false ->
  try_get_legacy_endkey s l = try_get s l.
Proof.
  intros s l [H|H]; unfold try_get_legacy_endkey, try_get; rewrite H; reflexivity.
Qed.

(* ================= D10: the occupancy exemption of empty nodes ================= *)
(* pre-repair:   if !leaf.keys_is_empty() && leaf.is_underfull() { if _is_root {} else { return false } }
                 if !branch.keys.is_empty() && branch.is_underfull() { ... } *)
Fixpoint check_node_legacy (fuel : nat) (h : heap) (r : nref) (lo hi : option Z) (is_root : bool)
  : res bool :=
  match fuel with
  | O => OutOfFuel
  | S f =>
    match r with
    | RLeaf id =>
        match get_leaf h id with
        | None => Ok false
        | Some l =>
            let n := length (lkeys l) in
            Ok (andb (Nat.eqb n (length (lvals l)))
               (andb (strictly_asc (lkeys l))
               (andb (Nat.leb n (hcap h))
               (andb (orb (negb (andb (negb (Nat.eqb n 0)) (Nat.ltb n (lcap l / 2)))) is_root)
               (andb (match lo, lkeys l with
                      | Some m, k :: _ => negb (Z.ltb (kz k) m)
                      | _, _ => true end)
                     (match hi, last_opt (lkeys l) with
                      | Some m, Some k => negb (Z.leb m (kz k))
                      | _, _ => true end))))))
        end
    | RBranch id =>
        match get_branch h id with
        | None => Ok false
        | Some b =>
            let n := length (bkeys b) in
            if negb (Nat.eqb (S n) (length (bkids b))) then Ok false else
            if negb (strictly_asc (bkeys b)) then Ok false else
            if Nat.ltb (hcap h) n then Ok false else
            if andb (andb (negb (Nat.eqb n 0)) (Nat.ltb n (bcap b / 2))) (negb is_root)
            then Ok false else
            match bkids b with
            | [] => Ok false
            | _ =>
              all_res (map (fun ic =>
                              let '(lo', hi') := child_bounds (bkeys b) lo hi (fst ic) in
                              check_node_legacy f h (snd ic) lo' hi' false)
                           (combine (seq 0 (length (bkids b))) (bkids b)))
            end
        end
    end
  end.

Definition check_invariants_legacy (h : heap) : res bool :=
  check_node_legacy (dfuel h) h (hroot h) None None true.

Definition check_invariants_detailed_legacy (h : heap) : res (option nat) :=
  do ok <- check_invariants_legacy h;
  if negb ok then Ok (Some E_TREE) else
  do ks <- keys h;
  if negb (strictly_asc ks) then Ok (Some E_UNSORTED) else
  do n <- len h;
  if negb (Nat.eqb (length ks) n) then Ok (Some E_COUNT) else
  do cnt <- count_nodes_in_tree h;
  if negb (Nat.eqb (fst cnt) (a_len (hleaves h))) then Ok (Some E_LEAF_ARENA) else
  if negb (Nat.eqb (snd cnt) (a_len (hbranches h))) then Ok (Some E_BRANCH_ARENA) else
  do tids <- collect_leaf_ids h;
  do fid <- get_first_leaf_id h;
  do cids <- chain_ids (S (S (length (store (hleaves h))))) h fid;
  if negb (list_eqb (sort_ids tids) (sort_ids cids)) then Ok (Some E_CHAIN) else
  Ok None.

(* ================= D11: unchecked accesses reachable from safe code ================= *)
(* (a) ItemIterator: pre-repair guard  `if self.current_leaf_index >= leaf.keys_len()`
       = NoUB.try_get_legacy *)
Fixpoint item_next_f_legacy (fuel : nat) (h : heap) (s : iter) : res (iter * option (key * V)) :=
  match fuel with
  | O => OutOfFuel
  | S f =>
    match it_leaf s with
    | None => Ok (s, None)
    | Some l =>
        do r <- try_get_legacy s l;
        let '(s1, item) := r in
        match item with
        | Some _ => Ok (s1, item)
        | None =>
            let '(s2, ok) := advance h s1 in
            if ok then item_next_f_legacy f h s2 else Ok (s2, None)
        end
    end
  end.
Definition item_next_legacy (h : heap) (s : iter) := item_next_f_legacy (dfuel h) h s.

Definition items_legacy (h : heap) : res (list (key * V)) :=
  do it <- item_new h; collect_f (item_next_legacy h) (total_items_bound h) it.

(* (b) FastItemIterator: pre-repair
       new:   leftmost_id.map(|id| unsafe { tree.get_leaf_unchecked(id) })       (line 379)
       next:  unsafe { Some(self.tree.get_leaf_unchecked(leaf.next)) }           (line 420)
   get_leaf_unchecked = leaf_arena.get_unchecked, "Caller must ensure id is valid and
   allocated"; [a_get_unchecked] is [UB site] exactly when that is false. *)
Definition get_leaf_unchecked (site : nat) (h : heap) (id : N) : res leaf :=
  a_get_unchecked site (hleaves h) id.

Definition fast_new_legacy (h : heap) : res fiter :=
  do fid <- get_first_leaf_id h;
  match fid with
  | Some i => do l <- get_leaf_unchecked 379 h i; Ok (mkFiter fid (Some l) 0 false)
  | None => Ok (mkFiter fid None 0 false)
  end.

Fixpoint fast_next_f_legacy (fuel : nat) (h : heap) (s : fiter) : res (fiter * option (key * V)) :=
  match fuel with
  | O => OutOfFuel
  | S f =>
    if f_fin s then Ok (s, None) else
    match f_leaf s with
    | None => Ok (mkFiter (f_id s) None (f_idx s) true, None)
    | Some l =>
        if Nat.ltb (f_idx s) (length (lkeys l)) then
          match nth_error (lkeys l) (f_idx s), nth_error (lvals l) (f_idx s) with
          | Some k, Some v => Ok (mkFiter (f_id s) (f_leaf s) (S (f_idx s)) false, Some (k, v))
          | _, _ => Ok (s, None)          (* the `?` on get_key / get_value *)
          end
        else if negb (N.eqb (lnext l) NULL) then
          do nl <- get_leaf_unchecked 420 h (lnext l);
          fast_next_f_legacy f h (mkFiter (Some (lnext l)) (Some nl) 0 false)
        else Ok (mkFiter (f_id s) (f_leaf s) (f_idx s) true, None)
    end
  end.
Definition fast_next_legacy (h : heap) (s : fiter) := fast_next_f_legacy (dfuel h) h s.

Definition items_fast_legacy (h : heap) : res (list (key * V)) :=
  do it <- fast_new_legacy h; collect_f (fast_next_legacy h) (total_items_bound h) it.

(* where the precondition of the unchecked access holds, it is the checked access *)
Lemma get_leaf_unchecked_allocated : forall site h id l,
  get_leaf h id = Some l -> get_leaf_unchecked site h id = Ok l.
Proof.
  intros site h id l H. unfold get_leaf, a_get in H.
  unfold get_leaf_unchecked, a_get_unchecked.
  destruct (N.eqb id NULL); [discriminate|].
  destruct (andb _ _); [|discriminate].
  rewrite H. reflexivity.
Qed.

End RustLegacy.

(* ======================= witnesses, on V := Z ======================= *)
Local Open Scope Z_scope.

(* BPlusTreeMap::new(c), then insert (mkKey z id, v) for each triple of the list *)
Definition build (c : nat) (l : list (Z * N * Z)) : option (bstate Z) :=
  fold_left (fun ob '(z, id, v) =>
               match ob with
               | Some b => match b_insert b (mkKey z id) v with Ok (b', _) => Some b' | _ => None end
               | None => None
               end) l (b_new Z c).

Definition b_empty4 : bstate Z := mkB 4 (PLeaf 0%N 4 [] [] NULL) (mkMeta [true] []) (mkMeta [] []).
Example b_new4 : b_new Z 4 = Some b_empty4.
Proof. vm_compute. reflexivity. Qed.

Definition built (c : nat) (l : list (Z * N * Z)) : bstate Z :=
  match build c l with Some b => b | None => b_empty4 end.

(* the same history as a list of operations of [Run.step] *)
Definition ops_of (l : list (Z * N * Z)) : list (op Z) :=
  map (fun '(z, id, v) => OInsert (mkKey z id) v) l.

(* ---- the map of D1, D2 and D11: capacity 4, keys 1,3,...,15 inserted in order ---- *)
Definition odd_entries : list (Z * N * Z) :=
  [(1, 0%N, 10); (3, 1%N, 30); (5, 2%N, 50); (7, 3%N, 70);
   (9, 4%N, 90); (11, 5%N, 110); (13, 6%N, 130); (15, 7%N, 150)].
Definition b_odd : bstate Z := built 4 odd_entries.
Definition h_odd : heap Z := flatten b_odd.

(* three leaves 0 -> 1 -> 2 under one branch *)
Example b_odd_built :
  build 4 odd_entries =
  Some (mkB 4
    (PBranch 0%N 4 [mkKey 5 2%N; mkKey 9 4%N]
       [PLeaf 0%N 4 [mkKey 1 0%N; mkKey 3 1%N] [10; 30] 1%N;
        PLeaf 1%N 4 [mkKey 5 2%N; mkKey 7 3%N] [50; 70] 2%N;
        PLeaf 2%N 4 [mkKey 9 4%N; mkKey 11 5%N; mkKey 13 6%N; mkKey 15 7%N] [90; 110; 130; 150] NULL])
    (mkMeta [true; true; true] []) (mkMeta [true] [])).
Proof. vm_compute. reflexivity. Qed.

Example b_odd_run : fst (run b_empty4 (ops_of odd_entries)) = b_odd.
Proof. vm_compute. reflexivity. Qed.

(* it is a reachable state of the verified model: the invariant holds *)
Lemma b_odd_inv : Inv b_odd.
Proof.
  destruct (@reachable_inv Z 4%nat (ops_of odd_entries)) as (b0 & E & I & _).
  - apply le_n.
  - vm_compute. reflexivity.
  - rewrite b_new4 in E. injection E as E. subst b0. rewrite b_odd_run in I. exact I.
Qed.

Example b_odd_contents :
  contents (root b_odd) =
  [(mkKey 1 0%N, 10); (mkKey 3 1%N, 30); (mkKey 5 2%N, 50); (mkKey 7 3%N, 70);
   (mkKey 9 4%N, 90); (mkKey 11 5%N, 110); (mkKey 13 6%N, 130); (mkKey 15 7%N, 150)].
Proof. vm_compute. reflexivity. Qed.

(* ================= D1 ================= *)
(* range((Excluded(6), Unbounded)): 6 is absent; 7 is the first entry in range *)
Example d1_refuted :
  range_collect_legacy h_odd (Excluded 6) Unbounded =
    Ok [(mkKey 9 4%N, 90); (mkKey 11 5%N, 110); (mkKey 13 6%N, 130); (mkKey 15 7%N, 150)] /\
  range_collect h_odd (Excluded 6) Unbounded =
    Ok [(mkKey 7 3%N, 70); (mkKey 9 4%N, 90); (mkKey 11 5%N, 110); (mkKey 13 6%N, 130);
        (mkKey 15 7%N, 150)].
Proof. vm_compute. split; reflexivity. Qed.

(* with a PRESENT excluded key both versions agree (the skip is armed rightly) *)
Example d1_present_key_agrees :
  range_collect_legacy h_odd (Excluded 7) Unbounded = range_collect h_odd (Excluded 7) Unbounded /\
  range_collect h_odd (Excluded 7) Unbounded =
    Ok [(mkKey 9 4%N, 90); (mkKey 11 5%N, 110); (mkKey 13 6%N, 130); (mkKey 15 7%N, 150)].
Proof. vm_compute. split; reflexivity. Qed.

(* in the words of the property (Spec: range returns m_range of the contents) *)
Theorem range_excluded_absent_refuted :
  exists (b : bstate Z) lo hi, Inv b /\
    range_collect_legacy (flatten b) lo hi <> Ok (m_range (contents (root b)) lo hi).
Proof.
  exists b_odd, (Excluded 6), Unbounded. split; [exact b_odd_inv|].
  vm_compute. discriminate.
Qed.

Example range_excluded_absent_repaired :
  range_collect (flatten b_odd) (Excluded 6) Unbounded
  = Ok (m_range (contents (root b_odd)) (Excluded 6) Unbounded).
Proof. vm_compute. reflexivity. Qed.

(* ================= D2 ================= *)
(* ItemIterator::new_from_position_with_bounds(first_leaf, 0, Bound::Included(&5)) *)
Example first_leaf_odd : get_first_leaf_id h_odd = Ok (Some 0%N).
Proof. vm_compute. reflexivity. Qed.

Example d2_refuted :
  from_position_collect_legacy h_odd 0%N 0 (Some (5, true)) =
    Ok [(mkKey 1 0%N, 10); (mkKey 3 1%N, 30)] /\
  from_position_collect h_odd 0%N 0 (Some (5, true)) =
    Ok [(mkKey 1 0%N, 10); (mkKey 3 1%N, 30); (mkKey 5 2%N, 50)].
Proof. vm_compute. split; reflexivity. Qed.

(* with an EXCLUDED end key both versions agree *)
Example d2_excluded_agrees :
  from_position_collect_legacy h_odd 0%N 0 (Some (5, false)) =
    from_position_collect h_odd 0%N 0 (Some (5, false)) /\
  from_position_collect h_odd 0%N 0 (Some (5, false)) = Ok [(mkKey 1 0%N, 10); (mkKey 3 1%N, 30)].
Proof. vm_compute. split; reflexivity. Qed.

(* in the words of the property: an iterator positioned on the first entry with end
   bound Included(e) yields the entries with key <= e *)
Theorem from_position_included_refuted :
  exists (b : bstate Z) id e, Inv b /\ get_first_leaf_id (flatten b) = Ok (Some id) /\
    from_position_collect_legacy (flatten b) id 0 (Some (e, true))
    <> Ok (m_range (contents (root b)) Unbounded (Included e)).
Proof.
  exists b_odd, 0%N, 5. split; [exact b_odd_inv|]. split; [exact first_leaf_odd|].
  vm_compute. discriminate.
Qed.

Example from_position_included_repaired :
  from_position_collect (flatten b_odd) 0%N 0 (Some (5, true))
  = Ok (m_range (contents (root b_odd)) Unbounded (Included 5)).
Proof. vm_compute. reflexivity. Qed.

(* ================= D10 ================= *)
(* capacity 4, keys 0..19 inserted in order (value 100*i); then the first leaf is emptied
   through the safe node helpers (get_leaf_mut + take_keys/take_values) *)
Definition seq_entries : list (Z * N * Z) :=
  map (fun i => (Z.of_nat i, N.of_nat i, 100 * Z.of_nat i)) (seq 0 20).
Definition b20 : bstate Z := built 4 seq_entries.

(* nine leaves under three branches under a root branch; leaf 0 is not the root *)
Example b20_built :
  build 4 seq_entries =
  Some (mkB 4
    (PBranch 2%N 4 [mkKey 6 6%N; mkKey 12 12%N]
       [PBranch 0%N 4 [mkKey 2 2%N; mkKey 4 4%N]
          [PLeaf 0%N 4 [mkKey 0 0%N; mkKey 1 1%N] [0; 100] 1%N;
           PLeaf 1%N 4 [mkKey 2 2%N; mkKey 3 3%N] [200; 300] 2%N;
           PLeaf 2%N 4 [mkKey 4 4%N; mkKey 5 5%N] [400; 500] 3%N];
        PBranch 1%N 4 [mkKey 8 8%N; mkKey 10 10%N]
          [PLeaf 3%N 4 [mkKey 6 6%N; mkKey 7 7%N] [600; 700] 4%N;
           PLeaf 4%N 4 [mkKey 8 8%N; mkKey 9 9%N] [800; 900] 5%N;
           PLeaf 5%N 4 [mkKey 10 10%N; mkKey 11 11%N] [1000; 1100] 6%N];
        PBranch 3%N 4 [mkKey 14 14%N; mkKey 16 16%N]
          [PLeaf 6%N 4 [mkKey 12 12%N; mkKey 13 13%N] [1200; 1300] 7%N;
           PLeaf 7%N 4 [mkKey 14 14%N; mkKey 15 15%N] [1400; 1500] 8%N;
           PLeaf 8%N 4 [mkKey 16 16%N; mkKey 17 17%N; mkKey 18 18%N; mkKey 19 19%N]
                 [1600; 1700; 1800; 1900] NULL]])
    (mkMeta [true; true; true; true; true; true; true; true; true] [])
    (mkMeta [true; true; true; true] [])).
Proof. vm_compute. reflexivity. Qed.

Definition damaged : heap Z := apply_edit (flatten b20) (ELeafTrunc Z 0 0).

Example damaged_first_leaf :
  get_leaf damaged 0%N = Some (mkLeaf 4 [] [] 1%N).
Proof. vm_compute. reflexivity. Qed.

Example d10_refuted :
  check_invariants_legacy damaged = Ok true /\
  check_invariants_detailed_legacy damaged = Ok None /\
  check_invariants damaged = Ok false.
Proof. vm_compute. repeat split; reflexivity. Qed.

Example d10_detailed_repaired : check_invariants_detailed damaged = Ok (Some E_TREE).
Proof. vm_compute. reflexivity. Qed.

(* on the undamaged map both versions accept *)
Example d10_undamaged_agrees :
  check_invariants_legacy (flatten b20) = Ok true /\ check_invariants (flatten b20) = Ok true /\
  check_invariants_detailed_legacy (flatten b20) = Ok None /\
  check_invariants_detailed (flatten b20) = Ok None.
Proof. vm_compute. repeat split; reflexivity. Qed.

(* in the words of the property (C14, ValidSound.damaged_rejected /
   detailed_rejects_damage): a reachable node that is not [node_ok] makes the validators
   answer false / Err.  The pre-repair validators accept one. *)
Theorem validator_empty_node_refuted :
  exists (h : heap Z) r isroot lo hi,
    hreach h r isroot lo hi /\ ~ node_ok h r isroot lo hi /\
    check_invariants_legacy h = Ok true /\ check_invariants_detailed_legacy h = Ok None.
Proof.
  exists damaged, (RLeaf 0%N), false.
  eexists. eexists. split; [|split].
  - eapply (@hreach_child Z damaged 0%N _ false _ _ 0%nat (RLeaf 0%N)).
    + eapply (@hreach_child Z damaged 2%N _ true None None 0%nat (RBranch 0%N)).
      * exact (hreach_root damaged).
      * vm_compute. reflexivity.
      * vm_compute. reflexivity.
    + vm_compute. reflexivity.
    + vm_compute. reflexivity.
  - intros (l & Hg & _ & _ & _ & Hocc & _).
    rewrite damaged_first_leaf in Hg. injection Hg as Hg. subst l.
    specialize (Hocc eq_refl). vm_compute in Hocc. lia.
  - destruct d10_refuted as (H1 & H2 & _). split; assumption.
Qed.

(* ================= D11 ================= *)
(* (a) get_leaf_mut(first leaf).push_key(k): a key without a value *)
Definition pushed : heap Z := apply_edit h_odd (ELeafPushKey Z 0 (mkKey 4 8%N)).
(* (b) set_leaf_next(first leaf, 12345): a link to a slot outside the arena *)
Definition dangling : heap Z := apply_edit h_odd (ELeafNext Z 0 (TRaw 12345%N)).
(* (c) the root replaced by Leaf(77): FastItemIterator::new follows it unchecked *)
Definition wild_root : heap Z := apply_edit h_odd (ERoot Z true 77%N).

Example pushed_first_leaf :
  get_leaf pushed 0%N = Some (mkLeaf 4 [mkKey 1 0%N; mkKey 3 1%N; mkKey 4 8%N] [10; 30] 1%N).
Proof. vm_compute. reflexivity. Qed.
Example dangling_first_leaf :
  get_leaf dangling 0%N = Some (mkLeaf 4 [mkKey 1 0%N; mkKey 3 1%N] [10; 30] 12345%N) /\
  get_leaf dangling 12345%N = None.
Proof. vm_compute. split; reflexivity. Qed.

Example d11_refuted :
  (exists site, items_legacy pushed = UB site) /\
  (exists site, items_fast_legacy dangling = UB site) /\
  items pushed =
    Ok [(mkKey 1 0%N, 10); (mkKey 3 1%N, 30); (mkKey 5 2%N, 50); (mkKey 7 3%N, 70);
        (mkKey 9 4%N, 90); (mkKey 11 5%N, 110); (mkKey 13 6%N, 130); (mkKey 15 7%N, 150)] /\
  items_fast dangling = Ok [(mkKey 1 0%N, 10); (mkKey 3 1%N, 30)].
Proof.
  split; [exists 170%nat; vm_compute; reflexivity|].
  split; [exists 420%nat; vm_compute; reflexivity|].
  vm_compute. split; reflexivity.
Qed.

(* the sites: the unchecked key/value access of try_get_next_item (line 170) and the
   get_leaf_unchecked(leaf.next) of FastItemIterator::next (line 420) *)
Example d11_sites :
  items_legacy pushed = UB 170 /\ items_fast_legacy dangling = UB 420 /\
  items_fast_legacy wild_root = UB 379 /\ items_fast wild_root = Ok [].
Proof. vm_compute. repeat split; reflexivity. Qed.

Corollary d11_repaired_no_ub :
  items pushed <> UB 170 /\ (forall site, items_fast dangling <> UB site).
Proof.
  destruct d11_refuted as (_ & _ & H1 & H2). rewrite H1, H2. split; [|intros site]; discriminate.
Qed.

(* on the undamaged map the pre-repair iterators return the contents *)
Example d11_undamaged_agrees :
  items_legacy h_odd = items h_odd /\ items_fast_legacy h_odd = items_fast h_odd /\
  items h_odd = Ok (contents (root b_odd)) /\ items_fast h_odd = Ok (contents (root b_odd)).
Proof. vm_compute. repeat split; reflexivity. Qed.

(* in the words of the property (NoUB.readers_no_ub: no reader reaches UB on ANY heap):
   one call of a safe helper on a reachable map makes the pre-repair iterators do so *)
Theorem items_no_ub_refuted :
  exists (b : bstate Z) (e : edit Z), Inv b /\ ~ no_ub (items_legacy (apply_edit (flatten b) e)).
Proof.
  exists b_odd, (ELeafPushKey Z 0 (mkKey 4 8%N)). split; [exact b_odd_inv|].
  intros H. apply (H 170%nat). vm_compute. reflexivity.
Qed.

Theorem items_fast_no_ub_refuted :
  exists (b : bstate Z) (e : edit Z), Inv b /\ ~ no_ub (items_fast_legacy (apply_edit (flatten b) e)).
Proof.
  exists b_odd, (ELeafNext Z 0 (TRaw 12345%N)). split; [exact b_odd_inv|].
  intros H. apply (H 420%nat). vm_compute. reflexivity.
Qed.

Example items_no_ub_repaired :
  no_ub (items pushed) /\ no_ub (items_fast dangling) /\ no_ub (items_fast wild_root).
Proof. split; [|split]; [apply items_no_ub | apply items_fast_no_ub | apply items_fast_no_ub]. Qed.

Print Assumptions d1_refuted.
Print Assumptions d2_refuted.
Print Assumptions d10_refuted.
Print Assumptions d11_refuted.
Print Assumptions range_excluded_absent_refuted.
Print Assumptions from_position_included_refuted.
Print Assumptions validator_empty_node_refuted.
Print Assumptions items_no_ub_refuted.
Print Assumptions items_fast_no_ub_refuted.
