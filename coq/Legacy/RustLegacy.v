(* The four defects of the Rust crate that were found while building this verification,
   as the code was BEFORE the repairs.  The model (Rust/Readers.v) follows the repaired
   code; here every pre-repair definition is transcribed again -- a copy of the current
   definition in which exactly what the repair changed is changed back -- and a witness,
   checked by evaluation, shows that the property fails on the pre-repair definition while
   the repaired definition gives the right answer on the same input.
   Nothing here is used by the property theorems.

   D1  (commit 77d4ca8, range_queries.rs)  resolve_range_bounds armed skip_first for EVERY
       Bound::Excluded start, so an absent excluded key made range() drop the first
       in-range entry.
   D2  (commit 0d46848, iteration.rs)  try_get_next_item: the branch for the BORROWED end
       key always used the exclusive test (key >= end_key), ignoring end_inclusive.
   D10 (commit 57935ec, validation.rs)  check_node_invariants tested occupancy as
       `!keys.is_empty() && is_underfull()`: a NON-ROOT node with zero keys passed.
   D11 (commit 15c1ae3, iteration.rs)  try_get_next_item guarded the unchecked key/value
       access by idx >= keys_len() only, and FastItemIterator used get_leaf_unchecked for
       the first leaf and for leaf.next. *)
From BPT Require Import Common.Base Common.AMap Rust.Arena Rust.Tree Rust.Heap Rust.Readers
     Rust.Run Rust.Spec Rust.Damage Rust.NoUB.
Set Implicit Arguments.

Section RustLegacy.
Variable V : Type.
Notation heap := (heap V).
Notation leaf := (leaf V).
Notation iter := (iter V).
Notation riter := (riter V).
Notation fiter := (fiter V).

(* ================= D1: range() with an excluded, absent start key ================= *)
(* pre-repair:   Bound::Excluded(key) => (self.find_leaf_for_key(key), true)
   find_leaf_for_key is the same walk as find_leaf_for_key_with_match without the flag. *)
Definition resolve_range_bounds_legacy (h : heap) (lo hi : bound)
  : res (option (N * nat) * bool * option (Z * bool)) :=
  do st <-
    match lo with
    | Included z =>
        do r <- find_leaf_for_key_with_match h z;
        Ok (match r with Some (id, i, _) => Some (id, i) | None => None end, false)
    | Excluded z =>
        do r <- find_leaf_for_key_with_match h z;
        Ok (match r with Some (id, i, _) => Some (id, i) | None => None end, true)
    | Unbounded =>
        do f <- get_first_leaf_id h;
        Ok (match f with Some id => Some (id, 0) | None => None end, false)
    end;
  let e := match hi with
           | Included z => Some (z, true) | Excluded z => Some (z, false) | Unbounded => None
           end in
  Ok (fst st, snd st, e).

Definition range_legacy (h : heap) (lo hi : bound) : res riter :=
  do r <- resolve_range_bounds_legacy h lo hi;
  let '(st, skip, e) := r in Ok (range_new h st skip e).

Definition range_collect_legacy (h : heap) (lo hi : bound) : res (list (key * V)) :=
  do it <- range_legacy h lo hi; collect_f (range_next h) (total_items_bound h) it.

(* the repair changed nothing for the other two kinds of start bound *)
Lemma resolve_range_bounds_legacy_same : forall h lo hi,
  (forall z, lo <> Excluded z) ->
  resolve_range_bounds_legacy h lo hi = resolve_range_bounds h lo hi.
Proof.
  intros h lo hi Hlo. destruct lo as [z|z|]; try reflexivity.
  exfalso. exact (Hlo z eq_refl).
Qed.

(* ================= D2: borrowed end key, Bound::Included ================= *)
(* pre-repair:   let beyond_end = if let Some(end_key) = self.end_key { key >= end_key } *)
Definition try_get_legacy_endkey (s : iter) (l : leaf) : res (iter * option (key * V)) :=
  if orb (Nat.leb (length (lkeys l)) (it_idx s)) (Nat.leb (length (lvals l)) (it_idx s))
  then Ok (s, None)
  else
    match nth_error (lkeys l) (it_idx s), nth_error (lvals l) (it_idx s) with
    | Some k, Some v =>
        let beyond :=
          match it_end_key s with
          | Some e => Z.leb e (kz k)
          | None =>
              match it_end_bound s with
              | Some e => if it_incl s then Z.ltb e (kz k) else Z.leb e (kz k)
              | None => false
              end
          end in
        if beyond then Ok (it_terminal s, None)
        else Ok (mkIter (it_id s) (it_leaf s) (S (it_idx s)) (it_end_key s)
                        (it_end_bound s) (it_incl s), Some (k, v))
    | _, _ => UB 170
    end.

Fixpoint item_next_f_legacy_endkey (fuel : nat) (h : heap) (s : iter)
  : res (iter * option (key * V)) :=
  match fuel with
  | O => OutOfFuel
  | S f =>
    match it_leaf s with
    | None => Ok (s, None)
    | Some l =>
        do r <- try_get_legacy_endkey s l;
        let '(s1, item) := r in
        match item with
        | Some _ => Ok (s1, item)
        | None =>
            let '(s2, ok) := advance h s1 in
            if ok then item_next_f_legacy_endkey f h s2 else Ok (s2, None)
        end
    end
  end.
Definition item_next_legacy_endkey (h : heap) (s : iter) :=
  item_next_f_legacy_endkey (dfuel h) h s.

Definition from_position_collect_legacy (h : heap) (id : N) (idx : nat) (e : option (Z * bool))
  : res (list (key * V)) :=
  collect_f (item_next_legacy_endkey h) (total_items_bound h) (from_position h id idx e).

(* the repair changed nothing unless a borrowed INCLUSIVE end key is present *)
Lemma try_get_legacy_endkey_same : forall s l,
  it_end_key s = None \/ it_incl s = false ->
  try_get_legacy_endkey s l = try_get s l.
Proof.
  intros s l [H|H]; unfold try_get_legacy_endkey, try_get; rewrite H; reflexivity.
Qed.

(* ================= D10: the occupancy exemption of empty nodes ================= *)
(* pre-repair:   if !leaf.keys_is_empty() && leaf.is_underfull() { if _is_root {} else { return false } }
                 if !branch.keys.is_empty() && branch.is_underfull() { ... } *)
Fixpoint check_node_legacy (fuel : nat) (h : heap) (r : nref) (lo hi : option Z) (is_root : bool)
  : res bool :=
  match fuel with
  | O => OutOfFuel
  | S f =>
    match r with
    | RLeaf id =>
        match get_leaf h id with
        | None => Ok false
        | Some l =>
            let n := length (lkeys l) in
            Ok (andb (Nat.eqb n (length (lvals l)))
               (andb (strictly_asc (lkeys l))
               (andb (Nat.leb n (hcap h))
               (andb (orb (negb (andb (negb (Nat.eqb n 0)) (Nat.ltb n (lcap l / 2)))) is_root)
               (andb (match lo, lkeys l with
                      | Some m, k :: _ => negb (Z.ltb (kz k) m)
                      | _, _ => true end)
                     (match hi, last_opt (lkeys l) with
                      | Some m, Some k => negb (Z.leb m (kz k))
                      | _, _ => true end))))))
        end
    | RBranch id =>
        match get_branch h id with
        | None => Ok false
        | Some b =>
            let n := length (bkeys b) in
            if negb (Nat.eqb (S n) (length (bkids b))) then Ok false else
            if negb (strictly_asc (bkeys b)) then Ok false else
            if Nat.ltb (hcap h) n then Ok false else
            if andb (andb (negb (Nat.eqb n 0)) (Nat.ltb n (bcap b / 2))) (negb is_root)
            then Ok false else
            match bkids b with
            | [] => Ok false
            | _ =>
              all_res (map (fun ic =>
                              let '(lo', hi') := child_bounds (bkeys b) lo hi (fst ic) in
                              check_node_legacy f h (snd ic) lo' hi' false)
                           (combine (seq 0 (length (bkids b))) (bkids b)))
            end
        end
    end
  end.

Definition check_invariants_legacy (h : heap) : res bool :=
  check_node_legacy (dfuel h) h (hroot h) None None true.

Definition check_invariants_detailed_legacy (h : heap) : res (option nat) :=
  do ok <- check_invariants_legacy h;
  if negb ok then Ok (Some E_TREE) else
  do ks <- keys h;
  if negb (strictly_asc ks) then Ok (Some E_UNSORTED) else
  do n <- len h;
  if negb (Nat.eqb (length ks) n) then Ok (Some E_COUNT) else
  do cnt <- count_nodes_in_tree h;
  if negb (Nat.eqb (fst cnt) (a_len (hleaves h))) then Ok (Some E_LEAF_ARENA) else
  if negb (Nat.eqb (snd cnt) (a_len (hbranches h))) then Ok (Some E_BRANCH_ARENA) else
  do tids <- collect_leaf_ids h;
  do fid <- get_first_leaf_id h;
  do cids <- chain_ids (S (S (length (store (hleaves h))))) h fid;
  if negb (list_eqb (sort_ids tids) (sort_ids cids)) then Ok (Some E_CHAIN) else
  Ok None.

(* ================= D11: unchecked accesses reachable from safe code ================= *)
(* (a) ItemIterator: pre-repair guard  `if self.current_leaf_index >= leaf.keys_len()`
       = NoUB.try_get_legacy *)
Fixpoint item_next_f_legacy (fuel : nat) (h : heap) (s : iter) : res (iter * option (key * V)) :=
  match fuel with
  | O => OutOfFuel
  | S f =>
    match it_leaf s with
    | None => Ok (s, None)
    | Some l =>
        do r <- try_get_legacy s l;
        let '(s1, item) := r in
        match item with
        | Some _ => Ok (s1, item)
        | None =>
            let '(s2, ok) := advance h s1 in
            if ok then item_next_f_legacy f h s2 else Ok (s2, None)
        end
    end
  end.
Definition item_next_legacy (h : heap) (s : iter) := item_next_f_legacy (dfuel h) h s.

Definition items_legacy (h : heap) : res (list (key * V)) :=
  do it <- item_new h; collect_f (item_next_legacy h) (total_items_bound h) it.

(* (b) FastItemIterator: pre-repair
       new:   leftmost_id.map(|id| unsafe { tree.get_leaf_unchecked(id) })       (line 379)
       next:  unsafe { Some(self.tree.get_leaf_unchecked(leaf.next)) }           (line 420)
   get_leaf_unchecked = leaf_arena.get_unchecked, "Caller must ensure id is valid and
   allocated"; [a_get_unchecked] is [UB site] exactly when that is false. *)
Definition get_leaf_unchecked (site : nat) (h : heap) (id : N) : res leaf :=
  a_get_unchecked site (hleaves h) id.

Definition fast_new_legacy (h : heap) : res fiter :=
  do fid <- get_first_leaf_id h;
  match fid with
  | Some i => do l <- get_leaf_unchecked 379 h i; Ok (mkFiter fid (Some l) 0 false)
  | None => Ok (mkFiter fid None 0 false)
  end.

Fixpoint fast_next_f_legacy (fuel : nat) (h : heap) (s : fiter) : res (fiter * option (key * V)) :=
  match fuel with
  | O => OutOfFuel
  | S f =>
    if f_fin s then Ok (s, None) else
    match f_leaf s with
    | None => Ok (mkFiter (f_id s) None (f_idx s) true, None)
    | Some l =>
        if Nat.ltb (f_idx s) (length (lkeys l)) then
          match nth_error (lkeys l) (f_idx s), nth_error (lvals l) (f_idx s) with
          | Some k, Some v => Ok (mkFiter (f_id s) (f_leaf s) (S (f_idx s)) false, Some (k, v))
          | _, _ => Ok (s, None)          (* the `?` on get_key / get_value *)
          end
        else if negb (N.eqb (lnext l) NULL) then
          do nl <- get_leaf_unchecked 420 h (lnext l);
          fast_next_f_legacy f h (mkFiter (Some (lnext l)) (Some nl) 0 false)
        else Ok (mkFiter (f_id s) (f_leaf s) (f_idx s) true, None)
    end
  end.
Definition fast_next_legacy (h : heap) (s : fiter) := fast_next_f_legacy (dfuel h) h s.

Definition items_fast_legacy (h : heap) : res (list (key * V)) :=
  do it <- fast_new_legacy h; collect_f (fast_next_legacy h) (total_items_bound h) it.

(* where the precondition of the unchecked access holds, it is the checked access *)
Lemma get_leaf_unchecked_allocated : forall site h id l,
  get_leaf h id = Some l -> get_leaf_unchecked site h id = Ok l.
Proof.
  intros site h id l H. unfold get_leaf, a_get in H.
  unfold get_leaf_unchecked, a_get_unchecked.
  destruct (N.eqb id NULL); [discriminate|].
  destruct (andb _ _); [|discriminate].
  rewrite H. reflexivity.
Qed.

End RustLegacy.

(* ======================= witnesses, on V := Z ======================= *)
Local Open Scope Z_scope.

(* insert (mkKey z id, v) for each triple, into a new map of the given capacity *)
Definition build (c : nat) (l : list (Z * N * Z)) : option (bstate Z) :=
  fold_left (fun ob '(z, id, v) =>
               match ob with
               | Some b => match b_insert b (mkKey z id) v with Ok (b', _) => Some b' | _ => None end
               | None => None
               end) l (b_new Z c).

Definition dummy : bstate Z := mkB 4 (PLeaf 0%N 4 [] [] NULL) (mkMeta [true] []) (mkMeta [] []).
Definition built (c : nat) (l : list (Z * N * Z)) : bstate Z :=
  match build c l with Some b => b | None => dummy end.

Definition tests := 0.
