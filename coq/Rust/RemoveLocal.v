(* Local lemmas for remove: what each of the eight rebalancing cases computes, and
   that the result re-establishes order, shape, contents, chain and id bookkeeping
   of the parent's (keys, children). *)
From Coq Require Import Lia Arith Permutation.
From BPT Require Import Common.Base Common.AMap Rust.Tree Rust.Readers Rust.InvDefs Rust.Lib
  Rust.TreeFactsR.

Section RemoveLocal.
Variable V : Type.
Notation ptree := (ptree V).

Ltac ltb_true H := rewrite (proj2 (Nat.ltb_lt _ _) H).
Ltac ltb_false H := rewrite (proj2 (Nat.ltb_ge _ _) H).

(* ---------------- what the code computes (index form) ---------------- *)

Lemma exec_leaf_borrow_left : forall lm bm ks (cs : list ptree) ci
    lid lcap lks' k lvs' v lnext cid ccap cks cvs cnext,
  0 < ci -> ci - 1 < length ks ->
  nth_error cs ci = Some (PLeaf cid ccap cks cvs cnext) ->
  nth_error cs (ci - 1) = Some (PLeaf lid lcap (lks' ++ [k]) (lvs' ++ [v]) lnext) ->
  lcap / 2 < length (lks' ++ [k]) ->
  rebalance_leaf lm bm ks cs ci =
    Ok (lm, bm, set_nth (ci - 1) k ks,
        set_nth ci (PLeaf cid ccap (k :: cks) (v :: cvs) cnext)
          (set_nth (ci - 1) (PLeaf lid lcap lks' lvs' lnext) cs)).
Proof.
  intros. unfold rebalance_leaf. rewrite H1. ltb_true H. rewrite H2.
  unfold can_donate. cbn [pcap pkeys]. ltb_true H3.
  replace (Nat.eqb (length (lks' ++ [k])) 0) with false
    by (symmetry; apply Nat.eqb_neq; rewrite app_length; simpl; lia).
  cbn [orb negb]. rewrite !vec_pop_app. rewrite vec_set_ok; auto.
  ltb_true H3. reflexivity.
Qed.

Lemma exec_leaf_borrow_right : forall lm bm ks (cs : list ptree) ci
    rid rcap k s rks'' v rvs' rnext cid ccap cks cvs cnext,
  ci < length ks ->
  nth_error cs ci = Some (PLeaf cid ccap cks cvs cnext) ->
  (forall l, 0 < ci -> nth_error cs (ci - 1) = Some l -> can_donate l = false) ->
  nth_error cs (S ci) = Some (PLeaf rid rcap (k :: s :: rks'') (v :: rvs') rnext) ->
  rcap / 2 < length (k :: s :: rks'') ->
  rebalance_leaf lm bm ks cs ci =
    Ok (lm, bm, set_nth ci s ks,
        set_nth ci (PLeaf cid ccap (cks ++ [k]) (cvs ++ [v]) cnext)
          (set_nth (S ci) (PLeaf rid rcap (s :: rks'') rvs' rnext) cs)).
Proof.
  intros *. intros H H1 HL H2 H3.
  assert (LC : match (if Nat.ltb 0 ci then nth_error cs (ci - 1) else None) with
               Some l => can_donate l | None => false end = false).
  { destruct (Nat.ltb 0 ci) eqn:E; auto. apply Nat.ltb_lt in E.
    destruct (nth_error cs (ci - 1)) eqn:E1; auto. }
  assert (HS : S ci < length cs) by (apply nth_error_Some; congruence).
  unfold rebalance_leaf. rewrite H1. rewrite LC. ltb_true HS. rewrite H2.
  unfold can_donate. cbn [pcap pkeys]. ltb_true H3.
  ltb_true H3. change (Nat.eqb (length (k :: s :: rks'')) 0) with false. cbn [orb negb].
  rewrite vec_set_ok; auto.
Qed.

Lemma exec_leaf_merge_left : forall lm bm ks (cs : list ptree) ci sep
    lid lcap lks lvs lnext cid ccap cks cvs cnext,
  0 < ci -> nth_error ks (ci - 1) = Some sep ->
  nth_error cs ci = Some (PLeaf cid ccap cks cvs cnext) ->
  nth_error cs (ci - 1) = Some (PLeaf lid lcap lks lvs lnext) ->
  length lks <= lcap / 2 ->
  (forall r, nth_error cs (S ci) = Some r -> can_donate r = false) ->
  length lks + length cks <= lcap -> length lvs + length cvs <= lcap ->
  rebalance_leaf lm bm ks cs ci =
    Ok (m_dealloc lm cid, bm, remove_at (ci - 1) ks,
        remove_at ci (set_nth (ci - 1) (PLeaf lid lcap (lks ++ cks) (lvs ++ cvs) cnext) cs)).
Proof.
  intros *. intros H Hs H1 H2 H3 HR H4 H5.
  assert (RC : match (if Nat.ltb (S ci) (length cs) then nth_error cs (S ci) else None) with
               Some l => can_donate l | None => false end = false).
  { destruct (Nat.ltb (S ci) (length cs)) eqn:E; auto.
    destruct (nth_error cs (S ci)) eqn:E1; auto. }
  unfold rebalance_leaf. rewrite H1. ltb_true H. rewrite H2. rewrite RC.
  unfold can_donate. cbn [pcap pkeys]. ltb_false H3.
  replace (Nat.ltb lcap (length lks + length cks)) with false by (symmetry; apply Nat.ltb_ge; auto).
  replace (Nat.ltb lcap (length lvs + length cvs)) with false by (symmetry; apply Nat.ltb_ge; auto).
  cbn [orb].
  assert (Hc : ci < length cs) by (apply nth_error_Some; congruence).
  erewrite vec_remove_ok; [|rewrite nth_error_set_nth_other by lia; eauto].
  erewrite vec_remove_ok; eauto.
Qed.

Lemma exec_leaf_merge_right : forall lm bm ks (cs : list ptree) sep
    rid rcap rks rvs rnext cid ccap cks cvs cnext,
  nth_error ks 0 = Some sep ->
  nth_error cs 0 = Some (PLeaf cid ccap cks cvs cnext) ->
  nth_error cs 1 = Some (PLeaf rid rcap rks rvs rnext) ->
  length rks <= rcap / 2 ->
  length cks + length rks <= ccap -> length cvs + length rvs <= ccap ->
  rebalance_leaf lm bm ks cs 0 =
    Ok (m_dealloc lm rid, bm, remove_at 0 ks,
        remove_at 1 (set_nth 0 (PLeaf cid ccap (cks ++ rks) (cvs ++ rvs) rnext) cs)).
Proof.
  intros *. intros Hs H1 H2 H3 H4 H5.
  assert (HS : 1 < length cs) by (apply nth_error_Some; congruence).
  unfold rebalance_leaf. rewrite H1. change (Nat.ltb 0 0) with false. cbv iota. ltb_true HS. rewrite H2.
  unfold can_donate. cbn [pcap pkeys]. ltb_false H3.
  replace (Nat.ltb ccap (length cks + length rks)) with false by (symmetry; apply Nat.ltb_ge; auto).
  replace (Nat.ltb ccap (length cvs + length rvs)) with false by (symmetry; apply Nat.ltb_ge; auto).
  cbn [orb].
  erewrite vec_remove_ok; [|rewrite nth_error_set_nth_other by lia; eauto].
  erewrite vec_remove_ok; eauto.
Qed.

(* the separator reads at the start of rebalance_branch never panic *)
Lemma rsep_total : forall (ks : list key) (cs : list ptree) ci, length cs = S (length ks) ->
  exists rs,
    (match (match (if Nat.ltb (S ci) (length cs) then nth_error cs (S ci) else None) with
            | Some (PBranch _ _ _ _ as r) => Some r | _ => None end) with
     | Some _ => do s <- vec_get 41 ci ks; Ok (Some s)
     | None => Ok None end) = Ok rs /\
    (forall rid rcap rks rcs, nth_error cs (S ci) = Some (PBranch rid rcap rks rcs) ->
       exists s, nth_error ks ci = Some s /\ rs = Some s).
Proof.
  intros ks cs ci L.
  destruct (Nat.ltb (S ci) (length cs)) eqn:E.
  - apply Nat.ltb_lt in E. destruct (nth_error cs (S ci)) as [[|]|] eqn:En.
    + eexists; split; [reflexivity|]. intros; discriminate.
    + destruct (nth_error ks ci) eqn:Ek.
      * unfold vec_get. rewrite Ek. eexists; split; [reflexivity|]. intros. eauto.
      * apply nth_error_None in Ek. lia.
    + eexists; split; [reflexivity|]. intros; discriminate.
  - apply Nat.ltb_ge in E. eexists; split; [reflexivity|]. intros.
    assert (S ci < length cs) by (apply nth_error_Some; congruence). lia.
Qed.

Lemma lsep_total : forall (ks : list key) (cs : list ptree) ci, length cs = S (length ks) -> ci < length cs ->
  exists ls,
    (match (match (if Nat.ltb 0 ci then nth_error cs (ci - 1) else None) with
            | Some (PBranch _ _ _ _ as r) => Some r | _ => None end) with
     | Some _ => do s <- vec_get 40 (ci - 1) ks; Ok (Some s)
     | None => Ok None end) = Ok ls /\
    (forall lid lcap lks lcs, 0 < ci -> nth_error cs (ci - 1) = Some (PBranch lid lcap lks lcs) ->
       exists s, nth_error ks (ci - 1) = Some s /\ ls = Some s).
Proof.
  intros ks cs ci L Hc.
  destruct (Nat.ltb 0 ci) eqn:E.
  - apply Nat.ltb_lt in E. destruct (nth_error cs (ci - 1)) as [[|]|] eqn:En.
    + eexists; split; [reflexivity|]. intros; discriminate.
    + destruct (nth_error ks (ci - 1)) eqn:Ek.
      * unfold vec_get. rewrite Ek. eexists; split; [reflexivity|]. intros. eauto.
      * apply nth_error_None in Ek. lia.
    + eexists; split; [reflexivity|]. intros; discriminate.
  - apply Nat.ltb_ge in E. eexists; split; [reflexivity|]. intros. lia.
Qed.

Lemma exec_branch_borrow_left : forall lm bm ks (cs : list ptree) ci sep
    lid lcap lks' mk lcs' mc cid ccap cks ccs,
  length cs = S (length ks) ->
  0 < ci -> nth_error ks (ci - 1) = Some sep ->
  nth_error cs ci = Some (PBranch cid ccap cks ccs) ->
  nth_error cs (ci - 1) = Some (PBranch lid lcap (lks' ++ [mk]) (lcs' ++ [mc])) ->
  lcap / 2 < length (lks' ++ [mk]) ->
  rebalance_branch lm bm ks cs ci =
    Ok (lm, bm, set_nth (ci - 1) mk ks,
        set_nth ci (PBranch cid ccap (sep :: cks) (mc :: ccs))
          (set_nth (ci - 1) (PBranch lid lcap lks' lcs') cs)).
Proof.
  intros * L H Hs H1 H2 H3.
  assert (Hc : ci < length cs) by (apply nth_error_Some; congruence).
  destruct (@rsep_total ks cs ci L) as [rs [Ers _]].
  destruct (@lsep_total ks cs ci L Hc) as [ls [Els Hls]].
  destruct (Hls _ _ _ _ H H2) as [s [Es ->]]. rewrite Hs in Es. injection Es as <-.
  unfold rebalance_branch. rewrite Els. cbn [bind]. rewrite Ers. cbn [bind].
  rewrite H1. ltb_true H. rewrite H2.
  unfold can_donate. cbn [pcap pkeys]. ltb_true H3.
  replace (Nat.eqb (length (lks' ++ [mk])) 0) with false
    by (symmetry; apply Nat.eqb_neq; rewrite app_length; simpl; lia).
  cbn [orb negb]. rewrite !vec_pop_app. rewrite vec_set_ok; [|apply nth_error_Some; congruence].
  try ltb_true H3. reflexivity.
Qed.

Lemma exec_branch_borrow_right : forall lm bm ks (cs : list ptree) ci sep
    rid rcap mk rks' mc rcs' cid ccap cks ccs,
  length cs = S (length ks) ->
  nth_error ks ci = Some sep ->
  nth_error cs ci = Some (PBranch cid ccap cks ccs) ->
  (forall l, 0 < ci -> nth_error cs (ci - 1) = Some l -> can_donate l = false) ->
  nth_error cs (S ci) = Some (PBranch rid rcap (mk :: rks') (mc :: rcs')) ->
  rcap / 2 < length (mk :: rks') ->
  rebalance_branch lm bm ks cs ci =
    Ok (lm, bm, set_nth ci mk ks,
        set_nth ci (PBranch cid ccap (cks ++ [sep]) (ccs ++ [mc]))
          (set_nth (S ci) (PBranch rid rcap rks' rcs') cs)).
Proof.
  intros * L Hs H1 HL H2 H3.
  assert (Hc : ci < length cs) by (apply nth_error_Some; congruence).
  assert (HS : S ci < length cs) by (apply nth_error_Some; congruence).
  assert (LC : match (if Nat.ltb 0 ci then nth_error cs (ci - 1) else None) with
               Some l => can_donate l | None => false end = false).
  { destruct (Nat.ltb 0 ci) eqn:E; auto. apply Nat.ltb_lt in E.
    destruct (nth_error cs (ci - 1)) eqn:E1; auto. }
  destruct (@rsep_total ks cs ci L) as [rs [Ers Hrs]].
  destruct (@lsep_total ks cs ci L Hc) as [ls [Els _]].
  destruct (Hrs _ _ _ _ H2) as [s [Es ->]]. rewrite Hs in Es. injection Es as <-.
  unfold rebalance_branch. rewrite Els. cbn [bind]. rewrite Ers. cbn [bind].
  rewrite H1. rewrite LC. ltb_true HS. rewrite H2.
  unfold can_donate. cbn [pcap pkeys]. ltb_true H3.
  change (Nat.eqb (length (mk :: rks')) 0) with false. cbn [orb negb].
  rewrite vec_set_ok; [|apply nth_error_Some; congruence].
  try ltb_true H3. reflexivity.
Qed.

Lemma exec_branch_merge_left : forall lm bm ks (cs : list ptree) ci sep
    lid lcap lks lcs cid ccap cks ccs,
  length cs = S (length ks) ->
  0 < ci -> nth_error ks (ci - 1) = Some sep ->
  nth_error cs ci = Some (PBranch cid ccap cks ccs) ->
  nth_error cs (ci - 1) = Some (PBranch lid lcap lks lcs) ->
  length lks <= lcap / 2 ->
  (forall r, nth_error cs (S ci) = Some r -> can_donate r = false) ->
  length lks + 1 + length cks <= lcap -> length lcs + length ccs <= lcap + 1 ->
  rebalance_branch lm bm ks cs ci =
    Ok (lm, m_dealloc bm cid, remove_at (ci - 1) ks,
        remove_at ci (set_nth (ci - 1) (PBranch lid lcap (lks ++ sep :: cks) (lcs ++ ccs)) cs)).
Proof.
  intros * L H Hs H1 H2 H3 HR H4 H5.
  assert (Hc : ci < length cs) by (apply nth_error_Some; congruence).
  assert (RC : match (if Nat.ltb (S ci) (length cs) then nth_error cs (S ci) else None) with
               Some l => can_donate l | None => false end = false).
  { destruct (Nat.ltb (S ci) (length cs)) eqn:E; auto.
    destruct (nth_error cs (S ci)) eqn:E1; auto. }
  destruct (@rsep_total ks cs ci L) as [rs [Ers _]].
  destruct (@lsep_total ks cs ci L Hc) as [ls [Els _]].
  unfold rebalance_branch. rewrite Els. cbn [bind]. rewrite Ers. cbn [bind].
  rewrite H1. ltb_true H. rewrite H2. rewrite RC.
  unfold can_donate. cbn [pcap pkeys]. ltb_false H3. cbv iota.
  rewrite (vec_get_ok _ _ _ Hs). cbn [bind].
  replace (Nat.ltb lcap (length lks + 1 + length cks)) with false by (symmetry; apply Nat.ltb_ge; auto).
  replace (Nat.ltb (lcap + 1) (length lcs + length ccs)) with false by (symmetry; apply Nat.ltb_ge; auto).
  cbn [orb].
  erewrite vec_remove_ok; [|rewrite nth_error_set_nth_other by lia; eauto].
  erewrite vec_remove_ok; eauto.
Qed.

Lemma exec_branch_merge_right : forall lm bm ks (cs : list ptree) sep
    rid rcap rks rcs cid ccap cks ccs,
  length cs = S (length ks) ->
  nth_error ks 0 = Some sep ->
  nth_error cs 0 = Some (PBranch cid ccap cks ccs) ->
  nth_error cs 1 = Some (PBranch rid rcap rks rcs) ->
  length rks <= rcap / 2 ->
  length cks + 1 + length rks <= ccap -> length ccs + length rcs <= ccap + 1 ->
  rebalance_branch lm bm ks cs 0 =
    Ok (lm, m_dealloc bm rid, remove_at 0 ks,
        remove_at 1 (set_nth 0 (PBranch cid ccap (cks ++ sep :: rks) (ccs ++ rcs)) cs)).
Proof.
  intros * L Hs H1 H2 H3 H4 H5.
  assert (Hc : 0 < length cs) by (apply nth_error_Some; congruence).
  assert (HS : 1 < length cs) by (apply nth_error_Some; congruence).
  destruct (@rsep_total ks cs 0 L) as [rs [Ers Hrs]].
  destruct (@lsep_total ks cs 0 L Hc) as [ls [Els _]].
  destruct (Hrs _ _ _ _ H2) as [s [Es ->]]. rewrite Hs in Es. injection Es as <-.
  unfold rebalance_branch. rewrite Els. cbn [bind]. rewrite Ers. cbn [bind].
  rewrite H1. change (Nat.ltb 0 0) with false. cbv iota. ltb_true HS. rewrite H2.
  unfold can_donate. cbn [pcap pkeys]. ltb_false H3. cbv iota.
  rewrite (vec_get_ok _ _ _ Hs). cbn [bind].
  replace (Nat.ltb ccap (length cks + 1 + length rks)) with false by (symmetry; apply Nat.ltb_ge; auto).
  replace (Nat.ltb (ccap + 1) (length ccs + length rcs)) with false by (symmetry; apply Nat.ltb_ge; auto).
  cbn [orb].
  erewrite vec_remove_ok; [|rewrite nth_error_set_nth_other by lia; eauto].
  erewrite vec_remove_ok; eauto.
Qed.

(* ---------------- order for a pair of adjacent children ---------------- *)
Open Scope Z_scope.

Lemma sorted_keys_snoc : forall l k, sorted_keys (l ++ [k]) <->
  sorted_keys l /\ (forall a, In a l -> kz a < kz k).
Proof.
  intros. rewrite sorted_keys_app. split.
  - intros (A & _ & C). split; auto. intros; apply C; simpl; auto.
  - intros (A & C). split; [auto|split].
    + unfold sorted_keys. simpl. tauto.
    + intros a b Ia [<-|[]]. auto.
Qed.

Lemma pair_leaf_borrow_left : forall a ub sep xid c xks' k (xvs' : list V) v xnx yid yks yvs ynx c',
  ord a (Some (kz sep)) (PLeaf xid c (xks' ++ [k]) (xvs' ++ [v]) xnx) ->
  ord (Some (kz sep)) ub (PLeaf yid c' yks yvs ynx) ->
  hi_ok ub (kz sep) -> xks' <> [] ->
  ord a (Some (kz k)) (PLeaf xid c xks' xvs' xnx) /\
  ord (Some (kz k)) ub (PLeaf yid c' (k :: yks) (v :: yvs) ynx) /\
  gt_lo a (kz k) /\ hi_ok ub (kz k).
Proof.
  intros * Ox Oy Hs Ne.
  apply ord_leaf_inv in Ox. destruct Ox as [Sx Fx].
  apply ord_leaf_inv in Oy. destruct Oy as [Sy Fy].
  apply sorted_keys_snoc in Sx. destruct Sx as [Sx Lx].
  apply Forall_app in Fx. destruct Fx as [Fx Fk]. inversion Fk as [|? ? [Bk1 Bk2] _]; subst.
  rewrite Forall_forall in Fx, Fy. simpl in Bk2.
  assert (Hk : hi_ok ub (kz k)) by (eapply hi_ok_le; eauto; lia).
  repeat split; auto.
  - constructor; auto. apply Forall_forall. intros e Ie. split; [apply Fx; auto|simpl; auto].
  - constructor.
    + apply sorted_keys_cons. split; auto. intros b Ib. destruct (Fy b Ib) as [B _]. simpl in B. lia.
    + constructor.
      * split; simpl; auto. lia.
      * apply Forall_forall. intros b Ib. destruct (Fy b Ib) as [B B']. split; auto. simpl in *. lia.
  - destruct xks' as [|e r]; [congruence|].
    eapply lo_ok_lt_gt; [apply (Fx e); left; auto|apply Lx; left; auto].
Qed.

Lemma pair_leaf_borrow_right : forall a ub sep xid c xks (xvs : list V) xnx yid c' k s yks v yvs ynx,
  ord a (Some (kz sep)) (PLeaf xid c xks xvs xnx) ->
  ord (Some (kz sep)) ub (PLeaf yid c' (k :: s :: yks) (v :: yvs) ynx) ->
  lo_ok a (kz sep) ->
  ord a (Some (kz s)) (PLeaf xid c (xks ++ [k]) (xvs ++ [v]) xnx) /\
  ord (Some (kz s)) ub (PLeaf yid c' (s :: yks) yvs ynx) /\
  gt_lo a (kz s) /\ hi_ok ub (kz s).
Proof.
  intros * Ox Oy Hs.
  apply ord_leaf_inv in Ox. destruct Ox as [Sx Fx].
  apply ord_leaf_inv in Oy. destruct Oy as [Sy Fy].
  apply sorted_keys_cons in Sy. destruct Sy as [Sy Lk].
  pose proof Sy as Sy'. apply sorted_keys_cons in Sy'. destruct Sy' as [_ Ls].
  inversion Fy as [|? ? [Bk1 Bk2] Fy']; subst. inversion Fy' as [|? ? [Bs1 Bs2] Fy'']; subst.
  rewrite Forall_forall in Fx, Fy''. simpl in Bk1, Bs1.
  assert (Hks : kz k < kz s) by (apply Lk; left; auto).
  repeat split; auto.
  - constructor.
    + apply sorted_keys_snoc. split; auto. intros e Ie. destruct (Fx e Ie) as [_ B]. simpl in B. lia.
    + apply Forall_app. split.
      * apply Forall_forall. intros e Ie. destruct (Fx e Ie) as [B B']. split; auto. simpl in *. lia.
      * constructor; auto. split; simpl; auto. eapply lo_ok_le; eauto.
  - constructor; auto. constructor.
    + split; simpl; auto. lia.
    + apply Forall_forall. intros b Ib. destruct (Fy'' b Ib) as [_ B']. split; auto. simpl.
      specialize (Ls b Ib). lia.
  - eapply lo_ok_lt_gt; eauto. lia.
Qed.

Lemma pair_leaf_merge : forall a ub sep xid c xks (xvs : list V) xnx yid c' yks yvs ynx,
  ord a (Some (kz sep)) (PLeaf xid c xks xvs xnx) ->
  ord (Some (kz sep)) ub (PLeaf yid c' yks yvs ynx) ->
  lo_ok a (kz sep) -> hi_ok ub (kz sep) ->
  ord a ub (PLeaf xid c (xks ++ yks) (xvs ++ yvs) ynx).
Proof.
  intros * Ox Oy Hl Hh.
  apply ord_leaf_inv in Ox. destruct Ox as [Sx Fx].
  apply ord_leaf_inv in Oy. destruct Oy as [Sy Fy].
  rewrite Forall_forall in Fx, Fy.
  constructor.
  - apply sorted_keys_app. repeat split; auto. intros e b Ie Ib.
    destruct (Fx e Ie) as [_ B]. destruct (Fy b Ib) as [B' _]. simpl in *. lia.
  - apply Forall_app. split; apply Forall_forall.
    + intros e Ie. destruct (Fx e Ie) as [B B']. split; auto. simpl in B'. eapply hi_ok_le; eauto. lia.
    + intros b Ib. destruct (Fy b Ib) as [B B']. split; auto. simpl in B. eapply lo_ok_le; eauto.
Qed.

Lemma sep_lt_keys : forall c h s ub yks (ycs : list ptree), (4 <= c)%nat ->
  ords (Some s) ub yks ycs -> Forall (shape c false h) ycs -> sorted_keys yks ->
  forall k, In k yks -> s < kz k.
Proof.
  intros * C O F S k I. destruct yks as [|k0 yks]; [destruct I|].
  destruct ycs as [|c0 ycs]; [simpl in O; tauto|].
  apply ords_cons_inv in O. simpl in O. inversion F; subst.
  pose proof (ord_strict C H1 O) as L.
  destruct I as [<-|I]; auto.
  apply sorted_keys_cons in S. destruct S as [_ S]. specialize (S k I). lia.
Qed.

Lemma pair_branch_borrow_left : forall c0 h a ub sep xid c xks' mk (xcs' : list ptree) mc yid c' yks ycs,
  (4 <= c0)%nat ->
  ord a (Some (kz sep)) (PBranch xid c (xks' ++ [mk]) (xcs' ++ [mc])) ->
  length (xcs' ++ [mc]) = S (length (xks' ++ [mk])) ->
  ord (Some (kz sep)) ub (PBranch yid c' yks ycs) -> length ycs = S (length yks) ->
  Forall (shape c0 false h) ycs ->
  hi_ok ub (kz sep) -> xks' <> [] ->
  ord a (Some (kz mk)) (PBranch xid c xks' xcs') /\
  ord (Some (kz mk)) ub (PBranch yid c' (sep :: yks) (mc :: ycs)) /\
  gt_lo a (kz mk) /\ hi_ok ub (kz mk).
Proof.
  intros * C Ox Lx Oy Ly Fs Hs Ne.
  apply ord_branch_inv in Ox; auto. destruct Ox as (Sx & Fx & Cx).
  apply ord_branch_inv in Oy; auto. destruct Oy as (Sy & Fy & Cy).
  apply sorted_keys_snoc in Sx. destruct Sx as [Sx Lk].
  apply Forall_app in Fx. destruct Fx as [Fx Fk]. inversion Fk as [|? ? [Bk1 Bk2] _]; subst.
  apply ords_snoc in Cx. destruct Cx as [Cx Cm].
  pose proof (sep_lt_keys _ _ _ _ _ _ C Cy Fs Sy) as Lsep.
  rewrite Forall_forall in Fx, Fy. simpl in Bk2.
  assert (Hk : hi_ok ub (kz mk)) by (eapply hi_ok_le; eauto; lia).
  repeat split; auto.
  - apply ord_branch_intro; auto.
    apply Forall_forall. intros e Ie. split; [apply Fx; auto|simpl; auto].
  - apply ord_branch_intro.
    + apply sorted_keys_cons. split; auto.
    + constructor.
      * split; simpl; auto. lia.
      * apply Forall_forall. intros b Ib. destruct (Fy b Ib) as [B B']. split; auto. simpl in *. lia.
    + simpl. split; auto.
  - destruct xks' as [|e r]; [congruence|].
    eapply lo_ok_lt_gt; [apply (Fx e); left; auto|apply Lk; left; auto].
Qed.

Lemma pair_branch_borrow_right : forall c0 h a ub sep xid c xks (xcs : list ptree) yid c' mk yks' mc ycs',
  (4 <= c0)%nat ->
  ord a (Some (kz sep)) (PBranch xid c xks xcs) -> length xcs = S (length xks) ->
  ord (Some (kz sep)) ub (PBranch yid c' (mk :: yks') (mc :: ycs')) ->
  length (mc :: ycs') = S (length (mk :: yks')) ->
  shape c0 false h mc ->
  lo_ok a (kz sep) ->
  ord a (Some (kz mk)) (PBranch xid c (xks ++ [sep]) (xcs ++ [mc])) /\
  ord (Some (kz mk)) ub (PBranch yid c' yks' ycs') /\
  gt_lo a (kz mk) /\ hi_ok ub (kz mk).
Proof.
  intros * C Ox Lx Oy Ly Sm Hs.
  apply ord_branch_inv in Ox; auto. destruct Ox as (Sx & Fx & Cx).
  apply ord_branch_inv in Oy; auto. destruct Oy as (Sy & Fy & Cy).
  apply sorted_keys_cons in Sy. destruct Sy as [Sy Lk].
  inversion Fy as [|? ? [Bk1 Bk2] Fy']; subst.
  simpl in Cy. destruct Cy as [Cm Cy].
  pose proof (ord_strict C Sm Cm) as Lsm.
  rewrite Forall_forall in Fx, Fy'.
  repeat split; auto.
  - apply ord_branch_intro.
    + apply sorted_keys_snoc. split; auto. intros e Ie. destruct (Fx e Ie) as [_ B]. simpl in B. auto.
    + apply Forall_app. split.
      * apply Forall_forall. intros e Ie. destruct (Fx e Ie) as [B B']. split; auto. simpl in *. lia.
      * constructor; auto. split; simpl; auto.
    + apply ords_snoc. split; auto.
  - apply ord_branch_intro; auto.
    apply Forall_forall. intros b Ib. destruct (Fy' b Ib) as [_ B']. split; auto. simpl.
    specialize (Lk b Ib). lia.
  - eapply lo_ok_lt_gt; eauto.
Qed.

Lemma pair_branch_merge : forall c0 h a ub sep xid c xks (xcs : list ptree) yid c' yks ycs,
  (4 <= c0)%nat ->
  ord a (Some (kz sep)) (PBranch xid c xks xcs) -> length xcs = S (length xks) ->
  ord (Some (kz sep)) ub (PBranch yid c' yks ycs) -> length ycs = S (length yks) ->
  Forall (shape c0 false h) ycs ->
  lo_ok a (kz sep) -> hi_ok ub (kz sep) ->
  ord a ub (PBranch xid c (xks ++ sep :: yks) (xcs ++ ycs)).
Proof.
  intros * C Ox Lx Oy Ly Fs Hl Hh.
  apply ord_branch_inv in Ox; auto. destruct Ox as (Sx & Fx & Cx).
  apply ord_branch_inv in Oy; auto. destruct Oy as (Sy & Fy & Cy).
  pose proof (sep_lt_keys _ _ _ _ _ _ C Cy Fs Sy) as Lsep.
  rewrite Forall_forall in Fx, Fy.
  apply ord_branch_intro.
  - apply sorted_keys_app. split; [auto|split].
    + apply sorted_keys_cons. split; auto.
    + intros e b Ie Ib. destruct (Fx e Ie) as [_ B]. simpl in B.
      destruct Ib as [<-|Ib]; auto. specialize (Lsep b Ib). lia.
  - apply Forall_app. split; [|constructor]; try apply Forall_forall.
    + intros e Ie. destruct (Fx e Ie) as [B B']. split; auto. simpl in B'. eapply hi_ok_le; eauto. lia.
    + split; auto.
    + intros b Ib. destruct (Fy b Ib) as [B B']. split; auto. simpl in B. eapply lo_ok_le; eauto.
  - eapply ords_join; eauto.
Qed.

(* ---------------- lifting a repaired pair to the parent ---------------- *)
Definition body (c : nat) (lo hi : option Z) (h : nat) (ks : list key) (cs : list ptree) : Prop :=
  sorted_keys ks /\ Forall (in_bounds lo hi) ks /\ ords lo hi ks cs /\ Forall (shape c false h) cs.

Lemma zip_sep_bounds : forall lo hi ks1 sep ks2,
  sorted_keys (ks1 ++ sep :: ks2) -> Forall (in_bounds lo hi) (ks1 ++ sep :: ks2) ->
  lo_ok (lastb lo ks1) (kz sep) /\ hi_ok (firstb hi ks2) (kz sep).
Proof.
  intros * S F. apply sorted_keys_app in S. destruct S as (S1 & S2 & S3).
  apply Forall_app in F. destruct F as [F1 F2]. inversion F2 as [|? ? [B1 B2] F3]; subst.
  split.
  - destruct (snoc_cases ks1) as [->|(l & k & ->)]; simpl; auto.
    rewrite lastb_snoc. simpl. assert (kz k < kz sep); [|lia].
    apply S3; [apply in_or_app; right; left; auto|left; auto].
  - destruct ks2 as [|k2 r]; simpl; auto.
    apply sorted_keys_cons in S2. destruct S2 as [_ S2]. apply S2. left; auto.
Qed.

Lemma lift_keys_borrow : forall lo hi ks1 sep sep' ks2,
  sorted_keys (ks1 ++ sep :: ks2) -> Forall (in_bounds lo hi) (ks1 ++ sep :: ks2) ->
  gt_lo (lastb lo ks1) (kz sep') -> hi_ok (firstb hi ks2) (kz sep') ->
  sorted_keys (ks1 ++ sep' :: ks2) /\ Forall (in_bounds lo hi) (ks1 ++ sep' :: ks2).
Proof.
  intros * S F G H. apply sorted_keys_app in S. destruct S as (S1 & S2 & S3).
  apply Forall_app in F. destruct F as [F1 F2]. inversion F2 as [|? ? [B1 B2] F3]; subst.
  apply sorted_keys_cons in S2. destruct S2 as [S2 S2'].
  assert (L2 : forall b, In b ks2 -> kz sep' < kz b).
  { intros b Ib. destruct ks2 as [|k2 r]; [destruct Ib|]. simpl in H.
    destruct Ib as [<-|Ib]; auto. apply sorted_keys_cons in S2. destruct S2 as [_ S2].
    specialize (S2 b Ib). lia. }
  assert (L1 : forall e, In e ks1 -> kz e < kz sep').
  { intros e Ie. destruct (snoc_cases ks1) as [->|(l & k & ->)]; [destruct Ie|].
    rewrite lastb_snoc in G. simpl in G.
    apply in_app_or in Ie. destruct Ie as [Ie|[<-|[]]]; auto.
    apply sorted_keys_snoc in S1. destruct S1 as [_ S1]. specialize (S1 e Ie). lia. }
  split.
  - apply sorted_keys_app. split; [auto|split].
    + apply sorted_keys_cons. split; auto.
    + intros e b Ie [<-|Ib]; auto. apply S3; auto. right; auto.
  - apply Forall_app. split; auto. constructor; auto. split.
    + destruct (snoc_cases ks1) as [->|(l & k & ->)].
      * simpl in G. apply gt_lo_lo_ok; auto.
      * rewrite lastb_snoc in G. simpl in G. rewrite Forall_forall in F1.
        destruct (F1 k) as [B _]; [apply in_or_app; right; left; auto|].
        eapply lo_ok_le; eauto. lia.
    + destruct ks2 as [|k2 r]; simpl in H; auto.
      inversion F3 as [|? ? [_ B] _]; subst. eapply hi_ok_le; eauto. lia.
Qed.

Lemma lift_keys_merge : forall lo hi ks1 (sep : key) ks2,
  sorted_keys (ks1 ++ sep :: ks2) -> Forall (in_bounds lo hi) (ks1 ++ sep :: ks2) ->
  sorted_keys (ks1 ++ ks2) /\ Forall (in_bounds lo hi) (ks1 ++ ks2).
Proof.
  intros * S F. apply sorted_keys_app in S. destruct S as (S1 & S2 & S3).
  apply Forall_app in F. destruct F as [F1 F2]. inversion F2; subst.
  apply sorted_keys_cons in S2. destruct S2 as [S2 _].
  split.
  - apply sorted_keys_app. split; [auto|split]; auto. intros. apply S3; auto. right; auto.
  - apply Forall_app; auto.
Qed.
Close Scope Z_scope.

Lemma flat_map_zip2 : forall (B : Type) (f : ptree -> list B) cs1 x y cs2,
  flat_map f (cs1 ++ x :: y :: cs2) = flat_map f cs1 ++ (f x ++ f y) ++ flat_map f cs2.
Proof. intros. rewrite flat_map_app. simpl. rewrite <- app_assoc. reflexivity. Qed.

Lemma flat_map_zip1 : forall (B : Type) (f : ptree -> list B) cs1 m cs2,
  flat_map f (cs1 ++ m :: cs2) = flat_map f cs1 ++ f m ++ flat_map f cs2.
Proof. intros. rewrite flat_map_app. reflexivity. Qed.

Lemma links_ctx : forall (X M A B : list (N * N)),
  (forall pre post after, links_ok (pre ++ X ++ post) after -> links_ok (pre ++ M ++ post) after) ->
  forall pre post after, links_ok (pre ++ (A ++ X ++ B) ++ post) after ->
    links_ok (pre ++ (A ++ M ++ B) ++ post) after.
Proof.
  intros X M A B H pre post after L.
  replace (pre ++ (A ++ M ++ B) ++ post) with ((pre ++ A) ++ M ++ (B ++ post))
    by (repeat rewrite <- app_assoc; reflexivity).
  apply H. repeat rewrite <- app_assoc in *. exact L.
Qed.

Lemma perm_ctx : forall (X M A B d : list N),
  Permutation X (d ++ M) -> Permutation (A ++ X ++ B) (d ++ A ++ M ++ B).
Proof.
  intros. eapply Permutation_trans.
  - apply Permutation_app_head. apply Permutation_app_tail. exact H.
  - rewrite <- app_assoc. apply Permutation_app_swap_app.
Qed.

Lemma zip_ctx : forall lo hi ks1 sep ks2 (cs1 : list ptree) x y cs2,
  length cs1 = length ks1 ->
  ords lo hi (ks1 ++ sep :: ks2) (cs1 ++ x :: y :: cs2) ->
  ordp lo ks1 cs1 /\ ord (lastb lo ks1) (Some (kz sep)) x /\
  ords (Some (kz sep)) hi ks2 (y :: cs2) /\ ord (Some (kz sep)) (firstb hi ks2) y.
Proof.
  intros * L O. apply ords_app in O; auto. destruct O as [O1 O2]. simpl in O2.
  destruct O2 as [O2 O3]. repeat split; auto. eapply ords_cons_inv; eauto.
Qed.

Lemma lift_borrow_body : forall c lo hi h ks1 sep ks2 (cs1 : list ptree) x y cs2 sep' x' y',
  length cs1 = length ks1 ->
  sorted_keys (ks1 ++ sep :: ks2) -> Forall (in_bounds lo hi) (ks1 ++ sep :: ks2) ->
  ords lo hi (ks1 ++ sep :: ks2) (cs1 ++ x :: y :: cs2) ->
  Forall (shape c false h) cs1 -> Forall (shape c false h) cs2 ->
  ord (lastb lo ks1) (Some (kz sep')) x' -> ord (Some (kz sep')) (firstb hi ks2) y' ->
  gt_lo (lastb lo ks1) (kz sep') -> hi_ok (firstb hi ks2) (kz sep') ->
  shape c false h x' -> shape c false h y' ->
  body c lo hi h (ks1 ++ sep' :: ks2) (cs1 ++ x' :: y' :: cs2).
Proof.
  intros * L S F O F1 F2 Ox Oy G H Sx Sy.
  destruct (zip_ctx _ _ _ _ _ _ _ _ _ L O) as (O1 & _ & O3 & _).
  destruct (lift_keys_borrow _ _ _ _ _ _ S F G H) as [S' F'].
  split; [auto|split; [auto|split]].
  - apply ords_app; auto. split; auto. simpl. split; auto.
    eapply ords_cons_change; eauto.
  - apply Forall_app. split; auto.
Qed.

Lemma lift_merge_body : forall c lo hi h ks1 sep ks2 (cs1 : list ptree) x y cs2 m,
  length cs1 = length ks1 ->
  sorted_keys (ks1 ++ sep :: ks2) -> Forall (in_bounds lo hi) (ks1 ++ sep :: ks2) ->
  ords lo hi (ks1 ++ sep :: ks2) (cs1 ++ x :: y :: cs2) ->
  Forall (shape c false h) cs1 -> Forall (shape c false h) cs2 ->
  ord (lastb lo ks1) (firstb hi ks2) m -> shape c false h m ->
  body c lo hi h (ks1 ++ ks2) (cs1 ++ m :: cs2).
Proof.
  intros * L S F O F1 F2 Om Sm.
  destruct (zip_ctx _ _ _ _ _ _ _ _ _ L O) as (O1 & _ & O3 & _).
  destruct (lift_keys_merge _ _ _ _ _ S F) as [S' F'].
  split; [auto|split; [auto|split]].
  - apply ords_app; auto. split; auto. eapply ords_cons_change; eauto.
  - apply Forall_app. split; auto.
Qed.

(* ---------------- the eight cases on a zipper ---------------- *)
Notation CT := (flat_map (@contents V)).
Notation LL := (flat_map (@leaf_links V)).
Notation BI := (flat_map (@branch_ids V)).

Definition rb_post (c : nat) (lo hi : option Z) (h : nat) (ks : list key) (cs : list ptree)
    (dl db : list N) (ks' : list key) (cs' : list ptree) : Prop :=
  body c lo hi h ks' cs' /\
  (length ks' = length ks \/ S (length ks') = length ks) /\
  CT cs' = CT cs /\
  (forall pre post after, links_ok (pre ++ LL cs ++ post) after -> links_ok (pre ++ LL cs' ++ post) after) /\
  Permutation (map fst (LL cs)) (dl ++ map fst (LL cs')) /\
  Permutation (BI cs) (db ++ BI cs').

Section ZipP.
Variable A : Type.
Lemma nth_error_zip0' : forall n (l1 : list A) x l2, n = length l1 -> nth_error (l1 ++ x :: l2) n = Some x.
Proof. intros; subst; apply nth_error_zip0. Qed.
Lemma nth_error_zip1' : forall n (l1 : list A) x y l2, n = length l1 -> nth_error (l1 ++ x :: y :: l2) (S n) = Some y.
Proof. intros; subst; apply nth_error_zip1. Qed.
Lemma set_nth_zip0' : forall n (l1 : list A) x z l2, n = length l1 -> set_nth n z (l1 ++ x :: l2) = l1 ++ z :: l2.
Proof. intros; subst; apply set_nth_zip0. Qed.
Lemma set_nth_zip1' : forall n (l1 : list A) x y z l2, n = length l1 -> set_nth (S n) z (l1 ++ x :: y :: l2) = l1 ++ x :: z :: l2.
Proof. intros; subst; apply set_nth_zip1. Qed.
Lemma remove_at_zip0' : forall n (l1 : list A) x l2, n = length l1 -> remove_at n (l1 ++ x :: l2) = l1 ++ l2.
Proof. intros; subst; apply remove_at_zip0. Qed.
Lemma remove_at_zip1' : forall n (l1 : list A) x y l2, n = length l1 -> remove_at (S n) (l1 ++ x :: y :: l2) = l1 ++ x :: l2.
Proof. intros; subst; apply remove_at_zip1. Qed.
End ZipP.

Lemma combine_snoc : forall (ks : list key) (vs : list V) k v, length vs = length ks ->
  combine (ks ++ [k]) (vs ++ [v]) = combine ks vs ++ [(k, v)].
Proof. intros. rewrite combine_app; auto. Qed.

Lemma same_links_post : forall (cs cs' : list ptree),
  LL cs' = LL cs ->
  (forall pre post after, links_ok (pre ++ LL cs ++ post) after -> links_ok (pre ++ LL cs' ++ post) after) /\
  Permutation (map fst (LL cs)) ([] ++ map fst (LL cs')).
Proof. intros cs cs' E. rewrite E. split; auto. Qed.

Lemma case_leaf_borrow_left : forall c lo hi ks1 sep ks2 cs1 cs2 lm bm xid xks xvs xnx yid yks yvs ynx,
  4 <= c -> length cs1 = length ks1 ->
  sorted_keys (ks1 ++ sep :: ks2) -> Forall (in_bounds lo hi) (ks1 ++ sep :: ks2) ->
  ords lo hi (ks1 ++ sep :: ks2) (cs1 ++ PLeaf xid c xks xvs xnx :: PLeaf yid c yks yvs ynx :: cs2) ->
  Forall (shape c false 0) cs1 -> Forall (shape c false 0) cs2 ->
  length xvs = length xks -> c / 2 < length xks -> length xks <= c ->
  length yvs = length yks -> S (length yks) = c / 2 ->
  exists ks' cs',
    rebalance_leaf lm bm (ks1 ++ sep :: ks2)
      (cs1 ++ PLeaf xid c xks xvs xnx :: PLeaf yid c yks yvs ynx :: cs2) (S (length cs1))
    = Ok (lm, bm, ks', cs') /\
    rb_post c lo hi 0 (ks1 ++ sep :: ks2)
      (cs1 ++ PLeaf xid c xks xvs xnx :: PLeaf yid c yks yvs ynx :: cs2) [] [] ks' cs'.
Proof.
  intros * C L Sk F O F1 F2 Lxv Lx1 Lx2 Lyv Ly.
  destruct (snoc_cases xks) as [->|(xks' & k & ->)]; [cbn [length] in Lx1; lia|].
  destruct (snoc_cases xvs) as [->|(xvs' & v & ->)];
    [rewrite app_length in Lxv; cbn [length] in Lxv; lia|].
  assert (Lxv' : length xvs' = length xks') by (rewrite !app_length in Lxv; cbn [length] in Lxv; lia).
  assert (Lx' : c / 2 <= length xks') by (rewrite app_length in Lx1; cbn [length] in Lx1; lia).
  eexists. eexists. split.
  - erewrite exec_leaf_borrow_left with (ci := S (length cs1)); try lia.
    + replace (S (length cs1) - 1) with (length cs1) by lia.
      rewrite (set_nth_zip0' _ _ _ _ _ _ L).
      rewrite (set_nth_zip0' _ _ _ _ _ _ eq_refl).
      rewrite (set_nth_zip1' _ _ _ _ _ _ _ eq_refl). reflexivity.
    + rewrite app_length. simpl. lia.
    + apply nth_error_zip1.
    + replace (S (length cs1) - 1) with (length cs1) by lia. apply nth_error_zip0.
    + auto.
  - destruct (zip_ctx _ _ _ _ _ _ _ _ _ L O) as (_ & Ox & _ & Oy).
    destruct (zip_sep_bounds _ _ _ _ _ Sk F) as [Bl Bh].
    assert (Ne : xks' <> []) by (intro; subst; hlia c).
    destruct (pair_leaf_borrow_left _ _ _ _ _ _ _ _ v _ _ _ _ _ _ Ox Oy Bh Ne) as (Ox' & Oy' & G & H).
    split; [|split; [|split; [|split; [|split]]]].
    + eapply lift_borrow_body; eauto.
      * constructor; auto. rewrite app_length in Lx2; cbn [length] in Lx2; lia.
      * constructor; cbn [length]; [lia | hlia c | intros _; hlia c].
    + left. rewrite !app_length. reflexivity.
    + rewrite !flat_map_zip2. simpl. rewrite combine_snoc; auto. repeat rewrite <- app_assoc. simpl. reflexivity.
    + apply same_links_post. rewrite !flat_map_zip2. reflexivity.
    + apply same_links_post. rewrite !flat_map_zip2. reflexivity.
    + rewrite !flat_map_zip2. simpl. apply Permutation_refl.
Qed.

Lemma case_leaf_borrow_right : forall c lo hi ks1 sep ks2 cs1 cs2 lm bm xid xks xvs xnx yid yks yvs ynx,
  4 <= c -> length cs1 = length ks1 ->
  sorted_keys (ks1 ++ sep :: ks2) -> Forall (in_bounds lo hi) (ks1 ++ sep :: ks2) ->
  ords lo hi (ks1 ++ sep :: ks2) (cs1 ++ PLeaf xid c xks xvs xnx :: PLeaf yid c yks yvs ynx :: cs2) ->
  Forall (shape c false 0) cs1 -> Forall (shape c false 0) cs2 ->
  length xvs = length xks -> S (length xks) = c / 2 ->
  length yvs = length yks -> c / 2 < length yks -> length yks <= c ->
  (forall l, 0 < length cs1 ->
     nth_error (cs1 ++ PLeaf xid c xks xvs xnx :: PLeaf yid c yks yvs ynx :: cs2) (length cs1 - 1) = Some l ->
     can_donate l = false) ->
  exists ks' cs',
    rebalance_leaf lm bm (ks1 ++ sep :: ks2)
      (cs1 ++ PLeaf xid c xks xvs xnx :: PLeaf yid c yks yvs ynx :: cs2) (length cs1)
    = Ok (lm, bm, ks', cs') /\
    rb_post c lo hi 0 (ks1 ++ sep :: ks2)
      (cs1 ++ PLeaf xid c xks xvs xnx :: PLeaf yid c yks yvs ynx :: cs2) [] [] ks' cs'.
Proof.
  intros * C L Sk F O F1 F2 Lxv Lx Lyv Ly1 Ly2 HL.
  destruct yks as [|k [|s yks'']]; try (cbn [length] in Ly1; hlia c).
  destruct yvs as [|v yvs']; [discriminate|].
  eexists. eexists. split.
  - erewrite exec_leaf_borrow_right with (ci := length cs1).
    + rewrite (set_nth_zip0' _ _ _ _ _ _ L).
      rewrite (set_nth_zip1' _ _ _ _ _ _ _ eq_refl).
      rewrite (set_nth_zip0' _ _ _ _ _ _ eq_refl). reflexivity.
    + rewrite app_length. simpl. lia.
    + apply nth_error_zip0.
    + exact HL.
    + apply nth_error_zip1.
    + auto.
  - destruct (zip_ctx _ _ _ _ _ _ _ _ _ L O) as (_ & Ox & _ & Oy).
    destruct (zip_sep_bounds _ _ _ _ _ Sk F) as [Bl Bh].
    destruct (pair_leaf_borrow_right _ _ _ _ _ _ _ _ _ _ _ _ _ _ _ _ Ox Oy Bl) as (Ox' & Oy' & G & H).
    split; [|split; [|split; [|split; [|split]]]].
    + eapply lift_borrow_body; eauto.
      * constructor; rewrite ?app_length; cbn [length]; [lia | hlia c | intros _; hlia c].
      * constructor; cbn [length] in *; [lia | lia | intros _; lia].
    + left. rewrite !app_length. reflexivity.
    + rewrite !flat_map_zip2. simpl. rewrite combine_snoc; auto. repeat rewrite <- app_assoc. simpl. reflexivity.
    + apply same_links_post. rewrite !flat_map_zip2. reflexivity.
    + apply same_links_post. rewrite !flat_map_zip2. reflexivity.
    + rewrite !flat_map_zip2. simpl. apply Permutation_refl.
Qed.

Lemma leaf_merge_post : forall c lo hi ks1 sep ks2 cs1 cs2 xid xks xvs xnx yid yks yvs ynx,
  4 <= c -> length cs1 = length ks1 ->
  sorted_keys (ks1 ++ sep :: ks2) -> Forall (in_bounds lo hi) (ks1 ++ sep :: ks2) ->
  ords lo hi (ks1 ++ sep :: ks2) (cs1 ++ PLeaf xid c xks xvs xnx :: PLeaf yid c yks yvs ynx :: cs2) ->
  Forall (shape c false 0) cs1 -> Forall (shape c false 0) cs2 ->
  length xvs = length xks -> length yvs = length yks ->
  S (length xks + length yks) = 2 * (c / 2) ->
  rb_post c lo hi 0 (ks1 ++ sep :: ks2)
    (cs1 ++ PLeaf xid c xks xvs xnx :: PLeaf yid c yks yvs ynx :: cs2) [yid] []
    (ks1 ++ ks2) (cs1 ++ PLeaf xid c (xks ++ yks) (xvs ++ yvs) ynx :: cs2).
Proof.
  intros * C L Sk F O F1 F2 Lxv Lyv Lsum.
  destruct (zip_ctx _ _ _ _ _ _ _ _ _ L O) as (_ & Ox & _ & Oy).
  destruct (zip_sep_bounds _ _ _ _ _ Sk F) as [Bl Bh].
  pose proof (pair_leaf_merge _ _ _ _ _ _ _ _ _ _ _ _ _ Ox Oy Bl Bh) as Om.
  split; [|split; [|split; [|split; [|split]]]].
  - eapply lift_merge_body; eauto.
    constructor; rewrite ?app_length; [lia | hlia c | intros _; hlia c].
  - right. rewrite !app_length. simpl. lia.
  - rewrite flat_map_zip2, flat_map_zip1. simpl. rewrite combine_app; auto.
  - rewrite flat_map_zip2, flat_map_zip1. apply links_ctx.
    intros pre post after. simpl. apply links_merge.
  - rewrite flat_map_zip2, flat_map_zip1. rewrite !map_app. apply perm_ctx. simpl. apply perm_swap.
  - rewrite flat_map_zip2, flat_map_zip1. simpl. apply Permutation_refl.
Qed.

Lemma case_leaf_merge_left : forall c lo hi ks1 sep ks2 cs1 cs2 lm bm xid xks xvs xnx yid yks yvs ynx,
  4 <= c -> length cs1 = length ks1 ->
  sorted_keys (ks1 ++ sep :: ks2) -> Forall (in_bounds lo hi) (ks1 ++ sep :: ks2) ->
  ords lo hi (ks1 ++ sep :: ks2) (cs1 ++ PLeaf xid c xks xvs xnx :: PLeaf yid c yks yvs ynx :: cs2) ->
  Forall (shape c false 0) cs1 -> Forall (shape c false 0) cs2 ->
  length xvs = length xks -> length xks = c / 2 ->
  length yvs = length yks -> S (length yks) = c / 2 ->
  (forall r, nth_error (cs1 ++ PLeaf xid c xks xvs xnx :: PLeaf yid c yks yvs ynx :: cs2)
       (S (S (length cs1))) = Some r -> can_donate r = false) ->
  exists ks' cs',
    rebalance_leaf lm bm (ks1 ++ sep :: ks2)
      (cs1 ++ PLeaf xid c xks xvs xnx :: PLeaf yid c yks yvs ynx :: cs2) (S (length cs1))
    = Ok (deallocs lm [yid], bm, ks', cs') /\
    rb_post c lo hi 0 (ks1 ++ sep :: ks2)
      (cs1 ++ PLeaf xid c xks xvs xnx :: PLeaf yid c yks yvs ynx :: cs2) [yid] [] ks' cs'.
Proof.
  intros * C L Sk F O F1 F2 Lxv Lx Lyv Ly HR.
  eexists. eexists. split.
  - erewrite exec_leaf_merge_left with (ci := S (length cs1)) (sep := sep); try lia.
    + replace (S (length cs1) - 1) with (length cs1) by lia.
      rewrite (remove_at_zip0' _ _ _ _ _ L).
      rewrite (set_nth_zip0' _ _ _ _ _ _ eq_refl).
      rewrite (remove_at_zip1' _ _ _ _ _ _ eq_refl). reflexivity.
    + replace (S (length cs1) - 1) with (length cs1) by lia. apply nth_error_zip0'. auto.
    + apply nth_error_zip1.
    + replace (S (length cs1) - 1) with (length cs1) by lia. apply nth_error_zip0.
    + rewrite Lx; auto.
    + exact HR.
    + hlia c.
    + hlia c.
  - apply leaf_merge_post; auto. hlia c.
Qed.

Lemma case_leaf_merge_right : forall c lo hi sep ks2 cs2 lm bm xid xks xvs xnx yid yks yvs ynx,
  4 <= c ->
  sorted_keys (sep :: ks2) -> Forall (in_bounds lo hi) (sep :: ks2) ->
  ords lo hi (sep :: ks2) (PLeaf xid c xks xvs xnx :: PLeaf yid c yks yvs ynx :: cs2) ->
  Forall (shape c false 0) cs2 ->
  length xvs = length xks -> S (length xks) = c / 2 ->
  length yvs = length yks -> length yks = c / 2 ->
  exists ks' cs',
    rebalance_leaf lm bm (sep :: ks2)
      (PLeaf xid c xks xvs xnx :: PLeaf yid c yks yvs ynx :: cs2) 0
    = Ok (deallocs lm [yid], bm, ks', cs') /\
    rb_post c lo hi 0 (sep :: ks2)
      (PLeaf xid c xks xvs xnx :: PLeaf yid c yks yvs ynx :: cs2) [yid] [] ks' cs'.
Proof.
  intros * C Sk F O F2 Lxv Lx Lyv Ly.
  eexists. eexists. split.
  - erewrite exec_leaf_merge_right with (sep := sep); try reflexivity.
    + hlia c.
    + hlia c.
    + hlia c.
  - apply (leaf_merge_post c lo hi [] sep ks2 [] cs2); auto. hlia c.
Qed.

Lemma perm_move : forall (a m b : list N) y,
  Permutation ((a ++ m) ++ y :: b) (a ++ y :: m ++ b).
Proof.
  intros. rewrite <- app_assoc. apply Permutation_app_head.
  apply Permutation_sym. apply Permutation_middle.
Qed.

Lemma case_branch_borrow_left : forall c lo hi h ks1 sep ks2 cs1 cs2 lm bm xid xks xcs yid yks ycs,
  4 <= c -> length cs1 = length ks1 ->
  sorted_keys (ks1 ++ sep :: ks2) -> Forall (in_bounds lo hi) (ks1 ++ sep :: ks2) ->
  ords lo hi (ks1 ++ sep :: ks2) (cs1 ++ PBranch xid c xks xcs :: PBranch yid c yks ycs :: cs2) ->
  Forall (shape c false (S h)) cs1 -> Forall (shape c false (S h)) cs2 ->
  length xcs = S (length xks) -> c / 2 < length xks -> length xks <= c ->
  Forall (shape c false h) xcs ->
  length ycs = S (length yks) -> S (length yks) = c / 2 -> Forall (shape c false h) ycs ->
  exists ks' cs',
    rebalance_branch lm bm (ks1 ++ sep :: ks2)
      (cs1 ++ PBranch xid c xks xcs :: PBranch yid c yks ycs :: cs2) (S (length cs1))
    = Ok (lm, bm, ks', cs') /\
    rb_post c lo hi (S h) (ks1 ++ sep :: ks2)
      (cs1 ++ PBranch xid c xks xcs :: PBranch yid c yks ycs :: cs2) [] [] ks' cs'.
Proof.
  intros * C L Sk F O F1 F2 Lxc Lx1 Lx2 Fx Lyc Ly Fy.
  destruct (snoc_cases xks) as [->|(xks' & mk & ->)]; [cbn [length] in Lx1; lia|].
  destruct (snoc_cases xcs) as [->|(xcs' & mc & ->)]; [discriminate|].
  assert (Lxc' : length xcs' = S (length xks')) by (rewrite !app_length in Lxc; cbn [length] in Lxc; lia).
  assert (Lx' : c / 2 <= length xks') by (rewrite app_length in Lx1; cbn [length] in Lx1; lia).
  apply Forall_app in Fx. destruct Fx as [Fx Fm]. inversion Fm as [|? ? Sm _]; subst.
  pose proof (ords_length _ _ _ _ O) as LO.
  eexists. eexists. split.
  - erewrite exec_branch_borrow_left with (ci := S (length cs1)) (sep := sep); try lia.
    + replace (S (length cs1) - 1) with (length cs1) by lia.
      rewrite (set_nth_zip0' _ _ _ _ _ _ L).
      rewrite (set_nth_zip0' _ _ _ _ _ _ eq_refl).
      rewrite (set_nth_zip1' _ _ _ _ _ _ _ eq_refl). reflexivity.
    + replace (S (length cs1) - 1) with (length cs1) by lia. apply nth_error_zip0'. auto.
    + apply nth_error_zip1.
    + replace (S (length cs1) - 1) with (length cs1) by lia. apply nth_error_zip0.
    + auto.
  - destruct (zip_ctx _ _ _ _ _ _ _ _ _ L O) as (_ & Ox & _ & Oy).
    destruct (zip_sep_bounds _ _ _ _ _ Sk F) as [Bl Bh].
    assert (Ne : xks' <> []) by (intro; subst; hlia c).
    destruct (pair_branch_borrow_left c h _ _ _ _ _ _ _ _ _ _ _ _ _ C Ox Lxc Oy Lyc Fy Bh Ne)
      as (Ox' & Oy' & G & H).
    split; [|split; [|split; [|split; [|split]]]].
    + eapply lift_borrow_body; eauto.
      * apply shape_branch_intro; auto; try discriminate.
        rewrite app_length in Lx2; cbn [length] in Lx2; lia.
      * apply shape_branch_intro; cbn [length]; auto; try discriminate; try lia; hlia c.
    + left. rewrite !app_length. reflexivity.
    + rewrite !flat_map_zip2. simpl. rewrite flat_map_app. simpl. rewrite app_nil_r.
      repeat rewrite <- app_assoc. reflexivity.
    + apply same_links_post. rewrite !flat_map_zip2. simpl. rewrite flat_map_app. simpl.
      rewrite app_nil_r. repeat rewrite <- app_assoc. reflexivity.
    + apply same_links_post. rewrite !flat_map_zip2. simpl. rewrite flat_map_app. simpl.
      rewrite app_nil_r. repeat rewrite <- app_assoc. reflexivity.
    + rewrite !flat_map_zip2. apply (perm_ctx _ _ _ _ []). simpl. constructor.
      rewrite flat_map_app. simpl. rewrite app_nil_r. apply perm_move.
Qed.

Lemma case_branch_borrow_right : forall c lo hi h ks1 sep ks2 cs1 cs2 lm bm xid xks xcs yid yks ycs,
  4 <= c -> length cs1 = length ks1 ->
  sorted_keys (ks1 ++ sep :: ks2) -> Forall (in_bounds lo hi) (ks1 ++ sep :: ks2) ->
  ords lo hi (ks1 ++ sep :: ks2) (cs1 ++ PBranch xid c xks xcs :: PBranch yid c yks ycs :: cs2) ->
  Forall (shape c false (S h)) cs1 -> Forall (shape c false (S h)) cs2 ->
  length xcs = S (length xks) -> S (length xks) = c / 2 -> Forall (shape c false h) xcs ->
  length ycs = S (length yks) -> c / 2 < length yks -> length yks <= c ->
  Forall (shape c false h) ycs ->
  (forall l, 0 < length cs1 ->
     nth_error (cs1 ++ PBranch xid c xks xcs :: PBranch yid c yks ycs :: cs2) (length cs1 - 1) = Some l ->
     can_donate l = false) ->
  exists ks' cs',
    rebalance_branch lm bm (ks1 ++ sep :: ks2)
      (cs1 ++ PBranch xid c xks xcs :: PBranch yid c yks ycs :: cs2) (length cs1)
    = Ok (lm, bm, ks', cs') /\
    rb_post c lo hi (S h) (ks1 ++ sep :: ks2)
      (cs1 ++ PBranch xid c xks xcs :: PBranch yid c yks ycs :: cs2) [] [] ks' cs'.
Proof.
  intros * C L Sk F O F1 F2 Lxc Lx Fx Lyc Ly1 Ly2 Fy HL.
  destruct yks as [|mk yks']; [cbn [length] in Ly1; lia|].
  destruct ycs as [|mc ycs']; [discriminate|].
  inversion Fy as [|? ? Sm Fy']; subst.
  pose proof (ords_length _ _ _ _ O) as LO.
  eexists. eexists. split.
  - erewrite exec_branch_borrow_right with (ci := length cs1) (sep := sep).
    + rewrite (set_nth_zip0' _ _ _ _ _ _ L).
      rewrite (set_nth_zip1' _ _ _ _ _ _ _ eq_refl).
      rewrite (set_nth_zip0' _ _ _ _ _ _ eq_refl). reflexivity.
    + exact LO.
    + apply nth_error_zip0'. auto.
    + apply nth_error_zip0.
    + exact HL.
    + apply nth_error_zip1.
    + auto.
  - destruct (zip_ctx _ _ _ _ _ _ _ _ _ L O) as (_ & Ox & _ & Oy).
    destruct (zip_sep_bounds _ _ _ _ _ Sk F) as [Bl Bh].
    destruct (pair_branch_borrow_right c h _ _ _ _ _ _ _ _ _ _ _ _ _ C Ox Lxc Oy Lyc Sm Bl)
      as (Ox' & Oy' & G & H).
    split; [|split; [|split; [|split; [|split]]]].
    + eapply lift_borrow_body; eauto.
      * apply shape_branch_intro; rewrite ?app_length; cbn [length]; try discriminate; try lia; try hlia c.
        apply Forall_app; split; auto.
      * apply shape_branch_intro; cbn [length] in *; auto; try discriminate; lia.
    + left. rewrite !app_length. reflexivity.
    + rewrite !flat_map_zip2. simpl. rewrite flat_map_app. simpl. rewrite app_nil_r.
      repeat rewrite <- app_assoc. reflexivity.
    + apply same_links_post. rewrite !flat_map_zip2. simpl. rewrite flat_map_app. simpl.
      rewrite app_nil_r. repeat rewrite <- app_assoc. reflexivity.
    + apply same_links_post. rewrite !flat_map_zip2. simpl. rewrite flat_map_app. simpl.
      rewrite app_nil_r. repeat rewrite <- app_assoc. reflexivity.
    + rewrite !flat_map_zip2. apply (perm_ctx _ _ _ _ []). simpl. constructor.
      rewrite flat_map_app. simpl. rewrite app_nil_r. apply Permutation_sym. apply perm_move.
Qed.

Lemma branch_merge_post : forall c lo hi h ks1 sep ks2 cs1 cs2 xid xks xcs yid yks ycs,
  4 <= c -> length cs1 = length ks1 ->
  sorted_keys (ks1 ++ sep :: ks2) -> Forall (in_bounds lo hi) (ks1 ++ sep :: ks2) ->
  ords lo hi (ks1 ++ sep :: ks2) (cs1 ++ PBranch xid c xks xcs :: PBranch yid c yks ycs :: cs2) ->
  Forall (shape c false (S h)) cs1 -> Forall (shape c false (S h)) cs2 ->
  length xcs = S (length xks) -> Forall (shape c false h) xcs ->
  length ycs = S (length yks) -> Forall (shape c false h) ycs ->
  S (length xks + length yks) = 2 * (c / 2) ->
  rb_post c lo hi (S h) (ks1 ++ sep :: ks2)
    (cs1 ++ PBranch xid c xks xcs :: PBranch yid c yks ycs :: cs2) [] [yid]
    (ks1 ++ ks2) (cs1 ++ PBranch xid c (xks ++ sep :: yks) (xcs ++ ycs) :: cs2).
Proof.
  intros * C L Sk F O F1 F2 Lxc Fx Lyc Fy Lsum.
  destruct (zip_ctx _ _ _ _ _ _ _ _ _ L O) as (_ & Ox & _ & Oy).
  destruct (zip_sep_bounds _ _ _ _ _ Sk F) as [Bl Bh].
  pose proof (pair_branch_merge c h _ _ _ _ _ _ _ _ _ _ _ C Ox Lxc Oy Lyc Fy Bl Bh) as Om.
  split; [|split; [|split; [|split; [|split]]]].
  - eapply lift_merge_body; eauto.
    apply shape_branch_intro; rewrite ?app_length; cbn [length]; try discriminate; try lia; try hlia c.
    apply Forall_app; split; auto.
  - right. rewrite !app_length. simpl. lia.
  - rewrite flat_map_zip2, flat_map_zip1. simpl. rewrite flat_map_app. reflexivity.
  - apply same_links_post. rewrite flat_map_zip2, flat_map_zip1. simpl. rewrite flat_map_app. reflexivity.
  - apply same_links_post. rewrite flat_map_zip2, flat_map_zip1. simpl. rewrite flat_map_app. reflexivity.
  - rewrite flat_map_zip2, flat_map_zip1. apply perm_ctx. simpl. rewrite flat_map_app.
    apply Permutation_sym.
    apply (Permutation_middle (xid :: flat_map (@branch_ids V) xcs) (flat_map (@branch_ids V) ycs) yid).
Qed.

Lemma case_branch_merge_left : forall c lo hi h ks1 sep ks2 cs1 cs2 lm bm xid xks xcs yid yks ycs,
  4 <= c -> length cs1 = length ks1 ->
  sorted_keys (ks1 ++ sep :: ks2) -> Forall (in_bounds lo hi) (ks1 ++ sep :: ks2) ->
  ords lo hi (ks1 ++ sep :: ks2) (cs1 ++ PBranch xid c xks xcs :: PBranch yid c yks ycs :: cs2) ->
  Forall (shape c false (S h)) cs1 -> Forall (shape c false (S h)) cs2 ->
  length xcs = S (length xks) -> length xks = c / 2 -> Forall (shape c false h) xcs ->
  length ycs = S (length yks) -> S (length yks) = c / 2 -> Forall (shape c false h) ycs ->
  (forall r, nth_error (cs1 ++ PBranch xid c xks xcs :: PBranch yid c yks ycs :: cs2)
       (S (S (length cs1))) = Some r -> can_donate r = false) ->
  exists ks' cs',
    rebalance_branch lm bm (ks1 ++ sep :: ks2)
      (cs1 ++ PBranch xid c xks xcs :: PBranch yid c yks ycs :: cs2) (S (length cs1))
    = Ok (lm, deallocs bm [yid], ks', cs') /\
    rb_post c lo hi (S h) (ks1 ++ sep :: ks2)
      (cs1 ++ PBranch xid c xks xcs :: PBranch yid c yks ycs :: cs2) [] [yid] ks' cs'.
Proof.
  intros * C L Sk F O F1 F2 Lxc Lx Fx Lyc Ly Fy HR.
  pose proof (ords_length _ _ _ _ O) as LO.
  eexists. eexists. split.
  - erewrite exec_branch_merge_left with (ci := S (length cs1)) (sep := sep).
    + replace (S (length cs1) - 1) with (length cs1) by lia.
      rewrite (remove_at_zip0' _ _ _ _ _ L).
      rewrite (set_nth_zip0' _ _ _ _ _ _ eq_refl).
      rewrite (remove_at_zip1' _ _ _ _ _ _ eq_refl). reflexivity.
    + exact LO.
    + lia.
    + replace (S (length cs1) - 1) with (length cs1) by lia. apply nth_error_zip0'. auto.
    + apply nth_error_zip1.
    + replace (S (length cs1) - 1) with (length cs1) by lia. apply nth_error_zip0.
    + rewrite Lx; auto.
    + exact HR.
    + hlia c.
    + hlia c.
  - apply branch_merge_post; auto. hlia c.
Qed.

Lemma case_branch_merge_right : forall c lo hi h sep ks2 cs2 lm bm xid xks xcs yid yks ycs,
  4 <= c ->
  sorted_keys (sep :: ks2) -> Forall (in_bounds lo hi) (sep :: ks2) ->
  ords lo hi (sep :: ks2) (PBranch xid c xks xcs :: PBranch yid c yks ycs :: cs2) ->
  Forall (shape c false (S h)) cs2 ->
  length xcs = S (length xks) -> S (length xks) = c / 2 -> Forall (shape c false h) xcs ->
  length ycs = S (length yks) -> length yks = c / 2 -> Forall (shape c false h) ycs ->
  exists ks' cs',
    rebalance_branch lm bm (sep :: ks2)
      (PBranch xid c xks xcs :: PBranch yid c yks ycs :: cs2) 0
    = Ok (lm, deallocs bm [yid], ks', cs') /\
    rb_post c lo hi (S h) (sep :: ks2)
      (PBranch xid c xks xcs :: PBranch yid c yks ycs :: cs2) [] [yid] ks' cs'.
Proof.
  intros * C Sk F O F2 Lxc Lx Fx Lyc Ly Fy.
  pose proof (ords_length _ _ _ _ O) as LO.
  eexists. eexists. split.
  - erewrite exec_branch_merge_right with (sep := sep); try reflexivity.
    + exact LO.
    + hlia c.
    + hlia c.
    + hlia c.
  - apply (branch_merge_post c lo hi h [] sep ks2 [] cs2); auto. hlia c.
Qed.

(* ---------------- summary: rebalance_child repairs the parent ---------------- *)
Lemma snoc_zip : forall (A : Type) (l1 : list A) x l2, (l1 ++ [x]) ++ l2 = l1 ++ x :: l2.
Proof. intros. rewrite <- app_assoc. reflexivity. Qed.

Lemma length_snoc : forall (A : Type) (l : list A) x, length (l ++ [x]) = S (length l).
Proof. intros. rewrite app_length. simpl. lia. Qed.

Lemma can_donate_leaf_false : forall id c ks (vs : list V) nx,
  length ks <= c / 2 -> can_donate (PLeaf id c ks vs nx) = false.
Proof. intros. unfold can_donate. simpl pcap. simpl pkeys. apply Nat.ltb_ge. auto. Qed.

Lemma can_donate_branch_false : forall id c ks (cs : list ptree),
  length ks <= c / 2 -> can_donate (PBranch id c ks cs) = false.
Proof. intros. unfold can_donate. simpl pcap. simpl pkeys. apply Nat.ltb_ge. auto. Qed.

Lemma rebalance_leaf_spec : forall c lo hi ks1 ks2 cs1 cs2 lm bm xid xks xvs xnx,
  4 <= c -> length cs1 = length ks1 ->
  sorted_keys (ks1 ++ ks2) -> Forall (in_bounds lo hi) (ks1 ++ ks2) ->
  ords lo hi (ks1 ++ ks2) (cs1 ++ PLeaf xid c xks xvs xnx :: cs2) ->
  Forall (shape c false 0) cs1 -> Forall (shape c false 0) cs2 ->
  length xvs = length xks -> S (length xks) = c / 2 ->
  1 <= length (ks1 ++ ks2) ->
  exists dl db ks' cs',
    rebalance_leaf lm bm (ks1 ++ ks2) (cs1 ++ PLeaf xid c xks xvs xnx :: cs2) (length cs1)
      = Ok (deallocs lm dl, deallocs bm db, ks', cs') /\
    rb_post c lo hi 0 (ks1 ++ ks2) (cs1 ++ PLeaf xid c xks xvs xnx :: cs2) dl db ks' cs'.
Proof.
  intros * C L Sk F O F1 F2 Lxv Lx Lk.
  assert (Lcs2 : length cs2 = length ks2).
  { pose proof (ords_length _ _ _ _ O) as LO. rewrite !app_length in LO. cbn [length] in LO. lia. }
  destruct (snoc_cases cs1) as [->|(cs1a & l & ->)].
  - (* no left sibling *)
    destruct ks1; [|discriminate]. cbn [app length] in *.
    destruct ks2 as [|sep ks2b]; [cbn [length] in Lk; lia|].
    destruct cs2 as [|r cs2b]; [discriminate|].
    inversion F2 as [|? ? Sr F2b]; subst.
    destruct (shape_0_leaf Sr) as (rid & rks & rvs & rnx & ->).
    apply shape_leaf_inv in Sr. destruct Sr as (_ & _ & Lrv & Lr2 & Lr1). specialize (Lr1 eq_refl).
    destruct (Nat.ltb (c / 2) (length rks)) eqn:E.
    + apply Nat.ltb_lt in E.
      destruct (case_leaf_borrow_right c lo hi [] sep ks2b [] cs2b lm bm xid xks xvs xnx rid rks rvs rnx)
        as (ks' & cs' & E1 & P); auto.
      { intros l0 H0. cbn [length] in H0. lia. }
      exists [], [], ks', cs'. split; auto.
    + apply Nat.ltb_ge in E.
      destruct (case_leaf_merge_right c lo hi sep ks2b cs2b lm bm xid xks xvs xnx rid rks rvs rnx)
        as (ks' & cs' & E1 & P); auto; try lia.
      exists [rid], [], ks', cs'. split; auto.
  - (* left sibling l *)
    destruct (snoc_cases ks1) as [->|(ks1a & sep & ->)];
      [rewrite length_snoc in L; cbn [length] in L; lia|].
    assert (La : length cs1a = length ks1a) by (rewrite !length_snoc in L; lia).
    apply Forall_app in F1. destruct F1 as [F1a Fl]. inversion Fl as [|? ? Sl _]; subst.
    destruct (shape_0_leaf Sl) as (lid & lks & lvs & lnx & ->).
    apply shape_leaf_inv in Sl. destruct Sl as (_ & _ & Llv & Ll2 & Ll1). specialize (Ll1 eq_refl).
    destruct (Nat.ltb (c / 2) (length lks)) eqn:E.
    + apply Nat.ltb_lt in E.
      rewrite !snoc_zip in *. rewrite length_snoc.
      destruct (case_leaf_borrow_left c lo hi ks1a sep ks2 cs1a cs2 lm bm lid lks lvs lnx xid xks xvs xnx)
        as (ks' & cs' & E1 & P); auto.
      exists [], [], ks', cs'. split; auto.
    + apply Nat.ltb_ge in E.
      destruct cs2 as [|r cs2b].
      * rewrite !snoc_zip in *. rewrite length_snoc.
        destruct (case_leaf_merge_left c lo hi ks1a sep ks2 cs1a [] lm bm lid lks lvs lnx xid xks xvs xnx)
          as (ks' & cs' & E1 & P); auto; try lia.
        { intros r0 Hn.
          assert (S (S (length cs1a)) < length (cs1a ++ [PLeaf lid c lks lvs lnx; PLeaf xid c xks xvs xnx]))
            by (apply nth_error_Some; congruence).
          rewrite app_length in H. cbn [length] in H. lia. }
        exists [xid], [], ks', cs'. split; auto.
      * destruct ks2 as [|sep2 ks2b]; [discriminate|].
        inversion F2 as [|? ? Sr F2b]; subst.
        destruct (shape_0_leaf Sr) as (rid & rks & rvs & rnx & ->).
        apply shape_leaf_inv in Sr. destruct Sr as (_ & _ & Lrv & Lr2 & Lr1). specialize (Lr1 eq_refl).
        destruct (Nat.ltb (c / 2) (length rks)) eqn:E2.
        -- apply Nat.ltb_lt in E2.
           destruct (case_leaf_borrow_right c lo hi (ks1a ++ [sep]) sep2 ks2b
                       (cs1a ++ [PLeaf lid c lks lvs lnx]) cs2b lm bm xid xks xvs xnx rid rks rvs rnx)
             as (ks' & cs' & E1 & P); auto.
           { apply Forall_app; split; auto. }
           { intros l0 _ Hn. rewrite snoc_zip in Hn. rewrite length_snoc in Hn.
             replace (S (length cs1a) - 1) with (length cs1a) in Hn by lia.
             rewrite nth_error_zip0 in Hn. injection Hn as <-.
             apply can_donate_leaf_false. auto. }
           exists [], [], ks', cs'. split; auto.
        -- apply Nat.ltb_ge in E2.
           rewrite !snoc_zip in *. rewrite length_snoc.
           destruct (case_leaf_merge_left c lo hi ks1a sep (sep2 :: ks2b) cs1a (PLeaf rid c rks rvs rnx :: cs2b)
                       lm bm lid lks lvs lnx xid xks xvs xnx)
             as (ks' & cs' & E1 & P); auto; try lia.
           { intros r0 Hn.
             replace (S (S (length cs1a))) with (length cs1a + 2) in Hn by lia.
             rewrite nth_error_zipn in Hn. cbn [nth_error] in Hn. injection Hn as <-.
             apply can_donate_leaf_false. auto. }
           exists [xid], [], ks', cs'. split; auto.
Qed.

Lemma rebalance_branch_spec : forall c lo hi h ks1 ks2 cs1 cs2 lm bm xid xks xcs,
  4 <= c -> length cs1 = length ks1 ->
  sorted_keys (ks1 ++ ks2) -> Forall (in_bounds lo hi) (ks1 ++ ks2) ->
  ords lo hi (ks1 ++ ks2) (cs1 ++ PBranch xid c xks xcs :: cs2) ->
  Forall (shape c false (S h)) cs1 -> Forall (shape c false (S h)) cs2 ->
  length xcs = S (length xks) -> S (length xks) = c / 2 -> Forall (shape c false h) xcs ->
  1 <= length (ks1 ++ ks2) ->
  exists dl db ks' cs',
    rebalance_branch lm bm (ks1 ++ ks2) (cs1 ++ PBranch xid c xks xcs :: cs2) (length cs1)
      = Ok (deallocs lm dl, deallocs bm db, ks', cs') /\
    rb_post c lo hi (S h) (ks1 ++ ks2) (cs1 ++ PBranch xid c xks xcs :: cs2) dl db ks' cs'.
Proof.
  intros * C L Sk F O F1 F2 Lxc Lx Fx Lk.
  assert (Lcs2 : length cs2 = length ks2).
  { pose proof (ords_length _ _ _ _ O) as LO. rewrite !app_length in LO. cbn [length] in LO. lia. }
  destruct (snoc_cases cs1) as [->|(cs1a & l & ->)].
  - (* no left sibling *)
    destruct ks1; [|discriminate]. cbn [app length] in *.
    destruct ks2 as [|sep ks2b]; [cbn [length] in Lk; lia|].
    destruct cs2 as [|r cs2b]; [discriminate|].
    inversion F2 as [|? ? Sr F2b]; subst.
    destruct (shape_S_branch Sr) as (rid & rks & rcs & ->).
    apply shape_branch_inv in Sr. destruct Sr as (h' & Eh & _ & Lrc & Lr2 & Lr1 & _ & Fr).
    injection Eh as <-. specialize (Lr1 eq_refl).
    destruct (Nat.ltb (c / 2) (length rks)) eqn:E.
    + apply Nat.ltb_lt in E.
      destruct (case_branch_borrow_right c lo hi h [] sep ks2b [] cs2b lm bm xid xks xcs rid rks rcs)
        as (ks' & cs' & E1 & P); auto.
      { intros l0 H0. cbn [length] in H0. lia. }
      exists [], [], ks', cs'. split; auto.
    + apply Nat.ltb_ge in E.
      destruct (case_branch_merge_right c lo hi h sep ks2b cs2b lm bm xid xks xcs rid rks rcs)
        as (ks' & cs' & E1 & P); auto; try lia.
      exists [], [rid], ks', cs'. split; auto.
  - (* left sibling l *)
    destruct (snoc_cases ks1) as [->|(ks1a & sep & ->)];
      [rewrite length_snoc in L; cbn [length] in L; lia|].
    assert (La : length cs1a = length ks1a) by (rewrite !length_snoc in L; lia).
    apply Forall_app in F1. destruct F1 as [F1a Fl]. inversion Fl as [|? ? Sl _]; subst.
    destruct (shape_S_branch Sl) as (lid & lks & lcs & ->).
    apply shape_branch_inv in Sl. destruct Sl as (h' & Eh & _ & Llc & Ll2 & Ll1 & _ & Fl').
    injection Eh as <-. specialize (Ll1 eq_refl).
    destruct (Nat.ltb (c / 2) (length lks)) eqn:E.
    + apply Nat.ltb_lt in E.
      rewrite !snoc_zip in *. rewrite length_snoc.
      destruct (case_branch_borrow_left c lo hi h ks1a sep ks2 cs1a cs2 lm bm lid lks lcs xid xks xcs)
        as (ks' & cs' & E1 & P); auto.
      exists [], [], ks', cs'. split; auto.
    + apply Nat.ltb_ge in E.
      destruct cs2 as [|r cs2b].
      * rewrite !snoc_zip in *. rewrite length_snoc.
        destruct (case_branch_merge_left c lo hi h ks1a sep ks2 cs1a [] lm bm lid lks lcs xid xks xcs)
          as (ks' & cs' & E1 & P); auto; try lia.
        { intros r0 Hn.
          assert (S (S (length cs1a)) < length (cs1a ++ [PBranch lid c lks lcs; PBranch xid c xks xcs]))
            by (apply nth_error_Some; congruence).
          rewrite app_length in H. cbn [length] in H. lia. }
        exists [], [xid], ks', cs'. split; auto.
      * destruct ks2 as [|sep2 ks2b]; [discriminate|].
        inversion F2 as [|? ? Sr F2b]; subst.
        destruct (shape_S_branch Sr) as (rid & rks & rcs & ->).
        apply shape_branch_inv in Sr. destruct Sr as (h' & Eh & _ & Lrc & Lr2 & Lr1 & _ & Fr).
        injection Eh as <-. specialize (Lr1 eq_refl).
        destruct (Nat.ltb (c / 2) (length rks)) eqn:E2.
        -- apply Nat.ltb_lt in E2.
           destruct (case_branch_borrow_right c lo hi h (ks1a ++ [sep]) sep2 ks2b
                       (cs1a ++ [PBranch lid c lks lcs]) cs2b lm bm xid xks xcs rid rks rcs)
             as (ks' & cs' & E1 & P); auto.
           { apply Forall_app; split; auto. }
           { intros l0 _ Hn. rewrite snoc_zip in Hn. rewrite length_snoc in Hn.
             replace (S (length cs1a) - 1) with (length cs1a) in Hn by lia.
             rewrite nth_error_zip0 in Hn. injection Hn as <-.
             apply can_donate_branch_false. auto. }
           exists [], [], ks', cs'. split; auto.
        -- apply Nat.ltb_ge in E2.
           rewrite !snoc_zip in *. rewrite length_snoc.
           destruct (case_branch_merge_left c lo hi h ks1a sep (sep2 :: ks2b) cs1a (PBranch rid c rks rcs :: cs2b)
                       lm bm lid lks lcs xid xks xcs)
             as (ks' & cs' & E1 & P); auto; try lia.
           { intros r0 Hn.
             replace (S (S (length cs1a))) with (length cs1a + 2) in Hn by lia.
             rewrite nth_error_zipn in Hn. cbn [nth_error] in Hn. injection Hn as <-.
             apply can_donate_branch_false. auto. }
           exists [], [xid], ks', cs'. split; auto.
Qed.

Lemma rebalance_child_spec : forall c lo hi h ks1 ks2 cs1 cs2 x lm bm,
  4 <= c -> length cs1 = length ks1 ->
  sorted_keys (ks1 ++ ks2) -> Forall (in_bounds lo hi) (ks1 ++ ks2) ->
  ords lo hi (ks1 ++ ks2) (cs1 ++ x :: cs2) ->
  Forall (shape c false h) cs1 -> Forall (shape c false h) cs2 -> shape_u c h x ->
  1 <= length (ks1 ++ ks2) ->
  exists dl db ks' cs',
    rebalance_child lm bm (ks1 ++ ks2) (cs1 ++ x :: cs2) (length cs1)
      = Ok (deallocs lm dl, deallocs bm db, ks', cs') /\
    rb_post c lo hi h (ks1 ++ ks2) (cs1 ++ x :: cs2) dl db ks' cs'.
Proof.
  intros * C L Sk F O F1 F2 Sx Lk.
  unfold rebalance_child. rewrite (vec_get_ok 60 _ _ (nth_error_zip0 cs1 x cs2)). cbn [bind].
  inversion Sx; subst; cbn [is_leaf].
  - apply rebalance_leaf_spec; auto.
  - apply rebalance_branch_spec; auto.
Qed.

End RemoveLocal.
