(* C03: range queries.  [range] / [items_range] (resolve_range_bounds + RangeIterator) and
   [from_position] iterators of model A (Rust/Readers.v), on a heap that represents a
   model-B state satisfying the invariant, return exactly the entries of the logical
   contents that lie inside the bounds, in order.
   Structure: (1) pure list lemmas on strictly sorted association lists
   (skipn / take_until / filter), (2) the RangeIterator wrapper [range_next] related to
   [item_next] (Rust/Walk.v), (3) the start position delivered by the descent
   (Rust/ReadersGet.v [find_spec]), (4) the theorems. *)
From Coq Require Import List Arith ZArith NArith Lia Bool.
From BPT Require Import Common.Base Common.AMap Rust.Arena Rust.Tree Rust.Heap Rust.Readers
  Rust.Run Rust.InvDefs Rust.Repr Rust.Spec Rust.Lib Rust.TreeFactsI Rust.Walk Rust.ReadersGet.
Import ListNotations.
Set Implicit Arguments.

Section ReadersRange.
Variable V : Type.
Notation heap := (heap V).
Notation leaf := (leaf V).
Notation iter := (iter V).
Notation riter := (riter V).
Notation amap := (list (key * V)).

(* ------------------------------------------------------------------ *)
(* (1) list lemmas *)

Lemma RR_filter_filter : forall (A : Type) (f g : A -> bool) l,
  filter f (filter g l) = filter (fun x => andb (g x) (f x)) l.
Proof.
  induction l as [|x l IH]; [reflexivity|].
  cbn [filter]. destruct (g x); cbn [andb filter]; rewrite IH; reflexivity.
Qed.

Lemma RR_filter_all : forall (A : Type) (f : A -> bool) l,
  (forall x, In x l -> f x = true) -> filter f l = l.
Proof.
  induction l as [|x l IH]; intros H; [reflexivity|].
  cbn [filter]. rewrite (H x) by (left; reflexivity). f_equal. apply IH.
  intros y Hy. apply H. right. exact Hy.
Qed.

Lemma RR_filter_none : forall (A : Type) (f : A -> bool) l,
  (forall x, In x l -> f x = false) -> filter f l = [].
Proof.
  induction l as [|x l IH]; intros H; [reflexivity|].
  cbn [filter]. rewrite (H x) by (left; reflexivity). apply IH.
  intros y Hy. apply H. right. exact Hy.
Qed.

Lemma msorted_cons : forall (e : key * V) (m : amap), m_sorted (e :: m) ->
  m_sorted m /\ (forall e', In e' m -> (kz (fst e) < kz (fst e'))%Z).
Proof.
  intros [k v] m Hs. apply Lib_m_sorted_cons_inv in Hs. exact Hs.
Qed.

Lemma msorted_skipn : forall (m : amap) n, m_sorted m -> m_sorted (skipn n m).
Proof.
  intros m n Hs. unfold m_sorted in *. rewrite <- skipn_map. apply sorted_keys_skipn. exact Hs.
Qed.

Lemma take_until_ext : forall (P Q : Z -> bool) (m : amap), (forall z, P z = Q z) ->
  take_until P m = take_until Q m.
Proof.
  intros P Q m H. induction m as [|e m IH]; [reflexivity|].
  cbn [take_until]. rewrite H, IH. reflexivity.
Qed.

Lemma take_until_all : forall (Q : Z -> bool) (m : amap),
  (forall e, In e m -> Q (kz (fst e)) = true) -> take_until Q m = [].
Proof.
  intros Q [|e m] H; [reflexivity|]. cbn [take_until]. rewrite (H e) by (left; reflexivity).
  reflexivity.
Qed.

Definition up_closed (Q : Z -> bool) : Prop :=
  forall a c, Q a = true -> (a < c)%Z -> Q c = true.
Definition down_closed (P : Z -> bool) : Prop :=
  forall a c, P c = true -> (a < c)%Z -> P a = true.

(* on a sorted list, stopping at the first key satisfying an upward-closed test keeps
   exactly the entries that fail the test *)
Lemma take_until_filter : forall (Q : Z -> bool) (m : amap), up_closed Q -> m_sorted m ->
  take_until Q m = filter (fun e => negb (Q (kz (fst e)))) m.
Proof.
  intros Q m HQ. induction m as [|e m IH]; intros Hs; [reflexivity|].
  apply msorted_cons in Hs. destruct Hs as [Hs Hall].
  cbn [take_until filter]. destruct (Q (kz (fst e))) eqn:Eq; cbn [negb].
  - symmetry. apply RR_filter_none. intros e' He'.
    rewrite (HQ _ _ Eq (Hall _ He')). reflexivity.
  - rewrite IH by exact Hs. reflexivity.
Qed.

(* on a sorted list, the entries satisfying a downward-closed test form a prefix *)
Lemma skipn_filter : forall (P : Z -> bool) (m : amap), down_closed P -> m_sorted m ->
  skipn (length (filter (fun e => P (kz (fst e))) m)) m
  = filter (fun e => negb (P (kz (fst e)))) m.
Proof.
  intros P m HP. induction m as [|e m IH]; intros Hs; [reflexivity|].
  apply msorted_cons in Hs. destruct Hs as [Hs Hall].
  cbn [filter]. destruct (P (kz (fst e))) eqn:Ep; cbn [negb length skipn].
  - apply IH. exact Hs.
  - assert (Hn : forall e', In e' m -> P (kz (fst e')) = false).
    { intros e' He'. destruct (P (kz (fst e'))) eqn:E'; [|reflexivity].
      rewrite (HP _ _ E' (Hall _ He')) in Ep. discriminate. }
    rewrite (RR_filter_none (fun e0 => P (kz (fst e0))) m Hn). cbn [length skipn].
    f_equal. symmetry. apply RR_filter_all. intros e' He'. rewrite (Hn _ He'). reflexivity.
Qed.

(* the entries after position p are those with a key greater than the key at p *)
Lemma skipn_S_filter : forall (m : amap) p e, m_sorted m -> nth_error m p = Some e ->
  skipn (S p) m = filter (fun e' => Z.ltb (kz (fst e)) (kz (fst e'))) m.
Proof.
  induction m as [|a m IH]; intros p e Hs Hn; [destruct p; discriminate|].
  apply msorted_cons in Hs. destruct Hs as [Hs Hall]. destruct p as [|p].
  - cbn in Hn. inversion Hn; subst a. cbn [skipn filter]. rewrite Z.ltb_irrefl.
    symmetry. apply RR_filter_all. intros e' He'. apply Z.ltb_lt. apply Hall. exact He'.
  - cbn [nth_error] in Hn. change (skipn (S (S p)) (a :: m)) with (skipn (S p) m).
    rewrite (IH p e Hs Hn). cbn [filter].
    pose proof (Hall _ (nth_error_In _ _ Hn)) as Hlt.
    destruct (Z.ltb_spec (kz (fst e)) (kz (fst a))); [lia|reflexivity].
Qed.

Lemma m_get_none_in : forall (m : amap) z e, m_get m z = None -> In e m -> kz (fst e) <> z.
Proof.
  induction m as [|[k v] m IH]; intros z e Hg Hin; [destruct Hin|].
  cbn [m_get] in Hg. destruct (Z.eqb_spec (kz k) z) as [Heq|Hne]; [discriminate|].
  destruct Hin as [<-|Hin]; [exact Hne|]. eapply IH; eauto.
Qed.

(* ------------------------------------------------------------------ *)
(* bounds *)

Definition lo_test (lo : bound) (z : Z) : bool :=
  match lo with Included a => Z.leb a z | Excluded a => Z.ltb a z | Unbounded => true end.
Definition hi_end (hi : bound) : option (Z * bool) :=
  match hi with Included z => Some (z, true) | Excluded z => Some (z, false) | Unbounded => None end.
Definition e_key (e : option (Z * bool)) : option Z :=
  match e with Some (z, _) => Some z | None => None end.
Definition e_incl (e : option (Z * bool)) : bool :=
  match e with Some (_, i) => i | None => false end.
Definition e_test (e : option (Z * bool)) (z : Z) : bool :=
  match e with Some (ez, true) => Z.ltb ez z | Some (ez, false) => Z.leb ez z | None => false end.

Lemma beyond_owned : forall e z, beyond None (e_key e) (e_incl e) z = e_test e z.
Proof. intros [[ez [|]]|] z; reflexivity. Qed.

Lemma beyond_borrowed : forall e z, beyond (e_key e) None (e_incl e) z = e_test e z.
Proof. intros [[ez [|]]|] z; reflexivity. Qed.

Lemma e_test_up : forall e, up_closed (e_test e).
Proof.
  intros [[ez [|]]|] a c H Hlt; cbn [e_test] in *; try discriminate.
  - apply Z.ltb_lt in H. apply Z.ltb_lt. lia.
  - apply Z.leb_le in H. apply Z.leb_le. lia.
Qed.

Lemma within_split : forall lo hi z,
  within lo hi z = andb (lo_test lo z) (negb (e_test (hi_end hi) z)).
Proof.
  intros lo hi z. unfold within. fold (lo_test lo z). f_equal.
  destruct hi as [a|a|]; cbn [hi_end e_test].
  - rewrite Z.ltb_antisym, negb_involutive. reflexivity.
  - rewrite Z.leb_antisym, negb_involutive. reflexivity.
  - reflexivity.
Qed.

(* the shape of every result: cut a lower-bound filtered sorted list at the end bound *)
Lemma cut_range : forall (m m' : amap) lo hi, m_sorted m' ->
  m' = filter (fun e => lo_test lo (kz (fst e))) m ->
  take_until (e_test (hi_end hi)) m' = m_range m lo hi.
Proof.
  intros m m' lo hi Hs E.
  rewrite (@take_until_filter _ m' (e_test_up (hi_end hi)) Hs). rewrite E, RR_filter_filter.
  unfold m_range. apply filter_ext. intros e. rewrite within_split. reflexivity.
Qed.

(* ------------------------------------------------------------------ *)
(* (2) range_next versus item_next: holds on every heap *)

Lemma collect_noskip : forall (h : heap) fuel (it : iter) fk,
  collect_f (range_next h) fuel (mkRiter (Some it) false fk) = collect_f (item_next h) fuel it.
Proof.
  intros h. induction fuel as [|f IH]; intros it fk; [reflexivity|].
  cbn [collect_f]. unfold range_next at 1. cbn [r_it r_skip r_first].
  destruct (item_next h it) as [[it1 [[k v]|]]| | |]; cbn [bind snd fst]; try reflexivity.
  rewrite IH. reflexivity.
Qed.

(* ------------------------------------------------------------------ *)
Section State.
Variable b : bstate V.
Variable h : heap.
Hypothesis HI : Inv b.
Hypothesis HH : heap_of b h.

Notation L := (leaves_of (root b)).
Notation m := (contents (root b)).

Lemma m_is_sorted : m_sorted m.
Proof.
  destruct (inv_shape HI) as (hgt & Sh). exact (contents_sorted (inv_ord HI) Sh).
Qed.

Lemma fuel_enough : forall p, length m - p < total_items_bound h.
Proof. intros p. pose proof (contents_lt_total_items_bound HI HH). lia. Qed.

(* an iterator without skipping, standing at p *)
Lemma collect_range_noskip : forall (it : iter) p fk, at_pos b it p ->
  collect_f (range_next h) (total_items_bound h) (mkRiter (Some it) false fk)
  = Ok (take_until (beyond (it_end_key it) (it_end_bound it) (it_incl it)) (skipn p m)).
Proof.
  intros it p fk Hp. rewrite collect_noskip.
  apply (collect_at_pos HI HH Hp). apply fuel_enough.
Qed.

(* skipping: the entry at p carries the remembered first key and is dropped *)
Lemma collect_range_skip : forall fuel (it : iter) p fk v, at_pos b it p ->
  nth_error m p = Some (fk, v) -> length m - p < fuel ->
  up_closed (beyond (it_end_key it) (it_end_bound it) (it_incl it)) ->
  collect_f (range_next h) fuel (mkRiter (Some it) true (Some fk))
  = Ok (take_until (beyond (it_end_key it) (it_end_bound it) (it_incl it)) (skipn (S p) m)).
Proof.
  intros fuel it p fk v Hp Hn Hf Hup. destruct fuel as [|f]; [lia|].
  cbn [collect_f]. unfold range_next at 1. cbn [r_it r_skip r_first].
  destruct (item_next_step HI HH Hp) as (it1 & r & E & (B1 & B2 & B3) & Hpost).
  rewrite E. cbn [bind]. unfold step_post' in Hpost.
  change (nth_error (contents (root b)) p) with (nth_error m p) in Hpost.
  rewrite Hn in Hpost. cbn [fst] in Hpost.
  destruct (beyond (it_end_key it) (it_end_bound it) (it_incl it) (kz fk)) eqn:Eb.
  - destruct Hpost as [-> _]. cbn [bind snd fst].
    symmetry. f_equal. apply take_until_all. intros e He.
    rewrite (@skipn_S_filter m p _ m_is_sorted Hn) in He. apply filter_In in He.
    destruct He as [_ He]. cbn [fst] in He. apply Z.ltb_lt in He.
    exact (Hup _ _ Eb He).
  - destruct Hpost as [-> Hp1]. rewrite Z.eqb_refl.
    destruct (item_next_step HI HH (p := S p) Hp1) as (it2 & r2 & E2 & _).
    assert (Hc : collect_f (item_next h) (S f) it1
                 = Ok (take_until (beyond (it_end_key it1) (it_end_bound it1) (it_incl it1))
                         (skipn (S p) m))).
    { apply (collect_at_pos HI HH (p := S p) Hp1). lia. }
    rewrite B1, B2, B3 in Hc. rewrite <- Hc.
    cbn [collect_f]. rewrite E2. cbn [bind snd fst].
    destruct r2 as [kv|]; [|reflexivity]. rewrite collect_noskip. reflexivity.
Qed.

(* (3) the start position found by the descent *)
Lemma find_pos : forall z, exists j id l,
  find_leaf_for_key_with_match h z = Ok (Some (id, lb (lkeys l) z, bfound (lkeys l) z)) /\
  nth_error L j = Some (id, l) /\ get_leaf h id = Some l /\
  lb (lkeys l) z <= length (lkeys l) /\
  offset L j + lb (lkeys l) z = length (filter (fun e => Z.ltb (kz (fst e)) z) m) /\
  (bfound (lkeys l) z = false -> m_get m z = None) /\
  (bfound (lkeys l) z = true -> exists k v,
     nth_error (lkeys l) (lb (lkeys l) z) = Some k /\ kz k = z /\
     nth_error m (offset L j + lb (lkeys l) z) = Some (k, v)).
Proof.
  intros z. destruct (find_spec z HI HH) as (j & id & l & i & E & Hn & -> & Hi & Hpos & Hiff).
  assert (Hin : In (id, l) L) by (eapply nth_error_In; eauto).
  exists j, id, l. split; [exact E|]. split; [exact Hn|]. split; [exact (L_get HH _ _ Hin)|].
  split; [exact Hi|]. split; [exact Hpos|]. split.
  - intros Hb. destruct (m_get m z) eqn:Eg; [|reflexivity].
    assert (Ht : bfound (lkeys l) z = true) by (apply Hiff; congruence). congruence.
  - intros Hb. apply bfound_true in Hb. destruct Hb as (k & Hk & Hkz).
    assert (Hlt : lb (lkeys l) z < length (lentries l)).
    { rewrite (L_lentries_len HI _ _ Hin). apply nth_error_Some. congruence. }
    destruct (nth_error (lentries l) (lb (lkeys l) z)) as [[k' v]|] eqn:Ee;
      [|apply nth_error_None in Ee; lia].
    pose proof Ee as Ee'. unfold lentries in Ee'. apply nth_error_combine in Ee'.
    destruct Ee' as [Hk' _]. assert (k' = k) by congruence. subst k'.
    exists k, v. split; [exact Hk|]. split; [exact Hkz|].
    rewrite (m_fm b), (nth_error_fm _ _ Hn Hlt). exact Ee.
Qed.

(* lower bound Included z / the unmatched Excluded z: entries from the first key >= z *)
Lemma skipn_lower : forall z,
  skipn (length (filter (fun e => Z.ltb (kz (fst e)) z) m)) m
  = filter (fun e => Z.leb z (kz (fst e))) m.
Proof.
  intros z.
  rewrite (@skipn_filter (fun k => Z.ltb k z) m); [|intros a c Hc Hlt|exact m_is_sorted].
  - apply filter_ext. intros e. rewrite Z.leb_antisym. reflexivity.
  - apply Z.ltb_lt in Hc. apply Z.ltb_lt. lia.
Qed.

(* the iterator built by range_new for a leaf of the tree *)
Lemma range_new_leaf : forall id l idx skip e, get_leaf h id = Some l ->
  range_new h (Some (id, idx)) skip e
  = mkRiter (Some (mkIter (Some id) (Some l) idx None (e_key e) (e_incl e))) skip
            (if skip then nth_error (lkeys l) idx else None).
Proof.
  intros id l idx skip e Hg. unfold range_new. rewrite Hg. reflexivity.
Qed.

Theorem range_spec_st : forall lo hi, range_collect h lo hi = Ok (m_range m lo hi).
Proof.
  intros lo hi. unfold range_collect, range, resolve_range_bounds.
  fold (hi_end hi). set (e := hi_end hi).
  assert (Hup : up_closed (beyond None (e_key e) (e_incl e))).
  { intros a c Ha Hlt. rewrite beyond_owned in *. exact (e_test_up e Ha Hlt). }
  destruct lo as [z|z|].
  - (* Included *)
    destruct (find_pos z) as (j & id & l & E & Hn & Hg & Hi & Hpos & _ & _).
    rewrite E. cbn [bind fst snd]. rewrite (@range_new_leaf id l _ _ _ Hg).
    pose proof (at_pos_leaf b j (Some id) (lb (lkeys l) z) None (e_key e) (e_incl e) Hn) as Hp.
    rewrite Nat.min_l in Hp by exact Hi.
    rewrite (collect_range_noskip None Hp). cbn [it_end_key it_end_bound it_incl].
    f_equal. rewrite (@take_until_ext _ _ _ (beyond_owned e)).
    apply cut_range; [apply msorted_skipn; exact m_is_sorted|].
    rewrite Hpos. apply skipn_lower.
  - (* Excluded *)
    destruct (find_pos z) as (j & id & l & E & Hn & Hg & Hi & Hpos & Hnf & Hf).
    rewrite E. cbn [bind fst snd]. rewrite (@range_new_leaf id l _ _ _ Hg).
    pose proof (at_pos_leaf b j (Some id) (lb (lkeys l) z) None (e_key e) (e_incl e) Hn) as Hp.
    rewrite Nat.min_l in Hp by exact Hi.
    destruct (bfound (lkeys l) z) eqn:Eb.
    + destruct (Hf eq_refl) as (k & v & Hk & Hkz & Hm). rewrite Hk.
      rewrite (collect_range_skip Hp Hm (fuel_enough _) Hup).
      cbn [it_end_key it_end_bound it_incl].
      f_equal. rewrite (@take_until_ext _ _ _ (beyond_owned e)).
      apply cut_range; [apply msorted_skipn; exact m_is_sorted|].
      rewrite (@skipn_S_filter m _ _ m_is_sorted Hm). cbn [fst lo_test]. rewrite Hkz. reflexivity.
    + rewrite (collect_range_noskip None Hp). cbn [it_end_key it_end_bound it_incl].
      f_equal. rewrite (@take_until_ext _ _ _ (beyond_owned e)).
      apply cut_range; [apply msorted_skipn; exact m_is_sorted|].
      rewrite Hpos, skipn_lower. cbn [lo_test].
      apply filter_ext_in. intros x Hx. pose proof (@m_get_none_in m z x (Hnf eq_refl) Hx) as Hne.
      destruct (Z.leb_spec z (kz (fst x))); destruct (Z.ltb_spec z (kz (fst x)));
        try reflexivity; lia.
  - (* Unbounded *)
    destruct (Walk.first_leaf_spec HI HH) as (id & l & E & Hn & Hg).
    rewrite E. cbn [bind fst snd]. rewrite (@range_new_leaf id l _ _ _ Hg).
    pose proof (at_pos_leaf b 0 (Some id) 0 None (e_key e) (e_incl e) Hn) as Hp.
    rewrite offset_0, Nat.min_0_l in Hp. cbn [plus] in Hp.
    rewrite (collect_range_noskip None Hp). cbn [it_end_key it_end_bound it_incl skipn].
    f_equal. rewrite (@take_until_ext _ _ _ (beyond_owned e)).
    apply cut_range; [exact m_is_sorted|].
    cbn [lo_test]. symmetry. apply RR_filter_all. reflexivity.
Qed.

Theorem items_range_spec_st : forall s e,
  items_range_collect h s e = Ok (m_range m (opt_bound_lo s) (opt_bound_hi e)).
Proof.
  intros s e. rewrite <- range_spec_st. reflexivity.
Qed.

Theorem from_position_spec_st : forall j id l idx e,
  nth_error L j = Some (id, l) ->
  from_position_collect h id idx e
  = Ok (take_until (e_test e) (skipn (offset L j + Nat.min idx (length (lkeys l))) m)).
Proof.
  intros j id l idx e Hn. unfold from_position_collect, from_position.
  rewrite (L_get HH _ _ (nth_error_In _ _ Hn)).
  fold (e_key e). fold (e_incl e).
  rewrite (collect_from_pos j idx (Some id) (e_key e) None (e_incl e) HI HH Hn)
    by apply (contents_lt_total_items_bound HI HH).
  f_equal. apply take_until_ext. apply beyond_borrowed.
Qed.

(* the leaf chain walked from any leaf of the tree *)
Lemma chain_walk : forall fuel j id l, nth_error L j = Some (id, l) -> length L - j < fuel ->
  chain_ids fuel h (Some id) = Ok (map fst (skipn j L)).
Proof.
  induction fuel as [|f IH]; intros j id l Hn Hf; [lia|].
  assert (Hin : In (id, l) L) by (eapply nth_error_In; eauto).
  assert (Hj : j < length L) by (apply nth_error_Some; congruence).
  cbn [chain_ids]. rewrite (L_get HH _ _ Hin). rewrite (L_next HI _ Hn).
  rewrite (skipn_nth_cons _ _ Hn). cbn [map fst].
  destruct (nth_error L (S j)) as [[id' l']|] eqn:En.
  - rewrite (L_nonnull HH _ _ (nth_error_In _ _ En)).
    rewrite (IH (S j) id' l' En) by lia. reflexivity.
  - rewrite N.eqb_refl. destruct f as [|f']; [lia|]. cbn [chain_ids bind].
    apply nth_error_None in En. rewrite skipn_all2 by exact En. reflexivity.
Qed.

Lemma chain_nth_spec : forall p,
  chain_nth h p = Ok (option_map fst (nth_error L p)).
Proof.
  intros p. unfold chain_nth.
  destruct (Walk.first_leaf_spec HI HH) as (id & l & E & Hn & _).
  rewrite E. cbn [bind].
  rewrite (@chain_walk (S (S (length (store (hleaves h))))) 0 id l Hn)
    by (pose proof (L_count HI HH); lia).
  cbn [bind skipn]. rewrite nth_error_map'. reflexivity.
Qed.

Lemma chain_ids_spec : exists fid, get_first_leaf_id h = Ok (Some fid) /\
  chain_ids (S (S (length (store (hleaves h))))) h (Some fid) = Ok (leaf_ids (root b)).
Proof.
  destruct (Walk.first_leaf_spec HI HH) as (id & l & E & Hn & _).
  exists id. split; [exact E|].
  rewrite (@chain_walk (S (S (length (store (hleaves h))))) 0 id l Hn)
    by (pose proof (L_count HI HH); lia).
  cbn [skipn]. rewrite leaves_ids. reflexivity.
Qed.

End State.

(* ------------------------------------------------------------------ *)
(* (4) public statements *)

Theorem range_spec : forall (b : bstate V) (h : heap), Inv b -> heap_of b h ->
  forall lo hi, range_collect h lo hi = Ok (m_range (contents (root b)) lo hi).
Proof. intros b h HI HH lo hi. exact (range_spec_st HI HH lo hi). Qed.

Theorem items_range_spec : forall (b : bstate V) (h : heap), Inv b -> heap_of b h ->
  forall s e, items_range_collect h s e
              = Ok (m_range (contents (root b)) (opt_bound_lo s) (opt_bound_hi e)).
Proof. intros b h HI HH s e. exact (items_range_spec_st HI HH s e). Qed.

Theorem from_position_spec : forall (b : bstate V) (h : heap), Inv b -> heap_of b h ->
  forall j id l idx e,
  nth_error (leaves_of (root b)) j = Some (id, l) ->
  from_position_collect h id idx e
  = Ok (take_until (fun z => match e with Some (ez, true) => Z.ltb ez z
                                      | Some (ez, false) => Z.leb ez z | None => false end)
          (skipn (offset (leaves_of (root b)) j + Nat.min idx (length (lkeys l)))
                 (contents (root b)))).
Proof. intros b h HI HH j id l idx e Hn. exact (@from_position_spec_st b h HI HH j id l idx e Hn). Qed.

Theorem from_pos_op_spec : forall (b : bstate V), Inv b -> heap_of b (flatten b) ->
  forall p idx e,
  snd (step b (OFromPos p idx e)) =
  match nth_error (leaves_of (root b)) p with
  | Some (id, l) =>
      UList (take_until (fun z => match e with Some (ez, true) => Z.ltb ez z
                                          | Some (ez, false) => Z.leb ez z | None => false end)
               (skipn (offset (leaves_of (root b)) p + Nat.min idx (length (lkeys l)))
                      (contents (root b))))
  | None => UList []
  end.
Proof.
  intros b HI HH p idx e. cbn [step snd]. rewrite (chain_nth_spec HI HH p).
  cbn [bind]. destruct (nth_error (leaves_of (root b)) p) as [[id l]|] eqn:En; cbn [option_map fst].
  - rewrite (@from_position_spec b (flatten b) HI HH p id l idx e En). reflexivity.
  - reflexivity.
Qed.

End ReadersRange.

Print Assumptions range_spec.
Print Assumptions items_range_spec.
Print Assumptions from_position_spec.
Print Assumptions from_pos_op_spec.
