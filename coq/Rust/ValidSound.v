(* C14, soundness half: whatever heap the validators are run on (damaged or not), an
   accepting answer means the documented conditions hold for every reachable node; hence a
   reachable node showing one of the documented kinds of damage is never accepted.
   Also: the refusing paths of try_insert / try_remove leave the map unchanged. *)
From Coq Require Import List Arith ZArith NArith Lia Bool Permutation.
From BPT Require Import Common.Base Common.AMap Rust.Arena Rust.Tree Rust.Heap Rust.Readers
  Rust.Run Rust.InvDefs Rust.Lib Rust.ValidDefs Rust.Damage.
Set Implicit Arguments.

(* ------------------------------------------------------------------ *)
(* list helpers *)

Lemma VS_in_combine_seq : forall (A : Type) (l : list A) s i c,
  nth_error l i = Some c -> In (s + i, c) (combine (seq s (length l)) l).
Proof.
  induction l as [|x l IH]; intros s i c H.
  - destruct i; discriminate.
  - cbn [length seq combine]. destruct i as [|i]; cbn [nth_error] in H.
    + inversion H; subst. left. f_equal. lia.
    + right. replace (s + S i) with (S s + i) by lia. apply IH. exact H.
Qed.

Lemma VS_in_combine_seq0 : forall (A : Type) (l : list A) i c,
  nth_error l i = Some c -> In (i, c) (combine (seq 0 (length l)) l).
Proof. intros A l i c H. exact (VS_in_combine_seq l 0 i H). Qed.

Lemma VS_in_combine_seq_inv : forall (A : Type) (l : list A) s i c,
  In (i, c) (combine (seq s (length l)) l) -> s <= i /\ nth_error l (i - s) = Some c.
Proof.
  induction l as [|x l IH]; intros s i c H.
  - destruct H.
  - cbn [length seq combine] in H. destruct H as [H|H].
    + inversion H; subst. split; [lia|]. rewrite Nat.sub_diag. reflexivity.
    + apply IH in H. destruct H as [H1 H2]. split; [lia|].
      replace (i - s) with (S (i - S s)) by lia. exact H2.
Qed.

(* ------------------------------------------------------------------ *)
(* all_res *)

Definition all_step (acc r : res bool) : res bool :=
  do a <- acc; if (a : bool) then r else Ok false.

Lemma all_res_unfold : forall l, all_res l = fold_left all_step l (Ok true).
Proof. reflexivity. Qed.

Lemma all_step_true : forall acc r, all_step acc r = Ok true -> acc = Ok true /\ r = Ok true.
Proof.
  intros [[|]| | |] r H; cbn in H; try discriminate. auto.
Qed.

Lemma all_fold_true : forall l acc, fold_left all_step l acc = Ok true ->
  acc = Ok true /\ forall r, In r l -> r = Ok true.
Proof.
  induction l as [|x l IH]; intros acc H.
  - cbn in H. split; [exact H|]. intros r [].
  - cbn [fold_left] in H. apply IH in H. destruct H as [H1 H2].
    apply all_step_true in H1. destruct H1 as [Ha Hx]. split; [exact Ha|].
    intros r [<-|Hr]; auto.
Qed.

Lemma all_res_true : forall l, all_res l = Ok true -> forall r, In r l -> r = Ok true.
Proof.
  intros l H. rewrite all_res_unfold in H. apply all_fold_true in H. apply H.
Qed.

Lemma all_res_intro : forall l, (forall r, In r l -> r = Ok true) -> all_res l = Ok true.
Proof.
  intros l H. rewrite all_res_unfold.
  induction l as [|x l IH]; [reflexivity|].
  cbn [fold_left]. rewrite (H x) by (left; reflexivity). cbn [all_step bind].
  apply IH. intros r Hr. apply H. right. exact Hr.
Qed.

(* ------------------------------------------------------------------ *)
(* sort_ids / list_eqb *)

Lemma list_eqb_eq : forall a b, list_eqb a b = true -> a = b.
Proof.
  induction a as [|x a IH]; intros [|y b] H; cbn [list_eqb] in H; try discriminate; auto.
  apply andb_true_iff in H. destruct H as [H1 H2]. apply N.eqb_eq in H1. subst y.
  f_equal. apply IH. exact H2.
Qed.

Lemma list_eqb_refl : forall a, list_eqb a a = true.
Proof.
  induction a as [|x a IH]; [reflexivity|]. cbn [list_eqb]. rewrite N.eqb_refl, IH. reflexivity.
Qed.

Lemma insert_sorted_perm : forall x l, Permutation (insert_sorted x l) (x :: l).
Proof.
  intros x l. induction l as [|y l IH]; [apply Permutation_refl|].
  cbn [insert_sorted]. destruct (N.leb x y); [apply Permutation_refl|].
  eapply Permutation_trans; [apply perm_skip; exact IH|apply perm_swap].
Qed.

Lemma sort_ids_perm : forall l, Permutation (sort_ids l) l.
Proof.
  unfold sort_ids. induction l as [|x l IH]; [apply Permutation_refl|].
  cbn [fold_right]. eapply Permutation_trans; [apply insert_sorted_perm|].
  apply perm_skip. exact IH.
Qed.

Lemma sort_ids_eq_perm : forall a b, list_eqb (sort_ids a) (sort_ids b) = true -> Permutation a b.
Proof.
  intros a b H. apply list_eqb_eq in H.
  eapply Permutation_trans; [apply Permutation_sym, sort_ids_perm|].
  rewrite H. apply sort_ids_perm.
Qed.

(* ------------------------------------------------------------------ *)
(* leaf key bounds: the validator looks only at the first and at the last key *)

Lemma leaf_bounds_all : forall ks lo hi,
  sorted_keys ks ->
  match lo, ks with Some m, k :: _ => negb (Z.ltb (kz k) m) | _, _ => true end = true ->
  match hi, last_opt ks with Some m, Some k => negb (Z.leb m (kz k)) | _, _ => true end = true ->
  Forall (in_bounds lo hi) ks.
Proof.
  intros ks lo hi S Hlo Hhi. apply Forall_forall. intros k Hin. split.
  - destruct lo as [m|]; [|exact I]. cbn [lo_ok].
    destruct ks as [|k0 t]; [destruct Hin|].
    apply negb_true_iff in Hlo. apply Z.ltb_ge in Hlo.
    apply sorted_keys_cons in S. destruct S as [_ S].
    destruct Hin as [<-|Hin]; [exact Hlo|]. specialize (S k Hin). lia.
  - destruct hi as [m|]; [|exact I]. cbn [hi_ok].
    destruct (exists_last (l := ks)) as (r & x & E).
    { intros ->. destruct Hin. }
    subst ks. rewrite last_opt_app in Hhi.
    apply negb_true_iff in Hhi. apply Z.leb_gt in Hhi.
    apply sorted_keys_app in S. destruct S as (_ & _ & S).
    apply in_app_or in Hin. destruct Hin as [Hin|[<-|[]]]; [|exact Hhi].
    specialize (S k x Hin (or_introl eq_refl)). lia.
Qed.

Lemma leaf_bounds_first : forall ks lo hi, Forall (in_bounds lo hi) ks ->
  match lo, ks with Some m, k :: _ => negb (Z.ltb (kz k) m) | _, _ => true end = true.
Proof.
  intros ks lo hi F. destruct lo as [m|]; [|reflexivity]. destruct ks as [|k t]; [reflexivity|].
  inversion F as [|? ? [H1 _] _]; subst. cbn [lo_ok] in H1.
  apply negb_true_iff. apply Z.ltb_ge. exact H1.
Qed.

Lemma leaf_bounds_last : forall ks lo hi, Forall (in_bounds lo hi) ks ->
  match hi, last_opt ks with Some m, Some k => negb (Z.leb m (kz k)) | _, _ => true end = true.
Proof.
  intros ks lo hi F. destruct hi as [m|]; [|reflexivity].
  destruct ks as [|k0 t]; [reflexivity|].
  destruct (exists_last (l := k0 :: t)) as (r & x & E); [discriminate|].
  rewrite E in *. rewrite last_opt_app. rewrite Forall_forall in F.
  destruct (F x) as [_ H2]; [apply in_or_app; right; left; reflexivity|].
  cbn [hi_ok] in H2. apply negb_true_iff. apply Z.leb_gt. exact H2.
Qed.

(* ------------------------------------------------------------------ *)
Section ValidSound.
Variable V : Type.

Lemma strictly_asc_sorted : forall ks, strictly_asc ks = true <-> sorted_keys ks.
Proof.
  induction ks as [|a ks IH].
  - cbn. tauto.
  - destruct ks as [|b t].
    + cbn. tauto.
    + change (strictly_asc (a :: b :: t)) with (andb (Z.ltb (kz a) (kz b)) (strictly_asc (b :: t))).
      change (sorted_keys (a :: b :: t)) with ((kz a < kz b)%Z /\ sorted_keys (b :: t)).
      rewrite andb_true_iff, Z.ltb_lt, IH. tauto.
Qed.

Theorem check_node_sound : forall fuel (h : heap V) r lo hi isroot,
  check_node fuel h r lo hi isroot = Ok true -> hwf h isroot lo hi r.
Proof.
  induction fuel as [|f IH]; intros h r lo hi isroot H; [discriminate|].
  cbn [check_node] in H. destruct r as [id|id].
  - destruct (get_leaf h id) as [l|] eqn:Eg; [|discriminate].
    inversion H as [H0]; clear H.
    apply andb_true_iff in H0. destruct H0 as [H1 H0].
    apply andb_true_iff in H0. destruct H0 as [H2 H0].
    apply andb_true_iff in H0. destruct H0 as [H3 H0].
    apply andb_true_iff in H0. destruct H0 as [H4 H0].
    apply andb_true_iff in H0. destruct H0 as [H5 H6].
    apply Nat.eqb_eq in H1. apply strictly_asc_sorted in H2. apply Nat.leb_le in H3.
    apply hwf_leaf with (l := l); auto.
    + intros ->. rewrite orb_false_r in H4. apply negb_true_iff in H4.
      apply Nat.ltb_ge in H4. exact H4.
    + apply leaf_bounds_all; auto.
  - destruct (get_branch h id) as [x|] eqn:Eg; [|discriminate].
    destruct (Nat.eqb (S (length (bkeys x))) (length (bkids x))) eqn:E1;
      cbn [negb] in H; [|discriminate].
    destruct (strictly_asc (bkeys x)) eqn:E2; cbn [negb] in H; [|discriminate].
    destruct (Nat.ltb (hcap h) (length (bkeys x))) eqn:E3; [discriminate|].
    destruct (andb (Nat.ltb (length (bkeys x)) (bcap x / 2)) (negb isroot)) eqn:E4; [discriminate|].
    apply Nat.eqb_eq in E1. apply strictly_asc_sorted in E2. apply Nat.ltb_ge in E3.
    revert H. destruct (bkids x) as [|c0 l0] eqn:Ek; [discriminate|]. rewrite <- Ek. intro H.
    rewrite <- Ek in E1. clear Ek c0 l0.
    apply hwf_branch with (x := x); auto.
    + intros ->. rewrite andb_true_r in E4. apply Nat.ltb_ge in E4. exact E4.
    + intros i c Hn.
      pose proof (all_res_true _ H) as Hall.
      specialize (Hall _ (in_map _ _ _ (VS_in_combine_seq0 _ _ Hn))).
      cbn [fst snd] in Hall.
      destruct (child_bounds (bkeys x) lo hi i) as [lo' hi'] eqn:Ecb. cbn [fst snd].
      apply IH. exact Hall.
Qed.

Theorem check_sound : forall (h : heap V), check_invariants h = Ok true -> hwf h true None None (hroot h).
Proof.
  intros h H. unfold check_invariants in H. eapply check_node_sound; eauto.
Qed.

Lemma hwf_reach : forall (h : heap V), hwf h true None None (hroot h) ->
  forall r isroot lo hi, hreach h r isroot lo hi -> hwf h isroot lo hi r.
Proof.
  intros h Hw r isroot lo hi Hr.
  induction Hr as [|id x isroot lo hi i c Hr IH Hg Hn]; [exact Hw|].
  inversion IH as [|? ? ? ? x' Hg' _ _ _ _ Hk]; subst.
  rewrite Hg in Hg'. inversion Hg'; subst x'. apply Hk. exact Hn.
Qed.

Lemma hwf_node_ok : forall (h : heap V) r isroot lo hi, hwf h isroot lo hi r -> node_ok h r isroot lo hi.
Proof.
  intros h r isroot lo hi H. inversion H; subst; cbn [node_ok].
  - eexists; repeat split; eauto.
  - eexists; repeat split; eauto.
Qed.

(* the property in its own words: any reachable node showing one of the documented kinds
   of damage makes check_invariants answer something other than `true` *)
Theorem damaged_rejected : forall (h : heap V) r isroot lo hi,
  hreach h r isroot lo hi -> ~ node_ok h r isroot lo hi -> check_invariants h <> Ok true.
Proof.
  intros h r isroot lo hi Hr Hn Hc. apply Hn. apply hwf_node_ok.
  eapply hwf_reach; eauto. apply check_sound. exact Hc.
Qed.

Ltac inv_bind H :=
  match type of H with
  | bind ?r _ = Ok _ => let E := fresh "E" in destruct r eqn:E; cbn [bind] in H; try discriminate
  end.

Theorem detailed_sound : forall (h : heap V), check_invariants_detailed h = Ok None ->
  hwf h true None None (hroot h) /\
  (exists ks, keys h = Ok ks /\ sorted_keys ks /\ len h = Ok (length ks)) /\
  (exists nl nb, count_nodes_in_tree h = Ok (nl, nb) /\ nl = a_len (hleaves h) /\ nb = a_len (hbranches h)) /\
  (exists tids fid cids, collect_leaf_ids h = Ok tids /\ get_first_leaf_id h = Ok fid /\
      chain_ids (S (S (length (store (hleaves h))))) h fid = Ok cids /\ Permutation tids cids).
Proof.
  intros h H. unfold check_invariants_detailed in H.
  inv_bind H. rename a into ok. destruct ok; cbn [negb] in H; [|discriminate].
  inv_bind H. rename a into ks.
  destruct (strictly_asc ks) eqn:Esa; cbn [negb] in H; [|discriminate].
  inv_bind H. rename a into n.
  destruct (Nat.eqb (length ks) n) eqn:En; cbn [negb] in H; [|discriminate].
  inv_bind H. rename a into cnt.
  destruct (Nat.eqb (fst cnt) (a_len (hleaves h))) eqn:Ecl; cbn [negb] in H; [|discriminate].
  destruct (Nat.eqb (snd cnt) (a_len (hbranches h))) eqn:Ecb; cbn [negb] in H; [|discriminate].
  inv_bind H. rename a into tids.
  inv_bind H. rename a into fid.
  inv_bind H. rename a into cids.
  destruct (list_eqb (sort_ids tids) (sort_ids cids)) eqn:Ele; cbn [negb] in H; [|discriminate].
  apply Nat.eqb_eq in En, Ecl, Ecb. apply strictly_asc_sorted in Esa.
  split; [apply check_sound; assumption|].
  split; [exists ks; subst n; auto|].
  split; [exists (fst cnt), (snd cnt); destruct cnt; auto|].
  exists tids, fid, cids. repeat split; auto. apply sort_ids_eq_perm. exact Ele.
Qed.

Theorem detailed_rejects_damage : forall (h : heap V) r isroot lo hi,
  hreach h r isroot lo hi -> ~ node_ok h r isroot lo hi -> check_invariants_detailed h <> Ok None.
Proof.
  intros h r isroot lo hi Hr Hn Hc. apply detailed_sound in Hc. destruct Hc as [Hw _].
  apply Hn. apply hwf_node_ok. eapply hwf_reach; eauto.
Qed.

Theorem validate_same : forall (h : heap V),
  validate h = check_invariants_detailed h /\ validate_for_operation h = check_invariants_detailed h.
Proof. intros h. split; reflexivity. Qed.

Theorem try_refuse_heap : forall (h : heap V) e k v z, check_invariants_detailed h = Ok (Some e) ->
  hstep h (OTryInsert k v) = Some (UResOpt None (Some (DataIntegrity e))) /\
  hstep h (OTryRemove z) = Some (URes None (Some (DataIntegrity e))).
Proof.
  intros h e k v z H. unfold hstep. rewrite H. split; reflexivity.
Qed.

Theorem try_refuse_state : forall (b : bstate V) e k v z, check_invariants_detailed (flatten b) = Ok (Some e) ->
  try_insert b k v = Ok (b, None, Some (DataIntegrity e)) /\ try_remove b z = Ok (b, None, Some (DataIntegrity e)).
Proof.
  intros b e k v z H. unfold try_insert, try_remove. rewrite H. cbn [bind]. split; reflexivity.
Qed.

End ValidSound.

(* ------------------------------------------------------------------ *)
(* Non-vacuity: a concrete 3-level map is accepted; each documented kind of damage,
   injected with the edits of Rust/Damage.v, is rejected by the transcribed validators. *)
Module ValidSoundExamples.

Definition ex_ins (b : res (bstate Z)) (z : Z) : res (bstate Z) :=
  do s <- b; do r <- b_insert s (mkKey z 0%N) z; Ok (fst r).

Definition ex_state : res (bstate Z) :=
  match b_new Z 4 with
  | Some b => fold_left ex_ins (map Z.of_nat (seq 1 20)) (Ok b)
  | None => Panic 0
  end.

Definition ex_heap : heap Z :=
  match ex_state with
  | Ok b => flatten b
  | _ => mkHeap 0 (RLeaf NULL) a_new a_new
  end.

Definition dmg (e : edit Z) : heap Z := apply_edit ex_heap e.

Example ex_three_levels :
  match ex_state with Ok b => height (root b) | _ => 0 end = 2.
Proof. vm_compute. reflexivity. Qed.

Example ex_valid : check_invariants ex_heap = Ok true.
Proof. vm_compute. reflexivity. Qed.

Example ex_valid_detailed : check_invariants_detailed ex_heap = Ok None.
Proof. vm_compute. reflexivity. Qed.

(* unsorted keys / key outside the parent's interval *)
Example ex_leaf_key : check_invariants (dmg (@ELeafKey Z 1 0 1000)) = Ok false.
Proof. vm_compute. reflexivity. Qed.

Example ex_branch_key : check_invariants (dmg (@EBranchKey Z 0 0 1000)) = Ok false.
Proof. vm_compute. reflexivity. Qed.

(* key and value counts differ *)
Example ex_pop_val : check_invariants (dmg (@ELeafPopVal Z 0)) = Ok false.
Proof. vm_compute. reflexivity. Qed.

Example ex_push_key : check_invariants (dmg (@ELeafPushKey Z 0 (mkKey 100 0%N))) = Ok false.
Proof. vm_compute. reflexivity. Qed.

(* children count differs from keys + 1 *)
Example ex_pop_child : check_invariants (dmg (@EBranchPopChild Z 0)) = Ok false.
Proof. vm_compute. reflexivity. Qed.

Example ex_dup_child : check_invariants (dmg (@EBranchDupChild Z 1)) = Ok false.
Proof. vm_compute. reflexivity. Qed.

(* below minimum occupancy *)
Example ex_trunc : check_invariants (dmg (@ELeafTrunc Z 1 1)) = Ok false.
Proof. vm_compute. reflexivity. Qed.

(* reference to an unallocated node *)
Example ex_dangling : check_invariants (dmg (@EBranchRef Z 1 0 77%N)) = Ok false.
Proof. vm_compute. reflexivity. Qed.

Example ex_free_leaf : check_invariants (dmg (@EFreeLeaf Z 2)) = Ok false.
Proof. vm_compute. reflexivity. Qed.

(* damage only the detailed validator sees *)
Example ex_chain_cut : check_invariants_detailed (dmg (@ELeafNext Z 0 TNull)) = Ok (Some E_COUNT).
Proof. vm_compute. reflexivity. Qed.

Example ex_orphan_leaf : check_invariants_detailed (dmg (@EOrphanLeaf Z)) = Ok (Some E_LEAF_ARENA).
Proof. vm_compute. reflexivity. Qed.

Example ex_orphan_branch : check_invariants_detailed (dmg (@EOrphanBranch Z)) = Ok (Some E_BRANCH_ARENA).
Proof. vm_compute. reflexivity. Qed.

(* and the checked mutators refuse such a heap *)
Example ex_refuse :
  hstep (dmg (@EOrphanLeaf Z)) (OTryInsert (mkKey 5 0%N) 5%Z)
  = Some (UResOpt None (Some (DataIntegrity E_LEAF_ARENA))).
Proof. vm_compute. reflexivity. Qed.

End ValidSoundExamples.

Print Assumptions check_node_sound.
Print Assumptions damaged_rejected.
Print Assumptions detailed_sound.
Print Assumptions detailed_rejects_damage.
Print Assumptions try_refuse_heap.
Print Assumptions try_refuse_state.
