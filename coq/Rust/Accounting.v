(* C11 — the map never leaks or duplicates the key and value objects it stores.
   For a heap laid out from a state that satisfies the invariant:
   - the value objects found in ALL slots of the leaf arena (freed slots included) are,
     as a multiset, exactly the values of the live entries ([values_accounted]);
   - the key objects found in all slots of both arenas are exactly the entry keys plus
     the separator keys of the reachable branches ([keys_accounted]);
   - freed slots hold no keys, values or child references ([freed_slots_empty]).
   Keys carry an object identity ([kid]), so "Permutation" really counts objects. *)
From Coq Require Import List Arith ZArith NArith Lia Bool Permutation.
From BPT Require Import Common.Base Common.AMap Rust.Arena Rust.Tree Rust.Heap Rust.Readers
  Rust.InvDefs Rust.Repr Rust.Lib Rust.InsertMeta Rust.TreeFactsI Rust.Bridge Rust.ReadersGet.
Import ListNotations.
Set Implicit Arguments.

(* ------------------------------------------------------------------ *)
(* generic list facts *)

Lemma AC_flat_map_seq : forall (A B : Type) (f : A -> list B) (d : A) (st : list A) s,
  flat_map f st = flat_map (fun i => f (nth (i - s) st d)) (seq s (length st)).
Proof.
  induction st as [|x st IH]; intros s; [reflexivity|].
  cbn [length seq flat_map]. rewrite Nat.sub_diag. cbn [nth]. f_equal.
  rewrite (IH (S s)). apply RG_flat_map_ext_in. intros i Hi. apply in_seq in Hi.
  replace (i - s) with (S (i - S s)) by lia. reflexivity.
Qed.

Lemma AC_flat_map_seq0 : forall (A B : Type) (f : A -> list B) (d : A) (st : list A),
  flat_map f st = flat_map (fun i => f (nth i st d)) (seq 0 (length st)).
Proof.
  intros A B f d st. rewrite (AC_flat_map_seq f d st 0).
  apply RG_flat_map_ext_in. intros i _. rewrite Nat.sub_0_r. reflexivity.
Qed.

Lemma AC_flat_map_filter : forall (A B : Type) (g : A -> list B) (p : A -> bool) (l : list A),
  (forall x, In x l -> p x = false -> g x = []) ->
  flat_map g l = flat_map g (filter p l).
Proof.
  induction l as [|x l IH]; intros H; [reflexivity|].
  cbn [flat_map filter].
  assert (IH' : flat_map g l = flat_map g (filter p l)).
  { apply IH. intros y Hy. apply H. right; exact Hy. }
  destruct (p x) eqn:E.
  - cbn [flat_map]. rewrite IH'. reflexivity.
  - rewrite (H x (or_introl eq_refl) E). cbn [app]. exact IH'.
Qed.

Lemma AC_flat_map_map : forall (A B C : Type) (g : B -> list C) (f : A -> B) (l : list A),
  flat_map g (map f l) = flat_map (fun x => g (f x)) l.
Proof.
  induction l as [|x l IH]; [reflexivity|]. cbn [map flat_map]. rewrite IH. reflexivity.
Qed.

Lemma AC_map_fst_combine : forall (A B : Type) (l : list A) (r : list B),
  length r = length l -> map fst (combine l r) = l.
Proof.
  induction l as [|a l IH]; intros [|b r] L; cbn in *; try reflexivity; try discriminate.
  f_equal. apply IH. lia.
Qed.

Lemma AC_map_snd_combine : forall (A B : Type) (l : list A) (r : list B),
  length r = length l -> map snd (combine l r) = r.
Proof.
  induction l as [|a l IH]; intros [|b r] L; cbn in *; try reflexivity; try discriminate.
  f_equal. apply IH. lia.
Qed.

(* ------------------------------------------------------------------ *)
(* arena facts *)

(* a successful lookup reads the slot whose index is the id *)
Lemma a_get_store : forall (T : Type) (a : arena T) id x, a_get a id = Some x ->
  nth_error (store a) (N.to_nat id) = Some x /\ N.to_nat id < length (store a).
Proof.
  intros T a id x. unfold a_get.
  destruct (N.eqb id NULL); [discriminate|]. unfold idx.
  destruct (N.ltb_spec id (N.of_nat (length (store a)))) as [Hlt|Hge].
  - destruct (andb _ _); [|discriminate]. intros H. split; [exact H|lia].
  - rewrite Nat.ltb_irrefl. cbn [andb]. discriminate.
Qed.

(* the allocated slot indices are exactly the ids, each once *)
Lemma meta_slots_perm : forall m ids, meta_ok m ids ->
  Permutation (filter (m_mask_at m) (seq 0 (length (m_mask m)))) (map N.to_nat ids).
Proof.
  intros m ids (ND & Hin & _ & _).
  apply NoDup_Permutation.
  - apply NoDup_filter, seq_NoDup.
  - apply RG_NoDup_map_inj; [|exact ND]. intros x y. apply N2Nat.inj.
  - intros i. split.
    + intros Hi. apply filter_In in Hi. destruct Hi as (_ & Hi).
      apply in_map_iff. exists (N.of_nat i). split; [apply Nat2N.id|].
      apply Hin. rewrite Nat2N.id. exact Hi.
    + intros Hi. apply in_map_iff in Hi. destruct Hi as (id & <- & Hi).
      apply Hin in Hi. apply filter_In. split; [|exact Hi].
      apply in_seq. apply m_mask_at_lt in Hi. lia.
Qed.

(* The objects held by a whole arena store, as seen through [f] (keys, values, ...):
   when the allocated slots are the nodes listed in [L] (id, record) and every other slot
   holds a record [d] on which [f] is empty, the store holds exactly what the nodes of [L]
   hold. *)
Lemma store_accounted : forall (T B : Type) (f : T -> list B) (d : T) (st : list T)
  (m : ameta) (L : list (N * T)),
  meta_ok m (map fst L) ->
  length st = length (m_mask m) ->
  f d = [] ->
  (forall id x, In (id, x) L -> nth_error st (N.to_nat id) = Some x) ->
  (forall i, i < length st -> m_mask_at m i = false -> nth_error st i = Some d) ->
  Permutation (flat_map f st) (flat_map (fun p => f (snd p)) L).
Proof.
  intros T B f d st m L MO Len Fd HL HF.
  rewrite (AC_flat_map_seq0 f d st).
  rewrite (AC_flat_map_filter (fun i => f (nth i st d)) (m_mask_at m)).
  2:{ intros i Hi Hm. apply in_seq in Hi.
      rewrite (nth_error_nth st i d (HF i ltac:(lia) Hm)). exact Fd. }
  rewrite Len.
  rewrite (Permutation_flat_map (fun i => f (nth i st d)) (meta_slots_perm MO)).
  rewrite map_map, AC_flat_map_map.
  rewrite (RG_flat_map_ext_in (fun p => f (nth (N.to_nat (fst p)) st d)) (fun p => f (snd p))).
  - apply Permutation_refl.
  - intros [id x] Hin. cbn [fst snd]. rewrite (nth_error_nth st _ d (HL id x Hin)). reflexivity.
Qed.

(* ------------------------------------------------------------------ *)
Section Accounting.
Variable V : Type.
Notation ptree := (ptree V).

(* separator keys of the branches of a tree, pre-order *)
Fixpoint separators (t : ptree) : list key :=
  match t with
  | PLeaf _ _ _ _ _ => []
  | PBranch _ _ ks cs => ks ++ flat_map separators cs
  end.

(* branches of a tree as heap records, pre-order (like [branch_ids]) *)
Fixpoint branches_of (t : ptree) : list (N * branch) :=
  match t with
  | PLeaf _ _ _ _ _ => []
  | PBranch id c ks cs => (id, mkBranch c ks (map (@ref_of V) cs)) :: flat_map branches_of cs
  end.

(* ---------------- leaves_of / branches_of ---------------- *)
Lemma leaves_of_ids : forall t : ptree, map fst (leaves_of t) = leaf_ids t.
Proof.
  induction t as [id c ks vs nx|id c ks cs IH] using ptree_ind'.
  - reflexivity.
  - rewrite leaf_ids_branch. cbn [leaves_of]. rewrite RG_map_flat_map.
    apply RG_flat_map_ext_in. rewrite Forall_forall in IH. exact IH.
Qed.

Lemma branches_of_ids : forall t : ptree, map fst (branches_of t) = branch_ids t.
Proof.
  induction t as [id c ks vs nx|id c ks cs IH] using ptree_ind'.
  - reflexivity.
  - cbn [branches_of branch_ids map fst]. f_equal. rewrite RG_map_flat_map.
    apply RG_flat_map_ext_in. rewrite Forall_forall in IH. exact IH.
Qed.

Lemma leaves_of_sub : forall (t : ptree) id l, In (id, l) (leaves_of t) ->
  exists c ks vs nx, l = mkLeaf c ks vs nx /\ subtree (PLeaf id c ks vs nx) t.
Proof.
  induction t as [id c ks vs nx|id c ks cs IH] using ptree_ind'; intros i l Hin;
    cbn [leaves_of] in Hin.
  - destruct Hin as [E|[]]. inversion E; subst. do 4 eexists. split; [reflexivity|constructor].
  - apply in_flat_map in Hin. destruct Hin as (ch & Hch & Hin).
    rewrite Forall_forall in IH.
    destruct (IH ch Hch i l Hin) as (c0 & ks0 & vs0 & nx0 & -> & Hs).
    do 4 eexists. split; [reflexivity|]. eapply sub_child; eauto.
Qed.

Lemma branches_of_sub : forall (t : ptree) id x, In (id, x) (branches_of t) ->
  exists c ks cs, x = mkBranch c ks (map (@ref_of V) cs) /\ subtree (PBranch id c ks cs) t.
Proof.
  induction t as [id c ks vs nx|id c ks cs IH] using ptree_ind'; intros i x Hin;
    cbn [branches_of] in Hin.
  - destruct Hin.
  - destruct Hin as [E|Hin].
    + inversion E; subst. do 3 eexists. split; [reflexivity|constructor].
    + apply in_flat_map in Hin. destruct Hin as (ch & Hch & Hin).
      rewrite Forall_forall in IH.
      destruct (IH ch Hch i x Hin) as (c0 & ks0 & cs0 & -> & Hs).
      do 3 eexists. split; [reflexivity|]. eapply sub_child; eauto.
Qed.

(* what the leaves / branches of a tree hold *)
Lemma leaves_of_vals : forall c r hh (t : ptree), shape c r hh t ->
  flat_map (fun p => lvals (snd p)) (leaves_of t) = map snd (contents t).
Proof.
  intros c r hh t. revert r hh.
  induction t as [id nc ks vs nx|id nc ks cs IH] using ptree_ind'; intros r hh Sh.
  - destruct (shape_leaf_inv Sh) as (_ & _ & Lv & _).
    cbn [leaves_of flat_map snd lvals contents]. rewrite app_nil_r.
    symmetry. apply AC_map_snd_combine. exact Lv.
  - destruct (shape_branch_inv Sh) as (h' & _ & _ & _ & _ & _ & _ & Hch).
    cbn [leaves_of contents]. rewrite RG_flat_map_flat_map, RG_map_flat_map.
    apply RG_flat_map_ext_in. intros ch Hin. rewrite Forall_forall in IH.
    exact (IH ch Hin false h' (Hch ch Hin)).
Qed.

Lemma leaves_of_keys : forall c r hh (t : ptree), shape c r hh t ->
  flat_map (fun p => lkeys (snd p)) (leaves_of t) = map fst (contents t).
Proof.
  intros c r hh t. revert r hh.
  induction t as [id nc ks vs nx|id nc ks cs IH] using ptree_ind'; intros r hh Sh.
  - destruct (shape_leaf_inv Sh) as (_ & _ & Lv & _).
    cbn [leaves_of flat_map snd lkeys contents]. rewrite app_nil_r.
    symmetry. apply AC_map_fst_combine. exact Lv.
  - destruct (shape_branch_inv Sh) as (h' & _ & _ & _ & _ & _ & _ & Hch).
    cbn [leaves_of contents]. rewrite RG_flat_map_flat_map, RG_map_flat_map.
    apply RG_flat_map_ext_in. intros ch Hin. rewrite Forall_forall in IH.
    exact (IH ch Hin false h' (Hch ch Hin)).
Qed.

Lemma branches_of_keys : forall t : ptree,
  flat_map (fun p => bkeys (snd p)) (branches_of t) = separators t.
Proof.
  induction t as [id c ks vs nx|id c ks cs IH] using ptree_ind'.
  - reflexivity.
  - cbn [branches_of separators flat_map snd bkeys]. f_equal.
    rewrite RG_flat_map_flat_map. apply RG_flat_map_ext_in.
    rewrite Forall_forall in IH. exact IH.
Qed.

(* ---------------- the two arenas of a laid-out state ---------------- *)
Section WithState.
Variables (b : bstate V) (h : heap V).
Hypothesis I : Inv b.
Hypothesis HO : heap_of b h.

Lemma leaf_slot : forall id l, In (id, l) (leaves_of (root b)) ->
  nth_error (store (hleaves h)) (N.to_nat id) = Some l.
Proof.
  intros id l Hin. destruct (leaves_of_sub _ _ _ Hin) as (c & ks & vs & nx & -> & Hs).
  destruct (ho_repr HO) as [RL _]. apply a_get_store. exact (RL _ _ _ _ _ Hs).
Qed.

Lemma branch_slot : forall id x, In (id, x) (branches_of (root b)) ->
  nth_error (store (hbranches h)) (N.to_nat id) = Some x.
Proof.
  intros id x Hin. destruct (branches_of_sub _ _ _ Hin) as (c & ks & cs & -> & Hs).
  destruct (ho_repr HO) as [_ RB]. apply a_get_store. exact (RB _ _ _ _ Hs).
Qed.

Lemma leaf_meta : meta_ok (lmeta b) (map fst (leaves_of (root b))).
Proof. rewrite leaves_of_ids. exact (inv_leaves I). Qed.

Lemma branch_meta : meta_ok (bmeta b) (map fst (branches_of (root b))).
Proof. rewrite branches_of_ids. exact (inv_branches I). Qed.

(* what all slots of the leaf arena hold = what the leaves of the tree hold *)
Lemma leaf_store_accounted : forall (B : Type) (f : leaf V -> list B), f (@dflt_leaf V) = [] ->
  Permutation (flat_map f (store (hleaves h)))
              (flat_map (fun p => f (snd p)) (leaves_of (root b))).
Proof.
  intros B f Fd.
  exact (@store_accounted _ _ f (@dflt_leaf V) (store (hleaves h)) (lmeta b)
           (leaves_of (root b)) leaf_meta (ho_llen HO) Fd leaf_slot (ho_freed_leaf HO)).
Qed.

Lemma branch_store_accounted : forall (B : Type) (f : branch -> list B), f dflt_branch = [] ->
  Permutation (flat_map f (store (hbranches h)))
              (flat_map (fun p => f (snd p)) (branches_of (root b))).
Proof.
  intros B f Fd.
  exact (@store_accounted _ _ f dflt_branch (store (hbranches h)) (bmeta b)
           (branches_of (root b)) branch_meta (ho_blen HO) Fd branch_slot (ho_freed_branch HO)).
Qed.

(* every value object in ANY slot of the leaf arena (freed slots included) is the value
   of exactly one live entry, and vice versa *)
Theorem values_accounted :
  Permutation (flat_map (@lvals V) (store (hleaves h))) (map snd (contents (root b))).
Proof.
  destruct (inv_shape I) as (hh & Sh).
  rewrite <- (leaves_of_vals Sh). apply leaf_store_accounted. reflexivity.
Qed.

Corollary live_values_eq_len :
  length (flat_map (@lvals V) (store (hleaves h))) = length (contents (root b)).
Proof.
  rewrite (Permutation_length values_accounted). apply map_length.
Qed.

(* key objects: entry keys plus the separator keys of reachable branches *)
Theorem keys_accounted :
  Permutation (flat_map (@lkeys V) (store (hleaves h)) ++ flat_map bkeys (store (hbranches h)))
              (map fst (contents (root b)) ++ separators (root b)).
Proof.
  destruct (inv_shape I) as (hh & Sh).
  apply Permutation_app.
  - rewrite <- (leaves_of_keys Sh). apply leaf_store_accounted. reflexivity.
  - rewrite <- branches_of_keys. apply branch_store_accounted. reflexivity.
Qed.

Corollary live_keys_bounds :
  length (contents (root b))
    <= length (flat_map (@lkeys V) (store (hleaves h)) ++ flat_map bkeys (store (hbranches h)))
  /\ length (flat_map (@lkeys V) (store (hleaves h)) ++ flat_map bkeys (store (hbranches h)))
    <= length (contents (root b)) + length (separators (root b)).
Proof.
  rewrite (Permutation_length keys_accounted), app_length, map_length. lia.
Qed.

(* child references: the branch arena holds exactly the references of reachable branches *)
Theorem kids_accounted :
  Permutation (flat_map bkids (store (hbranches h)))
              (flat_map (fun p => bkids (snd p)) (branches_of (root b))).
Proof. apply branch_store_accounted. reflexivity. Qed.

Theorem freed_slots_empty :
  (forall i l, nth_error (store (hleaves h)) i = Some l -> m_mask_at (lmeta b) i = false ->
     lkeys l = [] /\ lvals l = []) /\
  (forall i x, nth_error (store (hbranches h)) i = Some x -> m_mask_at (bmeta b) i = false ->
     bkeys x = [] /\ bkids x = []).
Proof.
  split.
  - intros i l Hn Hm.
    assert (Hi : i < length (store (hleaves h))) by (apply nth_error_Some; congruence).
    rewrite (ho_freed_leaf HO Hi Hm) in Hn. inversion Hn; subst. split; reflexivity.
  - intros i x Hn Hm.
    assert (Hi : i < length (store (hbranches h))) by (apply nth_error_Some; congruence).
    rewrite (ho_freed_branch HO Hi Hm) in Hn. inversion Hn; subst. split; reflexivity.
Qed.

End WithState.
End Accounting.

(* ------------------------------------------------------------------ *)
(* non-vacuity: a three-level tree (cap 4, keys 1..20) after removals that free slots *)
Module AccountingExamples.

Definition ex_ins (b : res (bstate Z)) (z : Z) : res (bstate Z) :=
  do s <- b; do r <- b_insert s (mkKey z (Z.to_N z)) z; Ok (fst r).
Definition ex_rem (b : res (bstate Z)) (z : Z) : res (bstate Z) :=
  do s <- b; do r <- b_remove s z; Ok (fst r).

Definition ex_full : res (bstate Z) :=
  match b_new Z 4 with
  | Some b => fold_left ex_ins (map Z.of_nat (seq 1 20)) (Ok b)
  | None => Panic 0
  end.
Definition ex_state : res (bstate Z) :=
  fold_left ex_rem [3; 4; 5]%Z ex_full.

Definition count_false (l : list bool) : nat := length (filter negb l).

(* (height, freed leaf slots, freed branch slots, |values in leaf store|,
    |keys in both stores|, |contents|, |separators|, leaf slots, live leaves) *)
Definition ex_numbers : res (nat * nat * nat * nat * nat * nat * nat * nat * nat) :=
  do b <- ex_state;
  let h := flatten b in
  Ok (height (root b),
      count_false (m_mask (lmeta b)),
      count_false (m_mask (bmeta b)),
      length (flat_map (@lvals Z) (store (hleaves h))),
      length (flat_map (@lkeys Z) (store (hleaves h)) ++ flat_map bkeys (store (hbranches h))),
      length (contents (root b)),
      length (separators (root b)),
      length (store (hleaves h)),
      n_leaves (root b)).

(* three levels, 2 freed leaf slots and 1 freed branch slot; 17 value objects in the 9
   leaf slots = 17 entries; 23 key objects in both arenas = 17 entry keys + 6 separators *)
Example ex_accounted : ex_numbers = Ok (2, 2, 1, 17, 23, 17, 6, 9, 7).
Proof. vm_compute. reflexivity. Qed.

Example ex_valid :
  match ex_state with Ok b => check_invariants (flatten b) | _ => Ok false end = Ok true.
Proof. vm_compute. reflexivity. Qed.

(* the lists themselves: values in the arena = values of the entries *)
Example ex_values :
  match ex_state with
  | Ok b => (flat_map (@lvals Z) (store (hleaves (flatten b))), map snd (contents (root b)))
  | _ => ([], [])
  end
  = ([1; 2; 6; 7; 8; 9; 10; 11; 12; 13; 14; 15; 16; 17; 18; 19; 20]%Z,
     [1; 2; 6; 7; 8; 9; 10; 11; 12; 13; 14; 15; 16; 17; 18; 19; 20]%Z).
Proof. vm_compute. reflexivity. Qed.

End AccountingExamples.

Print Assumptions values_accounted.
Print Assumptions live_values_eq_len.
Print Assumptions keys_accounted.
Print Assumptions live_keys_bounds.
Print Assumptions kids_accounted.
Print Assumptions freed_slots_empty.
