(* C14, chain damage on an ARBITRARY heap: when the detailed validator accepts, the leaf
   chain (ids met walking `next` from the leftmost leaf) is EXACTLY the in-order list of the
   tree's leaves.  A chain that skips, truncates or misorders leaves, or that leads to an
   unallocated node, is therefore rejected.

   Argument.  [detailed_sound] gives hwf (every reachable node well formed, leaf keys inside
   the interval handed down by the separators), sortedness of the keys yielded by the
   iterator, and that the chain ids are a permutation of the tree's leaf ids.
   (a) hwf + non-empty leaves: the concatenation of the leaves' keys in tree order is
       strictly ascending ([leaf_ids_sorted]);
   (b) every chain id is a tree id, hence allocated with |keys| = |vals|; on such a chain the
       iterator yields exactly the concatenation of the leaves' keys in chain order
       ([collect_sound], a partial-correctness statement: no fuel reasoning is needed since
       the validator's answer `Ok None` already tells that the walks terminated);
   (c) two permutations of the same non-empty blocks whose concatenations are both strictly
       ascending are equal ([CE_perm_sorted_eq]).

   The non-emptiness hypothesis of [chain_exact] (every leaf of the tree holds a key) cannot
   be dropped: hwf lets a NON-ROOT leaf be empty when its own capacity field is 0 or 1
   (minimum occupancy lcap/2 = 0), and empty leaves can sit anywhere in the chain without
   changing what the iterator yields (e.g. tree order A,B,C with A and B empty is accepted
   with the chain A -> C -> B).  Worse, below an empty leaf hwf does not force separators to
   nest, so even the in-order key sequence need not be ascending.  The hypothesis follows
   from hwf as soon as every leaf of the tree has a capacity field >= 2 ([chain_exact_cap]):
   a non-root leaf then holds >= lcap/2 >= 1 keys, and when the root itself is a leaf the
   statement is trivial (tids = [root id] and cids is a permutation of it).  Maps built by
   the crate have capacity fields >= 4. *)
From Coq Require Import List Arith ZArith NArith Lia Bool Permutation.
From BPT Require Import Common.Base Common.AMap Rust.Arena Rust.Tree Rust.Heap Rust.Readers
  Rust.Run Rust.InvDefs Rust.Lib Rust.TreeFactsI Rust.ValidDefs Rust.Damage Rust.ValidSound.
Import ListNotations.
Set Implicit Arguments.

Ltac ce_inv_bind H :=
  match type of H with
  | bind ?r _ = Ok _ => let E := fresh "E" in destruct r eqn:E; cbn [bind] in H; try discriminate
  end.

(* ------------------------------------------------------------------ *)
(* pure list facts *)

Lemma CE_map_flat_map : forall (A B C : Type) (g : B -> C) (f : A -> list B) l,
  map g (flat_map f l) = flat_map (fun x => map g (f x)) l.
Proof.
  induction l as [|a l IH]; [reflexivity|]. cbn [flat_map]. rewrite map_app, IH. reflexivity.
Qed.

Lemma CE_flat_map_concat : forall (A B : Type) (f : A -> list B) ls,
  flat_map f (concat ls) = concat (map (flat_map f) ls).
Proof.
  induction ls as [|l ls IH]; [reflexivity|]. cbn [concat map]. rewrite flat_map_app, IH. reflexivity.
Qed.

Lemma CE_skipn_nth_cons : forall (A : Type) (l : list A) p x, nth_error l p = Some x ->
  skipn p l = x :: skipn (S p) l.
Proof.
  induction l as [|a l IH]; intros p x H; [destruct p; discriminate|].
  destruct p as [|p]; cbn [nth_error] in H.
  - inversion H; subst. reflexivity.
  - cbn [skipn]. rewrite (IH p x H). reflexivity.
Qed.

(* the list lemma: blocks [f a], all non-empty; if two arrangements of the same blocks both
   concatenate to a strictly ascending sequence they are the same arrangement *)
Lemma CE_perm_sorted_eq : forall (A : Type) (f : A -> list Z) (ls ms : list A),
  Permutation ls ms ->
  (forall a, In a ls -> f a <> []) ->
  sorted_z (flat_map f ls) -> sorted_z (flat_map f ms) -> ls = ms.
Proof.
  induction ls as [|a ls IH]; intros ms P NE S1 S2.
  - apply Permutation_nil in P. auto.
  - destruct ms as [|b ms].
    { apply Permutation_sym, Permutation_nil in P. discriminate. }
    assert (E : a = b).
    { assert (Ha : In a (b :: ms)) by (eapply Permutation_in; [exact P|left; reflexivity]).
      assert (Hb : In b (a :: ls))
        by (eapply Permutation_in; [apply Permutation_sym; exact P|left; reflexivity]).
      destruct Ha as [Ha|Ha]; [auto|]. destruct Hb as [Hb|Hb]; [auto|].
      exfalso.
      assert (NEa : f a <> []) by (apply NE; left; reflexivity).
      assert (NEb : f b <> []) by (apply NE; right; exact Hb).
      destruct (f a) as [|x xa] eqn:Ea; [congruence|].
      destruct (f b) as [|y yb] eqn:Eb; [congruence|].
      cbn [flat_map] in S1, S2. rewrite Ea in S1. rewrite Eb in S2.
      apply sorted_z_app in S1. destruct S1 as (_ & _ & S1).
      apply sorted_z_app in S2. destruct S2 as (_ & _ & S2).
      assert (x < y)%Z.
      { apply S1; [left; reflexivity|]. apply in_flat_map. exists b.
        split; [exact Hb|]. rewrite Eb. left; reflexivity. }
      assert (y < x)%Z.
      { apply S2; [left; reflexivity|]. apply in_flat_map. exists a.
        split; [exact Ha|]. rewrite Ea. left; reflexivity. }
      lia. }
    subst b. f_equal. apply IH.
    + eapply Permutation_cons_inv; exact P.
    + intros a' Ha'. apply NE. right. exact Ha'.
    + cbn [flat_map] in S1. apply sorted_z_app in S1. tauto.
    + cbn [flat_map] in S2. apply sorted_z_app in S2. tauto.
Qed.

(* the same on literal blocks *)
Corollary CE_blocks_perm_eq : forall (ls ms : list (list Z)),
  Permutation ls ms -> (forall b, In b ls -> b <> []) ->
  sorted_z (concat ls) -> sorted_z (concat ms) -> ms = ls.
Proof.
  intros ls ms P NE S1 S2. symmetry.
  assert (E : forall l : list (list Z), flat_map (fun b : list Z => b) l = concat l).
  { intros l. rewrite flat_map_concat_map, map_id. reflexivity. }
  apply CE_perm_sorted_eq with (f := fun b : list Z => b); auto; rewrite E; assumption.
Qed.

(* concat_res succeeds only when every part does *)
Lemma CE_concat_fold_ok : forall (A : Type) (l : list (res (list A))) acc r,
  fold_left (fun acc r => do a <- acc; do x <- r; Ok (a ++ x)) l acc = Ok r ->
  exists a parts, acc = Ok a /\ l = map (@Ok _) parts /\ r = a ++ concat parts.
Proof.
  induction l as [|x l IH]; intros acc r H; cbn [fold_left] in H.
  - exists r, []. rewrite app_nil_r. auto.
  - apply IH in H. destruct H as (a' & parts & Hs & Hl & Hr). cbn beta in Hs.
    destruct acc as [a0| | |]; cbn [bind] in Hs; try discriminate.
    destruct x as [y| | |]; cbn [bind] in Hs; try discriminate.
    inversion Hs; subst. exists a0, (y :: parts). cbn [map concat].
    rewrite app_assoc. auto.
Qed.

Lemma CE_concat_res_ok : forall (A : Type) (l : list (res (list A))) r,
  concat_res l = Ok r -> exists parts, l = map (@Ok _) parts /\ r = concat parts.
Proof.
  intros A l r H. unfold concat_res in H. apply CE_concat_fold_ok in H.
  destruct H as (a & parts & Ha & Hl & Hr). inversion Ha; subst a. exists parts. auto.
Qed.

Lemma CE_map_ok_nth : forall (A B : Type) (g : A -> res B) cs parts i p,
  map g cs = map (@Ok _) parts -> nth_error parts i = Some p ->
  exists c, nth_error cs i = Some c /\ g c = Ok p.
Proof.
  intros A B g cs parts i p E Hp.
  assert (H : nth_error (map g cs) i = Some (Ok p)).
  { rewrite E. rewrite nth_error_map, Hp. reflexivity. }
  rewrite nth_error_map in H. destruct (nth_error cs i) as [c|]; [|discriminate].
  cbn in H. inversion H. exists c. auto.
Qed.

(* ------------------------------------------------------------------ *)
(* blocks of keys inside the intervals a branch hands to its children: the concatenation
   is strictly ascending and, the blocks being non-empty, lies inside the branch's own
   interval (the separators are squeezed between a key of the first and a key of the last
   block) *)
Lemma CE_blocks_in_children : forall (ks : list key) lo hi (Ks : list (list key)),
  sorted_keys ks -> length Ks = S (length ks) ->
  (forall i K, nth_error Ks i = Some K ->
     K <> [] /\ sorted_keys K /\
     Forall (in_bounds (fst (child_bounds ks lo hi i)) (snd (child_bounds ks lo hi i))) K) ->
  concat Ks <> [] /\ sorted_keys (concat Ks) /\ Forall (in_bounds lo hi) (concat Ks).
Proof.
  intros ks lo hi Ks Sk HL HB. split; [|split].
  - destruct Ks as [|K0 Ks']; [discriminate|].
    destruct (HB 0 K0 eq_refl) as (N0 & _ & _). destruct K0; [congruence|]. discriminate.
  - unfold sorted_keys. rewrite concat_map. apply sorted_z_concat.
    + intros l Hl. apply in_map_iff in Hl. destruct Hl as (K & <- & HK).
      apply In_nth_error in HK. destruct HK as (i & Hi).
      destruct (HB i K Hi) as (_ & S & _). exact S.
    + intros i j li lj Hij Hi Hj a b Ha Hb.
      rewrite nth_error_map in Hi, Hj.
      destruct (nth_error Ks i) as [Ki|] eqn:Ei; [|discriminate].
      destruct (nth_error Ks j) as [Kj|] eqn:Ej; [|discriminate].
      cbn in Hi, Hj. inversion Hi; inversion Hj; subst li lj. clear Hi Hj.
      apply in_map_iff in Ha. destruct Ha as (ka & <- & Ha).
      apply in_map_iff in Hb. destruct Hb as (kb & <- & Hb).
      assert (Hjl : j < length Ks) by (apply nth_error_Some; congruence).
      destruct (HB i Ki Ei) as (_ & _ & Bi). destruct (HB j Kj Ej) as (_ & _ & Bj).
      rewrite Forall_forall in Bi, Bj. specialize (Bi ka Ha). specialize (Bj kb Hb).
      destruct Bi as [_ Bi]. destruct Bj as [Bj _].
      unfold child_bounds in Bi, Bj. cbn [fst snd] in Bi, Bj.
      destruct (Nat.eqb_spec i (length ks)); [lia|].
      destruct (Nat.eqb_spec j 0); [lia|].
      destruct (nth_error ks i) as [ki|] eqn:Eki; [|apply nth_error_None in Eki; lia].
      destruct (nth_error ks (j - 1)) as [kj|] eqn:Ekj; [|apply nth_error_None in Ekj; lia].
      cbn [hi_ok lo_ok] in Bi, Bj.
      assert (kz ki <= kz kj)%Z by (apply (@sorted_keys_nth_le ks i (j - 1) ki kj); auto; lia).
      lia.
  - apply Forall_forall. intros a Ha. apply in_concat in Ha. destruct Ha as (K & HK & Ha).
    apply In_nth_error in HK. destruct HK as (i & Hi).
    assert (Hil : i < length Ks) by (apply nth_error_Some; congruence).
    destruct (HB i K Hi) as (_ & _ & Bi). rewrite Forall_forall in Bi.
    specialize (Bi a Ha). destruct Bi as [Bl Bh]. unfold child_bounds in Bl, Bh.
    cbn [fst snd] in Bl, Bh. split.
    + (* lower bound *)
      destruct (Nat.eqb_spec i 0) as [Hi0|Hi0]; [exact Bl|].
      destruct (nth_error Ks 0) as [K0|] eqn:E0; [|apply nth_error_None in E0; lia].
      destruct (HB 0 K0 E0) as (N0 & _ & B0).
      destruct K0 as [|x K0']; [congruence|]. inversion B0 as [|? ? [Bx1 Bx2] _]; subst.
      unfold child_bounds in Bx1, Bx2. cbn [fst snd] in Bx1, Bx2.
      change (Nat.eqb 0 0) with true in Bx1. cbn iota in Bx1.
      destruct (Nat.eqb_spec 0 (length ks)); [lia|].
      destruct (nth_error ks (i - 1)) as [ki|] eqn:Eki; [|apply nth_error_None in Eki; lia].
      destruct (nth_error ks 0) as [k0|] eqn:Ek0; [|apply nth_error_None in Ek0; lia].
      cbn [hi_ok lo_ok] in Bl, Bx2.
      assert (kz k0 <= kz ki)%Z by (apply (@sorted_keys_nth_le ks 0 (i - 1) k0 ki); auto; lia).
      destruct lo as [m|]; cbn [lo_ok] in *; [lia|exact I].
    + (* upper bound *)
      destruct (Nat.eqb_spec i (length ks)) as [Hin|Hin]; [exact Bh|].
      destruct (nth_error Ks (length ks)) as [Kn|] eqn:En; [|apply nth_error_None in En; lia].
      destruct (HB (length ks) Kn En) as (Nn & _ & Bn).
      destruct Kn as [|y Kn']; [congruence|]. inversion Bn as [|? ? [By1 By2] _]; subst.
      unfold child_bounds in By1, By2. cbn [fst snd] in By1, By2.
      rewrite Nat.eqb_refl in By2.
      destruct (Nat.eqb_spec (length ks) 0); [lia|].
      destruct (nth_error ks i) as [ki|] eqn:Eki; [|apply nth_error_None in Eki; lia].
      destruct (nth_error ks (length ks - 1)) as [kn|] eqn:Ekn;
        [|apply nth_error_None in Ekn; lia].
      cbn [hi_ok lo_ok] in Bh, By1.
      assert (kz ki <= kz kn)%Z
        by (apply (@sorted_keys_nth_le ks i (length ks - 1) ki kn); auto; lia).
      destruct hi as [m|]; cbn [hi_ok] in *; [lia|exact I].
Qed.

(* ------------------------------------------------------------------ *)
Section ChainExact.
Variable V : Type.
Notation heap := (heap V).

(* keys held by the leaf with a given id (nothing for an unallocated id) *)
Definition keysof (h : heap) (id : N) : list key :=
  match get_leaf h id with Some l => lkeys l | None => [] end.
(* concatenation of the leaves' keys along a list of ids *)
Definition chain_keys (h : heap) (ids : list N) : list key := flat_map (keysof h) ids.

(* ---------- (a) the tree's leaves in order ---------- *)

(* every id listed by collect_leaf_ids below a well-formed node is an allocated leaf with
   |keys| = |vals|, and (unless it is the root itself) holds at least lcap/2 keys *)
Lemma leaf_ids_alloc : forall fuel (h : heap) r isroot lo hi ids,
  hwf h isroot lo hi r -> h_leaf_ids fuel h r = Ok ids ->
  forall id, In id ids ->
  exists l, get_leaf h id = Some l /\ length (lkeys l) = length (lvals l) /\
    ((isroot = true -> exists b, r = RBranch b) -> lcap l / 2 <= length (lkeys l)).
Proof.
  induction fuel as [|f IH]; intros h r isroot lo hi ids Hw H id Hin; [discriminate|].
  cbn [h_leaf_ids] in H.
  inversion Hw as [ir lo0 hi0 id0 l Hg Hlen Hs Hc Hocc Hb
                  |ir lo0 hi0 id0 x Hg Hlen Hs Hc Hocc Hk]; subst.
  - inversion H; subst ids. destruct Hin as [<-|[]].
    exists l. split; [exact Hg|]. split; [exact Hlen|]. intros Hr.
    destruct isroot; [|apply Hocc; reflexivity].
    destruct (Hr eq_refl) as (b & Eb). discriminate.
  - rewrite Hg in H. apply CE_concat_res_ok in H. destruct H as (parts & Hm & ->).
    apply in_concat in Hin. destruct Hin as (p & Hp & Hin).
    apply In_nth_error in Hp. destruct Hp as (i & Hi).
    destruct (@CE_map_ok_nth _ _ _ _ _ _ _ Hm Hi) as (c & Hc' & Hcp).
    destruct (IH h c false _ _ p (Hk i c Hc') Hcp id Hin) as (l & G & L & O).
    exists l. split; [exact G|]. split; [exact L|]. intros _. apply O. intros D. discriminate.
Qed.

(* with non-empty leaves, the keys of the leaves in tree order are strictly ascending and
   lie inside the interval of the subtree *)
Lemma leaf_ids_sorted : forall fuel (h : heap) r isroot lo hi ids,
  hwf h isroot lo hi r -> h_leaf_ids fuel h r = Ok ids ->
  (forall id l, In id ids -> get_leaf h id = Some l -> lkeys l <> []) ->
  chain_keys h ids <> [] /\ sorted_keys (chain_keys h ids) /\
  Forall (in_bounds lo hi) (chain_keys h ids).
Proof.
  induction fuel as [|f IH]; intros h r isroot lo hi ids Hw H NE; [discriminate|].
  cbn [h_leaf_ids] in H.
  inversion Hw as [ir lo0 hi0 id0 l Hg Hlen Hs Hc Hocc Hb
                  |ir lo0 hi0 id0 x Hg Hlen Hs Hc Hocc Hk]; subst.
  - inversion H; subst ids. unfold chain_keys. cbn [flat_map]. rewrite app_nil_r.
    unfold keysof. rewrite Hg. split; [|split]; auto.
    apply (NE id0 l); [left; reflexivity|exact Hg].
  - rewrite Hg in H. apply CE_concat_res_ok in H. destruct H as (parts & Hm & ->).
    unfold chain_keys. rewrite CE_flat_map_concat.
    apply CE_blocks_in_children with (ks := bkeys x); [exact Hs| |].
    + rewrite map_length. apply (f_equal (@length _)) in Hm. rewrite !map_length in Hm.
      rewrite <- Hm. exact Hlen.
    + intros i K HK. rewrite nth_error_map in HK.
      destruct (nth_error parts i) as [p|] eqn:Hi; [|discriminate].
      cbn in HK. inversion HK; subst K. clear HK.
      destruct (@CE_map_ok_nth _ _ _ _ _ _ _ Hm Hi) as (c & Hc' & Hcp).
      apply (IH h c false _ _ p (Hk i c Hc') Hcp).
      intros id l Hin G. apply (NE id l); [|exact G].
      apply in_concat. exists p. split; [|exact Hin]. eapply nth_error_In; exact Hi.
Qed.

(* ---------- (b) the chain and what the iterator yields along it ---------- *)

(* the ids of a chain of allocated leaves that ends with NULL *)
Inductive lchain (h : heap) : list N -> Prop :=
| lchain_last id l : get_leaf h id = Some l -> N.eqb (lnext l) NULL = true -> lchain h [id]
| lchain_cons id l rest : get_leaf h id = Some l -> N.eqb (lnext l) NULL = false ->
    lchain h (lnext l :: rest) -> lchain h (id :: lnext l :: rest).

Lemma lchain_head : forall (h : heap) id rest, lchain h (id :: rest) ->
  exists l, get_leaf h id = Some l.
Proof. intros h id rest H. inversion H; subst; eauto. Qed.

Lemma chain_ids_head : forall fuel (h : heap) id cs, chain_ids fuel h (Some id) = Ok cs ->
  exists rest, cs = id :: rest.
Proof.
  intros [|f] h id cs H; [discriminate|]. cbn [chain_ids] in H.
  destruct (get_leaf h id) as [l|].
  - ce_inv_bind H. inversion H. eauto.
  - inversion H. eauto.
Qed.

Lemma chain_ids_lchain : forall fuel (h : heap) id cs,
  chain_ids fuel h (Some id) = Ok cs ->
  (forall c, In c cs -> get_leaf h c <> None) -> lchain h cs.
Proof.
  induction fuel as [|f IH]; intros h id cs H Hal; [discriminate|].
  cbn [chain_ids] in H. destruct (get_leaf h id) as [l|] eqn:Eg.
  - destruct (N.eqb (lnext l) NULL) eqn:En.
    + destruct f as [|f']; cbn [chain_ids bind] in H; [discriminate|].
      inversion H; subst cs. eapply lchain_last; eauto.
    + ce_inv_bind H. inversion H; subst cs. clear H.
      destruct (chain_ids_head _ _ _ E) as (rest & ->).
      eapply lchain_cons; eauto. apply (IH h (lnext l)); [exact E|].
      intros c Hc. apply Hal. right. exact Hc.
  - inversion H; subst cs. exfalso. apply (Hal id); [left; reflexivity|exact Eg].
Qed.

(* the unbounded item iterator stands at index it_idx of the cached leaf, which is the head
   of an allocated NULL-terminated chain whose leaves have |keys| = |vals|; [ks] = the keys
   still to come *)
Definition it_at (h : heap) (s : iter V) (ks : list key) : Prop :=
  exists id l rest,
    it_leaf s = Some l /\ get_leaf h id = Some l /\ lchain h (id :: rest) /\
    (forall c l', In c (id :: rest) -> get_leaf h c = Some l' ->
       length (lkeys l') = length (lvals l')) /\
    it_end_key s = None /\ it_end_bound s = None /\
    ks = skipn (it_idx s) (lkeys l) ++ chain_keys h rest.

Lemma item_next_f_sound : forall fuel (h : heap) s ks s' r,
  it_at h s ks -> item_next_f fuel h s = Ok (s', r) ->
  match r with
  | None => ks = []
  | Some kv => exists ks', ks = fst kv :: ks' /\ it_at h s' ks'
  end.
Proof.
  induction fuel as [|f IH]; intros h s ks s' r Hat H; [discriminate|].
  destruct Hat as (id & l & rest & Hl & Hg & Hc & Hlen & Hek & Heb & ->).
  assert (Hkv : length (lkeys l) = length (lvals l))
    by (apply (Hlen id l); [left; reflexivity|exact Hg]).
  cbn [item_next_f] in H. rewrite Hl in H. unfold try_get in H.
  destruct (Nat.leb (length (lkeys l)) (it_idx s)) eqn:E1.
  - (* current leaf exhausted: follow the link *)
    cbn [orb bind] in H. unfold advance in H. rewrite Hl in H.
    apply Nat.leb_le in E1.
    assert (Esk : skipn (it_idx s) (lkeys l) = []) by (apply skipn_all2; exact E1).
    inversion Hc as [id1 l1 Hg1 Hn1|id1 l1 rest1 Hg1 Hn1 Hc1]; subst.
    + rewrite Hg in Hg1. inversion Hg1; subst l1. rewrite Hn1 in H.
      inversion H; subst. rewrite Esk. reflexivity.
    + rewrite Hg in Hg1. inversion Hg1; subst l1. rewrite Hn1 in H.
      destruct (lchain_head Hc1) as (l2 & Hg2). rewrite Hg2 in H.
      assert (Hat2 : it_at h (mkIter (Some (lnext l)) (Some l2) 0 (it_end_key s)
                                      (it_end_bound s) (it_incl s))
                       (skipn 0 (lkeys l2) ++ chain_keys h rest1)).
      { exists (lnext l), l2, rest1. cbn [it_leaf it_idx it_end_key it_end_bound].
        repeat split; auto.
        intros c l' Hin G. apply (Hlen c l'); [right; exact Hin|exact G]. }
      assert (Eks : skipn (it_idx s) (lkeys l) ++ chain_keys h (lnext l :: rest1)
                    = skipn 0 (lkeys l2) ++ chain_keys h rest1).
      { rewrite Esk. unfold chain_keys. cbn [flat_map skipn app]. unfold keysof at 1.
        rewrite Hg2. reflexivity. }
      rewrite Eks. exact (IH h _ _ _ _ Hat2 H).
  - (* an item of the current leaf *)
    rewrite <- Hkv in H. rewrite E1 in H. cbn [orb] in H. apply Nat.leb_gt in E1.
    destruct (nth_error (lkeys l) (it_idx s)) as [k|] eqn:Ek;
      [|apply nth_error_None in Ek; lia].
    destruct (nth_error (lvals l) (it_idx s)) as [v|] eqn:Ev;
      [|apply nth_error_None in Ev; lia].
    rewrite Hek, Heb in H. cbn [bind] in H. inversion H; subst s' r. clear H.
    exists (skipn (S (it_idx s)) (lkeys l) ++ chain_keys h rest). cbn [fst]. split.
    + rewrite (@CE_skipn_nth_cons _ _ _ _ Ek). reflexivity.
    + exists id, l, rest. cbn [it_leaf it_idx it_end_key it_end_bound].
      repeat split; auto.
Qed.

Lemma collect_sound : forall fuel (h : heap) s ks its,
  it_at h s ks -> collect_f (item_next h) fuel s = Ok its -> map fst its = ks.
Proof.
  induction fuel as [|f IH]; intros h s ks its Hat H; [discriminate|].
  cbn [collect_f] in H. ce_inv_bind H. destruct a as [s1 r]. cbn [fst snd] in H.
  unfold item_next in E. pose proof (item_next_f_sound _ Hat E) as Hn.
  destruct r as [kv|].
  - destruct Hn as (ks' & -> & Hat'). ce_inv_bind H. inversion H; subst its.
    cbn [map]. f_equal. exact (IH h s1 ks' a Hat' E0).
  - inversion H; subst its. subst ks. reflexivity.
Qed.

(* ---------- the theorem ---------- *)

Theorem chain_exact : forall (h : heap) tids fid cids,
  check_invariants_detailed h = Ok None ->
  collect_leaf_ids h = Ok tids -> get_first_leaf_id h = Ok fid ->
  chain_ids (S (S (length (store (hleaves h))))) h fid = Ok cids ->
  (forall id l, In id tids -> get_leaf h id = Some l -> lkeys l <> []) ->
  cids = tids.
Proof.
  intros h tids fid cids Hd Ht Hf Hc NE.
  destruct (detailed_sound h Hd)
    as (Hw & (ks & Hk & Hs & _) & _ & (tids' & fid' & cids' & Ht' & Hf' & Hc' & P)).
  rewrite Ht in Ht'. inversion Ht'; subst tids'. clear Ht'.
  rewrite Hf in Hf'. inversion Hf'; subst fid'. clear Hf'.
  rewrite Hc in Hc'. inversion Hc'; subst cids'. clear Hc'.
  unfold collect_leaf_ids in Ht.
  pose proof (leaf_ids_alloc _ Hw Ht) as Hal.
  destruct (leaf_ids_sorted _ Hw Ht NE) as (Hne & Hst & _).
  (* every chain id is a tree id *)
  assert (Hcal : forall c, In c cids -> exists l, get_leaf h c = Some l /\
                                            length (lkeys l) = length (lvals l)).
  { intros c Hin. destruct (Hal c) as (l & G & L & _); [|eauto].
    eapply Permutation_in; [apply Permutation_sym; exact P|exact Hin]. }
  (* the chain starts somewhere *)
  destruct fid as [id0|].
  2:{ cbn [chain_ids] in Hc. inversion Hc; subst cids.
      apply Permutation_sym, Permutation_nil in P. subst tids. exfalso. apply Hne. reflexivity. }
  destruct (chain_ids_head _ _ _ Hc) as (rest & ->).
  assert (Hlc : lchain h (id0 :: rest)).
  { apply (chain_ids_lchain _ _ _ Hc). intros c Hin G.
    destruct (Hcal c Hin) as (l & G' & _). congruence. }
  destruct (Hcal id0 (or_introl eq_refl)) as (l0 & Hg0 & _).
  (* the iterator yields the keys along the chain *)
  assert (Hks : ks = chain_keys h (id0 :: rest)).
  { unfold keys in Hk. ce_inv_bind Hk. inversion Hk; subst ks. clear Hk.
    unfold items in E. ce_inv_bind E. unfold item_new in E0. rewrite Hf in E0.
    cbn [bind] in E0. inversion E0; subst a0. clear E0.
    eapply collect_sound; [|exact E].
    exists id0, l0, rest. cbn [it_leaf it_idx it_end_key it_end_bound].
    repeat split; auto.
    - intros c l' Hin G. destruct (Hcal c Hin) as (l & G' & L). congruence.
    - unfold chain_keys. cbn [flat_map skipn]. unfold keysof at 1. rewrite Hg0. reflexivity. }
  subst ks. symmetry.
  apply CE_perm_sorted_eq with (f := fun id => map kz (keysof h id)).
  - exact P.
  - intros a Ha. destruct (Hal a Ha) as (l & G & _). unfold keysof. rewrite G.
    pose proof (NE a l Ha G) as Hn. destruct (lkeys l); [congruence|discriminate].
  - rewrite <- CE_map_flat_map. exact Hst.
  - rewrite <- CE_map_flat_map. exact Hs.
Qed.

(* the same under a condition on capacity fields only *)
Corollary chain_exact_cap : forall (h : heap) tids fid cids,
  check_invariants_detailed h = Ok None ->
  collect_leaf_ids h = Ok tids -> get_first_leaf_id h = Ok fid ->
  chain_ids (S (S (length (store (hleaves h))))) h fid = Ok cids ->
  (forall id l, In id tids -> get_leaf h id = Some l -> 2 <= lcap l) ->
  cids = tids.
Proof.
  intros h tids fid cids Hd Ht Hf Hc Hcap.
  destruct (detailed_sound h Hd)
    as (Hw & _ & _ & (tids' & fid' & cids' & Ht' & Hf' & Hc' & P)).
  rewrite Ht in Ht'. inversion Ht'; subst tids'. clear Ht'.
  rewrite Hf in Hf'. inversion Hf'; subst fid'. clear Hf'.
  rewrite Hc in Hc'. inversion Hc'; subst cids'. clear Hc'.
  destruct (hroot h) as [rid|rid] eqn:Er.
  - (* the root is a leaf: one id on both sides *)
    unfold collect_leaf_ids, dfuel in Ht. rewrite Er in Ht. cbn [h_leaf_ids] in Ht.
    inversion Ht; subst tids. apply Permutation_length_1_inv in P. exact P.
  - apply (@chain_exact h tids fid cids Hd Ht Hf Hc). intros id l Hin G.
    unfold collect_leaf_ids in Ht. rewrite Er in Ht.
    destruct (leaf_ids_alloc _ Hw Ht id Hin) as (l' & G' & _ & O).
    rewrite G in G'. inversion G'; subst l'.
    assert (Ho : lcap l / 2 <= length (lkeys l)).
    { apply O. intros _. eauto. }
    pose proof (Hcap id l Hin G) as H2.
    pose proof (Nat.div_mod (lcap l) 2) as Hdm. pose proof (Nat.mod_upper_bound (lcap l) 2) as Hmu.
    destruct (lkeys l); [cbn [length] in Ho; lia|discriminate].
Qed.

(* rejection form: whatever the heap, a chain whose id sequence differs from the in-order
   leaf ids of the tree (a skipped, dropped, misordered, repeated or foreign/unallocated
   leaf) is not accepted, provided the tree's leaves have capacity fields >= 2 *)
Corollary chain_damage_rejected : forall (h : heap) tids fid cids,
  collect_leaf_ids h = Ok tids -> get_first_leaf_id h = Ok fid ->
  chain_ids (S (S (length (store (hleaves h))))) h fid = Ok cids ->
  (forall id l, In id tids -> get_leaf h id = Some l -> 2 <= lcap l) ->
  cids <> tids -> check_invariants_detailed h <> Ok None.
Proof.
  intros h tids fid cids Ht Hf Hc Hcap Hne Hd. apply Hne.
  exact (@chain_exact_cap h tids fid cids Hd Ht Hf Hc Hcap).
Qed.

End ChainExact.

(* ------------------------------------------------------------------ *)
(* Non-vacuity on the 3-level example heap of ValidSoundExamples (20 keys, capacity 4). *)
Module ChainExactExamples.
Import ValidSoundExamples.

Definition dmgs (es : list (edit Z)) : heap Z := fold_left (@apply_edit Z) es ex_heap.

Definition tree_ids (h : heap Z) := collect_leaf_ids h.
Definition chain_of (h : heap Z) : res (list N) :=
  do fid <- get_first_leaf_id h; chain_ids (S (S (length (store (hleaves h))))) h fid.

(* the hypotheses of chain_exact / chain_exact_cap hold on the undamaged heap, and the
   chain is the tree order *)
Example ex_chain_is_tree :
  check_invariants_detailed ex_heap = Ok None /\ chain_of ex_heap = tree_ids ex_heap /\
  match tree_ids ex_heap with
  | Ok l => 3 <= length l /\
            forallb (fun id => match get_leaf ex_heap id with
                               | Some lf => Nat.leb 2 (lcap lf) | None => false end) l = true
  | _ => False
  end.
Proof. vm_compute. repeat split; try reflexivity. lia. Qed.

(* misordered chain 0 -> 2 -> 1 -> 3 -> ...: still a permutation of the tree's leaves, still
   NULL-terminated, every leaf met once; the tree part of the validator accepts it *)
Definition misorder : heap Z :=
  dmgs [@ELeafNext Z 0 (TPos 2); @ELeafNext Z 2 (TPos 1); @ELeafNext Z 1 (TPos 3)].

Example ex_misorder_tree_ok : check_invariants misorder = Ok true.
Proof. vm_compute. reflexivity. Qed.

Example ex_misorder_perm :
  match tree_ids misorder, chain_of misorder with
  | Ok t, Ok c => list_eqb (sort_ids t) (sort_ids c) = true /\ c <> t
  | _, _ => False
  end.
Proof. vm_compute. split; [reflexivity|discriminate]. Qed.

Example ex_misorder_rejected : check_invariants_detailed misorder = Ok (Some E_UNSORTED).
Proof. vm_compute. reflexivity. Qed.

(* a chain that skips leaf 1 (0 -> 2 -> 3 -> ...), and a chain that leads to an unallocated
   node (0 -> 77): both rejected *)
Example ex_skip_rejected :
  check_invariants_detailed (dmgs [@ELeafNext Z 0 (TPos 2)]) = Ok (Some E_COUNT).
Proof. vm_compute. reflexivity. Qed.

Example ex_dangling_next_rejected :
  check_invariants_detailed (dmgs [@ELeafNext Z 0 (TRaw 77%N)]) = Ok (Some E_COUNT) /\
  chain_of (dmgs [@ELeafNext Z 0 (TRaw 77%N)]) = Ok [0%N; 77%N].
Proof. vm_compute. split; reflexivity. Qed.

(* the non-emptiness hypothesis is needed: a (damaged) heap whose leaves 0 and 1 are empty
   with capacity field 0 is accepted although its chain 0 -> 2 -> 1 is not the tree order
   0, 1, 2 *)
Definition empties : heap Z :=
  mkHeap 4 (RBranch 0%N)
    (mkArena [mkLeaf 0 [] [] 2%N; mkLeaf 0 [] [] NULL;
              mkLeaf 4 [mkKey 20 0%N; mkKey 21 0%N] [20%Z; 21%Z] 1%N]
             [true; true; true] [])
    (mkArena [mkBranch 4 [mkKey 10 0%N; mkKey 20 0%N] [RLeaf 0%N; RLeaf 1%N; RLeaf 2%N]]
             [true] []).

Example ex_nonempty_needed :
  check_invariants_detailed empties = Ok None /\
  tree_ids empties = Ok [0%N; 1%N; 2%N] /\ chain_of empties = Ok [0%N; 2%N; 1%N].
Proof. vm_compute. repeat split; reflexivity. Qed.

End ChainExactExamples.

Print Assumptions chain_exact.
Print Assumptions chain_exact_cap.
Print Assumptions chain_damage_rejected.
