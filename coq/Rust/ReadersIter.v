(* Corollaries of Rust/Walk.v: the whole-map iteration API (items, items_fast, keys,
   values, first, last) returns the logical contents, and the interleaved iterator pool
   of [OIter] follows [spec_steps]. *)
From Coq Require Import List Arith ZArith NArith Lia Bool.
From BPT Require Import Common.Base Common.AMap Rust.Arena Rust.Tree Rust.Heap Rust.Readers
  Rust.Run Rust.InvDefs Rust.Repr Rust.Spec Rust.Lib Rust.Walk.
Import ListNotations.
Set Implicit Arguments.

Section ReadersIter.
Variable V : Type.
Variable b : bstate V.
Variable h : heap V.
Hypothesis HI : Inv b.
Hypothesis HH : heap_of b h.

Notation m := (contents (root b)).

Lemma item_new_at0 : exists s, item_new h = Ok s /\ at_pos b s 0 /\
  it_end_key s = None /\ it_end_bound s = None /\ it_incl s = false.
Proof.
  destruct (item_new_spec HI HH) as (id & l & Hn & E).
  eexists. split; [exact E|]. split; [|auto].
  pose proof (at_pos_leaf b 0 (Some id) 0 None None false Hn) as Hp.
  rewrite offset_0, Nat.min_0_l in Hp. exact Hp.
Qed.

Lemma fast_new_at0 : exists s, fast_new h = Ok s /\ fat_pos b s 0.
Proof.
  destruct (fast_new_spec HI HH) as (id & l & Hn & E).
  eexists. split; [exact E|].
  pose proof (fat_pos_leaf b 0 (Some id) 0 Hn) as Hp.
  rewrite offset_0, Nat.min_0_l in Hp. exact Hp.
Qed.

Theorem items_spec : items h = Ok m.
Proof.
  destruct item_new_at0 as (s & E & Hp & Ek & Eb & Ei).
  unfold items. rewrite E. cbn [bind].
  rewrite (collect_at_pos (fuel := total_items_bound h) HI HH Hp)
    by (pose proof (contents_lt_total_items_bound HI HH); lia).
  rewrite Ek, Eb, Ei. cbn [skipn]. rewrite take_until_false; [reflexivity|].
  intros z. reflexivity.
Qed.

Theorem items_fast_spec : items_fast h = Ok m.
Proof.
  destruct fast_new_at0 as (s & E & Hp).
  unfold items_fast. rewrite E. cbn [bind].
  rewrite (fast_collect_at_pos (fuel := total_items_bound h) HI HH Hp)
    by (pose proof (contents_lt_total_items_bound HI HH); lia).
  reflexivity.
Qed.

Theorem keys_spec : keys h = Ok (map fst m).
Proof. unfold keys. rewrite items_spec. reflexivity. Qed.

Theorem values_spec : values h = Ok (map snd m).
Proof. unfold values. rewrite items_spec. reflexivity. Qed.

Theorem first_spec : first h = Ok (hd_error m).
Proof.
  destruct item_new_at0 as (s & E & Hp & Ek & Eb & Ei).
  unfold first. rewrite E. cbn [bind].
  destruct (item_next_at_pos HI HH Hp Ek Eb) as (s' & E' & _).
  rewrite E'. cbn [bind snd]. destruct m; reflexivity.
Qed.

Theorem last_spec : last h = Ok (last_opt m).
Proof. unfold last. rewrite items_spec. reflexivity. Qed.

(* ------------------------------------------------------------------ *)
(* n calls of next from position p *)

Lemma take_n_item : forall k n (s : iter V) p,
  at_pos b s p -> it_end_key s = None -> it_end_bound s = None ->
  exists s' xs, take_n (item_next h) n s = Ok (s', xs) /\
    map (project k) xs = spec_take k m p n /\
    at_pos b s' (spec_advance m p n) /\ it_end_key s' = None /\ it_end_bound s' = None.
Proof.
  intros k. induction n as [|n IH]; intros s p Hp Ek Eb.
  - exists s, []. cbn. auto.
  - destruct (item_next_at_pos HI HH Hp Ek Eb) as (s1 & E1 & Hp1 & Ek1 & Eb1).
    destruct (IH s1 _ Hp1 Ek1 Eb1) as (s' & xs & E & Hx & Hp' & Ek' & Eb').
    exists s', (nth_error m p :: xs). cbn [take_n]. rewrite E1. cbn [bind]. rewrite E. cbn [bind fst snd].
    split; [reflexivity|]. cbn [map spec_take spec_advance]. rewrite Hx. auto.
Qed.

Lemma take_n_fast : forall k n (s : fiter V) p,
  fat_pos b s p ->
  exists s' xs, take_n (fast_next h) n s = Ok (s', xs) /\
    map (project k) xs = spec_take k m p n /\
    fat_pos b s' (spec_advance m p n).
Proof.
  intros k. induction n as [|n IH]; intros s p Hp.
  - exists s, []. cbn. auto.
  - destruct (fast_next_at_pos HI HH Hp) as (s1 & E1 & Hp1).
    destruct (IH s1 _ Hp1) as (s' & xs & E & Hx & Hp').
    exists s', (nth_error m p :: xs). cbn [take_n]. rewrite E1. cbn [bind]. rewrite E. cbn [bind fst snd].
    split; [reflexivity|]. cbn [map spec_take spec_advance]. rewrite Hx. auto.
Qed.

(* an iterator of the pool, of the kind k, at position p *)
Inductive it_rel : anyit V -> ikind -> nat -> Prop :=
| rel_it k s p : at_pos b s p -> it_end_key s = None -> it_end_bound s = None ->
    it_rel (AIt k s) k p
| rel_fast s p : fat_pos b s p -> it_rel (AFast s) KFast p.

Lemma it_take_spec : forall a k p n, it_rel a k p ->
  exists a', it_take h a n = Ok (a', spec_take k m p n) /\ it_rel a' k (spec_advance m p n).
Proof.
  intros a k p n [k0 s p0 Hp Ek Eb | s p0 Hp].
  - destruct (take_n_item k0 n Hp Ek Eb) as (s' & xs & E & Hx & Hp' & Ek' & Eb').
    exists (AIt k0 s'). cbn [it_take]. rewrite E. cbn [bind fst snd]. rewrite Hx.
    split; [reflexivity|]. constructor; auto.
  - destruct (take_n_fast KFast n Hp) as (s' & xs & E & Hx & Hp').
    exists (AFast s'). cbn [it_take]. rewrite E. cbn [bind fst snd]. rewrite Hx.
    split; [reflexivity|]. constructor; auto.
Qed.

Definition pool_rel (pool : list (anyit V)) (kinds : list ikind) (pos : list nat) : Prop :=
  length pool = length kinds /\ length pos = length kinds /\
  forall i a k p, nth_error pool i = Some a -> nth_error kinds i = Some k ->
    nth_error pos i = Some p -> it_rel a k p.

Lemma mk_it_spec : forall k, exists a, mk_it h k = Ok a /\ it_rel a k 0.
Proof.
  intros k. destruct item_new_at0 as (s & E & Hp & Ek & Eb & _).
  destruct fast_new_at0 as (fs & Ef & Hfp).
  destruct k; cbn [mk_it]; rewrite ?E, ?Ef; cbn [bind]; eexists; (split; [reflexivity|]);
    constructor; auto.
Qed.

Lemma mk_its_spec : forall kinds,
  exists pool, mk_its h kinds = Ok pool /\ pool_rel pool kinds (map (fun _ => 0) kinds).
Proof.
  induction kinds as [|k kinds IH].
  - exists []. split; [reflexivity|]. repeat split; auto. intros [|i] a k p H; discriminate.
  - destruct (mk_it_spec k) as (a & Ea & Ha). destruct IH as (pool & Ep & L1 & L2 & Hrel).
    exists (a :: pool). cbn [mk_its]. rewrite Ea. cbn [bind]. rewrite Ep. cbn [bind].
    split; [reflexivity|]. repeat split; cbn [length map]; try congruence.
    intros [|i] a0 k0 p0 H1 H2 H3; cbn [nth_error map] in *.
    + inversion H1; inversion H2; inversion H3; subst. exact Ha.
    + eapply Hrel; eauto.
Qed.

Lemma pool_rel_set : forall pool kinds pos i a k p,
  pool_rel pool kinds pos -> nth_error kinds i = Some k -> it_rel a k p ->
  pool_rel (set_nth i a pool) kinds (set_nth i p pos).
Proof.
  intros pool kinds pos i a k p (L1 & L2 & Hrel) Hk Ha.
  assert (Hi : i < length kinds) by (apply nth_error_Some; congruence).
  repeat split; rewrite ?length_set_nth; auto.
  intros i' a' k' p' H1 H2 H3. destruct (Nat.eq_dec i i') as [<-|Hne].
  - rewrite nth_error_set_nth_same in H1 by lia. rewrite nth_error_set_nth_same in H3 by lia.
    inversion H1; inversion H3; subst. assert (k' = k) by congruence. subst. exact Ha.
  - rewrite nth_error_set_nth_other in H1 by exact Hne.
    rewrite nth_error_set_nth_other in H3 by exact Hne. eapply Hrel; eauto.
Qed.

Lemma run_steps_spec : forall steps pool kinds pos, pool_rel pool kinds pos ->
  run_steps h pool steps = Ok (spec_steps kinds m pos steps).
Proof.
  induction steps as [|[i n] steps IH]; intros pool kinds pos Hrel; [reflexivity|].
  cbn [run_steps spec_steps]. pose proof Hrel as (L1 & L2 & Hr).
  destruct (nth_error pool i) as [a|] eqn:Ea.
  - assert (Hi : i < length pool) by (apply nth_error_Some; congruence).
    destruct (nth_error kinds i) as [k|] eqn:Ek; [|apply nth_error_None in Ek; lia].
    destruct (nth_error pos i) as [p|] eqn:Ep; [|apply nth_error_None in Ep; lia].
    destruct (it_take_spec n (Hr i a k p Ea Ek Ep)) as (a' & E & Ha').
    rewrite E. cbn [bind fst snd].
    rewrite (IH _ kinds (set_nth i (spec_advance m p n) pos)) by (eapply pool_rel_set; eauto).
    reflexivity.
  - apply nth_error_None in Ea.
    destruct (nth_error kinds i) as [k|] eqn:Ek;
      [assert (i < length kinds) by (apply nth_error_Some; congruence); lia|].
    apply IH. exact Hrel.
Qed.

Theorem iter_op_spec : forall kinds steps,
  (do pool <- mk_its h kinds; run_steps h pool steps)
  = Ok (spec_steps kinds m (map (fun _ => 0) kinds) steps).
Proof.
  intros kinds steps. destruct (mk_its_spec kinds) as (pool & E & Hrel).
  rewrite E. cbn [bind]. apply run_steps_spec. exact Hrel.
Qed.

End ReadersIter.

Print Assumptions items_spec.
Print Assumptions items_fast_spec.
Print Assumptions keys_spec.
Print Assumptions values_spec.
Print Assumptions first_spec.
Print Assumptions last_spec.
Print Assumptions iter_op_spec.
