(* Interface between model B (trees) and model A (heaps): [repr h t] says that every node
   of the tree [t] is stored in heap [h] under its id.  [Rust/Bridge.v] proves
   [repr (flatten b) (root b)] from the invariant; the reader lemmas are proved for any
   heap that represents the tree.  Definitions only. *)
From BPT Require Import Common.Base Common.AMap Rust.Arena Rust.Tree Rust.Heap Rust.Readers Rust.InvDefs.
Set Implicit Arguments.

Section Repr.
Variable V : Type.
Notation ptree := (ptree V).

(* [subtree s t]: s occurs in t (reflexive, transitive through children) *)
Inductive subtree : ptree -> ptree -> Prop :=
| sub_refl t : subtree t t
| sub_child s id c ks cs ch : In ch cs -> subtree s ch -> subtree s (PBranch id c ks cs).

Definition repr (h : heap V) (t : ptree) : Prop :=
  (forall id c ks vs nx, subtree (PLeaf id c ks vs nx) t ->
     get_leaf h id = Some (mkLeaf c ks vs nx)) /\
  (forall id c ks cs, subtree (PBranch id c ks cs) t ->
     get_branch h id = Some (mkBranch c ks (map (@ref_of V) cs))).

(* both arenas below the 2^32-1 slot bound *)
Definition rooms (b : bstate V) : Prop := room (lmeta b) 0 /\ room (bmeta b) 0.

(* the heap a state is laid out into, with the facts the readers need *)
Record heap_of (b : bstate V) (h : heap V) : Prop := mkHeapOf {
  ho_repr : repr h (root b);
  ho_root : hroot h = ref_of (root b);
  ho_cap : hcap h = cap b;
  ho_lmask : mask (hleaves h) = m_mask (lmeta b);
  ho_bmask : mask (hbranches h) = m_mask (bmeta b);
  ho_lfree : free (hleaves h) = m_free (lmeta b);
  ho_bfree : free (hbranches h) = m_free (bmeta b);
  ho_llen : length (store (hleaves h)) = length (m_mask (lmeta b));
  ho_blen : length (store (hbranches h)) = length (m_mask (bmeta b));
  (* every allocated slot holds a node of the tree *)
  ho_leaf_inv : forall id l, get_leaf h id = Some l ->
      exists c ks vs nx, l = mkLeaf c ks vs nx /\ subtree (PLeaf id c ks vs nx) (root b);
  ho_branch_inv : forall id x, get_branch h id = Some x ->
      exists c ks cs, x = mkBranch c ks (map (@ref_of V) cs) /\ subtree (PBranch id c ks cs) (root b);
  (* freed slots hold the Default node (mem::take) *)
  ho_freed_leaf : forall i, i < length (store (hleaves h)) -> m_mask_at (lmeta b) i = false ->
      nth_error (store (hleaves h)) i = Some (@dflt_leaf V);
  ho_freed_branch : forall i, i < length (store (hbranches h)) -> m_mask_at (bmeta b) i = false ->
      nth_error (store (hbranches h)) i = Some dflt_branch }.

(* the in-order list of leaves of a tree as heap leaves *)
Fixpoint leaves_of (t : ptree) : list (N * leaf V) :=
  match t with
  | PLeaf id c ks vs nx => [(id, mkLeaf c ks vs nx)]
  | PBranch _ _ _ cs => flat_map leaves_of cs
  end.

End Repr.
