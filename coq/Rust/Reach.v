(* FINAL ASSEMBLY of the Rust-map proofs: theorems about whole histories of operations.
   Every operation of [Run.step], started from a state that is [Good] (invariant + size
   bookkeeping) and within the model bound [fits], preserves [Good], never panics / runs
   out of fuel / hits UB, and -- when it is an abstract operation -- returns exactly what
   the sorted-association-list specification [Spec.spec_step] returns.  Lifted to [run],
   started from [b_new].  C06: the arena slot counts never exceed the high-water marks of
   simultaneously live nodes since construction or the last clear. *)
From Coq Require Import List Arith ZArith NArith Lia Bool Permutation.
From BPT Require Import Common.Base Common.AMap Rust.Arena Rust.Tree Rust.Heap Rust.Readers Rust.Run
     Rust.InvDefs Rust.Repr Rust.Spec Rust.MiscProofs Rust.ReachDefs Rust.ReachStep.
Import ListNotations.
Set Implicit Arguments.

Section Reach.
Variable V : Type.

(* 1. every operation preserves the invariant and the size bookkeeping, and never
      panics / runs out of fuel / hits UB *)
Theorem step_good : forall n (b : bstate V) (o : op V),
  Good n b -> fits (n + op_weight o) ->
  Good (n + op_weight o) (fst (step b o)) /\ out_is_error (snd (step b o)) = false /\
  cap (fst (step b o)) = cap b.
Proof.
  intros n b o G F. destruct (step_all o G F) as (H1 & H2 & H3 & _). auto.
Qed.

(* 2. every abstract operation returns exactly what the specification returns and moves
      the contents accordingly *)
Theorem step_refines : forall n (b : bstate V) (o : op V),
  Good n b -> fits (n + op_weight o) -> abstract_op o = true ->
  spec_step (contents (root b)) o = (contents (root (fst (step b o))), snd (step b o)).
Proof.
  intros n b o G F A. destruct (step_all o G F) as (_ & _ & _ & H4 & _). auto.
Qed.

(* slot discipline of one step *)
Lemma step_slots : forall n (b : bstate V) (o : op V),
  Good n b -> fits (n + op_weight o) -> slot_post o b (fst (step b o)).
Proof.
  intros n b o G F. destruct (step_all o G F) as (_ & _ & _ & _ & H5). exact H5.
Qed.

(* 3. histories *)
Lemma run_cons : forall (b : bstate V) o ops,
  fst (run b (o :: ops)) = fst (run (fst (step b o)) ops) /\
  snd (run b (o :: ops)) = snd (step b o) :: snd (run (fst (step b o)) ops).
Proof.
  intros b o ops. cbn [run]. destruct (step b o) as [b1 x]. cbn [fst snd].
  destruct (run b1 ops) as [b2 xs]. auto.
Qed.

Lemma spec_run_cons : forall (m : amap V) o ops,
  spec_run m (o :: ops) =
  (fst (spec_run (fst (spec_step m o)) ops),
   snd (spec_step m o) :: snd (spec_run (fst (spec_step m o)) ops)).
Proof.
  intros m o ops. cbn [spec_run]. destruct (spec_step m o) as [m1 x]. cbn [fst snd].
  destruct (spec_run m1 ops) as [m2 xs]. reflexivity.
Qed.

Lemma ops_weight_cons : forall (o : op V) ops, ops_weight (o :: ops) = op_weight o + ops_weight ops.
Proof. reflexivity. Qed.

Theorem run_good : forall ops n (b : bstate V),
  Good n b -> fits (n + ops_weight ops) ->
  Good (n + ops_weight ops) (fst (run b ops)) /\
  forallb (fun x => negb (out_is_error x)) (snd (run b ops)) = true.
Proof.
  induction ops as [|o ops IH]; intros n b G F.
  - cbn [run fst snd forallb]. unfold ops_weight. cbn [map list_sum]. rewrite Nat.add_0_r. auto.
  - rewrite ops_weight_cons, Nat.add_assoc in *.
    assert (F1 : fits (n + op_weight o)) by (eapply fits_mono; [exact F|lia]).
    destruct (step_good o G F1) as (G1 & E1 & _).
    destruct (IH _ _ G1 F) as (G2 & E2).
    destruct (run_cons b o ops) as [R1 R2]. rewrite R1, R2. split; [exact G2|].
    cbn [forallb]. rewrite E1, E2. reflexivity.
Qed.

Theorem run_refines : forall ops n (b : bstate V),
  Good n b -> fits (n + ops_weight ops) -> forallb (@abstract_op V) ops = true ->
  spec_run (contents (root b)) ops = (contents (root (fst (run b ops))), snd (run b ops)).
Proof.
  induction ops as [|o ops IH]; intros n b G F A.
  - reflexivity.
  - rewrite ops_weight_cons, Nat.add_assoc in F.
    cbn [forallb] in A. apply andb_true_iff in A. destruct A as [A1 A2].
    assert (F1 : fits (n + op_weight o)) by (eapply fits_mono; [exact F|lia]).
    destruct (step_good o G F1) as (G1 & _ & _).
    pose proof (step_refines o G F1 A1) as S1.
    pose proof (IH _ _ G1 F A2) as S2.
    destruct (run_cons b o ops) as [R1 R2]. rewrite R1, R2.
    rewrite spec_run_cons, S1. cbn [fst snd]. rewrite S2. reflexivity.
Qed.

Theorem new_good : forall c, 4 <= c ->
  exists b0, b_new V c = Some b0 /\ Good 0 b0 /\ cap b0 = c /\ contents (root b0) = [].
Proof.
  intros c Hc. destruct (new_inv V Hc) as (b0 & E & I & Hcap & C & R).
  exists b0. split; [exact E|]. split; [|split; assumption].
  split; [exact I|]. rewrite C.
  unfold b_new in E. destruct (Nat.ltb c MIN_CAPACITY); [discriminate E|].
  inversion E; subst b0. cbn [lmeta bmeta m_mask length]. repeat split; lia.
Qed.

Corollary reachable_inv : forall c ops, 4 <= c -> fits (ops_weight ops) ->
  exists b0, b_new V c = Some b0 /\ Inv (fst (run b0 ops)) /\ rooms (fst (run b0 ops)) /\
             forallb (fun x => negb (out_is_error x)) (snd (run b0 ops)) = true.
Proof.
  intros c ops Hc F. destruct (new_good Hc) as (b0 & E & G & _).
  exists b0. split; [exact E|].
  destruct (@run_good ops 0 b0 G F) as (G' & NE).
  split; [exact (Good_inv G')|]. split; [|exact NE].
  eapply Good_rooms with (w := 0); [exact G'|]. rewrite Nat.add_0_r. exact F.
Qed.

Corollary refines_amap : forall c ops, 4 <= c -> fits (ops_weight ops) ->
  forallb (@abstract_op V) ops = true ->
  exists b0, b_new V c = Some b0 /\
    spec_run [] ops = (contents (root (fst (run b0 ops))), snd (run b0 ops)).
Proof.
  intros c ops Hc F A. destruct (new_good Hc) as (b0 & E & G & _ & C).
  exists b0. split; [exact E|]. rewrite <- C. exact (@run_refines ops 0 b0 G F A).
Qed.

(* 4. C06: storage never exceeds the high-water mark of simultaneously live nodes since
      new/clear *)
Lemma hw_next_eq : forall hw (o : op V) (b' : bstate V),
  hw_next hw o b' =
  if is_clear o then (1, 0)
  else (Nat.max (fst hw) (n_leaves (root b')), Nat.max (snd hw) (n_branches (root b'))).
Proof. intros hw o b'. destruct o; reflexivity. Qed.

Theorem slots_bounded : forall ops n (b : bstate V) hw,
  Good n b -> fits (n + ops_weight ops) ->
  length (m_mask (lmeta b)) <= fst hw -> length (m_mask (bmeta b)) <= snd hw ->
  n_leaves (root b) <= fst hw -> n_branches (root b) <= snd hw ->
  let r := run_hw b hw ops in
  length (m_mask (lmeta (fst r))) <= fst (snd r) /\ length (m_mask (bmeta (fst r))) <= snd (snd r).
Proof.
  induction ops as [|o ops IH]; intros n b hw G F L B NL NB; cbv zeta.
  - cbn [run_hw fst snd]. auto.
  - cbn [run_hw]. cbv zeta.
    rewrite ops_weight_cons, Nat.add_assoc in F.
    assert (F1 : fits (n + op_weight o)) by (eapply fits_mono; [exact F|lia]).
    destruct (step_good o G F1) as (G1 & _ & _).
    pose proof (step_slots o G F1) as SP.
    apply (IH _ _ (hw_next hw o (fst (step b o))) G1 F);
      rewrite hw_next_eq; unfold slot_post in SP;
      destruct (is_clear o); cbn [fst snd]; lia.
Qed.

Corollary slots_bounded_new : forall c ops, 4 <= c -> fits (ops_weight ops) ->
  exists b0, b_new V c = Some b0 /\
  let r := run_hw b0 (1, 0) ops in
  length (m_mask (lmeta (fst r))) <= fst (snd r) /\ length (m_mask (bmeta (fst r))) <= snd (snd r).
Proof.
  intros c ops Hc F. destruct (new_good Hc) as (b0 & E & G & _).
  exists b0. split; [exact E|].
  apply (@slots_bounded ops 0 b0 (1, 0) G F);
    unfold b_new in E; (destruct (Nat.ltb c MIN_CAPACITY); [discriminate E|]);
    inversion E; subst b0; cbn; lia.
Qed.

End Reach.

(* ------------------------------------------------------------------ *)
(* Non-vacuity: a concrete history of mixed operations at capacity 4 (V := Z); the model
   and the specification are run by the kernel and agree, the history is within the model
   bound and consists of abstract operations only, so [run_refines] applies to it. *)
Module ReachExamples.

Definition K (z : Z) : key := mkKey z (Z.to_N z).

Definition ex_ops : list (op Z) :=
  [ OIsEmpty; OLen;
    OInsert (K 5) 50%Z; OInsert (K 3) 30%Z; OInsert (K 8) 80%Z; OInsert (K 1) 10%Z;
    OInsert (K 9) 90%Z; OInsert (mkKey 5 77) 55%Z;
    OGet 5%Z; OGet 4%Z; OContains 3%Z; OGetOrDefault 4%Z (-1)%Z; OLen;
    OBatchInsert [(K 2, 20%Z); (K 7, 70%Z); (K 6, 60%Z); (K 4, 40%Z); (K 10, 100%Z);
                  (K 11, 110%Z); (K 12, 120%Z); (K 7, 71%Z)];
    OValidate; OFirstLast; OSlices;
    OIter [KItems; KFast; KKeys; KValues] [(0, 3); (1, 2); (2, 20); (3, 1); (0, 1); (7, 1); (2, 1)];
    ORange (Included 3%Z) (Excluded 9%Z); ORange (Excluded 3%Z) Unbounded;
    OItemsRange (Some 4%Z) (Some 8%Z); OItemsRange None None;
    OGetMutWrite 7%Z 777%Z; OGetMutWrite 100%Z 1%Z;
    ORemove 5%Z; ORemove 5%Z; ORemoveItem 1%Z; ORemoveItem 1%Z;
    OTryGet 7%Z; OGetItem 100%Z; OGetMany [2; 3; 7]%Z; OGetMany [2; 100]%Z;
    OTryInsert (K 13) 130%Z; OTryRemove 2%Z; OTryRemove 2%Z;
    ORemove 3%Z; ORemove 4%Z; ORemove 6%Z; ORemove 8%Z; ORemove 9%Z; ORemove 10%Z;
    OValidate; OSlices; OLen;
    OClear; OIsEmpty; OInsert (K 1) 1%Z; OFirstLast ].

Example ex_abstract : forallb (@abstract_op Z) ex_ops = true.
Proof. vm_compute. reflexivity. Qed.

Example ex_weight : length ex_ops = 48 /\ ops_weight ex_ops = 56.
Proof. vm_compute. split; reflexivity. Qed.

Example ex_fits : fits (ops_weight ex_ops).
Proof. unfold fits. vm_compute. reflexivity. Qed.

(* model and specification agree on the whole history, no outcome is an error *)
Example ex_agree : exists b0, b_new Z 4 = Some b0 /\
  spec_run [] ex_ops = (contents (root (fst (run b0 ex_ops))), snd (run b0 ex_ops)) /\
  forallb (fun x => negb (out_is_error x)) (snd (run b0 ex_ops)) = true /\
  length (snd (run b0 ex_ops)) = 48.
Proof.
  eexists. split; [reflexivity|]. vm_compute. split; [reflexivity|split; reflexivity].
Qed.

(* the same fact obtained from the theorem (its hypotheses hold for this history) *)
Example ex_agree_by_theorem : exists b0, b_new Z 4 = Some b0 /\
  spec_run [] ex_ops = (contents (root (fst (run b0 ex_ops))), snd (run b0 ex_ops)).
Proof. apply refines_amap; [lia|exact ex_fits|exact ex_abstract]. Qed.

(* slot counts and high-water marks along the history: (leaf slots, branch slots, marks,
   live leaves, live branches) after 8, 14, 35, 44 (two leaves live, four slots: the marks
   remember the four simultaneously live leaves), 45 (after clear) and 48 operations *)
Example ex_slots :
  match b_new Z 4 with
  | Some b0 =>
      map (fun n => let r := run_hw b0 (1, 0) (firstn n ex_ops) in
                    (length (m_mask (lmeta (fst r))), length (m_mask (bmeta (fst r))), snd r,
                     n_leaves (root (fst r)), n_branches (root (fst r))))
          [8; 14; 35; 44; 45; 48]
      = [(2, 1, (2, 1), 2, 1); (4, 1, (4, 1), 4, 1); (4, 1, (4, 1), 4, 1);
         (4, 1, (4, 1), 2, 1); (1, 0, (1, 0), 1, 0); (1, 0, (1, 0), 1, 0)]
  | None => False
  end.
Proof. vm_compute. reflexivity. Qed.

End ReachExamples.

Print Assumptions step_good.
Print Assumptions step_refines.
Print Assumptions run_good.
Print Assumptions run_refines.
Print Assumptions reachable_inv.
Print Assumptions refines_amap.
Print Assumptions slots_bounded.
Print Assumptions slots_bounded_new.
