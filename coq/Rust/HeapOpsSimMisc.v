(* Simulation of get_mut+write and clear by the arena-level versions of Rust/HeapOps.v. *)
From Coq Require Import List Arith ZArith NArith Lia Bool Permutation.
From BPT Require Import Common.Base Common.AMap Rust.Arena Rust.ArenaSpec Rust.ArenaProofs
  Rust.Tree Rust.Heap Rust.Readers Rust.Run Rust.InvDefs Rust.Repr Rust.Lib Rust.InsertMeta
  Rust.Bridge Rust.ReadersGet Rust.MiscProofs Rust.HeapOps Rust.HeapOpsSimBase.
Import ListNotations.
Set Implicit Arguments.

Section MiscSim.
Variable V : Type.
Notation heap := (heap V).
Notation ptree := (ptree V).

Ltac ssplit := repeat match goal with |- _ /\ _ => split end.

(* what get_mut_write_A does once the leaf position is known *)
Definition gmw_k (h : heap) (v : V) (r : option (N * nat * bool)) : res (heap * bool) :=
  match r with
  | Some (id, i, true) =>
      match get_leaf h id with
      | Some l =>
          if Nat.ltb i (length (lvals l))
          then Ok (put_leaf h id (mkLeaf (lcap l) (lkeys l) (set_nth i v (lvals l)) (lnext l)), true)
          else Ok (h, false)
      | None => Ok (h, false)
      end
  | _ => Ok (h, false)
  end.

Lemma get_mut_write_A_eq : forall (h : heap) z v,
  get_mut_write_A h z v = (do r <- h_find (dfuel h) h (hroot h) z; gmw_k h v r).
Proof. reflexivity. Qed.

Lemma upd_sim : forall f fa (t : ptree) (h : heap) z v t' ok,
  f <= fa -> upd f t z v = Ok (t', ok) -> hwf h -> repr h t ->
  NoDup (leaf_ids t) ->
  exists h', (do r <- h_find fa h (ref_of t) z; gmw_k h v r) = Ok (h', ok) /\
    repr h' t' /\ ref_of t' = ref_of t /\ hwf h' /\
    (forall id x, get_leaf h id = Some x -> ~ In id (leaf_ids t) -> get_leaf h' id = Some x) /\
    (forall id, get_branch h' id = get_branch h id) /\
    lmeta_of h' = lmeta_of h /\ bmeta_of h' = bmeta_of h /\
    hroot h' = hroot h /\ hcap h' = hcap h.
Proof.
  induction f as [|f IH]; intros fa t h z v t' ok Hf H W R NDl; [discriminate|].
  destruct fa as [|fa]; [lia|]. apply le_S_n in Hf.
  destruct t as [id c ks vs nx|id c ks cs]; cbn [upd h_find ref_of] in *.
  - pose proof (repr_leaf R) as G. rewrite G. cbn [bind gmw_k lkeys].
    destruct (bfound ks z).
    + rewrite G. cbn [lvals lkeys lcap lnext].
      destruct (Nat.ltb (lb ks z) (length vs)); inversion H; subst; clear H.
      * eexists. split; [reflexivity|]. ssplit; try reflexivity.
        -- apply repr_leaf_intro. eapply get_leaf_put_leaf_same; eauto.
        -- apply hwf_put_leaf; auto.
        -- intros id' x Hx Hn. rewrite get_leaf_put_leaf_other; auto.
           intros ->. apply Hn. cbn. auto.
        -- apply lmeta_put_leaf.
      * eexists. split; [reflexivity|]. ssplit; try reflexivity; auto.
    + inversion H; subst; clear H. eexists. split; [reflexivity|]. ssplit; try reflexivity; auto.
  - pose proof (repr_branch R) as G. rewrite G. cbn [bkeys bkids]. rewrite nth_error_map.
    destruct (nth_error cs (child_index ks z)) as [ch|] eqn:Ech; cbn [option_map].
    2:{ inversion H; subst; clear H. cbn [bind gmw_k]. eexists. split; [reflexivity|].
        ssplit; try reflexivity; auto. }
    set (ci := child_index ks z) in *.
    assert (Hin : In ch cs) by (eapply nth_error_In; eauto).
    destruct (upd f ch z v) as [[c' ok']| | |] eqn:E1; cbn [bind] in H; try discriminate.
    cbn [fst snd] in H. inversion H; subst; clear H.
    assert (Rch : repr h ch) by (eapply repr_child; eauto).
    assert (NDlc : NoDup (leaf_ids ch)) by (eapply NoDup_leaf_ids_child; eauto).
    destruct (IH fa ch h z v c' ok Hf E1 W Rch NDlc)
      as (h' & HA & Rc' & Href & W' & Hfl & Hfb & Ml & Mb & Hr & Hc).
    exists h'. split; [exact HA|]. ssplit; try reflexivity; try assumption.
    + apply repr_branch_intro.
      * rewrite Hfb. rewrite map_set_nth, Href. rewrite set_nth_same_id; [exact G|].
        rewrite nth_error_map, Ech. reflexivity.
      * intros x Hx. apply In_set_nth_inv in Hx. destruct Hx as [->|(j & Hj & Hx)]; [exact Rc'|].
        assert (Rx : repr h x) by (eapply repr_child; [exact R|eapply nth_error_In; eauto]).
        destruct Rx as [R1 R2]. split.
        -- intros id' c0 ks0 vs0 nx0 Hs. apply Hfl; [apply R1; exact Hs|].
           intros Hi. rewrite Bridge.leaf_ids_branch in NDl.
           eapply (@NoDup_flat_map_disj _ _ (@leaf_ids V) cs j ci x ch id'); eauto.
           apply leaf_ids_subtree. eauto.
        -- intros id' c0 ks0 cs0 Hs. rewrite Hfb. apply R2. exact Hs.
    + intros id' x Hx Hn. apply Hfl; auto. intros Hi. apply Hn. eapply leaf_ids_child; eauto.
Qed.

Theorem get_mut_write_sim_core : forall (b : bstate V) z v, Inv b -> rooms b ->
  exists b' ok, b_get_mut_write b z v = Ok (b', ok) /\
    get_mut_write_A (flatten b) z v = Ok (flatten b', ok).
Proof.
  intros b z v I Rs.
  destruct (get_mut_write_inv z v I) as (b' & Hb & I' & _).
  eexists b', _. split; [exact Hb|].
  pose proof (hwf_flatten I Rs) as W. pose proof (flatten_repr I Rs) as R.
  pose proof (flatten_heap_of I Rs) as HO. pose proof (Bridge.fuel_ok I HO) as Hfuel.
  set (h := flatten b) in *.
  destruct (inv_leaves I) as (NDl & _).
  unfold b_get_mut_write in Hb. rewrite get_mut_write_A_eq.
  destruct (upd (S (height (root b))) (root b) z v) as [[t' ok]| | |] eqn:E;
    cbn [bind] in Hb; try discriminate.
  cbn [fst snd] in Hb. inversion Hb as [[Hb' Hok]]. clear Hb.
  destruct (@upd_sim (S (height (root b))) (dfuel h) (root b) h z v t' ok ltac:(lia) E W R NDl)
    as (h' & HA & Rt' & Href & W' & Hfl & Hfb & Ml & Mb & Hr & Hc).
  change (hroot h) with (ref_of (root b)). rewrite HA. rewrite <- Hok. f_equal. f_equal.
  apply flatten_unique_inv; cbn [root lmeta bmeta cap]; auto.
  - rewrite Hb'. exact I'.
  - rewrite Ml. apply lmeta_of_flatten.
  - rewrite Mb. apply bmeta_of_flatten.
  - rewrite Hr. symmetry. exact Href.
Qed.

Theorem clear_sim_core : forall (b : bstate V), clear_A (flatten b) = flatten (b_clear b).
Proof. intros b. reflexivity. Qed.

End MiscSim.
