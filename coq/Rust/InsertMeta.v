(* Arena-metadata facts used by the insert proofs: allocation on a well-formed
   metadata record succeeds, returns a fresh non-NULL id, keeps [meta_ok], and grows the
   mask only when the free list is empty (in which case every slot is live). *)
From Coq Require Import List Arith ZArith NArith Lia Bool Permutation.
From BPT Require Import Common.Base Common.AMap Rust.Tree Rust.InvDefs Rust.Lib.
Import ListNotations.
Set Implicit Arguments.

Lemma meta_ok_perm : forall m ids ids',
  meta_ok m ids -> Permutation ids ids' -> meta_ok m ids'.
Proof.
  intros m ids ids' (H1 & H2 & H3 & H4) P. repeat split; auto.
  - eapply Permutation_NoDup; eauto.
  - intros Hin. apply H2. eapply Permutation_in; [apply Permutation_sym|]; eauto.
  - intros Hm. eapply Permutation_in; eauto. apply H2; auto.
  - apply H4.
  - apply H4.
Qed.

Lemma m_mask_at_lt : forall m i, m_mask_at m i = true -> i < length (m_mask m).
Proof.
  intros m i H. unfold m_mask_at in H.
  destruct (nth_error (m_mask m) i) eqn:E; try discriminate.
  apply nth_error_Some. congruence.
Qed.

Lemma room_le : forall m n n', room m n -> n' <= n -> room m n'.
Proof. unfold room. intros. lia. Qed.

Lemma room_len : forall m m' n n',
  room m n -> length (m_mask m') + n' <= length (m_mask m) + n -> room m' n'.
Proof. unfold room. intros. lia. Qed.

(* all slots live => as many ids as slots *)
Lemma meta_full_count : forall m ids,
  meta_ok m ids -> m_free m = [] -> length ids = length (m_mask m).
Proof.
  intros m ids (ND & Hin & _ & Hfree) Hnil.
  set (n := length (m_mask m)).
  assert (NDs : NoDup (map N.of_nat (seq 0 n))).
  { apply FinFun.Injective_map_NoDup; [|apply seq_NoDup].
    intros x y Hxy. apply Nat2N.inj; auto. }
  assert (I1 : incl ids (map N.of_nat (seq 0 n))).
  { intros id Hi. apply Hin in Hi. apply m_mask_at_lt in Hi.
    apply in_map_iff. exists (N.to_nat id). split; [apply N2Nat.id|].
    apply in_seq. unfold n. lia. }
  assert (I2 : incl (map N.of_nat (seq 0 n)) ids).
  { intros id Hi. apply in_map_iff in Hi. destruct Hi as (i & <- & Hi).
    apply in_seq in Hi. apply Hin. rewrite Nat2N.id. unfold m_mask_at.
    destruct (nth_error (m_mask m) i) as [[|]|] eqn:E; auto.
    - assert (In i (m_free m)) by (apply Hfree; auto). rewrite Hnil in H. destruct H.
    - apply nth_error_None in E. unfold n in Hi. lia. }
  pose proof (NoDup_incl_length ND I1). pose proof (NoDup_incl_length NDs I2).
  rewrite map_length, seq_length in *. lia.
Qed.

Lemma m_alloc_ok : forall m ids,
  meta_ok m ids -> room m 1 ->
  exists m' id,
    m_alloc m = Ok (m', id) /\ ~ In id ids /\ id <> NULL /\ meta_ok m' (id :: ids) /\
    length (m_mask m) <= length (m_mask m') /\
    length (m_mask m') <= S (length (m_mask m)) /\
    length (m_mask m') <= Nat.max (length (m_mask m)) (S (length ids)).
Proof.
  intros m ids MO R. pose proof MO as (ND & Hin & NDf & Hfree).
  unfold m_alloc. destruct (m_free m) as [|i f'] eqn:Ef.
  - (* push *)
    pose proof (meta_full_count MO Ef) as Hcnt.
    unfold id_of_index.
    assert (Hle : (N.of_nat (length (m_mask m)) <=? NULL)%N = true).
    { apply N.leb_le. unfold room, NULL in *. lia. }
    rewrite Hle. cbn [bind].
    eexists _, _. split; [reflexivity|].
    assert (Hnot : ~ In (N.of_nat (length (m_mask m))) ids).
    { intros Hi. apply Hin in Hi. apply m_mask_at_lt in Hi. rewrite Nat2N.id in Hi. lia. }
    split; [auto|]. split.
    { unfold room, NULL in *. lia. }
    split.
    { repeat split; cbn [m_mask m_free].
      - constructor; auto.
      - intros [<-|Hi].
        + rewrite Nat2N.id. unfold m_mask_at. cbn [m_mask].
          rewrite nth_error_app2 by lia. rewrite Nat.sub_diag. reflexivity.
        + apply Hin in Hi. unfold m_mask_at in *. cbn [m_mask].
          destruct (nth_error (m_mask m) (N.to_nat id)) eqn:E; try discriminate.
          rewrite nth_error_app1 by (apply nth_error_Some; congruence).
          rewrite E. auto.
      - intros Hm. unfold m_mask_at in Hm. cbn [m_mask] in Hm.
        destruct (Nat.lt_ge_cases (N.to_nat id) (length (m_mask m))).
        + right. apply Hin. unfold m_mask_at. rewrite nth_error_app1 in Hm by auto. auto.
        + destruct (Nat.eq_dec (N.to_nat id) (length (m_mask m))) as [e|ne].
          * left. rewrite <- e. apply N2Nat.id.
          * assert (nth_error (m_mask m ++ [true]) (N.to_nat id) = None).
            { apply nth_error_None. rewrite app_length. cbn. lia. }
            rewrite H0 in Hm. discriminate.
      - constructor.
      - intros [].
      - intros Hn. exfalso.
        destruct (Nat.lt_ge_cases i (length (m_mask m))).
        + rewrite nth_error_app1 in Hn by auto.
          apply Hfree in Hn. destruct Hn.
        + rewrite nth_error_app2 in Hn by auto.
          destruct (i - length (m_mask m)) as [|[|]]; cbn in Hn; discriminate. }
    cbn [m_mask]. rewrite app_length. cbn [length]. lia.
  - (* reuse slot i *)
    assert (Hi : nth_error (m_mask m) i = Some false).
    { apply Hfree. left; auto. }
    assert (Hlt : i < length (m_mask m)) by (apply nth_error_Some; congruence).
    unfold vec_set. destruct (Nat.ltb_spec i (length (m_mask m))); [|lia].
    cbn [bind]. unfold id_of_index.
    assert (Hle : (N.of_nat i <=? NULL)%N = true).
    { apply N.leb_le. unfold room, NULL in *. lia. }
    rewrite Hle. cbn [bind].
    eexists _, _. split; [reflexivity|].
    assert (Hnot : ~ In (N.of_nat i) ids).
    { intros Hx. apply Hin in Hx. rewrite Nat2N.id in Hx. unfold m_mask_at in Hx.
      rewrite Hi in Hx. discriminate. }
    split; [auto|]. split.
    { unfold room, NULL in *. lia. }
    inversion NDf as [|? ? Hnf NDf']; subst.
    split.
    { repeat split; cbn [m_mask m_free].
      - constructor; auto.
      - intros [<-|Hx].
        + rewrite Nat2N.id. unfold m_mask_at. cbn [m_mask].
          rewrite nth_error_set_nth_same; auto.
        + assert (N.to_nat id <> i).
          { intros e. apply Hnot. rewrite <- e. rewrite N2Nat.id. auto. }
          apply Hin in Hx. unfold m_mask_at in *. cbn [m_mask].
          rewrite nth_error_set_nth_other by auto. auto.
      - intros Hm. destruct (Nat.eq_dec (N.to_nat id) i) as [e|ne].
        + left. rewrite <- e. apply N2Nat.id.
        + right. apply Hin. unfold m_mask_at in *. cbn [m_mask] in Hm.
          rewrite nth_error_set_nth_other in Hm by auto. auto.
      - auto.
      - intros Hj. assert (i0 <> i) by (intros ->; auto).
        rewrite nth_error_set_nth_other by auto. apply Hfree. right; auto.
      - intros Hn. destruct (Nat.eq_dec i0 i) as [->|ne].
        + rewrite nth_error_set_nth_same in Hn by auto. discriminate.
        + rewrite nth_error_set_nth_other in Hn by auto.
          apply Hfree in Hn. destruct Hn; [congruence|auto]. }
    cbn [m_mask]. rewrite length_set_nth. lia.
Qed.
