(* Model A mutators: BPlusTreeMap::insert / remove / get_mut+write / clear transcribed at
   ARENA level, i.e. on [heap] (two CompactArenas of node records that refer to each other
   by id), with exactly the arena operations of the Rust code in the Rust order:
     get_leaf / get_branch                       = [a_get]
     get_leaf_mut(id) + field writes             = read the record ([a_get]), compute the new
                                                   record, write it back ([a_set]); a panic in
                                                   between loses the state in both worlds
     allocate_leaf / allocate_branch             = [allocate]
     deallocate_leaf / deallocate_branch         = [deallocate] with the Default node left in
                                                   the slot (mem::take)
   Every `None => return ...` fallback of the Rust code is kept: on an arbitrary heap they
   are reachable.  Panic sites carry the numbers of the corresponding sites of Rust/Tree.v.
   Recursive descents carry fuel ([dfuel h]); OutOfFuel stands for non-termination on a
   cyclic heap.

   Rust/HeapOpsSim.v proves that on [flatten b] (b satisfying the invariant) these
   functions compute [flatten] of what the model-B mutators of Rust/Tree.v compute.

   Definitions only (executable). *)
From BPT Require Import Common.Base Rust.Arena Rust.Tree Rust.Heap Rust.Readers Rust.Run.
Set Implicit Arguments.

Section HeapOps.
Variable V : Type.
Notation heap := (heap V).
Notation leaf := (leaf V).

(* ---------------- field updates of the map struct ---------------- *)
Definition set_leaves (h : heap) (a : arena leaf) : heap :=
  mkHeap (hcap h) (hroot h) a (hbranches h).
Definition set_branches (h : heap) (a : arena branch) : heap :=
  mkHeap (hcap h) (hroot h) (hleaves h) a.
Definition set_root (h : heap) (r : nref) : heap :=
  mkHeap (hcap h) r (hleaves h) (hbranches h).

(* write a whole record through get_leaf_mut(id) / get_branch_mut(id); only used after the
   same id was looked up successfully *)
Definition put_leaf (h : heap) (id : N) (l : leaf) : heap :=
  set_leaves h (fst (a_set (hleaves h) id l)).
Definition put_branch (h : heap) (id : N) (x : branch) : heap :=
  set_branches h (fst (a_set (hbranches h) id x)).

(* allocate_leaf / allocate_branch / deallocate_leaf / deallocate_branch *)
Definition alloc_leaf (h : heap) (l : leaf) : res (heap * N) :=
  do al <- allocate (hleaves h) l;
  Ok (set_leaves h (fst al), snd al).
Definition alloc_branch (h : heap) (x : branch) : res (heap * N) :=
  do al <- allocate (hbranches h) x;
  Ok (set_branches h (fst al), snd al).
Definition dealloc_leaf (h : heap) (id : N) : res heap :=
  do d <- deallocate (@dflt_leaf V) (hleaves h) id;
  Ok (set_leaves h (fst d)).
Definition dealloc_branch (h : heap) (id : N) : res heap :=
  do d <- deallocate dflt_branch (hbranches h) id;
  Ok (set_branches h (fst d)).

(* get_child_for_key *)
Definition get_child_for_key (h : heap) (bid : N) (z : Z) : option (nat * nref) :=
  match get_branch h bid with
  | None => None
  | Some x =>
      let ci := child_index (bkeys x) z in
      match nth_error (bkids x) ci with
      | Some c => Some (ci, c)
      | None => None
      end
  end.

(* ================================================================== *)
(* insert                                                              *)
(* ================================================================== *)

(* SplitNodeData.  [SDLeaf] is only built by LeafNode::insert (not on this path) and
   [SDAllocBranch] by nobody; the callers' match arms for them are transcribed anyway.
   InsertResult::Error is never constructed anywhere in the crate and is left out. *)
Inductive split_data : Type :=
| SDLeaf (l : leaf) | SDBranch (x : branch) | SDAllocLeaf (id : N) | SDAllocBranch (id : N).

Inductive ires : Type :=
| AUpdated (old : option V)
| ASplit (old : option V) (d : split_data) (sep : key).

(* insert_into_leaf *)
Definition insert_into_leaf_A (h : heap) (leaf_id : N) (k : key) (v : V) : res (heap * ires) :=
  match get_leaf h leaf_id with
  | None => Ok (h, AUpdated None)
  | Some l =>
    let ks := lkeys l in
    let vs := lvals l in
    let i := lb ks (kz k) in
    if bfound ks (kz k) then
      match nth_error vs i with
      | Some old =>
          Ok (put_leaf h leaf_id (mkLeaf (lcap l) ks (set_nth i v vs) (lnext l)),
              AUpdated (Some old))
      | None => Ok (h, AUpdated None)
      end
    else if negb (Nat.leb (lcap l) (length ks)) then
      do ks' <- vec_insert 10 i k ks;
      do vs' <- vec_insert 11 i v vs;
      Ok (put_leaf h leaf_id (mkLeaf (lcap l) ks' vs' (lnext l)), AUpdated None)
    else
      let min_keys := lcap l / 2 in
      let total := length ks in
      let mid0 := (total + 1) / 2 in
      do d <- usub 12 total min_keys;
      let mid := Nat.min (Nat.max mid0 min_keys) d in
      do kss <- vec_split_off 13 mid ks;
      do vss <- vec_split_off 14 mid vs;
      let '(lks, rks) := kss in
      let '(lvs, rvs) := vss in
      let llen := length lks in
      (* the split_offs happened in place, through the &mut borrow *)
      let h1 := put_leaf h leaf_id (mkLeaf (lcap l) lks lvs (lnext l)) in
      (* allocate_leaf_with_data(leaf_capacity, right_keys, right_values, leaf_next) *)
      do al <- alloc_leaf h1 (mkLeaf (lcap l) rks rvs (lnext l));
      let '(h2, rid) := al in
      do h3 <-
        match get_leaf h2 leaf_id with
        | Some l2 =>
            if Nat.leb i llen then
              do lks' <- vec_insert 15 i k (lkeys l2);
              do lvs' <- vec_insert 16 i v (lvals l2);
              Ok (put_leaf h2 leaf_id (mkLeaf (lcap l2) lks' lvs' rid))
            else
              let h2' := put_leaf h2 leaf_id (mkLeaf (lcap l2) (lkeys l2) (lvals l2) rid) in
              match get_leaf h2' rid with
              | Some r =>
                  do rks' <- vec_insert 17 (i - llen) k (lkeys r);
                  do rvs' <- vec_insert 18 (i - llen) v (lvals r);
                  Ok (put_leaf h2' rid (mkLeaf (lcap r) rks' rvs' (lnext r)))
              | None => Ok h2'
              end
        | None => Ok h2
        end;
      (* get_leaf(new_right_id).and_then(first_key).unwrap() *)
      match get_leaf h3 rid with
      | Some r =>
          match lkeys r with
          | sep :: _ => Ok (h3, ASplit None (SDAllocLeaf rid) sep)
          | [] => Panic 19
          end
      | None => Panic 19
      end
  end.

(* the `match new_node_data` of insert_recursive and of insert: turn split data into a
   NodeRef, allocating raw data; [orig] is the child the split came from (insert_recursive)
   or the root (insert) *)
Definition realize_A (h : heap) (orig : nref) (d : split_data) : res (heap * nref) :=
  match d with
  | SDLeaf nl =>
      do al <- alloc_leaf h nl;
      let '(h1, new_id) := al in
      let h2 :=
        match orig with
        | RLeaf original_id =>
            match get_leaf h1 original_id with
            | Some ol => put_leaf h1 original_id (mkLeaf (lcap ol) (lkeys ol) (lvals ol) new_id)
            | None => h1
            end
        | RBranch _ => h1
        end in
      Ok (h2, RLeaf new_id)
  | SDBranch nb =>
      do al <- alloc_branch h nb;
      Ok (fst al, RBranch (snd al))
  | SDAllocLeaf id => Ok (h, RLeaf id)
  | SDAllocBranch id => Ok (h, RBranch id)
  end.

(* BranchNode::insert_child_and_split_if_needed + split_data, on the record *)
Definition branch_insert_child (x : branch) (ci : nat) (sep : key) (newc : nref)
  : res (branch * option (branch * key)) :=
  let full := Nat.leb (bcap x) (length (bkeys x)) in
  do ks2 <- vec_insert 20 ci sep (bkeys x);
  do cs2 <- vec_insert 21 (S ci) newc (bkids x);
  if full then
    let mid := bcap x / 2 in
    do promoted <- vec_get 22 mid ks2;
    do kss <- vec_split_off 23 (S mid) ks2;
    do css <- vec_split_off 24 (S mid) cs2;
    let '(lks0, rks) := kss in
    let '(lcs, rcs) := css in
    Ok (mkBranch (bcap x) (removelast lks0) lcs, Some (mkBranch (bcap x) rks rcs, promoted))
  else Ok (mkBranch (bcap x) ks2 cs2, None).

(* insert_recursive *)
Fixpoint ins_A (fuel : nat) (h : heap) (r : nref) (k : key) (v : V) : res (heap * ires) :=
  match fuel with
  | O => OutOfFuel
  | S f =>
    match r with
    | RLeaf id => insert_into_leaf_A h id k v
    | RBranch id =>
        match get_child_for_key h id (kz k) with
        | None => Ok (h, AUpdated None)
        | Some (ci, cref) =>
            do r1 <- ins_A f h cref k v;
            let '(h1, cr) := r1 in
            match cr with
            | AUpdated old => Ok (h1, AUpdated old)
            | ASplit old d sep =>
                do nn <- realize_A h1 cref d;
                let '(h2, newref) := nn in
                match get_branch h2 id with
                | None => Ok (h2, AUpdated old)
                | Some x =>
                    do bi <- branch_insert_child x ci sep newref;
                    let '(x', sp) := bi in
                    let h3 := put_branch h2 id x' in
                    match sp with
                    | Some (nb, promoted) => Ok (h3, ASplit old (SDBranch nb) promoted)
                    | None => Ok (h3, AUpdated old)
                    end
                end
            end
        end
    end
  end.

(* BPlusTreeMap::insert (with new_root inlined: the old root becomes the left child) *)
Definition insert_A (h : heap) (k : key) (v : V) : res (heap * option V) :=
  do r <- ins_A (dfuel h) h (hroot h) k v;
  let '(h1, cr) := r in
  match cr with
  | AUpdated old => Ok (h1, old)
  | ASplit old d sep =>
      do nn <- realize_A h1 (hroot h1) d;
      let '(h2, newref) := nn in
      let new_root := mkBranch (hcap h2) [sep] [hroot h2; newref] in
      do al <- alloc_branch h2 new_root;
      let '(h3, root_id) := al in
      Ok (set_root h3 (RBranch root_id), old)
  end.

(* ================================================================== *)
(* remove                                                              *)
(* ================================================================== *)

(* the can_donate flag gathered by rebalance_child for a sibling *)
Definition can_donate_A (h : heap) (r : nref) : bool :=
  match r with
  | RLeaf id =>
      match get_leaf h id with
      | Some l => Nat.ltb (lcap l / 2) (length (lkeys l))
      | None => false
      end
  | RBranch id =>
      match get_branch h id with
      | Some x => Nat.ltb (bcap x / 2) (length (bkeys x))
      | None => false
      end
  end.

(* is_node_underfull *)
Definition is_node_underfull_A (h : heap) (r : nref) : bool :=
  match r with
  | RLeaf id =>
      match get_leaf h id with
      | Some l => Nat.ltb (length (lkeys l)) (lcap l / 2)
      | None => false
      end
  | RBranch id =>
      match get_branch h id with
      | Some x => Nat.ltb (length (bkeys x)) (bcap x / 2)
      | None => false
      end
  end.

(* ---- the four leaf rebalancing functions ---- *)
Definition borrow_from_left_leaf_A (h : heap) (branch_id : N) (ci : nat) (left_id child_id : N)
  : res (heap * bool) :=
  match get_leaf h left_id with
  | None => Ok (h, false)
  | Some l =>
      (* borrow_last *)
      if orb (Nat.eqb (length (lkeys l)) 0) (negb (Nat.ltb (lcap l / 2) (length (lkeys l))))
      then Ok (h, false)
      else
        match vec_pop (lkeys l), vec_pop (lvals l) with
        | Some (k, lks'), Some (v, lvs') =>
            let h1 := put_leaf h left_id (mkLeaf (lcap l) lks' lvs' (lnext l)) in
            match get_leaf h1 child_id with
            | None => Ok (h1, false)
            | Some c =>
                (* accept_from_left *)
                let h2 := put_leaf h1 child_id
                            (mkLeaf (lcap c) (k :: lkeys c) (v :: lvals c) (lnext c)) in
                match get_branch h2 branch_id with
                | Some p =>
                    do ks' <- vec_set 30 (ci - 1) k (bkeys p);
                    Ok (put_branch h2 branch_id (mkBranch (bcap p) ks' (bkids p)), true)
                | None => Ok (h2, false)
                end
            end
        | _, _ => Panic 31
        end
  end.

Definition borrow_from_right_leaf_A (h : heap) (branch_id : N) (ci : nat) (child_id right_id : N)
  : res (heap * bool) :=
  match get_leaf h right_id with
  | None => Ok (h, false)
  | Some r =>
      (* borrow_first *)
      if orb (Nat.eqb (length (lkeys r)) 0) (negb (Nat.ltb (lcap r / 2) (length (lkeys r))))
      then Ok (h, false)
      else
        match lkeys r, lvals r with
        | k :: rks', v :: rvs' =>
            let new_first_opt := match rks' with sep :: _ => Some sep | [] => None end in
            let h1 := put_leaf h right_id (mkLeaf (lcap r) rks' rvs' (lnext r)) in
            match get_leaf h1 child_id with
            | None => Ok (h1, false)
            | Some c =>
                (* accept_from_right *)
                let h2 := put_leaf h1 child_id
                            (mkLeaf (lcap c) (lkeys c ++ [k]) (lvals c ++ [v]) (lnext c)) in
                match new_first_opt, get_branch h2 branch_id with
                | Some sep, Some p =>
                    do ks' <- vec_set 32 ci sep (bkeys p);
                    Ok (put_branch h2 branch_id (mkBranch (bcap p) ks' (bkids p)), true)
                | _, _ => Ok (h2, false)
                end
            end
        | _, _ => Panic 33
        end
  end.

Definition merge_with_left_leaf_A (h : heap) (branch_id : N) (ci : nat) (left_id child_id : N)
  : res (heap * bool) :=
  match get_leaf h child_id with
  | None => Ok (h, false)
  | Some c =>
      (* extract_all: keys and values taken, next replaced by NULL_NODE *)
      let h1 := put_leaf h child_id (mkLeaf (lcap c) [] [] NULL) in
      match get_leaf h1 left_id with
      | None => Ok (h1, false)
      | Some l =>
          if orb (Nat.ltb (lcap l) (length (lkeys l) + length (lkeys c)))
                 (Nat.ltb (lcap l) (length (lvals l) + length (lvals c)))
          then Panic 34 else
          let h2 := put_leaf h1 left_id
                      (mkLeaf (lcap l) (lkeys l ++ lkeys c) (lvals l ++ lvals c) (lnext c)) in
          match get_branch h2 branch_id with
          | None => Ok (h2, false)
          | Some p =>
              do r1 <- vec_remove 35 ci (bkids p);
              do r2 <- vec_remove 36 (ci - 1) (bkeys p);
              let h3 := put_branch h2 branch_id (mkBranch (bcap p) (snd r2) (snd r1)) in
              do h4 <- dealloc_leaf h3 child_id;
              Ok (h4, false)
          end
      end
  end.

Definition merge_with_right_leaf_A (h : heap) (branch_id : N) (ci : nat) (child_id right_id : N)
  : res (heap * bool) :=
  match get_leaf h right_id with
  | None => Ok (h, false)
  | Some r =>
      (* take_keys, take_values; next is read but stays *)
      let h1 := put_leaf h right_id (mkLeaf (lcap r) [] [] (lnext r)) in
      match get_leaf h1 child_id with
      | None => Ok (h1, false)
      | Some c =>
          if orb (Nat.ltb (lcap c) (length (lkeys c) + length (lkeys r)))
                 (Nat.ltb (lcap c) (length (lvals c) + length (lvals r)))
          then Panic 37 else
          let h2 := put_leaf h1 child_id
                      (mkLeaf (lcap c) (lkeys c ++ lkeys r) (lvals c ++ lvals r) (lnext r)) in
          match get_branch h2 branch_id with
          | None => Ok (h2, false)
          | Some p =>
              do r1 <- vec_remove 38 (S ci) (bkids p);
              do r2 <- vec_remove 39 ci (bkeys p);
              let h3 := put_branch h2 branch_id (mkBranch (bcap p) (snd r2) (snd r1)) in
              do h4 <- dealloc_leaf h3 right_id;
              Ok (h4, true)
          end
      end
  end.

(* `match parent.children[child_index] { NodeRef::Leaf(id, _) => id, _ => return false }`
   on a fresh get_branch(parent_id): Ok None = return false; the index panics when out of
   range (it cannot be: rebalance_child indexed the same vector) *)
Definition child_leaf_id_A (h : heap) (parent_id : N) (ci : nat) : res (option N) :=
  match get_branch h parent_id with
  | None => Ok None
  | Some p =>
      do c <- vec_get 60 ci (bkids p);
      match c with RLeaf id => Ok (Some id) | RBranch _ => Ok None end
  end.

(* rebalance_leaf *)
Definition rebalance_leaf_A (h : heap) (parent_id : N) (ci : nat)
           (left_info right_info : option (nref * bool)) : res (heap * bool) :=
  match get_branch h parent_id with
  | None => Ok (h, false)
  | Some p =>
    let kids := bkids p in
    let left_id_opt :=
      if Nat.ltb 0 ci then
        match nth_error kids (ci - 1) with Some (RLeaf id) => Some id | _ => None end
      else None in
    let right_id_opt :=
      if Nat.ltb (S ci) (length kids) then
        match nth_error kids (S ci) with Some (RLeaf id) => Some id | _ => None end
      else None in
    match (match left_info with Some (_, true) => left_id_opt | _ => None end) with
    | Some left_id =>
        do c <- child_leaf_id_A h parent_id ci;
        match c with
        | Some child_id => borrow_from_left_leaf_A h parent_id ci left_id child_id
        | None => Ok (h, false)
        end
    | None =>
    match (match right_info with Some (_, true) => right_id_opt | _ => None end) with
    | Some right_id =>
        do c <- child_leaf_id_A h parent_id ci;
        match c with
        | Some child_id => borrow_from_right_leaf_A h parent_id ci child_id right_id
        | None => Ok (h, false)
        end
    | None =>
    match left_id_opt with
    | Some left_id =>
        do c <- child_leaf_id_A h parent_id ci;
        match c with
        | Some child_id => merge_with_left_leaf_A h parent_id ci left_id child_id
        | None => Ok (h, false)
        end
    | None =>
    match right_id_opt with
    | Some right_id =>
        do c <- child_leaf_id_A h parent_id ci;
        match c with
        | Some child_id => merge_with_right_leaf_A h parent_id ci child_id right_id
        | None => Ok (h, false)
        end
    | None => Ok (h, false)
    end end end end
  end.

(* ---- the four branch rebalancing functions ---- *)
Definition borrow_from_left_branch_A (h : heap) (parent_id : N) (ci : nat)
           (left_id child_id : N) (sep : key) : res (heap * bool) :=
  match get_branch h left_id with
  | None => Ok (h, false)
  | Some l =>
      (* borrow_last *)
      if orb (Nat.eqb (length (bkeys l)) 0) (negb (Nat.ltb (bcap l / 2) (length (bkeys l))))
      then Ok (h, false)
      else
        match vec_pop (bkeys l), vec_pop (bkids l) with
        | Some (mk, lks'), Some (mc, lcs') =>
            let h1 := put_branch h left_id (mkBranch (bcap l) lks' lcs') in
            match get_branch h1 child_id with
            | None => Ok (h1, false)
            | Some c =>
                (* accept_from_left *)
                let h2 := put_branch h1 child_id
                            (mkBranch (bcap c) (sep :: bkeys c) (mc :: bkids c)) in
                match get_branch h2 parent_id with
                | None => Ok (h2, false)
                | Some p =>
                    do ks' <- vec_set 42 (ci - 1) mk (bkeys p);
                    Ok (put_branch h2 parent_id (mkBranch (bcap p) ks' (bkids p)), true)
                end
            end
        | _, _ => Panic 43
        end
  end.

Definition borrow_from_right_branch_A (h : heap) (parent_id : N) (ci : nat)
           (child_id right_id : N) (sep : key) : res (heap * bool) :=
  match get_branch h right_id with
  | None => Ok (h, false)
  | Some r =>
      (* borrow_first *)
      if orb (Nat.eqb (length (bkeys r)) 0) (negb (Nat.ltb (bcap r / 2) (length (bkeys r))))
      then Ok (h, false)
      else
        match bkeys r, bkids r with
        | mk :: rks', mc :: rcs' =>
            let h1 := put_branch h right_id (mkBranch (bcap r) rks' rcs') in
            match get_branch h1 child_id with
            | None => Ok (h1, false)
            | Some c =>
                (* accept_from_right *)
                let h2 := put_branch h1 child_id
                            (mkBranch (bcap c) (bkeys c ++ [sep]) (bkids c ++ [mc])) in
                match get_branch h2 parent_id with
                | None => Ok (h2, false)
                | Some p =>
                    do ks' <- vec_set 44 ci mk (bkeys p);
                    Ok (put_branch h2 parent_id (mkBranch (bcap p) ks' (bkids p)), true)
                end
            end
        | _, _ => Panic 45
        end
  end.

Definition merge_with_left_branch_A (h : heap) (parent_id : N) (ci : nat) : res (heap * bool) :=
  match get_branch h parent_id with
  | None => Ok (h, false)
  | Some p =>
      do lr <- vec_get 60 (ci - 1) (bkids p);
      do cr <- vec_get 60 ci (bkids p);
      match lr, cr with
      | RBranch left_id, RBranch child_id =>
          do sep <- vec_get 46 (ci - 1) (bkeys p);
          match get_branch h child_id with
          | None => Ok (h, false)
          | Some c =>
              (* mem::take of keys and children *)
              let h1 := put_branch h child_id (mkBranch (bcap c) [] []) in
              match get_branch h1 left_id with
              | None => Ok (h1, false)
              | Some l =>
                  if orb (Nat.ltb (bcap l) (length (bkeys l) + 1 + length (bkeys c)))
                         (Nat.ltb (bcap l + 1) (length (bkids l) + length (bkids c)))
                  then Panic 47 else
                  let h2 := put_branch h1 left_id
                              (mkBranch (bcap l) (bkeys l ++ sep :: bkeys c) (bkids l ++ bkids c)) in
                  match get_branch h2 parent_id with
                  | None => Ok (h2, false)
                  | Some p2 =>
                      do r1 <- vec_remove 48 ci (bkids p2);
                      do r2 <- vec_remove 49 (ci - 1) (bkeys p2);
                      let h3 := put_branch h2 parent_id (mkBranch (bcap p2) (snd r2) (snd r1)) in
                      do h4 <- dealloc_branch h3 child_id;
                      Ok (h4, false)
                  end
              end
          end
      | _, _ => Ok (h, false)
      end
  end.

Definition merge_with_right_branch_A (h : heap) (parent_id : N) (ci : nat) : res (heap * bool) :=
  match get_branch h parent_id with
  | None => Ok (h, false)
  | Some p =>
      do cr <- vec_get 60 ci (bkids p);
      do rr <- vec_get 60 (S ci) (bkids p);
      match cr, rr with
      | RBranch child_id, RBranch right_id =>
          do sep <- vec_get 50 ci (bkeys p);
          match get_branch h right_id with
          | None => Ok (h, false)
          | Some r =>
              let h1 := put_branch h right_id (mkBranch (bcap r) [] []) in
              match get_branch h1 child_id with
              | None => Ok (h1, false)
              | Some c =>
                  if orb (Nat.ltb (bcap c) (length (bkeys c) + 1 + length (bkeys r)))
                         (Nat.ltb (bcap c + 1) (length (bkids c) + length (bkids r)))
                  then Panic 51 else
                  let h2 := put_branch h1 child_id
                              (mkBranch (bcap c) (bkeys c ++ sep :: bkeys r) (bkids c ++ bkids r)) in
                  match get_branch h2 parent_id with
                  | None => Ok (h2, false)
                  | Some p2 =>
                      do r1 <- vec_remove 52 (S ci) (bkids p2);
                      do r2 <- vec_remove 53 ci (bkeys p2);
                      let h3 := put_branch h2 parent_id (mkBranch (bcap p2) (snd r2) (snd r1)) in
                      do h4 <- dealloc_branch h3 right_id;
                      Ok (h4, true)
                  end
              end
          end
      | _, _ => Ok (h, false)
      end
  end.

(* rebalance_branch *)
Definition rebalance_branch_A (h : heap) (parent_id : N) (ci : nat)
           (left_info right_info : option (nref * bool)) : res (heap * bool) :=
  match get_branch h parent_id with
  | None => Ok (h, false)
  | Some p =>
    let kids := bkids p in
    let left_id_opt :=
      if Nat.ltb 0 ci then
        match nth_error kids (ci - 1) with Some (RBranch id) => Some id | _ => None end
      else None in
    let right_id_opt :=
      if Nat.ltb (S ci) (length kids) then
        match nth_error kids (S ci) with Some (RBranch id) => Some id | _ => None end
      else None in
    do left_sep <- match left_id_opt with
                   | Some _ => do s <- vec_get 40 (ci - 1) (bkeys p); Ok (Some s)
                   | None => Ok None end;
    do right_sep <- match right_id_opt with
                    | Some _ => do s <- vec_get 41 ci (bkeys p); Ok (Some s)
                    | None => Ok None end;
    do c <- vec_get 60 ci kids;
    match c with
    | RLeaf _ => Ok (h, false)
    | RBranch child_id =>
      match (match left_info with Some (_, true) => left_id_opt | _ => None end), left_sep with
      | Some left_id, Some sep =>
          borrow_from_left_branch_A h parent_id ci left_id child_id sep
      | _, _ =>
      match (match right_info with Some (_, true) => right_id_opt | _ => None end), right_sep with
      | Some right_id, Some sep =>
          borrow_from_right_branch_A h parent_id ci child_id right_id sep
      | _, _ =>
      match left_id_opt with
      | Some _ => merge_with_left_branch_A h parent_id ci
      | None =>
      match right_id_opt with
      | Some _ => merge_with_right_branch_A h parent_id ci
      | None => Ok (h, false)
      end end end end
    end
  end.

(* rebalance_child *)
Definition rebalance_child_A (h : heap) (parent_id : N) (ci : nat) : res (heap * bool) :=
  match get_branch h parent_id with
  | None => Ok (h, false)
  | Some p =>
      let kids := bkids p in
      do c <- vec_get 60 ci kids;
      let child_is_leaf := match c with RLeaf _ => true | RBranch _ => false end in
      let left_info :=
        if Nat.ltb 0 ci then
          match nth_error kids (ci - 1) with
          | Some s => Some (s, can_donate_A h s)
          | None => None
          end
        else None in
      let right_info :=
        if Nat.ltb (S ci) (length kids) then
          match nth_error kids (S ci) with
          | Some s => Some (s, can_donate_A h s)
          | None => None
          end
        else None in
      if child_is_leaf then rebalance_leaf_A h parent_id ci left_info right_info
      else rebalance_branch_A h parent_id ci left_info right_info
  end.

(* remove_recursive: (heap, removed value, node is now underfull) *)
Fixpoint rem_A (fuel : nat) (h : heap) (r : nref) (z : Z) : res (heap * option V * bool) :=
  match fuel with
  | O => OutOfFuel
  | S f =>
    match r with
    | RLeaf id =>
        match get_leaf h id with
        | None => Ok (h, None, false)
        | Some l =>
            (* LeafNode::remove *)
            if bfound (lkeys l) z then
              let i := lb (lkeys l) z in
              do rv <- vec_remove 61 i (lvals l);
              let ks' := remove_at i (lkeys l) in
              Ok (put_leaf h id (mkLeaf (lcap l) ks' (snd rv) (lnext l)), Some (fst rv),
                  Nat.ltb (length ks') (lcap l / 2))
            else Ok (h, None, false)
        end
    | RBranch id =>
        match get_child_for_key h id z with
        | None => Ok (h, None, false)
        | Some (ci, cref) =>
            do r1 <- rem_A f h cref z;
            let '(h1, removed, under) := r1 in
            match removed with
            | None => Ok (h1, None, false)
            | Some _ =>
                do h2 <- (if under then do rb <- rebalance_child_A h1 id ci; Ok (fst rb)
                          else Ok h1);
                Ok (h2, removed, is_node_underfull_A h2 (RBranch id))
            end
        end
    end
  end.

(* create_empty_root_leaf *)
Definition create_empty_root_leaf_A (h : heap) : res heap :=
  do al <- alloc_leaf h (mkLeaf (hcap h) [] [] NULL);
  Ok (set_root (fst al) (RLeaf (snd al))).

(* collapse_root_if_needed (a loop) *)
Fixpoint collapse_A (fuel : nat) (h : heap) : res heap :=
  match fuel with
  | O => OutOfFuel
  | S f =>
    match hroot h with
    | RLeaf _ => Ok h
    | RBranch bid =>
        match get_branch h bid with
        | None => create_empty_root_leaf_A h       (* branch id exists but branch is missing *)
        | Some x =>
            match bkids x with
            | [] =>
                do h1 <- create_empty_root_leaf_A h;
                dealloc_branch h1 bid
            | [child] =>
                do h1 <- dealloc_branch (set_root h child) bid;
                collapse_A f h1
            | _ => Ok h
            end
        end
    end
  end.

(* BPlusTreeMap::remove *)
Definition remove_A (h : heap) (z : Z) : res (heap * option V) :=
  do r <- rem_A (dfuel h) h (hroot h) z;
  let '(h1, removed, _) := r in
  match removed with
  | None => Ok (h1, None)
  | Some _ =>
      do h2 <- collapse_A (dfuel h1) h1;
      Ok (h2, removed)
  end.

(* ================================================================== *)
(* get_mut(key) followed by a write through the reference             *)
(* ================================================================== *)
Definition get_mut_write_A (h : heap) (z : Z) (v : V) : res (heap * bool) :=
  do r <- find_leaf_for_key_with_match h z;
  match r with
  | Some (id, i, true) =>
      match get_leaf h id with
      | Some l =>
          if Nat.ltb i (length (lvals l))
          then Ok (put_leaf h id (mkLeaf (lcap l) (lkeys l) (set_nth i v (lvals l)) (lnext l)), true)
          else Ok (h, false)
      | None => Ok (h, false)
      end
  | _ => Ok (h, false)
  end.

(* ================================================================== *)
(* clear: both arenas cleared, one empty leaf allocated, root = Leaf(id) *)
(* ================================================================== *)
Definition clear_A (h : heap) : heap :=
  match allocate (a_clear (hleaves h)) (mkLeaf (hcap h) [] [] NULL) with
  | Ok (la, root_id) => mkHeap (hcap h) (RLeaf root_id) la (a_clear (hbranches h))
  | _ => h      (* unreachable: allocating slot 0 of an empty arena cannot panic *)
  end.

(* ================================================================== *)
(* the mutating basic operations of Rust/Run.v's [step], on heaps      *)
(* ================================================================== *)
Definition mut_A (h : heap) (o : op V) : option (res (heap * out V)) :=
  match o with
  | OInsert k v => Some (do r <- insert_A h k v; Ok (fst r, UOpt (snd r)))
  | ORemove z => Some (do r <- remove_A h z; Ok (fst r, UOpt (snd r)))
  | OGetMutWrite z v => Some (do r <- get_mut_write_A h z v; Ok (fst r, UBool (snd r)))
  | OClear => Some (Ok (clear_A h, UUnit))
  | _ => None
  end.

End HeapOps.

Arguments AUpdated {V}.
Arguments ASplit {V}.
