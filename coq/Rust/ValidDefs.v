(* What the validators document, as predicates on an arbitrary heap (C14).
   [hwf h isroot lo hi r]: the node referenced by r is allocated and it and everything
   below it is well formed: keys strictly ascending, |keys| = |values| (leaf),
   |children| = |keys| + 1 (branch), |keys| <= capacity of the map, a non-root node holds
   at least (its own capacity field)/2 keys, every leaf key lies in the interval [lo, hi)
   handed down by the separators.  [hreach h r isroot lo hi]: r is reachable from the
   root with that interval.  Definitions only. *)
From BPT Require Import Common.Base Common.AMap Rust.Arena Rust.Tree Rust.Heap Rust.Readers Rust.InvDefs.
Set Implicit Arguments.

Section ValidDefs.
Variable V : Type.
Notation heap := (heap V).

Inductive hwf (h : heap) : bool -> option Z -> option Z -> nref -> Prop :=
| hwf_leaf isroot lo hi id l :
    get_leaf h id = Some l ->
    length (lkeys l) = length (lvals l) ->
    sorted_keys (lkeys l) ->
    length (lkeys l) <= hcap h ->
    (isroot = false -> lcap l / 2 <= length (lkeys l)) ->
    Forall (in_bounds lo hi) (lkeys l) ->
    hwf h isroot lo hi (RLeaf id)
| hwf_branch isroot lo hi id x :
    get_branch h id = Some x ->
    length (bkids x) = S (length (bkeys x)) ->
    sorted_keys (bkeys x) ->
    length (bkeys x) <= hcap h ->
    (isroot = false -> bcap x / 2 <= length (bkeys x)) ->
    (forall i c, nth_error (bkids x) i = Some c ->
       hwf h false (fst (child_bounds (bkeys x) lo hi i)) (snd (child_bounds (bkeys x) lo hi i)) c) ->
    hwf h isroot lo hi (RBranch id).

Inductive hreach (h : heap) : nref -> bool -> option Z -> option Z -> Prop :=
| hreach_root : hreach h (hroot h) true None None
| hreach_child id x isroot lo hi i c :
    hreach h (RBranch id) isroot lo hi ->
    get_branch h id = Some x ->
    nth_error (bkids x) i = Some c ->
    hreach h c false (fst (child_bounds (bkeys x) lo hi i)) (snd (child_bounds (bkeys x) lo hi i)).

(* the node-local conditions, one per documented kind of damage *)
Definition node_ok (h : heap) (r : nref) (isroot : bool) (lo hi : option Z) : Prop :=
  match r with
  | RLeaf id =>
      exists l, get_leaf h id = Some l /\                       (* reference to an allocated node *)
        sorted_keys (lkeys l) /\                                 (* sorted, no duplicates *)
        length (lkeys l) = length (lvals l) /\                   (* key and value counts agree *)
        length (lkeys l) <= hcap h /\                            (* not above capacity *)
        (isroot = false -> lcap l / 2 <= length (lkeys l)) /\    (* minimum occupancy *)
        Forall (in_bounds lo hi) (lkeys l)                       (* keys inside the parent's interval *)
  | RBranch id =>
      exists x, get_branch h id = Some x /\
        sorted_keys (bkeys x) /\
        length (bkids x) = S (length (bkeys x)) /\               (* one more child than keys *)
        length (bkeys x) <= hcap h /\
        (isroot = false -> bcap x / 2 <= length (bkeys x))
  end.

End ValidDefs.
