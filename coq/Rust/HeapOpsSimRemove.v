(* Simulation of model B's remove by the arena-level remove of Rust/HeapOps.v. *)
From Coq Require Import List Arith ZArith NArith Lia Bool Permutation.
From BPT Require Import Common.Base Common.AMap Rust.Arena Rust.ArenaSpec Rust.ArenaProofs
  Rust.Tree Rust.Heap Rust.Readers Rust.Run Rust.InvDefs Rust.Repr Rust.Lib Rust.InsertMeta
  Rust.Bridge Rust.ReadersGet Rust.TreeFactsI Rust.TreeFactsR Rust.RemoveLocal Rust.RemoveProofs
  Rust.HeapOps Rust.HeapOpsSimBase.
Import ListNotations.
Set Implicit Arguments.

Lemma Ok_inj : forall (A : Type) (a b : A), Ok a = Ok b -> a = b.
Proof. intros A a b H. congruence. Qed.

Lemma vec_remove_snd : forall (A : Type) s i (l : list A) x l',
  vec_remove s i l = Ok (x, l') -> l' = remove_at i l.
Proof.
  intros A s i l x l' H. unfold vec_remove in H. destruct (nth_error l i); [|discriminate].
  apply Ok_inj in H. congruence.
Qed.

Section ListFacts2.
Variable A : Type.

Lemma vec_remove_map : forall (B : Type) (f : A -> B) s i l,
  vec_remove s i (map f l) =
  match vec_remove s i l with
  | Ok (x, l') => Ok (f x, map f l') | Panic n => Panic n | OutOfFuel => OutOfFuel | UB n => UB n
  end.
Proof.
  intros. unfold vec_remove. rewrite nth_error_map.
  destruct (nth_error l i); cbn [option_map]; [|reflexivity]. rewrite map_remove_at. reflexivity.
Qed.

Lemma vec_get_map : forall (B : Type) (f : A -> B) s i l,
  vec_get s i (map f l) =
  match vec_get s i l with
  | Ok x => Ok (f x) | Panic n => Panic n | OutOfFuel => OutOfFuel | UB n => UB n
  end.
Proof.
  intros. unfold vec_get. rewrite nth_error_map. destruct (nth_error l i); reflexivity.
Qed.

Lemma In_set_nth2_inv : forall i j (a b y : A) l, In y (set_nth i a (set_nth j b l)) ->
  y = a \/ y = b \/ exists k, k <> i /\ k <> j /\ nth_error l k = Some y.
Proof.
  intros i j a b y l H. apply In_set_nth_inv in H. destruct H as [->|(k & Hk & Hn)]; [auto|].
  destruct (Nat.eq_dec j k) as [->|Hjk].
  - destruct (Nat.lt_ge_cases k (length l)).
    + rewrite nth_error_set_nth_same in Hn by auto. inversion Hn. auto.
    + rewrite set_nth_out in Hn by auto.
      assert (k < length l) by (apply nth_error_Some; congruence). lia.
  - rewrite nth_error_set_nth_other in Hn by auto. right; right. exists k. auto.
Qed.

Lemma In_remove_set_inv : forall i j (b y : A) l, In y (remove_at i (set_nth j b l)) ->
  y = b \/ exists k, k <> i /\ k <> j /\ nth_error l k = Some y.
Proof.
  intros i j b y l H. apply In_remove_at_inv in H. destruct H as (k & Hk & Hn).
  destruct (Nat.eq_dec j k) as [->|Hjk].
  - destruct (Nat.lt_ge_cases k (length l)).
    + rewrite nth_error_set_nth_same in Hn by auto. inversion Hn. auto.
    + rewrite set_nth_out in Hn by auto.
      assert (k < length l) by (apply nth_error_Some; congruence). lia.
  - rewrite nth_error_set_nth_other in Hn by auto. right. exists k. auto.
Qed.

(* replacing one element by one with fewer ids keeps the ids distinct *)
Lemma NoDup_flat_map_set_nth : forall (B : Type) (f : A -> list B) cs i ch c',
  NoDup (flat_map f cs) -> nth_error cs i = Some ch -> NoDup (f c') -> incl (f c') (f ch) ->
  NoDup (flat_map f (set_nth i c' cs)).
Proof.
  intros B f. induction cs as [|a cs IH]; intros i ch c' ND Hn ND' Hi.
  - destruct i; discriminate.
  - destruct i as [|i]; cbn [nth_error set_nth flat_map] in *.
    + inversion Hn; subst a. clear Hn.
      assert (NDr : NoDup (flat_map f cs)) by (eapply NoDup_app_r; eauto).
      clear IH. induction (f c') as [|x l IHl]; [exact NDr|].
      cbn [app]. inversion ND' as [|? ? Hx NDl]; subst. constructor.
      * intros Hin. apply in_app_or in Hin. destruct Hin as [Hin|Hin]; [contradiction|].
        eapply NoDup_app_disj; [exact ND|apply Hi; left; reflexivity|exact Hin].
      * apply IHl; auto. intros y Hy. apply Hi. right. exact Hy.
    + assert (NDa : NoDup (f a)) by (eapply NoDup_app_l; eauto).
      assert (NDr : NoDup (flat_map f cs)) by (eapply NoDup_app_r; eauto).
      specialize (IH i ch c' NDr Hn ND' Hi).
      assert (Hd : forall x, In x (f a) -> In x (flat_map f (set_nth i c' cs)) -> False).
      { intros x Hx Hy. apply in_flat_map in Hy. destruct Hy as (y & Hy & Hxy).
        apply In_set_nth_inv in Hy. destruct Hy as [->|(k & Hk & Hy)].
        - eapply NoDup_app_disj; [exact ND|exact Hx|].
          apply in_flat_map. exists ch. split; [eapply nth_error_In; eauto|apply Hi; exact Hxy].
        - eapply NoDup_app_disj; [exact ND|exact Hx|].
          apply in_flat_map. exists y. split; [eapply nth_error_In; eauto|exact Hxy]. }
      clear ND. induction (f a) as [|x l IHl]; [exact IH|].
      cbn [app]. inversion NDa; subst. constructor.
      * intros Hin. apply in_app_or in Hin. destruct Hin as [Hin|Hin]; [contradiction|].
        eapply Hd; [left; reflexivity|exact Hin].
      * apply IHl; auto. intros y Hy. apply Hd. right. exact Hy.
Qed.

Lemma incl_flat_map_set_nth : forall (B : Type) (f : A -> list B) cs i ch c',
  nth_error cs i = Some ch -> incl (f c') (f ch) ->
  incl (flat_map f (set_nth i c' cs)) (flat_map f cs).
Proof.
  intros B f cs i ch c' Hn Hi x Hx. apply in_flat_map in Hx. destruct Hx as (y & Hy & Hx).
  apply In_set_nth_inv in Hy. destruct Hy as [->|(k & Hk & Hy)].
  - apply in_flat_map. exists ch. split; [eapply nth_error_In; eauto|apply Hi; exact Hx].
  - apply in_flat_map. exists y. split; [eapply nth_error_In; eauto|exact Hx].
Qed.

End ListFacts2.

Section RemoveSim.
Variable V : Type.
Notation heap := (heap V).
Notation leaf := (leaf V).
Notation ptree := (ptree V).

Ltac ssplit := repeat match goal with |- _ /\ _ => split end.

(* the parent node [id] with separators [ks] and children [cs], all stored in [h] *)
Record rb_ctx (h : heap) (id : N) (c : nat) (ks : list key) (cs : list ptree) : Prop := mkCtx {
  rc_w : hwf h;
  rc_p : get_branch h id = Some (mkBranch c ks (map (@ref_of V) cs));
  rc_r : forall x, In x cs -> repr h x;
  rc_ndl : NoDup (flat_map (@leaf_ids V) cs);
  rc_ndb : NoDup (id :: flat_map (@branch_ids V) cs) }.

Definition rb_post (h : heap) (id : N) (c : nat) (cs : list ptree) (r : rb_res V) (h' : heap)
  : Prop :=
  let '(lm2, bm2, ks2, cs2) := r in
  get_branch h' id = Some (mkBranch c ks2 (map (@ref_of V) cs2)) /\
  (forall x, In x cs2 -> repr h' x) /\
  lmeta_of h' = lm2 /\ bmeta_of h' = bm2 /\ hwf h' /\
  frame (flat_map (@leaf_ids V) cs) (id :: flat_map (@branch_ids V) cs) h h' /\
  hroot h' = hroot h /\ hcap h' = hcap h.

Section Ctx.
Variables (h : heap) (id : N) (c : nat) (ks : list key) (cs : list ptree).
Hypothesis C : rb_ctx h id c ks cs.

Lemma ctx_repr : forall j x, nth_error cs j = Some x -> repr h x.
Proof. intros j x Hx. apply (rc_r C). eapply nth_error_In; eauto. Qed.

Lemma ctx_leaf : forall j a ac aks avs anx,
  nth_error cs j = Some (PLeaf a ac aks avs anx) -> get_leaf h a = Some (mkLeaf ac aks avs anx).
Proof. intros. apply repr_leaf. eapply ctx_repr; eauto. Qed.

Lemma ctx_branch : forall j a ac aks acs,
  nth_error cs j = Some (PBranch a ac aks acs) ->
  get_branch h a = Some (mkBranch ac aks (map (@ref_of V) acs)).
Proof. intros. apply repr_branch. eapply ctx_repr; eauto. Qed.

Lemma ctx_leaf_disj : forall i j x y a, i <> j ->
  nth_error cs i = Some x -> nth_error cs j = Some y ->
  In a (leaf_ids x) -> In a (leaf_ids y) -> False.
Proof.
  intros i j x y a Hij Hx Hy Ha Hb.
  eapply (@NoDup_flat_map_disj _ _ (@leaf_ids V) cs i j x y a); eauto. apply (rc_ndl C).
Qed.

Lemma ctx_branch_disj : forall i j x y a, i <> j ->
  nth_error cs i = Some x -> nth_error cs j = Some y ->
  In a (branch_ids x) -> In a (branch_ids y) -> False.
Proof.
  intros i j x y a Hij Hx Hy Ha Hb. pose proof (rc_ndb C) as ND. inversion ND; subst.
  eapply (@NoDup_flat_map_disj _ _ (@branch_ids V) cs i j x y a); eauto.
Qed.

Lemma ctx_id_notin : forall j x, nth_error cs j = Some x -> ~ In id (branch_ids x).
Proof.
  intros j x Hx Hi. pose proof (rc_ndb C) as ND. inversion ND as [|? ? Hn _]; subst.
  apply Hn. eapply In_flat_map_nth; eauto.
Qed.

Lemma ctx_in_leaf_ids : forall j x a, nth_error cs j = Some x -> In a (leaf_ids x) ->
  In a (flat_map (@leaf_ids V) cs).
Proof. intros. eapply In_flat_map_nth; eauto. Qed.

Lemma ctx_in_branch_ids : forall j x a, nth_error cs j = Some x -> In a (branch_ids x) ->
  In a (id :: flat_map (@branch_ids V) cs).
Proof. intros. right. eapply In_flat_map_nth; eauto. Qed.

Lemma rb_post_unchanged : rb_post h id c cs (lmeta_of h, bmeta_of h, ks, cs) h.
Proof.
  cbn [rb_post]. ssplit; try reflexivity.
  - apply (rc_p C).
  - apply (rc_r C).
  - apply (rc_w C).
  - apply frame_refl.
Qed.

(* an untouched sibling stays represented when only the leaves [la], [lb] and the parent
   record change *)
Lemma sibling_leaf_case : forall (h' : heap) i j a ac aks avs anx b bc bks bvs bnx,
  nth_error cs i = Some (PLeaf a ac aks avs anx) ->
  nth_error cs j = Some (PLeaf b bc bks bvs bnx) ->
  (forall y, y <> a -> y <> b -> get_leaf h' y = get_leaf h y) ->
  (forall y, y <> id -> get_branch h' y = get_branch h y) ->
  forall k x, k <> i -> k <> j -> nth_error cs k = Some x -> repr h' x.
Proof.
  intros h' i j a ac aks avs anx b bc bks bvs bnx Hi Hj HL HB k x Hki Hkj Hx.
  apply repr_transfer with (h := h); [eapply ctx_repr; eauto| |].
  - intros y Hy. apply HL.
    + intros ->. eapply ctx_leaf_disj; [exact Hki|exact Hx|exact Hi|exact Hy|cbn; auto].
    + intros ->. eapply ctx_leaf_disj; [exact Hkj|exact Hx|exact Hj|exact Hy|cbn; auto].
  - intros y Hy. apply HB. intros ->. eapply ctx_id_notin; eauto.
Qed.

Lemma ctx_child_nodup : forall j x, nth_error cs j = Some x -> NoDup (branch_ids x).
Proof.
  intros j x Hx. pose proof (rc_ndb C) as ND. inversion ND; subst.
  eapply NoDup_flat_map_in; eauto. eapply nth_error_In; eauto.
Qed.

(* an untouched sibling when only the branch records [a], [b] and the parent change *)
Lemma sibling_branch_case : forall (h' : heap) i j a ac aks acs b bc bks bcs,
  nth_error cs i = Some (PBranch a ac aks acs) ->
  nth_error cs j = Some (PBranch b bc bks bcs) ->
  (forall y, get_leaf h' y = get_leaf h y) ->
  (forall y, y <> a -> y <> b -> y <> id -> get_branch h' y = get_branch h y) ->
  forall k x, k <> i -> k <> j -> nth_error cs k = Some x -> repr h' x.
Proof.
  intros h' i j a ac aks acs b bc bks bcs Hi Hj HL HB k x Hki Hkj Hx.
  apply repr_transfer with (h := h); [eapply ctx_repr; eauto|intros; apply HL|].
  intros y Hy. apply HB.
  - intros ->. eapply ctx_branch_disj; [exact Hki|exact Hx|exact Hi|exact Hy|cbn; auto].
  - intros ->. eapply ctx_branch_disj; [exact Hkj|exact Hx|exact Hj|exact Hy|cbn; auto].
  - intros ->. eapply ctx_id_notin; eauto.
Qed.

(* the children of the two branches involved stay represented *)
Lemma grandchild_case : forall (h' : heap) i j a ac aks acs b bc bks bcs,
  nth_error cs i = Some (PBranch a ac aks acs) ->
  nth_error cs j = Some (PBranch b bc bks bcs) -> i <> j ->
  (forall y, get_leaf h' y = get_leaf h y) ->
  (forall y, y <> a -> y <> b -> y <> id -> get_branch h' y = get_branch h y) ->
  forall g, In g acs \/ In g bcs -> repr h' g.
Proof.
  intros h' i j a ac aks acs b bc bks bcs Hi Hj Hij HL HB g Hg.
  assert (Hsub : forall i' j' a' ac' aks' acs' b' bc' bks' bcs',
            nth_error cs i' = Some (PBranch a' ac' aks' acs') ->
            nth_error cs j' = Some (PBranch b' bc' bks' bcs') -> i' <> j' ->
            In g acs' ->
            repr h g /\ forall y, In y (branch_ids g) -> y <> a' /\ y <> b' /\ y <> id).
  { intros i' j' a' ac' aks' acs' b' bc' bks' bcs' Hi' Hj' Hij' Hg'. split.
    - eapply repr_child; [eapply ctx_repr; exact Hi'|exact Hg'].
    - intros y Hy.
      assert (Hyi : In y (branch_ids (PBranch a' ac' aks' acs'))).
      { eapply branch_ids_child; eauto. }
      split; [|split].
      + intros ->. eapply branch_id_not_in_child; [eapply ctx_child_nodup; exact Hi'|exact Hg'|exact Hy].
      + intros ->. eapply ctx_branch_disj; [exact Hij'|exact Hi'|exact Hj'|exact Hyi|cbn; auto].
      + intros ->. eapply ctx_id_notin; [exact Hi'|exact Hyi]. }
  destruct Hg as [Hg|Hg].
  - destruct (Hsub _ _ _ _ _ _ _ _ _ _ Hi Hj Hij Hg) as (Rg & Hd).
    apply repr_transfer with (h := h); [exact Rg|intros; apply HL|].
    intros y Hy. destruct (Hd _ Hy) as (H1 & H2 & H3). apply HB; auto.
  - destruct (Hsub _ _ _ _ _ _ _ _ _ _ Hj Hi (not_eq_sym Hij) Hg) as (Rg & Hd).
    apply repr_transfer with (h := h); [exact Rg|intros; apply HL|].
    intros y Hy. destruct (Hd _ Hy) as (H1 & H2 & H3). apply HB; auto.
Qed.

Lemma ctx_branch_ne : forall i j a ac aks acs b bc bks bcs,
  nth_error cs i = Some (PBranch a ac aks acs) ->
  nth_error cs j = Some (PBranch b bc bks bcs) -> i <> j ->
  a <> b /\ a <> id /\ b <> id.
Proof.
  intros i j a ac aks acs b bc bks bcs Hi Hj Hij. split; [|split].
  - intros ->. eapply ctx_branch_disj; [exact Hij|exact Hi|exact Hj|cbn; auto|cbn; auto].
  - intros ->. eapply ctx_id_notin; [exact Hi|cbn; auto].
  - intros ->. eapply ctx_id_notin; [exact Hj|cbn; auto].
Qed.

End Ctx.

Lemma map_ref_set2 : forall (cs : list ptree) i j x y x' y',
  nth_error cs i = Some x -> nth_error cs j = Some y -> i <> j ->
  ref_of x' = ref_of x -> ref_of y' = ref_of y ->
  map (@ref_of V) (set_nth i x' (set_nth j y' cs)) = map (@ref_of V) cs.
Proof.
  intros cs i j x y x' y' Hx Hy Hij Ex Ey. rewrite !map_set_nth, Ex, Ey.
  rewrite (set_nth_same_id j) by (rewrite nth_error_map, Hy; reflexivity).
  apply set_nth_same_id. rewrite nth_error_map, Hx. reflexivity.
Qed.

Lemma map_ref_set1 : forall (cs : list ptree) i x x',
  nth_error cs i = Some x -> ref_of x' = ref_of x ->
  map (@ref_of V) (set_nth i x' cs) = map (@ref_of V) cs.
Proof.
  intros cs i x x' Hx Ex. rewrite map_set_nth, Ex.
  apply set_nth_same_id. rewrite nth_error_map, Hx. reflexivity.
Qed.

(* ---------------- the four leaf rebalancing actions ---------------- *)
Lemma borrow_left_leaf_sim : forall (h : heap) id c ks cs ci
    lid lcp lks lvs lnx cid ccp cks cvs cnx r,
  rb_ctx h id c ks cs -> 0 < ci ->
  nth_error cs (ci - 1) = Some (PLeaf lid lcp lks lvs lnx) ->
  nth_error cs ci = Some (PLeaf cid ccp cks cvs cnx) ->
  (if orb (Nat.eqb (length lks) 0) (negb (Nat.ltb (lcp / 2) (length lks)))
   then Ok (lmeta_of h, bmeta_of h, ks, cs)
   else match vec_pop lks, vec_pop lvs with
        | Some (k, lks'), Some (v, lvs') =>
            let l' := PLeaf lid lcp lks' lvs' lnx in
            let c' := PLeaf cid ccp (k :: cks) (v :: cvs) cnx in
            do ks' <- vec_set 30 (ci - 1) k ks;
            Ok (lmeta_of h, bmeta_of h, ks', set_nth ci c' (set_nth (ci - 1) l' cs))
        | _, _ => Panic 31
        end) = Ok r ->
  exists h' b, borrow_from_left_leaf_A h id ci lid cid = Ok (h', b) /\ rb_post h id c cs r h'.
Proof.
  intros h id c ks cs ci lid lcp lks lvs lnx cid ccp cks cvs cnx r C Hci Hl Hc H.
  pose proof (ctx_leaf C _ Hl) as Gl. pose proof (ctx_leaf C _ Hc) as Gc.
  assert (Hij : ci - 1 <> ci) by lia.
  assert (Hne : lid <> cid).
  { intros ->. eapply (ctx_leaf_disj C); [exact Hij|exact Hl|exact Hc|cbn; auto|cbn; auto]. }
  unfold borrow_from_left_leaf_A. rewrite Gl. cbn [lkeys lvals lcap lnext].
  destruct (orb (Nat.eqb (length lks) 0) (negb (Nat.ltb (lcp / 2) (length lks)))).
  { inversion H; subst r. exists h, false. split; [reflexivity|]. apply rb_post_unchanged; auto. }
  destruct (vec_pop lks) as [[k lks']|]; [|discriminate].
  destruct (vec_pop lvs) as [[v lvs']|]; [|discriminate].
  cbv zeta in H.
  destruct (vec_set 30 (ci - 1) k ks) as [ks'| | |] eqn:Es; cbn [bind] in H; try discriminate.
  inversion H; subst r; clear H.
  set (h1 := put_leaf h lid (mkLeaf lcp lks' lvs' lnx)).
  assert (G1c : get_leaf h1 cid = Some (mkLeaf ccp cks cvs cnx)).
  { unfold h1. rewrite get_leaf_put_leaf_other; auto. }
  rewrite G1c. cbn [lkeys lvals lcap lnext].
  set (h2 := put_leaf h1 cid (mkLeaf ccp (k :: cks) (v :: cvs) cnx)).
  assert (B2 : get_branch h2 id = Some (mkBranch c ks (map (@ref_of V) cs))) by apply C.
  rewrite B2. cbn [bkeys bcap bkids]. rewrite Es. cbn [bind].
  eexists _, _. split; [reflexivity|].
  set (h3 := put_branch h2 id (mkBranch c ks' (map (@ref_of V) cs))).
  assert (HL : forall y, y <> lid -> y <> cid -> get_leaf h3 y = get_leaf h y).
  { intros y Ha Hb. unfold h3, h2, h1. rewrite get_leaf_put_branch.
    rewrite !get_leaf_put_leaf_other by auto. reflexivity. }
  assert (HB : forall y, y <> id -> get_branch h3 y = get_branch h y).
  { intros y Ha. unfold h3. rewrite get_branch_put_branch_other by auto. reflexivity. }
  cbn [rb_post]. ssplit; try reflexivity.
  - unfold h3. erewrite get_branch_put_branch_same by exact B2. f_equal. f_equal.
    symmetry. eapply map_ref_set2; eauto.
  - intros x Hx. apply In_set_nth2_inv in Hx. destruct Hx as [->|[->|(j & Hj1 & Hj2 & Hx)]].
    + apply repr_leaf_intro. unfold h3. rewrite get_leaf_put_branch.
      unfold h2. eapply get_leaf_put_leaf_same; eauto.
    + apply repr_leaf_intro. unfold h3. rewrite get_leaf_put_branch.
      unfold h2. rewrite get_leaf_put_leaf_other by auto. unfold h1.
      eapply get_leaf_put_leaf_same; eauto.
    + eapply (sibling_leaf_case C _ Hl Hc HL HB); [| |exact Hx]; auto.
  - unfold h3, h2, h1. rewrite lmeta_put_branch, !lmeta_put_leaf. reflexivity.
  - unfold h3. rewrite bmeta_put_branch. reflexivity.
  - apply hwf_put_branch. apply hwf_put_leaf. apply hwf_put_leaf. apply C.
  - split.
    + intros y x Hx Hn. rewrite HL; auto; intros ->; apply Hn.
      * eapply ctx_in_leaf_ids; [exact Hl|cbn; auto].
      * eapply ctx_in_leaf_ids; [exact Hc|cbn; auto].
    + intros y x Hx Hn. rewrite HB; auto. intros ->. apply Hn. left. reflexivity.
Qed.


Lemma borrow_right_leaf_sim : forall (h : heap) id c ks cs ci
    rid rcp rks rvs rnx cid ccp cks cvs cnx r,
  rb_ctx h id c ks cs ->
  nth_error cs (S ci) = Some (PLeaf rid rcp rks rvs rnx) ->
  nth_error cs ci = Some (PLeaf cid ccp cks cvs cnx) ->
  (if orb (Nat.eqb (length rks) 0) (negb (Nat.ltb (rcp / 2) (length rks)))
   then Ok (lmeta_of h, bmeta_of h, ks, cs)
   else match rks, rvs with
        | k :: rks', v :: rvs' =>
            let r' := PLeaf rid rcp rks' rvs' rnx in
            let c' := PLeaf cid ccp (cks ++ [k]) (cvs ++ [v]) cnx in
            let cs' := set_nth ci c' (set_nth (S ci) r' cs) in
            match rks' with
            | sep :: _ => do ks' <- vec_set 32 ci sep ks; Ok (lmeta_of h, bmeta_of h, ks', cs')
            | [] => Ok (lmeta_of h, bmeta_of h, ks, cs')
            end
        | _, _ => Panic 33
        end) = Ok r ->
  exists h' b, borrow_from_right_leaf_A h id ci cid rid = Ok (h', b) /\ rb_post h id c cs r h'.
Proof.
  intros h id c ks cs ci rid rcp rks rvs rnx cid ccp cks cvs cnx r C Hr Hc H.
  pose proof (ctx_leaf C _ Hr) as Gr. pose proof (ctx_leaf C _ Hc) as Gc.
  assert (Hij : ci <> S ci) by lia.
  assert (Hne : cid <> rid).
  { intros ->. eapply (ctx_leaf_disj C); [exact Hij|exact Hc|exact Hr|cbn; auto|cbn; auto]. }
  unfold borrow_from_right_leaf_A. rewrite Gr. cbn [lkeys lvals lcap lnext].
  destruct (orb (Nat.eqb (length rks) 0) (negb (Nat.ltb (rcp / 2) (length rks)))).
  { inversion H; subst r. exists h, false. split; [reflexivity|]. apply rb_post_unchanged; auto. }
  destruct rks as [|k rks']; [discriminate|]. destruct rvs as [|v rvs']; [discriminate|].
  cbv zeta in H.
  set (h1 := put_leaf h rid (mkLeaf rcp rks' rvs' rnx)).
  assert (G1c : get_leaf h1 cid = Some (mkLeaf ccp cks cvs cnx)).
  { unfold h1. rewrite get_leaf_put_leaf_other; auto. }
  rewrite G1c. cbn [lkeys lvals lcap lnext].
  set (h2 := put_leaf h1 cid (mkLeaf ccp (cks ++ [k]) (cvs ++ [v]) cnx)).
  assert (B2 : get_branch h2 id = Some (mkBranch c ks (map (@ref_of V) cs))) by apply C.
  assert (HL2 : forall y, y <> rid -> y <> cid -> get_leaf h2 y = get_leaf h y).
  { intros y Ha Hb. unfold h2, h1. rewrite !get_leaf_put_leaf_other by auto. reflexivity. }
  assert (Hkids : forall (hh : heap),
            (forall y, get_leaf hh y = get_leaf h2 y) ->
            (forall y, y <> id -> get_branch hh y = get_branch h y) ->
            forall x, In x (set_nth ci (PLeaf cid ccp (cks ++ [k]) (cvs ++ [v]) cnx)
                              (set_nth (S ci) (PLeaf rid rcp rks' rvs' rnx) cs)) -> repr hh x).
  { intros hh HLh HBh x Hx.
    apply In_set_nth2_inv in Hx. destruct Hx as [->|[->|(j & Hj1 & Hj2 & Hx)]].
    + apply repr_leaf_intro. rewrite HLh. unfold h2. eapply get_leaf_put_leaf_same; eauto.
    + apply repr_leaf_intro. rewrite HLh. unfold h2. rewrite get_leaf_put_leaf_other by auto.
      unfold h1. eapply get_leaf_put_leaf_same; eauto.
    + eapply (sibling_leaf_case C hh Hr Hc); [| | | |exact Hx]; auto.
      intros y Ha Hb. rewrite HLh. apply HL2; auto. }
  assert (Hfr : forall (hh : heap),
            (forall y, get_leaf hh y = get_leaf h2 y) ->
            (forall y, y <> id -> get_branch hh y = get_branch h y) ->
            frame (flat_map (@leaf_ids V) cs) (id :: flat_map (@branch_ids V) cs) h hh).
  { intros hh HLh HBh. split.
    + intros y x Hx Hn. rewrite HLh, HL2; auto; intros ->; apply Hn.
      * eapply ctx_in_leaf_ids; [exact Hr|cbn; auto].
      * eapply ctx_in_leaf_ids; [exact Hc|cbn; auto].
    + intros y x Hx Hn. rewrite HBh; auto. intros ->. apply Hn. left. reflexivity. }
  assert (Hmap : map (@ref_of V) (set_nth ci (PLeaf cid ccp (cks ++ [k]) (cvs ++ [v]) cnx)
                     (set_nth (S ci) (PLeaf rid rcp rks' rvs' rnx) cs)) = map (@ref_of V) cs).
  { eapply map_ref_set2; eauto. }
  assert (W2 : hwf h2) by (apply hwf_put_leaf; apply hwf_put_leaf; apply C).
  assert (Ml2 : lmeta_of h2 = lmeta_of h) by (unfold h2, h1; rewrite !lmeta_put_leaf; reflexivity).
  destruct rks' as [|sep rks''].
  - apply Ok_inj in H. subst r.
    eexists _, _. split; [reflexivity|]. cbn [rb_post].
    ssplit; try reflexivity; auto; try (apply Hkids; auto; fail); try (apply Hfr; auto; fail).
    rewrite Hmap. exact B2.
  - rewrite B2. cbn [bkeys bcap bkids].
    destruct (vec_set 32 ci sep ks) as [ks'| | |] eqn:Es; cbn [bind] in H |- *; try discriminate.
    apply Ok_inj in H. subst r.
    eexists _, _. split; [reflexivity|].
    set (h3 := put_branch h2 id (mkBranch c ks' (map (@ref_of V) cs))).
    assert (HB : forall y, y <> id -> get_branch h3 y = get_branch h y).
    { intros y Ha. unfold h3. rewrite get_branch_put_branch_other by auto. reflexivity. }
    cbn [rb_post]. ssplit; try reflexivity.
    + unfold h3. erewrite get_branch_put_branch_same by exact B2. rewrite Hmap. reflexivity.
    + apply Hkids; auto.
    + exact Ml2.
    + unfold h3. rewrite bmeta_put_branch. reflexivity.
    + apply hwf_put_branch. exact W2.
    + apply Hfr; auto.
Qed.

Lemma merge_left_leaf_sim : forall (h : heap) id c ks cs ci
    lid lcp lks lvs lnx cid ccp cks cvs cnx r,
  rb_ctx h id c ks cs -> 0 < ci ->
  nth_error cs (ci - 1) = Some (PLeaf lid lcp lks lvs lnx) ->
  nth_error cs ci = Some (PLeaf cid ccp cks cvs cnx) ->
  (if orb (Nat.ltb lcp (length lks + length cks)) (Nat.ltb lcp (length lvs + length cvs))
   then Panic 34 else
   let l' := PLeaf lid lcp (lks ++ cks) (lvs ++ cvs) cnx in
   let cs1 := set_nth (ci - 1) l' cs in
   do r1 <- vec_remove 35 ci cs1;
   do r2 <- vec_remove 36 (ci - 1) ks;
   Ok (m_dealloc (lmeta_of h) cid, bmeta_of h, snd r2, snd r1)) = Ok r ->
  exists h' b, merge_with_left_leaf_A h id ci lid cid = Ok (h', b) /\ rb_post h id c cs r h'.
Proof.
  intros h id c ks cs ci lid lcp lks lvs lnx cid ccp cks cvs cnx r C Hci Hl Hc H.
  pose proof (ctx_leaf C _ Hl) as Gl. pose proof (ctx_leaf C _ Hc) as Gc.
  assert (Hij : ci - 1 <> ci) by lia.
  assert (Hne : lid <> cid).
  { intros ->. eapply (ctx_leaf_disj C); [exact Hij|exact Hl|exact Hc|cbn; auto|cbn; auto]. }
  unfold merge_with_left_leaf_A. rewrite Gc. cbn [lkeys lvals lcap lnext].
  set (h1 := put_leaf h cid (mkLeaf ccp [] [] NULL)).
  assert (G1l : get_leaf h1 lid = Some (mkLeaf lcp lks lvs lnx)).
  { unfold h1. rewrite get_leaf_put_leaf_other; auto. }
  rewrite G1l. cbn [lkeys lvals lcap lnext].
  destruct (orb (Nat.ltb lcp (length lks + length cks)) (Nat.ltb lcp (length lvs + length cvs)));
    [discriminate|].
  cbv zeta in H.
  set (l' := PLeaf lid lcp (lks ++ cks) (lvs ++ cvs) cnx) in *.
  set (h2 := put_leaf h1 lid (mkLeaf lcp (lks ++ cks) (lvs ++ cvs) cnx)).
  assert (B2 : get_branch h2 id = Some (mkBranch c ks (map (@ref_of V) cs))) by apply C.
  rewrite B2. cbn [bkeys bcap bkids].
  assert (Hmap : map (@ref_of V) (set_nth (ci - 1) l' cs) = map (@ref_of V) cs).
  { eapply map_ref_set1; eauto. }
  rewrite <- Hmap. rewrite vec_remove_map.
  destruct (vec_remove 35 ci (set_nth (ci - 1) l' cs)) as [[x1 cs2]| | |] eqn:E1;
    cbn [bind] in H |- *; try discriminate.
  destruct (vec_remove 36 (ci - 1) ks) as [[x2 ks2]| | |] eqn:E2; cbn [bind] in H |- *; try discriminate.
  cbn [fst snd] in *. apply Ok_inj in H. subst r.
  set (h3 := put_branch h2 id (mkBranch c ks2 (map (@ref_of V) cs2))).
  assert (W3 : hwf h3).
  { apply hwf_put_branch. apply hwf_put_leaf. apply hwf_put_leaf. apply C. }
  destruct (dealloc_leaf_sim cid W3) as (h4 & Hd & Ml4 & Mb4 & W4 & Hn4 & Ho4 & Hb4 & Hr4 & Hc4).
  rewrite Hd. cbn [bind]. eexists _, _. split; [reflexivity|].
  assert (HL : forall y, y <> lid -> y <> cid -> get_leaf h4 y = get_leaf h y).
  { intros y Ha Hb. rewrite Ho4 by auto. unfold h3, h2, h1. rewrite get_leaf_put_branch.
    rewrite !get_leaf_put_leaf_other by auto. reflexivity. }
  assert (HB : forall y, y <> id -> get_branch h4 y = get_branch h y).
  { intros y Ha. rewrite Hb4. unfold h3. rewrite get_branch_put_branch_other by auto. reflexivity. }
  assert (Ecs2 : cs2 = remove_at ci (set_nth (ci - 1) l' cs)).
  { eapply vec_remove_snd; eauto. }
  cbn [rb_post]. ssplit.
  - rewrite Hb4. unfold h3. erewrite get_branch_put_branch_same by exact B2. reflexivity.
  - intros x Hx. rewrite Ecs2 in Hx. apply In_remove_set_inv in Hx.
    destruct Hx as [->|(j & Hj1 & Hj2 & Hx)].
    + apply repr_leaf_intro. rewrite Ho4 by auto. unfold h3. rewrite get_leaf_put_branch.
      unfold h2. eapply get_leaf_put_leaf_same; eauto.
    + eapply (sibling_leaf_case C _ Hl Hc HL HB); [| |exact Hx]; auto.
  - rewrite Ml4. unfold h3, h2, h1. rewrite lmeta_put_branch, !lmeta_put_leaf. reflexivity.
  - rewrite Mb4. unfold h3. rewrite bmeta_put_branch. reflexivity.
  - exact W4.
  - split.
    + intros y x Hx Hn. rewrite HL; auto; intros ->; apply Hn.
      * eapply ctx_in_leaf_ids; [exact Hl|cbn; auto].
      * eapply ctx_in_leaf_ids; [exact Hc|cbn; auto].
    + intros y x Hx Hn. rewrite HB; auto. intros ->. apply Hn. left. reflexivity.
  - rewrite Hr4. reflexivity.
  - rewrite Hc4. reflexivity.
Qed.

Lemma merge_right_leaf_sim : forall (h : heap) id c ks cs ci
    rid rcp rks rvs rnx cid ccp cks cvs cnx r,
  rb_ctx h id c ks cs ->
  nth_error cs (S ci) = Some (PLeaf rid rcp rks rvs rnx) ->
  nth_error cs ci = Some (PLeaf cid ccp cks cvs cnx) ->
  (if orb (Nat.ltb ccp (length cks + length rks)) (Nat.ltb ccp (length cvs + length rvs))
   then Panic 37 else
   let c' := PLeaf cid ccp (cks ++ rks) (cvs ++ rvs) rnx in
   let cs1 := set_nth ci c' cs in
   do r1 <- vec_remove 38 (S ci) cs1;
   do r2 <- vec_remove 39 ci ks;
   Ok (m_dealloc (lmeta_of h) rid, bmeta_of h, snd r2, snd r1)) = Ok r ->
  exists h' b, merge_with_right_leaf_A h id ci cid rid = Ok (h', b) /\ rb_post h id c cs r h'.
Proof.
  intros h id c ks cs ci rid rcp rks rvs rnx cid ccp cks cvs cnx r C Hr Hc H.
  pose proof (ctx_leaf C _ Hr) as Gr. pose proof (ctx_leaf C _ Hc) as Gc.
  assert (Hij : ci <> S ci) by lia.
  assert (Hne : cid <> rid).
  { intros ->. eapply (ctx_leaf_disj C); [exact Hij|exact Hc|exact Hr|cbn; auto|cbn; auto]. }
  unfold merge_with_right_leaf_A. rewrite Gr. cbn [lkeys lvals lcap lnext].
  set (h1 := put_leaf h rid (mkLeaf rcp [] [] rnx)).
  assert (G1c : get_leaf h1 cid = Some (mkLeaf ccp cks cvs cnx)).
  { unfold h1. rewrite get_leaf_put_leaf_other; auto. }
  rewrite G1c. cbn [lkeys lvals lcap lnext].
  destruct (orb (Nat.ltb ccp (length cks + length rks)) (Nat.ltb ccp (length cvs + length rvs)));
    [discriminate|].
  cbv zeta in H.
  set (c' := PLeaf cid ccp (cks ++ rks) (cvs ++ rvs) rnx) in *.
  set (h2 := put_leaf h1 cid (mkLeaf ccp (cks ++ rks) (cvs ++ rvs) rnx)).
  assert (B2 : get_branch h2 id = Some (mkBranch c ks (map (@ref_of V) cs))) by apply C.
  rewrite B2. cbn [bkeys bcap bkids].
  assert (Hmap : map (@ref_of V) (set_nth ci c' cs) = map (@ref_of V) cs).
  { eapply map_ref_set1; eauto. }
  rewrite <- Hmap. rewrite vec_remove_map.
  destruct (vec_remove 38 (S ci) (set_nth ci c' cs)) as [[x1 cs2]| | |] eqn:E1;
    cbn [bind] in H |- *; try discriminate.
  destruct (vec_remove 39 ci ks) as [[x2 ks2]| | |] eqn:E2; cbn [bind] in H |- *; try discriminate.
  cbn [fst snd] in *. apply Ok_inj in H. subst r.
  set (h3 := put_branch h2 id (mkBranch c ks2 (map (@ref_of V) cs2))).
  assert (W3 : hwf h3).
  { apply hwf_put_branch. apply hwf_put_leaf. apply hwf_put_leaf. apply C. }
  destruct (dealloc_leaf_sim rid W3) as (h4 & Hd & Ml4 & Mb4 & W4 & Hn4 & Ho4 & Hb4 & Hr4 & Hc4).
  rewrite Hd. cbn [bind]. eexists _, _. split; [reflexivity|].
  assert (HL : forall y, y <> rid -> y <> cid -> get_leaf h4 y = get_leaf h y).
  { intros y Ha Hb. rewrite Ho4 by auto. unfold h3, h2, h1. rewrite get_leaf_put_branch.
    rewrite !get_leaf_put_leaf_other by auto. reflexivity. }
  assert (HB : forall y, y <> id -> get_branch h4 y = get_branch h y).
  { intros y Ha. rewrite Hb4. unfold h3. rewrite get_branch_put_branch_other by auto. reflexivity. }
  assert (Ecs2 : cs2 = remove_at (S ci) (set_nth ci c' cs)).
  { eapply vec_remove_snd; eauto. }
  cbn [rb_post]. ssplit.
  - rewrite Hb4. unfold h3. erewrite get_branch_put_branch_same by exact B2. reflexivity.
  - intros x Hx. rewrite Ecs2 in Hx. apply In_remove_set_inv in Hx.
    destruct Hx as [->|(j & Hj1 & Hj2 & Hx)].
    + apply repr_leaf_intro. rewrite Ho4 by auto. unfold h3. rewrite get_leaf_put_branch.
      unfold h2. eapply get_leaf_put_leaf_same; eauto.
    + eapply (sibling_leaf_case C _ Hr Hc HL HB); [| |exact Hx]; auto.
  - rewrite Ml4. unfold h3, h2, h1. rewrite lmeta_put_branch, !lmeta_put_leaf. reflexivity.
  - rewrite Mb4. unfold h3. rewrite bmeta_put_branch. reflexivity.
  - exact W4.
  - split.
    + intros y x Hx Hn. rewrite HL; auto; intros ->; apply Hn.
      * eapply ctx_in_leaf_ids; [exact Hr|cbn; auto].
      * eapply ctx_in_leaf_ids; [exact Hc|cbn; auto].
    + intros y x Hx Hn. rewrite HB; auto. intros ->. apply Hn. left. reflexivity.
  - rewrite Hr4. reflexivity.
  - rewrite Hc4. reflexivity.
Qed.



(* ---------------- the four branch rebalancing actions ---------------- *)
Lemma borrow_left_branch_sim : forall (h : heap) id c ks cs ci sep
    lid lcp lks lcs cid ccp cks ccs r,
  rb_ctx h id c ks cs -> 0 < ci ->
  nth_error cs (ci - 1) = Some (PBranch lid lcp lks lcs) ->
  nth_error cs ci = Some (PBranch cid ccp cks ccs) ->
  (if orb (Nat.eqb (length lks) 0) (negb (Nat.ltb (lcp / 2) (length lks)))
   then Ok (lmeta_of h, bmeta_of h, ks, cs)
   else match vec_pop lks, vec_pop lcs with
        | Some (mk, lks'), Some (mc, lcs') =>
            let l' := PBranch lid lcp lks' lcs' in
            let c' := PBranch cid ccp (sep :: cks) (mc :: ccs) in
            do ks' <- vec_set 42 (ci - 1) mk ks;
            Ok (lmeta_of h, bmeta_of h, ks', set_nth ci c' (set_nth (ci - 1) l' cs))
        | _, _ => Panic 43
        end) = Ok r ->
  exists h' b, borrow_from_left_branch_A h id ci lid cid sep = Ok (h', b) /\ rb_post h id c cs r h'.
Proof.
  intros h id c ks cs ci sep lid lcp lks lcs cid ccp cks ccs r C Hci Hl Hc H.
  pose proof (ctx_branch C _ Hl) as Gl. pose proof (ctx_branch C _ Hc) as Gc.
  assert (Hij : ci - 1 <> ci) by lia.
  destruct (ctx_branch_ne C Hl Hc Hij) as (Hne & Hnl & Hnc).
  unfold borrow_from_left_branch_A. rewrite Gl. cbn [bkeys bkids bcap].
  destruct (orb (Nat.eqb (length lks) 0) (negb (Nat.ltb (lcp / 2) (length lks)))).
  { apply Ok_inj in H; subst r. exists h, false. split; [reflexivity|]. apply rb_post_unchanged; auto. }
  rewrite vec_pop_map.
  destruct (vec_pop lks) as [[mk lks']|]; [|discriminate].
  pose proof (vec_pop_spec lcs) as Hpop.
  destruct (vec_pop lcs) as [[mc lcs']|]; [|discriminate]. cbn [option_map fst snd].
  cbv zeta in H.
  destruct (vec_set 42 (ci - 1) mk ks) as [ks'| | |] eqn:Es; cbn [bind] in H; try discriminate.
  apply Ok_inj in H; subst r.
  set (h1 := put_branch h lid (mkBranch lcp lks' (map (@ref_of V) lcs'))).
  assert (G1c : get_branch h1 cid = Some (mkBranch ccp cks (map (@ref_of V) ccs))).
  { unfold h1. rewrite get_branch_put_branch_other; auto. }
  rewrite G1c. cbn [bkeys bkids bcap].
  set (h2 := put_branch h1 cid (mkBranch ccp (sep :: cks) (ref_of mc :: map (@ref_of V) ccs))).
  assert (B2 : get_branch h2 id = Some (mkBranch c ks (map (@ref_of V) cs))).
  { unfold h2, h1. rewrite !get_branch_put_branch_other by auto. apply C. }
  rewrite B2. cbn [bkeys bcap bkids]. rewrite Es. cbn [bind].
  eexists _, _. split; [reflexivity|].
  set (h3 := put_branch h2 id (mkBranch c ks' (map (@ref_of V) cs))).
  assert (HL : forall y, get_leaf h3 y = get_leaf h y) by reflexivity.
  assert (HB : forall y, y <> lid -> y <> cid -> y <> id -> get_branch h3 y = get_branch h y).
  { intros y Ha Hb Hc'. unfold h3, h2, h1. rewrite !get_branch_put_branch_other by auto. reflexivity. }
  assert (Hg : forall g, In g lcs \/ In g ccs -> repr h3 g).
  { eapply (grandchild_case C h3 Hl Hc Hij HL HB). }
  cbn [rb_post]. ssplit; try reflexivity.
  - unfold h3. erewrite get_branch_put_branch_same by exact B2. f_equal. f_equal.
    symmetry. eapply map_ref_set2; eauto.
  - intros x Hx. apply In_set_nth2_inv in Hx. destruct Hx as [->|[->|(j & Hj1 & Hj2 & Hx)]].
    + apply repr_branch_intro.
      * unfold h3. rewrite get_branch_put_branch_other by auto.
        unfold h2. eapply get_branch_put_branch_same; eauto.
      * intros g [<-|Hg']; apply Hg; [left|right; exact Hg'].
        rewrite Hpop. apply in_or_app. right. left. reflexivity.
    + apply repr_branch_intro.
      * unfold h3, h2. rewrite !get_branch_put_branch_other by auto.
        unfold h1. eapply get_branch_put_branch_same; eauto.
      * intros g Hg'. apply Hg. left. rewrite Hpop. apply in_or_app. left. exact Hg'.
    + eapply (sibling_branch_case C h3 Hl Hc HL HB); [| |exact Hx]; auto.
  - unfold h3, h2, h1. rewrite !bmeta_put_branch. reflexivity.
  - apply hwf_put_branch. apply hwf_put_branch. apply hwf_put_branch. apply C.
  - split.
    + intros y x Hx Hn. rewrite HL. exact Hx.
    + intros y x Hx Hn. rewrite HB; auto; intros ->; apply Hn.
      * eapply ctx_in_branch_ids; [exact Hl|cbn; auto].
      * eapply ctx_in_branch_ids; [exact Hc|cbn; auto].
      * left. reflexivity.
Qed.


Lemma borrow_right_branch_sim : forall (h : heap) id c ks cs ci sep
    rid rcp rks rcs cid ccp cks ccs r,
  rb_ctx h id c ks cs ->
  nth_error cs (S ci) = Some (PBranch rid rcp rks rcs) ->
  nth_error cs ci = Some (PBranch cid ccp cks ccs) ->
  (if orb (Nat.eqb (length rks) 0) (negb (Nat.ltb (rcp / 2) (length rks)))
   then Ok (lmeta_of h, bmeta_of h, ks, cs)
   else match rks, rcs with
        | mk :: rks', mc :: rcs' =>
            let r' := PBranch rid rcp rks' rcs' in
            let c' := PBranch cid ccp (cks ++ [sep]) (ccs ++ [mc]) in
            do ks' <- vec_set 44 ci mk ks;
            Ok (lmeta_of h, bmeta_of h, ks', set_nth ci c' (set_nth (S ci) r' cs))
        | _, _ => Panic 45
        end) = Ok r ->
  exists h' b, borrow_from_right_branch_A h id ci cid rid sep = Ok (h', b) /\ rb_post h id c cs r h'.
Proof.
  intros h id c ks cs ci sep rid rcp rks rcs cid ccp cks ccs r C Hr Hc H.
  pose proof (ctx_branch C _ Hr) as Gr. pose proof (ctx_branch C _ Hc) as Gc.
  assert (Hij : ci <> S ci) by lia.
  destruct (ctx_branch_ne C Hc Hr Hij) as (Hne & Hnc & Hnr).
  unfold borrow_from_right_branch_A. rewrite Gr. cbn [bkeys bkids bcap].
  destruct (orb (Nat.eqb (length rks) 0) (negb (Nat.ltb (rcp / 2) (length rks)))).
  { apply Ok_inj in H; subst r. exists h, false. split; [reflexivity|]. apply rb_post_unchanged; auto. }
  destruct rks as [|mk rks']; [discriminate|]. destruct rcs as [|mc rcs']; [discriminate|].
  cbn [map]. cbv zeta in H.
  destruct (vec_set 44 ci mk ks) as [ks'| | |] eqn:Es; cbn [bind] in H; try discriminate.
  apply Ok_inj in H; subst r.
  set (h1 := put_branch h rid (mkBranch rcp rks' (map (@ref_of V) rcs'))).
  assert (G1c : get_branch h1 cid = Some (mkBranch ccp cks (map (@ref_of V) ccs))).
  { unfold h1. rewrite get_branch_put_branch_other; auto. }
  rewrite G1c. cbn [bkeys bkids bcap].
  set (h2 := put_branch h1 cid (mkBranch ccp (cks ++ [sep]) (map (@ref_of V) ccs ++ [ref_of mc]))).
  assert (B2 : get_branch h2 id = Some (mkBranch c ks (map (@ref_of V) cs))).
  { unfold h2, h1. rewrite !get_branch_put_branch_other by auto. apply C. }
  rewrite B2. cbn [bkeys bcap bkids]. rewrite Es. cbn [bind].
  eexists _, _. split; [reflexivity|].
  set (h3 := put_branch h2 id (mkBranch c ks' (map (@ref_of V) cs))).
  assert (HL : forall y, get_leaf h3 y = get_leaf h y) by reflexivity.
  assert (HB : forall y, y <> cid -> y <> rid -> y <> id -> get_branch h3 y = get_branch h y).
  { intros y Ha Hb Hc'. unfold h3, h2, h1. rewrite !get_branch_put_branch_other by auto. reflexivity. }
  assert (Hg : forall g, In g ccs \/ In g (mc :: rcs') -> repr h3 g).
  { eapply (grandchild_case C h3 Hc Hr Hij HL HB). }
  cbn [rb_post]. ssplit; try reflexivity.
  - unfold h3. erewrite get_branch_put_branch_same by exact B2. f_equal. f_equal.
    symmetry. eapply map_ref_set2; eauto.
  - intros x Hx. apply In_set_nth2_inv in Hx. destruct Hx as [->|[->|(j & Hj1 & Hj2 & Hx)]].
    + apply repr_branch_intro.
      * unfold h3. rewrite get_branch_put_branch_other by auto.
        unfold h2. erewrite get_branch_put_branch_same by eauto.
        rewrite map_app. reflexivity.
      * intros g Hg'. apply in_app_or in Hg'. apply Hg. destruct Hg' as [Hg'|[<-|[]]]; [left; exact Hg'|].
        right. left. reflexivity.
    + apply repr_branch_intro.
      * unfold h3, h2. rewrite !get_branch_put_branch_other by auto.
        unfold h1. eapply get_branch_put_branch_same; eauto.
      * intros g Hg'. apply Hg. right. right. exact Hg'.
    + eapply (sibling_branch_case C h3 Hc Hr HL); [| | |exact Hx]; auto.
  - unfold h3, h2, h1. rewrite !bmeta_put_branch. reflexivity.
  - apply hwf_put_branch. apply hwf_put_branch. apply hwf_put_branch. apply C.
  - split.
    + intros y x Hx Hn. rewrite HL. exact Hx.
    + intros y x Hx Hn. rewrite HB; auto; intros ->; apply Hn.
      * eapply ctx_in_branch_ids; [exact Hc|cbn; auto].
      * eapply ctx_in_branch_ids; [exact Hr|cbn; auto].
      * left. reflexivity.
Qed.

Lemma merge_left_branch_sim : forall (h : heap) id c ks cs ci
    lid lcp lks lcs cid ccp cks ccs r,
  rb_ctx h id c ks cs -> 0 < ci ->
  nth_error cs (ci - 1) = Some (PBranch lid lcp lks lcs) ->
  nth_error cs ci = Some (PBranch cid ccp cks ccs) ->
  (do sep <- vec_get 46 (ci - 1) ks;
   if orb (Nat.ltb lcp (length lks + 1 + length cks))
          (Nat.ltb (lcp + 1) (length lcs + length ccs))
   then Panic 47 else
   let l' := PBranch lid lcp (lks ++ sep :: cks) (lcs ++ ccs) in
   let cs1 := set_nth (ci - 1) l' cs in
   do r1 <- vec_remove 48 ci cs1;
   do r2 <- vec_remove 49 (ci - 1) ks;
   Ok (lmeta_of h, m_dealloc (bmeta_of h) cid, snd r2, snd r1)) = Ok r ->
  exists h' b, merge_with_left_branch_A h id ci = Ok (h', b) /\ rb_post h id c cs r h'.
Proof.
  intros h id c ks cs ci lid lcp lks lcs cid ccp cks ccs r C Hci Hl Hc H.
  pose proof (ctx_branch C _ Hl) as Gl. pose proof (ctx_branch C _ Hc) as Gc.
  assert (Hij : ci - 1 <> ci) by lia.
  destruct (ctx_branch_ne C Hl Hc Hij) as (Hne & Hnl & Hnc).
  unfold merge_with_left_branch_A. rewrite (rc_p C). cbn [bkeys bkids bcap].
  unfold vec_get at 1 2. rewrite !nth_error_map, Hl, Hc. cbn [option_map bind ref_of].
  destruct (vec_get 46 (ci - 1) ks) as [sep| | |] eqn:E0; cbn [bind] in H |- *; try discriminate.
  rewrite Gc. cbn [bkeys bkids bcap].
  set (h1 := put_branch h cid (mkBranch ccp [] [])).
  assert (G1l : get_branch h1 lid = Some (mkBranch lcp lks (map (@ref_of V) lcs))).
  { unfold h1. rewrite get_branch_put_branch_other; auto. }
  rewrite G1l. cbn [bkeys bkids bcap]. rewrite !map_length.
  destruct (orb (Nat.ltb lcp (length lks + 1 + length cks))
                (Nat.ltb (lcp + 1) (length lcs + length ccs))); [discriminate|].
  cbv zeta in H.
  set (l' := PBranch lid lcp (lks ++ sep :: cks) (lcs ++ ccs)) in *.
  set (h2 := put_branch h1 lid (mkBranch lcp (lks ++ sep :: cks)
                                  (map (@ref_of V) lcs ++ map (@ref_of V) ccs))).
  assert (B2 : get_branch h2 id = Some (mkBranch c ks (map (@ref_of V) cs))).
  { unfold h2, h1. rewrite !get_branch_put_branch_other by auto. apply C. }
  rewrite B2. cbn [bkeys bcap bkids].
  assert (Hmap : map (@ref_of V) (set_nth (ci - 1) l' cs) = map (@ref_of V) cs).
  { eapply map_ref_set1; eauto. }
  rewrite <- Hmap. rewrite vec_remove_map.
  destruct (vec_remove 48 ci (set_nth (ci - 1) l' cs)) as [[x1 cs2]| | |] eqn:E1;
    cbn [bind] in H |- *; try discriminate.
  destruct (vec_remove 49 (ci - 1) ks) as [[x2 ks2]| | |] eqn:E2; cbn [bind] in H |- *; try discriminate.
  cbn [fst snd] in *. apply Ok_inj in H. subst r.
  set (h3 := put_branch h2 id (mkBranch c ks2 (map (@ref_of V) cs2))).
  assert (W3 : hwf h3).
  { apply hwf_put_branch. apply hwf_put_branch. apply hwf_put_branch. apply C. }
  destruct (dealloc_branch_sim cid W3) as (h4 & Hd & Mb4 & Ml4 & W4 & Hn4 & Ho4 & Hl4 & Hr4 & Hc4).
  rewrite Hd. cbn [bind]. eexists _, _. split; [reflexivity|].
  assert (HL : forall y, get_leaf h4 y = get_leaf h y) by (intros y; rewrite Hl4; reflexivity).
  assert (HB : forall y, y <> lid -> y <> cid -> y <> id -> get_branch h4 y = get_branch h y).
  { intros y Ha Hb Hc'. rewrite Ho4 by auto. unfold h3, h2, h1.
    rewrite !get_branch_put_branch_other by auto. reflexivity. }
  assert (Hg : forall g, In g lcs \/ In g ccs -> repr h4 g).
  { eapply (grandchild_case C h4 Hl Hc Hij HL HB). }
  assert (Ecs2 : cs2 = remove_at ci (set_nth (ci - 1) l' cs)).
  { eapply vec_remove_snd; eauto. }
  cbn [rb_post]. ssplit.
  - rewrite Ho4 by auto. unfold h3. erewrite get_branch_put_branch_same by exact B2. reflexivity.
  - intros x Hx. rewrite Ecs2 in Hx. apply In_remove_set_inv in Hx.
    destruct Hx as [->|(j & Hj1 & Hj2 & Hx)].
    + apply repr_branch_intro.
      * rewrite Ho4 by auto. unfold h3. rewrite get_branch_put_branch_other by auto.
        unfold h2. erewrite get_branch_put_branch_same by eauto. rewrite map_app. reflexivity.
      * intros g Hg'. apply Hg. apply in_app_or. exact Hg'.
    + eapply (sibling_branch_case C h4 Hl Hc HL HB); [| |exact Hx]; auto.
  - rewrite Ml4. reflexivity.
  - rewrite Mb4. unfold h3, h2, h1. rewrite !bmeta_put_branch. reflexivity.
  - exact W4.
  - split.
    + intros y x Hx Hn. rewrite HL. exact Hx.
    + intros y x Hx Hn. rewrite HB; auto; intros ->; apply Hn.
      * eapply ctx_in_branch_ids; [exact Hl|cbn; auto].
      * eapply ctx_in_branch_ids; [exact Hc|cbn; auto].
      * left. reflexivity.
  - rewrite Hr4. reflexivity.
  - rewrite Hc4. reflexivity.
Qed.

Lemma merge_right_branch_sim : forall (h : heap) id c ks cs ci
    rid rcp rks rcs cid ccp cks ccs r,
  rb_ctx h id c ks cs ->
  nth_error cs (S ci) = Some (PBranch rid rcp rks rcs) ->
  nth_error cs ci = Some (PBranch cid ccp cks ccs) ->
  (do sep <- vec_get 50 ci ks;
   if orb (Nat.ltb ccp (length cks + 1 + length rks))
          (Nat.ltb (ccp + 1) (length ccs + length rcs))
   then Panic 51 else
   let c' := PBranch cid ccp (cks ++ sep :: rks) (ccs ++ rcs) in
   let cs1 := set_nth ci c' cs in
   do r1 <- vec_remove 52 (S ci) cs1;
   do r2 <- vec_remove 53 ci ks;
   Ok (lmeta_of h, m_dealloc (bmeta_of h) rid, snd r2, snd r1)) = Ok r ->
  exists h' b, merge_with_right_branch_A h id ci = Ok (h', b) /\ rb_post h id c cs r h'.
Proof.
  intros h id c ks cs ci rid rcp rks rcs cid ccp cks ccs r C Hr Hc H.
  pose proof (ctx_branch C _ Hr) as Gr. pose proof (ctx_branch C _ Hc) as Gc.
  assert (Hij : ci <> S ci) by lia.
  destruct (ctx_branch_ne C Hc Hr Hij) as (Hne & Hnc & Hnr).
  unfold merge_with_right_branch_A. rewrite (rc_p C). cbn [bkeys bkids bcap].
  unfold vec_get at 1 2. rewrite !nth_error_map, Hr, Hc. cbn [option_map bind ref_of].
  destruct (vec_get 50 ci ks) as [sep| | |] eqn:E0; cbn [bind] in H |- *; try discriminate.
  rewrite Gr. cbn [bkeys bkids bcap].
  set (h1 := put_branch h rid (mkBranch rcp [] [])).
  assert (G1c : get_branch h1 cid = Some (mkBranch ccp cks (map (@ref_of V) ccs))).
  { unfold h1. rewrite get_branch_put_branch_other; auto. }
  rewrite G1c. cbn [bkeys bkids bcap]. rewrite !map_length.
  destruct (orb (Nat.ltb ccp (length cks + 1 + length rks))
                (Nat.ltb (ccp + 1) (length ccs + length rcs))); [discriminate|].
  cbv zeta in H.
  set (c' := PBranch cid ccp (cks ++ sep :: rks) (ccs ++ rcs)) in *.
  set (h2 := put_branch h1 cid (mkBranch ccp (cks ++ sep :: rks)
                                  (map (@ref_of V) ccs ++ map (@ref_of V) rcs))).
  assert (B2 : get_branch h2 id = Some (mkBranch c ks (map (@ref_of V) cs))).
  { unfold h2, h1. rewrite !get_branch_put_branch_other by auto. apply C. }
  rewrite B2. cbn [bkeys bcap bkids].
  assert (Hmap : map (@ref_of V) (set_nth ci c' cs) = map (@ref_of V) cs).
  { eapply map_ref_set1; eauto. }
  rewrite <- Hmap. rewrite vec_remove_map.
  destruct (vec_remove 52 (S ci) (set_nth ci c' cs)) as [[x1 cs2]| | |] eqn:E1;
    cbn [bind] in H |- *; try discriminate.
  destruct (vec_remove 53 ci ks) as [[x2 ks2]| | |] eqn:E2; cbn [bind] in H |- *; try discriminate.
  cbn [fst snd] in *. apply Ok_inj in H. subst r.
  set (h3 := put_branch h2 id (mkBranch c ks2 (map (@ref_of V) cs2))).
  assert (W3 : hwf h3).
  { apply hwf_put_branch. apply hwf_put_branch. apply hwf_put_branch. apply C. }
  destruct (dealloc_branch_sim rid W3) as (h4 & Hd & Mb4 & Ml4 & W4 & Hn4 & Ho4 & Hl4 & Hr4 & Hc4).
  rewrite Hd. cbn [bind]. eexists _, _. split; [reflexivity|].
  assert (HL : forall y, get_leaf h4 y = get_leaf h y) by (intros y; rewrite Hl4; reflexivity).
  assert (HB : forall y, y <> cid -> y <> rid -> y <> id -> get_branch h4 y = get_branch h y).
  { intros y Ha Hb Hc'. rewrite Ho4 by auto. unfold h3, h2, h1.
    rewrite !get_branch_put_branch_other by auto. reflexivity. }
  assert (Hg : forall g, In g ccs \/ In g rcs -> repr h4 g).
  { eapply (grandchild_case C h4 Hc Hr Hij HL HB). }
  assert (Ecs2 : cs2 = remove_at (S ci) (set_nth ci c' cs)).
  { eapply vec_remove_snd; eauto. }
  cbn [rb_post]. ssplit.
  - rewrite Ho4 by auto. unfold h3. erewrite get_branch_put_branch_same by exact B2. reflexivity.
  - intros x Hx. rewrite Ecs2 in Hx. apply In_remove_set_inv in Hx.
    destruct Hx as [->|(j & Hj1 & Hj2 & Hx)].
    + apply repr_branch_intro.
      * rewrite Ho4 by auto. unfold h3. rewrite get_branch_put_branch_other by auto.
        unfold h2. erewrite get_branch_put_branch_same by eauto. rewrite map_app. reflexivity.
      * intros g Hg'. apply Hg. apply in_app_or. exact Hg'.
    + eapply (sibling_branch_case C h4 Hc Hr HL); [| | |exact Hx]; auto.
  - rewrite Ml4. reflexivity.
  - rewrite Mb4. unfold h3, h2, h1. rewrite !bmeta_put_branch. reflexivity.
  - exact W4.
  - split.
    + intros y x Hx Hn. rewrite HL. exact Hx.
    + intros y x Hx Hn. rewrite HB; auto; intros ->; apply Hn.
      * eapply ctx_in_branch_ids; [exact Hc|cbn; auto].
      * eapply ctx_in_branch_ids; [exact Hr|cbn; auto].
      * left. reflexivity.
  - rewrite Hr4. reflexivity.
  - rewrite Hc4. reflexivity.
Qed.

(* ---------------- rebalance_leaf ---------------- *)
Lemma can_donate_A_repr : forall (h : heap) (x : ptree),
  repr h x -> can_donate_A h (ref_of x) = can_donate x.
Proof.
  intros h [a ac aks avs anx|a ac aks acs] R; cbn [ref_of can_donate_A].
  - rewrite (repr_leaf R). reflexivity.
  - rewrite (repr_branch R). reflexivity.
Qed.

Lemma child_leaf_id_A_ok : forall (h : heap) id c ks cs ci cid ccp cks cvs cnx,
  rb_ctx h id c ks cs -> nth_error cs ci = Some (PLeaf cid ccp cks cvs cnx) ->
  child_leaf_id_A h id ci = Ok (Some cid).
Proof.
  intros h id c ks cs ci cid ccp cks cvs cnx C Hc. unfold child_leaf_id_A.
  rewrite (rc_p C). cbn [bkids]. unfold vec_get. rewrite nth_error_map, Hc. reflexivity.
Qed.

Lemma rebalance_leaf_sim : forall (h : heap) id c ks cs ci cid ccp cks cvs cnx r,
  rb_ctx h id c ks cs ->
  nth_error cs ci = Some (PLeaf cid ccp cks cvs cnx) ->
  rebalance_leaf (lmeta_of h) (bmeta_of h) ks cs ci = Ok r ->
  exists h' b,
    rebalance_leaf_A h id ci
      (if Nat.ltb 0 ci then
         match nth_error (map (@ref_of V) cs) (ci - 1) with
         | Some s => Some (s, can_donate_A h s) | None => None end
       else None)
      (if Nat.ltb (S ci) (length (map (@ref_of V) cs)) then
         match nth_error (map (@ref_of V) cs) (S ci) with
         | Some s => Some (s, can_donate_A h s) | None => None end
       else None) = Ok (h', b) /\
    rb_post h id c cs r h'.
Proof.
  intros h id c ks cs ci cid ccp cks cvs cnx r C Hc H.
  pose proof (@child_leaf_id_A_ok h id c ks cs ci cid ccp cks cvs cnx C Hc) as Hcl.
  unfold rebalance_leaf in H. rewrite Hc in H.
  unfold rebalance_leaf_A. rewrite (rc_p C). cbn [bkids]. rewrite Hcl. cbn [bind].
  rewrite map_length, !nth_error_map.
  assert (Hun : forall rr, Ok (lmeta_of h, bmeta_of h, ks, cs) = Ok rr ->
            exists h' b, Ok (h, false) = Ok (h', b) /\ rb_post h id c cs rr h').
  { intros rr Hr. apply Ok_inj in Hr. subst rr. exists h, false. split; [reflexivity|].
    apply rb_post_unchanged; auto. }
  destruct (Nat.ltb_spec 0 ci) as [Hci|Hci];
    [destruct (nth_error cs (ci - 1)) as [[lid lcp lks lvs lnx|lid lcp lks lcs]|] eqn:EL|];
    cbn [option_map ref_of] in *;
    try (replace (can_donate_A h (RLeaf lid)) with (can_donate (PLeaf lid lcp lks lvs lnx))
           by (symmetry; apply (@can_donate_A_repr h (PLeaf lid lcp lks lvs lnx));
               eapply ctx_repr; eauto));
    try (replace (can_donate_A h (RBranch lid)) with (can_donate (PBranch lid lcp lks lcs))
           by (symmetry; apply (@can_donate_A_repr h (PBranch lid lcp lks lcs));
               eapply ctx_repr; eauto)).
  all: destruct (Nat.ltb (S ci) (length cs));
    [destruct (nth_error cs (S ci)) as [[rid rcp rks rvs rnx|rid rcp rks rcs]|] eqn:ER|];
    cbn [option_map ref_of] in *;
    try (replace (can_donate_A h (RLeaf rid)) with (can_donate (PLeaf rid rcp rks rvs rnx))
           by (symmetry; apply (@can_donate_A_repr h (PLeaf rid rcp rks rvs rnx));
               eapply ctx_repr; eauto));
    try (replace (can_donate_A h (RBranch rid)) with (can_donate (PBranch rid rcp rks rcs))
           by (symmetry; apply (@can_donate_A_repr h (PBranch rid rcp rks rcs));
               eapply ctx_repr; eauto)).
  all: repeat match goal with
       | |- context [can_donate ?t] => destruct (can_donate t)
       end.
  all: try (apply Hun; exact H).
  all: try (eapply borrow_left_leaf_sim; eauto; fail).
  all: try (eapply borrow_right_leaf_sim; eauto; fail).
  all: try (eapply merge_left_leaf_sim; eauto; fail).
  all: try (eapply merge_right_leaf_sim; eauto; fail).
Qed.


(* ---------------- rebalance_branch ---------------- *)
Lemma rebalance_branch_sim : forall (h : heap) id c ks cs ci cid ccp cks ccs r,
  rb_ctx h id c ks cs ->
  nth_error cs ci = Some (PBranch cid ccp cks ccs) ->
  rebalance_branch (lmeta_of h) (bmeta_of h) ks cs ci = Ok r ->
  exists h' b,
    rebalance_branch_A h id ci
      (if Nat.ltb 0 ci then
         match nth_error (map (@ref_of V) cs) (ci - 1) with
         | Some s => Some (s, can_donate_A h s) | None => None end
       else None)
      (if Nat.ltb (S ci) (length (map (@ref_of V) cs)) then
         match nth_error (map (@ref_of V) cs) (S ci) with
         | Some s => Some (s, can_donate_A h s) | None => None end
       else None) = Ok (h', b) /\
    rb_post h id c cs r h'.
Proof.
  intros h id c ks cs ci cid ccp cks ccs r C Hc H.
  unfold rebalance_branch in H. rewrite Hc in H.
  unfold rebalance_branch_A. rewrite (rc_p C). cbn [bkids bkeys].
  unfold vec_get at 3. rewrite map_length, !nth_error_map, Hc. cbn [option_map ref_of].
  assert (Hun : forall rr, Ok (lmeta_of h, bmeta_of h, ks, cs) = Ok rr ->
            exists h' b, Ok (h, false) = Ok (h', b) /\ rb_post h id c cs rr h').
  { intros rr Hr. apply Ok_inj in Hr. subst rr. exists h, false. split; [reflexivity|].
    apply rb_post_unchanged; auto. }
  destruct (Nat.ltb_spec 0 ci) as [Hci|Hci];
    [destruct (nth_error cs (ci - 1)) as [[lid lcp lks lvs lnx|lid lcp lks lcs]|] eqn:EL|];
    cbn [option_map ref_of] in *;
    try (replace (can_donate_A h (RLeaf lid)) with (can_donate (PLeaf lid lcp lks lvs lnx))
           by (symmetry; apply (@can_donate_A_repr h (PLeaf lid lcp lks lvs lnx));
               eapply ctx_repr; eauto));
    try (replace (can_donate_A h (RBranch lid)) with (can_donate (PBranch lid lcp lks lcs))
           by (symmetry; apply (@can_donate_A_repr h (PBranch lid lcp lks lcs));
               eapply ctx_repr; eauto)).
  all: destruct (Nat.ltb (S ci) (length cs));
    [destruct (nth_error cs (S ci)) as [[rid rcp rks rvs rnx|rid rcp rks rcs]|] eqn:ER|];
    cbn [option_map ref_of] in *;
    try (replace (can_donate_A h (RLeaf rid)) with (can_donate (PLeaf rid rcp rks rvs rnx))
           by (symmetry; apply (@can_donate_A_repr h (PLeaf rid rcp rks rvs rnx));
               eapply ctx_repr; eauto));
    try (replace (can_donate_A h (RBranch rid)) with (can_donate (PBranch rid rcp rks rcs))
           by (symmetry; apply (@can_donate_A_repr h (PBranch rid rcp rks rcs));
               eapply ctx_repr; eauto)).
  all: try match goal with
       | |- context [vec_get 40 ?i ?l] =>
           destruct (vec_get 40 i l) as [ls| | |] eqn:E40; cbn [bind] in H |- *; try discriminate
       end.
  all: try match goal with
       | |- context [vec_get 41 ?i ?l] =>
           destruct (vec_get 41 i l) as [rs| | |] eqn:E41; cbn [bind] in H |- *; try discriminate
       end.
  all: cbn [bind] in H |- *.
  all: repeat match goal with
       | |- context [can_donate ?t] => destruct (can_donate t)
       end.
  all: try (apply Hun; exact H).
  all: try (eapply borrow_left_branch_sim; eauto; fail).
  all: try (eapply borrow_right_branch_sim; eauto; fail).
  all: try (eapply merge_left_branch_sim; eauto; fail).
  all: try (eapply merge_right_branch_sim; eauto; fail).
Qed.


(* ---------------- rebalance_child ---------------- *)
Lemma rebalance_child_sim : forall (h : heap) id c ks cs ci r,
  rb_ctx h id c ks cs ->
  rebalance_child (lmeta_of h) (bmeta_of h) ks cs ci = Ok r ->
  exists h' b, rebalance_child_A h id ci = Ok (h', b) /\ rb_post h id c cs r h'.
Proof.
  intros h id c ks cs ci r C H.
  unfold rebalance_child in H. unfold rebalance_child_A. rewrite (rc_p C). cbn [bkids].
  rewrite vec_get_map.
  destruct (vec_get 60 ci cs) as [x| | |] eqn:E; cbn [bind] in H |- *; try discriminate.
  assert (Hx : nth_error cs ci = Some x).
  { unfold vec_get in E. destruct (nth_error cs ci); [apply Ok_inj in E; congruence|discriminate]. }
  destruct x as [cid ccp cks cvs cnx|cid ccp cks ccs]; cbn [is_leaf ref_of] in *.
  - eapply rebalance_leaf_sim; eauto.
  - eapply rebalance_branch_sim; eauto.
Qed.

(* ---------------- remove_recursive ---------------- *)
Lemma perm_nodup_incl : forall (l d l' : list N),
  NoDup l -> Permutation l (d ++ l') -> NoDup l' /\ incl l' l.
Proof.
  intros l d l' ND P. split.
  - eapply NoDup_app_r. eapply Permutation_NoDup; eauto.
  - intros x Hx. eapply Permutation_in; [apply Permutation_sym; exact P|].
    apply in_or_app. right. exact Hx.
Qed.

Lemma rem_sim : forall f fa (t : ptree) (h : heap) z c r lo hi hh lm' bm' t' removed under,
  f <= fa -> 4 <= c -> ord lo hi t -> shape c r hh t -> hh < f ->
  rem f (lmeta_of h) (bmeta_of h) t z = Ok (lm', bm', t', removed, under) ->
  hwf h -> repr h t -> NoDup (leaf_ids t) -> NoDup (branch_ids t) ->
  exists h', rem_A fa h (ref_of t) z = Ok (h', removed, under) /\
    repr h' t' /\ ref_of t' = ref_of t /\ lmeta_of h' = lm' /\ bmeta_of h' = bm' /\ hwf h' /\
    frame (leaf_ids t) (branch_ids t) h h' /\ hroot h' = hroot h /\ hcap h' = hcap h.
Proof.
  induction f as [|f IH]; intros fa t h z c r lo hi hh lm' bm' t' removed under
    Hf Hc4 O Sh Hhf H W R NDl NDb; [discriminate|].
  destruct fa as [|fa]; [lia|]. apply le_S_n in Hf.
  destruct t as [id nc ks vs nx|id nc ks cs]; cbn [rem rem_A ref_of] in *.
  - (* leaf *)
    pose proof (repr_leaf R) as G. rewrite G. cbn [lkeys lvals lcap lnext].
    destruct (bfound ks z).
    + destruct (vec_remove 61 (lb ks z) vs) as [[v vs']| | |] eqn:E; cbn [bind] in H |- *; try discriminate.
      cbn [fst snd] in *. apply Ok_inj in H. inversion H; subst; clear H.
      eexists. split; [reflexivity|]. ssplit; try reflexivity.
      * apply repr_leaf_intro. eapply get_leaf_put_leaf_same; eauto.
      * apply lmeta_put_leaf.
      * apply hwf_put_leaf; auto.
      * split.
        -- intros y x Hx Hn. rewrite get_leaf_put_leaf_other; auto. intros ->. apply Hn. cbn. auto.
        -- intros y x Hx Hn. exact Hx.
    + apply Ok_inj in H. inversion H; subst; clear H.
      eexists. split; [reflexivity|]. ssplit; try reflexivity; auto. apply frame_refl.
  - (* branch *)
    unfold get_child_for_key. rewrite (repr_branch R). cbn [bkeys bkids]. rewrite nth_error_map.
    destruct (nth_error cs (child_index ks z)) as [ch|] eqn:Ech; cbn [option_map].
    2:{ apply Ok_inj in H. inversion H; subst; clear H.
        eexists. split; [reflexivity|]. ssplit; try reflexivity; auto. apply frame_refl. }
    set (ci := child_index ks z) in *.
    assert (Hin : In ch cs) by (eapply nth_error_In; eauto).
    apply TreeFactsI.shape_branch_inv in Sh. destruct Sh as (h0 & -> & -> & Lcs & Lks & _ & _ & Shc).
    destruct (TreeFactsI.ord_branch_inv O) as (_ & _ & Oc).
    destruct (rem f (lmeta_of h) (bmeta_of h) ch z) as [[[[[lm1 bm1] c'] rm1] un1]| | |] eqn:E1;
      cbn [bind] in H; try discriminate.
    assert (Rch : repr h ch) by (eapply repr_child; eauto).
    assert (NDlc : NoDup (leaf_ids ch)) by (eapply NoDup_leaf_ids_child; eauto).
    assert (NDbc : NoDup (branch_ids ch)) by (eapply NoDup_branch_ids_child; eauto).
    assert (Hh0 : h0 < f) by lia.
    destruct (IH fa ch h z c false _ _ h0 lm1 bm1 c' rm1 un1 Hf Hc4 (Oc _ _ Ech) (Shc _ Hin) Hh0 E1
                 W Rch NDlc NDbc)
      as (h1 & HA1 & Rc' & Href1 & Ml1 & Mb1 & W1 & Fr1 & Hr1 & Hc1).
    rewrite HA1. cbn [bind].
    (* ids of the new child *)
    destruct (@rem_spec V c z f ch false _ _ h0 (lmeta_of h) (bmeta_of h) Hc4 (Oc _ _ Ech) (Shc _ Hin) Hh0)
      as (dl & db & t2 & rm2 & un2 & E2 & RO).
    rewrite E1 in E2. apply Ok_inj in E2. inversion E2; subst t2 rm2 un2. clear E2.
    destruct RO as (_ & _ & _ & _ & _ & _ & _ & _ & P1 & P2).
    destruct (@perm_nodup_incl _ dl _ NDlc P1) as (NDlc' & Il).
    destruct (@perm_nodup_incl _ db _ NDbc P2) as (NDbc' & Ib).
    pose proof (repr_branch R) as Gid.
    assert (Hidn : ~ In id (branch_ids ch)) by (eapply branch_id_not_in_child; eauto).
    assert (Gid1 : get_branch h1 id = Some (mkBranch c ks (map (@ref_of V) (set_nth ci c' cs)))).
    { rewrite (@map_ref_set1 cs ci ch c' Ech Href1). destruct Fr1 as [_ F2]. apply F2; auto. }
    assert (Hkids1 : forall x, In x (set_nth ci c' cs) -> repr h1 x).
    { intros x Hx. apply In_set_nth_inv in Hx. destruct Hx as [->|(j & Hj & Hx)]; [exact Rc'|].
      apply repr_frame with (L := leaf_ids ch) (B := branch_ids ch) (h := h); auto.
      - eapply repr_child; [exact R|]. eapply nth_error_In; eauto.
      - intros y Hy Hy'. rewrite Bridge.leaf_ids_branch in NDl.
        eapply (@NoDup_flat_map_disj _ _ (@leaf_ids V) cs j ci x ch y); eauto.
      - intros y Hy Hy'. cbn [branch_ids] in NDb. inversion NDb; subst.
        eapply (@NoDup_flat_map_disj _ _ (@branch_ids V) cs j ci x ch y); eauto. }
    assert (Hframe : frame (leaf_ids (PBranch id c ks cs)) (branch_ids (PBranch id c ks cs)) h h1).
    { eapply frame_weaken; [exact Fr1| |].
      - intros y Hy. eapply leaf_ids_child; eauto.
      - intros y Hy. eapply branch_ids_child; eauto. }
    destruct rm1 as [v|].
    2:{ apply Ok_inj in H. inversion H; subst; clear H.
        eexists. split; [reflexivity|]. ssplit; try reflexivity; try assumption.
        apply repr_branch_intro; assumption. }
    (* the context for rebalancing *)
    assert (C1 : rb_ctx h1 id c ks (set_nth ci c' cs)).
    { constructor; auto.
      - rewrite Bridge.leaf_ids_branch in NDl. eapply NoDup_flat_map_set_nth; eauto.
      - cbn [branch_ids] in NDb. inversion NDb as [|? ? Hn NDb']; subst. constructor.
        + intros Hi. apply Hn. eapply incl_flat_map_set_nth; eauto.
        + eapply NoDup_flat_map_set_nth; eauto. }
    assert (IL : incl (flat_map (@leaf_ids V) (set_nth ci c' cs)) (leaf_ids (PBranch id c ks cs))).
    { rewrite Bridge.leaf_ids_branch. eapply incl_flat_map_set_nth; eauto. }
    assert (IB : incl (id :: flat_map (@branch_ids V) (set_nth ci c' cs))
                      (branch_ids (PBranch id c ks cs))).
    { cbn [branch_ids]. intros y [<-|Hy]; [left; reflexivity|right].
      eapply incl_flat_map_set_nth; eauto. }
    destruct un1.
    + (* rebalance *)
      rewrite <- Ml1, <- Mb1 in H.
      destruct (rebalance_child (lmeta_of h1) (bmeta_of h1) ks (set_nth ci c' cs) ci)
        as [[[[lm2 bm2] ks2] cs2]| | |] eqn:Erb; cbn [bind] in H; try discriminate.
      apply Ok_inj in H. inversion H; subst; clear H.
      destruct (@rebalance_child_sim h1 id c ks (set_nth ci c' cs) ci _ C1 Erb) as (h2 & b & HA2 & P).
      cbn [rb_post] in P. destruct P as (Gid2 & Hkids2 & Ml2 & Mb2 & W2 & Fr2 & Hr2 & Hc2).
      rewrite HA2. cbn [bind fst]. unfold is_node_underfull_A. rewrite Gid2. cbn [bkeys bcap].
      eexists. split; [reflexivity|]. ssplit; try reflexivity; try assumption.
      * apply repr_branch_intro; assumption.
      * eapply frame_trans; [exact Hframe|]. eapply frame_weaken; eauto.
      * congruence.
      * congruence.
    + apply Ok_inj in H. inversion H; subst; clear H.
      cbn [bind]. unfold is_node_underfull_A. rewrite Gid1. cbn [bkeys bcap].
      eexists. split; [reflexivity|]. ssplit; try reflexivity; try assumption.
      apply repr_branch_intro; assumption.
Qed.

(* ---------------- collapse_root_if_needed ---------------- *)
Lemma hwf_set_root' : forall (h : heap) r, hwf h -> hwf (set_root h r).
Proof. intros h r [Wl Wb]. constructor; assumption. Qed.

Lemma collapse_sim : forall f fa (t : ptree) (h : heap) lm' bm' t',
  f <= fa ->
  collapse f (hcap h) (lmeta_of h) (bmeta_of h) t = Ok (lm', bm', t') ->
  hwf h -> repr h t -> hroot h = ref_of t -> NoDup (branch_ids t) -> room (lmeta_of h) 0 ->
  exists h', collapse_A fa h = Ok h' /\ repr h' t' /\ hroot h' = ref_of t' /\
    lmeta_of h' = lm' /\ bmeta_of h' = bm' /\ hwf h' /\ hcap h' = hcap h.
Proof.
  induction f as [|f IH]; intros fa t h lm' bm' t' Hf H W R Hr NDb RL; [discriminate|].
  destruct fa as [|fa]; [lia|]. apply le_S_n in Hf.
  cbn [collapse collapse_A] in *. rewrite Hr.
  destruct t as [id nc ks vs nx|id nc ks cs]; cbn [ref_of].
  - apply Ok_inj in H. inversion H; subst. exists h. ssplit; auto.
  - pose proof (repr_branch R) as G. rewrite G. cbn [bkids].
    destruct cs as [|c1 [|c2 cs]]; cbn [map].
    + (* no child: fresh empty root leaf *)
      destruct (m_alloc (lmeta_of h)) as [[lm1 lid]| | |] eqn:Ea; cbn [bind] in H; try discriminate.
      apply Ok_inj in H. inversion H; subst; clear H.
      destruct (alloc_leaf_sim (mkLeaf (hcap h) [] [] NULL) W RL Ea)
        as (h1 & Hal & Ml1 & Mb1 & W1 & Hnn & Hfresh & Hnew & Hoth & Hbr & Hr1 & Hc1 & _).
      unfold create_empty_root_leaf_A. rewrite Hal. cbn [bind fst snd].
      assert (Ws : hwf (set_root h1 (RLeaf lid))) by (apply hwf_set_root'; exact W1).
      destruct (dealloc_branch_sim id Ws) as (h2 & Hd & Mb2 & Ml2 & W2 & Hn2 & Ho2 & Hl2 & Hr2 & Hc2).
      rewrite Hd. exists h2. ssplit; auto.
      * apply repr_leaf_intro. rewrite Hl2. exact Hnew.
      * rewrite Ml2. exact Ml1.
      * rewrite Mb2. change (bmeta_of (set_root h1 (RLeaf lid))) with (bmeta_of h1). rewrite Mb1. reflexivity.
      * rewrite Hc2. exact Hc1.
    + (* one child: it becomes the root *)
      assert (Ws : hwf (set_root h (ref_of c1))) by (apply hwf_set_root'; exact W).
      destruct (dealloc_branch_sim id Ws) as (h1 & Hd & Mb1 & Ml1 & W1 & Hn1 & Ho1 & Hl1 & Hr1 & Hc1).
      rewrite Hd. cbn [bind].
      assert (Hin : In c1 [c1]) by (left; reflexivity).
      assert (R1 : repr h1 c1).
      { apply repr_transfer with (h := h); [eapply repr_child; eauto|intros; apply Hl1|].
        intros y Hy. rewrite Ho1; [reflexivity|]. intros ->.
        eapply branch_id_not_in_child; eauto. }
      change (hcap h) with (hcap (set_root h (ref_of c1))) in H. rewrite <- Hc1 in H.
      change (lmeta_of h) with (lmeta_of (set_root h (ref_of c1))) in H. rewrite <- Ml1 in H.
      change (bmeta_of h) with (bmeta_of (set_root h (ref_of c1))) in H. rewrite <- Mb1 in H.
      destruct (IH fa c1 h1 lm' bm' t' Hf H W1 R1) as (h' & HA & Rt' & Hr' & Ml' & Mb' & W' & Hc').
      * rewrite Hr1. reflexivity.
      * eapply NoDup_branch_ids_child; eauto.
      * rewrite Ml1. exact RL.
      * exists h'. ssplit; auto. rewrite Hc', Hc1. reflexivity.
    + apply Ok_inj in H. inversion H; subst. exists h. ssplit; auto.
Qed.

(* ---------------- BPlusTreeMap::remove ---------------- *)
Lemma shape_r_height : forall c hh (t : ptree), @shape_r V c hh t -> height t = hh.
Proof.
  intros c hh t [S|(id & ch & h' & -> & -> & S)].
  - eapply shape_height; eauto.
  - cbn [height map list_max fold_right]. rewrite (shape_height S). lia.
Qed.

Theorem remove_sim_core : forall (b : bstate V) z, Inv b -> rooms b ->
  exists b' old, b_remove b z = Ok (b', old) /\ remove_A (flatten b) z = Ok (flatten b', old).
Proof.
  intros b z I Rs. destruct Rs as [RL RB].
  destruct (@remove_inv V b z I RL RB) as (b' & old & Hb & I' & _).
  exists b', old. split; [exact Hb|].
  assert (Rs : rooms b) by (split; assumption).
  pose proof (hwf_flatten I Rs) as W. pose proof (flatten_repr I Rs) as R.
  pose proof (flatten_heap_of I Rs) as HO. pose proof (Bridge.fuel_ok I HO) as Hfuel.
  set (h := flatten b) in *.
  assert (Ml : lmeta_of h = lmeta b) by apply lmeta_of_flatten.
  assert (Mb : bmeta_of h = bmeta b) by apply bmeta_of_flatten.
  destruct (inv_leaves I) as (NDl & _). destruct (inv_branches I) as (NDb & _).
  destruct (inv_shape I) as (hh & Sh). pose proof (shape_height Sh) as Hh.
  unfold b_remove in Hb. unfold remove_A.
  destruct (rem (S (height (root b))) (lmeta b) (bmeta b) (root b) z)
    as [[[[[lm bm] t] removed] under]| | |] eqn:E; cbn [bind] in Hb; try discriminate.
  destruct (@rem_spec V (cap b) z (S (height (root b))) (root b) true None None hh (lmeta b) (bmeta b)
              (inv_cap I) (inv_ord I) Sh ltac:(lia))
    as (dl & db & t2 & rm2 & un2 & E2 & RO).
  rewrite E in E2. apply Ok_inj in E2. inversion E2; subst t2 rm2 un2.
  destruct RO as (_ & _ & _ & Sr & _). specialize (Sr eq_refl).
  rewrite <- Ml, <- Mb in E.
  destruct (@rem_sim (S (height (root b))) (dfuel h) (root b) h z (cap b) true None None hh
              lm bm t removed under ltac:(lia) (inv_cap I) (inv_ord I) Sh ltac:(lia) E W R NDl NDb)
    as (h1 & HA & Rt & Href & Ml1 & Mb1 & W1 & Fr1 & Hr1 & Hc1).
  change (hroot h) with (ref_of (root b)). rewrite HA. cbn [bind].
  destruct removed as [v|].
  - destruct (collapse (S (height t)) (cap b) lm bm t) as [[[lm' bm'] t']| | |] eqn:Ec;
      cbn [bind] in Hb; try discriminate.
    apply Ok_inj in Hb. inversion Hb; subst b' old. clear Hb.
    assert (Hfu : S (height t) <= dfuel h1).
    { rewrite (shape_r_height Sr). unfold dfuel, nslots in *.
      destruct W1 as [((Ll & _) & _) ((Lb & _) & _)]. destruct W as [((Ll0 & _) & _) ((Lb0 & _) & _)].
      rewrite Ll, Lb. rewrite Ll0, Lb0 in Hfuel.
      change (mask (hleaves h1)) with (m_mask (lmeta_of h1)).
      change (mask (hbranches h1)) with (m_mask (bmeta_of h1)).
      change (mask (hleaves h)) with (m_mask (lmeta_of h)) in Hfuel.
      change (mask (hbranches h)) with (m_mask (bmeta_of h)) in Hfuel.
      rewrite Ml1, Mb1, H0, H1, !length_mask_deallocs. rewrite Ml, Mb in Hfuel. lia. }
    assert (Ec' : collapse (S (height t)) (hcap h1) (lmeta_of h1) (bmeta_of h1) t = Ok (lm', bm', t')).
    { rewrite Hc1, Ml1, Mb1. exact Ec. }
    assert (NDbt : NoDup (branch_ids t)).
    { destruct (inv_shape I) as (hh' & Sh').
      destruct (@rem_spec V (cap b) z (S (height (root b))) (root b) true None None hh (lmeta b) (bmeta b)
              (inv_cap I) (inv_ord I) Sh ltac:(lia))
        as (dl' & db' & t3 & rm3 & un3 & E3 & RO3).
      rewrite Ml, Mb in E. rewrite E in E3. apply Ok_inj in E3. inversion E3; subst.
      destruct RO3 as (_ & _ & _ & _ & _ & _ & _ & _ & _ & P2).
      eapply NoDup_app_r. eapply Permutation_NoDup; eauto. }
    assert (RL1 : room (lmeta_of h1) 0).
    { unfold room in *. rewrite Ml1, H0, length_mask_deallocs. exact RL. }
    destruct (@collapse_sim (S (height t)) (dfuel h1) t h1 lm' bm' t' Hfu Ec' W1 Rt
                 ltac:(rewrite Hr1; symmetry; exact Href) NDbt RL1)
      as (h2 & HA2 & Rt' & Hr2 & Ml2 & Mb2 & W2 & Hc2).
    rewrite HA2. cbn [bind]. f_equal. f_equal.
    apply flatten_unique_inv; cbn [root lmeta bmeta cap]; auto.
    rewrite Hc2, Hc1. reflexivity.
  - apply Ok_inj in Hb. inversion Hb; subst b' old. clear Hb.
    f_equal. f_equal. apply flatten_unique_inv; cbn [root lmeta bmeta cap]; auto.
    rewrite Hr1. symmetry. exact Href.
Qed.

End RemoveSim.
