(* Model B of the Rust BPlusTreeMap mutators (insert_operations.rs, delete_operations.rs,
   node.rs, tree_structure.rs::clear, construction.rs::new).

   A node is *contained* in its parent instead of being fetched from the arena by id;
   ids, per-node capacity fields and leaf [next] links are stored in the nodes, and the
   two arenas are represented by their allocation metadata (mask + free list), against
   which allocation and deallocation happen in exactly the order of the Rust code.
   [Rust/Heap.v] lays a state out into literal arenas ([flatten]); the correspondence
   check compares that layout slot by slot with the real arenas after every call.

   Definitions only (the model must keep running when a proof breaks). *)
From BPT Require Import Common.Base.
Set Implicit Arguments.

Section Tree.
Variable V : Type.

Inductive ptree : Type :=
| PLeaf (id : N) (ncap : nat) (ks : list key) (vs : list V) (next : N)
| PBranch (id : N) (ncap : nat) (ks : list key) (cs : list ptree).

Definition pid (t : ptree) : N :=
  match t with PLeaf id _ _ _ _ => id | PBranch id _ _ _ => id end.
Definition pkeys (t : ptree) : list key :=
  match t with PLeaf _ _ ks _ _ => ks | PBranch _ _ ks _ => ks end.
Definition pcap (t : ptree) : nat :=
  match t with PLeaf _ c _ _ _ => c | PBranch _ c _ _ => c end.
Definition is_leaf (t : ptree) : bool :=
  match t with PLeaf _ _ _ _ _ => true | PBranch _ _ _ _ => false end.

Fixpoint height (t : ptree) : nat :=
  match t with
  | PLeaf _ _ _ _ _ => 0
  | PBranch _ _ _ cs => S (list_max (map height cs))
  end.

(* ---------------- arena metadata ---------------- *)
Record ameta := mkMeta { m_mask : list bool; m_free : list nat }.

Definition id_of_index (i : nat) : res N :=
  if N.leb (N.of_nat i) NULL then Ok (N.of_nat i) else Panic 1.

(* CompactArena::allocate, contents elided *)
Definition m_alloc (m : ameta) : res (ameta * N) :=
  match m_free m with
  | i :: f' =>
      do mk <- vec_set 3 i true (m_mask m);
      do id <- id_of_index i;
      Ok (mkMeta mk f', id)
  | [] =>
      do id <- id_of_index (length (m_mask m));
      Ok (mkMeta (m_mask m ++ [true]) [], id)
  end.

Definition m_mask_at (m : ameta) (i : nat) : bool :=
  match nth_error (m_mask m) i with Some b => b | None => false end.

(* CompactArena::deallocate, contents elided; the result of the Rust call is ignored by
   every caller in the tree code *)
Definition m_dealloc (m : ameta) (id : N) : ameta :=
  if N.eqb id NULL then m else
  let i := N.to_nat id in
  if negb (m_mask_at m i) then m else
  mkMeta (set_nth i false (m_mask m)) (i :: m_free m).

Record bstate := mkB { cap : nat; root : ptree; lmeta : ameta; bmeta : ameta }.

(* ---------------- construction ---------------- *)
Definition MIN_CAPACITY : nat := 4.
Definition DEFAULT_CAPACITY : nat := 16.

(* BPlusTreeMap::new / ::empty : None = Err(InvalidCapacity) *)
Definition b_new (c : nat) : option bstate :=
  if Nat.ltb c MIN_CAPACITY then None
  else Some (mkB c (PLeaf 0%N c [] [] NULL) (mkMeta [true] []) (mkMeta [] [])).

Definition b_clear (b : bstate) : bstate :=
  mkB (cap b) (PLeaf 0%N (cap b) [] [] NULL) (mkMeta [true] []) (mkMeta [] []).

(* ---------------- insert ---------------- *)
Inductive ins_res : Type :=
| IUpd (t : ptree) (old : option V)
  (* [rgt]: a split-off leaf is already allocated (its id is final); a split-off
     branch is raw data whose id is assigned by the caller ([realize]) *)
| ISplit (t : ptree) (old : option V) (sep : key) (rgt : ptree).

(* insert_into_leaf *)
Definition ins_leaf (lm : ameta) (id : N) (ncap : nat) (ks : list key) (vs : list V)
           (next : N) (k : key) (v : V) : res (ameta * ins_res) :=
  let i := lb ks (kz k) in
  if bfound ks (kz k) then
    match nth_error vs i with
    | Some old => Ok (lm, IUpd (PLeaf id ncap ks (set_nth i v vs) next) (Some old))
    | None => Ok (lm, IUpd (PLeaf id ncap ks vs next) None)
    end
  else if negb (Nat.leb ncap (length ks)) then
    do ks' <- vec_insert 10 i k ks;
    do vs' <- vec_insert 11 i v vs;
    Ok (lm, IUpd (PLeaf id ncap ks' vs' next) None)
  else
    let min_keys := ncap / 2 in
    let total := length ks in
    let mid0 := (total + 1) / 2 in
    do d <- usub 12 total min_keys;
    let mid := Nat.min (Nat.max mid0 min_keys) d in
    do kss <- vec_split_off 13 mid ks;
    do vss <- vec_split_off 14 mid vs;
    let '(lks, rks) := kss in
    let '(lvs, rvs) := vss in
    let llen := length lks in
    do al <- m_alloc lm;
    let '(lm', rid) := al in
    do lr <-
      (if Nat.leb i llen then
         do lks' <- vec_insert 15 i k lks;
         do lvs' <- vec_insert 16 i v lvs;
         Ok (lks', lvs', rks, rvs)
       else
         do rks' <- vec_insert 17 (i - llen) k rks;
         do rvs' <- vec_insert 18 (i - llen) v rvs;
         Ok (lks, lvs, rks', rvs'));
    let '(lks1, lvs1, rks1, rvs1) := lr in
    match rks1 with
    | [] => Panic 19                       (* first_key().unwrap() *)
    | sep :: _ =>
        Ok (lm', ISplit (PLeaf id ncap lks1 lvs1 rid) None sep
                        (PLeaf rid ncap rks1 rvs1 next))
    end.

(* SplitNodeData::Branch => allocate_branch; AllocatedLeaf => nothing to do *)
Definition realize (bm : ameta) (t : ptree) : res (ameta * ptree) :=
  match t with
  | PLeaf _ _ _ _ _ => Ok (bm, t)
  | PBranch _ ncap ks cs =>
      do al <- m_alloc bm;
      let '(bm', id) := al in Ok (bm', PBranch id ncap ks cs)
  end.

(* BranchNode::insert_child_and_split_if_needed + split_data on (ks, cs) *)
Definition ins_branch_child (id : N) (ncap : nat) (ks : list key) (cs : list ptree)
           (ci : nat) (sep : key) (newc : ptree) (old : option V) : res ins_res :=
  let full := Nat.leb ncap (length ks) in
  do ks2 <- vec_insert 20 ci sep ks;
  do cs2 <- vec_insert 21 (S ci) newc cs;
  if full then
    let mid := ncap / 2 in
    do promoted <- vec_get 22 mid ks2;
    do kss <- vec_split_off 23 (S mid) ks2;
    do css <- vec_split_off 24 (S mid) cs2;
    let '(lks0, rks) := kss in
    let '(lcs, rcs) := css in
    Ok (ISplit (PBranch id ncap (removelast lks0) lcs) old promoted
               (PBranch NULL ncap rks rcs))
  else Ok (IUpd (PBranch id ncap ks2 cs2) old).

(* insert_recursive *)
Fixpoint ins (fuel : nat) (lm bm : ameta) (t : ptree) (k : key) (v : V)
  : res (ameta * ameta * ins_res) :=
  match fuel with
  | O => OutOfFuel
  | S f =>
    match t with
    | PLeaf id ncap ks vs next =>
        do r <- ins_leaf lm id ncap ks vs next k v;
        let '(lm', ir) := r in Ok (lm', bm, ir)
    | PBranch id ncap ks cs =>
        let ci := child_index ks (kz k) in
        match nth_error cs ci with
        | None => Ok (lm, bm, IUpd t None)
        | Some c =>
            do r <- ins f lm bm c k v;
            let '(lm1, bm1, ir) := r in
            match ir with
            | IUpd c' old => Ok (lm1, bm1, IUpd (PBranch id ncap ks (set_nth ci c' cs)) old)
            | ISplit c' old sep rgt =>
                do rz <- realize bm1 rgt;
                let '(bm2, rgt') := rz in
                do ir' <- ins_branch_child id ncap ks (set_nth ci c' cs) ci sep rgt' old;
                Ok (lm1, bm2, ir')
            end
        end
    end
  end.

(* BPlusTreeMap::insert *)
Definition b_insert (b : bstate) (k : key) (v : V) : res (bstate * option V) :=
  do r <- ins (S (height (root b))) (lmeta b) (bmeta b) (root b) k v;
  let '(lm, bm, ir) := r in
  match ir with
  | IUpd t old => Ok (mkB (cap b) t lm bm, old)
  | ISplit t old sep rgt =>
      do rz <- realize bm rgt;
      let '(bm2, rgt') := rz in
      do al <- m_alloc bm2;
      let '(bm3, rid) := al in
      Ok (mkB (cap b) (PBranch rid (cap b) [sep] [t; rgt']) lm bm3, old)
  end.

(* ---------------- remove ---------------- *)

Definition can_donate (t : ptree) : bool := Nat.ltb (pcap t / 2) (length (pkeys t)).
Definition underfull (t : ptree) : bool := Nat.ltb (length (pkeys t)) (pcap t / 2).

(* result of rebalancing the child at [ci] of a branch with separators [ks] and
   children [cs]: new (ks, cs) and metas *)
Definition rb_res := (ameta * ameta * list key * list ptree)%type.

(* rebalance_leaf: [c] = cs[ci] is a leaf *)
Definition rebalance_leaf (lm bm : ameta) (ks : list key) (cs : list ptree) (ci : nat)
  : res rb_res :=
  let unchanged : res rb_res := Ok (lm, bm, ks, cs) in
  let lft := if Nat.ltb 0 ci then nth_error cs (ci - 1) else None in
  let rgt := if Nat.ltb (S ci) (length cs) then nth_error cs (S ci) else None in
  let left_leaf := match lft with Some (PLeaf _ _ _ _ _ as l) => Some l | _ => None end in
  let right_leaf := match rgt with Some (PLeaf _ _ _ _ _ as r) => Some r | _ => None end in
  let left_can := match lft with Some l => can_donate l | None => false end in
  let right_can := match rgt with Some r => can_donate r | None => false end in
  match nth_error cs ci with
  | Some (PLeaf cid ccap cks cvs cnext) =>
    match (if left_can then left_leaf else None) with
    | Some (PLeaf lid lcap lks lvs lnext) =>
        (* borrow_from_left_leaf_with_ids *)
        if orb (Nat.eqb (length lks) 0) (negb (Nat.ltb (lcap / 2) (length lks)))
        then unchanged
        else
          match vec_pop lks, vec_pop lvs with
          | Some (k, lks'), Some (v, lvs') =>
              let l' := PLeaf lid lcap lks' lvs' lnext in
              let c' := PLeaf cid ccap (k :: cks) (v :: cvs) cnext in
              do ks' <- vec_set 30 (ci - 1) k ks;
              Ok (lm, bm, ks', set_nth ci c' (set_nth (ci - 1) l' cs))
          | _, _ => Panic 31
          end
    | _ =>
    match (if right_can then right_leaf else None) with
    | Some (PLeaf rid rcap rks rvs rnext) =>
        (* borrow_from_right_leaf_with_ids *)
        if orb (Nat.eqb (length rks) 0) (negb (Nat.ltb (rcap / 2) (length rks)))
        then unchanged
        else
          match rks, rvs with
          | k :: rks', v :: rvs' =>
              let r' := PLeaf rid rcap rks' rvs' rnext in
              let c' := PLeaf cid ccap (cks ++ [k]) (cvs ++ [v]) cnext in
              let cs' := set_nth ci c' (set_nth (S ci) r' cs) in
              match rks' with
              | sep :: _ =>
                  do ks' <- vec_set 32 ci sep ks;
                  Ok (lm, bm, ks', cs')
              | [] => Ok (lm, bm, ks, cs')
              end
          | _, _ => Panic 33
          end
    | _ =>
    match left_leaf with
    | Some (PLeaf lid lcap lks lvs lnext) =>
        (* merge_with_left_leaf_with_ids *)
        if orb (Nat.ltb lcap (length lks + length cks)) (Nat.ltb lcap (length lvs + length cvs))
        then Panic 34 else
        let l' := PLeaf lid lcap (lks ++ cks) (lvs ++ cvs) cnext in
        let cs1 := set_nth (ci - 1) l' cs in
        do r1 <- vec_remove 35 ci cs1;
        do r2 <- vec_remove 36 (ci - 1) ks;
        Ok (m_dealloc lm cid, bm, snd r2, snd r1)
    | _ =>
    match right_leaf with
    | Some (PLeaf rid rcap rks rvs rnext) =>
        (* merge_with_right_leaf_with_ids *)
        if orb (Nat.ltb ccap (length cks + length rks)) (Nat.ltb ccap (length cvs + length rvs))
        then Panic 37 else
        let c' := PLeaf cid ccap (cks ++ rks) (cvs ++ rvs) rnext in
        let cs1 := set_nth ci c' cs in
        do r1 <- vec_remove 38 (S ci) cs1;
        do r2 <- vec_remove 39 ci ks;
        Ok (m_dealloc lm rid, bm, snd r2, snd r1)
    | _ => unchanged
    end end end end
  | _ => unchanged
  end.

(* rebalance_branch: [c] = cs[ci] is a branch *)
Definition rebalance_branch (lm bm : ameta) (ks : list key) (cs : list ptree) (ci : nat)
  : res rb_res :=
  let unchanged : res rb_res := Ok (lm, bm, ks, cs) in
  let lft := if Nat.ltb 0 ci then nth_error cs (ci - 1) else None in
  let rgt := if Nat.ltb (S ci) (length cs) then nth_error cs (S ci) else None in
  let left_br := match lft with Some (PBranch _ _ _ _ as l) => Some l | _ => None end in
  let right_br := match rgt with Some (PBranch _ _ _ _ as r) => Some r | _ => None end in
  let left_can := match lft with Some l => can_donate l | None => false end in
  let right_can := match rgt with Some r => can_donate r | None => false end in
  (* separator keys are read (and may panic) before the child kind is looked at *)
  do lsep <- match left_br with Some _ => do s <- vec_get 40 (ci - 1) ks; Ok (Some s) | None => Ok None end;
  do rsep <- match right_br with Some _ => do s <- vec_get 41 ci ks; Ok (Some s) | None => Ok None end;
  match nth_error cs ci with
  | Some (PBranch cid ccap cks ccs) =>
    match (if left_can then left_br else None), lsep with
    | Some (PBranch lid lcap lks lcs), Some sep =>
        (* borrow_from_left_branch_with *)
        if orb (Nat.eqb (length lks) 0) (negb (Nat.ltb (lcap / 2) (length lks)))
        then unchanged
        else
          match vec_pop lks, vec_pop lcs with
          | Some (mk, lks'), Some (mc, lcs') =>
              let l' := PBranch lid lcap lks' lcs' in
              let c' := PBranch cid ccap (sep :: cks) (mc :: ccs) in
              do ks' <- vec_set 42 (ci - 1) mk ks;
              Ok (lm, bm, ks', set_nth ci c' (set_nth (ci - 1) l' cs))
          | _, _ => Panic 43
          end
    | _, _ =>
    match (if right_can then right_br else None), rsep with
    | Some (PBranch rid rcap rks rcs), Some sep =>
        (* borrow_from_right_branch_with *)
        if orb (Nat.eqb (length rks) 0) (negb (Nat.ltb (rcap / 2) (length rks)))
        then unchanged
        else
          match rks, rcs with
          | mk :: rks', mc :: rcs' =>
              let r' := PBranch rid rcap rks' rcs' in
              let c' := PBranch cid ccap (cks ++ [sep]) (ccs ++ [mc]) in
              do ks' <- vec_set 44 ci mk ks;
              Ok (lm, bm, ks', set_nth ci c' (set_nth (S ci) r' cs))
          | _, _ => Panic 45
          end
    | _, _ =>
    match left_br with
    | Some (PBranch lid lcap lks lcs) =>
        (* merge_with_left_branch *)
        do sep <- vec_get 46 (ci - 1) ks;
        if orb (Nat.ltb lcap (length lks + 1 + length cks))
               (Nat.ltb (lcap + 1) (length lcs + length ccs))
        then Panic 47 else
        let l' := PBranch lid lcap (lks ++ sep :: cks) (lcs ++ ccs) in
        let cs1 := set_nth (ci - 1) l' cs in
        do r1 <- vec_remove 48 ci cs1;
        do r2 <- vec_remove 49 (ci - 1) ks;
        Ok (lm, m_dealloc bm cid, snd r2, snd r1)
    | _ =>
    match right_br with
    | Some (PBranch rid rcap rks rcs) =>
        (* merge_with_right_branch *)
        do sep <- vec_get 50 ci ks;
        if orb (Nat.ltb ccap (length cks + 1 + length rks))
               (Nat.ltb (ccap + 1) (length ccs + length rcs))
        then Panic 51 else
        let c' := PBranch cid ccap (cks ++ sep :: rks) (ccs ++ rcs) in
        let cs1 := set_nth ci c' cs in
        do r1 <- vec_remove 52 (S ci) cs1;
        do r2 <- vec_remove 53 ci ks;
        Ok (lm, m_dealloc bm rid, snd r2, snd r1)
    | _ => unchanged
    end end end end
  | _ => unchanged
  end.

(* rebalance_child: children[child_index] is indexed (panics when out of range), and
   children.len() - 1 is computed *)
Definition rebalance_child (lm bm : ameta) (ks : list key) (cs : list ptree) (ci : nat)
  : res rb_res :=
  do c <- vec_get 60 ci cs;
  if is_leaf c then rebalance_leaf lm bm ks cs ci else rebalance_branch lm bm ks cs ci.

(* remove_recursive: returns (metas, new node, removed value, node is now underfull) *)
Fixpoint rem (fuel : nat) (lm bm : ameta) (t : ptree) (z : Z)
  : res (ameta * ameta * ptree * option V * bool) :=
  match fuel with
  | O => OutOfFuel
  | S f =>
    match t with
    | PLeaf id ncap ks vs next =>
        if bfound ks z then
          let i := lb ks z in
          do rv <- vec_remove 61 i vs;
          let ks' := remove_at i ks in
          Ok (lm, bm, PLeaf id ncap ks' (snd rv) next, Some (fst rv),
              Nat.ltb (length ks') (ncap / 2))
        else Ok (lm, bm, t, None, false)
    | PBranch id ncap ks cs =>
        let ci := child_index ks z in
        match nth_error cs ci with
        | None => Ok (lm, bm, t, None, false)
        | Some c =>
            do r <- rem f lm bm c z;
            let '(lm1, bm1, c', removed, under) := r in
            let cs1 := set_nth ci c' cs in
            match removed with
            | None => Ok (lm1, bm1, PBranch id ncap ks cs1, None, false)
            | Some _ =>
                do rb <- (if under then rebalance_child lm1 bm1 ks cs1 ci
                          else Ok (lm1, bm1, ks, cs1));
                let '(lm2, bm2, ks2, cs2) := rb in
                Ok (lm2, bm2, PBranch id ncap ks2 cs2, removed,
                    Nat.ltb (length ks2) (ncap / 2))
            end
        end
    end
  end.

(* collapse_root_if_needed *)
Fixpoint collapse (fuel : nat) (c : nat) (lm bm : ameta) (t : ptree)
  : res (ameta * ameta * ptree) :=
  match fuel with
  | O => OutOfFuel
  | S f =>
    match t with
    | PLeaf _ _ _ _ _ => Ok (lm, bm, t)
    | PBranch id _ _ [] =>
        (* create_empty_root_leaf, then deallocate the branch *)
        do al <- m_alloc lm;
        let '(lm', lid) := al in
        Ok (lm', m_dealloc bm id, PLeaf lid c [] [] NULL)
    | PBranch id _ _ [child] => collapse f c lm (m_dealloc bm id) child
    | PBranch _ _ _ _ => Ok (lm, bm, t)
    end
  end.

(* BPlusTreeMap::remove *)
Definition b_remove (b : bstate) (z : Z) : res (bstate * option V) :=
  do r <- rem (S (height (root b))) (lmeta b) (bmeta b) (root b) z;
  let '(lm, bm, t, removed, _) := r in
  match removed with
  | None => Ok (mkB (cap b) t lm bm, None)
  | Some _ =>
      do cr <- collapse (S (height t)) (cap b) lm bm t;
      let '(lm', bm', t') := cr in
      Ok (mkB (cap b) t' lm' bm', removed)
  end.

(* get_mut(key) followed by a write of [v] through the returned reference; returns
   whether a reference was obtained *)
Fixpoint upd (fuel : nat) (t : ptree) (z : Z) (v : V) : res (ptree * bool) :=
  match fuel with
  | O => OutOfFuel
  | S f =>
    match t with
    | PLeaf id ncap ks vs next =>
        if bfound ks z then
          let i := lb ks z in
          if Nat.ltb i (length vs) then Ok (PLeaf id ncap ks (set_nth i v vs) next, true)
          else Ok (t, false)
        else Ok (t, false)
    | PBranch id ncap ks cs =>
        let ci := child_index ks z in
        match nth_error cs ci with
        | None => Ok (t, false)
        | Some c =>
            do r <- upd f c z v;
            Ok (PBranch id ncap ks (set_nth ci (fst r) cs), snd r)
        end
    end
  end.

Definition b_get_mut_write (b : bstate) (z : Z) (v : V) : res (bstate * bool) :=
  do r <- upd (S (height (root b))) (root b) z v;
  Ok (mkB (cap b) (fst r) (lmeta b) (bmeta b), snd r).

(* ---------------- logical content ---------------- *)
Fixpoint contents (t : ptree) : list (key * V) :=
  match t with
  | PLeaf _ _ ks vs _ => combine ks vs
  | PBranch _ _ _ cs => flat_map contents cs
  end.

End Tree.

Arguments PLeaf {V} _ _ _ _ _.
Arguments PBranch {V} _ _ _ _.
