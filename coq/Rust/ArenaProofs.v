(* Proofs about the CompactArena model (C16): every operation preserves the arena
   invariant and has the expected functional behaviour; histories of operations refine
   the abstract machine "finite map from handles to items". *)
From BPT Require Import Common.Base Rust.Arena Rust.ArenaSpec.
From Coq Require Import Permutation.

(* ------------------------------------------------------------------ *)
(* Generic list facts *)
Section ListFacts.
Variable A : Type.

Lemma length_set_nth : forall i (x : A) l, length (set_nth i x l) = length l.
Proof.
  induction i as [|i IH]; intros x [|y l]; cbn [set_nth length]; auto.
Qed.

Lemma set_nth_same : forall i (x : A) l,
  i < length l -> nth_error (set_nth i x l) i = Some x.
Proof.
  induction i as [|i IH]; intros x [|y l] H; cbn [set_nth nth_error length] in *;
    try lia; auto.
  apply IH; lia.
Qed.

Lemma set_nth_other : forall i j (x : A) l,
  i <> j -> nth_error (set_nth i x l) j = nth_error l j.
Proof.
  induction i as [|i IH]; intros [|j] x [|y l] H; cbn [set_nth nth_error];
    try congruence; auto.
Qed.

Lemma option_ext : forall (o1 o2 : option A),
  (forall x, o1 = Some x <-> o2 = Some x) -> o1 = o2.
Proof.
  intros [x|] [y|] H; auto.
  - symmetry. apply (proj1 (H x)). reflexivity.
  - symmetry. apply (proj1 (H x)). reflexivity.
  - apply (proj2 (H y)). reflexivity.
Qed.

End ListFacts.

(* ------------------------------------------------------------------ *)
(* count_true *)
Lemma count_true_cons : forall b l,
  count_true (b :: l) = (if b then 1 else 0) + count_true l.
Proof. intros [] l; reflexivity. Qed.

Lemma count_true_app : forall l1 l2,
  count_true (l1 ++ l2) = count_true l1 + count_true l2.
Proof. intros; unfold count_true; rewrite filter_app, app_length; reflexivity. Qed.

Lemma count_true_set_true : forall i l,
  nth_error l i = Some false -> count_true (set_nth i true l) = S (count_true l).
Proof.
  induction i as [|i IH]; intros [|b l] H; cbn [nth_error set_nth] in *;
    try discriminate.
  - inversion H; subst. reflexivity.
  - rewrite !count_true_cons, IH by assumption. lia.
Qed.

Lemma count_true_set_false : forall i l,
  nth_error l i = Some true -> count_true l = S (count_true (set_nth i false l)).
Proof.
  induction i as [|i IH]; intros [|b l] H; cbn [nth_error set_nth] in *;
    try discriminate.
  - inversion H; subst. reflexivity.
  - rewrite !count_true_cons, (IH l) by assumption. lia.
Qed.

Lemma count_true_false_length : forall l,
  count_true l + length (filter negb l) = length l.
Proof.
  induction l as [|[] l IH]; auto.
  - rewrite count_true_cons. cbn [filter negb length]. lia.
  - rewrite count_true_cons. cbn [filter negb length]. lia.
Qed.

Lemma count_true_trues : forall (A : Type) (l : list A),
  count_true (map (fun _ => true) l) = length l.
Proof.
  induction l as [|x l IH]; auto.
  cbn [map]. rewrite count_true_cons, IH. reflexivity.
Qed.

(* counting the indices that satisfy a predicate = counting the elements *)
Lemma filter_seq_length : forall (g : option bool -> bool) (l : list bool),
  length (filter (fun i => g (nth_error l i)) (seq 0 (length l))) =
  length (filter (fun b => g (Some b)) l).
Proof.
  intros g l. induction l as [|b l IH] using rev_ind; auto.
  rewrite app_length. cbn [length]. rewrite Nat.add_1_r, seq_S, !filter_app, !app_length.
  f_equal.
  - rewrite <- IH. f_equal. apply filter_ext_in. intros i Hi. apply in_seq in Hi.
    rewrite nth_error_app1 by lia. reflexivity.
  - cbn [filter Nat.add]. rewrite nth_error_app2 by lia. rewrite Nat.sub_diag.
    cbn [nth_error]. destruct (g (Some b)); reflexivity.
Qed.

Lemma free_list_length : forall (mk : list bool) (fr : list nat),
  NoDup fr -> (forall i, In i fr <-> nth_error mk i = Some false) ->
  length fr = length (filter negb mk).
Proof.
  intros mk fr Hnd Hfree.
  set (g := fun o : option bool => match o with Some false => true | _ => false end).
  transitivity (length (filter (fun i => g (nth_error mk i)) (seq 0 (length mk)))).
  - apply Permutation_length. apply NoDup_Permutation; auto.
    + apply NoDup_filter, seq_NoDup.
    + intros i. rewrite Hfree, filter_In, in_seq. split.
      * intros E. split.
        -- assert (i < length mk) by (apply nth_error_Some; congruence). lia.
        -- rewrite E. reflexivity.
      * intros (_ & E). unfold g in E.
        destruct (nth_error mk i) as [[]|]; congruence.
  - rewrite filter_seq_length. reflexivity.
Qed.

(* ------------------------------------------------------------------ *)
(* handle arithmetic; NULL is never unfolded outside these lemmas *)
Lemma of_nat_not_null : forall n i,
  (N.of_nat n < NULL)%N -> i <= n ->
  N.of_nat i <> NULL /\ (N.of_nat i <=? NULL)%N = true.
Proof.
  intros n i H Hi. split.
  - unfold NULL in *. lia.
  - apply N.leb_le. unfold NULL in *. lia.
Qed.

Lemma to_nat_neq : forall h h' : N, h' <> h -> N.to_nat h' <> N.to_nat h.
Proof. intros h h' H E. apply H. apply N2Nat.inj. exact E. Qed.

(* the guarded handle-to-index conversion *)
Lemma idx_lt : forall n id, N.to_nat id < n -> idx n id = N.to_nat id.
Proof. intros n id H. unfold idx. destruct (N.ltb_spec id (N.of_nat n)); lia. Qed.

Lemma idx_ge : forall n id, n <= N.to_nat id -> idx n id = n.
Proof. intros n id H. unfold idx. destruct (N.ltb_spec id (N.of_nat n)); lia. Qed.

Lemma idx_le : forall n id, idx n id <= n.
Proof.
  intros n id. destruct (Nat.lt_ge_cases (N.to_nat id) n) as [H|H].
  - rewrite idx_lt by assumption. lia.
  - rewrite idx_ge by assumption. lia.
Qed.

Lemma idx_lt_iff : forall n id, idx n id < n <-> N.to_nat id < n.
Proof.
  intros n id. destruct (Nat.lt_ge_cases (N.to_nat id) n) as [H|H].
  - rewrite idx_lt by assumption. tauto.
  - rewrite idx_ge by assumption. lia.
Qed.

(* distinct in-range handles have distinct indices; an out-of-range handle maps to n *)
Lemma idx_inj : forall n h h',
  h' <> h -> idx n h < n -> idx n h' <> idx n h.
Proof.
  intros n h h' Hne Hlt E. pose proof (proj1 (idx_lt_iff n h) Hlt) as Hh.
  rewrite (idx_lt n h Hh) in E.
  destruct (Nat.lt_ge_cases (N.to_nat h') n) as [H|H].
  - rewrite idx_lt in E by assumption. apply Hne. apply N2Nat.inj. exact E.
  - rewrite idx_ge in E by assumption. lia.
Qed.

Section ArenaProofs.
Variable T : Type.
Variable dflt : T.

Notation arena := (arena T).

(* ------------------------------------------------------------------ *)
(* a_get in normal form *)
Lemma mask_at_true : forall (a : arena) i,
  mask_at a i = true <-> nth_error (mask a) i = Some true.
Proof.
  intros a i. unfold mask_at.
  destruct (nth_error (mask a) i) as [[]|]; split; intros; congruence.
Qed.

Lemma a_get_eq : forall (a : arena) h,
  a_get a h = if (h =? NULL)%N then None
              else if mask_at a (N.to_nat h) then nth_error (store a) (N.to_nat h)
              else None.
Proof.
  intros a h. unfold a_get. destruct (h =? NULL)%N; auto.
  destruct (Nat.lt_ge_cases (N.to_nat h) (length (store a))) as [Hlt|Hge].
  - rewrite idx_lt by assumption.
    destruct (Nat.ltb_spec (N.to_nat h) (length (store a))); [| lia]. reflexivity.
  - rewrite idx_ge by assumption. rewrite Nat.ltb_irrefl. cbn [andb].
    destruct (mask_at a (N.to_nat h)); auto.
    symmetry. apply nth_error_None. lia.
Qed.

Lemma mask_at_ge : forall (a : arena) i, length (mask a) <= i -> mask_at a i = false.
Proof.
  intros a i H. unfold mask_at. apply nth_error_None in H. rewrite H. reflexivity.
Qed.

Lemma a_get_Some : forall (a : arena) h x,
  a_get a h = Some x <->
  h <> NULL /\ nth_error (mask a) (N.to_nat h) = Some true /\
  nth_error (store a) (N.to_nat h) = Some x.
Proof.
  intros a h x. rewrite a_get_eq. destruct (N.eqb_spec h NULL) as [E|E].
  - split; [discriminate | intros (? & _); contradiction].
  - unfold mask_at. destruct (nth_error (mask a) (N.to_nat h)) as [[]|].
    + split; [auto | intros (_ & _ & ?); auto].
    + split; [discriminate | intros (_ & ? & _); discriminate].
    + split; [discriminate | intros (_ & ? & _); discriminate].
Qed.

Lemma a_get_ext : forall (a a' : arena) h,
  nth_error (store a') (N.to_nat h) = nth_error (store a) (N.to_nat h) ->
  nth_error (mask a') (N.to_nat h) = nth_error (mask a) (N.to_nat h) ->
  a_get a' h = a_get a h.
Proof.
  intros a a' h H1 H2. rewrite !a_get_eq. unfold mask_at. rewrite H1, H2. reflexivity.
Qed.

Lemma a_get_dead : forall (a : arena) h,
  nth_error (mask a) (N.to_nat h) <> Some true -> a_get a h = None.
Proof.
  intros a h H. destruct (a_get a h) as [x|] eqn:E; auto.
  apply a_get_Some in E. destruct E as (_ & E & _). contradiction.
Qed.

Lemma a_get_live : forall (a : arena) h,
  length (store a) = length (mask a) ->
  h <> NULL -> nth_error (mask a) (N.to_nat h) = Some true ->
  exists x, nth_error (store a) (N.to_nat h) = Some x /\ a_get a h = Some x.
Proof.
  intros a h Hlen Hne Hm.
  assert (Hlt : N.to_nat h < length (store a)).
  { rewrite Hlen. apply nth_error_Some. congruence. }
  destruct (nth_error (store a) (N.to_nat h)) as [x|] eqn:E.
  - exists x. split; auto. apply a_get_Some. auto.
  - apply nth_error_None in E. lia.
Qed.

(* ------------------------------------------------------------------ *)
(* 8. null and out-of-range handles *)
Theorem get_null : forall a : arena, a_get a NULL = None.
Proof. intros a. unfold a_get. rewrite N.eqb_refl. reflexivity. Qed.

Theorem get_out_of_range : forall (a : arena) h,
  length (store a) <= N.to_nat h -> a_get a h = None.
Proof.
  intros a h H. rewrite a_get_eq. destruct (h =? NULL)%N; auto.
  apply nth_error_None in H. rewrite H. destruct (mask_at a (N.to_nat h)); reflexivity.
Qed.

(* 6. contains *)
Theorem contains_spec : forall (a : arena) h, a_contains a h = is_some (a_get a h).
Proof.
  intros a h. unfold a_contains, a_get. destruct (h =? NULL)%N; auto.
  set (i := idx (length (store a)) h).
  destruct (Nat.ltb_spec i (length (store a))) as [Hlt|Hge]; cbn [andb]; auto.
  destruct (mask_at a i); auto.
  destruct (nth_error (store a) i) eqn:E; auto.
  apply nth_error_None in E. lia.
Qed.

(* ------------------------------------------------------------------ *)
(* 1. / 9. new and clear *)
Theorem inv_new : ArenaInv (@a_new T).
Proof.
  split; [reflexivity | split; [constructor |]].
  intros i. cbn [a_new free mask]. split; [intros [] | destruct i; discriminate].
Qed.

Lemma get_new : forall h, a_get (@a_new T) h = None.
Proof. intros h. apply get_out_of_range. cbn. lia. Qed.

Theorem clear_spec : forall a : arena,
  ArenaInv (a_clear a) /\ (forall h, a_get (a_clear a) h = None) /\
  a_len (a_clear a) = 0 /\ a_free_count (a_clear a) = 0.
Proof.
  intros a. unfold a_clear.
  split; [apply inv_new | split; [apply get_new | split; reflexivity]].
Qed.

(* ------------------------------------------------------------------ *)
(* free-list part of the invariant under allocate / release *)
Lemma free_inv_alloc : forall (mk : list bool) i f',
  NoDup (i :: f') ->
  (forall j, In j (i :: f') <-> nth_error mk j = Some false) ->
  forall j, In j f' <-> nth_error (set_nth i true mk) j = Some false.
Proof.
  intros mk i f' Hnd Hfree j.
  assert (Hi : nth_error mk i = Some false) by (apply Hfree; left; reflexivity).
  assert (Hlt : i < length mk) by (apply nth_error_Some; congruence).
  inversion Hnd as [|? ? Hnotin Hnd']; subst.
  destruct (Nat.eq_dec i j) as [->|Hne].
  - rewrite set_nth_same by assumption. split; [intros; contradiction | discriminate].
  - rewrite set_nth_other by assumption. rewrite <- Hfree. cbn [In].
    split; [auto | intros [?|?]; [contradiction | auto]].
Qed.

Lemma free_inv_release : forall (mk : list bool) i fr,
  i < length mk ->
  (forall j, In j fr <-> nth_error mk j = Some false) ->
  forall j, In j (i :: fr) <-> nth_error (set_nth i false mk) j = Some false.
Proof.
  intros mk i fr Hlt Hfree j. cbn [In].
  destruct (Nat.eq_dec i j) as [->|Hne].
  - rewrite set_nth_same by assumption. split; auto.
  - rewrite set_nth_other by assumption. rewrite <- Hfree.
    split; [intros [?|?]; [contradiction | auto] | auto].
Qed.

(* ------------------------------------------------------------------ *)
(* 2. allocate *)
Theorem allocate_spec : forall (a : arena) x, ArenaInv a -> small a ->
  exists a' h, allocate a x = Ok (a', h) /\ h <> NULL /\ a_get a h = None /\
    a_get a' h = Some x /\ (forall h', h' <> h -> a_get a' h' = a_get a h') /\
    ArenaInv a' /\ a_len a' = S (a_len a) /\
    a_free_count a' = pred (a_free_count a) /\
    length (store a') =
      (match free a with [] => S (length (store a)) | _ => length (store a) end).
Proof.
  intros [st mk fr] x (Hlen & Hnd & Hfree) Hsm.
  unfold small in Hsm. unfold allocate, a_len, a_free_count.
  cbn [store mask free] in *.
  destruct fr as [|i f'].
  - (* push *)
    destruct (of_nat_not_null (length st) (length st) Hsm (le_n _)) as (Hne & Hle).
    unfold id_of_index. rewrite Hle. cbn [bind].
    exists (mkArena (st ++ [x]) (mk ++ [true]) []), (N.of_nat (length st)).
    split; [reflexivity | split; [exact Hne |]].
    split; [apply get_out_of_range; cbn [store]; rewrite Nat2N.id; lia |].
    split.
    { apply a_get_Some. rewrite Nat2N.id. cbn [store mask].
      split; [exact Hne | split].
      - rewrite Hlen, nth_error_app2, Nat.sub_diag by lia. reflexivity.
      - rewrite nth_error_app2, Nat.sub_diag by lia. reflexivity. }
    split.
    { intros h' Hh'. apply to_nat_neq in Hh'. rewrite Nat2N.id in Hh'.
      destruct (Nat.lt_ge_cases (N.to_nat h') (length st)) as [Hlt|Hge].
      - apply a_get_ext; cbn [store mask]; apply nth_error_app1; lia.
      - rewrite (get_out_of_range (mkArena st mk []) h') by (cbn [store]; lia).
        apply get_out_of_range. cbn [store]. rewrite app_length. cbn [length]. lia. }
    split.
    { split; [| split; [constructor |]]; cbn [store mask free].
      - rewrite !app_length, Hlen. reflexivity.
      - intros j. split; [intros [] |]. intros Hj. exfalso.
        destruct (Nat.lt_ge_cases j (length mk)) as [Hlt|Hge].
        + rewrite nth_error_app1 in Hj by assumption. apply Hfree in Hj. destruct Hj.
        + rewrite nth_error_app2 in Hj by assumption.
          destruct (j - length mk) as [|[|k]]; discriminate. }
    cbn [store mask free length].
    split; [rewrite count_true_app; cbn; lia |].
    split; [reflexivity |]. rewrite app_length. cbn [length]. lia.
  - (* reuse slot i *)
    assert (Hi : nth_error mk i = Some false) by (apply Hfree; left; reflexivity).
    assert (Hlt : i < length mk) by (apply nth_error_Some; congruence).
    destruct (of_nat_not_null (length st) i Hsm ltac:(lia)) as (Hne & Hle).
    unfold vec_set, id_of_index.
    assert (E1 : Nat.ltb i (length st) = true) by (apply Nat.ltb_lt; lia).
    assert (E2 : Nat.ltb i (length mk) = true) by (apply Nat.ltb_lt; lia).
    rewrite E1, E2, Hle. cbn [bind].
    exists (mkArena (set_nth i x st) (set_nth i true mk) f'), (N.of_nat i).
    split; [reflexivity | split; [exact Hne |]].
    split; [apply a_get_dead; cbn [mask]; rewrite Nat2N.id; congruence |].
    split.
    { apply a_get_Some. rewrite Nat2N.id. cbn [store mask].
      split; [exact Hne | split; apply set_nth_same; lia]. }
    split.
    { intros h' Hh'. apply to_nat_neq in Hh'. rewrite Nat2N.id in Hh'.
      apply a_get_ext; cbn [store mask]; apply set_nth_other; auto. }
    split.
    { split; [| split]; cbn [store mask free].
      - rewrite !length_set_nth. exact Hlen.
      - inversion Hnd; assumption.
      - apply free_inv_alloc; assumption. }
    cbn [store mask free length].
    split; [apply count_true_set_true; exact Hi |].
    split; [reflexivity | apply length_set_nth].
Qed.

(* ------------------------------------------------------------------ *)
(* 3. / 4. release *)
Definition release_post (a : arena) (h : N) (a' : arena) : Prop :=
  a_get a' h = None /\ (forall h', h' <> h -> a_get a' h' = a_get a h') /\
  ArenaInv a' /\ length (store a') = length (store a) /\
  (a_get a h = None -> a' = a) /\
  (a_get a h <> None -> a_len a = S (a_len a') /\ a_free_count a' = S (a_free_count a)).

Lemma release_post_dead : forall (a : arena) h,
  ArenaInv a -> a_get a h = None -> release_post a h a.
Proof.
  intros a h Hinv Hg. unfold release_post.
  split; [exact Hg | split; [reflexivity | split; [exact Hinv | split; [reflexivity |]]]].
  split; [reflexivity | intros; contradiction].
Qed.

Lemma release_post_live : forall (a : arena) h st',
  ArenaInv a -> h <> NULL -> nth_error (mask a) (N.to_nat h) = Some true ->
  length st' = length (store a) ->
  (forall j, j <> N.to_nat h -> nth_error st' j = nth_error (store a) j) ->
  release_post a h
    (mkArena st' (set_nth (N.to_nat h) false (mask a)) (N.to_nat h :: free a)).
Proof.
  intros a h st' (Hlen & Hnd & Hfree) Hne Hm Hst' Hoth.
  assert (Hlt : N.to_nat h < length (mask a)) by (apply nth_error_Some; congruence).
  destruct (a_get_live a h Hlen Hne Hm) as (x & Hx & Hg).
  unfold release_post.
  split.
  { apply a_get_dead. cbn [mask]. rewrite set_nth_same by assumption. discriminate. }
  split.
  { intros h' Hh'. apply to_nat_neq in Hh'. apply a_get_ext; cbn [store mask].
    - apply Hoth. exact Hh'.
    - apply set_nth_other. auto. }
  split.
  { split; [| split]; cbn [store mask free].
    - rewrite length_set_nth. congruence.
    - constructor; auto. intros Hin. apply Hfree in Hin. congruence.
    - apply free_inv_release; assumption. }
  split; [exact Hst' |].
  split; [intros E; congruence |].
  intros _. unfold a_len, a_free_count. cbn [mask free length].
  split; [apply count_true_set_false; exact Hm | reflexivity].
Qed.

Theorem deallocate_spec : forall (a : arena) h, ArenaInv a ->
  exists a', deallocate dflt a h = Ok (a', a_get a h) /\ a_get a' h = None /\
    (forall h', h' <> h -> a_get a' h' = a_get a h') /\ ArenaInv a' /\
    length (store a') = length (store a) /\ (a_get a h = None -> a' = a) /\
    (a_get a h <> None ->
     a_len a = S (a_len a') /\ a_free_count a' = S (a_free_count a)).
Proof.
  intros a h Hinv. unfold deallocate. cbv zeta.
  destruct (N.eqb_spec h NULL) as [->|Hne].
  { exists a. split; [rewrite get_null; reflexivity |].
    apply (release_post_dead a NULL Hinv (get_null a)). }
  destruct (Nat.lt_ge_cases (N.to_nat h) (length (mask a))) as [Hin|Hout].
  2:{ rewrite idx_ge by assumption. rewrite mask_at_ge by lia. cbn [negb].
      assert (Hg : a_get a h = None).
      { apply a_get_dead. apply nth_error_None in Hout. rewrite Hout. discriminate. }
      exists a. split; [rewrite Hg; reflexivity |].
      apply (release_post_dead a h Hinv Hg). }
  rewrite idx_lt by assumption.
  destruct (mask_at a (N.to_nat h)) eqn:Hm; cbn [negb].
  - apply mask_at_true in Hm. pose proof Hinv as (Hlen & _ & _).
    assert (Hlt : N.to_nat h < length (mask a)) by (apply nth_error_Some; congruence).
    destruct (a_get_live a h Hlen Hne Hm) as (x & Hx & Hg).
    unfold vec_set, vec_get.
    assert (E1 : Nat.ltb (N.to_nat h) (length (store a)) = true)
      by (apply Nat.ltb_lt; lia).
    assert (E2 : Nat.ltb (N.to_nat h) (length (mask a)) = true)
      by (apply Nat.ltb_lt; lia).
    rewrite E1, E2, Hx, Hg. cbn [bind].
    eexists. split; [reflexivity |].
    rewrite <- Hg.
    apply (release_post_live a h (set_nth (N.to_nat h) dflt (store a)) Hinv Hne Hm).
    + apply length_set_nth.
    + intros j Hj. apply set_nth_other. auto.
  - assert (Hg : a_get a h = None).
    { apply a_get_dead. rewrite <- mask_at_true. congruence. }
    exists a. split; [rewrite Hg; reflexivity |].
    apply (release_post_dead a h Hinv Hg).
Qed.

Theorem deallocate_no_return_spec : forall (a : arena) h, ArenaInv a ->
  exists a', deallocate_no_return a h = Ok (a', is_some (a_get a h)) /\
    a_get a' h = None /\
    (forall h', h' <> h -> a_get a' h' = a_get a h') /\ ArenaInv a' /\
    length (store a') = length (store a) /\ (a_get a h = None -> a' = a) /\
    (a_get a h <> None ->
     a_len a = S (a_len a') /\ a_free_count a' = S (a_free_count a)).
Proof.
  intros a h Hinv. unfold deallocate_no_return. cbv zeta.
  destruct (N.eqb_spec h NULL) as [->|Hne].
  { exists a. split; [rewrite get_null; reflexivity |].
    apply (release_post_dead a NULL Hinv (get_null a)). }
  destruct (Nat.lt_ge_cases (N.to_nat h) (length (mask a))) as [Hin|Hout].
  2:{ rewrite idx_ge by assumption. rewrite Nat.leb_refl. cbn [orb].
      assert (Hg : a_get a h = None).
      { apply a_get_dead. apply nth_error_None in Hout. rewrite Hout. discriminate. }
      exists a. split; [rewrite Hg; reflexivity |].
      apply (release_post_dead a h Hinv Hg). }
  rewrite idx_lt by assumption.
  destruct (mask_at a (N.to_nat h)) eqn:Hm; cbn [negb].
  - apply mask_at_true in Hm. pose proof Hinv as (Hlen & _ & _).
    assert (Hlt : N.to_nat h < length (mask a)) by (apply nth_error_Some; congruence).
    destruct (a_get_live a h Hlen Hne Hm) as (x & Hx & Hg).
    unfold vec_set.
    assert (E1 : Nat.leb (length (mask a)) (N.to_nat h) = false)
      by (apply Nat.leb_gt; lia).
    assert (E2 : Nat.ltb (N.to_nat h) (length (mask a)) = true)
      by (apply Nat.ltb_lt; lia).
    rewrite E1, E2, Hg. cbn [bind orb is_some].
    eexists. split; [reflexivity |].
    rewrite <- Hg.
    apply (release_post_live a h (store a) Hinv Hne Hm); auto.
  - assert (Hg : a_get a h = None).
    { apply a_get_dead. rewrite <- mask_at_true. congruence. }
    rewrite Bool.orb_true_r.
    exists a. split; [rewrite Hg; reflexivity |].
    apply (release_post_dead a h Hinv Hg).
Qed.

(* ------------------------------------------------------------------ *)
(* 5. set *)
Theorem set_spec : forall (a : arena) h x, ArenaInv a ->
  let '(a', b) := a_set a h x in
  b = is_some (a_get a h) /\ (b = true -> a_get a' h = Some x) /\
  (b = false -> a' = a) /\ (forall h', h' <> h -> a_get a' h' = a_get a h') /\
  ArenaInv a' /\ a_len a' = a_len a /\ free a' = free a /\
  length (store a') = length (store a).
Proof.
  intros a h x Hinv.
  assert (Hsame : false = is_some (a_get a h) ->
    false = is_some (a_get a h) /\ (false = true -> a_get a h = Some x) /\
    (false = false -> a = a) /\ (forall h', h' <> h -> a_get a h' = a_get a h') /\
    ArenaInv a /\ a_len a = a_len a /\ free a = free a /\
    length (store a) = length (store a)).
  { intros Hb. repeat (split; [solve [auto | congruence] |]). reflexivity. }
  generalize (contains_spec a h). unfold a_contains, a_set. cbv zeta.
  destruct (N.eqb_spec h NULL) as [E|Hne]; [exact Hsame |].
  destruct (Nat.lt_ge_cases (N.to_nat h) (length (store a))) as [Hlt|Hge];
    [rewrite idx_lt by assumption
    | rewrite idx_ge by assumption; rewrite Nat.ltb_irrefl; exact Hsame].
  destruct (Nat.ltb_spec (N.to_nat h) (length (store a))) as [_|Hge]; [| lia].
  cbn [andb].
  destruct (mask_at a (N.to_nat h)) eqn:Hm; [| exact Hsame].
  intros _.
  clear Hsame. apply mask_at_true in Hm. destruct Hinv as (Hlen & Hnd & Hfree).
  destruct (a_get_live a h Hlen Hne Hm) as (y & Hy & Hg).
  split; [rewrite Hg; reflexivity |].
  split.
  { intros _. apply a_get_Some. cbn [store mask].
    split; [exact Hne | split; [exact Hm | apply set_nth_same; exact Hlt]]. }
  split; [discriminate |].
  split.
  { intros h' Hh'. apply to_nat_neq in Hh'. apply a_get_ext; cbn [store mask]; auto.
    apply set_nth_other. auto. }
  split.
  { split; [| split]; cbn [store mask free]; auto. rewrite length_set_nth. exact Hlen. }
  split; [reflexivity | split; [reflexivity | apply length_set_nth]].
Qed.

(* ------------------------------------------------------------------ *)
(* 7. counting *)
Theorem counts_spec : forall a : arena,
  ArenaInv a -> a_len a + a_free_count a = length (store a).
Proof.
  intros a (Hlen & Hnd & Hfree). unfold a_len, a_free_count.
  rewrite (free_list_length (mask a) (free a) Hnd Hfree), Hlen.
  apply count_true_false_length.
Qed.

Lemma live_items_count : forall (st : list T) mk,
  length st = length mk -> count_true mk = length (live_items st mk).
Proof.
  induction st as [|x st IH]; intros [|b mk] H; cbn [length] in H; try discriminate; auto.
  rewrite count_true_cons. cbn [live_items]. rewrite (IH mk) by lia.
  destruct b; reflexivity.
Qed.

Theorem len_live_items : forall a : arena,
  length (store a) = length (mask a) ->
  a_len a = length (live_items (store a) (mask a)).
Proof. intros a H. apply live_items_count. exact H. Qed.

Lemma live_items_length_le : forall (st : list T) mk,
  length (live_items st mk) <= length st.
Proof.
  induction st as [|x st IH]; intros [|b mk]; cbn [live_items length]; try lia.
  specialize (IH mk). destruct b; cbn [length]; lia.
Qed.

Lemma live_items_trues : forall l : list T, live_items l (map (fun _ => true) l) = l.
Proof. induction l as [|x l IH]; cbn [map live_items]; congruence. Qed.

(* ------------------------------------------------------------------ *)
(* 10. compact *)
Theorem compact_spec : forall a : arena, length (store a) = length (mask a) ->
  ArenaInv (a_compact a) /\
  store (a_compact a) = live_items (store a) (mask a) /\
  a_len (a_compact a) = a_len a /\ a_free_count (a_compact a) = 0 /\
  (forall i, a_get (a_compact a) (N.of_nat i) =
             if N.eqb (N.of_nat i) NULL then None
             else nth_error (live_items (store a) (mask a)) i).
Proof.
  intros a Hlen. unfold a_compact.
  set (items := live_items (store a) (mask a)).
  split.
  { split; [| split; [constructor |]]; cbn [store mask free].
    - rewrite map_length. reflexivity.
    - intros i. split; [intros [] |]. intros H. apply nth_error_In in H.
      apply in_map_iff in H. destruct H as (? & ? & _). discriminate. }
  split; [reflexivity |].
  split.
  { unfold a_len. cbn [mask]. rewrite count_true_trues. symmetry.
    apply live_items_count. exact Hlen. }
  split; [reflexivity |].
  intros i. rewrite a_get_eq. destruct (N.of_nat i =? NULL)%N; auto.
  rewrite Nat2N.id. unfold mask_at. cbn [store mask].
  destruct (nth_error items i) as [x|] eqn:E.
  - rewrite (map_nth_error (fun _ => true) i items E). reflexivity.
  - destruct (nth_error (map (fun _ : T => true) items) i) as [[]|]; reflexivity.
Qed.

(* ------------------------------------------------------------------ *)
(* 11. refinement.  The canonical abstraction of an arena lists its live slots. *)
Fixpoint live_pairs (s : nat) (st : list T) (mk : list bool) : list (N * T) :=
  match st, mk with
  | x :: st', b :: mk' =>
      if b then (N.of_nat s, x) :: live_pairs (S s) st' mk' else live_pairs (S s) st' mk'
  | _, _ => []
  end.

Lemma map_snd_live_pairs : forall st mk s,
  map snd (live_pairs s st mk) = live_items st mk.
Proof.
  induction st as [|x st IH]; intros [|[] mk] s; cbn [live_pairs live_items map snd]; auto.
  f_equal. apply IH.
Qed.

Lemma in_live_pairs : forall st mk s h x,
  In (h, x) (live_pairs s st mk) <->
  exists j, h = N.of_nat (s + j) /\ nth_error st j = Some x /\
            nth_error mk j = Some true.
Proof.
  induction st as [|y st IH]; intros mk s h x.
  - cbn [live_pairs]. split; [intros [] | intros (j & _ & E & _); destruct j; discriminate].
  - destruct mk as [|b mk].
    + cbn [live_pairs].
      split; [intros [] | intros (j & _ & _ & E); destruct j; discriminate].
    + destruct b; cbn [live_pairs In]; rewrite IH.
      * split.
        -- intros [E | (j & -> & H1 & H2)].
           ++ inversion E; subst. exists 0. rewrite Nat.add_0_r. auto.
           ++ exists (S j). rewrite Nat.add_succ_r. auto.
        -- intros (j & -> & H1 & H2). destruct j as [|j]; cbn [nth_error] in H1, H2.
           ++ left. inversion H1. rewrite Nat.add_0_r. reflexivity.
           ++ right. exists j. rewrite Nat.add_succ_r. auto.
      * split.
        -- intros (j & -> & H1 & H2). exists (S j). rewrite Nat.add_succ_r. auto.
        -- intros (j & -> & H1 & H2). destruct j as [|j]; cbn [nth_error] in H1, H2.
           ++ discriminate.
           ++ exists j. rewrite Nat.add_succ_r. auto.
Qed.

Lemma NoDup_live_pairs : forall st mk s, NoDup (map fst (live_pairs s st mk)).
Proof.
  induction st as [|x st IH]; intros [|[] mk] s; cbn [live_pairs map fst];
    try constructor; auto.
  intros Hin. apply in_map_iff in Hin. destruct Hin as ([h y] & E & Hin).
  cbn [fst] in E. subst h. apply in_live_pairs in Hin. destruct Hin as (j & E & _). lia.
Qed.

Lemma assoc_in : forall (l : list (N * T)) h x,
  NoDup (map fst l) -> (In (h, x) l <-> assoc l h = Some x).
Proof.
  induction l as [|[k v] l IH]; intros h x Hnd; cbn [assoc In].
  - split; [intros [] | discriminate].
  - cbn [map fst] in Hnd. inversion Hnd as [|? ? Hnotin Hnd']; subst.
    destruct (N.eqb_spec k h) as [->|Hne].
    + split.
      * intros [E | Hin]; [inversion E; reflexivity |].
        exfalso. apply Hnotin. apply in_map_iff. exists (h, x). auto.
      * intros E. inversion E. left. reflexivity.
    + rewrite <- (IH h x Hnd'). split; [| auto].
      intros [E | ?]; [inversion E; contradiction | auto].
Qed.

Lemma in_live_pairs_get : forall (a : arena) h x, small a ->
  (In (h, x) (live_pairs 0 (store a) (mask a)) <-> a_get a h = Some x).
Proof.
  intros a h x Hsm. rewrite in_live_pairs, a_get_Some. cbn [Nat.add]. split.
  - intros (j & -> & H1 & H2). rewrite Nat2N.id.
    assert (Hlt : j < length (store a)) by (apply nth_error_Some; congruence).
    destruct (of_nat_not_null (length (store a)) j Hsm ltac:(lia)) as (Hne & _). auto.
  - intros (Hne & H2 & H1). exists (N.to_nat h). rewrite N2Nat.id. auto.
Qed.

Definition abs (a : arena) : amap T :=
  mkAmap (live_pairs 0 (store a) (mask a)) (length (free a)).

Lemma R_abs : forall a : arena, small a -> R a (abs a).
Proof.
  intros a Hsm. unfold R, abs. cbn [live reusable].
  split; [apply NoDup_live_pairs | split; [| reflexivity]].
  intros h. apply option_ext. intros x. rewrite <- (in_live_pairs_get a h x Hsm).
  apply assoc_in. apply NoDup_live_pairs.
Qed.

Lemma live_pairs_perm : forall (a : arena) m, small a -> R a m ->
  Permutation (live_pairs 0 (store a) (mask a)) (live m).
Proof.
  intros a m Hsm (Hnd & Hget & _). apply NoDup_Permutation.
  - apply (NoDup_map_inv fst). apply NoDup_live_pairs.
  - apply (NoDup_map_inv fst). exact Hnd.
  - intros [h x]. rewrite (in_live_pairs_get a h x Hsm), Hget. symmetry.
    apply assoc_in. exact Hnd.
Qed.

Theorem len_card : forall (a : arena) m, ArenaInv a -> small a -> R a m ->
  a_len a = length (live m).
Proof.
  intros a m (Hlen & _) Hsm HR.
  rewrite (len_live_items a Hlen), <- (map_snd_live_pairs (store a) (mask a) 0), map_length.
  apply Permutation_length. apply live_pairs_perm; assumption.
Qed.

Lemma R_new : R (@a_new T) (mkAmap [] 0).
Proof.
  split; [constructor | split; [| reflexivity]]. intros h. apply get_new.
Qed.

(* a release step, common to deallocate / deallocate_with_default / deallocate_no_return *)
Lemma release_refines : forall (a : arena) m o h a',
  ArenaInv a -> small a -> R a m -> release_op o = Some h -> release_post a h a' ->
  exists m', sp m o (release_out o (a_get a h)) m' /\ R a' m'.
Proof.
  intros a m o h a' Hinv Hsm HR Ho (Hg' & Hoth & Hinv' & Hst & Hdead & Hlive).
  pose proof HR as (Hnd & Hget & Hreu).
  destruct (a_get a h) as [x|] eqn:Hg.
  - destruct Hlive as (Hl & Hf); [discriminate |].
    assert (Hsm' : small a') by (unfold small in *; rewrite Hst; exact Hsm).
    pose proof (R_abs a' Hsm') as HR'. pose proof HR' as (_ & Hget' & Hreu').
    exists (abs a'). split; [| exact HR'].
    apply sp_rel_live with (h := h); auto.
    + rewrite <- Hget. exact Hg.
    + rewrite <- Hget'. exact Hg'.
    + intros h' Hh'. rewrite <- Hget', <- Hget. apply Hoth. exact Hh'.
    + rewrite <- (len_card a' (abs a') Hinv' Hsm' HR'), <- (len_card a m Hinv Hsm HR).
      symmetry. exact Hl.
    + rewrite Hreu', Hreu. exact Hf.
  - rewrite (Hdead eq_refl). exists m. split; [| exact HR].
    apply sp_rel_dead with (h := h); auto. rewrite <- Hget. exact Hg.
Qed.

Theorem step_refines : forall (a : arena) m o, ArenaInv a -> R a m ->
  (N.of_nat (S (length (store a))) < NULL)%N ->
  exists m', sp m o (snd (astep dflt a o)) m' /\ R (fst (astep dflt a o)) m' /\
    ArenaInv (fst (astep dflt a o)) /\ snd (astep dflt a o) <> OPanic T /\
    length (store (fst (astep dflt a o))) <= S (length (store a)).
Proof.
  intros a m o Hinv HR Hb.
  assert (Hsm : small a) by (unfold small, NULL in *; lia).
  pose proof HR as (Hnd & Hget & Hreu).
  pose proof (len_card a m Hinv Hsm HR) as Hlen.
  destruct o as [x|h|h|h|h|h x|h| | | | | | |]; cbn [astep].
  - (* AAlloc *)
    destruct (allocate_spec a x Hinv Hsm)
      as (a' & h & E & Hne & Hg0 & Hg1 & Hoth & Hinv' & Hl & Hf & Hst).
    rewrite E. cbn [fst snd].
    assert (Hle : length (store a') <= S (length (store a)))
      by (rewrite Hst; destruct (free a); lia).
    assert (Hsm' : small a') by (unfold small, NULL in *; lia).
    pose proof (R_abs a' Hsm') as HR'. pose proof HR' as (_ & Hget' & Hreu').
    exists (abs a').
    split; [| split; [exact HR' | split; [exact Hinv' | split; [discriminate | exact Hle]]]].
    apply sp_alloc; auto.
    + rewrite <- Hget. exact Hg0.
    + rewrite <- Hget'. exact Hg1.
    + intros h' Hh'. rewrite <- Hget', <- Hget. apply Hoth. exact Hh'.
    + rewrite <- (len_card a' (abs a') Hinv' Hsm' HR'), <- Hlen. exact Hl.
    + rewrite Hreu', Hreu. exact Hf.
  - (* AFree *)
    destruct (deallocate_spec a h Hinv) as (a' & E & Hpost).
    rewrite E. cbn [fst snd].
    destruct (release_refines a m (AFree T h) h a' Hinv Hsm HR eq_refl Hpost)
      as (m' & Hsp & HR').
    destruct Hpost as (_ & _ & Hinv' & Hst & _).
    exists m'. split; [exact Hsp | split; [exact HR' | split; [exact Hinv' |]]].
    split; [discriminate | lia].
  - (* AFreeD *)
    unfold deallocate_with_default.
    destruct (deallocate_spec a h Hinv) as (a' & E & Hpost).
    rewrite E. cbn [fst snd].
    destruct (release_refines a m (AFreeD T h) h a' Hinv Hsm HR eq_refl Hpost)
      as (m' & Hsp & HR').
    destruct Hpost as (_ & _ & Hinv' & Hst & _).
    exists m'. split; [exact Hsp | split; [exact HR' | split; [exact Hinv' |]]].
    split; [discriminate | lia].
  - (* AFreeNR *)
    destruct (deallocate_no_return_spec a h Hinv) as (a' & E & Hpost).
    rewrite E. cbn [fst snd].
    destruct (release_refines a m (AFreeNR T h) h a' Hinv Hsm HR eq_refl Hpost)
      as (m' & Hsp & HR').
    destruct Hpost as (_ & _ & Hinv' & Hst & _).
    exists m'. split; [exact Hsp | split; [exact HR' | split; [exact Hinv' |]]].
    split; [discriminate | lia].
  - (* AGet *)
    cbn [fst snd]. exists m. rewrite Hget.
    split; [apply sp_get | split; [exact HR | split; [exact Hinv |]]].
    split; [discriminate | lia].
  - (* ASet *)
    generalize (set_spec a h x Hinv). destruct (a_set a h x) as [a' b].
    intros (Hbe & Ht & Hf & Hoth & Hinv' & Hl & Hfr & Hst). cbn [fst snd].
    destruct b.
    + assert (Hsm' : small a') by (unfold small in *; rewrite Hst; exact Hsm).
      pose proof (R_abs a' Hsm') as HR'. pose proof HR' as (_ & Hget' & Hreu').
      exists (abs a').
      split; [| split; [exact HR' | split; [exact Hinv' | split; [discriminate | lia]]]].
      apply sp_set_live.
      * rewrite <- Hget. destruct (a_get a h); discriminate.
      * rewrite <- Hget'. apply Ht. reflexivity.
      * intros h' Hh'. rewrite <- Hget', <- Hget. apply Hoth. exact Hh'.
      * rewrite <- (len_card a' (abs a') Hinv' Hsm' HR'), <- Hlen. exact Hl.
      * rewrite Hreu', Hreu, Hfr. reflexivity.
    + rewrite (Hf eq_refl). exists m.
      split; [| split; [exact HR | split; [exact Hinv | split; [discriminate | lia]]]].
      apply sp_set_dead. rewrite <- Hget. destruct (a_get a h); [discriminate | reflexivity].
  - (* AHas *)
    cbn [fst snd]. exists m. rewrite contains_spec, Hget.
    split; [apply sp_has | split; [exact HR | split; [exact Hinv |]]].
    split; [discriminate | lia].
  - (* ALen *)
    cbn [fst snd]. exists m. rewrite Hlen.
    split; [apply sp_len | split; [exact HR | split; [exact Hinv |]]].
    split; [discriminate | lia].
  - (* AAllocCount *)
    cbn [fst snd]. exists m. unfold a_allocated_count. rewrite Hlen.
    split; [apply sp_alloc_count | split; [exact HR | split; [exact Hinv |]]].
    split; [discriminate | lia].
  - (* AIsEmpty *)
    cbn [fst snd]. exists m. unfold a_is_empty. rewrite Hlen.
    split; [apply sp_is_empty | split; [exact HR | split; [exact Hinv |]]].
    split; [discriminate | lia].
  - (* AFreeCount *)
    cbn [fst snd]. exists m. unfold a_free_count. rewrite <- Hreu.
    split; [apply sp_free_count | split; [exact HR | split; [exact Hinv |]]].
    split; [discriminate | lia].
  - (* AStats *)
    unfold a_stats, a_free_count. cbn [fst snd]. exists m. rewrite Hlen, <- Hreu.
    split; [apply sp_stats | split; [exact HR | split; [exact Hinv |]]].
    split; [discriminate | lia].
  - (* AClear *)
    cbn [fst snd]. unfold a_clear. exists (mkAmap [] 0).
    split; [apply sp_clear | split; [exact R_new | split; [exact inv_new |]]].
    split; [discriminate | cbn; lia].
  - (* ACompact *)
    cbn [fst snd]. pose proof Hinv as (Hlen' & _).
    destruct (compact_spec a Hlen') as (Hinv' & Hst & _).
    assert (Hle : length (store (a_compact a)) <= length (store a))
      by (rewrite Hst; apply live_items_length_le).
    assert (Hsm' : small (a_compact a)) by (unfold small, NULL in *; lia).
    exists (abs (a_compact a)).
    split; [| split; [apply R_abs; exact Hsm' | split; [exact Hinv' |]]].
    + apply sp_compact; [| reflexivity].
      unfold abs. cbn [live]. rewrite map_snd_live_pairs. unfold a_compact at 1 2.
      cbn [store mask]. rewrite live_items_trues.
      rewrite <- (map_snd_live_pairs (store a) (mask a) 0).
      apply Permutation_map. apply live_pairs_perm; assumption.
    + split; [discriminate | lia].
Qed.

Theorem arena_refines : forall ops (a : arena) m, ArenaInv a -> R a m ->
  (N.of_nat (length (store a) + length ops) < NULL)%N ->
  exists m', sp_run m ops (snd (arun dflt a ops)) m' /\ R (fst (arun dflt a ops)) m' /\
    ArenaInv (fst (arun dflt a ops)) /\ ~ In (OPanic T) (snd (arun dflt a ops)).
Proof.
  induction ops as [|o ops IH]; intros a m Hinv HR Hb.
  - cbn [arun fst snd]. exists m.
    split; [constructor | split; [exact HR | split; [exact Hinv | intros []]]].
  - cbn [length] in Hb.
    assert (Hb1 : (N.of_nat (S (length (store a))) < NULL)%N)
      by (unfold NULL in *; lia).
    destruct (step_refines a m o Hinv HR Hb1) as (m1 & Hsp & HR1 & Hinv1 & Hnp & Hle).
    cbn [arun]. destruct (astep dflt a o) as [a1 out]. cbn [fst snd] in *.
    assert (Hb2 : (N.of_nat (length (store a1) + length ops) < NULL)%N)
      by (unfold NULL in *; lia).
    destruct (IH a1 m1 Hinv1 HR1 Hb2) as (m2 & Hrun & HR2 & Hinv2 & Hnp2).
    destruct (arun dflt a1 ops) as [a2 outs]. cbn [fst snd] in *.
    exists m2.
    split; [apply sr_cons with (m1 := m1); assumption | split; [exact HR2 |]].
    split; [exact Hinv2 |]. intros [E | Hin]; [apply Hnp; exact E | apply Hnp2; exact Hin].
Qed.

Corollary arena_refines_new : forall ops, (N.of_nat (length ops) < NULL)%N ->
  exists m', sp_run (mkAmap [] 0) ops (snd (arun dflt a_new ops)) m' /\
    R (fst (arun dflt a_new ops)) m' /\ ArenaInv (fst (arun dflt a_new ops)) /\
    ~ In (OPanic T) (snd (arun dflt a_new ops)).
Proof.
  intros ops H. apply arena_refines; [exact inv_new | exact R_new | exact H].
Qed.

End ArenaProofs.

(* ------------------------------------------------------------------ *)
(* 12. non-vacuity: concrete histories on T := Z, dflt := 0.
   allocs, free, double free, reuse of the released slot, no-return free (twice),
   free of null / out-of-range handles, set on live and dead handles. *)
Example arena_run_release :
  arun 0%Z a_new
    [AAlloc 10%Z; AAlloc 20%Z; AAlloc 30%Z; AFree Z 1; AFree Z 1; AGet Z 1; ALen Z;
     AAlloc 40%Z; AGet Z 1; AFreeNR Z 0; AFreeNR Z 0; AFreeD Z 2; AFreeD Z NULL;
     AFree Z 7; ASet 1 41%Z; ASet 0 5%Z; AHas Z 2; AStats Z]
  = (mkArena [10%Z; 41%Z; 0%Z] [false; true; false] [2; 0],
     [OId Z 0; OId Z 1; OId Z 2; OItem (Some 20%Z); OItem None; OItem None; ONat Z 2;
      OId Z 1; OItem (Some 40%Z); OBool Z true; OBool Z false; OItem (Some 30%Z);
      OItem None; OItem None; OBool Z true; OBool Z false; OBool Z false; OStats Z 1 2]).
Proof. vm_compute. reflexivity. Qed.

(* ... and with a compaction: the survivors are renumbered 0,1 in storage order *)
Example arena_run_compact :
  arun 0%Z a_new
    [AAlloc 10%Z; AAlloc 20%Z; AAlloc 30%Z; AFree Z 1; AFree Z 1; AGet Z 1; ALen Z;
     AAlloc 40%Z; AGet Z 1; AFreeNR Z 0; AFreeNR Z 0; AFreeD Z NULL; AFree Z 7;
     ASet 2 33%Z; ASet 0 5%Z; AHas Z 2; AStats Z; ACompact Z; AStats Z;
     AGet Z 0; AGet Z 1; AGet Z 2; AIsEmpty Z]
  = (mkArena [40%Z; 33%Z] [true; true] [],
     [OId Z 0; OId Z 1; OId Z 2; OItem (Some 20%Z); OItem None; OItem None; ONat Z 2;
      OId Z 1; OItem (Some 40%Z); OBool Z true; OBool Z false; OItem None; OItem None;
      OBool Z true; OBool Z false; OBool Z true; OStats Z 2 1; OUnit Z; OStats Z 2 0;
      OItem (Some 40%Z); OItem (Some 33%Z); OItem None; OBool Z false]).
Proof. vm_compute. reflexivity. Qed.

Print Assumptions arena_refines_new.
Print Assumptions arena_refines.
Print Assumptions step_refines.
Print Assumptions allocate_spec.
Print Assumptions deallocate_spec.
Print Assumptions deallocate_no_return_spec.
Print Assumptions set_spec.
Print Assumptions compact_spec.
Print Assumptions counts_spec.
Print Assumptions len_card.
